#!/usr/bin/env python3
"""Assemble MANIFEST.json from manifest.d/CNN.json fragments (one per claimed property)."""
import glob
import json
import os

VERIF = os.path.dirname(os.path.dirname(os.path.abspath(__file__)))
props = [json.loads(l)['id'] for l in open(os.path.join(VERIF, 'properties.jsonl'))]
checks = []
claimed = set()
for f in sorted(glob.glob(os.path.join(VERIF, 'manifest.d', 'C*.json'))):
    d = json.load(open(f))
    pid = d['property_id']
    d.setdefault('quick_cmd', './check %s --tier quick' % pid)
    d.setdefault('thorough_cmd', './check %s --tier thorough' % pid)
    d.setdefault('evidence_file', 'evidence/%s.json' % pid)
    d.setdefault('replay_cmd_template', './check %s --replay {path}' % pid)
    d.setdefault('engine', 'sknet-lean')
    checks.append(d)
    claimed.add(pid)
na_path = os.path.join(VERIF, 'manifest.d', 'not_applicable.json')
na = json.load(open(na_path)) if os.path.exists(na_path) else {}
not_applicable = [{'property_id': p, 'reason': na.get(p, 'not claimed yet: model and theorems for this property are still being built (see DESIGN.md section 5); no check is registered so nothing is asserted about it')}
                  for p in props if p not in claimed]
m = {
    'version': 1,
    'setup_cmd': './setup.sh',
    'hooks': {
        'guard': 'SKNETWORK_VERIF',
        'enable': 'no hook is needed: the checks import an overlay build of the working tree (tools/vlib/overlay.py); the bounds-checked variant edits only the overlay copy',
        'baseline_off_cmd': 'cd /repo && /venv/bin/python -m pytest -ra -q -p no:cacheprovider --timeout=900 --continue-on-collection-errors',
        'source_commits': [],
        'add_only': True,
    },
    'engines': [{
        'name': 'sknet-lean', 'path': 'lean/',
        'serves_properties': sorted(claimed),
        'kind_free_text': 'Lean 4 library SkNet: import-free executable models (SkNet/Model), specifications (SkNet/Spec), '
                          'property theorems (SkNet/Properties), line-protocol handlers (SkNet/Drive); tied to /repo by '
                          'translators (tools/translate) and by the correspondence harnesses (tools/harness) run on an overlay build',
    }],
    'checks': checks,
    'notes': 'Every check: overlay build of /repo working tree -> (translators) -> lake build -> audit (#print axioms, forbidden-word scan) '
             '-> correspondence run/spec/contract lines through the Lean driver -> verdict (DESIGN.md 2.5). Exit 2 = tool failure.',
    'not_applicable': not_applicable,
}
json.dump(m, open(os.path.join(VERIF, 'MANIFEST.json'), 'w'), indent=1)
print('claimed', sorted(claimed), 'unclaimed', [x['property_id'] for x in not_applicable])
