#!/usr/bin/env python3
"""Run every registered check on the current tree for several seeds and print a summary.

  tools/run_all.py [--tier quick|thorough] [--seeds 1,2,0] [--jobs 4] [--props C01,C02]

Properties run in parallel (`--jobs`), the seeds of one property one after the other; the last seed listed is the
one whose evidence file stays on disk (put 0 last). Exit status: 0 if every run exited 0, else 1.
"""
import argparse
import concurrent.futures as cf
import json
import os
import subprocess
import sys
import time

VERIF = os.path.dirname(os.path.dirname(os.path.abspath(__file__)))


def run_prop(prop, tier, seeds):
    rows = []
    for sd in seeds:
        env = dict(os.environ, VERIF_SEED=str(sd))
        t0 = time.time()
        r = subprocess.run(['./check', prop, '--tier', tier], cwd=VERIF, env=env, stdout=subprocess.PIPE,
                           stderr=subprocess.STDOUT, text=True)
        lines = r.stdout.split('\n')
        viol = [ln for ln in lines if ln.startswith('VIOLATION')]
        known = [ln for ln in lines if ln.startswith('KNOWN-FINDING')]
        summ = [ln for ln in lines if ln.startswith(prop + ' tier')]
        rows.append({'prop': prop, 'seed': sd, 'exit': r.returncode, 'violations': len(viol), 'known': len(known),
                     'wall': round(time.time() - t0, 1), 'summary': summ[-1] if summ else '',
                     'tail': '\n'.join(lines[-12:]) if r.returncode not in (0,) else ''})
    return rows


def main():
    ap = argparse.ArgumentParser()
    ap.add_argument('--tier', default='quick')
    ap.add_argument('--seeds', default='1,2,0')
    ap.add_argument('--jobs', type=int, default=4)
    ap.add_argument('--props', default=None)
    a = ap.parse_args()
    man = json.load(open(os.path.join(VERIF, 'MANIFEST.json')))
    props = a.props.split(',') if a.props else [c['property_id'] for c in man['checks']]
    seeds = [int(x) for x in a.seeds.split(',')]
    bad = 0
    with cf.ThreadPoolExecutor(max_workers=a.jobs) as ex:
        futs = {ex.submit(run_prop, p, a.tier, seeds): p for p in props}
        for f in cf.as_completed(futs):
            for row in f.result():
                flag = 'ok ' if row['exit'] == 0 else ('VIOL' if row['exit'] == 1 else 'TOOL')
                print('%s %s seed=%d exit=%d violations=%d known=%d wall=%.0fs | %s' % (
                    flag, row['prop'], row['seed'], row['exit'], row['violations'], row['known'], row['wall'],
                    row['summary'][:160]), flush=True)
                if row['exit'] != 0:
                    bad += 1
                    print(row['tail'], flush=True)
    print('runs with a non-zero exit:', bad)
    return 0 if bad == 0 else 1


if __name__ == '__main__':
    sys.exit(main())
