#!/usr/bin/env python3
"""Run the registered checks against a seeded change kept under /verif/seeded/<id>/.

  tools/seed_run.py <id> [--tier quick|thorough] [--props C10,C03] [--in-repo]

Default: a scratch worktree of /repo's HEAD is created under /root/scratch, the patch applied there and the
checks run with VERIF_REPO pointing at it (nothing in /repo is touched; other users of /repo are not
disturbed); with --in-repo the patch is applied to /repo itself (git apply) and undone afterwards
(git checkout -- .), as the task describes. The result is written to seeded/<id>/result.json.
The evidence files the runs overwrite are restored from git afterwards (they must come from the clean tree).
"""
import argparse
import json
import os
import shutil
import subprocess
import sys
import time

VERIF = os.path.dirname(os.path.dirname(os.path.abspath(__file__)))


def sh(cmd, **kw):
    return subprocess.run(cmd, shell=True, stdout=subprocess.PIPE, stderr=subprocess.STDOUT, text=True, **kw)


def main():
    ap = argparse.ArgumentParser()
    ap.add_argument('id')
    ap.add_argument('--tier', default='quick')
    ap.add_argument('--props', default=None)
    ap.add_argument('--in-repo', action='store_true')
    a = ap.parse_args()
    d = os.path.join(VERIF, 'seeded', a.id)
    meta = json.load(open(os.path.join(d, 'meta.json')))
    props = a.props.split(',') if a.props else meta.get('checks', [meta['property']])
    patch = os.path.join(d, 'patch.diff')
    env = dict(os.environ)
    if a.in_repo:
        wt = '/repo'
        r = sh('git -C /repo status --porcelain --untracked-files=no')
        if r.stdout.strip():
            print('refusing: /repo has uncommitted changes')
            return 2
        r = sh('git -C /repo apply %s' % patch)
    else:
        wt = '/root/scratch/seedrun_%s_%d' % (a.id, os.getpid())
        sh('git -C /repo worktree remove --force %s' % wt)
        shutil.rmtree(wt, ignore_errors=True)
        r = sh('git -C /repo worktree add --detach %s' % wt)
        r = sh('git -C %s apply %s' % (wt, patch))
        env['VERIF_REPO'] = wt
    if r.returncode != 0:
        print('patch does not apply:', r.stdout[-800:])
        if not a.in_repo:
            sh('git -C /repo worktree remove --force %s' % wt)
        return 2
    results = {}
    evbak = '/root/scratch/evidence_backup_%s_%d' % (a.id, os.getpid())
    shutil.rmtree(evbak, ignore_errors=True)
    shutil.copytree(os.path.join(VERIF, 'evidence'), evbak)
    try:
        for p in props:
            t0 = time.time()
            rr = subprocess.run(['./check', p, '--tier', a.tier], cwd=VERIF, env=env, stdout=subprocess.PIPE,
                                stderr=subprocess.STDOUT, text=True)
            lines = [ln for ln in rr.stdout.split('\n') if ln.startswith(('VIOLATION', 'KNOWN-FINDING', p + ' tier'))]
            replays = [ln.split('replay=')[1].split()[0] for ln in lines if ln.startswith('VIOLATION')]
            first = None
            if replays:
                try:
                    rp = json.load(open(os.path.join(VERIF, replays[0])))
                    first = {'sig': rp.get('sig'), 'kind': rp.get('kind'), 'detail': str(rp.get('detail'))[:400]}
                except Exception as e:  # noqa
                    first = {'error': repr(e)}
            results[p] = {'exit': rr.returncode, 'violations': len(replays), 'detected': rr.returncode == 1,
                          'no_failing_input_found': any('no-failing-input-found' in ln for ln in lines),
                          'first_replay': first, 'wall_s': round(time.time() - t0, 1),
                          'summary': [ln[:300] for ln in lines[-3:]]}
            for f in replays:
                try:
                    os.remove(os.path.join(VERIF, f))
                except OSError:
                    pass
            print(p, 'exit', rr.returncode, 'violations', len(replays), '%.0fs' % (time.time() - t0))
            if rr.returncode == 2:
                print(rr.stdout[-1500:])
    finally:
        if a.in_repo:
            sh('git -C /repo checkout -- .')
        else:
            sh('git -C /repo worktree remove --force %s' % wt)
            shutil.rmtree(wt, ignore_errors=True)
        # evidence must come from the clean tree: put back what was there before
        for f in os.listdir(evbak):
            shutil.copy2(os.path.join(evbak, f), os.path.join(VERIF, 'evidence', f))
        shutil.rmtree(evbak, ignore_errors=True)
    # results of earlier runs for other properties are kept (several owners run their own check on a shared seed)
    rp = os.path.join(d, 'result.json')
    merged = {}
    if a.props and os.path.exists(rp):
        try:
            old = json.load(open(rp))
            if old.get('tier') == a.tier:
                merged = dict(old.get('results', {}))
        except Exception:  # noqa
            merged = {}
    merged.update(results)
    out = {'tier': a.tier, 'mode': 'in-repo' if a.in_repo else 'worktree+VERIF_REPO', 'results': merged,
           'detected_by': sorted(p for p, v in merged.items() if v['detected'])}
    json.dump(out, open(rp, 'w'), indent=1)
    return 0


if __name__ == '__main__':
    sys.exit(main())
