#!/usr/bin/env python3
"""Run /repo's baseline test command (guard off — there are no hooks) and compare with BASELINE.json's stable_pass."""
import json, os, subprocess, sys, tempfile
import xml.etree.ElementTree as ET
b = json.load(open('/root/.vp/BASELINE.json'))
out = tempfile.mktemp(suffix='.xml', dir='/root/scratch')
os.makedirs('/root/scratch', exist_ok=True)
cmd = b['cmd'].replace('<file>', out)
r = subprocess.run(cmd, shell=True, stdout=subprocess.PIPE, stderr=subprocess.STDOUT, text=True)
passed = set()
for tc in ET.parse(out).getroot().iter('testcase'):
    if not any(ch.tag in ('failure', 'error', 'skipped') for ch in tc):
        passed.add(tc.get('classname') + '::' + tc.get('name'))
os.remove(out)
missing = sorted(set(b['stable_pass']) - passed)
print('stable_pass', len(b['stable_pass']), 'passed now', len(passed), 'missing', len(missing))
for m in missing[:40]:
    print('  MISSING', m)
sys.exit(1 if missing else 0)
