import argparse
import os
import sys

sys.path.insert(0, os.path.dirname(os.path.dirname(os.path.abspath(__file__))))
os.environ.setdefault('OMP_NUM_THREADS', '4')
from vlib import core  # noqa: E402


def main():
    ap = argparse.ArgumentParser()
    ap.add_argument('prop')
    ap.add_argument('--tier', default=os.environ.get('VERIF_TIER', 'quick'), choices=['quick', 'thorough'])
    ap.add_argument('--replay', default=None)
    a = ap.parse_args()
    sys.exit(core.run_check(a.prop.upper(), a.tier, a.replay))


if __name__ == '__main__':
    main()
