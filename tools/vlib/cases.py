"""Generic case plumbing for correspondence harnesses.

A `Case` carries: the `run` request line for the Lean model, the implementation's (canonicalised)
answer in the same textual form, optionally a `spec` request line (the Lean specification evaluated
on the implementation's own output, must answer `holds`), a signature (`sig`, used to match known
findings and to de-duplicate reports) and a JSON-able description (`desc`, written into the replay).
"""


class Case:
    __slots__ = ('key', 'sig', 'run', 'impl', 'spec', 'nontrivial', 'desc', 'canon', 'tol')

    def __init__(self, key, sig, run, impl, spec=None, nontrivial=True, desc=None, canon=None, tol=None):
        self.key, self.sig, self.run, self.impl, self.spec = key, sig, run, impl, spec
        self.nontrivial, self.desc, self.canon, self.tol = nontrivial, desc, canon, tol


class Sub:
    """A context that collects failures without touching the counters of the main run (used by `search`)."""

    def __init__(self, ctx):
        self.ctx = ctx
        self.spec_failures = []
        self.run_disagreements = []
        self.rng = ctx.rng
        self.tier = ctx.tier
        self.quick = ctx.quick
        self.seed = ctx.seed

    def __getattr__(self, name):
        # anything else (overlay_root, extra, notes, drive_modules, np_rng ...) is the main context's
        return getattr(self.ctx, name)

    def lean(self, lines):
        return self.ctx.lean(lines)

    def case(self, *a, **k):
        pass

    def count(self, *a, **k):
        pass

    def note(self, *a, **k):
        pass

    def spec_fail(self, sig, case, detail):
        self.spec_failures.append({'sig': sig, 'case': case, 'detail': detail})

    def disagree(self, sig, case, model, impl, line=None):
        self.run_disagreements.append({'sig': sig, 'case': case, 'model': model, 'impl': impl})

    def found(self, limit=5):
        return [{'sig': f['sig'], 'case': f['case'], 'detail': f['detail']} for f in self.spec_failures[:limit]]


def call(f, errors=(ValueError, IndexError, TypeError, KeyError, ZeroDivisionError)):
    """Run the implementation, mapping the exception *class* to the small enum of the models."""
    try:
        return f()
    except errors as e:
        return 'err ' + type(e).__name__


def evaluate(ctx, cases, same=None):
    """Send run/spec lines, compare. `same(case, model_answer, impl_answer, spec_ok)` may canonicalise."""
    lines, idx = [], []
    for c in cases:
        idx.append(len(lines))
        if c.run:
            lines.append(c.run)
        if c.spec:
            lines.append(c.spec)
    answers = ctx.lean(lines)
    for c, i in zip(cases, idx):
        model = answers[i] if c.run else None
        ctx.case(c.key, c.nontrivial, sample={'request': c.run or c.spec, 'model': model, 'impl': c.impl})
        ctx.count('entry:' + str(c.sig.get('entry')))
        ctx.count('answer:' + ('error' if str(c.impl).startswith('err') else 'ok'))
        spec_ok = True
        if c.spec:
            sp = answers[i + (1 if c.run else 0)]
            if sp != 'holds':
                spec_ok = False
                ctx.spec_fail(c.sig, c.desc, {'spec_line': c.spec, 'spec_answer': sp, 'impl': c.impl, 'model': model})
        if not c.run:
            continue
        if model.startswith('unknown-cmd') or model == 'bad-args':
            from .core import ToolFailure
            raise ToolFailure('driver rejected request %r -> %r' % (c.run, model))
        eq = (model == c.impl)
        if not eq and same is not None:
            eq = bool(same(c, model, c.impl, spec_ok))
        if not eq and spec_ok:
            ctx.disagree(c.sig, c.desc, model, c.impl, c.run)
