"""Overlay build of /repo's *working tree*.

Mirrors /repo/sknetwork (.py/.pyx/.pxd) into /verif/.cache/overlay/sknetwork and compiles every
.pyx whose content hash (together with all .pxd files and the build flags) is not in the
object cache /verif/.cache/so.  The harnesses import sknetwork from the overlay, never from
/repo (whose in-place .so files may be stale with respect to an edited .pyx).

A second flavour ("checked") strips `boundscheck(False)`/`wraparound(False)` decorators in the
overlay copy and compiles with -D_GLIBCXX_ASSERTIONS; used by C17's thorough tier.
"""
import fcntl
import hashlib
import os
import re
import shutil
import subprocess
import sys
import sysconfig
import time

REPO = os.environ.get('VERIF_REPO', '/repo')
VERIF = os.path.dirname(os.path.dirname(os.path.dirname(os.path.abspath(__file__))))
CACHE = os.path.join(VERIF, '.cache')
PY = '/venv/bin/python'
EXT_SUFFIX = '.cpython-312-x86_64-linux-gnu.so'

BUILD_SCRIPT = r'''
import sys, os, numpy
from setuptools import setup, Extension
from Cython.Build import cythonize
mods = sys.argv[1].split(','); flavour = sys.argv[2]; sys.argv = [sys.argv[0], 'build_ext', '--inplace', '-j', '16']
cargs = ['-fopenmp']; largs = ['-fopenmp']; directives = {}
if flavour == 'checked':
    cargs += ['-D_GLIBCXX_ASSERTIONS', '-O1']
    # wraparound stays off as in production: a negative index must be reported, not wrapped Python-style
    directives = {'boundscheck': True, 'wraparound': False, 'initializedcheck': True}
exts = [Extension(name=m, sources=[m.replace('.', '/') + '.pyx'], include_dirs=[numpy.get_include()],
                  extra_compile_args=cargs, extra_link_args=largs) for m in mods]
setup(name='ov', ext_modules=cythonize(exts, compiler_directives=directives, force=True, quiet=True, nthreads=16),
      include_dirs=[numpy.get_include()], script_args=sys.argv[1:])
'''


def _sha(*chunks):
    h = hashlib.sha256()
    for c in chunks:
        h.update(c if isinstance(c, bytes) else c.encode())
        h.update(b'\0')
    return h.hexdigest()[:20]


def _strip_bounds_decorators(text):
    text = re.sub(r'^\s*@cython\.(boundscheck|initializedcheck)\(False\)\s*\n', '', text, flags=re.M)
    text = re.sub(r'^#\s*cython:.*$', lambda m: re.sub(r'(boundscheck)\s*=\s*False,?\s*', '', m.group(0)),
                  text, flags=re.M)
    return text


def sync(flavour='plain', root=None, quiet=True):
    """Bring the overlay up to date with /repo's working tree. Returns (overlay_root, info)."""
    t0 = time.time()
    os.makedirs(CACHE, exist_ok=True)
    suffix = '' if flavour == 'plain' else '_' + flavour
    if os.path.abspath(REPO) != '/repo':
        # a scratch copy of the repository (VERIF_REPO=...): its own overlay, shared object cache
        suffix += '_' + hashlib.sha256(os.path.abspath(REPO).encode()).hexdigest()[:8]
    root = root or os.path.join(CACHE, 'overlay' + suffix)
    lock = open(os.path.join(CACHE, 'overlay%s.lock' % suffix), 'w')
    fcntl.flock(lock, fcntl.LOCK_EX)
    try:
        return _sync_locked(flavour, root, quiet, t0)
    finally:
        fcntl.flock(lock, fcntl.LOCK_UN)
        lock.close()


def _sync_locked(flavour, root, quiet, t0):
    src = os.path.join(REPO, 'sknetwork')
    dst = os.path.join(root, 'sknetwork')
    socache = os.path.join(CACHE, 'so')
    os.makedirs(socache, exist_ok=True)
    os.makedirs(dst, exist_ok=True)
    wanted = {}
    for d, dirs, files in os.walk(src):
        dirs[:] = [x for x in dirs if x not in ('__pycache__',)]
        for f in files:
            if f.endswith(('.py', '.pyx', '.pxd')):
                p = os.path.join(d, f)
                wanted[os.path.relpath(p, src)] = p
    # mirror sources
    changed = []
    for rel, p in wanted.items():
        q = os.path.join(dst, rel)
        data = open(p, 'rb').read()
        if flavour == 'checked' and rel.endswith('.pyx'):
            data = _strip_bounds_decorators(data.decode()).encode()
        if not os.path.exists(q) or open(q, 'rb').read() != data:
            os.makedirs(os.path.dirname(q), exist_ok=True)
            with open(q, 'wb') as fh:
                fh.write(data)
            changed.append(rel)
    # remove stale sources / objects
    for d, dirs, files in os.walk(dst):
        dirs[:] = [x for x in dirs if x != '__pycache__']
        for f in files:
            rel = os.path.relpath(os.path.join(d, f), dst)
            if f.endswith(('.py', '.pyx', '.pxd')) and rel not in wanted:
                os.remove(os.path.join(d, f))
                changed.append('-' + rel)
    pxd = b''.join(open(os.path.join(dst, r), 'rb').read() for r in sorted(wanted) if r.endswith('.pxd'))
    need = []
    for rel in sorted(wanted):
        if not rel.endswith('.pyx'):
            continue
        q = os.path.join(dst, rel)
        key = _sha(open(q, 'rb').read(), pxd, flavour, 'v2' if flavour == 'plain' else 'v3')
        base = rel[:-4]
        so = os.path.join(dst, base + EXT_SUFFIX)
        tag = so + '.key'
        cached = os.path.join(socache, base.replace('/', '.') + '.' + key + '.so')
        if os.path.exists(so) and os.path.exists(tag) and open(tag).read() == key:
            continue
        if os.path.exists(cached):
            shutil.copy2(cached, so)
            open(tag, 'w').write(key)
            continue
        need.append((rel, base, key, so, tag, cached))
    built = []
    if need:
        for _, base, key, so, tag, cached in need:
            for p in (so, tag):
                if os.path.exists(p):
                    os.remove(p)
        mods = ','.join('sknetwork.' + base.replace('/', '.') for _, base, *_ in need)
        script = os.path.join(root, '_ovbuild.py')
        open(script, 'w').write(BUILD_SCRIPT)
        env = dict(os.environ)
        env.pop('PYTHONPATH', None)
        r = subprocess.run([PY, script, mods, flavour], cwd=root, env=env, stdout=subprocess.PIPE,
                           stderr=subprocess.STDOUT, text=True)
        if r.returncode != 0:
            sys.stderr.write(r.stdout[-6000:])
            raise RuntimeError('overlay build failed for ' + mods)
        for rel, base, key, so, tag, cached in need:
            if not os.path.exists(so):
                raise RuntimeError('overlay build produced no object for ' + rel)
            shutil.copy2(so, cached)
            open(tag, 'w').write(key)
            built.append(rel)
        shutil.rmtree(os.path.join(root, 'build'), ignore_errors=True)
        for _, base, *_ in need:
            for ext in ('.cpp', '.html', '.c'):
                p = os.path.join(dst, base + ext)
                if os.path.exists(p):
                    os.remove(p)
        # evict old objects (keep newest 3 per module)
        by = {}
        for f in os.listdir(socache):
            by.setdefault(f.rsplit('.', 2)[0], []).append(f)
        for k, fs in by.items():
            fs.sort(key=lambda f: os.path.getmtime(os.path.join(socache, f)), reverse=True)
            for f in fs[6:]:
                os.remove(os.path.join(socache, f))
    return root, {'changed_sources': changed, 'built': built, 'wall_s': round(time.time() - t0, 2)}


def tree_hash():
    """Hash of all mirrored sources of /repo's working tree (identifies what a run checked)."""
    src = os.path.join(REPO, 'sknetwork')
    h = hashlib.sha256()
    for d, dirs, files in sorted(os.walk(src)):
        dirs.sort()
        dirs[:] = [x for x in dirs if x != '__pycache__']
        for f in sorted(files):
            if f.endswith(('.py', '.pyx', '.pxd')):
                p = os.path.join(d, f)
                h.update(os.path.relpath(p, src).encode())
                h.update(open(p, 'rb').read())
    return h.hexdigest()[:16]


if __name__ == '__main__':
    fl = sys.argv[1] if len(sys.argv) > 1 else 'plain'
    root, info = sync(fl)
    print(root, info)
