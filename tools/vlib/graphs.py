"""Input generators shared by the harnesses: exhaustive small graphs, structured random graphs,
a degenerate stream.  Every random choice comes from the `random.Random` handed in."""
import itertools

import numpy as np
from scipy import sparse


def csr_from_edges(n, edges, weights=None, m=None, dtype=float):
    m = n if m is None else m
    if not edges:
        return sparse.csr_matrix((n, m), dtype=dtype)
    rows = [e[0] for e in edges]
    cols = [e[1] for e in edges]
    data = np.ones(len(edges)) if weights is None else np.asarray(weights, dtype=float)
    a = sparse.csr_matrix((data, (rows, cols)), shape=(n, m))
    a.sum_duplicates()
    a.sort_indices()
    return a.astype(dtype)


def all_digraphs(n, loops=False):
    """All directed graphs on n nodes as edge lists (2^(n(n-1)) or 2^(n^2) with loops)."""
    slots = [(i, j) for i in range(n) for j in range(n) if loops or i != j]
    for bits in range(1 << len(slots)):
        yield [slots[k] for k in range(len(slots)) if bits >> k & 1]


def all_undirected(n, loops=False):
    """All undirected simple graphs on n nodes, as symmetric edge lists."""
    slots = [(i, j) for i in range(n) for j in range(i + (0 if loops else 1), n)]
    for bits in range(1 << len(slots)):
        es = []
        for k in range(len(slots)):
            if bits >> k & 1:
                i, j = slots[k]
                es.append((i, j))
                if i != j:
                    es.append((j, i))
        yield es


def all_bipartite(nr, nc):
    slots = [(i, j) for i in range(nr) for j in range(nc)]
    for bits in range(1 << len(slots)):
        yield [slots[k] for k in range(len(slots)) if bits >> k & 1]


def nonempty_subsets(n, max_size=None):
    for k in range(1, (max_size or n) + 1):
        for c in itertools.combinations(range(n), k):
            yield list(c)


def random_edges(rng, n, p, directed=True, loops=False, m=None):
    m = n if m is None else m
    es = []
    if directed or m != n:
        for i in range(n):
            for j in range(m):
                if (loops or i != j or m != n) and rng.random() < p:
                    es.append((i, j))
    else:
        for i in range(n):
            for j in range(i, n):
                if (loops or i != j) and rng.random() < p:
                    es.append((i, j))
                    if i != j:
                        es.append((j, i))
    return es


def sym_weights(rng, edges, choices):
    w = {}
    out = []
    for (i, j) in edges:
        k = (min(i, j), max(i, j))
        if k not in w:
            w[k] = rng.choice(choices)
        out.append(w[k])
    return out


def structured(rng, kind, n):
    """Edge list (directed pairs) of a structured graph; undirected kinds return both directions."""
    es = []

    def und(i, j):
        es.append((i, j))
        es.append((j, i))
    if kind == 'path':
        for i in range(n - 1):
            und(i, i + 1)
    elif kind == 'cycle':
        for i in range(n):
            und(i, (i + 1) % n)
    elif kind == 'dicycle':
        for i in range(n):
            es.append((i, (i + 1) % n))
    elif kind == 'star':
        for i in range(1, n):
            und(0, i)
    elif kind == 'clique':
        for i in range(n):
            for j in range(i + 1, n):
                und(i, j)
    elif kind == 'grid':
        w = max(2, int(n ** 0.5))
        for i in range(n):
            if (i + 1) % w and i + 1 < n:
                und(i, i + 1)
            if i + w < n:
                und(i, i + w)
    elif kind == 'blocks':
        k = rng.choice([2, 3])
        lab = [rng.randrange(k) for _ in range(n)]
        for i in range(n):
            for j in range(i + 1, n):
                if rng.random() < (0.7 if lab[i] == lab[j] else 0.08):
                    und(i, j)
    elif kind == 'two_components':
        h = n // 2
        for i in range(h - 1):
            und(i, i + 1)
        for i in range(h, n - 1):
            und(i, i + 1)
        if n - h > 2:
            und(h, n - 1)
    elif kind == 'isolated':
        for i in range(1, n - 1):
            und(i, i + 1) if i + 1 < n - 1 else None
        if n > 3:
            und(1, n - 2)
    elif kind == 'dag':
        for i in range(n):
            for j in range(i + 1, n):
                if rng.random() < 0.35:
                    es.append((i, j))
    elif kind == 'sinks':
        for i in range(n):
            if i % 3 != 2:
                for j in range(n):
                    if j != i and rng.random() < 0.4:
                        es.append((i, j))
    elif kind == 'random_directed':
        es = random_edges(rng, n, rng.choice([0.15, 0.3, 0.6]), directed=True)
    elif kind == 'random_undirected':
        es = random_edges(rng, n, rng.choice([0.15, 0.3, 0.6]), directed=False)
    elif kind == 'selfloops':
        es = random_edges(rng, n, 0.3, directed=False, loops=True)
    else:
        raise ValueError(kind)
    return sorted(set(es))


UNDIRECTED_KINDS = ['path', 'cycle', 'star', 'clique', 'grid', 'blocks', 'two_components', 'isolated',
                    'random_undirected', 'selfloops']
DIRECTED_KINDS = ['dicycle', 'dag', 'sinks', 'random_directed']


def suite(rng, count, nmin=3, nmax=12, kinds=None, weights=None, directed_ok=True):
    """`count` structured graphs: list of (name, n, edges, weights or None)."""
    kinds = kinds or (UNDIRECTED_KINDS + (DIRECTED_KINDS if directed_ok else []))
    out = []
    for c in range(count):
        kind = kinds[c % len(kinds)]
        n = rng.randint(nmin, nmax)
        es = structured(rng, kind, n)
        w = None
        if weights:
            if kind in UNDIRECTED_KINDS:
                w = sym_weights(rng, es, weights)
            else:
                w = [rng.choice(weights) for _ in es]
        out.append(('%s%d' % (kind, n), n, es, w))
    return out


def permute_csr(a, perm):
    """relabel: new node perm[i] is old node i  (P A Pᵀ)."""
    n = a.shape[0]
    p = sparse.csr_matrix((np.ones(n), (np.asarray(perm), np.arange(n))), shape=(n, n))
    out = (p @ a @ p.T).tocsr()
    out.sort_indices()
    return out.astype(a.dtype)


def unsorted_copy(a, rng):
    """Same matrix as CSR with column indices of every row in a random order."""
    a = a.copy().tocsr()
    for i in range(a.shape[0]):
        lo, hi = a.indptr[i], a.indptr[i + 1]
        idx = list(range(lo, hi))
        rng.shuffle(idx)
        a.indices[lo:hi] = a.indices[idx]
        a.data[lo:hi] = a.data[idx]
    a.has_sorted_indices = False
    return a
