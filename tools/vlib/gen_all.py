"""Setup helper: overlay build, run every harness's `generate(ctx)` (translators -> lean/SkNet/Generated/*),
then build every module of the Lean library that exists on disk."""
import glob
import importlib
import os
import sys

sys.path.insert(0, os.path.dirname(os.path.dirname(os.path.abspath(__file__))))
from vlib import core  # noqa: E402


def main():
    props = sorted(os.path.basename(f)[:-3].upper() for f in glob.glob(os.path.join(core.VERIF, 'tools', 'harness', 'c[0-9][0-9].py')))
    ctx0 = core.Ctx('C00', 'quick', 0)
    core.setup_overlay(ctx0)
    for p in props:
        mod = importlib.import_module('harness.' + p.lower())
        if hasattr(mod, 'generate'):
            ctx = core.Ctx(p, 'quick', 0)
            ctx.overlay_root, ctx.overlay_info = ctx0.overlay_root, ctx0.overlay_info
            try:
                mod.generate(ctx)
                print('generated for', p)
            except Exception as e:  # noqa
                print('generate failed for', p, repr(e)[:300])
    mods = []
    for f in sorted(glob.glob(os.path.join(core.LEAN_DIR, 'SkNet', '**', '*.lean'), recursive=True)):
        rel = os.path.relpath(f, core.LEAN_DIR)[:-5].replace('/', '.')
        mods.append(rel)
    ok, out = core.lake_build(mods, timeout=7200)
    print(out[-1500:])
    return 0 if ok else 1


if __name__ == '__main__':
    sys.exit(main())
