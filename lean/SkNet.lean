-- Root of the `SkNet` library: models, specifications, lemmas, property theorems, protocol handlers.
import SkNet.Model.Basic
import SkNet.Properties.C10
import SkNet.Drive.C10
