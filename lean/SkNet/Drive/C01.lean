import SkNet.Model.Basic
namespace SkNet.Drive.C01
open SkNet
def handle : Handler
  | _, _ => none
end SkNet.Drive.C01
