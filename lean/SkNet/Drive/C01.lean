/- Line-protocol handlers for the container model (C01). -/
import SkNet.Model.Container

namespace SkNet.Drive.C01
open SkNet SkNet.Proto SkNet.Fmt

/-- `c:v,c:v` (or `-`) -/
def row? (s : String) : Option Row :=
  if s == "-" then some [] else (s.splitOn ",").mapM fun (t : String) =>
    match t.splitOn ":" with
    | [c, v] => do
        let a ← String.toNat? c
        let b ← rat? v
        pure (a, b)
    | _ => none

/-- rows separated by `|`; `_` is the empty list of rows -/
def rows? (s : String) : Option Rows :=
  if s == "_" then some [] else (s.splitOn "|").mapM row?

def triples? (s : String) : Option (List (Nat × Nat × Rat)) :=
  if s == "-" then some [] else (s.splitOn ",").mapM fun (t : String) =>
    match t.splitOn ":" with
    | [r, c, v] => do
        let a ← String.toNat? r
        let b ← String.toNat? c
        let x ← rat? v
        pure (a, b, x)
    | _ => none

def denseRows? (s : String) : Option (List (List Rat)) :=
  if s == "_" then some [] else (s.splitOn "|").mapM ratList?

def showRow (r : Row) : String :=
  if r.isEmpty then "-" else ",".intercalate (r.map fun p => s!"{p.1}:{showRat p.2}")

def showRows (rs : Rows) : String :=
  if rs.isEmpty then "_" else "|".intercalate (rs.map showRow)

def container? (fmt nr nc payload : String) : Option Container := do
  let nr ← nr.toNat?
  let nc ← nc.toNat?
  match fmt with
  | "csr" => do let r ← rows? payload; if r.length == nr then some (.csr nc r) else none
  | "lil" => do let r ← rows? payload; if r.length == nr then some (.lil nc r) else none
  | "csc" => do let c ← rows? payload; if c.length == nc then some (.csc nr c) else none
  | "coo" => do some (.coo nr nc (← triples? payload))
  | "dense" => do let r ← denseRows? payload; if r.length == nr then some (.dense nc r) else none
  | _ => none

def handle : Handler
  | "c01.canon", [fmt, nr, nc, payload] => some <| Option.getD (do
      let c ← container? fmt nr nc payload
      if !c.WF then some "err malformed"
      else some ("ok " ++ showRows (canon c.nCol (toCsrRows c)))) "bad-args"
  -- the CSR rows scipy is modelled to build, before canonicalisation (storage order visible)
  | "c01.tocsr", [fmt, nr, nc, payload] => some <| Option.getD (do
      let c ← container? fmt nr nc payload
      if !c.WF then some "err malformed"
      else some ("ok " ++ showRows (toCsrRows c))) "bad-args"
  | _, _ => none

end SkNet.Drive.C01
