/- Line-protocol handlers for the container model (C01). -/
import SkNet.Model.Container

namespace SkNet.Drive.C01
open SkNet SkNet.Proto SkNet.Fmt

/-- `c:v,c:v` (or `-`) -/
def row? (s : String) : Option Row :=
  if s == "-" then some [] else (s.splitOn ",").mapM fun (t : String) =>
    match t.splitOn ":" with
    | [c, v] => do
        let a ← String.toNat? c
        let b ← rat? v
        pure (a, b)
    | _ => none

/-- rows separated by `|`; `_` is the empty list of rows -/
def rows? (s : String) : Option Rows :=
  if s == "_" then some [] else (s.splitOn "|").mapM row?

def triples? (s : String) : Option (List (Nat × Nat × Rat)) :=
  if s == "-" then some [] else (s.splitOn ",").mapM fun (t : String) =>
    match t.splitOn ":" with
    | [r, c, v] => do
        let a ← String.toNat? r
        let b ← String.toNat? c
        let x ← rat? v
        pure (a, b, x)
    | _ => none

def denseRows? (s : String) : Option (List (List Rat)) :=
  if s == "_" then some [] else (s.splitOn "|").mapM ratList?

def showRow (r : Row) : String :=
  if r.isEmpty then "-" else ",".intercalate (r.map fun p => s!"{p.1}:{showRat p.2}")

def showRows (rs : Rows) : String :=
  if rs.isEmpty then "_" else "|".intercalate (rs.map showRow)

def container? (fmt nr nc payload : String) : Option Container := do
  let nr ← nr.toNat?
  let nc ← nc.toNat?
  match fmt with
  | "csr" => do let r ← rows? payload; if r.length == nr then some (.csr nc r) else none
  | "lil" => do let r ← rows? payload; if r.length == nr then some (.lil nc r) else none
  | "csc" => do let c ← rows? payload; if c.length == nc then some (.csc nr c) else none
  | "coo" => do some (.coo nr nc (← triples? payload))
  | "dense" => do let r ← denseRows? payload; if r.length == nr then some (.dense nc r) else none
  | _ => none

def dtype? : String → Option DType
  | "float" => some .float
  | "bool" => some .bool
  | "int8" => some int8
  | "uint8" => some uint8
  | "int32" => some int32
  | "int64" => some int64
  | _ => none

/-- every stored value is a value of the dtype (decidable form of `DType.mem`) -/
def memB : DType → Rat → Bool
  | .float, _ => true
  | .bool, a => a == 0 || a == 1
  | .int lo hi, a => a.den == 1 && decide (lo ≤ a.num) && decide (a.num ≤ hi)

def Container.values : Container → List Rat
  | .csr _ rows => rows.flatMap fun r => r.map (·.2)
  | .csc _ cols => cols.flatMap fun r => r.map (·.2)
  | .coo _ _ es => es.map (·.2.2)
  | .lil _ rows => rows.flatMap fun r => r.map (·.2)
  | .dense _ rows => rows.flatten

def handle : Handler
  -- canonical CSR (sorted, duplicates summed in the dtype, zeros dropped) of what check_format builds
  | "c01.canon", [dt, fmt, nr, nc, payload] => some <| Option.getD (do
      let d ← dtype? dt
      let c ← container? fmt nr nc payload
      if !c.WF then some "err malformed"
      else if !(Container.values c).all (memB d) then some "err not-in-dtype"
      else some ("ok " ++ showRows (canonD d c.nCol (toCsrRowsD d c)))) "bad-args"
  -- the CSR rows scipy is modelled to build, before canonicalisation (storage order and duplicates visible)
  | "c01.tocsr", [dt, fmt, nr, nc, payload] => some <| Option.getD (do
      let d ← dtype? dt
      let c ← container? fmt nr nc payload
      if !c.WF then some "err malformed"
      else if !(Container.values c).all (memB d) then some "err not-in-dtype"
      else some ("ok " ++ showRows (toCsrRowsD d c))) "bad-args"
  -- check_format(x, allow_empty): the refusal of a matrix that stores nothing
  | "c01.check", [dt, fmt, nr, nc, payload, allow] => some <| Option.getD (do
      let d ← dtype? dt
      let c ← container? fmt nr nc payload
      let al ← bool? allow
      if !c.WF then some "err malformed"
      else if !(Container.values c).all (memB d) then some "err not-in-dtype"
      else match checkFormatE d al c with
        | .error _ => some "err ValueError"
        | .ok c' => some ("ok " ++ showRows (toCsrRows c'))) "bad-args"
  | _, _ => none

end SkNet.Drive.C01
