/- Line-protocol handlers for C06 (modularity metric, Louvain / Leiden kernels and fits). -/
import SkNet.Model.Modularity
import SkNet.Model.ModularityOpt
import SkNet.Spec.Modularity

namespace SkNet.Drive.C06
open SkNet SkNet.Proto SkNet.Modularity

/-- dense matrix of a CSR matrix, duplicates summed -/
def denseOf (c : Csr Rat) : Array (Array Rat) := Id.run do
  let mut m : Array (Array Rat) := Array.replicate c.nRow (Array.replicate c.nCol 0)
  for i in [0:c.nRow] do
    for p in c.rowRange i do
      let j := c.indices.getD p 0
      let v := c.data.getD p 0
      m := m.modify i (fun r => r.modify j (· + v))
  return m

def at2 (m : Array (Array Rat)) (i j : Nat) : Rat := (m.getD i #[]).getD j 0

def f32 (b : Nat) : Float32 := Float32.ofBits (UInt32.ofNat b)
def f32List? (s : String) : Option (List Float32) := (natList? s).map (·.map f32)
def bits (x : Float32) : Nat := x.toBits.toNat

def weights? (s : String) : Option Weights :=
  if s == "degree" then some .degree
  else if s == "uniform" then some .uniform
  else if s == "unknown" then some .unknown
  else if s.startsWith "c:" then (ratList? (s.drop 2).toString).map Weights.custom
  else none

def kind? (s : String) : Option Kind :=
  if s == "dugue" then some .dugue else if s == "newman" then some .newman
  else if s == "potts" then some .potts else if s == "other" then some .other else none

def optIntList? (s : String) : Option (Option (List Int)) :=
  if s == "_" then some none else (intList? s).map some

def absR (x : Rat) : Rat := if x < 0 then -x else x

/-- `|a - b| ≤ tol * (1 + |b|)` -/
def close (tol a b : Rat) : Bool := decide (absR (a - b) ≤ tol * (1 + absR b))

def showErr (e : PyErr) : String := "err " ++ e.show

/-- graph of a kernel call from the CSR arrays -/
def graphOf {α : Type} [Inhabited α] (n : Nat) (indptr indices : Array Nat) (data : Array α)
    (selfL outW inW : Array α) : Graph α :=
  let rows : Array (List (Nat × α)) := (Array.range n).map fun i =>
    let lo := indptr.getD i 0
    let hi := indptr.getD (i+1) 0
    (List.range (hi - lo)).map fun k => (indices.getD (k + lo) 0, data.getD (k + lo) default)
  { n := n, row := fun i => rows.getD i [], selfLoop := fun i => selfL.getD i default,
    outW := fun i => outW.getD i default, inW := fun i => inW.getD i default }

def coreFuel : Nat := 100000

/-- aggregations the model of `Leiden.fit` allows (the code has no limit; `fuel` would be reported) -/
def outerFuel : Nat := 10000

def handle : Handler
  -- get_modularity: <nRow> <nCol> <indptr> <indices> <data> <labels> <labels_col|_> <weights> <resolution>
  | "c06.mod", [n, m, ip, ix, dt, lab, labc, w, res] => some <| Option.getD (do
      let c ← csrRat? n m ip ix dt
      let lab ← intList? lab
      let labc ← optIntList? labc
      let w ← weights? w
      let res ← rat? res
      let mat := denseOf c
      match getModularity c.nRow c.nCol c.indices.size (at2 mat) lab labc w res with
      | .error e => some (showErr e)
      | .ok o => some s!"ok {showRat o.mod} {showRat o.fit} {showRat o.div}") "bad-args"
  -- the documented double sum evaluated on the implementation's figures (labels are already stacked)
  | "c06.spec_mod", [n, m, ip, ix, dt, lab, w, res, tol, mod, fit, div] => some <| Option.getD (do
      let c ← csrRat? n m ip ix dt
      let lab ← intList? lab
      let w ← weights? w
      let res ← rat? res
      let tol ← rat? tol
      let mod ← rat? mod
      let fit ← rat? fit
      let div ← rat? div
      let mat := denseOf c
      let bip := c.nRow != c.nCol
      let k := if bip then c.nRow + c.nCol else c.nRow
      let A : Nat → Nat → Rat := if bip then blockAdj c.nRow (at2 mat) else at2 mat
      let cl : Nat → Int := fun i => lab.getD i (-1)
      let tw := totalWeight k A
      let pr : Nat → Rat := match w with
        | .degree => fun i => outDeg k A i / tw
        | .custom v => fun i => v.getD i 0 / sumTo k fun j => v.getD j 0
        | _ => fun _ => 1 / (k : Rat)
      let pc : Nat → Rat := match w with
        | .degree => fun i => inDeg k A i / tw
        | _ => pr
      let want := match w with
        | .degree => modularityDoc k A res cl
        | _ => modularityWeighted k A pr res cl
      let wantFit := fitDoc k A cl
      let wantDiv := divDoc k pr pc cl
      let ok := close tol mod want && close tol fit wantFit && close tol div wantDiv
        && close tol mod (fit - res * div)
      some (if ok then "holds"
            else s!"fails want={showRat want} fit={showRat wantFit} div={showRat wantDiv}")) "bad-args"
  -- optimize_core in float32, every float as its bit pattern
  | "c06.core", [n, ip, ix, dt, lab, ow, iw, oc, ic, cw, sl, res, tol] => some <| Option.getD (do
      let n ← n.toNat?
      let ip ← natList? ip
      let ix ← natList? ix
      let dt ← f32List? dt
      let lab ← natList? lab
      let ow ← f32List? ow
      let iw ← f32List? iw
      let oc ← f32List? oc
      let ic ← f32List? ic
      let cw ← f32List? cw
      let sl ← f32List? sl
      let res ← res.toNat?
      let tol ← tol.toNat?
      let g := graphOf n ip.toArray ix.toArray dt.toArray sl.toArray ow.toArray iw.toArray
      let st : St Float32 := { labels := lab, outCl := oc, inCl := ic, cw := cw }
      let r := optimizeCoreCapped g (f32 res) (f32 tol) st
      -- third figure: 1 when the kernel's bound on the passes (n + 1) is what ended the loop
      let capped := (coreLoop g (f32 res) (f32 tol) (n + 1) st Scalar.zero).isNone
      some s!"ok {showList r.1} {bits r.2} {showBool capped}") "bad-args"
  -- optimize_core in exact arithmetic
  | "c06.coreq", [n, ip, ix, dt, lab, ow, iw, oc, ic, cw, sl, res, tol] => some <| Option.getD (do
      let n ← n.toNat?
      let ip ← natList? ip
      let ix ← natList? ix
      let dt ← ratList? dt
      let lab ← natList? lab
      let ow ← ratList? ow
      let iw ← ratList? iw
      let oc ← ratList? oc
      let ic ← ratList? ic
      let cw ← ratList? cw
      let sl ← ratList? sl
      let res ← rat? res
      let tol ← rat? tol
      let g := graphOf n ip.toArray ix.toArray dt.toArray sl.toArray ow.toArray iw.toArray
      let r := optimizeCoreCapped g res tol { labels := lab, outCl := oc, inCl := ic, cw := cw }
      some s!"ok {showList r.1} {showRat r.2}") "bad-args"
  -- optimize_refine_core in float32; <rands> = the successive values of rand()
  | "c06.refine", [n, ip, ix, dt, lab, refd, ow, iw, oc, ic, cw, sl, res, rands] => some <| Option.getD (do
      let n ← n.toNat?
      let ip ← natList? ip
      let ix ← natList? ix
      let dt ← f32List? dt
      let lab ← natList? lab
      let refd ← natList? refd
      let ow ← f32List? ow
      let iw ← f32List? iw
      let oc ← f32List? oc
      let ic ← f32List? ic
      let cw ← f32List? cw
      let sl ← f32List? sl
      let res ← res.toNat?
      let rands ← natList? rands
      let g := graphOf n ip.toArray ix.toArray dt.toArray sl.toArray ow.toArray iw.toArray
      match refineCore g (f32 res) lab coreFuel { refined := refd, outCl := oc, inCl := ic, cw := cw } rands with
      | none => some "fuel"
      | some (l, rest) =>
        -- third figure: 1 when the kernel's bound on the passes (`refinePasses`) is what ended the loop
        let capped := (refineLoop g (f32 res) lab refinePasses { refined := refd, outCl := oc, inCl := ic, cw := cw } rands).isNone
        some s!"ok {showList l} {rest.length} {showBool capped}") "bad-args"
  -- Louvain.fit / Leiden.fit in exact arithmetic:
  -- <kind> <res> <tolOpt> <tolAgg> <nAgg> <nRow> <nCol> <indptr> <indices> <data> <forceBip> [<rands>]
  | "c06.louvain", [kind, res, tolO, tolA, nAgg, n, m, ip, ix, dt, fb] => some <| Option.getD (do
      let kind ← kind? kind
      let res ← rat? res
      let tolO ← rat? tolO
      let tolA ← rat? tolA
      let nAgg ← nAgg.toInt?
      let c ← csrRat? n m ip ix dt
      let fb ← bool? fb
      let mat := denseOf c
      match louvainFitCapped kind res tolO tolA nAgg c.nRow c.nCol c.indices.size (at2 mat) fb with
      | .error e => some (showErr e)
      | .ok none => some "fuel"
      | .ok (some o) => some s!"ok {showList o.labels} {showRatList o.increases}") "bad-args"
  -- Louvain.fit with shuffle_nodes=True (sort_clusters=False): <index> = the permutation drawn by the random state
  | "c06.louvain_shuffled", [kind, res, tolO, tolA, nAgg, n, m, ip, ix, dt, fb, index] => some <| Option.getD (do
      let kind ← kind? kind
      let res ← rat? res
      let tolO ← rat? tolO
      let tolA ← rat? tolA
      let nAgg ← nAgg.toInt?
      let c ← csrRat? n m ip ix dt
      let fb ← bool? fb
      let index ← natList? index
      let mat := denseOf c
      match louvainFitShuffled kind res tolO tolA nAgg c.nRow c.nCol c.indices.size (at2 mat) fb index with
      | .error e => some (showErr e)
      | .ok none => some "fuel"
      | .ok (some o) => some s!"ok {showList o.labels} {showRatList o.increases}") "bad-args"
  | "c06.leiden", [kind, res, tolO, tolA, nAgg, n, m, ip, ix, dt, fb, rands] => some <| Option.getD (do
      let kind ← kind? kind
      let res ← rat? res
      let tolO ← rat? tolO
      let tolA ← rat? tolA
      let nAgg ← nAgg.toInt?
      let c ← csrRat? n m ip ix dt
      let fb ← bool? fb
      let rands ← natListList? rands
      let mat := denseOf c
      match leidenFit kind res tolO tolA nAgg c.nRow c.nCol c.indices.size (at2 mat) fb outerFuel rands with
      | .error e => some (showErr e)
      | .ok none => some "fuel"
      | .ok (some o) => some s!"ok {showList o.labels} {showRatList o.increases}") "bad-args"
  -- does `_pre_processing` accept the input?
  | "c06.accepts", [kind, n, m, ip, ix, dt, fb] => some <| Option.getD (do
      let kind ← kind? kind
      let c ← csrRat? n m ip ix dt
      let fb ← bool? fb
      let mat := denseOf c
      match preProcess kind c.nRow c.nCol c.indices.size (at2 mat) fb with
      | .error _ => some "refused"
      | .ok _ => some "accepted") "bad-args"
  -- the property on the implementation's own output: objective of the kind (documented formula, ℚ) not below
  -- the singletons, above them by the logged increases, clusters inside connected components
  | "c06.spec_fit", [kind, res, n, m, ip, ix, dt, fb, lab, incs, eps] => some <| Option.getD (do
      let kind ← kind? kind
      let res ← rat? res
      let c ← csrRat? n m ip ix dt
      let fb ← bool? fb
      let lab ← natList? lab
      let incs ← ratList? incs
      let eps ← rat? eps
      let mat := denseOf c
      let (k, A) := kindAdj kind c.nRow c.nCol (at2 mat) fb
      if lab.length != k then none
      let cl : Nat → Nat := fun i => lab.getD i 0
      let q1 := objective kind k A res cl
      let q0 := objective kind k A res id
      let total := incs.foldl (· + ·) 0
      let notWorse := decide (q0 - eps ≤ q1)
      let logged := decide (absR (q1 - q0 - total) ≤ eps)
      let comps := clustersWithinComponents k A cl
      some (if notWorse && logged && comps then "holds"
            else s!"fails notworse={showBool notWorse} logged={showBool logged} components={showBool comps} q0={showRat q0} q1={showRat q1} sum={showRat total}")) "bad-args"
  -- the same on graphs with hundreds of nodes: per-cluster form of the objective (`objectiveFast`, proved equal to
  -- `objective`); component clause with a certificate (`clustersWithinForest`, sound for any certificate)
  | "c06.spec_fit_big", [kind, res, n, m, ip, ix, dt, fb, lab, incs, eps, parent, croot] => some <| Option.getD (do
      let parent ← natList? parent
      let croot ← natList? croot
      let kind ← kind? kind
      let res ← rat? res
      let c ← csrRat? n m ip ix dt
      let fb ← bool? fb
      let lab ← natList? lab
      let incs ← ratList? incs
      let eps ← rat? eps
      let mat := denseOf c
      let (k, A) := kindAdj kind c.nRow c.nCol (at2 mat) fb
      if lab.length != k then none
      let labA := lab.toArray
      let cl : Nat → Nat := fun i => labA.getD i 0
      let dout : Array Rat := (Array.range k).map fun i => outDeg k A i
      let din : Array Rat := (Array.range k).map fun j => inDeg k A j
      let w : Rat := dout.foldl (· + ·) 0
      let o : Nat → Rat := match kind with
        | .potts => fun _ => 1 / (k : Rat)
        | _ => fun i => dout.getD i 0 / w
      let i_ : Nat → Rat := match kind with
        | .potts => fun _ => 1 / (k : Rat)
        | .dugue => fun j => din.getD j 0 / w
        | _ => fun j => dout.getD j 0 / w
      let q1 := objectiveFast k A w o i_ res cl (nLabels lab)
      let q0 := objectiveFast k A w o i_ res id k
      let total := incs.foldl (· + ·) 0
      let notWorse := decide (q0 - eps ≤ q1)
      let logged := decide (absR (q1 - q0 - total) ≤ eps)
      let parentA := parent.toArray
      let crootA := croot.toArray
      let par : Nat → Nat := fun u => parentA.getD u 0
      let comps := clustersWithinForest k A cl par (fun x => crootA.getD x 0)
      some (if !forestOK k A par then "bad-certificate"
            else if notWorse && logged && comps then "holds"
            else s!"fails notworse={showBool notWorse} logged={showBool logged} components={showBool comps} q0={showRat q0} q1={showRat q1} sum={showRat total}")) "bad-args"
  | _, _ => none

end SkNet.Drive.C06
