/- Line-protocol handlers for the SVG models (C20).

Requests are `c20.<cmd> key=value …` (order free, absent keys take the defaults of the Python signature):
  strings   `s<cp>,<cp>,…`  (code points; `s` alone is the empty string);  lists of strings are `;`-separated
  optional  `_` = None
  entries   `i,j,w;…` (`-` = none)     positions `x,y;…`      edge labels `i,j,l;…`
  labels    `L<ints>` list | `A<ints>` array | `D<k:v,…>` dict         scores `L<n>` | `A<n>` | `D<keys>`
  probs     `P<ncols>@<row>;<row>…` with `<row>` = `c:v,c:v` or `-`
  colours   `L<str;str…>` | `D<k:str;…>`
Answers: `ok <code points of the document, numbers printed as #>` or `err <PythonError>`.
-/
import SkNet.Model.Svg
import SkNet.Spec.Svg

namespace SkNet.Drive.C20
open SkNet SkNet.Proto SkNet.Svg

abbrev KV := List (String × String)

def kvOf (toks : List String) : KV :=
  toks.filterMap fun t =>
    match t.splitOn "=" with
    | k :: v :: rest => some (k, "=".intercalate (v :: rest))
    | _ => none

def get (kv : KV) (k : String) : Option String := (kv.find? (·.1 == k)).map (·.2)

def splitList (s : String) (sep : String) : List String :=
  if s == "-" || s == "" then [] else s.splitOn sep

def pystr? (s : String) : Option PyStr :=
  if s.startsWith "s" then
    let r := (s.drop 1).toString
    if r == "" then some [] else (r.splitOn ",").mapM String.toNat?
  else none

def strList? (s : String) : Option (List PyStr) := (splitList s ";").mapM pystr?

def optStrList? (s : String) : Option (Option (List PyStr)) :=
  if s == "_" then some none else (strList? s).map some

def entries? (s : String) : Option (List Entry) :=
  (splitList s ";").mapM fun (t : String) =>
    match t.splitOn "," with
    | [i, j, w] => do pure (← i.toNat?, ← j.toNat?, ← rat? w)
    | _ => none

def pos? (s : String) : Option (List (Rat × Rat)) :=
  (splitList s ";").mapM fun (t : String) =>
    match t.splitOn "," with
    | [x, y] => do pure (← rat? x, ← rat? y)
    | _ => none

def edgeLabels? (s : String) : Option (List (Int × Int × Int)) :=
  (splitList s ";").mapM fun (t : String) =>
    match t.splitOn "," with
    | [i, j, l] => do pure (← i.toInt?, ← j.toInt?, ← l.toInt?)
    | _ => none

def ints? (s : String) : Option (List Int) := (splitList s ",").mapM String.toInt?
def nats? (s : String) : Option (List Nat) := (splitList s ",").mapM String.toNat?

def labels? (s : String) : Option (Option Labels) :=
  if s == "_" then some none
  else
    let body := (s.drop 1).toString
    if s.startsWith "L" then (ints? body).map fun l => some (.arr l true)
    else if s.startsWith "A" then (ints? body).map fun l => some (.arr l false)
    else if s.startsWith "D" then
      ((splitList body ",").mapM fun (t : String) =>
        match t.splitOn ":" with
        | [k, v] => do pure (← k.toNat?, ← v.toInt?)
        | _ => none).map fun kv => some (.dict kv)
    else none

def scores? (s : String) : Option (Option Scores) :=
  if s == "_" then some none
  else
    let body := (s.drop 1).toString
    if s.startsWith "L" then body.toNat?.map fun l => some (.arr l true)
    else if s.startsWith "A" then body.toNat?.map fun l => some (.arr l false)
    else if s.startsWith "D" then (nats? body).map fun ks => some (.dict ks)
    else none

def probs? (s : String) : Option (Option Probs) :=
  if s == "_" then some none
  else if s.startsWith "P" then
    match ((s.drop 1).toString).splitOn "@" with
    | [k, rows] => do
      let k ← k.toNat?
      let rows ← (if rows == "" then some [] else (rows.splitOn ";").mapM fun (r : String) =>
        (splitList r ",").mapM fun (t : String) =>
          match t.splitOn ":" with
          | [c, v] => do pure (← c.toNat?, ← rat? v)
          | _ => none)
      pure (some ⟨k, rows⟩)
    | _ => none
  else none

def labelColors? (s : String) : Option LabelColors :=
  if s == "_" then some .none
  else
    let body := (s.drop 1).toString
    if s.startsWith "L" then (strList? body).map .list
    else if s.startsWith "D" then
      ((splitList body ";").mapM fun (t : String) =>
        match t.splitOn ":" with
        | [k, v] => do pure (← k.toNat?, ← pystr? v)
        | _ => none).map .dict
    else none

def optRat? (s : String) : Option (Option Rat) := if s == "_" then some none else (rat? s).map some
def optBool? (s : String) : Option (Option Bool) := if s == "_" then some none else (bool? s).map some
def optStr? (s : String) : Option (Option PyStr) := if s == "_" then some none else (pystr? s).map some
def optNats? (s : String) : Option (Option (List Nat)) := if s == "_" then some none else (nats? s).map some

def namePos? (s : String) : Option NamePos :=
  if s == "left" then some .left else if s == "right" then some .right
  else if s == "above" then some .above else if s == "below" then some .below
  else if s == "other" then some .other else none

/-- value of key `k` parsed by `f`, or the default when the key is absent -/
def fld (kv : KV) (k : String) (f : String → Option α) (dflt : α) : Option α :=
  match get kv k with
  | some v => f v
  | none => some dflt

def layout? (kv : KV) : Option Layout := do
  pure { margin := ← fld kv "margin" rat? 20, nodeSize := ← fld kv "node_size" rat? 7,
         nodeSizeMax := ← fld kv "node_size_max" rat? 20, displayNodeWeight := ← fld kv "dnw" bool? false,
         fontSize := ← fld kv "font_size" rat? 12, scale := ← fld kv "scale" rat? 1 }

def graphArgs? (kv : KV) : Option GraphArgs := do
  pure { hasAdj := ← fld kv "has_adj" bool? true, n := ← fld kv "n" String.toNat? 0,
         entries := ← fld kv "es" entries? [], hasPos := ← fld kv "has_pos" bool? true,
         pos := ← fld kv "pos" pos? [], names := ← fld kv "names" optStrList? none,
         namePos := ← fld kv "name_position" namePos? .right, labels := ← fld kv "labels" labels? none,
         scores := ← fld kv "scores" scores? none, probs := ← fld kv "probs" probs? none,
         nodeOrder := ← fld kv "node_order" optNats? none, nodeColor := ← fld kv "node_color" pystr? py!"gray",
         displayEdges := ← fld kv "display_edges" bool? true, edgeLabels := ← fld kv "edge_labels" edgeLabels? [],
         edgeColor := ← fld kv "edge_color" optStr? none, labelColors := ← fld kv "label_colors" labelColors? .none,
         directed := ← fld kv "directed" optBool? none, width := ← fld kv "width" optRat? (some 400),
         height := ← fld kv "height" optRat? (some 300), lay := ← layout? kv }

def bigraphArgs? (kv : KV) : Option BigraphArgs := do
  pure { nRow := ← fld kv "n_row" String.toNat? 0, nCol := ← fld kv "n_col" String.toNat? 0,
         entries := ← fld kv "es" entries? [], namesRow := ← fld kv "names_row" optStrList? none,
         namesCol := ← fld kv "names_col" optStrList? none, labelsRow := ← fld kv "labels_row" labels? none,
         labelsCol := ← fld kv "labels_col" labels? none, scoresRow := ← fld kv "scores_row" scores? none,
         scoresCol := ← fld kv "scores_col" scores? none, probsRow := ← fld kv "probs_row" probs? none,
         probsCol := ← fld kv "probs_col" probs? none, colorRow := ← fld kv "color_row" pystr? py!"gray",
         colorCol := ← fld kv "color_col" pystr? py!"gray", labelColors := ← fld kv "label_colors" labelColors? .none,
         displayEdges := ← fld kv "display_edges" bool? true, edgeLabels := ← fld kv "edge_labels" edgeLabels? [],
         edgeColor := ← fld kv "edge_color" optStr? (some py!"black"), width := ← fld kv "width" optRat? (some 400),
         height := ← fld kv "height" optRat? (some 300), posLen := ← fld kv "pos_len" optNat? none }

def merges? (s : String) : Option (List (Nat × Nat)) :=
  (splitList s ";").mapM fun (t : String) =>
    match t.splitOn "," with
    | [i, j] => do pure (← i.toNat?, ← j.toNat?)
    | _ => none

def dendroArgs? (kv : KV) : Option DendroArgs := do
  pure { merges := ← fld kv "merges" merges? [], cutLabels := ← fld kv "cut" optNats? (some []),
         names := ← fld kv "names" optStrList? none, rotate := ← fld kv "rotate" bool? false,
         rotateNames := ← fld kv "rotate_names" bool? true, color := ← fld kv "color" pystr? py!"black",
         colors := ← fld kv "colors" strList? standardColors, reorder := ← fld kv "reorder" bool? false }

/-- every number is printed as `#` -/
def νhash : Nums := { tok := fun _ _ _ => [35] }

def showDoc (d : PyStr) : String := if d.isEmpty then "-" else ",".intercalate (d.map toString)

def doc? (kv : KV) : Option PyStr :=
  match get kv "doc" with
  | some "-" => some []
  | some v => (v.splitOn ",").mapM String.toNat?
  | none => none

def answer (r : Except PyErr Drawing) : String :=
  match r with
  | .ok d => "ok " ++ showDoc (render d.svg)
  | .error e => "err " ++ e.show

def specAnswer (kv : KV) (doc : PyStr) (e : Expected) (geom : List Piece → Option Bool := fun _ => some true) :
    String :=
  if get kv "expat" == some "0" then "fails xml-parser-rejects " ++ docReport doc e
  else if docMeets doc e then
    (match parseDoc doc with
     | some ps =>
       (match geom ps with
        | some true => "holds"
        | some false => "fails edge-paths-do-not-join-their-end-nodes"
        | none => "holds geometry-inconclusive")
     | none => "fails")
  else "fails " ++ docReport doc e

def handle : Handler
  | "c20.graph", toks => some <| Option.getD (do
      let a ← graphArgs? (kvOf toks)
      some (answer (visualizeGraph νhash a))) "bad-args"
  | "c20.bigraph", toks => some <| Option.getD (do
      let a ← bigraphArgs? (kvOf toks)
      some (answer (visualizeBigraph νhash a))) "bad-args"
  | "c20.dendrogram", toks => some <| Option.getD (do
      let a ← dendroArgs? (kvOf toks)
      some (answer (visualizeDendrogram νhash a))) "bad-args"
  | "c20.index", toks => some <| Option.getD (do
      let a ← dendroArgs? (kvOf toks)
      match getIndex a.merges a.reorder with
      | .ok l => some ("ok " ++ showList l)
      | .error e => some ("err " ++ e.show)) "bad-args"
  -- the specification evaluated on the implementation's returned string
  | "c20.spec_graph", toks => some <| Option.getD (do
      let kv := kvOf toks
      let a ← graphArgs? kv
      some (specAnswer kv (← doc? kv) (expectedGraph a) (geomGraph a))) "bad-args"
  | "c20.spec_bigraph", toks => some <| Option.getD (do
      let kv := kvOf toks
      let a ← bigraphArgs? kv
      some (specAnswer kv (← doc? kv) (expectedBigraph a) (geomBigraph a))) "bad-args"
  | "c20.spec_dendrogram", toks => some <| Option.getD (do
      let kv := kvOf toks
      let a ← dendroArgs? kv
      some (specAnswer kv (← doc? kv) (expectedDendrogram a) (geomDendro a))) "bad-args"
  -- the file written, decoded as UTF-8 by the strict decoder of the specification, is the returned string
  | "c20.spec_file", toks => some <| Option.getD (do
      let kv := kvOf toks
      let a ← doc? kv
      let b ← match get kv "bytes" with
        | some "-" => some []
        | some v => (v.splitOn ",").mapM String.toNat?
        | none => none
      some (match utf8Decode b with
        | some s => if s == a then "holds" else "fails file-differs"
        | none => "fails file-is-not-utf8")) "bad-args"
  | "c20.wf", toks => some <| Option.getD (do
      let kv := kvOf toks
      let d ← doc? kv
      some (if get kv "expat" == some "0" then "fails xml-parser-rejects"
            else if wf d then "holds" else "fails not-well-formed")) "bad-args"
  | _, _ => none

end SkNet.Drive.C20
