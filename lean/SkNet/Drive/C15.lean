/- Line-protocol handlers for C15 (linear operators and conversion utilities).

Operator expressions travel in prefix form, one token per item:
  E ::= slr M k x1 y1 … xk yk | reg M r | nrm M r | lap M r b v | con M b | pol M v
      | neg E | add E E | sub E E | addcsr E M | subcsr E M | mul E r | T E | ldot M E | rdot E M
      | astype (float64|float32|int) E | rmul r E | d2u E | b2d E | b2u E | normalize E
  M ::= nRow nCol rows      (rows: `;`-separated rows of `,`-separated rationals, `-` when a dimension is 0)
  v ::= rationals separated by `,` (`-` = empty),  r ::= rational,  b ::= 0 | 1
-/
import SkNet.Model.LinOp
import SkNet.Model.Convert
import SkNet.Spec.LinOp
import SkNet.Spec.Convert

namespace SkNet.Drive.C15
open SkNet SkNet.Proto SkNet.LinOp SkNet.Convert

def showErr (e : PyErr) : String := "err " ++ e.show

def mat? (n m rows : String) : Option Mat := do
  let n ← n.toNat?
  let m ← m.toNat?
  if rows == "-" then
    if n == 0 || m == 0 then some ⟨n, m, List.replicate n []⟩ else none
  else
    let rs ← ratListList? rows
    if rs.length == n && rs.all (·.length == m) then some ⟨n, m, rs⟩ else none

def showMat (a : Mat) : String :=
  if a.nRow == 0 || a.nCol == 0 then s!"{a.nRow} {a.nCol} -"
  else s!"{a.nRow} {a.nCol} " ++ ";".intercalate
    ((List.range a.nRow).map fun i => ",".intercalate ((List.range a.nCol).map fun j => showRat (a.get i j)))

def tuples? : Nat → List String → Option (List (Vec × Vec) × List String)
  | 0, ts => some ([], ts)
  | k+1, x :: y :: ts => do
    let x ← ratList? x
    let y ← ratList? y
    let (r, rest) ← tuples? k ts
    some ((x, y) :: r, rest)
  | _, _ => none

/-- parse one expression, return the unread tokens; `fuel` bounds the depth -/
def expr? : Nat → List String → Option (OpExpr × List String)
  | 0, _ => none
  | fuel+1, toks =>
    match toks with
    | "slr" :: n :: m :: rows :: k :: ts => do
      let a ← mat? n m rows
      let k ← k.toNat?
      let (tp, rest) ← tuples? k ts
      some (.slr a tp, rest)
    | "reg" :: n :: m :: rows :: r :: ts => do some (.regularizer (← mat? n m rows) (← rat? r), ts)
    | "nrm" :: n :: m :: rows :: r :: ts => do some (.normalizer (← mat? n m rows) (← rat? r), ts)
    | "lap" :: n :: m :: rows :: r :: b :: v :: ts => do
      some (.laplacian (← mat? n m rows) (← rat? r) (← bool? b) (← ratList? v), ts)
    | "con" :: n :: m :: rows :: b :: ts => do some (.coneighbor (← mat? n m rows) (← bool? b), ts)
    | "pol" :: n :: m :: rows :: v :: ts => do some (.polynome (← mat? n m rows) (← ratList? v), ts)
    | "neg" :: ts => do let (e, r) ← expr? fuel ts; some (.neg e, r)
    | "add" :: ts => do
      let (e, r) ← expr? fuel ts
      let (f, r) ← expr? fuel r
      some (.add e f, r)
    | "sub" :: ts => do
      let (e, r) ← expr? fuel ts
      let (f, r) ← expr? fuel r
      some (.sub e f, r)
    | "addcsr" :: ts => do
      let (e, r) ← expr? fuel ts
      match r with
      | n :: m :: rows :: r => some (.addCsr e (← mat? n m rows), r)
      | _ => none
    | "subcsr" :: ts => do
      let (e, r) ← expr? fuel ts
      match r with
      | n :: m :: rows :: r => some (.subCsr e (← mat? n m rows), r)
      | _ => none
    | "mul" :: ts => do
      let (e, r) ← expr? fuel ts
      match r with
      | c :: r => some (.mul e (← rat? c), r)
      | _ => none
    | "T" :: ts => do let (e, r) ← expr? fuel ts; some (.transpose e, r)
    | "ldot" :: n :: m :: rows :: ts => do
      let a ← mat? n m rows
      let (e, r) ← expr? fuel ts
      some (.leftDot a e, r)
    | "rdot" :: ts => do
      let (e, r) ← expr? fuel ts
      match r with
      | n :: m :: rows :: r => some (.rightDot e (← mat? n m rows), r)
      | _ => none
    | "astype" :: dt :: ts => do
      let d ← match dt with
        | "float64" => some CastTo.float64 | "float32" => some CastTo.float32 | "int" => some CastTo.int | _ => none
      let (e, r) ← expr? fuel ts
      some (.astype e d, r)
    | "rmul" :: c :: ts => do
      let c ← rat? c
      let (e, r) ← expr? fuel ts
      some (.rmul c e, r)
    | "d2u" :: ts => do let (e, r) ← expr? fuel ts; some (.d2u e, r)
    | "b2d" :: ts => do let (e, r) ← expr? fuel ts; some (.b2d e, r)
    | "b2u" :: ts => do let (e, r) ← expr? fuel ts; some (.b2u e, r)
    | "normalize" :: ts => do let (e, r) ← expr? fuel ts; some (.normalize e, r)
    | _ => none

def parseExpr (ts : List String) : Option (OpExpr × List String) := expr? (ts.length + 1) ts

def ans (r : Option String) : Option String := some (r.getD "bad-args")

def csrOf? (n m ip ix dt : String) : Option (Csr Rat) := csrRat? n m ip ix dt

def showCsr (c : Csr Rat) : String :=
  s!"{c.nRow} {c.nCol} {showList c.indptr.toList} {showList c.indices.toList} {showRatList c.data.toList}"

def operand? : List String → Option (Except PyErr Operand × List String)
  | "nd" :: n :: m :: rows :: ts => do some (.ok (.ndarray (← mat? n m rows)), ts)
  | "csr" :: n :: m :: rows :: ts => do some (.ok (.csr (← mat? n m rows)), ts)
  | "op" :: ts => do
    let (e, r) ← parseExpr ts
    match e.eval with
    | .ok o => some (.ok (.op o), r)
    | .error err => some (.error err, r)
  | _ => none

def holds (b : Bool) (detail : String) : String := if b then "holds" else "fails " ++ detail

def base : Handler
  /- run lines: the model of the code -/
  | "c15.dot", ts => ans do
      let (e, r) ← parseExpr ts
      match r with
      | [v] =>
        let v ← ratList? v
        match e.eval with
        | .error err => some (showErr err)
        | .ok o => match o.dot v with
          | .error err => some (showErr err)
          | .ok y => some ("ok " ++ showRatList y)
      | _ => none
  | "c15.hdot", ts => ans do
      let (e, r) ← parseExpr ts
      match r with
      | [v] =>
        let v ← ratList? v
        match e.eval with
        | .error err => some (showErr err)
        | .ok o => match o.hdot v with
          | .error err => some (showErr err)
          | .ok y => some ("ok " ++ showRatList y)
      | _ => none
  | "c15.dotmat", ts => ans do
      let (e, r) ← parseExpr ts
      match r with
      | [n, m, rows] =>
        let x ← mat? n m rows
        match e.eval with
        | .error err => some (showErr err)
        | .ok o => match o.dotMat x with
          | .error err => some (showErr err)
          | .ok y => some ("ok " ++ showMat y)
      | _ => none
  | "c15.mv2d", ts => ans do
      let (e, r) ← parseExpr ts
      match r with
      | [n, m, rows] =>
        let x ← mat? n m rows
        match e.eval with
        | .error err => some (showErr err)
        | .ok o => match o.matvec2d x with
          | .error err => some (showErr err)
          | .ok y => some ("ok " ++ showMat y)
      | _ => none
  | "c15.dispatch", [cls, base, methods] => ans do
      -- source fact (extracted with Python's ast): the dispatch-relevant methods the class defines itself
      let ms := if methods == "-" then [] else methods.splitOn ","
      match classMethods cls with
      | none => some "fails unknown-class"
      | some (b, want) =>
        some (holds (b == base && want == ms) ("want=" ++ b ++ ":" ++ ",".intercalate want))
  | "c15.d2u_unweighted", ts => ans do
      let (e, _) ← parseExpr ts
      match (do (← e.eval).d2uUnweighted : Except PyErr Op) with
      | .error err => some (showErr err)
      | .ok _ => some "ok"
  | "c15.shared", [pat, n, m, rows, nz, v] => ans do
      -- one CoNeighbor object used twice (finding F16i): the in-place semantics of the code
      let p ← match pat with
        | "sub" => some SharedPattern.sub | "add-neg" => some SharedPattern.addNeg
        | "mul-add" => some SharedPattern.mulAdd | _ => none
      let a ← mat? n m rows
      let v ← ratList? v
      match CoNeighbor.init a (← bool? nz) with
      | .error err => some (showErr err)
      | .ok c => match (Op.shared p c).dot v with
        | .error err => some (showErr err)
        | .ok y => some ("ok " ++ showRatList y)
  | "c15.sum", ts => ans do
      let (e, r) ← parseExpr ts
      match r with
      | [axis] =>
        match e.eval with
        | .error err => some (showErr err)
        | .ok (.slr s) =>
          if axis == "0" then
            match s.sum0 with
            | .error err => some (showErr err)
            | .ok y => some ("ok " ++ showRatList y)
          else if axis == "1" then some ("ok " ++ showRatList s.sum1)
          else some ("ok " ++ showRat s.sumAll)
        | .ok _ => some (showErr .attributeError)
      | _ => none
  | "c15.shape", ts => ans do
      let (e, _) ← parseExpr ts
      match e.eval with
      | .error err => some (showErr err)
      | .ok o => some s!"ok {o.nRow} {o.nCol}"
  /- spec lines: the dense denotation applied to the input, compared with the implementation's output -/
  | "c15.spec_dot", ts => ans do
      let (e, r) ← parseExpr ts
      match r with
      | [v, out, tol] =>
        let v ← ratList? v
        let out ← ratList? out
        let tol ← rat? tol
        let want := e.denote.mulVec v
        some (holds (closeVec tol want out) ("want=" ++ showRatList want))
      | _ => none
  /- `astype(int)` of a SparseLR / CoNeighbor on integer input: integer output (entries of a vector, or of the rows of a
     2-d array joined by `;`) -/
  | "c15.spec_integral", [out] => ans do
      let vs ← ratListList? out
      some (holds (vs.all integralVec) "integral")
  | "c15.spec_dotmat", ts => ans do
      let (e, r) ← parseExpr ts
      match r with
      | [n, m, rows, on, om, orows, tol] =>
        let x ← mat? n m rows
        let out ← mat? on om orows
        let tol ← rat? tol
        let want := e.denote.mul x
        some (holds (closeMat tol want out) ("want=" ++ showMat want))
      | _ => none
  | "c15.spec_sum", ts => ans do
      let (e, r) ← parseExpr ts
      match r with
      | [axis, out, tol] =>
        let out ← ratList? out
        let tol ← rat? tol
        let d := e.denote
        let want := if axis == "0" then colSums d else if axis == "1" then d.rowSums else [vsum d.rowSums]
        some (holds (closeVec tol want out) ("want=" ++ showRatList want))
      | _ => none
  | "c15.type", ts => ans do
      -- class and shape of the value of the expression in the model (`Op.ty`; equal to `OpExpr.type?` by `eval_type`)
      let (e, _) ← parseExpr ts
      let showKind : Kind → String := fun k => match k with
        | .slr => "slr" | .nrm false => "nrm" | .nrm true => "nrmT" | .lap => "lap" | .con => "con"
        | .pol => "pol" | .gen => "gen"
      match e.eval with
      | .error err => some (showErr err)
      | .ok o => some s!"ok {showKind o.kind} {o.nRow} {o.nCol}"
  | "c15.spec_type", ts => ans do
      -- the class and shape Python returned, against the static type of the expression
      let (e, r) ← parseExpr ts
      match r with
      | [k, n, m] =>
        let showKind : Kind → String := fun k => match k with
          | .slr => "slr" | .nrm false => "nrm" | .nrm true => "nrmT" | .lap => "lap" | .con => "con"
          | .pol => "pol" | .gen => "gen"
        match e.type? with
        | .ok t => some (holds (showKind t.kind == k && toString t.nRow == n && toString t.nCol == m)
            s!"want={showKind t.kind},{t.nRow},{t.nCol}")
        | .error err => some ("fails want=" ++ (showErr err).replace " " "_")
      | _ => none
  | "c15.spec_shape", ts => ans do
      let (e, r) ← parseExpr ts
      match r with
      | [n, m] =>
        let d := e.denote
        some (holds (toString d.nRow == n && toString d.nCol == m) s!"want={d.nRow},{d.nCol}")
      | _ => none
  /- safe_sparse_dot -/
  | "c15.safedot", ts => ans do
      let (a, r) ← operand? ts
      let (b, r) ← operand? r
      match r with
      | [probe] =>
        let v ← ratList? probe
        match (do safeSparseDot (← a) (← b) : Except PyErr DotResult) with
        | .error err => some (showErr err)
        | .ok (.mat m) => some ("ok mat " ++ showMat m)
        | .ok (.op o) => match o.dot v with
          | .error err => some (showErr err)
          | .ok y => some ("ok op " ++ showRatList y)
        | .ok .none => some "ok none"
      | _ => none
  | "c15.spec_safedot", ts => ans do
      -- the product of the dense denotations of the two operands, compared with what safe_sparse_dot returned
      let dens : List String → Option (Mat × List String) := fun ts => match ts with
        | "nd" :: n :: m :: rows :: r => do some (← mat? n m rows, r)
        | "csr" :: n :: m :: rows :: r => do some (← mat? n m rows, r)
        | "op" :: r => do
          let (e, r) ← parseExpr r
          some (e.denote, r)
        | _ => none
      let (a, r) ← dens ts
      let (b, r) ← dens r
      match r with
      | [probe, "mat", n, m, rows, tol] =>
        let out ← mat? n m rows
        let _ ← ratList? probe
        some (holds (closeMat (← rat? tol) (a.mul b) out) ("want=" ++ showMat (a.mul b)))
      | [probe, "op", out, tol] =>
        let v ← ratList? probe
        let out ← ratList? out
        some (holds (closeVec (← rat? tol) ((a.mul b).mulVec v) out) ("want=" ++ showRatList ((a.mul b).mulVec v)))
      | _ => none
  /- utilities on matrices (entries) -/
  | "c15.normalize", [n, m, rows, p, sq] => ans do
      let a ← mat? n m rows
      if p == "1" then some ("ok " ++ showMat (normalize1 a))
      else if p == "2" then some ("ok " ++ showMat (normalize2 a (← ratList? sq)))
      else some (showErr .valueError)
  | "c15.norms", [n, m, rows, p] => ans do
      let a ← mat? n m rows
      if p == "1" then some ("ok " ++ showRatList (norms1 a))
      else if p == "2" then some ("ok " ++ showRatList (norms2sq a))
      else some (showErr .valueError)
  | "c15.pinv", [w] => ans do some ("ok " ++ showRatList (pinvVec (← ratList? w)))
  | "c15.laplacian", [n, m, rows] => ans do
      match getLaplacian (← mat? n m rows) with
      | .error err => some (showErr err)
      | .ok l => some ("ok " ++ showMat l)
  | "c15.d2u", [n, m, rows, w] => ans do
      match directed2undirected (← mat? n m rows) (← bool? w) with
      | .error err => some (showErr err)
      | .ok l => some ("ok " ++ showMat l)
  | "c15.d2u_dtype", [d] => ans do
      let dt ← match d with
        | "bool" => some Dtype.bool | "int" => some Dtype.int | "float32" => some Dtype.float32
        | "float64" => some Dtype.float64 | _ => none
      some (match d2uDtype dt with
        | .bool => "ok bool" | .int => "ok int" | .float32 => "ok float32" | .float64 => "ok float64")
  | "c15.b2d", [n, m, rows] => ans do some ("ok " ++ showMat (bipartite2directed (← mat? n m rows)))
  | "c15.b2u", [n, m, rows] => ans do some ("ok " ++ showMat (bipartite2undirected (← mat? n m rows)))
  | "c15.tfidf", [n, m, rows, tbl] => ans do
      some ("ok " ++ showMat (getTfidf (← mat? n m rows) (← ratList? tbl)))
  | "c15.docfreq", [n, m, rows] => ans do some ("ok " ++ showList (docFreq (← mat? n m rows)))
  /- utilities on the CSR arrays -/
  | "c15.membership", [labels, nl] => ans do
      let l ← intList? labels
      let nl ← optNat? nl
      match getMembership l nl with
      | .error err => some (showErr err)
      | .ok c => some ("ok " ++ showCsr c)
  | "c15.from_membership", [n, m, ip, ix, dt] => ans do
      match fromMembership (← csrOf? n m ip ix dt) with
      | .error err => some (showErr err)
      | .ok l => some ("ok " ++ showList l)
  | "c15.roundtrip", [labels, nl] => ans do
      let l ← intList? labels
      let nl ← optNat? nl
      match getMembership l nl with
      | .error err => some (showErr err)
      | .ok c => match fromMembership c with
        | .error err => some (showErr err)
        | .ok l' => some ("ok " ++ showList l')
  | "c15.spec_roundtrip", [labels, out] => ans do
      let l ← intList? labels
      let out ← intList? out
      some (holds (out == clampLabels l) ("want=" ++ showList (clampLabels l)))
  | "c15.neighbors", [n, m, ip, ix, dt, node, tr] => ans do
      match getNeighbors (← csrOf? n m ip ix dt) (← node.toNat?) (← bool? tr) with
      | .error err => some (showErr err)
      | .ok l => some ("ok " ++ showList l)
  | "c15.degrees", [n, m, ip, ix, dt, tr] => ans do
      some ("ok " ++ showList (getDegrees (← csrOf? n m ip ix dt) (← bool? tr)))
  | "c15.weights", [n, m, ip, ix, dt, tr] => ans do
      some ("ok " ++ showRatList (getWeights (← csrOf? n m ip ix dt) (← bool? tr)))
  | "c15.csr_transpose", [n, m, ip, ix, dt] => ans do
      some ("ok " ++ showCsr (csrTranspose (← csrOf? n m ip ix dt)))
  | "c15.csr_dense", [n, m, ip, ix, dt] => ans do
      some ("ok " ++ showMat (csrDense (← csrOf? n m ip ix dt)))
  /- specification of the neighbourhood functions on the dense denotation -/
  | "c15.spec_weights", [n, m, ip, ix, dt, tr, out] => ans do
      let c ← csrOf? n m ip ix dt
      let tr ← bool? tr
      let out ← ratList? out
      let d := if tr then (csrDense c).transpose else csrDense c
      some (holds (out == d.rowSums) ("want=" ++ showRatList d.rowSums))
  | "c15.spec_normalize", [n, m, rows, p, on, om, orows, tol] => ans do
      let a ← mat? n m rows
      let out ← mat? on om orows
      let tol ← rat? tol
      if p == "1" then some (holds (NormalizeSpec1 tol a out) "NormalizeSpec1")
      else some (holds (NormalizeSpec2 tol a out) "NormalizeSpec2")
  | "c15.spec_laplacian", [n, m, rows, on, om, orows, tol] => ans do
      some (holds (LaplacianSpec (← rat? tol) (← mat? n m rows) (← mat? on om orows)) "LaplacianSpec")
  | "c15.spec_pinv", [w, out, tol] => ans do
      some (holds (PinvSpec (← rat? tol) (← ratList? w) (← ratList? out)) "PinvSpec")
  | "c15.spec_d2u", [tol, n, m, rows, w, on, om, orows] => ans do
      some (holds (D2USpec (← rat? tol) (← mat? n m rows) (← bool? w) (← mat? on om orows)) "D2USpec")
  | "c15.spec_b2d", [tol, n, m, rows, on, om, orows] => ans do
      some (holds (B2DSpec (← rat? tol) (← mat? n m rows) (← mat? on om orows)) "B2DSpec")
  | "c15.spec_b2u", [tol, n, m, rows, on, om, orows] => ans do
      some (holds (B2USpec (← rat? tol) (← mat? n m rows) (← mat? on om orows)) "B2USpec")
  | "c15.spec_tfidf", [tol, n, m, rows, tbl, on, om, orows] => ans do
      some (holds (TfidfSpec (← rat? tol) (← mat? n m rows) (← ratList? tbl) (← mat? on om orows)) "TfidfSpec")
  | "c15.spec_neighbors", [n, m, ip, ix, dt, node, tr, out] => ans do
      let c ← csrOf? n m ip ix dt
      let d := if (← bool? tr) then (csrDense c).transpose else csrDense c
      some (holds (NeighborsSpec d (← node.toNat?) (← natList? out)) "NeighborsSpec")
  | "c15.spec_degrees", [n, m, ip, ix, dt, tr, out] => ans do
      let c ← csrOf? n m ip ix dt
      let d := if (← bool? tr) then (csrDense c).transpose else csrDense c
      some (holds (DegreesSpec d (← natList? out)) "DegreesSpec")
  | "c15.spec_membership", [labels, nl, n, m, ip, ix, dt] => ans do
      some (holds (MembershipSpec (← intList? labels) (← optNat? nl) (csrDense (← csrOf? n m ip ix dt))) "MembershipSpec")
  | "c15.topk", [scores, k, sort] => ans do
      some ("ok " ++ showList (topK (← ratList? scores) (← k.toNat?) (← bool? sort)))
  | "c15.spec_topk", [scores, k, sort, out] => ans do
      let s ← ratList? scores
      some (holds (TopKSpec s (← k.toNat?) (← bool? sort) (← natList? out)) "TopKSpec")
  | _, _ => none

/-- spec lines that refer to the answer of a run line -/
def handle : Handler
  /- `c15.spec_refused cmd args…`: the implementation raised on this request; that is justified only if the
     request is refused by the model as well (shape errors are characterised by `C15.denote_op_dot_error`) -/
  | "c15.spec_refused", cmd :: args => ans do
      let a ← base cmd args
      some (holds (a.startsWith "err") ("defined=" ++ a.replace " " "_"))
  | cmd, args => base cmd args

end SkNet.Drive.C15
