/- Line-protocol handlers of property C17: the generated kernel IR and its kind obligations. -/
import SkNet.Model.KernelIR
import SkNet.Generated.KernelIR
import SkNet.Model.KernelsHeap
import SkNet.Model.KernelsVote

namespace SkNet.Drive.C17
open SkNet SkNet.Proto SkNet.IR

def findKernel (nm : String) : Option Kernel :=
  SkNet.Generated.KernelIR.all.find? (fun k => k.name == nm)

def showProblem (K : Kernel) : Problem → String
  | .assignTo x => "assign:" ++ K.varNames.getD x (toString x)
  | .storeInto a => "store:" ++ K.arrNames.getD a (toString a)
  | .loopVar x => "loop:" ++ K.varNames.getD x (toString x)
  | .container a => "container:" ++ K.arrNames.getD a (toString a)

/-- `x,v;x,v` -/
def scalars? (s : String) : Option (List (Nat × Int)) :=
  if s == "-" then some [] else (s.splitOn ";").mapM fun t =>
    match t.splitOn "," with
    | [a, b] => do pure (← a.toNat?, ← b.toInt?)
    | _ => none

/-- `id=v,v,v|id=#len|…` (`#len`: that many zeros — a float array, only its length matters) -/
def arrays? (s : String) : Option (List (Nat × List Int)) :=
  if s == "-" then some [] else (s.splitOn "|").mapM fun t =>
    match t.splitOn "=" with
    | [a, b] => do
      let id ← a.toNat?
      if b.startsWith "#" then
        let n ← (b.drop 1).toNat?
        pure (id, List.replicate n 0)
      else
        pure (id, ← intList? b)
    | _ => none

def inputs? (dims sc ar : String) : Option Inputs := do
  pure { dims := ← natList? dims, scalars := ← scalars? sc, arrs := ← arrays? ar }

/-- a fixed pseudo-random oracle -/
def oracle (seed : Nat) (t k : Nat) : Int :=
  (((seed + 1) * 1103515245 + t * 12345 + k * 7919 + (t * t) % 8191) % 1000003 : Nat)

def showRes (K : Kernel) : SRes → String
  | .ok _ _ => "ok"
  | .done => "done"
  | .out => "out"
  | .err (.oob s) => s!"oob {s} {(K.siteNames.getD s "?").replace " " ""}"
  | .err (.uninit x) => s!"uninit {K.varNames.getD x (toString x)}"

def handle : Handler
  | "c17.kernels", [] => some (",".intercalate (SkNet.Generated.KernelIR.all.map (·.name)))
  -- `c17.kind <kernel>` -> `ok|bad <ill sites> <value problems>`: `ok` iff the checker accepts the kernel
  -- with exactly the listed sites waived
  | "c17.kind", [nm] => some <| match findKernel nm with
      | none => "no-such-kernel"
      | some K =>
        let ill := K.ill
        let ok := K.checkWith ill
        let pr := (problems K.env K.body).eraseDups
        let bad := (daBad K.params K.body).eraseDups
        let daTok := if K.assigned then "assigned" else
          "unassigned:" ++ ",".intercalate (bad.map fun x => K.varNames.getD x (toString x))
        s!"{if ok then "ok" else "bad"} {showList ill} {if pr.isEmpty then "-" else ",".intercalate (pr.map (showProblem K))} {daTok}"
  -- contract of the kind declarations on the arguments a kernel was really called with
  | "c17.sat", [nm, dims, sc, ar] => some <| match findKernel nm, inputs? dims sc ar with
      | some K, some inp =>
        if inp.satisfies K.env then "holds"
        else "fails " ++ ",".intercalate ((inp.violations K.env).map fun v =>
          match v.splitOn ":" with
          | ["array", a] => "array:" ++ K.arrNames.getD a.toNat! a
          | ["scalar", x] => "scalar:" ++ K.varNames.getD x.toNat! x
          | _ => v)
      | _, _ => "bad-args"
  -- run the IR interpreter (step budget `fuel`) on concrete inputs under a pseudo-random oracle
  | "c17.exec", [nm, dims, sc, ar, fuel, seed] => some <| match findKernel nm, inputs? dims sc ar, fuel.toNat?, seed.toNat? with
      | some K, some inp, some f, some sd => showRes K (execS 1000000 f K.body (inp.state (oracle sd)))
      | _, _, _, _ => "bad-args"
  -- checked model of compute_core (repaired __cinit__): `ok <labels>` | `err oob` | `err fuel`
  | "c17.core", [ip, ix] => some <| Option.getD (do
      let ip ← natList? ip
      let ix ← natList? ix
      match KHeap.computeCore? true ip ix with
      | .ok l => some ("ok " ++ showList l)
      | .error .oob => some "err oob"
      | .error .fuel => some "err fuel") "bad-args"
  -- checked model of vote_update: `c17.vote <n> <indptr> <indices> <data> <labels> <index>`
  | "c17.vote", [n, ip, ix, dt, lb, idx] => some <| Option.getD (do
      let c ← csrRat? n n ip ix dt
      let lb ← intList? lb
      let idx ← natList? idx
      match KVote.voteUpdate? c lb idx with
      | .ok l => some ("ok " ++ showList l)
      | .error .oob => some "err oob"
      | .error .fuel => some "err fuel") "bad-args"
  | _, _ => none

end SkNet.Drive.C17
