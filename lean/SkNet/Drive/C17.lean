/- Line-protocol handlers of property C17: the generated kernel IR and its kind obligations. -/
import SkNet.Model.KernelIR
import SkNet.Generated.KernelIR

namespace SkNet.Drive.C17
open SkNet SkNet.Proto SkNet.IR

def findKernel (nm : String) : Option Kernel :=
  SkNet.Generated.KernelIR.all.find? (fun k => k.name == nm)

def showProblem (K : Kernel) : Problem → String
  | .assignTo x => "assign:" ++ K.varNames.getD x (toString x)
  | .storeInto a => "store:" ++ K.arrNames.getD a (toString a)
  | .loopVar x => "loop:" ++ K.varNames.getD x (toString x)
  | .container a => "container:" ++ K.arrNames.getD a (toString a)

def handle : Handler
  | "c17.kernels", [] => some (",".intercalate (SkNet.Generated.KernelIR.all.map (·.name)))
  -- `c17.kind <kernel>` -> `ok|bad <ill sites> <value problems>`: `ok` iff the checker accepts the kernel
  -- with exactly the listed sites waived
  | "c17.kind", [nm] => some <| match findKernel nm with
      | none => "no-such-kernel"
      | some K =>
        let ill := K.ill
        let ok := K.checkWith ill
        let pr := (problems K.env K.body).eraseDups
        s!"{if ok then "ok" else "bad"} {showList ill} {if pr.isEmpty then "-" else ",".intercalate (pr.map (showProblem K))}"
  | _, _ => none

end SkNet.Drive.C17
