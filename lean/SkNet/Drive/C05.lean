/- Line-protocol handlers for the clustering post-processing models and specifications (C05). -/
import SkNet.Model.Clustering
import SkNet.Spec.Clustering

namespace SkNet.Drive.C05
open SkNet SkNet.Proto SkNet.Clustering

def showErr (e : PyErr) : String := "err " ++ e.show

def spOf (c : Csr Rat) : SpMat := (List.range c.nRow).map fun i => c.row i

def optShow (o : Option (List Nat)) : String :=
  match o with
  | none => "_"
  | some l => showList l

def optShowI (o : Option (List Int)) : String :=
  match o with
  | none => "_"
  | some l => showList l

def showMat (m : List (List Rat)) : String :=
  if m.isEmpty then "-" else ";".intercalate (m.map showRatList)

def optMat (o : Option (List (List Rat))) : String :=
  match o with
  | none => "_"
  | some m => showMat m

def showFitted (f : Fitted) : String :=
  s!"{showList f.labels} {optShow f.labelsRow} {optShow f.labelsCol}"

def natsOfInts? (l : List Int) : Option (List Nat) :=
  l.mapM fun x => if 0 ≤ x then some x.toNat else none

def pos? (s : String) : Option CenterPos :=
  match s with
  | "row" => some .row
  | "col" => some .col
  | "both" => some .both
  | _ => some .other

def optNatList? (s : String) : Option (Option (List Nat)) :=
  if s == "_" then some none else (natList? s).map some

def optIntList? (s : String) : Option (Option (List Int)) :=
  if s == "_" then some none else (intList? s).map some

def verdict (b : Bool) (why : String := "") : String := if b then "holds" else "fails " ++ why

def handle : Handler
  | "c05.unique", [l] => some <| Option.getD (do
      let l ← intList? l
      some s!"ok {showList (unique l)} {showList (inverse l)} {showList (counts l)}") "bad-args"
  | "c05.reindex", [l] => some <| Option.getD (do
      let l ← intList? l
      some ("ok " ++ showList (reindexLabels argsortStable l))) "bad-args"
  | "c05.membership", [l, k] => some <| Option.getD (do
      let l ← intList? l
      let k ← optNat? k
      match getMembership l k with
      | .error e => some (showErr e)
      | .ok m => some s!"ok {m.nCol} {showListList m.rows}") "bad-args"
  | "c05.louvain", [n, m, ip, ix, dt, fb, modularity, nAgg, raws, flags, index, so, sh] => some <| Option.getD (do
      let c ← csrRat? n m ip ix dt
      let nAgg ← nAgg.toInt?
      let raws ← intListList? raws
      let flags ← natList? flags
      let index ← natList? index
      let kernel := fun (count _n : Nat) => (raws.getD (count - 1) [], flags.getD (count - 1) 1 != 0)
      match louvainOnMatrix argsortStable kernel nAgg raws.length (spOf c) c.nCol (← bool? fb) modularity index
              (← bool? so) (← bool? sh) with
      | .error e => some (showErr e)
      | .ok none => some "fuel"
      | .ok (some (f, count)) => some s!"ok {count} {showFitted f}") "bad-args"
  | "c05.leiden", [n, m, ip, ix, dt, fb, modularity, nAgg, raws, refs, flags, index, so, sh] => some <| Option.getD (do
      let c ← csrRat? n m ip ix dt
      let nAgg ← nAgg.toInt?
      let raws ← intListList? raws
      let refs ← intListList? refs
      let flags ← natList? flags
      let index ← natList? index
      let kernel := fun (count : Nat) (_ : List Nat) => (raws.getD (count - 1) [], flags.getD (count - 1) 1 != 0)
      let refine := fun (count : Nat) (_ : List Nat) => refs.getD (count - 1) []
      match leidenOnMatrix argsortStable kernel refine nAgg raws.length (spOf c) c.nCol (← bool? fb) modularity index
              (← bool? so) (← bool? sh) with
      | .error e => some (showErr e)
      | .ok none => some "fuel"
      | .ok (some (f, count)) => some s!"ok {count} {showFitted f}") "bad-args"
  | "c05.leiden_next", [labels, refined] => some <| Option.getD (do
      -- labels handed to the next round of Leiden: `membership_refined.T.dot(membership).indices`
      let labels ← natList? labels
      let refined ← natList? refined
      some ("ok " ++ showList (refinedToCoarse labels refined (nLabels refined)))) "bad-args"
  | "c05.prop", [nRow, nCol, nnz, raw, so] => some <| Option.getD (do
      let raw ← intList? raw
      match propagationEstimator argsortStable (fun _ => raw) (← nRow.toNat?) (← nCol.toNat?) (← nnz.toNat?)
              (← bool? so) with
      | .error e => some (showErr e)
      | .ok f => some ("ok " ++ showFitted f)) "bad-args"
  | "c05.unshuffle", [labels, index] => some <| Option.getD (do
      match unshuffle (← natList? labels) (← natList? index) with
      | .error e => some (showErr e)
      | .ok l => some ("ok " ++ showList l)) "bad-args"
  | "c05.secondary", [n, m, ip, ix, dt, bip, labels, rp, ra] => some <| Option.getD (do
      let c ← csrRat? n m ip ix dt
      let bip ← bool? bip
      let labels ← natList? labels
      let f := splitVars bip c.nRow labels
      match secondary (spOf c) c.nCol f bip (← bool? rp) (← bool? ra) with
      | .error e => some (showErr e)
      | .ok s => some s!"ok {optMat s.probs} {optMat s.probsRow} {optMat s.probsCol} {optMat s.aggregate}")
        "bad-args"
  | "c05.aggregate_graph", [n, m, ip, ix, dt, l, lr, lc] => some <| Option.getD (do
      let c ← csrRat? n m ip ix dt
      match aggregateGraph (spOf c) c.nCol (← optIntList? l) (← optIntList? lr) (← optIntList? lc) with
      | .error e => some (showErr e)
      | .ok (kr, kc, g) => some s!"ok {kr} {kc} {showMat g}") "bad-args"
  | "c05.spec_aggregate_graph", [n, m, ip, ix, dt, lr, lc, kr, kc, g, tol] => some <| Option.getD (do
      let tol ← rat? tol
      let c ← csrRat? n m ip ix dt
      let a := spOf c
      let lr ← intList? lr
      let lc ← intList? lc
      let kr ← kr.toNat?
      let kc ← kc.toNat?
      let g ← ratListList? g
      let shape := g.length == kr && g.all (·.length == kc)
      let entries := (List.range kr).all fun x => (List.range kc).all fun y =>
        decide (absR ((g.getD x []).getD y 0 - aggEntryInt a lr lc x y) ≤ tol)
      some (verdict (shape && entries) s!"shape={shape} entries={entries}")) "bad-args"
  | "c05.kcenters", [nc, ni, bip, nRow, nCol, pos, cs, ls, im] => some <| Option.getD (do
      let cs ← natListList? cs
      let ls ← natListList? ls
      match kcentersFit (← nc.toInt?) (← ni.toInt?) (← bool? bip) (← nRow.toNat?) (← nCol.toNat?) (← pos? pos)
              (cs.zip ls) (← im.toNat?) with
      | .error e => some (showErr e)
      | .ok k => some s!"ok {showList k.labels} {optShow k.labelsRow} {optShow k.labelsCol} {showList k.centers} {optShow k.centersRow} {optShowI k.centersCol}")
        "bad-args"
  | "c05.kcenters_full", [nc, ni, mi, dir, fb, nRow, nCol, nnz, pos, cs, sc, im] => some <| Option.getD (do
      -- whole fit from the shape of the input: the recorded centres of every restart are replayed as the random
      -- choices, the recorded score matrices (`|`-separated) as the PageRank scores of that restart; routing,
      -- refusals, the read-out of the labels and the bookkeeping are the model's
      let cs ← natListList? cs
      let sc ← if sc == "-" then some [] else (sc.splitOn "|").mapM ratListList?
      let chooseOf := fun (i t : Nat) (_ : List Nat) => (cs.getD i []).getD t 0
      let scores := fun (i : Nat) (_ : List Nat) => sc.getD i []
      match kcentersEstimator (← nc.toInt?) (← ni.toInt?) (← mi.toInt?) (← bool? dir) (← bool? fb) (← nRow.toNat?)
              (← nCol.toNat?) (← nnz.toNat?) (← pos? pos) chooseOf scores (← im.toNat?) with
      | .error e => some (showErr e)
      | .ok (k, calls) => some s!"ok {calls} {showList k.labels} {optShow k.labelsRow} {optShow k.labelsCol} {showList k.centers} {optShow k.centersRow} {optShowI k.centersCol}")
        "bad-args"
  | "c05.initcenters", [bip, nRow, nCol, pos, nc, choices] => some <| Option.getD (do
      -- replays `_init_centers` with the recorded choices; `contract` = every choice was offered
      let choices ← natList? choices
      match maskCenters (← bool? bip) (← nRow.toNat?) (← nCol.toNat?) (← pos? pos) with
      | .error e => some (showErr e)
      | .ok mask =>
        let nc ← nc.toNat?
        let centers := initCenters (fun t _ => choices.getD t 0) mask nc
        let offered := (List.range nc).all fun t =>
          let taken := choices.take t
          let c := choices.getD t 0
          mask.getD c false && !taken.contains c
        some s!"ok {showList centers} {showBool offered}") "bad-args"
  -- contract lines: what the theorems assume of external code, evaluated on what it returned ---------
  | "c05.contract_argsort", [key, perm] => some <| Option.getD (do
      let key ← intList? key
      let p ← natList? perm
      let isPerm := p.isPerm (List.range key.length)
      let ks := p.map fun i => key.getD i 0
      let sorted := (ks.zip (ks.drop 1)).all fun (a, b) => decide (a ≤ b)
      some (verdict (isPerm && sorted) s!"perm={isPerm} sorted={sorted}")) "bad-args"
  | "c05.contract_scores", [n, k, sc] => some <| Option.getD (do
      -- what the theorems assume of PageRank: one row of scores per node (and, here, one column per centre)
      let n ← n.toNat?
      let k ← k.toNat?
      let sc ← ratListList? sc
      some (verdict (sc.length == n && sc.all (·.length == k)) s!"rows={sc.length}")) "bad-args"
  | "c05.contract_nomerge", [raw, flag] => some <| Option.getD (do
      -- `NoMergeStops`: pairwise distinct labels out of the kernel (no merge) come with `increase <= tol_aggregation`
      let raw ← intList? raw
      let flag ← bool? flag
      some (verdict (!((unique raw).length == raw.length) || flag))) "bad-args"
  | "c05.contract_leiden", [labels, refined] => some <| Option.getD (do
      -- `LeidenContract`: same length, and a refined cluster lies inside one cluster
      let l ← intList? labels
      let r ← intList? refined
      let n := l.length
      let la := l.toArray
      let ra := r.toArray
      let within := (List.range n).all fun i => (List.range n).all fun j =>
        !(ra.getD i 0 == ra.getD j 0) || la.getD i 0 == la.getD j 0
      some (verdict (r.length == n && within) s!"len={r.length == n} within={within}")) "bad-args"
  -- specification lines ------------------------------------------------------------------
  | "c05.spec_reindex", [l, out] => some <| Option.getD (do
      let l ← intList? l
      let out ← intList? out
      match natsOfInts? out with
      | none => some "fails negative-label"
      | some o =>
        some (verdict (samePartitionB l o && decide (ValidClustering l.length o true))
          s!"same={samePartitionB l o} valid={decide (ValidClustering l.length o true)}")) "bad-args"
  | "c05.spec_post", [levels, index, sh, labels] => some <| Option.getD (do
      -- the final labels induce the partition found by the kernels (levels composed), read through `index`
      let levels ← intListList? levels
      let index ← natList? index
      let labels ← intList? labels
      let n := (levels.headD []).length
      let a := levels.foldl (fun (a : List Nat) raw =>
        let lab := (inverse raw).toArray
        a.map fun x => lab.getD x 0) (List.range n)
      let seen := if (← bool? sh) then index.map fun v => labels.getD v (-1) else labels
      some (verdict (samePartitionB a seen && labels.length == n))) "bad-args"
  | "c05.spec_shuffle", [n, m, ip, ix, dt, bip, kn, kip, kix, index] => some <| Option.getD (do
      -- the graph handed to the kernel in the first round is the symmetrised (block) adjacency with node `j`
      -- standing for original node `index[j]` — the convention the un-shuffle of `_post_processing` inverts
      let c ← csrRat? n m ip ix dt
      let bip ← bool? bip
      let kn ← kn.toNat?
      let k ← csrPattern? (toString kn) (toString kn) kip kix
      let index ← natList? index
      let e0 : Nat → Nat → Bool := fun i j => (c.row i).any fun e => e.1 == j && e.2 != 0
      let e : Nat → Nat → Bool := if bip then
          fun i j => if i < c.nRow then (if j < c.nRow then false else e0 i (j - c.nRow))
                     else (if j < c.nRow then e0 j (i - c.nRow) else false)
        else e0
      let ke : Nat → Nat → Bool := fun i j => (k.rowIdx i).contains j
      let ok := (List.range kn).all fun j => (List.range kn).all fun j' =>
        ke j j' == (e (index.getD j kn) (index.getD j' kn) || e (index.getD j' kn) (index.getD j kn))
      some (verdict (ok && index.length == kn))) "bad-args"
  | "c05.spec_close", [a, b, tol] => some <| Option.getD (do
      -- two dense matrices of the same shape agree entry by entry within `tol` (probs_ of a rescaled graph)
      let a ← ratListList? a
      let b ← ratListList? b
      let tol ← rat? tol
      let ok := a.length == b.length && (a.zip b).all fun (x, y) =>
        x.length == y.length && (x.zip y).all fun (u, v) => decide (absR (u - v) ≤ tol)
      some (verdict ok)) "bad-args"
  | "c05.spec_same", [a, b] => some <| Option.getD (do
      let a ← intList? a
      let b ← intList? b
      some (verdict (samePartitionB a b))) "bad-args"
  | "c05.spec_valid", [n, labels, so] => some <| Option.getD (do
      let n ← n.toNat?
      let labels ← intList? labels
      let so ← bool? so
      match natsOfInts? labels with
      | none => some "fails negative-label"
      | some l =>
        some (verdict (decide (ValidClustering n l so))
          s!"len={l.length} k={nLabels l} contiguous={decide (Contiguous l (nLabels l))} sorted={decide (SizesNonInc l (nLabels l))}"))
        "bad-args"
  | "c05.spec_probs", [n, m, ip, ix, dt, tr, k, probs, tol] => some <| Option.getD (do
      let c ← csrRat? n m ip ix dt
      let a := if (← bool? tr) then transposeSp (spOf c) c.nCol else spOf c
      let probs ← ratListList? probs
      some (verdict (decide (ProbsOK a probs (← k.toNat?) (← rat? tol))))) "bad-args"
  | "c05.spec_agg", [n, m, ip, ix, dt, lr, lc, k, agg, tol] => some <| Option.getD (do
      let c ← csrRat? n m ip ix dt
      let a := spOf c
      let lr ← natList? lr
      let lc ← natList? lc
      let k ← k.toNat?
      let agg ← ratListList? agg
      let tol ← rat? tol
      let entries := decide (AggOK a lr lc k agg tol)
      let total := decide (absR (sumAll agg - totalWeight a) ≤ tol * ((k * k : Nat) : Rat))
      some (verdict (entries && total) s!"entries={entries} total={total}")) "bad-args"
  | "c05.spec_centers", [bip, nRow, nCol, pos, nc, centers] => some <| Option.getD (do
      -- the centres of one restart: `n_clusters` distinct admissible nodes
      let bip ← bool? bip
      let nRow ← nRow.toNat?
      let nCol ← nCol.toNat?
      let pos ← pos? pos
      let nc ← nc.toNat?
      match natsOfInts? (← intList? centers) with
      | some c =>
        some (verdict (c.length == nc && decide c.Nodup && c.all fun x => decide (Admissible bip nRow nCol pos x)))
      | none => some "fails negative") "bad-args"
  | "c05.spec_kcenters", [bip, nRow, nCol, pos, nc, labels, centers, cr, cc] => some <| Option.getD (do
      let bip ← bool? bip
      let nRow ← nRow.toNat?
      let nCol ← nCol.toNat?
      let pos ← pos? pos
      let nc ← nc.toNat?
      let labels ← intList? labels
      let centers ← intList? centers
      let cr ← optNatList? cr
      let cc ← optIntList? cc
      match natsOfInts? labels, natsOfInts? centers with
      | some l, some c =>
        let main := decide (KCentersOK bip nRow nCol pos nc l c)
        let split := !bip || decide (CentersSplitOK nRow pos c cr cc)
        some (verdict (main && split) s!"main={main} split={split}")
      | _, _ => some "fails negative") "bad-args"
  | _, _ => none

end SkNet.Drive.C05
