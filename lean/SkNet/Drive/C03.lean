/- Line-protocol handlers for the bipartite plumbing (C03). -/
import SkNet.Model.Bipartite

namespace SkNet.Drive.C03
open SkNet SkNet.Proto SkNet.Bip

/-- `_` | `a:<rat,…>` | `d:<k=v;…>` (`d:-` is the empty dict) -/
def values? (s : String) : Option (Option Values) :=
  if s == "_" then some none
  else if s.startsWith "a:" then (ratList? (s.drop 2).toString).map (fun l => some (.arr l))
  else if s.startsWith "d:" then
    let body := (s.drop 2).toString
    if body == "-" then some (some (.dict []))
    else ((body.splitOn ";").mapM (fun (t : String) =>
      match t.splitOn "=" with
      | [k, v] => do
          let a ← String.toNat? k
          let b ← rat? v
          pure (a, b)
      | _ => none)).map (fun kv => some (Values.dict kv))
  else none

def which? : String → Option Which
  | "none" => some .none | "probs" => some .probs | "labels" => some .labels | _ => none

def showRes : Except PyErr (List Rat) → String
  | .ok l => "ok " ++ showRatList l
  | .error e => "err " ++ e.show

def showRows (m : List (List Rat)) : String :=
  if m.isEmpty then "-" else ";".intercalate (m.map showRatList)

def handle : Handler
  | "c03.values", [n, v, d] => some <| Option.getD (do
      some (showRes (getValues (← n.toNat?) (← values? v) (← rat? d)))) "bad-args"
  | "c03.stack", [nr, nc, vr, vc, d] => some <| Option.getD (do
      some (showRes (stackValues (← nr.toNat?) (← nc.toNat?) (← values? vr) (← values? vc) (← rat? d)))) "bad-args"
  | "c03.adjvals", [nr, nc, sym, ad, fb, v, vr, vc, d, w] => some <| Option.getD (do
      match getAdjacencyValues (← nr.toNat?) (← nc.toNat?) (← bool? sym) (← bool? ad) (← bool? fb)
              (← values? v) (← values? vr) (← values? vc) (← rat? d) (← which? w) with
      | .ok r => some s!"ok {showBool r.bipartite} {r.nNodes} {showRatList r.values}"
      | .error e => some ("err " ++ e.show)) "bad-args"
  | "c03.split", [bip, nr, x] => some <| Option.getD (do
      let (a, r, c) := splitVarsClassifier (← bool? bip) (← nr.toNat?) (← ratList? x)
      some s!"ok {showRatList a} {showRatList r} {showRatList c}") "bad-args"
  | "c03.block", [dir, n, m, ip, ix, dt] => some <| Option.getD (do
      let c ← csrRat? n m ip ix dt
      let t := if (← bool? dir) then blockDirTriples c else blockTriples c
      some s!"ok {showRows (dense (c.nRow + c.nCol) t)}") "bad-args"
  | "c03.adjacency", [n, m, ip, ix, dt, ad, fb, fd, ae] => some <| Option.getD (do
      match getAdjacency (← csrRat? n m ip ix dt) (← bool? ad) (← bool? fb) (← bool? fd) (← bool? ae) with
      | .ok r => some s!"ok {showBool r.bipartite} {r.nNodes} {showRows (dense r.nNodes r.entries)}"
      | .error e => some ("err " ++ e.show)) "bad-args"
  | _, _ => none

end SkNet.Drive.C03
