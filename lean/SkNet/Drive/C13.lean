/- Line-protocol handlers for property C13 (semi-supervised classification, NNLinker, metrics). -/
import SkNet.Model.Vote
import SkNet.Model.Classify
import SkNet.Model.ClassMetrics
import SkNet.Spec.Classify

namespace SkNet.Drive.C13
open SkNet SkNet.Proto SkNet.Classify

/-! tokens: seeds `_` | `a:<ints>` | `d:<k1,v1,k2,v2,…>`; matrices of rationals `r1;r2;…` (`-` = no row,
    a row `-` = empty row); sparse rows `c,v,c,v;…`. -/

def seeds? (s : String) : Option Seeds :=
  if s == "_" then some .none
  else if s.startsWith "a:" then (intList? (toString (s.drop 2))).map .arr
  else if s.startsWith "d:" then do
    let l ← intList? (toString (s.drop 2))
    let rec go : List Int → Option (List (Nat × Int))
      | [] => some []
      | k :: v :: rest => do
          if k < 0 then none
          let r ← go rest
          pure ((k.toNat, v) :: r)
      | _ => none
    (go l).map .dict
  else none

def optNatList? (s : String) : Option (Option (List Nat)) :=
  if s == "_" then some none else (natList? s).map some

def showErr (e : PyErr) : String := "err " ++ e.show

def showMat (m : List (List Rat)) : String :=
  if m.isEmpty then "-" else ";".intercalate (m.map showRatList)

def boolList? (s : String) : Option (List Bool) := (natList? s).map fun l => l.map (· != 0)

def showBools (l : List Bool) : String := showList (l.map fun b => if b then 1 else 0)

/-- sparse rows `col,val,col,val;…` -/
def sparseRows? (s : String) : Option (List (List (Nat × Rat))) :=
  if s == "-" then some [] else (s.splitOn ";").mapM fun r =>
    if r == "-" then some [] else
      let rec go : List String → Option (List (Nat × Rat))
        | [] => some []
        | a :: b :: rest => do
            let c ← a.toNat?
            let v ← rat? b
            let t ← go rest
            pure ((c, v) :: t)
        | _ => none
      go (r.splitOn ",")

def showSparseRows (rows : List (List (Nat × Rat))) : String :=
  if rows.isEmpty then "-" else ";".intercalate (rows.map fun r =>
    if r.isEmpty then "-" else ",".intercalate (r.map fun e => s!"{e.1},{showRat e.2}"))

def fuelDefault : Nat := 100000

/-- the graph and values a classifier works on -/
def routed? (n m ip ix dt fb v r c : String) : Option (Except PyErr Routed) := do
  let csr ← csrRat? n m ip ix dt
  pure (adjacencyValues csr (← bool? fb) (← seeds? v) (← seeds? r) (← seeds? c))

def failIf (checks : List (String × Bool)) : String :=
  match checks.filter (fun x => !x.2) with
  | [] => "holds"
  | l => "fails " ++ ",".intercalate (l.map (·.1))

def metricName? (s : String) : Option ClassMetrics.Average :=
  match s with
  | "micro" => some .micro | "macro" => some .macro | "weighted" => some .weighted | "other" => some .other
  | _ => none

def showMErr : Except ClassMetrics.PyErr String → String
  | .ok s => "ok " ++ s
  | .error _ => "err ValueError"

def handle : Handler
  -- the kernel alone
  | "c13.vote", [n, ip, ix, dt, labels, index] => some <| Option.getD (do
      let c ← csrRat? n n ip ix dt
      let l ← intList? labels
      let idx ← natList? index
      -- the kernel with every access checked (equal to `Vote.voteUpdate` by `vote_update_in_bounds`)
      match Vote.Checked.voteUpdate? c l idx with
      | some r => some ("ok " ++ showList r)
      | none => some "oob") "bad-args"
  | "c13.vote_pinned", [n, ip, ix, dt, labels, index] => some <| Option.getD (do
      let c ← csrRat? n n ip ix dt
      let l ← intList? labels
      let idx ← natList? index
      match Vote.Pinned.voteUpdate? c l idx with
      | some r => some ("ok " ++ showList r)
      | none => some "oob") "bad-args"
  -- Propagation.fit
  | "c13.prop", [n, m, ip, ix, dt, v, r, c, w, nit, sg] => some <| Option.getD (do
      let rt ← routed? n m ip ix dt "0" v r c
      let a0 : Vote.PropArgs := { weighted := ← bool? w, nIter := ← optNat? nit, sigma := ← optNatList? sg }
      match rt with
      | .error e => some (showErr e)
      | .ok rt =>
        -- a negative n_iter (`_`) allows n + 1 sweeps, n the number of nodes of the routed adjacency
        let a := { a0 with nIter := some (Vote.sweepLimit a0.nIter rt.values.length) }
        match Vote.fit rt.adj rt.values a fuelDefault with
        | none => some "fuel"
        | some (l, t) =>
          let cw := Vote.withWeights rt.adj true
          some s!"ok {showList l} {t} {showMat (tab l.length fun i => Propagation.probsRow cw l i)}") "bad-args"
  | "c13.spec_prop", [n, m, ip, ix, dt, v, r, c, w, labels, stable] => some <| Option.getD (do
      let rt ← routed? n m ip ix dt "0" v r c
      let w ← bool? w
      let l ← intList? labels
      let stable ← bool? stable
      match rt with
      | .error e => some (showErr e)
      | .ok rt =>
        let cw := Vote.withWeights rt.adj w
        let (l0, upd) := Vote.instantiateVars rt.values
        some (failIf [
          ("length", l.length == rt.values.length),
          ("labels-in-seed-set", Spec.labelsOK l0 l),
          ("seeds-kept", Vote.singleClass rt.values || Spec.seedsKept rt.values l),
          ("fixed-point", !stable || Spec.fixedPointOK cw l upd)])) "bad-args"
  -- probability rows of any classifier
  -- rows of Propagation in the strong form: 1 when a labelled neighbour of positive weight exists, 0 otherwise
  | "c13.spec_prop_rows", [n, m, ip, ix, dt, v, r, c, eps, labels, rows] => some <| Option.getD (do
      let rt ← routed? n m ip ix dt "0" v r c
      let eps ← rat? eps
      let l ← intList? labels
      let rows ← ratListList? rows
      match rt with
      | .error e => some (showErr e)
      | .ok rt =>
        let bad := (List.range l.length).filter fun i =>
          !Spec.rowStrong eps (Spec.propReaches rt.adj l i) (rows.getD i [])
        some (if rows.length == l.length && bad.isEmpty then "holds" else "fails rows=" ++ showList bad)) "bad-args"
  -- DiffusionClassifier
  | "c13.diff", [n, m, ip, ix, dt, fb, v, r, c, nit, cen] => some <| Option.getD (do
      let rt ← routed? n m ip ix dt fb v r c
      let nit ← nit.toNat?
      let cen ← bool? cen
      match rt with
      | .error e => some (showErr e)
      | .ok rt =>
        match Diffusion.fit rt.adj rt.values nit cen with
        | .error e => some (showErr e)
        | .ok o => some s!"ok {showList o.labels} {showBools o.reached} {showMat o.temps}") "bad-args"
  | "c13.spec_diff", [n, m, ip, ix, dt, fb, v, r, c, nit, cen, eps, sym, labels, probs] => some <| Option.getD (do
      let rt ← routed? n m ip ix dt fb v r c
      let nit ← nit.toNat?
      let cen ← bool? cen
      let eps ← rat? eps
      let sym ← bool? sym
      let l ← intList? labels
      let pr ← ratListList? probs
      match rt with
      | .error e => some (showErr e)
      | .ok rt =>
        match Diffusion.fit rt.adj rt.values nit cen with
        | .error e => some (showErr e)
        | .ok o =>
          let uniq := uniqueLabels rt.values
          let nn := rt.values.length
          -- the label is an eps-arg-max of the exact temperatures
          let argOK := (List.range nn).all fun i =>
            let row := getRow o.temps i
            let li := l.getD i (-1)
            if li == -1 then true else
              let k := indexOf li uniq
              decide (k < uniq.length) && row.all fun x => decide (x ≤ row.getD k 0 + eps)
          let plainOK := cen || (List.range nn).all fun i =>
            let want := getRow (Diffusion.probsPlain o) i
            let got := getRow pr i
            -- columns of probs_ are the re-indexed labels
            got.length == want.length && (List.range want.length).all fun q =>
              decide (rabs (got.getD q 0 - want.getD q 0) ≤ eps)
          let zeroRows := (List.range nn).all fun i =>
            o.reached.getD i false || (getRow pr i).all (· == 0)
          some (failIf [
            ("length", l.length == nn && pr.length == nn),
            ("labels-in-seed-set", Spec.labelsOK rt.values l),
            ("seeds-kept", Spec.seedsKept rt.values l),
            ("minus-one-iff-unreached", Spec.minusOneIff l o.reached),
            ("arg-max", argOK),
            ("rows", pr.all (Spec.rowOK eps)),
            ("rows-sum-1-iff-reached", (List.range nn).all fun i =>
              let reach := o.reached.getD i false
              Spec.rowStrong eps (if cen then reach else reach && !(getRow o.temps i).all (· == 0)) (getRow pr i)),
            ("unreached-rows-null", zeroRows),
            ("probs-plain", plainOK),
            ("symmetric-input", !sym || (List.range nn).all fun i => (List.range nn).all fun j =>
                hasEdge rt.adj i j == hasEdge rt.adj j i)])) "bad-args"
  -- NNClassifier._fit_core on a given embedding
  | "c13.knn", [emb, values, k] => some <| Option.getD (do
      let e ← ratListList? emb
      let vals ← intList? values
      let k ← k.toNat?
      match Knn.fitCore e vals k (fun _ ds k => smallestK ds k) with
      | none => some "err ValueError"
      | some o => some s!"ok {showList o.labels} {showMat o.probs}") "bad-args"
  | "c13.spec_knn", [emb, values, k, eps, labels, probs, cnts] => some <| Option.getD (do
      let cnts ← natListList? cnts
      let e ← ratListList? emb
      let vals ← intList? values
      let k ← k.toNat?
      let eps ← rat? eps
      let l ← intList? labels
      let pr ← ratListList? probs
      let nn := vals.length
      let train := (List.range nn).filter fun i => 0 ≤ vals.getD i (-1)
      let kk := (checkNeighbors k train.length).toNat
      let trainLabels := train.map fun j => vals.getD j (-1)
      let rowsOK := (List.range nn).all fun i =>
        let row := getRow pr i
        let vi := vals.getD i (-1)
        if 0 ≤ vi then (List.range row.length).all fun q => row.getD q 0 == (if (q : Int) == vi then 1 else 0)
        else Spec.knnRowOK (Knn.distances e train (getRow e i)) trainLabels kk eps row (cnts.getD i [])
      let argOK := (List.range nn).all fun i =>
        let row := getRow pr i
        let li := l.getD i (-1)
        decide (0 ≤ li) && row.all fun x => decide (x ≤ row.getD li.toNat 0 + eps)
      some (failIf [
        ("length", l.length == nn && pr.length == nn),
        ("labels-in-seed-set", Spec.labelsOK vals l),
        ("seeds-kept", Spec.seedsKept vals l),
        ("rows", pr.all (Spec.rowOK eps)),
        ("rows-sum-1", kk == 0 || pr.all (Spec.rowStrong eps true)),
        ("nearest-neighbours", rowsOK),
        ("arg-max", argOK)])) "bad-args"
  -- RankClassifier.fit after the scores
  | "c13.rank", [values, scores] => some <| Option.getD (do
      let vals ← intList? values
      let sc ← ratListList? scores
      match Rank.fitCore vals sc with
      | .error e => some (showErr e)
      | .ok o => some s!"ok {showList o.labels} {showMat o.probs}") "bad-args"
  | "c13.spec_rank", [values, eps, labels, probs, scores] => some <| Option.getD (do
      let sc ← ratListList? scores
      let vals ← intList? values
      let eps ← rat? eps
      let l ← intList? labels
      let pr ← ratListList? probs
      let argOK := (List.range l.length).all fun i =>
        let row := getRow pr i
        let li := l.getD i (-1)
        decide (0 ≤ li) && row.all fun x => decide (x ≤ row.getD li.toNat 0 + eps)
      some (failIf [
        ("length", l.length == vals.length && pr.length == vals.length),
        ("labels-in-seed-set", Spec.labelsOK vals l && l.all (· != -1)),
        ("rows", pr.all (Spec.rowOK eps)),
        ("rows-sum-1-unless-null-scores", (List.range vals.length).all fun i =>
          Spec.rowStrong eps (!(getRow sc i).all (· == 0)) (getRow pr i)),
        ("arg-max", argOK)])) "bad-args"
  -- NNLinker._fit_core on a given embedding
  | "c13.link", [emb, mask, k, thr] => some <| Option.getD (do
      let e ← ratListList? emb
      let mk ← boolList? mask
      let k ← k.toNat?
      let thr ← rat? thr
      some ("ok " ++ showSparseRows (Linker.fitCore e mk k thr (fun _ ks k => smallestK ks k)))) "bad-args"
  | "c13.spec_link", [emb, mask, k, thr, eps, rows] => some <| Option.getD (do
      let e ← ratListList? emb
      let mk ← boolList? mask
      let k ← k.toNat?
      let thr ← rat? thr
      let eps ← rat? eps
      let rows ← sparseRows? rows
      let nn := e.length
      let nRow := mk.length
      -- `-` is both "no row" and "one empty row"
      let rows := if rows.isEmpty then List.replicate nRow [] else rows
      let cols := if nRow < nn then (List.range (nn - nRow)).map (· + nRow) else List.range nn
      let kk := (checkNeighbors k cols.length).toNat
      let bad := (List.range nRow).filter fun i =>
        let kept := rows.getD i []
        if mk.getD i false then
          !Spec.linkerRowOK (cols.map fun j => dot (getRow e j) (getRow e i)) kk thr eps kept
        else !kept.isEmpty
      some (if rows.length == nRow && bad.isEmpty then "holds" else "fails rows=" ++ showList bad)) "bad-args"
  -- metrics
  | "c13.metric", [name, t, p] => some <| Option.getD (do
      let t ← intList? t
      let p ← intList? p
      match name with
      | "accuracy" => some (showMErr ((ClassMetrics.accuracy t p).map showRat))
      | "confusion" => some (showMErr ((ClassMetrics.confusion t p).map showListList))
      | "f1s" => some (showMErr ((ClassMetrics.f1Scores t p).map fun s =>
          s!"{showRatList s.f1} {showRatList s.precision} {showRatList s.recall}"))
      | "f1" => some (showMErr ((ClassMetrics.f1Binary t p).map fun (a, b, c) =>
          s!"{showRat a} {showRat b} {showRat c}"))
      | nm => do
          let a ← metricName? nm
          some (showMErr ((ClassMetrics.averageF1 t p a).map showRat))) "bad-args"
  | "c13.spec_metric", [name, t, p, eps, value] => some <| Option.getD (do
      let t ← intList? t
      let p ← intList? p
      let eps ← rat? eps
      let k := ClassMetrics.nLabels t p
      let C := Spec.conf t p
      let close (a b : Rat) : Bool := decide (rabs (a - b) ≤ eps)
      match name with
      | "accuracy" | "micro" => do
          let x ← rat? value
          some (failIf [("accuracy", close x (Spec.accuracyDef C k))])
      | "macro" => do
          let x ← rat? value
          some (failIf [("macro", close x (Spec.macroDef C k))])
      | "weighted" => do
          let x ← rat? value
          some (failIf [("weighted", close x (Spec.weightedDef C k))])
      | "confusion" => do
          let m ← natListList? value
          some (failIf [("confusion", m == tab k fun i => tab k fun j => C i j)])
      | "f1s" => do
          let m ← ratListList? value
          let f := m.getD 0 []
          let pr := m.getD 1 []
          let rc := m.getD 2 []
          some (failIf [
            ("length", f.length == k && pr.length == k && rc.length == k),
            ("f1", (List.range k).all fun l => close (f.getD l 0) (Spec.f1Def C k l)),
            ("precision", (List.range k).all fun l => close (pr.getD l 0) (Spec.precisionDef C k l)),
            ("recall", (List.range k).all fun l => close (rc.getD l 0) (Spec.recallDef C k l))])
      | "f1" => do
          let m ← ratList? value
          some (failIf [
            ("f1", close (m.getD 0 0) (Spec.f1Def C k 1)),
            ("precision", close (m.getD 1 0) (Spec.precisionDef C k 1)),
            ("recall", close (m.getD 2 0) (Spec.recallDef C k 1))])
      | _ => none) "bad-args"
  | _, _ => none

end SkNet.Drive.C13
