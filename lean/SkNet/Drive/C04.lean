/- Line-protocol handlers for the centrality models and specifications (C04). -/
import SkNet.Model.Rank
import SkNet.Spec.Rank

namespace SkNet.Drive.C04
open SkNet SkNet.Proto SkNet.Rank

/-! ### decoding -/

def graphRat? (n ip ix dt : String) : Option (Graph Rat) := do
  let c ← csrRat? n n ip ix dt
  if c.WF then some (Graph.ofCsr c) else none

/-- dense matrix of entries (duplicates summed) -/
def denseOf (g : Graph Rat) : Array (Array Rat) := Id.run do
  let mut m : Array (Array Rat) := Array.replicate g.n (Array.replicate g.n 0)
  for i in [0:g.n] do
    for p in g.row i do
      m := m.modify i (fun r => r.modify p.1 (· + p.2))
  return m

def wOf (m : Array (Array Rat)) (i j : Nat) : Rat := (m.getD i #[]).getD j 0

def edgeOfDense (m : Array (Array Rat)) (i j : Nat) : Bool := wOf m i j != 0

/-- restart weights: kind `N` (None) | `A` (array: vals) | `D` (dict: keys, vals) -/
def weights? (kind keys vals : String) : Option (Weights Rat) :=
  match kind with
  | "N" => some .none
  | "A" => (ratList? vals).map .arr
  | "D" => do
      let k ← natList? keys
      let v ← ratList? vals
      if k.length = v.length then some (.dict (k.zip v)) else none
  | _ => none

/-- the user-level meaning of the restart weights, for the specification: weight of node `i` -/
def weightFn : Weights Rat → Nat → Rat
  | .none, _ => 1
  | .arr v, i => v.getD i 0
  | .dict kv, i => match kv.reverse.find? (fun p => p.1 == i) with
                   | some p => p.2
                   | none => 0

def f32? (s : String) : Option Float32 := s.toNat?.map fun b => Float32.ofBits (UInt32.ofNat b)

def f32List? (s : String) : Option (List Float32) :=
  if s == "-" then some [] else (s.splitOn ",").mapM f32?

def showF32List (l : List Float32) : String :=
  if l.isEmpty then "-" else ",".intercalate (l.map fun x => toString x.toBits.toNat)

def graphF32? (n ip ix dt : String) : Option (Graph Float32) := do
  let n ← n.toNat?
  let ip ← natList? ip
  let ix ← natList? ix
  let dt ← f32List? dt
  let c : Csr Float32 := { nRow := n, nCol := n, indptr := ip.toArray, indices := ix.toArray, data := dt.toArray }
  if c.WF then some (Graph.ofCsr c) else none

/-- an approximation of a rational for messages: value · 10¹² rounded down -/
def approx (r : Rat) : String := toString (r * 1000000000000).floor ++ "e-12"

def l1 (n : Nat) (x y : Nat → Rat) : Rat := RankSpec.sumTo n fun i => Rat.abs (x i - y i)

def showErr (e : PyErr) : String := "err " ++ e.show

def minR (a b : Rat) : Rat := if a ≤ b then a else b

/-- margin of the stopping tests of the power iteration: `min_k | ‖x_k - x_{k+1}‖₁ - tol |` -/
def piterMargin (n : Nat) (step : List Rat → List Rat) (tol : Rat) : Nat → List Rat → Rat → Rat
  | 0, _, m => m
  | k+1, s, m =>
    let s' := normalizeV n (step s)
    let d := l1dist n s s'
    let m := minR m (Rat.abs (d - tol))
    if d < tol then m else piterMargin n step tol k s' m

/-- margin of the stopping tests of the D-iteration: `min_k | residu_k - tol·restart |` -/
def diterMargin (g : Graph Rat) (a restart tol : Rat) : Nat → DState Rat → Rat → Rat
  | 0, _, m => m
  | k+1, st, m =>
    let st' := diterSweep g a restart st
    let m := minR m (Rat.abs (st'.residu - tol * restart))
    if st'.residu < tol * restart then m else diterMargin g a restart tol k st' m

/-- margin of the work-list tests of the push kernel: the least `|r - tol|` over all the residuals compared with `tol` -/
def pushMargin (g : Graph Rat) (deg : List Rat) (a tol : Rat) : Nat → PState Rat → Rat → Rat
  | 0, _, m => m
  | fuel+1, st, m =>
    match st.work with
    | [] => m
    | v :: rest =>
      let st1 : PState Rat := { st with scores := st.scores.modify v (fun s => s + st.resid.getD v 0), work := rest }
      let (st2, m2) := (g.row v).foldl (fun (acc : PState Rat × Rat) p =>
        let tmp := acc.1.resid.getD p.1 0
        let r' := tmp + acc.1.resid.getD v 0 * (1 - a) / deg.getD v 0
        (pushNeighbours deg a tol v [p] acc.1, minR acc.2 (minR (Rat.abs (r' - tol)) (Rat.abs (tmp - tol))))) (st1, m)
      pushMargin g deg a tol fuel st2 m2

/-! ### the specification of PageRank evaluated on an output `x` -/

def specPagerank (g : Graph Rat) (a : Rat) (w : Weights Rat) (x : List Rat) (eps : Rat) : String :=
  let n := g.n
  let m := denseOf g
  let wt := weightFn w
  let tot := RankSpec.sumTo n wt
  if (List.range n).any (fun i => wt i < 0) || tot ≤ 0 then "not-applicable restart-weights" else
  if (List.range n).any (fun i => (List.range n).any fun j => wOf m i j < 0) then "not-applicable negative-weight" else
  if a < 0 || 1 ≤ a then "not-applicable damping" else
  let y := RankSpec.restartDist n wt
  match RankSpec.pagerank n (wOf m) a y with
  | none => "spec-internal no-solution"
  | some pr =>
    let prf := fun i => pr.getD i 0
    -- the solver's answer is used only after the defining equation has been checked exactly
    if !(RankSpec.isPageRankB n (wOf m) a y prf) then "spec-internal solution-rejected" else
    if x.length != n then s!"fails length={x.length}" else
    let d := l1 n (fun i => x.getD i 0) prf
    if d ≤ eps then "holds" else s!"fails l1={approx d} eps={approx eps} want={",".intercalate (pr.map approx)}"


/-! ### Katz, closeness, betweenness, HITS -/

/-- relative closeness of an implementation output to the exact value: `|x - want| ≤ eps (1 + |want|)` everywhere -/
def closeTo (n : Nat) (x : List Rat) (want : Nat → Rat) (eps : Rat) : String :=
  if x.length != n then s!"fails length={x.length}" else
  match (List.range n).find? (fun i => Rat.abs (x.getD i 0 - want i) > eps * (1 + Rat.abs (want i))) with
  | none => "holds"
  | some i => s!"fails at={i} got={approx (x.getD i 0)} want={",".intercalate ((List.range n).map fun j => approx (want j))}"

def nbrOf (g : Graph Rat) (i : Nat) : List Nat := (g.row i).map (·.1)

def showOptList : Except PyErr (Option (List Rat)) → String
  | .error e => showErr e
  | .ok none => "fuel"
  | .ok (some l) => "ok " ++ showRatList l

/-- rectangular matrix for HITS -/
def denseRect (c : Csr Rat) : Array (Array Rat) := Id.run do
  let mut m : Array (Array Rat) := Array.replicate c.nRow (Array.replicate c.nCol 0)
  for i in [0:c.nRow] do
    for p in c.row i do
      m := m.modify i (fun r => r.modify p.1 (· + p.2))
  return m

/-- all pivots of the elimination without pivoting are positive: the symmetric matrix is positive definite -/
def isPosDef (n : Nat) (A : Array (Array Rat)) : Bool := Id.run do
  let mut M := A
  for c in [0:n] do
    let piv := (M.getD c #[]).getD c 0
    if piv ≤ 0 then return false
    let rowc := M.getD c #[]
    for r in [c+1:n] do
      let f := (M.getD r #[]).getD c 0 / piv
      if f != 0 then
        M := M.setIfInBounds r ((Array.range n).map fun k => (M.getD r #[]).getD k 0 - f * rowc.getD k 0)
  return true

def handle : Handler
  /- spec: `x` (implementation output, exact rationals) is within `eps` (ℓ1) of the PageRank vector -/
  | "c04.spec_pr", [n, ip, ix, dt, a, wk, wkeys, wvals, x, eps] => some <| Option.getD (do
      let g ← graphRat? n ip ix dt
      let a ← rat? a
      let w ← weights? wk wkeys wvals
      let x ← ratList? x
      let eps ← rat? eps
      some (specPagerank g a w x eps)) "bad-args"
  /- the exact PageRank vector (used by the failing-input search to print what was expected) -/
  | "c04.pagerank", [n, ip, ix, dt, a, wk, wkeys, wvals] => some <| Option.getD (do
      let g ← graphRat? n ip ix dt
      let a ← rat? a
      let w ← weights? wk wkeys wvals
      let m := denseOf g
      let y := RankSpec.restartDist g.n (weightFn w)
      match RankSpec.pagerank g.n (wOf m) a y with
      | none => some "none"
      | some pr => some ("ok " ++ showRatList pr)) "bad-args"
  /- model: restart distribution handed to get_pagerank -/
  | "c04.values", [n, wk, wkeys, wvals] => some <| Option.getD (do
      let n ← n.toNat?
      let w ← weights? wk wkeys wvals
      match restartOf n w with
      | .error e => some (showErr e)
      | .ok v => some ("ok " ++ showRatList v)) "bad-args"
  /- model: solver='piteration' in exact arithmetic; answer carries the margin of the stopping tests -/
  | "c04.piter", [n, ip, ix, dt, a, wk, wkeys, wvals, k, tol] => some <| Option.getD (do
      let g ← graphRat? n ip ix dt
      let a ← rat? a
      let w ← weights? wk wkeys wvals
      let k ← k.toNat?
      let tol ← rat? tol
      match restartOf g.n w with
      | .error e => some (showErr e)
      | .ok y =>
        if vsum (piterScores g a y k tol) == 0 then some "nan" else
        let r := piteration g a y k tol
        let mg := piterMargin g.n (surferStep g a y) tol k (surferB g a y) 1
        some s!"ok {showRatList r} {showRat mg}") "bad-args"
  /- model: solver='bicgstab' — the acceptance test of get_pagerank on what BiCGSTAB returned (`iter`, `info`), the direct
     solution otherwise; answer carries the margin of the test and the decision -/
  | "c04.bicgstab", [n, ip, ix, dt, a, wk, wkeys, wvals, info, rule, iter, direct] => some <| Option.getD (do
      let g ← graphRat? n ip ix dt
      let a ← rat? a
      let w ← weights? wk wkeys wvals
      let info ← info.toInt?
      let rule ← rat? rule
      let iter ← ratList? iter
      let direct ← ratList? direct
      match restartOf g.n w with
      | .error e => some (showErr e)
      | .ok y =>
        let acc := bicgstabAccept g a y info rule iter
        let sc := bicgstabScores g a y info rule iter direct
        let mg := Rat.abs (rule * rule - bicgstabRes2sq g a y iter)
        if vsum sc == 0 then some "nan" else
        some s!"ok {showRatList (bicgstabBranch g.n sc)} {showRat mg} {if acc then 1 else 0}") "bad-args"
  /- model: solver='RH' in exact arithmetic -/
  | "c04.rh", [n, ip, ix, dt, a, wk, wkeys, wvals, k] => some <| Option.getD (do
      let g ← graphRat? n ip ix dt
      let a ← rat? a
      let w ← weights? wk wkeys wvals
      let k ← k.toNat?
      match restartOf g.n w with
      | .error e => some (showErr e)
      | .ok y =>
        if vsum (rhScores g a y k) == 0 then some "nan" else some ("ok " ++ showRatList (rh g a y k))) "bad-args"
  /- model: solver='diteration' in exact arithmetic (sequential sweep), with the margin of the stopping tests -/
  | "c04.diter", [n, ip, ix, dt, a, wk, wkeys, wvals, k, tol] => some <| Option.getD (do
      let g ← graphRat? n ip ix dt
      let a ← rat? a
      let w ← weights? wk wkeys wvals
      let k ← k.toNat?
      let tol ← rat? tol
      match restartOf g.n w with
      | .error e => some (showErr e)
      | .ok y =>
        if vsum (diterScores g a y k tol) == 0 then some "nan" else
        let r := diteration g a y k tol
        let st0 : DState Rat := { scores := tab g.n fun _ => 0, fluid := smul g.n (1 - a) y, residu := 1 - a }
        let mg := diterMargin (normalized g) a (1 - a) tol k st0 1
        some s!"ok {showRatList r} {showRat mg}") "bad-args"
  /- model: the compiled kernel `diffusion` in Float32 on the very arrays it was given (bit patterns) -/
  | "c04.diffusion32", [n, ip, ix, dt, sc, fl, a, k, tol] => some <| Option.getD (do
      let g ← graphF32? n ip ix dt
      let sc ← f32List? sc
      let fl ← f32List? fl
      let a ← f32? a
      let k ← k.toNat?
      let tol ← f32? tol
      let st := diffusion g sc fl a k tol
      some s!"ok {showF32List st.scores} {showF32List st.fluid}") "bad-args"
  /- model: push kernel as written, exact arithmetic; `deg` = the int32-cast weighted degrees -/
  | "c04.push", [n, ip, ix, dt, deg, a, seeds, tol, ord] => some <| Option.getD (do
      let g ← graphRat? n ip ix dt
      let deg ← ratList? deg
      let a ← rat? a
      let seeds ← ratList? seeds
      let tol ← rat? tol
      let m := denseOf g
      let rev : Graph Rat := { n := g.n, row := fun v => ((List.range g.n).filter fun u =>
                  (g.row u).any fun p => p.1 == v).flatMap fun u => ((g.row u).filter fun p => p.1 == v).map fun p => (u, p.2) }
      let _ := m
      let fuel := 100 * (g.n + 1) * (g.n + 1)
      let resid := pushInit g.n rev deg seeds a
      let st0 : PState Rat := { scores := tab g.n fun _ => 1 - a, resid := resid, work := argsortDesc resid }
      let mg := pushMargin g deg a tol fuel st0 1
      -- least gap between the initial residuals of two nodes (order of the work-list): 0 when two nodes have the same exact
      -- residual — the kernel sorts its own float32 sums, whose order among such nodes is a decision taken on round-off
      let idx := List.range g.n
      let gaps := idx.flatMap fun i => idx.filterMap fun j =>
        if i < j then some (Rat.abs (resid.getD i 0 - resid.getD j 0)) else none
      let mg := gaps.foldl minR mg
      -- the order returned by np.argsort(-residuals): a parameter with the contract "sorting permutation"
      let order ← if ord == "_" then some (argsortDesc resid) else natList? ord
      let isPerm := order.length == g.n && (List.range g.n).all (fun v => order.contains v)
      let sorted := (order.zip (order.drop 1)).all fun (p, q) => decide (resid.getD q 0 ≤ resid.getD p 0)
      if !(isPerm && sorted) then some "contract-unmet argsort" else
      if pushRaises g deg then some "err ZeroDivisionError" else
      match pushPagerankOrd g rev deg seeds a tol fuel order with
      | none => some "fuel"
      | some r => some s!"ok {showRatList r} {showRat mg}") "bad-args"
  /- Katz: model (Horner on the boolean transposed adjacency), exact arithmetic -/
  | "c04.katz", [n, ip, ix, dt, a, k] => some <| Option.getD (do
      let g ← graphRat? n ip ix dt
      let a ← rat? a
      let k ← k.toNat?
      let m := denseOf g
      some ("ok " ++ showRatList (katz g.n (edgeOfDense m) a k))) "bad-args"
  /- Katz: the walk-count definition evaluated on an output -/
  | "c04.spec_katz", [n, ip, ix, dt, a, k, x, eps] => some <| Option.getD (do
      let g ← graphRat? n ip ix dt
      let a ← rat? a
      let k ← k.toNat?
      let x ← ratList? x
      let eps ← rat? eps
      let m := denseOf g
      some (closeTo g.n x (RankSpec.katzSpec g.n (edgeOfDense m) a k) eps)) "bad-args"
  | "c04.closeness", [n, ip, ix, dt] => some <| Option.getD (do
      let g ← graphRat? n ip ix dt
      let m := denseOf g
      let nnz := ((List.range g.n).map fun i => (g.row i).length).sum
      -- one node: `(n-1)/n / mean([0])` is 0/0, numpy answers NaN (the theorems carry the guard `2 ≤ n`)
      match closenessFit (α := Rat) g.n nnz (edgeOfDense m) with
      | .ok (some _) => if g.n == 1 then some "nan" else some (showOptList (closenessFit (α := Rat) g.n nnz (edgeOfDense m)))
      | r => some (showOptList r)) "bad-args"
  | "c04.spec_closeness", [n, ip, ix, dt, x, eps] => some <| Option.getD (do
      let g ← graphRat? n ip ix dt
      let x ← ratList? x
      let eps ← rat? eps
      let m := denseOf g
      some (closeTo g.n x (RankSpec.closenessSpec g.n (edgeOfDense m)) eps)) "bad-args"
  | "c04.betweenness", [n, ip, ix, dt] => some <| Option.getD (do
      let g ← graphRat? n ip ix dt
      let m := denseOf g
      let nnz := ((List.range g.n).map fun i => (g.row i).length).sum
      some (showOptList (betweennessFit (α := Rat) g.n nnz (edgeOfDense m)))) "bad-args"
  /- betweenness: `directed` = 1 selects the ordered-pair sum (no halving) -/
  | "c04.spec_betweenness", [n, ip, ix, dt, directed, x, eps] => some <| Option.getD (do
      let g ← graphRat? n ip ix dt
      let dir ← bool? directed
      let x ← ratList? x
      let eps ← rat? eps
      let m := denseOf g
      let e := edgeOfDense m
      -- the definition is chosen by the graph itself: unordered pairs when the pattern is symmetric, ordered pairs otherwise
      let sym := patternSymmetric g.n e
      let want := if sym then RankSpec.betweennessUndirected g.n e else RankSpec.dependencySum g.n e
      if sym == dir then some s!"fails harness-flag directed={dir} pattern-symmetric={sym}" else
      some (closeTo g.n x want eps)) "bad-args"
  /- HITS: the sign choice and clipping, exactly -/
  | "c04.hits_post", [v] => some <| Option.getD (do
      let v ← ratList? v
      some ("ok " ++ showRatList (hitsPost v))) "bad-args"
  /- HITS: (h, a) is a non-negative unit singular pair of A for sigma, and sigma is the largest singular value
     (sigma(1+eps))^2 I - AᵀA positive definite) -/
  | "c04.spec_hits", [nr, nc, ip, ix, dt, h, a, sigma, eps] => some <| Option.getD (do
      let c ← csrRat? nr nc ip ix dt
      let h ← ratList? h
      let a ← ratList? a
      let sigma ← rat? sigma
      let eps ← rat? eps
      if !c.WF then none else
      let A := denseRect c
      let r := c.nRow
      let k := c.nCol
      let at_ := fun i j => (A.getD i #[]).getD j 0
      if h.length != r || a.length != k then some "fails length" else
      let nonneg := h.all (fun x => decide (0 ≤ x)) && a.all (fun x => decide (0 ≤ x))
      let n2h := (h.map fun x => x * x).sum
      let n2a := (a.map fun x => x * x).sum
      let units := Rat.abs (n2h - 1) ≤ eps && Rat.abs (n2a - 1) ≤ eps
      let resA := (List.range r).all fun i =>
        Rat.abs (((List.range k).map fun j => at_ i j * a.getD j 0).sum - sigma * h.getD i 0) ≤ eps * (1 + sigma)
      let resT := (List.range k).all fun j =>
        Rat.abs (((List.range r).map fun i => at_ i j * h.getD i 0).sum - sigma * a.getD j 0) ≤ eps * (1 + sigma)
      let s2 := (sigma * (1 + eps) + eps) * (sigma * (1 + eps) + eps)
      let G : Array (Array Rat) := (Array.range k).map fun j => (Array.range k).map fun l =>
        (if j = l then s2 else 0) - ((List.range r).map fun i => at_ i j * at_ i l).sum
      let top := isPosDef k G
      some (if nonneg && units && resA && resT && top then "holds"
            else s!"fails nonneg={nonneg} unit={units} Aa=sh:{resA} Ath=sa:{resT} top={top}")) "bad-args"
  | _, _ => none

end SkNet.Drive.C04
