/- Line-protocol handlers of property C12 (structure.py, cycles.py).

A matrix is sent as `<nRow> <nCol> <indptr> <indices> <data>` (5 tokens, written `g` below).
`run` commands answer what the model computes; `spec_*` commands evaluate the specification
(Spec/Connectivity.lean) on the implementation's own output and answer `holds` or `fails …`;
`contract_cc` evaluates the contract of scipy's `connected_components` on what scipy returned.
-/
import SkNet.Model.Connectivity
import SkNet.Model.Cycles
import SkNet.Spec.Connectivity

namespace SkNet.Drive.C12
open SkNet SkNet.Proto SkNet.Connectivity SkNet.Cycles

/-- the matrix as the code reads it -/
def matOf (c : Csr Rat) : Mat :=
  let rows : Array (List (Nat × Rat)) := (Array.range c.nRow).map fun i => c.row i
  { nRow := c.nRow, nCol := c.nCol,
    adj := fun i => (rows.getD i []).map (·.1),
    val := fun i j => ((rows.getD i []).filter (·.1 == j)).foldl (fun s p => s + p.2) 0 }

def mat? (n m ip ix dt : String) : Option Mat := (csrRat? n m ip ix dt).map matOf

def showErr (e : PyErr) : String := "err " ++ e.show

def optBool? (s : String) : Option (Option Bool) :=
  if s == "_" then some none else (bool? s).map some

def optList? (s : String) : Option (Option (List Nat)) :=
  if s == "_" then some none else (natList? s).map some

def showMatrix (rows : List (List Rat)) : String :=
  if rows.isEmpty then "-" else ";".intercalate (rows.map showRatList)

def pick (a b : α) (directed : Bool) : α := if directed then a else b

/-- the positive entries as a graph: `v ∈ adj u` iff `A[u, v] > 0` (rows materialised once) -/
def posRows (m : Mat) : Array (List Nat) :=
  (Array.range m.nRow).map fun i => (List.range m.nCol).filter fun j => decide (0 < m.val i j)

def adjOf (rows : Array (List Nat)) : Nat → List Nat := fun i => rows.getD i []

/-- the graph reachability is computed on: the graph itself (strong) or its symmetrisation (weak), materialised -/
def connGraph (n : Nat) (adj : Nat → List Nat) (strong : Bool) : Array (List Nat) :=
  if strong then (Array.range n).map adj else (Array.range n).map (weakAdj n adj)

/-- the graph the connectivity functions are about: the matrix itself, or the block form of a biadjacency -/
def specGraph (m : Mat) (forceBipartite : Bool) : Mat × Bool :=
  if forceBipartite || m.nRow != m.nCol then (m.block, true) else (m, false)

def symmetricB (m : Mat) : Bool :=
  m.nRow == m.nCol && (List.range m.nRow).all fun i => (List.range m.nRow).all fun j => m.val i j == m.val j i

/-- components of the graph as lists of nodes (by least node), from a reachability matrix -/
def componentsOf (n : Nat) (rm : List (List Bool)) : List (List Nat) :=
  ((List.range n).filter fun u => (List.range u).all fun v => !(reachB rm u v && reachB rm v u)).map fun u =>
    (List.range n).filter fun v => reachB rm u v && reachB rm v u

def answer (b : Bool) (why : String) : String := if b then "holds" else "fails " ++ why

def sortRows (a : List (List Nat)) : List (List Nat) := a.map sortNat

def handle : Handler
  -- ---------------------------------------------------------------- run lines
  | "c12.cc", [n, m, ip, ix, dt, strong, fb, labels] => some <| Option.getD (do
      let mt ← mat? n m ip ix dt
      let labels ← natList? labels
      match getConnectedComponents (fun _ _ => labels) mt (← bool? strong) (← bool? fb) with
      | .error e => some (showErr e)
      | .ok l => some ("ok " ++ showList l)) "bad-args"
  | "c12.connected", [n, m, ip, ix, dt, strong, fb, labels] => some <| Option.getD (do
      let mt ← mat? n m ip ix dt
      let labels ← natList? labels
      match isConnected (fun _ _ => labels) mt (← bool? strong) (← bool? fb) with
      | .error e => some (showErr e)
      | .ok b => some ("ok " ++ showBool b)) "bad-args"
  | "c12.largest", [n, m, ip, ix, dt, strong, fb, labels] => some <| Option.getD (do
      let mt ← mat? n m ip ix dt
      let labels ← natList? labels
      match getLargestConnectedComponent (fun _ _ => labels) mt (← bool? strong) (← bool? fb) with
      | .error e => some (showErr e)
      | .ok r => some s!"ok {showList r.index} {showMatrix r.matrix}") "bad-args"
  | "c12.bip", [n, m, ip, ix, dt] => some <| Option.getD (do
      let mt ← mat? n m ip ix dt
      match isBipartite mt with
      | .fuel => some "fuel"
      | .raised e => some (showErr e)
      | .no => some "ok 0"
      | .yes b rows cols => some s!"ok 1 {showList rows} {showList cols} {showMatrix b}") "bad-args"
  | "c12.acyclic", [n, m, ip, ix, dt, directed, nccD, nccU] => some <| Option.getD (do
      let mt ← mat? n m ip ix dt
      let nccD ← nccD.toNat?
      let nccU ← nccU.toNat?
      match isAcyclic (pick nccD nccU) mt (← optBool? directed) with
      | .error e => some (showErr e)
      | .ok b => some ("ok " ++ showBool b)) "bad-args"
  | "c12.cycles", [n, m, ip, ix, dt, directed, nccD, nccU, labD, labU] => some <| Option.getD (do
      let mt ← mat? n m ip ix dt
      let nccD ← nccD.toNat?
      let nccU ← nccU.toNat?
      let labD ← natList? labD
      let labU ← natList? labU
      match getCycles (pick nccD nccU) (pick labD labU) mt (← optBool? directed) with
      | .error e => some (showErr e)
      | .ok none => some "fuel"
      | .ok (some cs) => some ("ok " ++ showListList cs)) "bad-args"
  | "c12.break", [n, m, ip, ix, dt, root, directed, nccD, nccU, labD, labU] => some <| Option.getD (do
      let mt ← mat? n m ip ix dt
      let nccD ← nccD.toNat?
      let nccU ← nccU.toNat?
      let labD ← natList? labD
      let labU ← natList? labU
      let ext : BreakExt := { nCC := pick nccD nccU, labelsNoLoop := pick labD labU, setOrder := fun l => sortNat l.eraseDups }
      match breakCycles ext mt (← optList? root) (← optBool? directed) with
      | .error e => some (showErr e)
      | .ok .fuel => some "fuel"
      | .ok .same => some "ok same"
      | .ok (.rows a) =>
        -- the returned matrix: kept entries with their values, rows sorted by column
        let out := breakResult mt a
        let showRow (i : Nat) : String :=
          let r := sortNat (a.row i)
          if r.isEmpty then "-" else ",".intercalate (r.map fun j => s!"{j}:{showRat (out.val i j)}")
        let rows := (List.range mt.nRow).map showRow
        some ("ok rows " ++ (if rows.isEmpty then "-" else ";".intercalate rows))) "bad-args"
  -- a convention outside the input domain, pinned: answers the tokens it is given
  | "c12.pinned", toks => some (" ".intercalate toks)
  -- ---------------------------------------------------------------- contract of scipy
  | "c12.contract_cc", [n, m, ip, ix, dt, strong, labels, ncc] => some <| Option.getD (do
      -- labels / n_components returned by scipy for this square matrix (stored entries are the edges)
      let mt ← mat? n m ip ix dt
      let labels ← natList? labels
      let ncc ← ncc.toNat?
      let cg := connGraph mt.nRow mt.adj (← bool? strong)
      match isLabellingOn mt.nRow (adjOf cg) labels with
      | none => some "fuel"
      | some ok => some (answer (ok && (npUnique labels).length == ncc) "not-the-components")) "bad-args"
  -- ---------------------------------------------------------------- spec lines
  | "c12.spec_cc", [n, m, ip, ix, dt, strong, fb, labels] => some <| Option.getD (do
      let mt ← mat? n m ip ix dt
      let labels ← natList? labels
      let (g, _) := specGraph mt (← bool? fb)
      let rows := posRows g
      let cg := connGraph g.nRow (adjOf rows) (← bool? strong)
      match isLabellingOn g.nRow (adjOf cg) labels with
      | none => some "fuel"
      | some ok => some (answer ok "labels-are-not-the-components")) "bad-args"
  | "c12.spec_connected", [n, m, ip, ix, dt, strong, fb, ans] => some <| Option.getD (do
      let mt ← mat? n m ip ix dt
      let ans ← bool? ans
      let strong ← bool? strong
      let (g, _) := specGraph mt (← bool? fb)
      let rows := posRows g
      let cg := connGraph g.nRow (adjOf rows) strong
      match reachMatrix g.nRow (adjOf cg) with
      | none => some "fuel"
      | some rm =>
        let conn := g.nRow > 0 && (List.range g.nRow).all fun u => (List.range g.nRow).all fun v =>
          reachB rm u v && reachB rm v u
        some (answer (conn == ans) s!"connected={conn}")) "bad-args"
  | "c12.spec_largest", [n, m, ip, ix, dt, strong, fb, index, matrix] => some <| Option.getD (do
      let mt ← mat? n m ip ix dt
      let index ← natList? index
      let matrix ← ratListList? matrix
      let strong ← bool? strong
      let (g, bip) := specGraph mt (← bool? fb)
      let rows := posRows g
      let cg := connGraph g.nRow (adjOf rows) strong
      match reachMatrix g.nRow (adjOf cg) with
      | none => some "fuel"
      | some rm =>
        let comps := componentsOf g.nRow rm
        let first := index.headD 0      -- a row of the component when bipartite (a largest component has an edge)
        let comp := (comps.filter fun c => c.contains first).headD []
        let maxSize := maxOf (comps.map List.length)
        let rowsC := if bip then comp.filter (· < mt.nRow) else comp
        let colsC := if bip then (comp.filter (· ≥ mt.nRow)).map (· - mt.nRow) else comp
        let wantIndex := if bip then rowsC ++ colsC else comp
        let induced := rowsC.map fun i => colsC.map fun j => mt.val i j
        let okIndex := index == wantIndex && index.length > 0
        let okSize := comp.length == maxSize
        let okMat := (if matrix.isEmpty then rowsC.isEmpty || colsC.isEmpty else matrix == induced)
        some (answer (okIndex && okSize && okMat)
          s!"index-ok={okIndex} largest={okSize} induced={okMat} want-index={showList wantIndex}")) "bad-args"
  | "c12.spec_bip", [n, m, ip, ix, dt, ans, rows, cols, biadj] => some <| Option.getD (do
      let mt ← mat? n m ip ix dt
      let ans ← bool? ans
      let prow := posRows mt
      let adj := adjOf prow
      let loops := (List.range mt.nRow).any fun u => (adj u).contains u
      let want := !loops && twoColourableB mt.nRow adj
      if ans != want then some s!"fails bipartite={want}"
      else if !ans || rows == "_" then some "holds"
      else
        let rows ← natList? rows
        let cols ← natList? cols
        let biadj ← ratListList? biadj
        let part := sortNat (rows ++ cols) == List.range mt.nRow
        let sub := (if biadj.isEmpty then rows.isEmpty || cols.isEmpty
                    else biadj == rows.map fun i => cols.map fun j => mt.val i j)
        -- reassembly: nothing of the graph lies outside the two off-diagonal blocks
        let inside := rows.all (fun i => rows.all fun j => mt.val i j == 0) &&
                      cols.all (fun i => cols.all fun j => mt.val i j == 0)
        some (answer (part && sub && inside) s!"partition={part} submatrix={sub} blocks-empty={inside}")) "bad-args"
  | "c12.spec_acyclic", [n, m, ip, ix, dt, directed, ans] => some <| Option.getD (do
      let mt ← mat? n m ip ix dt
      let ans ← bool? ans
      let directed := (← optBool? directed).getD (!symmetricB mt)
      let rows := posRows mt
      let adj := adjOf rows
      match (if directed then hasCycleB mt.nRow adj else hasUndirectedCycleB mt.nRow adj) with
      | none => some "fuel"
      | some cyc => some (answer (ans == !cyc) s!"has-cycle={cyc}")) "bad-args"
  | "c12.spec_cycles", [n, m, ip, ix, dt, directed, cycles] => some <| Option.getD (do
      let mt ← mat? n m ip ix dt
      let cycles ← natListList? cycles
      let directed := (← optBool? directed).getD (!symmetricB mt)
      let rows := posRows mt
      let adj := adjOf rows
      let genuine := cycles.all fun c => decide (IsSimpleCycle mt.nRow adj directed c)
      let idx := List.range cycles.length
      let distinct := idx.all fun i => idx.all fun j =>
        i ≥ j || !(if directed then decide (SameRotation (cycles.getD i []) (cycles.getD j []))
                   else decide (SameNodes (cycles.getD i []) (cycles.getD j [])))
      match (if directed then hasCycleB mt.nRow adj else hasUndirectedCycleB mt.nRow adj) with
      | none => some "fuel"
      | some cyc =>
        let emptyIff := cycles.isEmpty == !cyc
        let all := allSimpleCycles mt.nRow adj
        let complete := !directed || (cycles.length == all.length &&
          all.all fun c => cycles.any fun d => decide (SameRotation d c))
        some (answer (genuine && distinct && emptyIff && complete)
          s!"genuine={genuine} distinct={distinct} empty-iff-acyclic={emptyIff} complete={complete} n-cycles={all.length}")) "bad-args"
  | "c12.spec_break_error", [n, m, ip, ix, dt, root, directed] => some <| Option.getD (do
      -- the implementation raised: allowed only when the call is not admissible
      let mt ← mat? n m ip ix dt
      let root ← optList? root
      let dflag ← optBool? directed
      let sym := symmetricB mt
      if mt.nRow != mt.nCol then some "holds"          -- not an adjacency matrix: refused
      else if dflag == some false && !sym then some "holds"
      else
        let directed := dflag.getD (!sym)
        let prow := posRows mt
        let adj := adjOf prow
        match (if directed then hasCycleB mt.nRow adj else hasUndirectedCycleB mt.nRow adj) with
        | none => some "fuel"
        | some cyc =>
          if !cyc then some "fails raised-on-an-acyclic-graph"
          else match root with
            | none => some "holds"
            | some rs =>
              if !(rs.all (· < mt.nRow)) then some "holds"
              else if (rs.map fun r => (mt.adj r).length).sum == 0 then some "holds"
              else some "fails raised-for-an-admissible-root") "bad-args"
  | "c12.spec_break", [n, m, ip, ix, dt, root, directed, on, om, oip, oix, odt] => some <| Option.getD (do
      let mt ← mat? n m ip ix dt
      let out ← mat? on om oip oix odt
      let root ← natList? root
      let directed := (← optBool? directed).getD (!symmetricB mt)
      let rows := posRows mt
      let adj := adjOf rows
      let orows := posRows out
      let oadj := adjOf orows
      let k := mt.nRow
      let shape := out.nRow == k && out.nCol == k
      -- a subgraph: every entry of the result is 0 or the entry of the input, and it is not negative
      let sub := (List.range k).all fun i => (List.range k).all fun j =>
        out.val i j == 0 || (out.val i j == mt.val i j && decide (0 < out.val i j))
      let sym := directed || symmetricB out
      match (if directed then hasCycleB k oadj else hasUndirectedCycleB k oadj), reachMatrix k adj, reachMatrix k oadj with
      | some cyc, some rm, some orm =>
        -- reachable from the root (from some root, when several are given) before = after
        let keeps := (List.range k).all fun v => (root.any fun r => reachB rm r v) == (root.any fun r => reachB orm r v)
        some (answer (shape && sub && sym && !cyc && keeps)
          s!"shape={shape} subgraph={sub} symmetric={sym} acyclic={!cyc} reach-kept={keeps}")
      | _, _, _ => some "fuel") "bad-args"
  | _, _ => none

end SkNet.Drive.C12
