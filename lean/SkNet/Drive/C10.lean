/- Line-protocol handlers for the path models (C10, routing part of C03). -/
import SkNet.Model.Path
import SkNet.Spec.Path
import SkNet.Spec.Route

namespace SkNet.Drive.C10
open SkNet SkNet.Proto SkNet.Path

/-- adjacency matrix of booleans: a stored entry with non-zero value -/
def edgeMat (c : Csr Rat) : Array (Array Bool) := Id.run do
  let mut m : Array (Array Bool) := Array.replicate c.nRow (Array.replicate c.nCol false)
  for i in [0:c.nRow] do
    for p in c.rowRange i do
      let j := c.indices.getD p 0
      if c.data.getD p 0 != 0 then
        m := m.modify i (fun r => r.setIfInBounds j true)
  return m

/-- the bipartite route goes through `sparse.bmat`, which sums duplicate stored entries before the boolean
    cast: there an edge is a position whose stored values sum to a non-zero value -/
def edgeMatSum (c : Csr Rat) : Array (Array Bool) := Id.run do
  let mut m : Array (Array Rat) := Array.replicate c.nRow (Array.replicate c.nCol 0)
  for i in [0:c.nRow] do
    for p in c.rowRange i do
      let j := c.indices.getD p 0
      m := m.modify i (fun r => r.modify j (· + c.data.getD p 0))
  return m.map fun r => r.map (· != 0)

def edgeOf (m : Array (Array Bool)) (i j : Nat) : Bool := (m.getD i #[]).getD j false

def optList? (s : String) : Option (Option (List Nat)) :=
  if s == "_" then some none else (natList? s).map some

def showPairs (ps : List (Nat × Nat)) : String :=
  if ps.isEmpty then "-" else ";".intercalate (ps.map fun (a, b) => s!"{a},{b}")

def pairs? (s : String) : Option (List (Nat × Nat)) :=
  if s == "-" then some [] else (s.splitOn ";").mapM fun t =>
    match t.splitOn "," with
    | [a, b] => do pure (← a.toNat?, ← b.toNat?)
    | _ => none

def insertPair (p : Nat × Nat) : List (Nat × Nat) → List (Nat × Nat)
  | [] => [p]
  | q :: qs => if p.1 < q.1 || (p.1 == q.1 && p.2 ≤ q.2) then p :: q :: qs else q :: insertPair p qs

def sortPairs (l : List (Nat × Nat)) : List (Nat × Nat) := l.foldr insertPair []

/-- the graph a spec line is about: optional transposition, optional block form -/
def specGraph (n m ip ix dt tr bip : String) : Option (Nat × (Nat → Nat → Bool)) := do
  let c ← csrRat? n m ip ix dt
  let tr ← bool? tr
  let bip ← bool? bip
  let mat := if bip then edgeMatSum c else edgeMat c
  let e0 : Nat → Nat → Bool := if tr then (fun i j => edgeOf mat j i) else edgeOf mat
  let (r, cc) := if tr then (c.nCol, c.nRow) else (c.nRow, c.nCol)
  if bip then some (r + cc, blockEdge r e0) else some (r, e0)

def showErr (e : PyErr) : String := "err " ++ e.show

def handle : Handler
  | "c10.dist", [n, m, ip, ix, dt, s, sr, sc, tr, fb] => some <| Option.getD (do
      let c ← csrRat? n m ip ix dt
      let a : DistArgs := { source := ← optList? s, sourceRow := ← optList? sr, sourceCol := ← optList? sc,
                            transpose := ← bool? tr, forceBipartite := ← bool? fb }
      let mat := if (routeSpec c.nRow c.nCol a).bipartite then edgeMatSum c else edgeMat c
      match getDistances c.nRow c.nCol (edgeOf mat) a with
      | .error e => some (showErr e)
      | .ok none => some "fuel"
      | .ok (some (.single d)) => some ("ok s " ++ showList d)
      | .ok (some (.pair r cc)) => some ("ok p " ++ showList r ++ " " ++ showList cc)) "bad-args"
  | "c10.path", [n, m, ip, ix, dt, s, sr, sc, fb] => some <| Option.getD (do
      let c ← csrRat? n m ip ix dt
      let a : PathArgs := { source := ← optList? s, sourceRow := ← optList? sr, sourceCol := ← optList? sc,
                            forceBipartite := ← bool? fb }
      let mat := if (routeSpec c.nRow c.nCol a.toDist).bipartite then edgeMatSum c else edgeMat c
      match getShortestPath c.nRow c.nCol (edgeOf mat) a with
      | .error e => some (showErr e)
      | .ok none => some "fuel"
      | .ok (some (k, ps)) => some s!"ok {k} {showPairs ps}") "bad-args"
  | "c10.dag", [n, ip, ix, dt, s, o] => some <| Option.getD (do
      let c ← csrRat? n n ip ix dt
      let src ← optList? s
      let ord ← if o == "_" then some none else (intList? o).map some
      let mat := edgeMat c
      match getDag c.nRow (edgeOf mat) src ord with
      | .error e => some (showErr e)
      | .ok none => some "fuel"
      | .ok (some ps) => some ("ok " ++ showPairs ps)) "bad-args"
  | "c10.bfs", [n, ip, ix, dt, s] => some <| Option.getD (do
      let c ← csrRat? n n ip ix dt
      let src ← s.toNat?
      let mat := edgeMat c
      match breadthFirstSearch c.nRow (edgeOf mat) src with
      | .error e => some (showErr e)
      | .ok none => some "fuel"
      | .ok (some l) => some ("ok " ++ showList l)) "bad-args"
  -- spec lines: the specification (Spec/Path.lean) evaluated on the implementation's own output.
  -- `g` = "<nRow> <nCol> <indptr> <indices> <data> <transpose> <bipartite>", sources are numbered in the
  -- graph the distances are about (block numbering when bipartite).
  | "c10.spec_dist", [n, m, ip, ix, dt, tr, bip, s, d] => some <| Option.getD (do
      let (k, e) ← specGraph n m ip ix dt tr bip
      let src ← natList? s
      let d ← intList? d
      let want := tab k (hopDist k e (fun v => src.contains v))
      some (if d == want then "holds" else "fails want=" ++ showList want)) "bad-args"
  -- the refusals of the routing (Spec/Route.lean), evaluated on the outcome class the implementation produced
  | "c10.spec_route", [nRow, nCol, s, sr, sc, tr, fb, outcome] => some <| Option.getD (do
      let a : DistArgs := { source := ← optList? s, sourceRow := ← optList? sr, sourceCol := ← optList? sc,
                            transpose := ← bool? tr, forceBipartite := ← bool? fb }
      let rs := routeSpec (← nRow.toNat?) (← nCol.toNat?) a
      let want := if decide (rs.ValueError a) then "ValueError" else if decide rs.IndexError then "IndexError"
                  else if rs.bipartite then "ok-p" else "ok-s"
      some (if outcome == want then "holds" else "fails want=" ++ want)) "bad-args"
  -- bipartite answer: the two returned vectors separately (the split point is part of the specification)
  | "c10.spec_bdist", [n, m, ip, ix, dt, tr, s, rows, cols] => some <| Option.getD (do
      let (k, e) ← specGraph n m ip ix dt tr "1"
      let c ← csrRat? n m ip ix dt
      let t ← bool? tr
      let r := if t then c.nCol else c.nRow
      let src ← natList? s
      let rows ← intList? rows
      let cols ← intList? cols
      let want := tab k (hopDist k e (fun v => src.contains v))
      some (if rows.length == r && rows ++ cols == want then "holds"
            else s!"fails nRow={r} want=" ++ showList want)) "bad-args"
  -- shortest-path DAG with the number of nodes of the returned matrix
  | "c10.spec_path", [n, m, ip, ix, dt, tr, bip, s, size, ps] => some <| Option.getD (do
      let (k, e) ← specGraph n m ip ix dt tr bip
      let src ← natList? s
      let size ← size.toNat?
      let ps ← pairs? ps
      let hd := hopDist k e (fun v => src.contains v)
      let want := (List.range k).flatMap fun i => ((List.range k).filter fun j =>
        e i j && decide (0 ≤ hd i) && hd j == hd i + 1).map fun j => (i, j)
      some (if size == k && sortPairs ps == want then "holds" else s!"fails size={k} want=" ++ showPairs want)) "bad-args"
  | "c10.spec_path", [n, m, ip, ix, dt, tr, bip, s, ps] => some <| Option.getD (do
      let (k, e) ← specGraph n m ip ix dt tr bip
      let src ← natList? s
      let ps ← pairs? ps
      let hd := hopDist k e (fun v => src.contains v)
      let want := (List.range k).flatMap fun i => ((List.range k).filter fun j =>
        e i j && decide (0 ≤ hd i) && hd j == hd i + 1).map fun j => (i, j)
      some (if sortPairs ps == want then "holds" else "fails want=" ++ showPairs want)) "bad-args"
  | "c10.spec_bfs", [n, ip, ix, dt, s, l] => some <| Option.getD (do
      let (k, e) ← specGraph n n ip ix dt "0" "0"
      let src ← s.toNat?
      let l ← natList? l
      let hd := hopDist k e (fun v => v == src)
      let reachable := (List.range k).filter fun v => decide (0 ≤ hd v)
      let sameSet := reachable.all l.contains && l.all reachable.contains && l.length == reachable.length
      let mono := (l.zip (l.drop 1)).all fun (a, b) => decide (hd a ≤ hd b)
      some (if sameSet && mono then "holds" else "fails reachable=" ++ showList reachable)) "bad-args"
  | "c10.spec_dag", [n, ip, ix, dt, o, ps] => some <| Option.getD (do
      let (k, e) ← specGraph n n ip ix dt "0" "0"
      let o ← intList? o
      let ps ← pairs? ps
      let want := (List.range k).flatMap fun i => ((List.range k).filter fun j =>
        e i j && decide (0 ≤ o.getD i 0) && decide (o.getD i 0 < o.getD j 0)).map fun j => (i, j)
      some (if sortPairs ps == want then "holds" else "fails want=" ++ showPairs want)) "bad-args"
  | _, _ => none

end SkNet.Drive.C10
