/- Line-protocol handlers for C08: cuts, aggregation, tree metrics.
   Dendrogram token: rows `i,j,h,s` separated by `;` (`-` = no row), `h` a rational or `inf`. -/
import SkNet.Model.Cut
import SkNet.Model.HMetrics
import SkNet.Spec.Cut
import SkNet.Spec.HMetrics

namespace SkNet.Drive.C08
open SkNet SkNet.Proto SkNet.Dendro SkNet.Cut SkNet.HMetrics

def ht? (s : String) : Option Ht :=
  if s == "inf" then some .inf else (rat? s).map .fin

def showHt : Ht → String
  | .inf => "inf"
  | .fin q => showRat q

def row? (s : String) : Option (Row Ht) :=
  match s.splitOn "," with
  | [i, j, h, sz] => do pure { i := ← i.toNat?, j := ← j.toNat?, h := ← ht? h, s := ← sz.toNat? }
  | _ => none

def dendro? (s : String) : Option (Dendro Ht) :=
  if s == "-" then some [] else (s.splitOn ";").mapM row?

def showRow (r : Row Ht) : String := s!"{r.i},{r.j},{showHt r.h},{r.s}"

def showDendro (d : Dendro Ht) : String :=
  if d.isEmpty then "-" else ";".intercalate (d.map showRow)

def optHt? (s : String) : Option (Option Ht) :=
  if s == "_" then some none else (ht? s).map some

def showErr (e : PyErr) : String := "err " ++ e.show

def showCut : Except PyErr (CutOut Ht) → String
  | .error e => showErr e
  | .ok o => "ok " ++ showList o.labels ++ " " ++ (match o.dendro with | none => "_" | some d => showDendro d)

def verdict : Except String Unit → String
  | .ok _ => "holds"
  | .error m => "fails " ++ m

/-- Rat → Float through a 64-bit quotient (the logarithms of TSD are taken in Float) -/
def ratToFloat (r : Rat) : Float :=
  if r.num == 0 then 0.0 else
  let a := r.num.natAbs
  let sh : Int := 64 + (r.den.log2 : Int) - (a.log2 : Int)
  let q : Nat := if sh ≥ 0 then (a <<< sh.toNat) / r.den else a / (r.den <<< (-sh).toNat)
  let f := (Float.ofNat q).scaleB (-sh)
  if r.num < 0 then -f else f

def tsdValue (t : TsdTerms) (normalized : Bool) : Float :=
  let score := t.score.foldl (fun acc p => acc + ratToFloat p.1 * Float.log (ratToFloat (p.1 / p.2))) 0.0
  if normalized then
    let mi := t.mutualInfo.foldl (fun acc p => acc + ratToFloat p.1 * Float.log (ratToFloat (p.1 / p.2))) 0.0
    -- repaired code: `if mutual_information > 1e-10: score = min(max(score / mutual_information, 0.), 1.)`
    if mi > 1e-10 then (let q := score / mi; if q < 0.0 then 0.0 else if q > 1.0 then 1.0 else q) else score
  else score

def handle : Handler
  | "c08.cut_straight", [d, k, thr, srt, ret] => some <| Option.getD (do
      let D ← dendro? d
      some (showCut (cutStraight D (← optNat? k) (← optHt? thr) (← bool? srt) (← bool? ret) argsortDesc))) "bad-args"
  | "c08.cut_balanced", [d, m, srt, ret] => some <| Option.getD (do
      let D ← dendro? d
      some (showCut (cutBalanced D (← m.toNat?) (← bool? srt) (← bool? ret) argsortDesc))) "bad-args"
  | "c08.aggregate", [d, k, cnt] => some <| Option.getD (do
      let D ← dendro? d
      match aggregateDendrogram D (← k.toNat?) (← bool? cnt) with
      | .error e => some (showErr e)
      | .ok o => some ("ok " ++ showDendro o.dendro ++ " " ++
          (match o.counts with | none => "_" | some c => showList c))) "bad-args"
  | "c08.dasgupta", [n, m, d, deg, norm] => some <| Option.getD (do
      let D ← dendro? d
      match dasguptaCost (← bool? deg) (← bool? norm) (← n.toNat?) (← ratListList? m) D with
      | .error e => some (showErr e)
      | .ok c => some ("ok " ++ showRat c)) "bad-args"
  | "c08.dasgupta_score", [n, m, d, deg] => some <| Option.getD (do
      let D ← dendro? d
      match dasguptaScore (← bool? deg) (← n.toNat?) (← ratListList? m) D with
      | .error e => some (showErr e)
      | .ok c => some ("ok " ++ showRat c)) "bad-args"
  | "c08.tsd", [n, m, d, deg, norm] => some <| Option.getD (do
      let D ← dendro? d
      match tsdTerms (← bool? deg) (← n.toNat?) (← ratListList? m) D with
      | .error e => some (showErr e)
      | .ok t => some ("ok " ++ toString (tsdValue t (← bool? norm)).toBits.toNat)) "bad-args"
  -- spec lines: the statement evaluated on the implementation's output
  | "c08.spec_straight", [d, k, thr, srt, labels, red] => some <| Option.getD (do
      let D ← dendro? d
      let n := D.length + 1
      let l ← natList? labels
      let r1 := straightSpec n D (← optNat? k) (← optHt? thr) l (← bool? srt)
      let r2 ← if red == "_" then some (.ok ()) else do
        let R ← dendro? red
        some (reducedSpec n D l R)
      some (verdict (do r1; r2))) "bad-args"
  | "c08.spec_balanced", [d, m, srt, labels, red] => some <| Option.getD (do
      let D ← dendro? d
      let n := D.length + 1
      let l ← natList? labels
      let r1 := balancedSpec n D (← m.toNat?) l (← bool? srt)
      let r2 ← if red == "_" then some (.ok ()) else do
        let R ← dendro? red
        some (reducedSpec n D l R)
      some (verdict (do r1; r2))) "bad-args"
  | "c08.spec_agg", [d, k, a, cnt] => some <| Option.getD (do
      let D ← dendro? d
      let A ← dendro? a
      let c ← if cnt == "_" then some none else (natList? cnt).map some
      some (verdict (aggSpec (D.length + 1) D (← k.toNat?) A c))) "bad-args"
  | "c08.spec_valid", [n, d] => some <| Option.getD (do
      let D ← dendro? d
      let n ← n.toNat?
      some (if ValidDendro n D && lastSizeIs n D then "holds" else "fails not-a-valid-dendrogram")) "bad-args"
  | "c08.spec_dasgupta", [n, m, d, deg, norm, v] => some <| Option.getD (do
      let D ← dendro? d
      let want := dasguptaDefCost (← bool? deg) (← bool? norm) (← n.toNat?) (← ratListList? m) D
      let got ← rat? v
      some (if close (1 / 1000000000) got want then "holds" else "fails want=" ++ showRat want)) "bad-args"
  | "c08.spec_range", [v] => some <| Option.getD (do
      let x ← rat? v
      let tol : Rat := 1 / 1000000000
      some (if -tol ≤ x && x ≤ 1 + tol then "holds" else "fails out-of-[0,1]")) "bad-args"
  | "c08.spec_tsd", [n, m, d, deg, v] => some <| Option.getD (do
      -- the un-normalised divergence of the implementation: non-negative, at most the mutual information of the model
      let D ← dendro? d
      let x ← rat? v
      let tol : Rat := 1 / 1000000000
      match tsdTerms (← bool? deg) (← n.toNat?) (← ratListList? m) D with
      | .error e => some (showErr e)
      | .ok t =>
        let mi := t.mutualInfo.foldl (fun acc p => acc + ratToFloat p.1 * Float.log (ratToFloat (p.1 / p.2))) 0.0
        let xf := ratToFloat x
        some (if x < -tol then "fails negative"
              else if xf > mi * (1.0 + 1e-9) + 1e-12 then "fails above-mutual-information" else "holds")) "bad-args"
  | "c08.spec_nonneg", [v] => some <| Option.getD (do
      let x ← rat? v
      let tol : Rat := 1 / 1000000000
      some (if -tol ≤ x then "holds" else "fails negative")) "bad-args"
  | _, _ => none

end SkNet.Drive.C08
