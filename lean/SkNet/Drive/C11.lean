/- Line-protocol handlers for the topology models (C11). -/
import SkNet.Model.Topology
import SkNet.Spec.Topology

namespace SkNet.Drive.C11
open SkNet SkNet.Proto SkNet.Topology

/-- dense value matrix of a CSR matrix (duplicates sum, as scipy does) -/
def valMat (c : Csr Rat) : Array (Array Rat) := Id.run do
  let mut m : Array (Array Rat) := Array.replicate c.nRow (Array.replicate c.nCol 0)
  for i in [0:c.nRow] do
    for p in c.rowRange i do
      let j := c.indices.getD p 0
      m := m.modify i (fun r => r.modify j (· + c.data.getD p 0))
  return m

def valOf (m : Array (Array Rat)) (i j : Nat) : Rat := (m.getD i #[]).getD j 0

/-- boolean matrix: some stored entry (i,j) has a non-zero value (`astype(bool)`) -/
def edgeMat (c : Csr Rat) : Array (Array Bool) := Id.run do
  let mut m : Array (Array Bool) := Array.replicate c.nRow (Array.replicate c.nCol false)
  for i in [0:c.nRow] do
    for p in c.rowRange i do
      let j := c.indices.getD p 0
      if c.data.getD p 0 != 0 then
        m := m.modify i (fun r => r.setIfInBounds j true)
  return m

def edgeOf (m : Array (Array Bool)) (i j : Nat) : Bool := (m.getD i #[]).getD j false

/-- the undirected simple graph a spec line is about: a pattern, read in both directions, loops ignored -/
def specAdj (n ip ix : String) : Option (Nat × (Nat → Nat → Bool)) := do
  let c ← csrPattern? n n ip ix
  let mut m : Array (Array Bool) := Array.replicate c.nRow (Array.replicate c.nRow false)
  for i in [0:c.nRow] do
    for p in c.rowRange i do
      let j := c.indices.getD p 0
      if i != j then
        m := m.modify i (fun r => r.setIfInBounds j true)
        m := m.modify j (fun r => r.setIfInBounds i true)
  some (c.nRow, edgeOf m)

def showErr (e : PyErr) : String := "err " ++ e.show

/-- `par = 0`: sequential; `par = t > 0`: the static schedule with `t` threads -/
def sched? (n : Nat) (par : String) : Option (Option Schedule) := do
  let t ← par.toNat?
  if t = 0 then some none else some (some (staticSchedule n t))

/-- `C(n, k)` capped, to choose between the brute-force count and the pruned one -/
def binomCapped (n k cap : Nat) : Nat := Id.run do
  let mut r := 1
  for i in [0:k] do
    r := r * (n - i) / (i + 1)
    if r > cap then return cap + 1
  return r

def specCliqueCount (n : Nat) (adj : Nat → Nat → Bool) (k : Nat) : Nat :=
  if binomCapped n k 3000 ≤ 3000 then cliqueCount n adj k else cliqueCountIn adj k (List.range n)

def ratAbs (r : Rat) : Rat := if r < 0 then -r else r

def pairList? (s : String) : Option (List (String × String)) :=
  if s == "-" then some [] else (s.splitOn ",").mapM fun t =>
    match t.splitOn ":" with
    | [a, b] => some (a, b)
    | _ => none

def callees? (s : String) : Option (List Callee) :=
  if s == "-" then some [] else (s.splitOn ";").mapM fun t =>
    match t.splitOn ":" with
    | [nm, k, g, st, un] => do
        pure { name := nm, known := ← bool? k, nogil := ← bool? g, nonlocalStores := ← st.toNat?,
               unknownCalls := ← un.toNat? }
    | _ => none

def handle : Handler
  | "c11.tri", [n, m, ip, ix, dt, par] => some <| Option.getD (do
      let c ← csrRat? n m ip ix dt
      let s ← sched? c.nRow par
      let vm := valMat c
      match countTriangles c.nRow c.nCol (valOf vm) s with
      | .error e => some (showErr e)
      | .ok t => some s!"ok {t}") "bad-args"
  | "c11.cc", [n, m, ip, ix, dt, par] => some <| Option.getD (do
      let c ← csrRat? n m ip ix dt
      let s ← sched? c.nRow par
      let vm := valMat c
      match clusteringCoefficient c.nRow c.nCol (valOf vm) s with
      | .error e => some (showErr e)
      | .ok none => some "ok nan"
      | .ok (some r) => some ("ok " ++ showRat r)) "bad-args"
  | "c11.core", [n, m, ip, ix, dt] => some <| Option.getD (do
      let c ← csrRat? n m ip ix dt
      let vm := valMat c
      match getCoreDecomposition c.nRow c.nCol (valOf vm) with
      | .error e => some (showErr e)
      | .ok none => some "fuel"
      | .ok (some l) => some ("ok " ++ showList l)) "bad-args"
  | "c11.cliques", [n, m, ip, ix, dt, k] => some <| Option.getD (do
      let c ← csrRat? n m ip ix dt
      let k ← k.toInt?
      let vm := valMat c
      match countCliquesEntry c.nRow c.nCol (valOf vm) k with
      | .error e => some (showErr e)
      | .ok none => some "fuel"
      | .ok (some t) => some s!"ok {t}") "bad-args"
  -- the core kernel alone on a raw CSR structure
  | "c11.core_kernel", [ip, ix] => some <| Option.getD (do
      let ip ← natList? ip
      let ix ← natList? ix
      match computeCore ip ix with
      | none => some "fuel"
      | some l => some ("ok " ++ showList l)) "bad-args"
  -- the DAG handed to the kernels (used by the harness to compare with the real get_dag on the same order)
  | "c11.dag", [n, ip, ix, dt, o] => some <| Option.getD (do
      let c ← csrRat? n n ip ix dt
      let o ← intList? o
      let em := edgeMat c
      let d := getDag c.nRow (edgeOf em) o
      some ("ok " ++ showList d.indptr ++ " " ++ showList d.indices)) "bad-args"
  -- the kernels alone on a given CSR structure (any `indptr`/`indices`, e.g. the DAG returned by get_dag)
  | "c11.tri_kernel", [ip, ix, par] => some <| Option.getD (do
      let ip ← natList? ip
      let ix ← natList? ix
      let s ← sched? (ip.length - 1) par
      match s with
      | none => some s!"ok {countFromDagSeq ip ix}"
      | some s => some s!"ok {countFromDagPar ip ix s}") "bad-args"
  | "c11.clique_kernel", [ip, ix, k] => some <| Option.getD (do
      let ip ← natList? ip
      let ix ← natList? ix
      let k ← k.toNat?
      some s!"ok {(cliquesFrom ip k ix (boxInit ip k)).1}") "bad-args"
  -- spec lines: the specification (Spec/Topology.lean) evaluated on the implementation's own output;
  -- the graph is `n indptr indices` read as an undirected simple graph
  | "c11.spec_cliques", [n, ip, ix, k, cnt] => some <| Option.getD (do
      let (n, adj) ← specAdj n ip ix
      let k ← k.toNat?
      let cnt ← cnt.toNat?
      let want := specCliqueCount n adj k
      some (if cnt == want then "holds" else s!"fails want={want}")) "bad-args"
  | "c11.spec_core", [n, ip, ix, labels] => some <| Option.getD (do
      let (n, adj) ← specAdj n ip ix
      let labels ← intList? labels
      let table := coreTable n adj
      let want := tab n fun v => (coreNumberFrom table v : Int)
      some (if labels == want then "holds" else "fails want=" ++ showList want)) "bad-args"
  | "c11.spec_cc", [n, ip, ix, x] => some <| Option.getD (do
      let (n, adj) ← specAdj n ip ix
      match clusteringSpec n adj with
      | none => some (if x == "nan" then "holds" else "fails want=nan")
      | some want =>
        if x == "nan" then some ("fails want=" ++ showRat want) else do
        let x ← rat? x
        -- one float64 division of two exactly known integers: 1e-12 (1 + |want|) (DESIGN section 8 allows 1e-9;
        -- two distinct values of 3t/T with T <= 3e4 can be 1e-9 apart)
        let tol : Rat := (1 + ratAbs want) / 1000000000000
        some (if ratAbs (x - want) ≤ tol then "holds" else "fails want=" ++ showRat want)) "bad-args"
  -- clustering coefficient of a graph given by its triangle count and degree sequence (large hubs)
  | "c11.spec_cc_deg", [t, degs, x] => some <| Option.getD (do
      let t ← t.toNat?
      let degs ← natList? degs
      match clusteringFromDegrees t degs with
      | none => some (if x == "nan" then "holds" else "fails want=nan")
      | some want =>
        if x == "nan" || x == "inf" then some ("fails want=" ++ showRat want) else do
        let x ← rat? x
        let tol : Rat := (1 + ratAbs want) / 1000000000000
        some (if ratAbs (x - want) ≤ tol then "holds" else "fails want=" ++ showRat want)) "bad-args"
  -- a count known in closed form (hub graphs: one triangle per extra edge)
  | "c11.spec_closed", [want, got] => some <| Option.getD (do
      let want ← want.toNat?
      let got ← got.toNat?
      some (if want == got then "holds" else s!"fails want={want}")) "bad-args"
  -- an in-scope input on which the implementation raised: always a failure of the property
  | "c11.spec_refused", _ => some "fails raised-on-an-in-scope-input"
  -- contract of external code: `np.argsort` returned a permutation of the nodes
  | "c11.contract_perm", [n, perm] => some <| Option.getD (do
      let n ← n.toNat?
      let perm ← natList? perm
      some (if perm.isPerm (List.range n) then "holds" else "fails not-a-permutation")) "bad-args"
  -- the prange descriptor regenerated from the source on every run
  | "c11.prange", [fn, lv, reds, tys, others, rr, cs] => some <| Option.getD (do
      let d : PrangeDesc := { function := fn, loopVar := lv, reductions := ← pairList? reds,
                              reductionTypes := if tys == "-" then [] else (tys.splitOn ",").map (·.replace "~" " "),
                              otherStores := ← pairList? others, reductionReads := ← rr.toNat?,
                              callees := ← callees? cs }
      some (if d.raceFree then "racefree" else "not-racefree")) "bad-args"
  | _, _ => none

end SkNet.Drive.C11
