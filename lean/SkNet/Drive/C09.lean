/- Line-protocol handlers of C09: the embedding models and specifications executed with `Float`.

Numbers travel exactly: a float is the token `m^e` (= m·2^e, m an integer) or a plain integer on the way in,
and its IEEE bit pattern (decimal) on the way out.  A vector is comma separated (`-` empty), a matrix is its
rows separated by `;` (`_` = no row).  Tolerances are arguments: they are named constants of the harness. -/
import SkNet.Model.Embedding
import SkNet.Spec.Embedding

namespace SkNet.Drive.C09
open SkNet SkNet.Proto SkNet.Embedding

local instance : Zero Float := ⟨0.0⟩
local instance : One Float := ⟨1.0⟩
local instance : NatCast Float := ⟨Float.ofNat⟩

def F : Fn Float := { sqrt := Float.sqrt, pow := Float.pow }

def fl? (s : String) : Option Float :=
  if s == "nan" then some (0.0 / 0.0) else if s == "inf" then some (1.0 / 0.0)
  else if s == "-inf" then some (-1.0 / 0.0) else
  match s.splitOn "^" with
  | [m] => m.toInt?.map Float.ofInt
  | [m, e] => do
      let m ← m.toInt?
      let e ← e.toInt?
      pure ((Float.ofInt m).scaleB e)
  | _ => none

def vec? (s : String) : Option (List Float) :=
  if s == "-" then some [] else (s.splitOn ",").mapM fl?

def mat? (s : String) : Option (List (List Float)) :=
  if s == "_" then some [] else (s.splitOn ";").mapM vec?

def optFl? (s : String) : Option (Option Float) :=
  if s == "_" then some none else (fl? s).map some

def int? (s : String) : Option Int := s.toInt?

def showF (x : Float) : String := toString x.toBits.toNat
def showVec (v : List Float) : String := if v.isEmpty then "-" else ",".intercalate (v.map showF)
def showMat (m : List (List Float)) : String := if m.isEmpty then "_" else ";".intercalate (m.map showVec)
def showOptMat (m : Option (List (List Float))) : String := match m with | none => "none" | some x => showMat x
def showErr (e : PyErr) : String := "err " ++ e.show
def showInts (l : List Int) : String := if l.isEmpty then "-" else ",".intercalate (l.map toString)

def fails (what : String) (x : Float) : String := s!"fails {what} value={x}"

def colOf (m : Mat Float) (c : Nat) : Nat → Float := fun i => mget m i c

/-- first failing check of a list of `(name, value, bound)`: fails when `bound < value` or value is NaN -/
def firstBad (checks : List (String × Float × Float)) : Option (String × Float) :=
  (checks.find? fun (_, v, b) => !(v ≤ b)).map fun (n, v, _) => (n, v)

def verdict (checks : List (String × Float × Float)) (flags : List (String × Bool)) : String :=
  match flags.find? (fun (_, ok) => !ok) with
  | some (n, _) => s!"fails {n}"
  | none =>
    match firstBad checks with
    | some (n, v) => fails n v
    | none => "holds"

def gsvdParams (nc : Int) (reg : Option Float) (fr fc fs : Float) (normalized : Bool) : GsvdParams Float :=
  { nComponents := nc, regularization := gsvdInitReg reg, factorRow := fr, factorCol := fc,
    factorSingular := fs, normalized := normalized }

def which? (s : String) : Option Isolated :=
  if s == "remove" then some .remove else if s == "merge" then some .merge
  else if s == "keep" then some .keep else none

def handle : Handler
  -- ---------------------------------------------------------------- Spectral
  | "c09.spectral", [nr, ncol, b, nnz, fb, nc, rw, reg, nm, evals, evecs] => some <| Option.getD (do
      let nr ← nr.toNat?; let ncol ← ncol.toNat?; let b ← mat? b; let nnz ← nnz.toNat?
      let fb ← bool? fb; let nc ← int? nc; let rw ← bool? rw; let reg ← fl? reg; let nm ← bool? nm
      let evals ← vec? evals; let evecs ← mat? evecs
      match spectralFit F nr ncol b nnz fb nc rw reg nm (fun _ _ _ => (evals, evecs)) with
      | .error e => some (showErr e)
      | .ok o => some s!"ok which={spectralWhich} bip={showBool o.bipartite} reg={showBool o.regularized} k={o.k} ev={showVec o.eigenvalues} evec={showMat o.eigenvectors} emb={showMat o.embedding} embcol={showOptMat o.embeddingCol}") "bad-args"
  | "c09.lapmv", [n, a, reg, nm, x] => some <| Option.getD (do
      let n ← n.toNat?; let a ← mat? a; let reg ← fl? reg; let nm ← bool? nm; let x ← vec? x
      some ("ok v=" ++ showVec (lapMatvec (lapInit F n a reg nm) a x))) "bad-args"
  | "c09.contract_eig", [n, a, reg, nm, evals, evecs, tol] => some <| Option.getD (do
      let n ← n.toNat?; let a ← mat? a; let reg ← fl? reg; let nm ← bool? nm
      let evals ← vec? evals; let evecs ← mat? evecs; let tol ← fl? tol
      let op := lapInit F n a reg nm
      let scale := 1 + Spec.maxAbs n (fun i => vget op.weights i + reg)
      let checks := (List.range evals.length).map fun c =>
        let u : List Float := tab n (colOf evecs c)
        let mu := lapMatvec op a u
        (s!"residual[{c}]", Spec.maxAbs n (fun i => vget mu i - vget evals c * vget u i), tol * scale)
      let ortho := ("orthonormal", Spec.gramDefect n evals.length (fun _ => 1) evecs, tol * 10)
      some (verdict (checks ++ [ortho]) [])) "bad-args"
  | "c09.spec_spectral", [n, a, regParam, rw, evals, evecs, tol] => some <| Option.getD (do
      let n ← n.toNat?; let a ← mat? a; let regParam ← fl? regParam; let rw ← bool? rw
      let evals ← vec? evals; let evecs ← mat? evecs; let tol ← fl? tol
      let reg := Spec.effectiveReg n a regParam
      let connected := decide (0 < reg) || Spec.stronglyConnected n a
      let deg := fun i => Spec.degReg n a reg i
      let scale := 1 + Spec.maxAbs n deg
      let resid := (List.range evals.length).map fun c =>
        let v := colOf evecs c
        if rw then (s!"rw-residual[{c}]", Spec.eigResidual n (Spec.transApply n a reg) (vget evals c) v, tol * 10)
        else (s!"laplacian-residual[{c}]", Spec.eigResidual n (Spec.lapApply n a reg) (vget evals c) v, tol * scale)
      let trivial := if connected then (List.range evals.length).map fun c =>
          let v := colOf evecs c
          if rw then (s!"trivial-pair[{c}]", absv (sumN n fun i => deg i * v i), tol * scale * (n : Float))
          else (s!"trivial-pair[{c}]", absv (sumN n v), tol * (n : Float))
        else []
      let ordered := if rw then Spec.isNonincreasing evals tol else Spec.isNondecreasing evals tol
      -- unit, mutually orthogonal vectors: plain for the Laplacian, in the degree-weighted product for the random walk
      -- (there only when no node has degree 0: D^{-1/2} then loses the mass sitting on such nodes)
      let nodeg0 := (List.range n).all fun i => !(deg i == 0)
      let ortho := if rw then (if nodeg0 then [("D-orthonormal", Spec.gramDefect n evals.length deg evecs, tol * 10)] else [])
        else [("orthonormal", Spec.gramDefect n evals.length (fun _ => 1) evecs, tol * 10)]
      some (verdict (resid ++ trivial ++ ortho) [("order", ordered),
        ("shape", evecs.length == n && evecs.all (·.length == evals.length))])) "bad-args"
  | "c09.spec_extreme", [want, got, tol] => some <| Option.getD (do
      let want ← vec? want; let got ← vec? got; let tol ← fl? tol
      let scale := 1 + Spec.maxAbs want.length (vget want)
      some (verdict [("extremal-values", Spec.maxAbs want.length (fun c => vget want c - vget got c), tol * scale)]
        [("count", want.length == got.length)])) "bad-args"
  | "c09.spec_among", [spectrum, got, bound, tol] => some <| Option.getD (do
      -- weaker judgement when the spectrum is degenerate at the cut: every returned value is an eigenvalue of the dense
      -- operator and lies below the bound (both in the increasing order of the symmetric operator)
      let spectrum ← vec? spectrum; let got ← vec? got; let bound ← fl? bound; let tol ← fl? tol
      let scale := 1 + Spec.maxAbs spectrum.length (vget spectrum)
      let dist := fun (x : Float) => spectrum.foldl (fun acc w => if absv (x - w) < acc then absv (x - w) else acc) (1.0 / 0.0)
      let checks := (List.range got.length).flatMap fun c =>
        [(s!"is-eigenvalue[{c}]", dist (vget got c), tol * scale), (s!"below-bound[{c}]", vget got c - bound, tol * scale)]
      some (verdict checks [])) "bad-args"
  | "c09.spec_orthonormal", [n, k, m, tol] => some <| Option.getD (do
      let n ← n.toNat?; let k ← k.toNat?; let m ← mat? m; let tol ← fl? tol
      some (verdict [("orthonormal", Spec.gramDefect n k (fun _ => 1) m, tol * 10)]
        [("shape", m.length == n && m.all (·.length == k))])) "bad-args"
  | "c09.spec_nonneg", [v, tol] => some <| Option.getD (do
      let v ← vec? v; let tol ← fl? tol
      some (verdict [] [("nonnegative", v.all fun x => !(decide (x < -tol)))])) "bad-args"
  | "c09.rpmult", [n, k, a, reg, rw, m] => some <| Option.getD (do
      let n ← n.toNat?; let k ← k.toNat?; let a ← mat? a; let reg ← fl? reg; let rw ← bool? rw; let m ← mat? m
      some ("ok m=" ++ showMat (rpMultiply n k a reg rw m))) "bad-args"
  | "c09.spec_raised", [what] => some ("fails raised " ++ what)
  | "c09.spec_unit", [n, k, m, tol] => some <| Option.getD (do
      let n ← n.toNat?; let k ← k.toNat?; let m ← mat? m; let tol ← fl? tol
      some (verdict [] [("unit-norm", Spec.unitRows F n k m tol)])) "bad-args"
  | "c09.spec_normalized", [n, k, x, y, tol] => some <| Option.getD (do
      let n ← n.toNat?; let k ← k.toNat?; let x ← mat? x; let y ← mat? y; let tol ← fl? tol
      some (verdict [("normalize", Spec.maxDiff n k (Spec.normalizedEntry F k x) (mget y), tol)]
        [("shape", y.length == n && y.all (·.length == k))])) "bad-args"
  | "c09.spec_close", [n, k, x, y, tol] => some <| Option.getD (do
      let n ← n.toNat?; let k ← k.toNat?; let x ← mat? x; let y ← mat? y; let tol ← fl? tol
      some (verdict [("distance", Spec.maxDiff n k (mget x) (mget y), tol)]
        [("shape", x.length == n && y.length == n && x.all (·.length == k) && y.all (·.length == k))])) "bad-args"
  -- ---------------------------------------------------------------- GSVD / SVD
  | "c09.gsvd", [nr, ncol, a, nnz, nc, reg, fr, fc, fs, nm, sv, u, v] => some <| Option.getD (do
      let nr ← nr.toNat?; let ncol ← ncol.toNat?; let a ← mat? a; let nnz ← nnz.toNat?
      let nc ← int? nc; let reg ← optFl? reg; let fr ← fl? fr; let fc ← fl? fc; let fs ← fl? fs
      let nm ← bool? nm; let sv ← vec? sv; let u ← mat? u; let v ← mat? v
      match gsvdFit F nr ncol a nnz (gsvdParams nc reg fr fc fs nm) (fun _ _ => (sv, u, v)) with
      | .error e => some (showErr e)
      | .ok o => some s!"ok k={o.k} sv={showVec o.singularValues} left={showMat o.left} right={showMat o.right} er={showMat o.embeddingRow} ec={showMat o.embeddingCol} wc={showVec o.weightsCol}") "bad-args"
  | "c09.gsvd_op", [nr, ncol, a, reg, fr, fc] => some <| Option.getD (do
      let nr ← nr.toNat?; let ncol ← ncol.toNat?; let a ← mat? a
      let reg ← optFl? reg; let fr ← fl? fr; let fc ← fl? fc
      let (_, _, _, _, m) := gsvdOperator F nr ncol a (gsvdParams 1 reg fr fc 0 false)
      some ("ok m=" ++ showMat (mkMat nr ncol m.entry))) "bad-args"
  | "c09.contract_svd", [nr, ncol, a, reg, fr, fc, sv, u, v, tol] => some <| Option.getD (do
      let nr ← nr.toNat?; let ncol ← ncol.toNat?; let a ← mat? a
      let reg ← optFl? reg; let fr ← fl? fr; let fc ← fl? fc
      let sv ← vec? sv; let u ← mat? u; let v ← mat? v; let tol ← fl? tol
      let (_, _, _, _, m) := gsvdOperator F nr ncol a (gsvdParams 1 reg fr fc 0 false)
      let md := mkMat nr ncol m.entry
      let scale := 1 + Spec.maxAbs nr fun i => Spec.maxAbs ncol fun j => mget md i j
      let checks := (List.range sv.length).flatMap fun c =>
        let (r1, r2) := Spec.tripletResidual nr ncol (mget md) (vget sv c) (colOf u c) (colOf v c)
        [(s!"Mv-su[{c}]", r1, tol * scale), (s!"Mtu-sv[{c}]", r2, tol * scale)]
      some (verdict checks [])) "bad-args"
  | "c09.spec_gsvd", [nr, ncol, a, reg, fr, fc, fs, nm, sv, u, v, er, ec, tol] => some <| Option.getD (do
      let nr ← nr.toNat?; let ncol ← ncol.toNat?; let a ← mat? a
      let reg ← optFl? reg; let fr ← fl? fr; let fc ← fl? fc; let fs ← fl? fs; let nm ← bool? nm
      let sv ← vec? sv; let u ← mat? u; let v ← mat? v; let er ← mat? er; let ec ← mat? ec; let tol ← fl? tol
      let r := reg.getD 0
      let k := sv.length
      let m := mkMat nr ncol (Spec.gsvdEntry F nr ncol a r fr fc)
      let scale := 1 + Spec.maxAbs nr fun i => Spec.maxAbs ncol fun j => mget m i j
      let resid := (List.range k).flatMap fun c =>
        let (r1, r2) := Spec.tripletResidual nr ncol (mget m) (vget sv c) (colOf u c) (colOf v c)
        [(s!"Mv-su[{c}]", r1, tol * scale), (s!"Mtu-sv[{c}]", r2, tol * scale)]
      let rowRaw := mkMat nr k fun i c => pinv (F.pow (Spec.gsvdWeightRow ncol a r i) fr) * mget u i c * F.pow (vget sv c) (1 - fs)
      let colRaw := mkMat ncol k fun j c => pinv (F.pow (Spec.gsvdWeightCol nr ncol a r j) fc) * mget v j c * F.pow (vget sv c) fs
      let rowWant := if nm then Spec.normalizedEntry F k rowRaw else mget rowRaw
      let colWant := if nm then Spec.normalizedEntry F k colRaw else mget colRaw
      let es := 1 + Spec.maxAbs nr fun i => Spec.maxAbs k fun c => mget rowRaw i c
      let cs := 1 + Spec.maxAbs ncol fun j => Spec.maxAbs k fun c => mget colRaw j c
      some (verdict (resid ++ [("embedding_row", Spec.maxDiff nr k rowWant (mget er), tol * es),
                               ("embedding_col", Spec.maxDiff ncol k colWant (mget ec), tol * cs)])
        [("order", Spec.isNonincreasing sv tol),
         ("shape", er.length == nr && ec.length == ncol && er.all (·.length == k) && ec.all (·.length == k))])) "bad-args"
  | "c09.predict", [ncol, reg, fr, fc, fs, nm, sv, v, wc, nvec, len, x] => some <| Option.getD (do
      let ncol ← ncol.toNat?; let reg ← optFl? reg; let fr ← fl? fr; let fc ← fl? fc; let fs ← fl? fs
      let nm ← bool? nm; let sv ← vec? sv; let v ← mat? v; let wc ← vec? wc
      let nvec ← nvec.toNat?; let len ← len.toNat?; let x ← mat? x
      match gsvdPredict F (gsvdParams 1 reg fr fc fs nm) ncol sv v wc nvec len x with
      | .error e => some (showErr e)
      | .ok e => some ("ok e=" ++ showMat e)) "bad-args"
  -- ---------------------------------------------------------------- PCA
  | "c09.pca", [nr, ncol, a, nnz, nc, nm, sv, u, v] => some <| Option.getD (do
      let nr ← nr.toNat?; let ncol ← ncol.toNat?; let a ← mat? a; let nnz ← nnz.toNat?
      let nc ← int? nc; let nm ← bool? nm; let sv ← vec? sv; let u ← mat? u; let v ← mat? v
      match pcaFit F nr ncol a nnz nc nm (fun _ _ => (sv, u, v)) with
      | .error e => some (showErr e)
      | .ok o => some s!"ok sv={showVec o.singularValues} left={showMat o.left} right={showMat o.right} er={showMat o.embeddingRow} ec={showMat o.embeddingCol} mean={showVec o.mean}") "bad-args"
  | "c09.pca_predict", [ncol, nm, sv, v, mean, nvec, len, x] => some <| Option.getD (do
      let ncol ← ncol.toNat?; let nm ← bool? nm; let sv ← vec? sv; let v ← mat? v; let mean ← vec? mean
      let nvec ← nvec.toNat?; let len ← len.toNat?; let x ← mat? x
      match pcaPredict F nm ncol sv v mean nvec len x with
      | .error e => some (showErr e)
      | .ok e => some ("ok e=" ++ showMat e)) "bad-args"
  | "c09.pca_op", [nr, ncol, a] => some <| Option.getD (do
      let nr ← nr.toNat?; let ncol ← ncol.toNat?; let a ← mat? a
      some ("ok m=" ++ showMat (mkMat nr ncol (pcaOperator nr ncol a).entry))) "bad-args"
  | "c09.contract_pca", [nr, ncol, a, sv, u, v, tol] => some <| Option.getD (do
      let nr ← nr.toNat?; let ncol ← ncol.toNat?; let a ← mat? a
      let sv ← vec? sv; let u ← mat? u; let v ← mat? v; let tol ← fl? tol
      let md := mkMat nr ncol (pcaOperator nr ncol a).entry
      let scale := 1 + Spec.maxAbs nr fun i => Spec.maxAbs ncol fun j => mget md i j
      let checks := (List.range sv.length).flatMap fun c =>
        let (r1, r2) := Spec.tripletResidual nr ncol (mget md) (vget sv c) (colOf u c) (colOf v c)
        [(s!"Cv-su[{c}]", r1, tol * scale), (s!"Ctu-sv[{c}]", r2, tol * scale)]
      some (verdict checks [])) "bad-args"
  | "c09.spec_pca", [nr, ncol, a, nm, sv, u, v, er, ec, tol] => some <| Option.getD (do
      let nr ← nr.toNat?; let ncol ← ncol.toNat?; let a ← mat? a; let nm ← bool? nm
      let sv ← vec? sv; let u ← mat? u; let v ← mat? v; let er ← mat? er; let ec ← mat? ec; let tol ← fl? tol
      let k := sv.length
      let m := mkMat nr ncol (Spec.centredEntry nr a)
      let scale := 1 + Spec.maxAbs nr fun i => Spec.maxAbs ncol fun j => mget m i j
      let resid := (List.range k).flatMap fun c =>
        let (r1, r2) := Spec.tripletResidual nr ncol (mget m) (vget sv c) (colOf u c) (colOf v c)
        [(s!"Cv-su[{c}]", r1, tol * scale), (s!"Ctu-sv[{c}]", r2, tol * scale)]
      let centred := ("column-means", Spec.maxAbs ncol (fun j => sumN nr fun i => mget m i j), tol * scale * (nr : Float))
      let rowWant := if nm then Spec.normalizedEntry F k u else mget u
      let colWant := if nm then Spec.normalizedEntry F k v else mget v
      some (verdict (resid ++ [centred, ("embedding_row", Spec.maxDiff nr k rowWant (mget er), tol),
                               ("embedding_col", Spec.maxDiff ncol k colWant (mget ec), tol)])
        [("shape", er.length == nr && ec.length == ncol && er.all (·.length == k) && ec.all (·.length == k))])) "bad-args"
  -- ---------------------------------------------------------------- solver wrappers
  | "c09.svdwhich", [] => some s!"ok which={lanczosSvdWhich}"
  | "c09.svdpost", [nr, ncol, u, s, vt] => some <| Option.getD (do
      let nr ← nr.toNat?; let ncol ← ncol.toNat?; let u ← mat? u; let s ← vec? s; let vt ← mat? vt
      let (sv, l, r) := lanczosSvdPost nr ncol u s vt
      some s!"ok which={lanczosSvdWhich} sv={showVec sv} left={showMat l} right={showMat r}") "bad-args"
  -- ---------------------------------------------------------------- RandomProjection
  | "c09.rp", [nr, ncol, b, nnz, fb, alpha, niter, rw, reg, nm, g] => some <| Option.getD (do
      let nr ← nr.toNat?; let ncol ← ncol.toNat?; let b ← mat? b; let nnz ← nnz.toNat?; let fb ← bool? fb
      let alpha ← fl? alpha; let niter ← niter.toNat?; let rw ← bool? rw; let reg ← fl? reg; let nm ← bool? nm
      let g ← mat? g
      match rpFit F nr ncol b nnz fb alpha niter rw reg nm (fun _ => g) with
      | .error e => some (showErr e)
      | .ok o => some s!"ok bip={showBool o.bipartite} reg={showBool o.regularized} emb={showMat o.embedding} embcol={showOptMat o.embeddingCol}") "bad-args"
  | "c09.spec_rp", [n, a, alpha, niter, rw, regParam, nm, g, emb, tol] => some <| Option.getD (do
      let n ← n.toNat?; let a ← mat? a; let alpha ← fl? alpha; let niter ← niter.toNat?; let rw ← bool? rw
      let regParam ← fl? regParam; let nm ← bool? nm; let g ← mat? g; let emb ← mat? emb; let tol ← fl? tol
      let reg := Spec.effectiveReg n a regParam
      let k := (g.getD 0 []).length
      let mult := mkMat n n (Spec.rpMultiplierEntry n a reg rw)
      -- powers are materialised step by step (the closed form itself is `Spec.rpClosedForm`)
      let terms : List (Mat Float) := (List.range niter).foldl (fun acc _ =>
        let last := acc.getLast?.getD g
        acc ++ [mkMat n k fun i c => sumN n fun j => mget mult i j * mget last j c]) [g]
      let raw := mkMat n k fun i c => sumN (niter + 1) fun t => Spec.powN alpha t * mget (terms.getD t []) i c
      let want := if nm then Spec.normalizedEntry F k raw else mget raw
      let scale := 1 + Spec.maxAbs n fun i => Spec.maxAbs k fun c => mget raw i c
      some (verdict [("closed-form", Spec.maxDiff n k want (mget emb), tol * scale)]
        [("shape", emb.length == n && emb.all (·.length == k))])) "bad-args"
  -- ---------------------------------------------------------------- LouvainEmbedding
  | "c09.louvain", [nr, ncol, a, fb, ln, lr, lc, w] => some <| Option.getD (do
      let nr ← nr.toNat?; let ncol ← ncol.toNat?; let a ← mat? a
      let fb ← bool? fb; let ln ← natList? ln; let lr ← natList? lr; let lc ← natList? lc; let w ← which? w
      match louvainEmbFit nr ncol a fb ln lr lc w with
      | .error e => some (showErr e)
      | .ok o => some s!"ok lab={showInts o.labels} emb={showMat o.embedding} embcol={showOptMat o.embeddingCol}") "bad-args"
  | "c09.spec_louvain", [nr, ncol, a, lab, emb, tol] => some <| Option.getD (do
      let nr ← nr.toNat?; let ncol ← ncol.toNat?; let a ← mat? a
      let lab ← intList? lab; let emb ← mat? emb; let tol ← fl? tol
      let k := membershipCols lab
      some (verdict [("closed-form", Spec.maxDiff nr k (Spec.louvainEntry ncol a lab) (mget emb), tol)]
        [("shape", emb.length == nr && emb.all (·.length == k))])) "bad-args"
  | _, _ => none

end SkNet.Drive.C09
