/- Line-protocol handlers of C16: the decisions on the data generated from the working tree, the `check_random_state`
   model, conformance of dynamic traces to the generated descriptions, the interleaving explorer for small loops.
   The handler is parametrised by the generated data (`handleWith`): the harness writes one module per tree
   (`SkNet/Generated/C16T<tag>.lean`: data + `def handle := handleWith …`), so that concurrent checks of different
   trees never read each other's data. -/
import SkNet.Model.ParFor
import SkNet.Model.Estimator

namespace SkNet.Drive.C16
open SkNet SkNet.Proto SkNet.ParFor SkNet.Estimator

/-- the data generated from one tree -/
structure Data where
  loops : List Loop
  tbl : List Est
  crs : List (String × String)
  ompCompile : Bool
  ompLink : Bool
  /-- content hash of the generated data, compared by the harness with the hash of what it generated in this run -/
  hash : String

def strList? (s : String) : Option (List String) :=
  if s == "-" then some [] else some (s.splitOn ",")

def showStrs (l : List String) : String := if l.isEmpty then "-" else ",".intercalate l

def fuel : Nat := 8

/-- `a[idx] += 1` by iterations `0..n-1`, iteration `t` on element `idx t`: the concrete shape of an indirect
    in-place update; used to explore all interleavings of small instances -/
def incrProg (arr : String) (idx : List Nat) : Nat → List Ev := fun t =>
  match idx[t]? with
  | some j => [.load (arr, j), .store (arr, j) (addF 1)]
  | none => []

def rsArg? (s : String) : Option RsArg :=
  if s == "none" then some .none
  else if s == "inst" then some (.inst ⟨1, 4⟩)
  else if s == "other" then some .other
  else if s == "bool:1" then some (.bool true)
  else if s == "bool:0" then some (.bool false)
  else match s.splitOn ":" with
    | ["int", v] => v.toInt?.map RsArg.int
    | _ => none

def handleWith (d : Data) : Handler :=
  let findLoop := fun (n : String) => d.loops.find? (·.name == n)
  let tbl := d.tbl
  let findEst := fun (n : String) => Est.lookup tbl n
  fun cmd args => match cmd, args with
  | "c16.datahash", [] => some d.hash
  | "c16.loops", [] => some (showStrs (d.loops.map (·.name)))
  | "c16.omp", [] => some (showBool d.ompCompile ++ " " ++ showBool d.ompLink)
  | "c16.racefree", [n] => some <| match findLoop n with
      | none => "no-such-loop"
      | some l =>
        let inex := l.inexactReductions
        -- a float reduction is combined in an order that depends on the thread count: not deterministic
        if !l.raceFree then "racy " ++ (match l.firstBad with | some a => a.show.replace " " "_" | none => "?")
        else if !inex.isEmpty then "inexact " ++ showStrs inex
        else "racefree"
  | "c16.pinned", [n] => some <| match findLoop n, pinnedLoops.find? (·.name == n) with
      | some l, some p => if l == p then "same" else "changed"
      | some _, none => "new-loop"
      | none, _ => "no-such-loop"
  | "c16.loopdesc", [n] => some <| match findLoop n with
      | none => "no-such-loop"
      | some l => ";".intercalate (l.accs.map fun a => a.show.replace " " "_")
  | "c16.ests", [] => some (showStrs (tbl.map (·.name)))
  | "c16.history", [n] => some <| match findEst n with
      | none => "no-such-class"
      | some e =>
        if e.staticOK tbl fuel then
          "ok" ++ (if e.assumptions.isEmpty then "" else " assumes=" ++ showStrs e.assumptions)
        else "dep " ++ (e.whyNotStatic tbl fuel).replace " " "_"
  | "c16.estdesc", [n] => some <| match findEst n with
      | none => "no-such-class"
      | some e => s!"reads={showStrs e.readsFirst} may={showStrs e.mayWrite} must={showStrs e.mustWrite} " ++
          s!"deep={showStrs (e.deep.map fun (a, c) => a ++ ":" ++ c)} rng={showStrs (e.rng.map Rng.show)} " ++
          s!"setable={showStrs e.setable}"
  -- conformance of a dynamic trace of one `fit` call to the generated description:
  -- reads-before-write ⊆ readsFirst ∪ logs, writes ⊆ mayWrite ∪ normalised, mustWrite ⊆ writes
  | "c16.spec_trace", [n, reads, writes] => some <| Option.getD (do
      let e ← findEst n
      let rs ← strList? reads
      let ws ← strList? writes
      let extraR := rs.filter fun a => !(e.readsFirst.contains a || e.logs.contains a || e.normAttrs.contains a)
      let extraW := ws.filter fun a => !(e.mayWrite.contains a || e.normAttrs.contains a || e.logs.contains a)
      let missing := e.mustWrite.filter fun a => !(ws.contains a)
      if extraR.isEmpty && extraW.isEmpty && missing.isEmpty then some "holds"
      else some s!"fails extra-read={showStrs extraR} extra-write={showStrs extraW} not-written={showStrs missing}") "bad-args"
  -- the same for the *flattened* description: the trace also covers the attribute objects (`solver.x`, …) that were
  -- objects before the call; names under a parameter object of unknown class (assumption) are skipped
  | "c16.spec_trace_flat", [n, reads, writes] => some <| Option.getD (do
      let e ← findEst n
      let f ← e.flatten tbl fuel
      let rs ← strList? reads
      let ws ← strList? writes
      let skip := fun (a : String) => e.assumptions.any fun p => a.startsWith (p ++ ".")
      let extraR := rs.filter fun a => !(skip a || f.readsFirst.contains a || f.logs.contains a || e.normAttrs.contains a)
      let extraW := ws.filter fun a => !(skip a || f.mayWrite.contains a || f.logs.contains a || e.normAttrs.contains a)
      if extraR.isEmpty && extraW.isEmpty then some "holds"
      else some s!"fails extra-read={showStrs extraR} extra-write={showStrs extraW}") "no-flattened-description"
  -- the history theorem's prediction for an observed comparison: `equal` expected iff historyOK
  | "c16.spec_history", [n, observed] => some <| match findEst n with
      | none => "no-such-class"
      | some e =>
        if observed == "equal" then "holds"
        else if e.staticOK tbl fuel then "fails model=history-independent observed=" ++ observed
        else "fails model=" ++ (e.whyNotStatic tbl fuel).replace " " "_" ++ " observed=" ++ observed
  | "c16.setparam", [n, name] => some <| match findEst n with
      | none => "no-such-class"
      | some e => if e.setParamAccepted name then "ok" else "err ValueError"
  | "c16.setable", [n] => some <| match findEst n with
      | none => "no-such-class"
      | some e => showStrs e.setable
  | "c16.crs", [a] => some <| Option.getD (do
      let arg ← rsArg? a
      let w : World := { globalState := 5, next := 3, entropy := 9 }
      match checkRandomState d.crs arg w with
      | none => some "unknown-branch"
      | some (.error .typeError) => some "err TypeError"
      | some (.error .valueError) => some "err ValueError"
      | some (.ok (g, w')) =>
        let unchanged := showBool (w'.globalState == w.globalState)
        if g.id == 0 then some ("global " ++ unchanged)
        else if g.id == w.next then
          (match arg with
           | .int s => some ((if g.state == seedState s then "new-seeded " else "new-other ") ++ unchanged)
           | .bool b => some ((if g.state == seedState (if b then 1 else 0) then "new-seeded " else "new-other ") ++ unchanged)
           | _ => some ((if g.state == w.entropy then "new-entropy " else "new-other ") ++ unchanged))
        else some ("same " ++ unchanged)) "bad-args"
  | "c16.crs_ok", [] => some (if crsOK d.crs then "holds" else "fails")
  -- all interleavings of `arr[idx t] += 1`: the distinct final contents of the touched elements
  | "c16.interleave", [idx] => some <| Option.getD (do
      let ix ← natList? idx
      let prog := incrProg "a" ix
      let locs := (ix.eraseDups.map fun j => ("a", j))
      let outs := outcomes prog ix.length (fun _ => 0) locs
      let rf := raceFreeB prog ix.length
      some (showBool rf ++ " " ++ showListList (outs.map fun o => o.map Int.toNat))) "bad-args"
    | _, _ => none

end SkNet.Drive.C16
