/- Line-protocol handlers for Weisfeiler-Lehman (C02). -/
import SkNet.Model.WL
import SkNet.Spec.WL
import SkNet.Model.WLWitness

namespace SkNet.Drive.C02
open SkNet SkNet.Proto SkNet.WL

/-- adjacency lists from `n indptr indices` (storage order kept: the float hash sums in that order) -/
def adj? (n ip ix : String) : Option (List (List Nat)) := do
  let n ← n.toNat?
  let ip ← natList? ip
  let ix ← natList? ix
  let c : Csr Unit := { nRow := n, nCol := n, indptr := ip.toArray, indices := ix.toArray,
                        data := Array.replicate ix.length () }
  some (tab n c.rowIdx)

/-- powers as IEEE-754 bit patterns (decimal UInt64), exactly what numpy computed -/
def powers? (s : String) : Option (Array Float) :=
  (natList? s).map fun l => (l.map fun b => Float.ofBits b.toUInt64).toArray

def maxIter? (s : String) : Option (Option Nat) :=
  if s.startsWith "-" then some none else s.toNat?.map some

def handle : Handler
  -- the literals of the Lean collision witness: `n indptr indices powers-as-bit-patterns`
  | "c02.witness", [] =>
      let ip := collisionAdj.foldl (fun acc r => acc ++ [acc.getLast! + r.length]) [0]
      some s!"{collisionAdj.length} {showList (ip.map Int.ofNat)} {showList (collisionAdj.flatten.map Int.ofNat)} {showList (collisionPowers.toList.map fun x => Int.ofNat x.toBits.toNat)}"
  | "c02.wl", [n, ip, ix, pw, mi] => some <| Option.getD (do
      let adj ← adj? n ip ix
      some ("ok " ++ showList (colorWL (floatOps (← powers? pw)) adj (← maxIter? mi)))) "bad-args"
  | "c02.iso", [n1, ip1, ix1, n2, ip2, ix2, pw, mi] => some <| Option.getD (do
      let a1 ← adj? n1 ip1 ix1
      let a2 ← adj? n2 ip2 ix2
      match areIsomorphic (floatOps (← powers? pw)) a1 a2 (← maxIter? mi) with
      | some b => some ("ok " ++ showBool b)
      | none => some "err ValueError") "bad-args"
  -- the exact-arithmetic instance of the same kernel (no float hash)
  | "c02.wl_exact", [n, ip, ix, mi] => some <| Option.getD (do
      let adj ← adj? n ip ix
      some ("ok " ++ showList (colorWL exactOps adj (← maxIter? mi)))) "bad-args"
  -- spec: do these colours group the nodes exactly as `k` rounds of refinement do, and is that stable?
  | "c02.spec_groups", [n, ip, ix, k, labels, needStable] => some <| Option.getD (do
      let adj ← adj? n ip ix
      let k ← k.toNat?
      let l ← natList? labels
      let st ← bool? needStable
      if l.length != adj.length then some "fails length"
      else if !groupsAsT adj k l then some "fails groups"
      else if st && !stableAtT adj k then some "fails not-stable"
      else some "holds") "bad-args"
  -- spec (large graphs): colours group the nodes as the *stable* refinement does (rounds computed until stable)
  | "c02.spec_stable", [n, ip, ix, labels] => some <| Option.getD (do
      let adj ← adj? n ip ix
      let l ← natList? labels
      if l.length != adj.length then some "fails length"
      else if !groupsAsStable adj l then some "fails groups"
      else some "holds") "bad-args"
  -- spec: the least k at which refinement is stable, and the classes then (canonical labels by first member)
  | "c02.refine", [n, ip, ix] => some <| Option.getD (do
      let adj ← adj? n ip ix
      let k := ((List.range (adj.length + 1)).find? (stableAtT adj)).getD adj.length
      let t := classTab adj k
      let lab := tab adj.length fun u => ((List.range adj.length).find? (fun v => tget t u v)).getD u
      some s!"ok {k} {showList lab}") "bad-args"
  | _, _ => none

end SkNet.Drive.C02
