/- Line-protocol handlers for the ingestion / persistence models (C18).

Tokens (blank-free):
  string   `~` (empty) or the decimal code points joined by `.`            e.g. `97.98`
  ident    `i<int>` or `s<string>`
  edges    `-` or edges joined by `;`, an edge is `<ident>,<ident>,<w>` with `<w>` = `_` (2-tuple) | `!` (text) | rational
  flags    seven tokens: directed bipartite weighted reindex sum_duplicates shape(`_`|`r,c`) matrix_only(`_`|0|1)
  strings  `-` or strings joined by `,`
-/
import SkNet.Model.Ingest
import SkNet.Model.Csv
import SkNet.Model.Persist
import SkNet.Spec.Ingest
import SkNet.Model.GraphML
import SkNet.Spec.GraphML

namespace SkNet.Drive.C18
open SkNet SkNet.Proto SkNet.Ingest

/-! ### decoding -/

def str? (s : String) : Option String :=
  if s == "~" then some "" else do
    let cs ← (s.splitOn ".").mapM String.toNat?
    some (String.ofList (cs.map Char.ofNat))

def encStr (s : String) : String :=
  if s.isEmpty then "~" else ".".intercalate (s.toList.map fun c => toString c.toNat)

def strs? (s : String) : Option (List String) :=
  if s == "-" then some [] else (s.splitOn ",").mapM str?

def ident? (s : String) : Option Ident :=
  if s.startsWith "i" then (s.drop 1).toString.toInt?.map Ident.int
  else if s.startsWith "s" then (str? (s.drop 1).toString).map Ident.str
  else none

def encIdent : Ident → String
  | .int z => "i" ++ toString z
  | .str s => "s" ++ encStr s

def idents? (s : String) : Option (List Ident) :=
  if s == "-" then some [] else (s.splitOn ",").mapM ident?

def wfield? (s : String) : Option WField :=
  if s == "_" then some .absent else if s == "!" then some .text else (rat? s).map .num

def edge? (s : String) : Option EdgeTuple :=
  match s.splitOn "," with
  | [a, b, w] => do pure (← ident? a, ← ident? b, ← wfield? w)
  | _ => none

def edges? (s : String) : Option (List EdgeTuple) :=
  if s == "-" then some [] else (s.splitOn ";").mapM edge?

def flags? (d b w r sd sh mo : String) : Option Flags := do
  let shape ← if sh == "_" then some none else
    match sh.splitOn "," with
    | [x, y] => do pure (some (← x.toNat?, ← y.toNat?))
    | _ => none
  let mo ← if mo == "_" then some none else (bool? mo).map some
  pure { directed := ← bool? d, bipartite := ← bool? b, weighted := ← bool? w, reindex := ← bool? r,
         sumDuplicates := ← bool? sd, shape := shape, matrixOnly := mo }

/-- Python's integer syntax as far as the harness produces it: optional `-`, digits -/
def parseInt (s : String) : Option Int :=
  let cs := s.toList
  let ds := if cs.head? = some '-' then cs.tail else cs
  if ds.isEmpty || !ds.all Char.isDigit then none
  else
    let n := ds.foldl (fun acc c => acc * 10 + (c.toNat - '0'.toNat)) 0
    some (if cs.head? = some '-' then -(n : Int) else (n : Int))

/-- Python's `float(s)` as far as the harness produces it: optional `-`, digits, optional `.digits` -/
def parseNum (s : String) : Option Rat :=
  let cs := s.toList
  let neg := cs.head? = some '-'
  let ds := if neg then cs.tail else cs
  let ip := ds.takeWhile Char.isDigit
  let rest := ds.dropWhile Char.isDigit
  let nat (l : List Char) : Nat := l.foldl (fun acc c => acc * 10 + (c.toNat - '0'.toNat)) 0
  let mk (r : Rat) : Option Rat := some (if neg then -r else r)
  match rest with
  | [] => if ip.isEmpty then none else mk (nat ip : Nat)
  | '.' :: fr =>
    if !fr.all Char.isDigit || (ip.isEmpty && fr.isEmpty) then none
    else mk ((nat ip : Nat) + ((nat fr : Nat) : Rat) / ((10 ^ fr.length : Nat) : Rat))
  | _ => none

/-! ### encoding of results -/

def showDense (m : Coo) : String :=
  if m.nRow = 0 then "-" else
    ";".intercalate ((List.range m.nRow).map fun i =>
      if m.nCol = 0 then "-" else ",".intercalate ((List.range m.nCol).map fun j => showRat (m.entry i j)))

def showNames : Option (List Ident) → String
  | none => "_"
  | some l => if l.isEmpty then "-" else ",".intercalate (l.map encIdent)

def showGraph (g : Graph Ident) : String :=
  if g.matrixOnly then s!"ok m {g.matrix.nRow} {g.matrix.nCol} {showDense g.matrix}"
  else s!"ok g {showBool g.bipartite} {g.matrix.nRow} {g.matrix.nCol} {showDense g.matrix} {showNames g.names} {showNames g.namesRow} {showNames g.namesCol}"

def showRes : Except Ingest.PyErr (Graph Ident) → String
  | .ok g => showGraph g
  | .error e => "err " ++ e.show

def dense? (s : String) : Option (List (List Rat)) :=
  if s == "-" then some [] else (s.splitOn ";").mapM fun r => if r == "-" then some [] else ratList? r

/-! ### the specification evaluated on an output of the implementation -/

/-- identifiers are compared by their printed form (numpy turns a mixed list into strings, and numeric
    strings into numbers) -/
def specCheck (f : Flags) (edges : List EdgeTuple) (nRow nCol : Nat) (dense : List (List Rat))
    (rowIds colIds : List Ident) (named : Bool) : String :=
  let hasW := match edges with
    | (_, _, .absent) :: _ => false
    | [] => false
    | _ => true
  let es : List ((String × String) × Rat) := edges.map fun e =>
    ((e.1.toStr, e.2.1.toStr), if hasW then (match e.2.2 with | .num w => w | _ => 0) else 1)
  let rs := rowIds.map Ident.toStr
  let cs := colIds.map Ident.toStr
  let srcs := es.map (·.1.1)
  let dsts := es.map (·.1.2)
  let allIds := srcs ++ dsts
  let numeric := allIds.all fun s => (parseInt s).isSome
  let shouldName := f.reindex || !numeric
  -- every identifier has an index, no identifier has two
  let okRound :=
    if f.bipartite then srcs.all rs.contains && dsts.all cs.contains else allIds.all rs.contains
  let okInj := rs.eraseDups.length == rs.length && cs.eraseDups.length == cs.length
  -- shape
  let okShape :=
    if shouldName then
      (if f.bipartite then nRow == srcs.eraseDups.length && nCol == dsts.eraseDups.length
       else nRow == allIds.eraseDups.length && nCol == nRow)
    else
      (if f.bipartite then
        nRow == specDim (f.shape.map (·.1)) (srcs.filterMap parseInt) &&
        nCol == specDim (f.shape.map (·.2)) (dsts.filterMap parseInt)
       else nRow == specDim (f.shape.map (·.1)) (allIds.filterMap parseInt) && nCol == nRow)
  let okLen := rs.length == nRow && cs.length == nCol && dense.length == nRow && dense.all (·.length == nCol)
  let okNamed := named == shouldName
  let bad := (List.range nRow).flatMap fun i => (List.range nCol).filterMap fun j =>
    let want := specEntry f es (rs.getD i "") (cs.getD j "")
    if (dense.getD i []).getD j 0 == want then none else some s!"({i},{j}):want={showRat want}"
  if !okLen then "fails lengths"
  else if !okNamed then s!"fails names-present={showBool named}-expected={showBool shouldName}"
  else if !okRound then "fails an-identifier-has-no-index"
  else if !okInj then "fails two-indices-one-identifier"
  else if !okShape then "fails shape"
  else if !bad.isEmpty then "fails entry" ++ ",".intercalate (bad.take 4)
  else "holds"

/-! ### persistence tokens -/

def tag? (s : String) : Option Persist.Tag :=
  if s == "csr" then some .csr else if s == "ndarray" then some .ndarray else if s == "other" then some .other else none

/-- attributes `key:tag:payload` joined by `,` -/
def dataset? (s : String) : Option Persist.Dataset :=
  if s == "-" then some [] else (s.splitOn ",").mapM fun t =>
    match t.splitOn ":" with
    | [k, g, p] => do pure ⟨(← str? k).toList, ← tag? g, ← p.toNat?⟩
    | _ => none

def showFiles (fs : Persist.Folder) : String :=
  if fs.isEmpty then "-" else ",".intercalate (fs.map fun f => s!"{encStr (String.ofList f.name)}:{f.fmt.show}:{f.payload}")

def files? (s : String) : Option Persist.Folder :=
  if s == "-" then some [] else (s.splitOn ",").mapM fun t =>
    match t.splitOn ":" with
    | [k, g, p] => do pure ⟨(← str? k).toList, ← tag? g, ← p.toNat?⟩
    | _ => none

def showDataset (d : Persist.Dataset) : String :=
  if d.isEmpty then "-" else ",".intercalate (d.map fun a => s!"{encStr (String.ofList a.key)}:{a.tag.show}:{a.payload}")

def showAPath (a : Persist.APath) : String := encStr (String.ofList a.render)

def chars? (s : String) : Option (List Char) := (str? s).map String.toList

def charss? (s : String) : Option (List (List Char)) := (strs? s).map (·.map String.toList)

def layout? (s : String) : Option (Option Layout) :=
  if s == "_" then some none else if s == "edge_list" then some (some .edgeList)
  else if s == "adjacency_list" then some (some .adjacencyList)
  else if s == "adjacency_dict" then some (some .adjacencyDict) else none

def optChar? (s : String) : Option (Option Char) :=
  if s == "_" then some none else do
    let t ← str? s
    match t.toList with
    | [c] => some (some c)
    | _ => none

/-! ### GraphML tokens -/

def optStr? (s : String) : Option (Option String) :=
  if s == "_" then some none else (str? s).map some

/-- a child of the graph element: `tag,id,source,target,directed,data` with data = `-` or `key:text` joined by `|` -/
def gchild? (s : String) : Option GraphML.Child :=
  match s.splitOn "," with
  | [tag, id, src, dst, dir, data] => do
    let data ← if data == "-" then some [] else (data.splitOn "|").mapM fun t =>
      match (t.splitOn ":") with
      | [k, v] => do pure (← str? k, ← str? v)
      | _ => none
    pure { tag := ← str? tag, id := ← optStr? id, source := ← optStr? src, target := ← optStr? dst,
           directed := ← optStr? dir, data := data }
  | _ => none

/-- a key element: `id,name,type,for,defaults` with defaults = `-` or texts joined by `|` -/
def gkey? (s : String) : Option GraphML.Key :=
  match s.splitOn "," with
  | [id, name, type, fr, defs] => do
    let defs ← if defs == "-" then some [] else (defs.splitOn "|").mapM str?
    pure { id := ← optStr? id, name := ← optStr? name, type := ← optStr? type, for_ := ← optStr? fr, defaults := defs }
  | _ => none

def gdoc? (hasGraph ed ni keys children : String) : Option GraphML.Doc := do
  let keys ← if keys == "-" then some [] else (keys.splitOn ";").mapM gkey?
  let children ← if children == "-" then some [] else (children.splitOn ";").mapM gchild?
  pure { hasGraph := ← bool? hasGraph, edgedefault := ← optStr? ed, nodeids := ← optStr? ni,
         children := children, keys := keys }

def showStrNames : Option (List String) → String
  | none => "_"
  | some l => if l.isEmpty then "-" else ",".intercalate (l.map encStr)

/-- the specification on a well-formed document (distinct node ids, end points declared, numeric weights):
    names are the node ids in order, entry (i, j) collects the weights of the edges i → j and of the
    undirected edges j → i -/
def graphmlSpec (weightKey : String) (doc : GraphML.Doc) (n : Nat) (dense : List (List Rat))
    (names : Option (List String)) : String :=
  let nodes := doc.children.filter GraphML.isNode
  let edges := doc.children.filter GraphML.isEdge
  let ids := nodes.map fun c => c.id.getD ""
  let canonical := doc.nodeids == some "canonical"
  -- the weight key: the last key named `weight_key` (DTD defaults: name = id, type = string, for = all) not for nodes
  let wkey := (doc.keys.filter fun k => k.name.getD (k.id.getD "") == weightKey && !(k.for_.getD "all" == "node")).getLast?
  let wtype : Option GraphML.PType := wkey.bind fun k => GraphML.ptypeOf (k.type.getD "string")
  let kind : Ingest.Kind := match wkey with
    | some _ => GraphML.kindOf wtype
    | none => .bool
  -- the value of a text of the declared type (GraphML booleans: "true" / "1")
  let value (t : String) : Rat := match wtype with
    | some .bool => if GraphML.trimLower t == "true" || GraphML.trimLower t == "1" then 1 else 0
    | _ => (parseNum t).getD 0
  let dflt : Rat := match wkey with
    | some k => (k.defaults.getLast?.map value).getD 1
    | none => 1
  let wid := wkey.bind (·.id)
  let number (s : Option String) : Nat :=
    if canonical then ((parseInt (String.ofList ((s.getD "").toList.drop 1))).getD 0).toNat
    else Ingest.pos (s.getD "") ids
  let res : List GraphML.REdge := edges.map fun c =>
    let w := match (c.data.filter fun d => some d.1 == wid).getLast? with
      | some d => value d.2
      | none => dflt
    let und := match c.directed with
      | some d => d != "true"
      | none => doc.edgedefault == some "undirected"
    ⟨number c.source, number c.target, w, und⟩
  let okNames := if canonical then names.isNone else names == some ids
  let bad := (List.range n).flatMap fun i => (List.range n).filterMap fun j =>
    let want := GraphML.specEntry kind res i j
    if (dense.getD i []).getD j 0 == want then none else some s!"({i},{j}):want={showRat want}"
  if n != nodes.length then s!"fails nodes={nodes.length}"
  else if !okNames then "fails names"
  else if dense.length != n || !dense.all (·.length == n) then "fails lengths"
  else if !bad.isEmpty then "fails entry" ++ ",".intercalate (bad.take 4)
  else "holds"

def handle : Handler
  | "c18.graphml", [wk, hg, ed, ni, keys, children] => some <| Option.getD (do
      let doc ← gdoc? hg ed ni keys children
      let res := GraphML.fromGraphml parseNum (fun s => (parseInt s).bind fun z => if z < 0 then none else some z.toNat)
        (← str? wk) doc
      match res with
      | .ok r => some s!"ok {r.matrix.nRow} {showDense r.matrix} {showStrNames r.names}"
      | .error e => some ("err " ++ e.show)) "bad-args"
  | "c18.spec_graphml", [wk, hg, ed, ni, keys, children, n, dense, names] => some <| Option.getD (do
      let doc ← gdoc? hg ed ni keys children
      let names ← if names == "_" then some none else (strs? names).map some
      some (graphmlSpec (← str? wk) doc (← n.toNat?) (← dense? dense) names)) "bad-args"
  | "c18.edges", [d, b, w, r, sd, sh, mo, es] => some <| Option.getD (do
      let f ← flags? d b w r sd sh mo
      let es ← edges? es
      some (showRes (fromEdgeList parseInt es f))) "bad-args"
  | "c18.edges_pinned", [d, b, w, r, sd, sh, mo, es] => some <| Option.getD (do
      let f ← flags? d b w r sd sh mo
      let es ← edges? es
      some (showRes (fromEdgeListWith (fun _ => true) parseInt es f))) "bad-args"
  -- adjacency list: rows joined by `;`, a row is `-` or idents joined by `,`
  | "c18.adjlist", [d, b, w, r, sd, sh, mo, rows] => some <| Option.getD (do
      let f ← flags? d b w r sd sh mo
      let rows ← if rows == "-" then some [] else (rows.splitOn ";").mapM idents?
      some (showRes (fromAdjacencyList parseInt rows f))) "bad-args"
  -- adjacency dict: `key:neighbours` joined by `;`
  | "c18.adjdict", [d, b, w, r, sd, sh, mo, rows] => some <| Option.getD (do
      let f ← flags? d b w r sd sh mo
      let rows ← if rows == "-" then some [] else (rows.splitOn ";").mapM fun t =>
        match (t.splitOn ":") with
        | [k, v] => do pure (← ident? k, ← idents? v)
        | _ => none
      some (showRes (fromAdjacencyDict parseInt rows f))) "bad-args"
  | "c18.spec_edges", [d, b, w, r, sd, sh, mo, es, nr, nc, dense, rows, cols, named] => some <| Option.getD (do
      let f ← flags? d b w r sd sh mo
      let es ← edges? es
      some (specCheck f es (← nr.toNat?) (← nc.toNat?) (← dense? dense) (← idents? rows) (← idents? cols)
        (← bool? named))) "bad-args"
  | "c18.scan", [lines, delims, comments] => some <| Option.getD (do
      let lines ← strs? lines
      let delims ← str? delims
      let comments ← str? comments
      let sc := scanHeader lines delims.toList comments.toList
      some s!"ok {sc.headerLength} {encStr (String.singleton sc.delimiter)} {encStr (String.singleton sc.comment)} {sc.layout.show}") "bad-args"
  | "c18.csv", [delim, sep, comments, layout, d, b, w, r, sd, sh, mo, lines] => some <| Option.getD (do
      let f ← flags? d b w r sd sh mo
      let lines ← strs? lines
      let a : CsvArgs := { delimiter := ← optChar? delim, sep := ← optChar? sep,
                           comments := (← str? comments).toList, layout := ← layout? layout }
      some (showRes (fromCsv parseNum lines a f))) "bad-args"
  | "c18.save", [ds] => some <| Option.getD (do
      let ds ← dataset? ds
      let res := Persist.save ([] : Persist.Folder) (Persist.SaveArg.dataset ds)
      match res with
      | .ok fs => some ("ok " ++ showFiles fs)
      | .error e => some ("err " ++ e.show)) "bad-args"
  -- save into a folder that holds the given files (earlier bundles, stray files): what the folder holds afterwards
  | "c18.save_into", [fs, ds] => some <| Option.getD (do
      let fs ← files? fs
      let ds ← dataset? ds
      match Persist.save fs (.dataset ds) with
      | .ok fs' => some ("ok " ++ showFiles fs')
      | .error e => some ("err " ++ e.show)) "bad-args"
  -- save_to_numpy_bundle into a folder that holds files already, then load_from_numpy_bundle (any listing order)
  | "c18.bundle_roundtrip", [fs, ds] => some <| Option.getD (do
      let fs ← files? fs
      let ds ← dataset? ds
      match Persist.saveBundle fs ds with
      | .error e => some ("err " ++ e.show)
      | .ok fs' =>
        match Persist.loadBundle fs' with
        | .ok d => some ("ok " ++ showDataset d)
        | .error e => some ("err " ++ e.show)) "bad-args"
  | "c18.save_matrix", [sq, p] => some <| Option.getD (do
      let sq ← bool? sq
      let p ← p.toNat?
      let res := Persist.save ([] : Persist.Folder) (Persist.SaveArg.matrix sq p)
      match res with
      | .ok fs => some ("ok " ++ showFiles fs)
      | .error e => some ("err " ++ e.show)) "bad-args"
  | "c18.load", [fs] => some <| Option.getD (do
      let fs ← files? fs
      match Persist.loadBundle fs with
      | .ok d => some ("ok " ++ showDataset d)
      | .error e => some ("err " ++ e.show)) "bad-args"
  | "c18.abspath", [cwd, p] => some <| Option.getD (do
      some ("ok " ++ showAPath (Persist.abspath (← chars? cwd) (← chars? p)))) "bad-args"
  | "c18.within", [cwd, dir, target] => some <| Option.getD (do
      some ("ok " ++ showBool (Persist.isWithinDirectory (← chars? cwd) (← chars? dir) (← chars? target)))) "bad-args"
  | "c18.within_pinned", [cwd, dir, target] => some <| Option.getD (do
      some ("ok " ++ showBool (Persist.isWithinDirectoryPinned (← chars? cwd) (← chars? dir) (← chars? target)))) "bad-args"
  | "c18.extract", [cwd, path, members] => some <| Option.getD (do
      let res := Persist.safeExtract (← chars? cwd) (← chars? path) (← charss? members)
      match res with
      | .ok ps => some ("ok " ++ (if ps.isEmpty then "-" else ",".intercalate (ps.map showAPath)))
      | .error e => some ("err " ++ e.show)) "bad-args"
  -- the member check alone (archives with link members: what tarfile then does is its own contract)
  | "c18.extract_check", [cwd, path, members] => some <| Option.getD (do
      let res := Persist.safeExtract (← chars? cwd) (← chars? path) (← charss? members)
      match res with
      | .ok _ => some "ok accepted"
      | .error e => some ("err " ++ e.show)) "bad-args"
  -- spec: every written location (as observed on disk, absolute normalised strings) is inside the folder
  | "c18.spec_inside", [dir, written] => some <| Option.getD (do
      let d := Persist.normAbs (← chars? dir)
      let ws ← charss? written
      let bad := ws.filter fun w => !decide (Persist.Inside d (Persist.normAbs w))
      some (if bad.isEmpty then "holds" else "fails outside=" ++ ",".intercalate (bad.map fun w => encStr (String.ofList w)))) "bad-args"
  | _, _ => none

end SkNet.Drive.C18
