/- Line-protocol handlers for C14 (heat diffusion: Diffusion, Dirichlet). -/
import SkNet.Model.Heat
import SkNet.Spec.Heat

namespace SkNet.Drive.C14
open SkNet SkNet.Proto SkNet.Heat

/-- dense denotation of a CSR matrix (duplicates add up, as scipy does) -/
def denseOf (c : Csr Rat) : Array (Array Rat) := Id.run do
  let mut m : Array (Array Rat) := Array.replicate c.nRow (Array.replicate c.nCol 0)
  for i in [0:c.nRow] do
    for p in c.rowRange i do
      let j := c.indices.getD p 0
      let x := c.data.getD p 0
      m := m.modify i (fun r => r.modify j (· + x))
  return m

def entOf (m : Array (Array Rat)) (i j : Nat) : Rat := (m.getD i #[]).getD j 0

def kv? (s : String) : Option (List (Int × Rat)) :=
  if s == "-" then some [] else (s.splitOn ",").mapM fun t =>
    match t.splitOn "=" with
    | [k, v] => do pure (← k.toInt?, ← rat? v)
    | _ => none

/-- `_` | `a:<rats>` | `l:<rats>` | `d:<k=v,…>` -/
def values? (s : String) : Option Values :=
  if s == "_" then some .none
  else if s.startsWith "a:" then (ratList? (s.drop 2).toString).map .arr
  else if s.startsWith "l:" then (ratList? (s.drop 2).toString).map .list
  else if s.startsWith "d:" then (kv? (s.drop 2).toString).map .dict
  else none

def optRat? (s : String) : Option (Option Rat) :=
  if s == "_" then some none else (rat? s).map some

def optRatList? (s : String) : Option (Option (List Rat)) :=
  if s == "_" then some none else (ratList? s).map some

def algo? (s : String) : Option Algo :=
  if s == "diffusion" then some .diffusion else if s == "dirichlet" then some .dirichlet else none

def seeds? (s : String) : Option HeatSpec.Seeds := do
  let kv ← kv? s
  kv.mapM fun (k, v) => if k < 0 then none else some (k.toNat, v)

def showOpt (l : Option (List Rat)) : String :=
  match l with
  | none => "_"
  | some l => showRatList l

/-- the graph a spec line is about: the matrix itself or its block form -/
def specGraph (n m ip ix dt bip : String) : Option (Nat × (Nat → Nat → Rat)) := do
  let c ← csrRat? n m ip ix dt
  let bip ← bool? bip
  let d := denseOf c
  if bip then some (c.nRow + c.nCol, blockMat c.nRow (entOf d))
  else if c.nRow == c.nCol then some (c.nRow, entOf d) else none

def seedsOk (n : Nat) (s : HeatSpec.Seeds) : Bool :=
  !s.isEmpty && s.all (fun p => decide (p.1 < n) && decide (0 ≤ p.2)) &&
  (s.map (·.1)).eraseDups.length == s.length

def handle : Handler
  | "c14.fit", [al, n, m, ip, ix, dt, nnz, v, vr, vc, ini, fb, k, alpha] => some <| Option.getD (do
      -- `nnz`: number of stored entries of the CSR matrix `check_format` builds from the container the code receives
      let nnz ← nnz.toNat?
      let algo ← algo? al
      let c ← csrRat? n m ip ix dt
      let a : Args := { values := ← values? v, valuesRow := ← values? vr, valuesCol := ← values? vc,
                        init := ← optRat? ini, forceBipartite := ← bool? fb }
      let k ← k.toInt?
      let alpha ← rat? alpha
      let d := denseOf c
      match fit algo c.nRow c.nCol nnz (entOf d) a k alpha with
      | .error e => some ("err " ++ e.show)
      | .ok o => some s!"ok {showRatList o.values} {showOpt o.valuesRow} {showOpt o.valuesCol}") "bad-args"
  -- the property's predicate on an implementation output (block numbering when bipartite)
  | "c14.spec_maxp", [al, n, m, ip, ix, dt, bip, s, ini, alpha, tol, ov, orow, ocol] => some <| Option.getD (do
      let algo ← algo? al
      let (k, w) ← specGraph n m ip ix dt bip
      let s ← seeds? s
      let ini ← optRat? ini
      let alpha ← rat? alpha
      let tol ← rat? tol
      let c0 ← csrRat? n m ip ix dt
      let isBip ← bool? bip
      let ov ← ratList? ov
      let orow ← optRatList? orow
      let ocol ← optRatList? ocol
      -- `values_`, `values_row_`, `values_col_`: the shape of the observable outputs
      let shapeOk := match isBip, orow, ocol with
        | true, some r, some cc => r.length == c0.nRow && cc.length == c0.nCol && ov == r
        | false, none, none => true
        | _, _, _ => false
      if !shapeOk then some "fails output-shape" else
      let out := match orow, ocol with
        | some r, some cc => r ++ cc
        | _, _ => ov
      if !seedsOk k s then some "pre-fails seeds" else
      let lo := (HeatSpec.minList (s.map (·.2))).getD 0
      let hi := (HeatSpec.maxList (s.map (·.2))).getD 0
      let initOk := match ini with
        | none => true
        | some x => decide (lo ≤ x) && decide (x ≤ hi)
      if !initOk then some "pre-fails init" else
      let nonneg := (List.range k).all fun i => (List.range k).all fun j => decide (0 ≤ w i j)
      if !nonneg then some "pre-fails weights" else
      let graphOk := match algo with
        | .diffusion => decide (0 ≤ alpha) && decide (alpha ≤ 1)
        | .dirichlet => (List.range k).all fun i =>
            HeatSpec.isSeed s i || (List.range k).any fun j => decide (0 < w i j)
      if !graphOk then some "pre-fails graph" else
      if out.length != k then some s!"fails length {out.length} /= {k}" else
      let b1 := HeatSpec.maxPrinciple lo hi tol out
      let b2 := match algo with
        | .diffusion => true
        | .dirichlet => HeatSpec.boundaryKept s out
      some (if b1 && b2 then "holds"
            else s!"fails range=[{showRat lo},{showRat hi}] inRange={showBool b1} seedsKept={showBool b2}")) "bad-args"
  -- Dirichlet for a large number of iterations against the harmonic extension
  | "c14.spec_harmonic", [n, m, ip, ix, dt, bip, s, tol, out] => some <| Option.getD (do
      let (k, w) ← specGraph n m ip ix dt bip
      let s ← seeds? s
      let tol ← rat? tol
      let out ← ratList? out
      if !seedsOk k s then some "pre-fails seeds" else
      if !(HeatSpec.nonnegW k w && HeatSpec.allReachSeed k w s) then some "pre-fails graph" else
      match HeatSpec.solveHarmonic k w s with
      | none => some "pre-fails singular"
      | some h =>
        if !HeatSpec.isHarmonicB k w s h then some "pre-fails solver" else
        let d := HeatSpec.supDist out h
        some (if out.length == k && decide (d ≤ tol) then "holds"
              else s!"fails dist={showRat d} harmonic={showRatList h}")) "bad-args"
  -- one more round never moves Dirichlet away from the harmonic extension
  | "c14.spec_nonexp", [n, m, ip, ix, dt, bip, s, tol, out1, out2] => some <| Option.getD (do
      let (k, w) ← specGraph n m ip ix dt bip
      let s ← seeds? s
      let tol ← rat? tol
      let out1 ← ratList? out1
      let out2 ← ratList? out2
      if !seedsOk k s then some "pre-fails seeds" else
      if !(HeatSpec.nonnegW k w && HeatSpec.allReachSeed k w s) then some "pre-fails graph" else
      match HeatSpec.solveHarmonic k w s with
      | none => some "pre-fails singular"
      | some h =>
        if !HeatSpec.isHarmonicB k w s h then some "pre-fails solver" else
        let d1 := HeatSpec.supDist out1 h
        let d2 := HeatSpec.supDist out2 h
        some (if out1.length == k && out2.length == k && decide (d2 ≤ d1 + tol) then "holds"
              else s!"fails dist {showRat d1} -> {showRat d2}")) "bad-args"
  -- `normalize(matrix)` itself: the stored entries (non-zero results, by increasing column) of every row
  | "c14.normalize", [n, m, ip, ix, dt] => some <| Option.getD (do
      let c ← csrRat? n m ip ix dt
      let d := denseOf c
      let rows := (List.range c.nRow).map fun i =>
        ((List.range c.nCol).filter fun j => normalize c.nCol (entOf d) i j != 0).map fun j =>
          (j, normalize c.nCol (entOf d) i j)
      let indptr := rows.foldl (fun acc r => acc ++ [acc.getLast! + r.length]) [0]
      let idx := rows.flatMap fun r => r.map (·.1)
      let dat := rows.flatMap fun r => r.map (·.2)
      some s!"ok {showList indptr} {showList idx} {showRatList dat}") "bad-args"
  -- the clause `normalize_stochastic` on the implementation's own normalised matrix
  | "c14.spec_stochastic", [n, m, ip, ix, dt, tol, qp, qx, qd] => some <| Option.getD (do
      let c ← csrRat? n m ip ix dt
      let q ← csrRat? n m qp qx qd
      let tol ← rat? tol
      let a := denseOf c
      let qq := denseOf q
      let ok := (List.range c.nRow).all fun i =>
        let nullIn := (List.range c.nCol).all fun j => entOf a i j == 0
        let nonnegIn := (List.range c.nCol).all fun j => decide (0 ≤ entOf a i j)
        let l1 := HeatSpec.total c.nCol fun j => HeatSpec.absR (entOf qq i j)
        (if nullIn then (List.range c.nCol).all fun j => entOf qq i j == 0
         else decide (HeatSpec.absR (l1 - 1) ≤ tol)) &&
        (!nonnegIn || (List.range c.nCol).all fun j => decide (0 ≤ entOf qq i j))
      some (if ok then "holds" else "fails not-row-stochastic")) "bad-args"
  -- Dirichlet returns the seeds unchanged: stated for every graph, so evaluated on every Dirichlet output
  | "c14.spec_boundary", [n, m, bip, s, ov, orow, ocol] => some <| Option.getD (do
      let nR ← n.toNat?
      let nC ← m.toNat?
      let isBip ← bool? bip
      let s ← seeds? s
      let ov ← ratList? ov
      let orow ← optRatList? orow
      let ocol ← optRatList? ocol
      let shapeOk := match isBip, orow, ocol with
        | true, some r, some cc => r.length == nR && cc.length == nC && ov == r
        | false, none, none => ov.length == nR
        | _, _, _ => false
      if !shapeOk then some "fails output-shape" else
      let out := match orow, ocol with
        | some r, some cc => r ++ cc
        | _, _ => ov
      some (if HeatSpec.boundaryKept s out then "holds" else "fails seeds-changed")) "bad-args"
  -- what is *returned*: fit_predict(…), predict(), predict(columns=True) against the attributes
  | "c14.spec_returned", [ov, orow, ocol, fp, pr, prc] => some <| Option.getD (do
      let ov ← ratList? ov
      let orow ← optRatList? orow
      let ocol ← optRatList? ocol
      let fp ← ratList? fp
      let pr ← optRatList? pr
      let prc ← optRatList? prc
      let o : Out := ⟨ov, orow, ocol⟩
      some (if fp == o.values && pr == predict o false && prc == predict o true then "holds"
            else "fails returned-values-differ")) "bad-args"
  -- scale invariance on the implementation's own outputs: values(c·A) = values(A) (all weights multiplied by c > 0)
  | "c14.spec_scale", [tol, v1, r1, c1, v2, r2, c2] => some <| Option.getD (do
      let tol ← rat? tol
      let v1 ← ratList? v1
      let r1 ← optRatList? r1
      let c1 ← optRatList? c1
      let v2 ← ratList? v2
      let r2 ← optRatList? r2
      let c2 ← optRatList? c2
      let closeL (a b : List Rat) : Bool := a.length == b.length && decide (HeatSpec.supDist a b ≤ tol)
      let closeO (a b : Option (List Rat)) : Bool := match a, b with
        | none, none => true
        | some x, some y => closeL x y
        | _, _ => false
      some (if closeL v1 v2 && closeO r1 r2 && closeO c1 c2 then "holds" else "fails scaled-graph-differs")) "bad-args"
  -- the same temperatures given as array, list and dict
  | "c14.spec_forms", [o1, o2, o3] =>
      some (if o1 == o2 && o2 == o3 then "holds" else "fails forms-differ")
  | _, _ => none

end SkNet.Drive.C14
