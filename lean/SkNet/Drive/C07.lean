/- Line-protocol handlers for C07: tree → dendrogram, reordering, splitting, the Louvain tree builders, Paris. -/
import SkNet.Model.Hierarchy
import SkNet.Model.Paris
import SkNet.Spec.Hierarchy

namespace SkNet.Drive.C07
open SkNet SkNet.Proto SkNet.Dendro SkNet.Hier SkNet.Paris SkNet.Agg

def ht? (s : String) : Option Ht :=
  if s == "inf" then some .inf else (rat? s).map .fin

def showHt : Ht → String
  | .inf => "inf"
  | .fin q => showRat q

def row? (s : String) : Option (Row Ht) :=
  match s.splitOn "," with
  | [i, j, h, sz] => do pure { i := ← i.toNat?, j := ← j.toNat?, h := ← ht? h, s := ← sz.toNat? }
  | _ => none

def dendro? (s : String) : Option (Dendro Ht) :=
  if s == "-" then some [] else (s.splitOn ";").mapM row?

def showDendro (d : Dendro Ht) : String :=
  if d.isEmpty then "-" else ";".intercalate (d.map fun r => s!"{r.i},{r.j},{showHt r.h},{r.s}")

def showErr (e : PyErr) : String := "err " ++ e.show

def verdict : Except String Unit → String
  | .ok _ => "holds"
  | .error m => "fails " ++ m

/-! nested lists: `[[0],[1],[[2],[3]]]` -/
inductive J
  | num (n : Nat)
  | arr (xs : List J)
deriving Inhabited

partial def parseJ (cs : List Char) : Option (J × List Char) :=
  match cs with
  | '[' :: rest =>
    let rec items (cs : List Char) (acc : List J) : Option (List J × List Char) :=
      match cs with
      | ']' :: r => some (acc.reverse, r)
      | ',' :: r => items r acc
      | _ => match parseJ cs with
        | some (j, r) => items r (j :: acc)
        | none => none
    (items rest []).map fun (xs, r) => (J.arr xs, r)
  | c :: _ =>
    if c.isDigit then
      let ds := cs.takeWhile Char.isDigit
      some (J.num (String.ofList ds).toNat!, cs.dropWhile Char.isDigit)
    else none
  | [] => none

partial def toTree : J → Tree
  | .num k => .leaf k
  | .arr [.num k] => .leaf k
  | .arr xs => .node (xs.map toTree)

def tree? (s : String) : Option Tree :=
  match parseJ s.toList with
  | some (j, []) => some (toTree j)
  | _ => none

partial def showTree : Tree → String
  | .leaf k => s!"[{k}]"
  | .node ts => "[" ++ ",".intercalate (ts.map showTree) ++ "]"

def showIntRows (d : List (Row Int)) : String :=
  if d.isEmpty then "-" else ";".intercalate (d.map fun r => s!"{r.i},{r.j},{r.h},{r.s}")

/-- `nodes>labels|nodes>labels|…` with comma lists -/
def oracle? (s : String) : Option (List (List Nat × List Nat)) :=
  if s == "-" then some [] else (s.splitOn "|").mapM fun e =>
    match e.splitOn ">" with
    | [a, b] => do pure (← natList? a, ← natList? b)
    | _ => none

/-! Paris on doubles given by their bits -/
def fbits? (s : String) : Option Float := s.toNat?.map fun n => Float.ofBits n.toUInt64
def fbitsList? (s : String) : Option (List Float) :=
  if s == "-" then some [] else (s.splitOn ",").mapM fbits?

def csrRows? (s : String) : Option (List (List (Nat × Float))) :=
  (s.splitOn ";").mapM fun r =>
    if r == "-" then some [] else (r.splitOn ",").mapM fun e =>
      match e.splitOn ":" with
      | [j, b] => do pure (← j.toNat?, ← fbits? b)
      | _ => none

def round32 (x : Float) : Float := x.toFloat32.toFloat

def showHF : HInf Float → String
  | .inf => "inf"
  | .fin x => toString x.toBits.toNat

def handle : Handler
  | "c07.get_dendrogram", [t] => some <| Option.getD (do
      let t ← tree? t
      match getDendrogram t with
      | .error e => some (showErr e)
      | .ok d => some ("ok " ++ showIntRows d)) "bad-args"
  | "c07.reorder", [d] => some <| Option.getD (do
      let D ← dendro? d
      match reorderDendrogram D with
      | .error e => some (showErr e)
      | .ok d => some ("ok " ++ showDendro d)) "bad-args"
  | "c07.split", [d, n1, n2] => some <| Option.getD (do
      let D ← dendro? d
      match splitDendrogram D (← n1.toNat?) (← n2.toNat?) with
      | .error e => some (showErr e)
      | .ok (a, b) => some ("ok " ++ showDendro a ++ " " ++ showDendro b)) "bad-args"
  | "c07.louvain_iteration", [n, m, depth, orc] => some <| Option.getD (do
      let n ← n.toNat?
      let mat ← natListList? m
      let depth ← depth.toInt?
      let orc ← oracle? orc
      let hasEdge : List Nat → Bool := fun nodes =>
        nodes.any fun i => nodes.any fun j => (mat.getD i []).getD j 0 != 0
      let oracle : List Nat → List Nat := fun nodes =>
        match orc.find? (fun p => p.1 == nodes) with
        | some p => p.2
        | none => nodes.map fun _ => 0
      some ("ok " ++ showTree (recursiveLouvain hasEdge oracle (n + 1) depth (List.range n)))) "bad-args"
  | "c07.louvain_hierarchy", [n, seq] => some <| Option.getD (do
      let n ← n.toNat?
      let seq ← natListList? seq
      match getHierarchy n seq with
      | none => some "fuel"
      | some t => some ("ok " ++ showTree t)) "bad-args"
  | "c07.tree_pipeline", [t] => some <| Option.getD (do
      -- get_dendrogram, height shift, reorder_dendrogram: what both Louvain hierarchies do with their tree
      let t ← tree? t
      let r : Except PyErr (Dendro Ht) :=
        (treePipeline t).map fun d => d.map fun (r : Row Int) => ({ i := r.i, j := r.j, h := Ht.fin (r.h : Rat), s := r.s } : Row Ht)
      match r with
      | .error e => some (showErr e)
      | .ok d => some ("ok " ++ showDendro d)) "bad-args"
  | "c07.paris", [rows, outW, inW, total, reorder, fuel] => some <| Option.getD (do
      let rows ← csrRows? rows
      let outW ← fbitsList? outW
      let inW ← fbitsList? inW
      let total ← fbits? total
      -- `total_weight` is a C double (repaired code: it was a float and over / underflowed)
      let g : AggGraph Float := AggGraph.init (rows.map fun r => r.map fun p => (p.1, p.2 / total)) outW inW
      match Paris.fit round32 (← fuel.toNat?) g (← bool? reorder) with
      | .error e => some (showErr e)
      | .ok none => some "fuel"
      | .ok (some d) => some ("ok " ++ (if d.isEmpty then "-" else
          ";".intercalate (d.map fun r => s!"{r.i},{r.j},{showHF r.h},{r.s}")))) "bad-args"
  -- spec lines
  | "c07.spec_dendro", [n, d, srt] => some <| Option.getD (do
      let D ← dendro? d
      some (verdict (dendroSpec (← n.toNat?) D (← bool? srt)))) "bad-args"
  | "c07.spec_reorder", [d, r] => some <| Option.getD (do
      let D ← dendro? d
      some (verdict (reorderSpec (D.length + 1) D (← dendro? r)))) "bad-args"
  | "c07.spec_split", [d, n1, n2, r, c, srt] => some <| Option.getD (do
      let D ← dendro? d
      some (verdict (splitSpec D (← n1.toNat?) (← n2.toNat?) (← dendro? r) (← dendro? c) (← bool? srt)))) "bad-args"
  | _, _ => none

end SkNet.Drive.C07
