/- Line-protocol handlers for the GNN models (C19). Floats travel as their IEEE-754 bit patterns (decimal UInt64).
   A matrix is one token: `d:<r>:<c>:<flat bits>` (dense) or `s:<r>:<c>:<indptr>:<indices>:<data bits>` (CSR). -/
import SkNet.Model.Gnn
import SkNet.Spec.Gnn

namespace SkNet.Drive.C19
open SkNet SkNet.Proto SkNet.Gnn

def bits? (s : String) : Option Float := s.toNat?.map fun n => Float.ofBits (UInt64.ofNat n)

def bitsList? (s : String) : Option (List Float) :=
  if s == "-" then some [] else (s.splitOn ",").mapM bits?

def showF (x : Float) : String := toString x.toBits.toNat

def showFs (l : List Float) : String := if l.isEmpty then "-" else ",".intercalate (l.map showF)

def chunk (c : Nat) : Nat → List Float → List (List Float)
  | 0, _ => []
  | r+1, l => l.take c :: chunk c r (l.drop c)

def mat? (s : String) : Option (Mat Float) :=
  match s.splitOn ":" with
  | ["d", r, c, flat] => do
      let r ← r.toNat?
      let c ← c.toNat?
      let fl ← bitsList? flat
      if fl.length ≠ r * c then none else some ⟨r, c, chunk c r fl⟩
  | ["s", r, c, ip, ix, dt] => do
      let r ← r.toNat?
      let c ← c.toNat?
      let ip ← natList? ip
      let ix ← natList? ix
      let dt ← bitsList? dt
      if ip.length ≠ r + 1 ∨ ix.length ≠ dt.length then none
      else some (csrToMat { nRow := r, nCol := c, indptr := ip.toArray, indices := ix.toArray, data := dt.toArray })
  | _ => none

def showMat (M : Mat Float) : String :=
  s!"{M.r}:{M.c}:{showFs ((List.range M.r).flatMap fun i => M.row i)}"

def norm? : String → Option Norm
  | "left" => some .left | "right" => some .right | "both" => some .both | "none" => some .none | _ => none

def act? : String → Option Act
  | "identity" => some .identity | "relu" => some .relu | "sigmoid" => some .sigmoid | "softmax" => some .softmax
  | _ => none

def loss? : String → Option LossKind
  | "ce" => some .crossEntropy | "bce" => some .binaryCrossEntropy | _ => none

def bias? (s : String) : Option (Option (List Float)) :=
  if s == "_" then some none else (bitsList? s).map some

/-- a list of `n` rows; `-` stands for "no entry at all" (`n = 0`, or a single empty row) -/
def rows? (n : Nat) (s : String) : Option (List (List Nat)) :=
  if s == "-" then some (List.replicate n []) else natListList? s

def showErr (e : PyErr) : String := "err " ++ e.show

def showRes (r : Except PyErr (Mat Float)) : String :=
  match r with
  | .ok M => "ok " ++ showMat M
  | .error e => showErr e

def verdict (got want : Mat Float) : String :=
  match Spec.firstDiff got want with
  | none => "holds"
  | some (i, j) => s!"fails at={i},{j} want={want.get i j} got={got.get i j} shape={want.r}x{want.c}"

/-- layers of `c19.gnn`: groups of six tokens `norm self act A W b` -/
def layers? : List String → Option (List (Layer Float × Mat Float))
  | [] => some []
  | n :: s :: a :: A :: W :: b :: rest => do
      let l : Layer Float := { cfg := { norm := ← norm? n, selfEmb := ← bool? s, act := ← act? a },
                               W := ← mat? W, b := ← bias? b }
      let A ← mat? A
      let tl ← layers? rest
      some ((l, A) :: tl)
  | _ => none

def container? : String → Option Container
  | "csr" => some .csrMatrix | "csc" => some .cscMatrix | "coo" => some .cooMatrix | "lil" => some .lilMatrix
  | "ndarray" => some .ndarray | "other" => some .other | _ => none

/-- the stored (column, value) pairs of the rows of a CSR matrix -/
def csrRows (n : Nat) (ip ix : List Nat) (dt : List Float) : List (List (Nat × Float)) :=
  tab n fun i =>
    let lo := ip.getD i 0
    (List.range (ip.getD (i+1) 0 - lo)).map fun p => (ix.getD (lo + p) 0, dt.getD (lo + p) 0)

def insertNat (x : Nat) : List Nat → List Nat
  | [] => [x]
  | y :: ys => if x ≤ y then x :: y :: ys else y :: insertNat x ys

def sortNat (l : List Nat) : List Nat := l.foldr insertNat []

/-- a string token: `''` is the empty string, `~` a blank -/
def unq (t : String) : String := if t == "''" then "" else t.replace "~" " "

def optStr (t : String) : Option String := if t == "_" then none else some (unq t)

def handle : Handler
  | "c19.forward", [k, n, s, a, A, X, W, b] => some <| Option.getD (do
      let cfg : LayerCfg := { norm := ← norm? n, selfEmb := ← bool? s, act := ← act? a }
      some (showRes (forwardIn (← container? k) cfg (← mat? A) (← mat? X) (← mat? W) (← bias? b)))) "bad-args"
  | "c19.check_format", [k] => some <| Option.getD (do
      match checkFormat (← container? k) with
      | .ok _ => some "ok"
      | .error e => some (showErr e)) "bad-args"
  | "c19.check_norms", [names] => some <| Option.getD (do
      match checkNormalizations ((names.splitOn ";").map optStr) with
      | .ok _ => some "ok"
      | .error e => some (showErr e)) "bad-args"
  | "c19.spec_forward", [n, s, a, A, X, W, b, O] => some <| Option.getD (do
      let cfg : LayerCfg := { norm := ← norm? n, selfEmb := ← bool? s, act := ← act? a }
      let A ← mat? A
      let X ← mat? X
      let W ← mat? W
      let b ← bias? b
      let O ← mat? O
      if !Spec.shapesOk cfg.norm A X W b then some "fails shapes-undefined"
      else some (verdict O (Spec.forward cfg A X W b))) "bad-args"
  | "c19.gnn", X :: rest => some <| Option.getD (do
      let ls ← layers? rest
      some (showRes (gnnForward ls (← mat? X)))) "bad-args"
  | "c19.spec_gnn", X :: rest => some <| Option.getD (do
      let O ← mat? (← rest.getLast?)
      let ls ← layers? rest.dropLast
      match Spec.gnnForward ls (← mat? X) with
      | none => some "fails shapes-undefined"
      | some want => some (verdict O want)) "bad-args"
  | "c19.act_out", [a, S] => some <| Option.getD (do
      some ("ok " ++ showMat (actOutput (← act? a) (← mat? S)))) "bad-args"
  | "c19.spec_act_out", [a, S, O] => some <| Option.getD (do
      let a ← act? a
      let S ← mat? S
      let O ← mat? O
      some (verdict O (Mat.mk' S.r S.c fun i k => Spec.actFn a S.c (fun j => S.get i j) k))) "bad-args"
  | "c19.act_grad", [a, S, D] => some <| Option.getD (do
      some (showRes (actGradient (← act? a) (← mat? S) (← mat? D)))) "bad-args"
  | "c19.spec_act_grad", [a, S, D, G] => some <| Option.getD (do
      let S ← mat? S
      some (verdict (← mat? G) (Spec.actGradient (← act? a) S (← mat? D)))) "bad-args"
  | "c19.loss", [k, S, y] => some <| Option.getD (do
      let S ← mat? S
      let y ← natList? y
      let r := match ← loss? k with
        | .crossEntropy => ceLoss S y
        | .binaryCrossEntropy => bceLoss S y
      match r with
      | .ok v => some ("ok " ++ showF v)
      | .error e => some (showErr e)) "bad-args"
  | "c19.spec_loss", [k, S, y, v] => some <| Option.getD (do
      let S ← mat? S
      let y ← natList? y
      let v ← bits? v
      let want := match ← loss? k with
        | .crossEntropy => Spec.ceLoss S y
        | .binaryCrossEntropy => Spec.bceLoss S y
      some (if Spec.closeF v want then "holds" else s!"fails want={want} got={v}")) "bad-args"
  | "c19.loss_grad", [k, S, y] => some <| Option.getD (do
      let S ← mat? S
      let y ← natList? y
      some (showRes (match ← loss? k with
        | .crossEntropy => ceLossGradient S y
        | .binaryCrossEntropy => bceLossGradient S y))) "bad-args"
  | "c19.loss_grad_pinned", [S, y] => some <| Option.getD (do
      some (showRes (bceLossGradientPinned (← mat? S) (← natList? y)))) "bad-args"
  | "c19.spec_loss_grad", [k, S, y, G] => some <| Option.getD (do
      let S ← mat? S
      let y ← natList? y
      let G ← mat? G
      some (verdict G (match ← loss? k with
        | .crossEntropy => Spec.ceGradient S y
        | .binaryCrossEntropy => Spec.bceGradient S y))) "bad-args"
  | "c19.predict", [O] => some <| Option.getD (do
      let O ← mat? O
      match computePredictions O with
      | .ok l => some s!"ok {showList l}"
      | .error e => some (showErr e)) "bad-args"
  | "c19.spec_predict", [O, l] => some <| Option.getD (do
      let O ← mat? O
      let l ← natList? l
      if l.length ≠ O.r then some "fails length"
      else
        match (List.range O.r).find? fun i => !Spec.predictionOk O.c (fun k => O.get i k) (l.getD i 0) with
        | none => some "holds"
        | some i => some s!"fails row={i}") "bad-args"
  | "c19.proba", [k, O] => some <| Option.getD (do
      some ("ok " ++ showMat (predictProba (← loss? k) (← mat? O)))) "bad-args"
  | "c19.spec_proba", [n, cols, P, l] => some <| Option.getD (do
      let n ← n.toNat?
      let cols ← cols.toNat?
      let P ← mat? P
      let l ← natList? l
      if !Spec.probaOk n cols P then some "fails not-a-distribution"
      else
        -- the predicted label is a most probable one
        match (List.range n).find? fun i => (List.range cols).any fun k => P.get i (l.getD i 0) + 1e-9 < P.get i k with
        | none => some "holds"
        | some i => some s!"fails label-not-most-probable row={i}") "bad-args"
  | "c19.resolve", [layer, activation, loss, normalization, se, c] => some <| Option.getD (do
      match resolveLayer (unq layer) (unq activation) (optStr loss) (optStr normalization) (← bool? se) (← c.toNat?) with
      | .error e => some (showErr e)
      | .ok (cfg, k) =>
        let ns := match cfg.norm with | .left => "left" | .right => "right" | .both => "both" | .none => "none"
        let as := match cfg.act with | .identity => "identity" | .relu => "relu" | .sigmoid => "sigmoid" | .softmax => "softmax"
        let ks := match k with | none => "_" | some .crossEntropy => "ce" | some .binaryCrossEntropy => "bce"
        some s!"ok {ns} {showBool cfg.selfEmb} {as} {ks}") "bad-args"
  | "c19.check_output", [c, y] => some <| Option.getD (do
      match checkOutput (← c.toNat?) (← natList? y) with
      | .ok _ => some "ok"
      | .error e => some (showErr e)) "bad-args"
  | "c19.sample", [n, m, ip, ix, dt, ch] => some <| Option.getD (do
      let n ← n.toNat?
      let rows := csrRows n (← natList? ip) (← natList? ix) (← bitsList? dt)
      some ("ok " ++ showListList (sampleRows (← m.toNat?) rows (← rows? n ch)))) "bad-args"
  | "c19.contract_choice", [n, degs, k, ch] => some <| Option.getD (do
      let n ← n.toNat?
      let degs ← natList? degs
      let k ← k.toNat?
      let ch ← rows? n ch
      let ok := ch.length == n && degs.length == n && (List.range n).all fun i => choiceOk (degs.getD i 0) k (ch.getD i [])
      some (if ok then "holds" else "fails")) "bad-args"
  -- a sampled row (sorted) is a sublist of the neighbours of the node (columns with a non-zero entry of the matrix the
  -- container denotes, duplicates summed), of size min(#neighbours, k)
  | "c19.spec_sample", [n, m, ip, ix, dt, k, rows] => some <| Option.getD (do
      let n ← n.toNat?
      let m ← m.toNat?
      let orig := csrRows n (← natList? ip) (← natList? ix) (← bitsList? dt)
      let k ← k.toNat?
      let rows ← rows? n rows
      let ok := rows.length == n && (List.range n).all fun i =>
        Spec.sampleRowOk (neighbours m (orig.getD i [])) (sortNat (rows.getD i [])) k
      some (if ok then "holds" else "fails")) "bad-args"
  | "c19.is_sage", [t] => some (showBool (isSageType (unq t)))
  | _, _ => none

end SkNet.Drive.C19
