/-
C11 helper lemmas: the sorted-merge loop of `count_local_triangles_from_dag` counts the intersection of the two
out-lists, and `count_local_triangles_from_dag` is the sum of these intersections over the out-list of the node.
-/
import SkNet.Lemmas.TopologyCsr

set_option linter.unusedSimpArgs false

namespace SkNet.Topology

/-- the merge loop on the two slices as lists -/
def mergeL : List Nat → List Nat → Nat
  | [], _ => 0
  | _, [] => 0
  | a :: as, b :: bs =>
    if a = b then mergeL as bs + 1
    else if a < b then mergeL as (b :: bs)
    else mergeL (a :: as) bs
termination_by l₁ l₂ => l₁.length + l₂.length

/-- on strictly increasing lists the merge counts the common elements -/
theorem mergeL_eq (l₁ l₂ : List Nat) (h₁ : l₁.Pairwise (· < ·)) (h₂ : l₂.Pairwise (· < ·)) :
    mergeL l₁ l₂ = (l₁.filter (· ∈ l₂)).length := by
  induction l₁, l₂ using mergeL.induct with
  | case1 l => simp [mergeL]
  | case2 l hl =>
    have : (l.filter fun x => decide (x ∈ ([] : List Nat))) = [] := by
      rw [List.filter_eq_nil_iff]; intro x _; simp
    cases l with
    | nil => simp [mergeL]
    | cons a as => rw [this]; simp [mergeL]
  | case3 as a bs ih =>
    rw [mergeL]; simp only [if_true]
    rw [List.pairwise_cons] at h₁ h₂
    rw [ih h₁.2 h₂.2]
    simp only [List.filter_cons, List.mem_cons, true_or, decide_true, if_true, List.length_cons]
    congr 1
    congr 1
    apply List.filter_congr
    intro x hx
    have : x ≠ a := fun h => by have := h₁.1 x hx; omega
    simp [this]
  | case4 a as b bs hab hlt ih =>
    rw [mergeL]; simp only [hab, if_false, hlt, if_true]
    rw [List.pairwise_cons] at h₁
    rw [ih h₁.2 h₂]
    have hna : a ∉ b :: bs := by
      intro hm
      rw [List.pairwise_cons] at h₂
      rcases List.mem_cons.1 hm with h | h
      · exact hab h
      · have := h₂.1 a h; omega
    have hna' : ¬ (a = b ∨ a ∈ bs) := by simpa using hna
    simp [List.filter_cons, hna']
  | case5 a as b bs hab hlt ih =>
    rw [mergeL]; simp only [hab, if_false, hlt]
    rw [List.pairwise_cons] at h₂
    rw [ih h₁ h₂.2]
    have hgt : b < a := by omega
    apply congrArg
    apply List.filter_congr
    intro x hx
    have hxb : x ≠ b := by
      intro h
      rw [List.pairwise_cons] at h₁
      rcases List.mem_cons.1 hx with h' | h'
      · omega
      · have := h₁.1 x h'; omega
    simp [hxb]

/-- the index loop is the list merge of the two slices it walks over -/
theorem mergeLoop_eq (indices : List Nat) (iEnd jEnd i j acc : Nat) :
    mergeLoop indices iEnd jEnd i j acc = acc + mergeL (sliceOf indices i iEnd) (sliceOf indices j jEnd) := by
  fun_induction mergeLoop indices iEnd jEnd i j acc with
  | case1 i j acc hc heq ih =>
    rw [ih, sliceOf_cons hc.1, sliceOf_cons hc.2, mergeL]
    simp only [heq, if_true]; omega
  | case2 i j acc hc hne hlt ih =>
    rw [ih, sliceOf_cons hc.1, sliceOf_cons hc.2, mergeL]
    simp only [hne, if_false, hlt, if_true]
  | case3 i j acc hc hne hlt ih =>
    rw [ih, sliceOf_cons hc.1, sliceOf_cons hc.2, mergeL]
    simp only [hne, if_false, hlt]
  | case4 i j acc hc =>
    by_cases h1 : i < iEnd
    · have h2 : jEnd ≤ j := by omega
      rw [sliceOf_empty h2]
      cases sliceOf indices i iEnd <;> simp [mergeL]
    · rw [sliceOf_empty (by omega)]; simp [mergeL]

/-- the loop only looks at cells `i' ∈ [i, iEnd)` and `j' ∈ [j, jEnd)`: its value depends on `indices` only
    through the two slices (this is the "never reads outside `[indptr v, indptr (v+1))`" clause) -/
theorem mergeLoop_reads_slices (ix ix' : List Nat) (iEnd jEnd i j acc : Nat)
    (h1 : sliceOf ix i iEnd = sliceOf ix' i iEnd) (h2 : sliceOf ix j jEnd = sliceOf ix' j jEnd) :
    mergeLoop ix iEnd jEnd i j acc = mergeLoop ix' iEnd jEnd i j acc := by
  rw [mergeLoop_eq, mergeLoop_eq, h1, h2]

theorem foldl_add_eq_sum (l : List Nat) (f : Nat → Nat) (a : Nat) :
    l.foldl (fun acc k => acc + f k) a = a + (l.map f).sum := by
  induction l generalizing a with
  | nil => simp
  | cons x xs ih => rw [List.foldl_cons, ih]; simp; omega

/-- `count_local_triangles_from_dag` on a CSR structure: sum over the out-list of `node` of the merges -/
theorem countLocal_eq (d : Dag) (node : Nat) :
    countLocal d.indptr d.indices node =
      ((d.row node).map fun v => mergeL (d.row node) (d.row v)).sum := by
  unfold countLocal
  have : ∀ (l : List Nat) (a : Nat),
      l.foldl (fun acc k =>
        mergeLoop d.indices (d.indptr.getD (node+1) 0) (d.indptr.getD (d.indices.getD k 0 + 1) 0)
          (d.indptr.getD node 0) (d.indptr.getD (d.indices.getD k 0) 0) acc) a
      = a + (l.map fun k => mergeL (d.row node) (d.row (d.indices.getD k 0))).sum := by
    intro l
    induction l with
    | nil => simp
    | cons x xs ih =>
      intro a
      rw [List.foldl_cons, ih, mergeLoop_eq]
      simp [Dag.row]; omega
  rw [this, Nat.zero_add]
  conv => rhs; rw [Dag.row, sliceOf, List.map_map]
  rfl

end SkNet.Topology

namespace SkNet.Topology

/-! ### the merge loop with checked reads -/

/-- the same loop, every read of `indices` checked: `none` = a read outside the array -/
def mergeLoopChecked (indices : List Nat) (iEnd jEnd : Nat) (i j acc : Nat) : Option Nat :=
  if i < iEnd ∧ j < jEnd then
    match indices[i]?, indices[j]? with
    | some a, some b =>
      if a = b then mergeLoopChecked indices iEnd jEnd (i+1) (j+1) (acc+1)
      else if a < b then mergeLoopChecked indices iEnd jEnd (i+1) j acc
      else mergeLoopChecked indices iEnd jEnd i (j+1) acc
    | _, _ => none
  else some acc
termination_by (iEnd - i) + (jEnd - j)

/-- if both windows end inside the array, no read is out of bounds and the checked loop is the loop -/
theorem mergeLoopChecked_eq (indices : List Nat) (iEnd jEnd i j acc : Nat)
    (h1 : iEnd ≤ indices.length) (h2 : jEnd ≤ indices.length) :
    mergeLoopChecked indices iEnd jEnd i j acc = some (mergeLoop indices iEnd jEnd i j acc) := by
  fun_induction mergeLoop indices iEnd jEnd i j acc with
  | case1 i j acc hc heq ih =>
    rw [mergeLoopChecked, if_pos hc, List.getElem?_eq_getElem (by omega), List.getElem?_eq_getElem (by omega)]
    simp only
    rw [List.getD_eq_getElem?_getD, List.getD_eq_getElem?_getD, List.getElem?_eq_getElem (by omega),
      List.getElem?_eq_getElem (by omega)] at heq
    simp only [Option.getD_some] at heq
    rw [if_pos heq, ih]
  | case2 i j acc hc hne hlt ih =>
    rw [mergeLoopChecked, if_pos hc, List.getElem?_eq_getElem (by omega), List.getElem?_eq_getElem (by omega)]
    simp only
    rw [List.getD_eq_getElem?_getD, List.getD_eq_getElem?_getD, List.getElem?_eq_getElem (by omega),
      List.getElem?_eq_getElem (by omega)] at hne hlt
    simp only [Option.getD_some] at hne hlt
    rw [if_neg hne, if_pos hlt, ih]
  | case3 i j acc hc hne hlt ih =>
    rw [mergeLoopChecked, if_pos hc, List.getElem?_eq_getElem (by omega), List.getElem?_eq_getElem (by omega)]
    simp only
    rw [List.getD_eq_getElem?_getD, List.getD_eq_getElem?_getD, List.getElem?_eq_getElem (by omega),
      List.getElem?_eq_getElem (by omega)] at hne hlt
    simp only [Option.getD_some] at hne hlt
    rw [if_neg hne, if_neg hlt, ih]
  | case4 i j acc hc =>
    rw [mergeLoopChecked, if_neg hc]

end SkNet.Topology
