/-
`reindex_labels` relabels by non-increasing size, for any sorting permutation `argsort` may return (C05).
-/
import SkNet.Lemmas.ClusteringUnique

namespace SkNet.Clustering

/-! ### generic facts on label vectors -/

theorem nLabels_of_contiguous {l : List Nat} {k : Nat} (h : Contiguous l k) : nLabels l = k := by
  unfold nLabels
  cases hm : l.max? with
  | none =>
    have : l = [] := List.max?_eq_none_iff.mp hm
    subst this
    cases k with
    | zero => rfl
    | succ k => exact absurd (h.2 0 (by omega)) (by simp)
  | some m =>
    have hm' := List.max?_eq_some_iff.mp hm
    have h1 : m < k := h.1 m hm'.1
    have h2 : k - 1 ≤ m := hm'.2 (k - 1) (h.2 (k - 1) (by omega))
    simp only; omega

theorem count_map_of_injOn {l : List Nat} {g : Nat → Nat} {c : Nat}
    (h : ∀ x ∈ l, g x = g c → x = c) : (l.map g).count (g c) = l.count c := by
  rw [List.count_eq_countP, List.countP_map, List.count_eq_countP]
  apply List.countP_congr
  intro x hx
  simp only [Function.comp, beq_iff_eq]
  exact ⟨h x hx, fun e => by rw [e]⟩

theorem idxOf_map_of_injective {α β : Type} [DecidableEq α] [DecidableEq β] {f : α → β}
    (hf : Function.Injective f) (l : List α) (a : α) : (l.map f).idxOf (f a) = l.idxOf a := by
  induction l with
  | nil => simp
  | cons x xs ih =>
    simp only [List.map_cons, List.idxOf_cons]
    by_cases hx : x = a
    · subst hx; simp
    · have : f x ≠ f a := fun e => hx (hf e)
      rw [show (f x == f a) = false from by simpa using this, show (x == a) = false from by simpa using hx, ih]

theorem ValidK.nLabels {l : List Nat} {k : Nat} {s : Bool} (h : ValidK l k s) : nLabels l = k :=
  nLabels_of_contiguous h.1

theorem validClustering_of_validK {n : Nat} {l : List Nat} {k : Nat} {s : Bool}
    (hn : l.length = n) (h : ValidK l k s) : ValidClustering n l s := by
  have hk := h.nLabels
  exact ⟨hn, hk ▸ h.1, fun hs => hk ▸ h.2 hs⟩

/-- validity only depends on the multiset of labels -/
theorem ValidK.of_perm {l l' : List Nat} {k : Nat} {s : Bool} (h : ValidK l k s) (hp : l.Perm l') :
    ValidK l' k s := by
  refine ⟨⟨fun x hx => h.1.1 x (hp.mem_iff.mpr hx), fun c hc => hp.mem_iff.mp (h.1.2 c hc)⟩, ?_⟩
  intro hs c hc
  rw [← hp.count_eq, ← hp.count_eq]
  exact h.2 hs c hc

/-! ### `uniqueIndex` of a permutation is its inverse -/

theorem pairwise_lt_range_ofNat (k : Nat) : ((List.range k).map Int.ofNat).Pairwise (· < ·) := by
  rw [List.pairwise_map]
  exact (List.pairwise_lt_range (n := k)).imp (fun h => by simpa using h)

theorem uniqueIndex_of_perm {p : List Nat} {k : Nat} (hp : p.Perm (List.range k)) :
    uniqueIndex p = (List.range k).map fun c => p.idxOf c := by
  unfold uniqueIndex
  have hu : unique (p.map Int.ofNat) = (List.range k).map Int.ofNat := by
    rw [← unique_of_pairwise (pairwise_lt_range_ofNat k)]
    apply unique_eq_of_mem_iff
    intro x
    exact (hp.map Int.ofNat).mem_iff
  simp only [hu, List.map_map]
  apply List.map_congr_left
  intro c _
  exact idxOf_map_of_injective (fun a b h => Int.ofNat.inj h) p c

/-! ### `reindex_labels` -/

/-- the key handed to `np.argsort` by `reindex_labels` -/
def sizeKey (l : List Int) : List Int := (counts l).map fun (c : Nat) => -(c : Int)

theorem sizeKey_length (l : List Int) : (sizeKey l).length = (unique l).length := by
  simp [sizeKey, counts]

theorem reindex_eq (argsort : List Int → List Nat) (l : List Int)
    (h : IsArgsort (sizeKey l) (argsort (sizeKey l))) :
    reindexLabels argsort l = (inverse l).map fun c => (argsort (sizeKey l)).idxOf c := by
  have hp := h.1
  rw [sizeKey_length] at hp
  unfold reindexLabels
  simp only
  rw [show ((counts l).map fun (c : Nat) => -(c : Int)) = sizeKey l from rfl, uniqueIndex_of_perm hp]
  apply List.map_congr_left
  intro c hc
  have hc' := inverse_lt hc
  simp [List.getD_eq_getElem?_getD, hc']

section
variable {argsort : List Int → List Nat} {l : List Int}

theorem perm_idxOf_lt {p : List Nat} {k c : Nat} (hp : p.Perm (List.range k)) (hc : c < k) :
    p.idxOf c < k := by
  have : c ∈ p := hp.mem_iff.mpr (List.mem_range.mpr hc)
  have := List.idxOf_lt_length_iff.mpr this
  rwa [hp.length_eq, List.length_range] at this

theorem perm_getElem_lt {p : List Nat} {k t : Nat} (hp : p.Perm (List.range k)) (ht : t < p.length) :
    p[t] < k := List.mem_range.mp (hp.mem_iff.mp (List.getElem_mem ht))

/-- `reindex_labels` keeps the partition -/
theorem reindex_samePartition (h : IsArgsort (sizeKey l) (argsort (sizeKey l))) :
    SamePartition l (reindexLabels argsort l) := by
  have hp := h.1
  rw [sizeKey_length] at hp
  rw [reindex_eq argsort l h]
  obtain ⟨hlen, hsame⟩ := inverse_samePartition l
  refine ⟨by simp [inverse_length], ?_⟩
  intro i hi j hj
  rw [hsame i hi j hj]
  have hi' : i < (inverse l).length := by rw [inverse_length]; exact hi
  have hj' : j < (inverse l).length := by rw [inverse_length]; exact hj
  simp only [List.getElem?_map, List.getElem?_eq_getElem hi', List.getElem?_eq_getElem hj', Option.map_some,
    Option.some.injEq]
  have hmem : (inverse l)[i] ∈ argsort (sizeKey l) :=
    hp.mem_iff.mpr (List.mem_range.mpr (inverse_lt (List.getElem_mem hi')))
  exact (List.idxOf_inj hmem).symm

/-- `reindex_labels` returns exactly the labels `0..k-1` -/
theorem reindex_contiguous' (h : IsArgsort (sizeKey l) (argsort (sizeKey l))) :
    Contiguous (reindexLabels argsort l) (unique l).length := by
  have hp := h.1
  rw [sizeKey_length] at hp
  rw [reindex_eq argsort l h]
  constructor
  · intro x hx
    obtain ⟨c, hc, rfl⟩ := List.mem_map.mp hx
    exact perm_idxOf_lt hp (inverse_lt hc)
  · intro t ht
    have htp : t < (argsort (sizeKey l)).length := by rw [hp.length_eq, List.length_range]; exact ht
    refine List.mem_map.mpr ⟨(argsort (sizeKey l))[t], mem_inverse (perm_getElem_lt hp htp), ?_⟩
    exact (hp.nodup_iff.mpr List.nodup_range).idxOf_getElem t htp

/-- the size of new cluster `t` is the size of the old cluster ranked `t` by `argsort` -/
theorem reindex_count (h : IsArgsort (sizeKey l) (argsort (sizeKey l))) {t : Nat}
    (ht : t < (unique l).length) :
    (reindexLabels argsort l).count t =
      (counts l).getD ((argsort (sizeKey l)).getD t 0) 0 := by
  have hp := h.1
  rw [sizeKey_length] at hp
  have htp : t < (argsort (sizeKey l)).length := by rw [hp.length_eq, List.length_range]; exact ht
  have hnd := hp.nodup_iff.mpr List.nodup_range
  have hlt := perm_getElem_lt hp htp
  rw [reindex_eq argsort l h]
  have e : t = (argsort (sizeKey l)).idxOf (argsort (sizeKey l))[t] := (hnd.idxOf_getElem t htp).symm
  conv_lhs => rw [e]
  have e1 : (argsort (sizeKey l)).getD t 0 = (argsort (sizeKey l))[t] := by
    rw [List.getD_eq_getElem?_getD, List.getElem?_eq_getElem htp, Option.getD_some]
  rw [count_map_of_injOn (g := fun c => (argsort (sizeKey l)).idxOf c) (c := (argsort (sizeKey l))[t]),
    e1, counts_getD hlt]
  intro x hx hxe
  have hxm : x ∈ argsort (sizeKey l) := hp.mem_iff.mpr (List.mem_range.mpr (inverse_lt hx))
  exact (List.idxOf_inj hxm).mp hxe

/-- cluster sizes are non-increasing in the new label -/
theorem reindex_sizes (h : IsArgsort (sizeKey l) (argsort (sizeKey l))) :
    SizesNonInc (reindexLabels argsort l) (unique l).length := by
  intro t ht
  have hp := h.1
  rw [sizeKey_length] at hp
  have hlen : (argsort (sizeKey l)).length = (unique l).length := by rw [hp.length_eq, List.length_range]
  rw [reindex_count h ht, reindex_count h (by omega : t < (unique l).length)]
  have hs := h.2
  rw [List.pairwise_iff_getElem] at hs
  have := hs t (t + 1) (by simp [hlen]; omega) (by simp [hlen]; omega) (by omega)
  simp only [List.getElem_map] at this
  have h1 : t < (argsort (sizeKey l)).length := by omega
  have h2 : t + 1 < (argsort (sizeKey l)).length := by omega
  have l1 := perm_getElem_lt hp h1
  have l2 := perm_getElem_lt hp h2
  have hk : ∀ c, c < (unique l).length → (sizeKey l).getD c 0 = -(((counts l).getD c 0 : Nat) : Int) := by
    intro c hc
    have : c < (counts l).length := by rw [counts_length]; exact hc
    simp [sizeKey, List.getD_eq_getElem?_getD, this]
  rw [hk _ l1, hk _ l2] at this
  have e1 : (argsort (sizeKey l)).getD t 0 = (argsort (sizeKey l))[t] := by
    rw [List.getD_eq_getElem?_getD, List.getElem?_eq_getElem h1, Option.getD_some]
  have e2 : (argsort (sizeKey l)).getD (t + 1) 0 = (argsort (sizeKey l))[t + 1] := by
    rw [List.getD_eq_getElem?_getD, List.getElem?_eq_getElem h2, Option.getD_some]
  rw [e1, e2]
  omega

theorem reindex_validK (h : IsArgsort (sizeKey l) (argsort (sizeKey l))) :
    ValidK (reindexLabels argsort l) (unique l).length true :=
  ⟨reindex_contiguous' h, fun _ => reindex_sizes h⟩

theorem reindex_length : (reindexLabels argsort l).length = l.length := by
  simp [reindexLabels, inverse_length]

end

end SkNet.Clustering
