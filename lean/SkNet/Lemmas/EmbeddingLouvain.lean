/-
C09, LouvainEmbedding: `normalize(A).dot(membership)` entry by entry is the share of the (absolute) weight of node `i`
that goes to cluster `c`.
-/
import SkNet.Lemmas.Embedding

set_option linter.unusedSectionVars false

open Finset

namespace SkNet.Embedding

variable {α : Type} [Field α] [LinearOrder α] [IsStrictOrderedRing α]

/-- **`louvainEmbedding_closed_form`** -/
theorem louvainProject_entry (n m : Nat) (a : Mat α) (labels : List Int) (i c : Nat) (hi : i < n)
    (hc : c < membershipCols labels) :
    mget (louvainProject n m a labels) i c = Spec.louvainEntry m a labels i c := by
  unfold louvainProject Spec.louvainEntry
  simp only [mget_mkMat, hi, hc, if_true]
  unfold normalize1
  simp +contextual only [mget_mkMat, vget_tab, hi, if_true, mul_one, norm1]
  simp only [sumN_eq_sum]
  generalize (∑ j ∈ range m, absv (mget a i j)) = tot
  by_cases ht : tot = 0
  · simp [ht, pinv_zero]
  · simp only [beq_iff_eq, ht, if_false, pinv_of_ne ht]
    rw [Finset.sum_div]
    refine Finset.sum_congr rfl fun j _ => ?_
    split <;> simp [div_eq_mul_inv, mul_comm]

/-- `reindex_labels` never fails without secondary labels -/
theorem reindexLabels_none (labels : List Nat) (which : Isolated) :
    ∃ prim, reindexLabels labels none which = .ok (prim, none) ∧ prim.length = labels.length := by
  refine ⟨_, rfl, ?_⟩
  simp

/-- **LouvainEmbedding at fit level**: whatever labels Louvain returned, a successful `fit` gives
    `embedding_[i][c]` = share of the weight of row `i` carried by the columns whose (re-indexed) label `labels_` is `c`. -/
theorem louvainEmbFit_entry (nRow nCol : Nat) (a : Mat α) (ln lr lc : List Nat) (which : Isolated)
    {out : LouvainEmbOut α} (h : louvainEmbFit nRow nCol a ln lr lc which = .ok out)
    (i c : Nat) (hi : i < nRow) (hc : c < membershipCols out.labels) :
    mget out.embedding i c = Spec.louvainEntry nCol a out.labels i c := by
  unfold louvainEmbFit at h
  by_cases hsq : (nRow == nCol) = true
  · simp only [hsq, if_true, reindexLabels, bind, Except.bind, pure, Except.pure] at h
    have := Except.ok.inj h
    rw [← this] at hc ⊢
    exact louvainProject_entry nRow nCol a _ i c hi hc
  · simp only [hsq, if_false, Bool.false_eq_true, reindexLabels, bind, Except.bind, pure, Except.pure] at h
    split at h
    · cases h
    · have := Except.ok.inj h
      rw [← this] at hc ⊢
      exact louvainProject_entry nRow nCol a _ i c hi hc

end SkNet.Embedding
