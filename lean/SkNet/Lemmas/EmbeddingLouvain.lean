/-
C09, LouvainEmbedding: `normalize(A).dot(membership)` entry by entry is the share of the (absolute) weight of node `i`
that goes to cluster `c`.
-/
import SkNet.Lemmas.Embedding

set_option linter.unusedSectionVars false

open Finset

namespace SkNet.Embedding

variable {α : Type} [Field α] [LinearOrder α] [IsStrictOrderedRing α]

/-- **`louvainEmbedding_closed_form`** -/
theorem louvainProject_entry (n m : Nat) (a : Mat α) (labels : List Int) (i c : Nat) (hi : i < n)
    (hc : c < membershipCols labels) :
    mget (louvainProject n m a labels) i c = Spec.louvainEntry m a labels i c := by
  unfold louvainProject Spec.louvainEntry
  simp only [mget_mkMat, hi, hc, if_true]
  unfold normalize1
  simp +contextual only [mget_mkMat, vget_tab, hi, if_true, mul_one, norm1]
  simp only [sumN_eq_sum]
  generalize (∑ j ∈ range m, absv (mget a i j)) = tot
  by_cases ht : tot = 0
  · simp [ht, pinv_zero]
  · simp only [beq_iff_eq, ht, if_false, pinv_of_ne ht]
    rw [Finset.sum_div]
    refine Finset.sum_congr rfl fun j _ => ?_
    split <;> simp [div_eq_mul_inv, mul_comm]

end SkNet.Embedding
