/-
C09, LouvainEmbedding: `normalize(A).dot(membership)` entry by entry is the share of the (absolute) weight of node `i`
that goes to cluster `c`.
-/
import SkNet.Lemmas.Embedding

set_option linter.unusedSectionVars false

open Finset

namespace SkNet.Embedding

variable {α : Type} [Field α] [LinearOrder α] [IsStrictOrderedRing α]

/-- **`louvainEmbedding_closed_form`** -/
theorem louvainProject_entry (n m : Nat) (a : Mat α) (labels : List Int) (i c : Nat) (hi : i < n)
    (hc : c < membershipCols labels) :
    mget (louvainProject n m a labels) i c = Spec.louvainEntry m a labels i c := by
  unfold louvainProject Spec.louvainEntry
  simp only [mget_mkMat, hi, hc, if_true]
  unfold normalize1
  simp +contextual only [mget_mkMat, vget_tab, hi, if_true, mul_one, norm1]
  simp only [sumN_eq_sum]
  generalize (∑ j ∈ range m, absv (mget a i j)) = tot
  by_cases ht : tot = 0
  · simp [ht, pinv_zero]
  · simp only [beq_iff_eq, ht, if_false, pinv_of_ne ht]
    rw [Finset.sum_div]
    refine Finset.sum_congr rfl fun j _ => ?_
    split <;> simp [div_eq_mul_inv, mul_comm]

/-! ### `reindex_labels` -/

theorem le_foldl_max (l : List Nat) (init x : Nat) (hx : x ∈ l) : x ≤ l.foldl max init := by
  induction l generalizing init with
  | nil => cases hx
  | cons a t ih =>
    simp only [List.foldl_cons]
    rcases List.mem_cons.mp hx with h | h
    · subst h
      have : ∀ (t : List Nat) (i : Nat), i ≤ t.foldl max i := by
        intro t
        induction t with
        | nil => intro i; exact Nat.le_refl _
        | cons b t iht => intro i; simp only [List.foldl_cons]; exact Nat.le_trans (Nat.le_max_left i b) (iht _)
      exact Nat.le_trans (Nat.le_max_right init x) (this t _)
    · exact ih _ h

/-- number of nodes carrying label `l` -/
def labelCount (labels : List Nat) (l : Nat) : Nat := (labels.filter (· == l)).length

theorem mem_labelsKeep (labels : List Nat) (l : Nat) : l ∈ labelsKeep labels ↔ 1 < labelCount labels l := by
  unfold labelsKeep labelCount
  simp only [List.mem_filter, List.mem_range, decide_eq_true_eq, gt_iff_lt]
  constructor
  · exact fun h => h.2
  · intro h
    refine ⟨?_, h⟩
    have hpos : 0 < (labels.filter (· == l)).length := by omega
    obtain ⟨x, hx⟩ := List.exists_mem_of_length_pos hpos
    have hx' := List.mem_filter.mp hx
    have : x = l := by simpa using hx'.2
    subst this
    exact Nat.lt_succ_of_le (le_foldl_max labels 0 x hx'.1)

theorem indexIn_eq_none (keep : List Nat) (l : Nat) : indexIn keep l = none ↔ l ∉ keep := by
  unfold indexIn
  by_cases h : List.findIdx (· == l) keep < keep.length
  · simp only [h, if_true, reduceCtorEq, false_iff, not_not]
    have := List.findIdx_getElem (w := h)
    simp only [beq_iff_eq] at this
    rw [← this]
    exact List.getElem_mem h
  · simp only [h, if_false, true_iff]
    intro hm
    apply h
    exact List.findIdx_lt_length_of_exists ⟨l, hm, by simp⟩

theorem indexIn_some (keep : List Nat) (l i : Nat) (h : indexIn keep l = some i) :
    ∃ hi : i < keep.length, keep[i] = l := by
  unfold indexIn at h
  by_cases hlt : List.findIdx (· == l) keep < keep.length
  · simp only [hlt, if_true, Option.some.injEq] at h
    subst h
    refine ⟨hlt, ?_⟩
    have := List.findIdx_getElem (w := hlt)
    simpa using this
  · simp [hlt] at h

/-- **`reindex_labels(which='remove')`**: a node gets `-1` exactly when its Louvain cluster is a singleton, and two
    nodes that keep a label get the same new label exactly when they had the same old one. -/
theorem reindexLabels_remove (labels : List Nat) (v w : Nat) :
    let new : Nat → Int := fun x => match indexIn (labelsKeep labels) (labels.getD x 0) with
      | some i => (i : Int) | none => -1
    (new v = -1 ↔ labelCount labels (labels.getD v 0) ≤ 1) ∧
    (new v ≠ -1 → new w ≠ -1 → (new v = new w ↔ labels.getD v 0 = labels.getD w 0)) := by
  intro new
  have hnew : ∀ x, new x = -1 ↔ labels.getD x 0 ∉ labelsKeep labels := by
    intro x
    show (match indexIn (labelsKeep labels) (labels.getD x 0) with | some i => (i : Int) | none => -1) = -1 ↔ _
    rw [← indexIn_eq_none]
    cases h : indexIn (labelsKeep labels) (labels.getD x 0) with
    | none => simp
    | some i => simp
  constructor
  · rw [hnew v, mem_labelsKeep]; omega
  · intro hv' hw'
    constructor
    · intro heq
      have h1 : ∃ i, indexIn (labelsKeep labels) (labels.getD v 0) = some i := by
        cases h : indexIn (labelsKeep labels) (labels.getD v 0) with
        | none => exact absurd ((hnew v).mpr ((indexIn_eq_none _ _).mp h)) hv'
        | some i => exact ⟨i, rfl⟩
      have h2 : ∃ i, indexIn (labelsKeep labels) (labels.getD w 0) = some i := by
        cases h : indexIn (labelsKeep labels) (labels.getD w 0) with
        | none => exact absurd ((hnew w).mpr ((indexIn_eq_none _ _).mp h)) hw'
        | some i => exact ⟨i, rfl⟩
      obtain ⟨i, hi⟩ := h1
      obtain ⟨j, hj⟩ := h2
      have e1 : new v = (i : Int) := by show (match indexIn _ _ with | some i => (i : Int) | none => -1) = _; rw [hi]
      have e2 : new w = (j : Int) := by show (match indexIn _ _ with | some i => (i : Int) | none => -1) = _; rw [hj]
      rw [e1, e2] at heq
      have hij : i = j := by exact_mod_cast heq
      obtain ⟨_, g1⟩ := indexIn_some _ _ _ hi
      obtain ⟨_, g2⟩ := indexIn_some _ _ _ hj
      subst hij
      rw [← g1, ← g2]
    · intro heq
      show (match indexIn _ (labels.getD v 0) with | some i => (i : Int) | none => -1)
        = (match indexIn _ (labels.getD w 0) with | some i => (i : Int) | none => -1)
      rw [heq]

/-- `reindex_labels` never fails without secondary labels -/
theorem reindexLabels_none (labels : List Nat) (which : Isolated) :
    ∃ prim, reindexLabels labels none which = .ok (prim, none) ∧ prim.length = labels.length := by
  refine ⟨_, rfl, ?_⟩
  simp

/-- **LouvainEmbedding at fit level**: whatever labels Louvain returned, a successful `fit` gives
    `embedding_[i][c]` = share of the weight of row `i` carried by the columns whose (re-indexed) label `labels_` is `c`. -/
theorem louvainEmbFit_entry (nRow nCol : Nat) (a : Mat α) (fb : Bool) (ln lr lc : List Nat) (which : Isolated)
    {out : LouvainEmbOut α} (h : louvainEmbFit nRow nCol a fb ln lr lc which = .ok out)
    (i c : Nat) (hi : i < nRow) (hc : c < membershipCols out.labels) :
    mget out.embedding i c = Spec.louvainEntry nCol a out.labels i c := by
  unfold louvainEmbFit at h
  by_cases hsq : (!(fb || nRow != nCol)) = true
  · simp only [hsq, if_true, reindexLabels, bind, Except.bind, pure, Except.pure] at h
    have := Except.ok.inj h
    rw [← this] at hc ⊢
    exact louvainProject_entry nRow nCol a _ i c hi hc
  · simp only [hsq, if_false, Bool.false_eq_true, reindexLabels, bind, Except.bind, pure, Except.pure] at h
    split at h
    · cases h
    · have := Except.ok.inj h
      rw [← this] at hc ⊢
      exact louvainProject_entry nRow nCol a _ i c hi hc

/-- the column embedding on the bipartite route: the closed form for the re-indexed row labels, which are the rank of
    each row label among the kept column labels (`-1` when it is not kept) -/
theorem louvainEmbFit_col (nRow nCol : Nat) (a : Mat α) (fb : Bool) (ln lr lc : List Nat) (which : Isolated)
    {out : LouvainEmbOut α} (h : louvainEmbFit nRow nCol a fb ln lr lc which = .ok out)
    (hne : (fb || nRow != nCol) = true) :
    out.labelsRow = reindexSecondary (labelsKeep lc) lr ∧ out.labelsRow.length = lr.length ∧
    ∃ ec, out.embeddingCol = some ec ∧
      ∀ j c, j < nCol → c < membershipCols out.labelsRow →
        mget ec j c = Spec.louvainEntry nRow (mkMat nCol nRow fun j i => mget a i j) out.labelsRow j c := by
  unfold louvainEmbFit at h
  simp only [hne, Bool.not_true, Bool.false_eq_true, if_false, reindexLabels, bind, Except.bind, pure, Except.pure] at h
  split at h
  · cases h
  · rename_i v hv
    have := Except.ok.inj h
    rw [← this]
    have hv2 : v.2 = some (reindexSecondary (labelsKeep lc) lr) := by
      split at hv
      · cases hv
      · have := Except.ok.inj hv
        rw [← this]
    simp only [hv2, Option.getD_some]
    refine ⟨trivial, by simp [reindexSecondary], _, rfl, ?_⟩
    intro j c hj hc
    exact louvainProject_entry nCol nRow _ _ j c hj hc

end SkNet.Embedding
