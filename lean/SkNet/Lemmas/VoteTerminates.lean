/-
The repaired stopping loop of `Propagation.fit` terminates without a bound on the number of sweeps (`n_iter = -1`):
the configurations `labels[index_remain]` range over the finitely many lists of a fixed length over the initial
labels, and the loop stops as soon as one comes back.
-/
import SkNet.Lemmas.VoteFit
import Mathlib.Data.List.Perm.Subperm

namespace SkNet.Vote

attribute [-simp] List.getD_eq_getElem?_getD

/-- all lists of length `m` over the alphabet `A` -/
def allLists (A : List Int) : Nat → List (List Int)
  | 0 => [[]]
  | m+1 => A.flatMap fun a => (allLists A m).map (a :: ·)

theorem mem_allLists (A : List Int) (m : Nat) (l : List Int) (hlen : l.length = m) (hA : ∀ x ∈ l, x ∈ A) :
    l ∈ allLists A m := by
  induction m generalizing l with
  | zero =>
    have : l = [] := List.eq_nil_of_length_eq_zero hlen
    subst this
    simp [allLists]
  | succ m ih =>
    cases l with
    | nil => simp at hlen
    | cons x xs =>
      simp only [allLists, List.mem_flatMap, List.mem_map]
      refine ⟨x, hA x (List.mem_cons_self ..), xs, ?_, rfl⟩
      exact ih xs (by simpa using hlen) (fun y hy => hA y (List.mem_cons_of_mem _ hy))

/-- the loop cannot run out of fuel once the fuel exceeds the number of configurations not yet seen -/
theorem propLoop_some (step key : List Int → List Int) (P : List Int → Prop) (S : List (List Int))
    (hstep : ∀ l, P l → P (step l)) (hkey : ∀ l, P l → key l ∈ S) :
    ∀ (fuel t : Nat) (seen : List (List Int)) (labels : List Int),
      seen.Nodup → (∀ k ∈ seen, k ∈ S) → P labels → S.length < seen.length + fuel →
      propLoop step key fuel none t seen labels ≠ none := by
  intro fuel
  induction fuel with
  | zero =>
    intro t seen labels hnd hsub _ hlt
    have := (List.subperm_of_subset hnd hsub).length_le
    omega
  | succ fuel ih =>
    intro t seen labels hnd hsub hP hlt
    unfold propLoop
    split
    · simp
    · rename_i hc
      have hnot : key labels ∉ seen := by
        intro hm
        apply hc
        simp [hm]
      apply ih
      · exact List.nodup_cons.mpr ⟨hnot, hnd⟩
      · intro k hk
        rcases List.mem_cons.mp hk with rfl | hk
        · exact hkey labels hP
        · exact hsub k hk
      · exact hstep labels hP
      · simp only [List.length_cons]
        omega

/-- ★ `Propagation.fit` with `n_iter = -1` terminates: enough fuel is the number of lists of length
    `|index_remain|` over the initial labels, plus one -/
theorem fit_terminates (c : Csr Rat) (hw : ∀ p, 0 ≤ c.data.getD p 0) (values : List Int) (a : PropArgs)
    (hsig : SigmaOK a.sigma (instantiateVars values).2.length) (hn : a.nIter = none) :
    fit c values a ((allLists (start values a.sigma).1 (start values a.sigma).2.length).length + 1) ≠ none := by
  rw [fit_eq, hn]
  have hidx : ∀ j ∈ (start values a.sigma).2, j < values.length := by
    intro j hj
    exact instantiateVars_index_lt values j (mem_reorder _ _ hsig j hj)
  apply propLoop_some _ _ (FitInv values a.sigma)
    (allLists (start values a.sigma).1 (start values a.sigma).2.length)
  · intro l0 h0
    refine ⟨by rw [voteUpdate_length, h0.len], ?_, ?_⟩
    · intro x hx
      apply h0.sub
      exact voteUpdate_subset _ (withWeights_nonneg c a.weighted hw) l0 _
        (fun i hi => by rw [h0.len]; exact hidx i hi) x hx
    · intro j d hj
      rw [voteUpdate_outside _ _ _ _ _ hj]
      exact h0.out j d hj
  · intro l hl
    apply mem_allLists
    · simp [config]
    · intro x hx
      unfold config at hx
      obtain ⟨i, hi, rfl⟩ := List.mem_map.mp hx
      apply hl.sub
      have : i < l.length := by rw [hl.len]; exact hidx i hi
      rw [List.getD_eq_getElem?_getD, List.getElem?_eq_getElem this]
      exact List.getElem_mem this
  · exact List.nodup_nil
  · intro k hk
    cases hk
  · exact ⟨instantiateVars_length values, fun _ hx => hx, fun _ _ _ => rfl⟩
  · simp

/-- with a bound on the number of sweeps the loop needs no more fuel than the bound plus one -/
theorem propLoop_some_of_bound (step key : List Int → List Int) :
    ∀ (fuel m t : Nat) (seen : List (List Int)) (labels : List Int), m < fuel →
      propLoop step key fuel (some m) t seen labels ≠ none := by
  intro fuel
  induction fuel with
  | zero => intro m t seen labels h; omega
  | succ fuel ih =>
    intro m t seen labels h
    unfold propLoop
    split
    · simp
    · rename_i hc
      simp only [Bool.or_eq_true, beq_iff_eq, not_or] at hc
      cases m with
      | zero => exact absurd rfl hc.1
      | succ m =>
        simp only [Option.map_some, Nat.add_sub_cancel]
        exact ih m _ _ _ (by omega)

/-- ★ `Propagation.fit` as the code calls it (`n_iter < 0` ↦ at most `n + 1` sweeps) terminates with fuel `n + 2` -/
theorem fit_default_terminates (c : Csr Rat) (values : List Int) (a : PropArgs) (nIterArg : Option Nat)
    (ha : a.nIter = some (sweepLimit nIterArg values.length)) :
    fit c values a (sweepLimit nIterArg values.length + 1) ≠ none := by
  rw [fit_eq, ha]
  exact propLoop_some_of_bound _ _ _ _ _ _ _ (by omega)

end SkNet.Vote
