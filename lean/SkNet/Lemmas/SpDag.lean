/-
Helper lemmas for C10: the shortest-path DAG (`get_shortest_path`, `get_dag` with a source) as a graph of its own —
uniqueness of hop distances, predecessors, walks inside the DAG.  Core Lean only.
-/
import SkNet.Lemmas.Path

namespace SkNet.C10
open SkNet SkNet.Path

/-- a hop distance is unique -/
theorem isDist_unique {n : Nat} {edge : Nat → Nat → Bool} {src : Nat → Bool} {v d e : Nat}
    (hd : IsDist n edge src v d) (he : IsDist n edge src v e) : d = e := by
  by_cases h1 : d < e
  · exact absurd hd.1 (he.2 d h1)
  · by_cases h2 : e < d
    · exact absurd he.1 (hd.2 e h2)
    · omega

/-- a node at hop distance `d+1` has a neighbour at hop distance `d` pointing to it -/
theorem isDist_pred {n : Nat} {edge : Nat → Nat → Bool} {src : Nat → Bool} {v d : Nat}
    (h : IsDist n edge src v (d+1)) : ∃ u, u < n ∧ IsDist n edge src u d ∧ edge u v = true := by
  obtain ⟨hv, u, hw, he⟩ := Walk.succ_iff.1 h.1
  refine ⟨u, hw.lt, ⟨hw, fun d' hd' hw' => ?_⟩, he⟩
  exact h.2 (d'+1) (by omega) (Walk.succ hw' he hv)

/-- the graph whose edges are the listed pairs -/
def pairEdge (ps : List (Nat × Nat)) (i j : Nat) : Bool := decide ((i, j) ∈ ps)

/-- what `shortestPathDag_exact` / `getShortestPath_exact` say of a list of pairs -/
def IsSpDag (n : Nat) (edge : Nat → Nat → Bool) (src : Nat → Bool) (ps : List (Nat × Nat)) : Prop :=
  ∀ i j, (i, j) ∈ ps ↔ i < n ∧ j < n ∧ edge i j = true ∧
    ∃ d : Nat, IsDist n edge src i d ∧ IsDist n edge src j (d+1)

theorem spDag_walk_sub {n : Nat} {edge : Nat → Nat → Bool} {src : Nat → Bool} {ps : List (Nat × Nat)}
    (h : IsSpDag n edge src ps) {d v : Nat} (hw : Walk n (pairEdge ps) src d v) : Walk n edge src d v := by
  induction hw with
  | zero hv hs => exact Walk.zero hv hs
  | succ _ he hv ih =>
    have := (h _ _).1 (of_decide_eq_true he)
    exact Walk.succ ih this.2.2.1 hv

/-- every node keeps a shortest walk inside the DAG -/
theorem spDag_covers {n : Nat} {edge : Nat → Nat → Bool} {src : Nat → Bool} {ps : List (Nat × Nat)}
    (h : IsSpDag n edge src ps) : ∀ (d v : Nat), IsDist n edge src v d → Walk n (pairEdge ps) src d v := by
  intro d
  induction d with
  | zero => intro v hv; obtain ⟨a, b⟩ := Walk.zero_iff.1 hv.1; exact Walk.zero a b
  | succ d ih =>
    intro v hv
    obtain ⟨u, hu, hud, he⟩ := isDist_pred hv
    refine Walk.succ (ih u hud) ?_ hv.1.lt
    exact decide_eq_true ((h u v).2 ⟨hu, hv.1.lt, he, d, hud, hv⟩)


/-- a node reached by some walk has a hop distance, at most the length of that walk -/
theorem isDist_of_walk {n : Nat} {edge : Nat → Nat → Bool} {src : Nat → Bool} {v : Nat} :
    ∀ d, Walk n edge src d v → ∃ e, e ≤ d ∧ IsDist n edge src v e := by
  intro d
  induction d using Nat.strongRecOn with
  | _ d ih =>
    intro hw
    by_cases hex : ∃ d', d' < d ∧ Walk n edge src d' v
    · obtain ⟨d', hlt, hw'⟩ := hex
      obtain ⟨e, hle, he⟩ := ih d' hlt hw'
      exact ⟨e, by omega, he⟩
    · exact ⟨d, Nat.le_refl _, hw, fun d' hlt hw' => hex ⟨d', hlt, hw'⟩⟩

/-- along a walk of `k ≥ 1` DAG edges starting at `a`, the hop distance from the sources grows by exactly `k` -/
theorem spDag_walk_dist {n : Nat} {edge : Nat → Nat → Bool} {src : Nat → Bool} {ps : List (Nat × Nat)}
    (h : IsSpDag n edge src ps) {a k b : Nat} (hw : Walk n (pairEdge ps) (fun x => x == a) (k+1) b) :
    ∃ d, IsDist n edge src a d ∧ IsDist n edge src b (d+k+1) := by
  induction k generalizing b with
  | zero =>
    obtain ⟨_, u, hu, he⟩ := Walk.succ_iff.1 hw
    obtain ⟨_, hua⟩ := Walk.zero_iff.1 hu
    have : u = a := by simpa using hua
    subst this
    obtain ⟨_, _, _, d, hd1, hd2⟩ := (h _ _).1 (of_decide_eq_true he)
    exact ⟨d, hd1, hd2⟩
  | succ k ih =>
    obtain ⟨_, u, hu, he⟩ := Walk.succ_iff.1 hw
    obtain ⟨d, hda, hdu⟩ := ih hu
    obtain ⟨_, _, _, d', hd1, hd2⟩ := (h _ _).1 (of_decide_eq_true he)
    have : d' = d + k + 1 := isDist_unique hd1 hdu
    subst this
    exact ⟨d, hda, hd2⟩

end SkNet.C10
