/-
Betweenness of undirected graphs: for a symmetric edge relation the ordered-pair sum of Brandes is twice the
unordered-pair sum of the textbook definition (`pairDep s t v = pairDep t s v`), and `betweennessFit` — Brandes on the
graph of the non-zero entries, halved when that graph is undirected — returns the definition selected by the graph.
-/
import SkNet.Lemmas.RankEquiv

open Finset

namespace SkNet.Rank.Brandes
open SkNet.RankSpec

variable {n : ℕ} {nbr : ℕ → List ℕ}

/-- the adjacency lists describe an undirected graph -/
def SymNbr (n : ℕ) (nbr : ℕ → List ℕ) : Prop := ∀ u w, u < n → w < n → (w ∈ nbr u ↔ u ∈ nbr w)

theorem count_sym (hnd : ∀ u, (nbr u).Nodup) (hs : SymNbr n nbr) {u w : ℕ} (hu : u < n) (hw : w < n) :
    (nbr u).count w = (nbr w).count u := by
  by_cases h : w ∈ nbr u
  · rw [List.count_eq_one_of_mem (hnd u) h, List.count_eq_one_of_mem (hnd w) ((hs u w hu hw).mp h)]
  · rw [List.count_eq_zero_of_not_mem h, List.count_eq_zero_of_not_mem (fun h' => h ((hs u w hu hw).mpr h'))]

/-- walks can be reversed -/
theorem paths_sym (hnbr : ∀ u, ∀ v ∈ nbr u, v < n) (hnd : ∀ u, (nbr u).Nodup) (hs : SymNbr n nbr) (d : ℕ) :
    ∀ s t, s < n → t < n → paths n nbr s d t = paths n nbr t d s := by
  induction d with
  | zero =>
    intro s t _ _
    rw [paths_zero, paths_zero]
    by_cases h : t = s
    · simp [h]
    · have : ¬ s = t := fun e => h e.symm
      simp [h, this]
  | succ d ih =>
    intro s t hsn htn
    rw [paths_succ, paths_first hnbr htn]
    apply sum_congr rfl; intro u hu
    have hun := mem_range.mp hu
    rw [count_sym hnd hs hun htn, ih s u hsn hun]

theorem isDist_sym (hnbr : ∀ u, ∀ v ∈ nbr u, v < n) (hnd : ∀ u, (nbr u).Nodup) (hs : SymNbr n nbr) {s t : ℕ}
    (hsn : s < n) (htn : t < n) (d : ℕ) : IsDist n nbr s t d ↔ IsDist n nbr t s d := by
  unfold IsDist
  rw [paths_sym hnbr hnd hs d s t hsn htn]
  constructor
  · rintro ⟨h1, h2⟩; exact ⟨h1, fun d' hd' => by rw [← paths_sym hnbr hnd hs d' s t hsn htn]; exact h2 d' hd'⟩
  · rintro ⟨h1, h2⟩; exact ⟨h1, fun d' hd' => by rw [paths_sym hnbr hnd hs d' s t hsn htn]; exact h2 d' hd'⟩

theorem dist_sym (hnbr : ∀ u, ∀ v ∈ nbr u, v < n) (hnd : ∀ u, (nbr u).Nodup) (hs : SymNbr n nbr) {s t : ℕ}
    (hsn : s < n) (htn : t < n) : dist n (edgeOf nbr) s t = dist n (edgeOf nbr) t s := by
  rcases dist_cases hnbr hsn t with ⟨h1, hun⟩ | ⟨d, h1, hd⟩
  · rw [h1, hopDist_of_unreachable hnbr htn (fun d => by rw [← paths_sym hnbr hnd hs d s t hsn htn]; exact hun d)]
  · rw [h1, hopDist_of_isDist hnbr htn ((isDist_sym hnbr hnd hs hsn htn d).mp hd)]

theorem sigmaSpec_sym (hnbr : ∀ u, ∀ v ∈ nbr u, v < n) (hnd : ∀ u, (nbr u).Nodup) (hs : SymNbr n nbr) {s t : ℕ}
    (hsn : s < n) (htn : t < n) : sigmaSpec n (edgeOf nbr) s t = sigmaSpec n (edgeOf nbr) t s := by
  unfold sigmaSpec
  rw [dist_sym hnbr hnd hs hsn htn]
  split
  · rfl
  · have h1 := paths_eq_walkCount (n := n) (nbr := nbr) s hnd (dist n (edgeOf nbr) t s).toNat t
    have h2 := paths_eq_walkCount (n := n) (nbr := nbr) t hnd (dist n (edgeOf nbr) t s).toNat s
    show walkCount n (fun u w => decide (w ∈ nbr u)) _ s t = walkCount n (fun u w => decide (w ∈ nbr u)) _ t s
    rw [← h1, ← h2]
    exact paths_sym hnbr hnd hs _ s t hsn htn

/-- ★ on an undirected graph the fraction of shortest `s`–`t` paths through `v` does not depend on the direction -/
theorem pairDep_sym (hnbr : ∀ u, ∀ v ∈ nbr u, v < n) (hnd : ∀ u, (nbr u).Nodup) (hs : SymNbr n nbr) {s t v : ℕ}
    (hsn : s < n) (htn : t < n) (hvn : v < n) : pairDep n (edgeOf nbr) s t v = pairDep n (edgeOf nbr) t s v := by
  unfold pairDep
  simp only
  rw [dist_sym hnbr hnd hs hsn htn, dist_sym hnbr hnd hs hsn hvn, dist_sym hnbr hnd hs hvn htn,
    sigmaSpec_sym hnbr hnd hs hsn hvn, sigmaSpec_sym hnbr hnd hs hvn htn, sigmaSpec_sym hnbr hnd hs hsn htn]
  have hor : (dist n (edgeOf nbr) t s < 0 ∨ dist n (edgeOf nbr) v s < 0 ∨ dist n (edgeOf nbr) t v < 0)
      ↔ (dist n (edgeOf nbr) t s < 0 ∨ dist n (edgeOf nbr) t v < 0 ∨ dist n (edgeOf nbr) v s < 0) := by tauto
  simp only [hor, add_comm (dist n (edgeOf nbr) v s), Nat.mul_comm (sigmaSpec n (edgeOf nbr) v s)]

/-- ★ ordered pairs = twice the unordered pairs on an undirected graph: `betweennessSpec` (half of Brandes' ordered sum)
    is the textbook `Σ_{ {s,t}, s ≠ v ≠ t } σ_st(v)/σ_st` -/
theorem betweennessSpec_eq_undirected (hnbr : ∀ u, ∀ v ∈ nbr u, v < n) (hnd : ∀ u, (nbr u).Nodup) (hs : SymNbr n nbr)
    {v : ℕ} (hvn : v < n) : betweennessSpec n (edgeOf nbr) v = betweennessUndirected n (edgeOf nbr) v := by
  unfold betweennessSpec dependencySum betweennessUndirected
  rw [map_range_sum, map_range_sum]
  simp only [map_range_sum]
  set pd := fun s t => pairDep n (edgeOf nbr) s t v with hpd
  -- split every ordered pair by the order of its ends
  have hsplit : ∀ s ∈ range n, ∀ t ∈ range n,
      (if s = v ∨ t = v ∨ s = t then 0 else pd s t)
        = (if s < t ∧ s ≠ v ∧ t ≠ v then pd s t else 0) + (if t < s ∧ t ≠ v ∧ s ≠ v then pd t s else 0) := by
    intro s hsm t htm
    have hsn := mem_range.mp hsm
    have htn := mem_range.mp htm
    by_cases h1 : s = v ∨ t = v ∨ s = t
    · rw [if_pos h1, if_neg, if_neg, add_zero]
      · rintro ⟨h, h2, h3⟩; rcases h1 with e | e | e
        · exact h3 e
        · exact h2 e
        · omega
      · rintro ⟨h, h2, h3⟩; rcases h1 with e | e | e
        · exact h2 e
        · exact h3 e
        · omega
    · rw [if_neg h1]
      have hsv : s ≠ v := fun e => h1 (Or.inl e)
      have htv : t ≠ v := fun e => h1 (Or.inr (Or.inl e))
      have hst : s ≠ t := fun e => h1 (Or.inr (Or.inr e))
      rcases Nat.lt_or_gt_of_ne hst with hlt | hgt
      · rw [if_pos ⟨hlt, hsv, htv⟩, if_neg (fun h => by omega), add_zero]
      · rw [if_neg (fun h => by omega), if_pos ⟨hgt, htv, hsv⟩, zero_add]
        exact pairDep_sym hnbr hnd hs hsn htn hvn
  rw [sum_congr rfl fun s hsm => sum_congr rfl fun t htm => hsplit s hsm t htm]
  simp only [sum_add_distrib]
  rw [sum_comm (f := fun s t => if t < s ∧ t ≠ v ∧ s ≠ v then pd t s else 0)]
  ring

/-! ### `Betweenness.fit` on the graph of the non-zero entries -/

theorem patternNbr_lt (n : ℕ) (edge : ℕ → ℕ → Bool) : ∀ u, ∀ v ∈ patternNbr n edge u, v < n := by
  intro u v hv
  exact List.mem_range.mp (List.mem_filter.mp hv).1

theorem patternNbr_nodup (n : ℕ) (edge : ℕ → ℕ → Bool) : ∀ u, (patternNbr n edge u).Nodup :=
  fun _ => List.Nodup.filter _ List.nodup_range

theorem edgeOf_pattern (n : ℕ) (edge : ℕ → ℕ → Bool) {u w : ℕ} (hw : w < n) :
    edgeOf (patternNbr n edge) u w = edge u w := by
  unfold edgeOf patternNbr
  by_cases h : edge u w = true
  · simp [h, hw]
  · have : edge u w = false := by simpa using h
    simp [this]

theorem patternSymmetric_iff (n : ℕ) (edge : ℕ → ℕ → Bool) :
    patternSymmetric n edge = true ↔ ∀ i j, i < n → j < n → edge i j = edge j i := by
  unfold patternSymmetric
  simp only [List.all_eq_true, List.mem_range, beq_iff_eq]
  constructor
  · intro h i j hi hj; exact h i hi j hj
  · intro h i hi j hj; exact h i j hi hj

theorem symNbr_of_pattern (n : ℕ) (edge : ℕ → ℕ → Bool) (h : patternSymmetric n edge = true) :
    SymNbr n (patternNbr n edge) := by
  intro u w hu hw
  have hsym := (patternSymmetric_iff n edge).mp h u w hu hw
  unfold patternNbr
  simp only [List.mem_filter, List.mem_range, hu, hw, true_and]
  rw [hsym]

/-- the identity is a permutation: specifications only read the edge relation on `{0..n-1}` -/
theorem idPerm (n : ℕ) : SkNet.WL.IsPerm n id id := ⟨fun _ h => h, fun _ h => h, fun _ _ => rfl, fun _ _ => rfl⟩

/-- ★ `Betweenness.fit` end to end, the definition being selected by the graph itself: when the pattern of non-zero
    entries is symmetric the scores are the unordered-pair sums `Σ_{ {s,t} } σ_st(v)/σ_st`, otherwise Brandes' ordered-pair
    sums; the run never exhausts its fuel -/
theorem betweennessFit_eq_spec (n nnz : ℕ) (edge : ℕ → ℕ → Bool) (hnnz : nnz ≠ 0)
    (hconn : weaklyConnected n edge = true) :
    ∃ sc : List ℚ, betweennessFit n nnz edge = .ok (some sc) ∧ ∀ v, v < n →
      sc.getD v 0 = if patternSymmetric n edge then betweennessUndirected n edge v else dependencySum n edge v := by
  have hnbr := patternNbr_lt n edge
  have hnd := patternNbr_nodup n edge
  obtain ⟨sc, hsc, hval⟩ := betweenness_eq_spec hnbr hnd (patternSymmetric n edge)
  have hedge : ∀ i j, i < n → j < n → edgeOf (patternNbr n edge) (id i) (id j) = edge i j :=
    fun i j _ hj => edgeOf_pattern n edge hj
  refine ⟨sc, ?_, fun v hv => ?_⟩
  · unfold betweennessFit
    rw [if_neg hnnz, hconn]
    simp [hsc]
  · rw [hval v hv]
    by_cases hsym : patternSymmetric n edge = true
    · rw [if_pos hsym, if_pos hsym, betweennessSpec_eq_undirected hnbr hnd (symNbr_of_pattern n edge hsym) hv]
      -- same specification on the edge relation itself
      unfold betweennessUndirected
      congr 1
      apply List.map_congr_left; intro s hs
      congr 1
      apply List.map_congr_left; intro t ht
      have hpd : pairDep n (edgeOf (patternNbr n edge)) s t v = pairDep n edge s t v :=
        SkNet.Rank.Equiv.pairDep_perm (idPerm n) hedge (List.mem_range.mp hs) (List.mem_range.mp ht) hv
      rw [hpd]
    · rw [if_neg hsym, if_neg hsym]
      exact SkNet.Rank.Equiv.dependencySum_perm (idPerm n) hedge hv

end SkNet.Rank.Brandes
