/-
C15 lemmas: the evaluation of an operator expression succeeds, or raises a given exception, exactly as its
static type (`OpExpr.type?`: classes and shapes only) says.
-/
import SkNet.Lemmas.LinOp2d

namespace SkNet.LinOp
open SkNet

/-! ### SparseLR operations computed on valid operands -/

namespace SLR

theorem neg_eq {s : SLR} (hv : s.Valid) :
    s.neg = .ok ⟨s.sparse.neg, s.tuples.map fun t => (vneg t.1, t.2)⟩ := by
  unfold neg
  apply init_of_valid
  intro t ht
  obtain ⟨u, hu, rfl⟩ := List.mem_map.mp ht
  exact ⟨by rw [show (_ : Vec × Vec).1.length = u.1.length from by simp]; exact (hv u hu).1, (hv u hu).2⟩

theorem mul_eq {s : SLR} (hv : s.Valid) (c : Rat) :
    s.mul c = .ok ⟨s.sparse.smul c, s.tuples.map fun t => (vsmul c t.1, t.2)⟩ := by
  unfold mul
  apply init_of_valid
  intro t ht
  obtain ⟨u, hu, rfl⟩ := List.mem_map.mp ht
  exact ⟨by rw [show (_ : Vec × Vec).1.length = u.1.length from by simp]; exact (hv u hu).1, (hv u hu).2⟩

theorem transpose_eq {s : SLR} (hv : s.Valid) :
    s.transpose = .ok ⟨s.sparse.transpose, s.tuples.map fun t => (t.2, t.1)⟩ := by
  unfold transpose
  apply init_of_valid
  intro t ht
  obtain ⟨u, hu, rfl⟩ := List.mem_map.mp ht
  exact ⟨(hv u hu).2, (hv u hu).1⟩

theorem add_eq {s o : SLR} (hs : s.Valid) (ho : o.Valid) :
    s.add o = if s.sparse.nRow = o.sparse.nRow ∧ s.sparse.nCol = o.sparse.nCol
      then .ok ⟨s.sparse.add o.sparse, s.tuples ++ o.tuples⟩ else .error .valueError := by
  unfold add Mat.add?
  by_cases h : s.sparse.nRow = o.sparse.nRow ∧ s.sparse.nCol = o.sparse.nCol
  · simp only [h, and_self, if_true]
    show init _ _ = _
    apply init_of_valid
    intro t ht
    rcases List.mem_append.mp ht with ht | ht
    · exact hs t ht
    · have := ho t ht
      exact ⟨by rw [this.1]; exact h.1.symm, by rw [this.2]; exact h.2.symm⟩
  · simp only [h, if_false]; rfl

theorem addCsr_eq {s : SLR} (hs : s.Valid) (a : Mat) :
    s.addCsr a = if s.sparse.nRow = a.nRow ∧ s.sparse.nCol = a.nCol
      then .ok ⟨s.sparse.add a, s.tuples⟩ else .error .valueError := by
  unfold addCsr Mat.add?
  by_cases h : s.sparse.nRow = a.nRow ∧ s.sparse.nCol = a.nCol
  · simp only [h, and_self, if_true]
    show init _ _ = _
    exact init_of_valid _ _ hs
  · simp only [h, if_false]; rfl

theorem mapFst?_eq {m : Mat} {ts : List (Vec × Vec)} (h : ∀ t ∈ ts, m.nCol = t.1.length) :
    mapFst? m.mulVec? ts = .ok (ts.map fun t => (m.mulVec t.1, t.2)) := by
  induction ts with
  | nil => rfl
  | cons t ts ih =>
    unfold mapFst?
    have e1 : m.mulVec? t.1 = .ok (m.mulVec t.1) := by
      unfold Mat.mulVec?; simp [h t (List.mem_cons_self ..)]
    rw [e1, ih (fun u hu => h u (List.mem_cons_of_mem _ hu))]
    rfl

theorem mapSnd?_eq {m : Mat} {ts : List (Vec × Vec)} (h : ∀ t ∈ ts, m.nCol = t.2.length) :
    mapSnd? m.mulVec? ts = .ok (ts.map fun t => (t.1, m.mulVec t.2)) := by
  induction ts with
  | nil => rfl
  | cons t ts ih =>
    unfold mapSnd?
    have e1 : m.mulVec? t.2 = .ok (m.mulVec t.2) := by
      unfold Mat.mulVec?; simp [h t (List.mem_cons_self ..)]
    rw [e1, ih (fun u hu => h u (List.mem_cons_of_mem _ hu))]
    rfl

theorem leftDot_eq {s : SLR} (hv : s.Valid) (m : Mat) :
    SLR.leftDot m s = if m.nCol = s.sparse.nRow
      then .ok ⟨m.mul s.sparse, s.tuples.map fun t => (m.mulVec t.1, t.2)⟩ else .error .valueError := by
  unfold leftDot Mat.mul?
  by_cases h : m.nCol = s.sparse.nRow
  · simp only [h, if_true]
    show (do let ts ← mapFst? m.mulVec? s.tuples; init (m.mul s.sparse) ts) = _
    rw [mapFst?_eq (fun t ht => by rw [(hv t ht).1]; exact h)]
    show init _ _ = _
    apply init_of_valid
    intro t ht
    obtain ⟨u, hu, rfl⟩ := List.mem_map.mp ht
    exact ⟨by simp, (hv u hu).2⟩
  · simp only [h, if_false]; rfl

theorem rightDot_eq {s : SLR} (hv : s.Valid) (m : Mat) :
    s.rightDot m = if s.sparse.nCol = m.nRow
      then .ok ⟨s.sparse.mul m, s.tuples.map fun t => (t.1, m.transpose.mulVec t.2)⟩ else .error .valueError := by
  unfold rightDot Mat.mul?
  by_cases h : s.sparse.nCol = m.nRow
  · simp only [h, if_true]
    show (do let ts ← mapSnd? m.transpose.mulVec? s.tuples; init (s.sparse.mul m) ts) = _
    rw [mapSnd?_eq (fun t ht => by rw [(hv t ht).2]; show m.nRow = s.sparse.nCol; exact h.symm)]
    show init _ _ = _
    apply init_of_valid
    intro t ht
    obtain ⟨u, hu, rfl⟩ := List.mem_map.mp ht
    exact ⟨(hv u hu).1, by simp⟩
  · simp only [h, if_false]; rfl

end SLR

theorem slrD2U_eq {s : SLR} (hv : s.Valid) :
    slrD2U s = if s.sparse.nRow = s.sparse.nCol
      then .ok ⟨s.sparse.add s.sparse.transpose, s.tuples ++ s.tuples.map fun t => (t.2, t.1)⟩
      else .error .valueError := by
  unfold slrD2U Mat.add?
  by_cases h : s.sparse.nRow = s.sparse.nCol
  · have h2 : s.sparse.nRow = s.sparse.transpose.nRow ∧ s.sparse.nCol = s.sparse.transpose.nCol :=
      ⟨h, h.symm⟩
    rw [if_pos h2, if_pos h]
    show SLR.init _ _ = _
    apply SLR.init_of_valid
    intro t ht
    rcases List.mem_append.mp ht with ht | ht
    · exact hv t ht
    · obtain ⟨u, hu, rfl⟩ := List.mem_map.mp ht
      have := hv u hu
      exact ⟨by show u.2.length = s.sparse.nRow; rw [this.2]; exact h.symm,
        by show u.1.length = s.sparse.nCol; rw [this.1]; exact h⟩
  · have h2 : ¬ (s.sparse.nRow = s.sparse.transpose.nRow ∧ s.sparse.nCol = s.sparse.transpose.nCol) :=
      fun c => h c.1
    rw [if_neg h2, if_neg h]; rfl

theorem slrB2D_ok {s : SLR} (hv : s.Valid) : ∃ t, slrB2D s = .ok t ∧
    t.sparse.nRow = s.sparse.nRow + s.sparse.nCol ∧ t.sparse.nCol = s.sparse.nRow + s.sparse.nCol := by
  unfold slrB2D
  refine ⟨_, SLR.init_of_valid _ _ ?_, rfl, rfl⟩
  intro t ht
  obtain ⟨u, hu, rfl⟩ := List.mem_map.mp ht
  have := hv u hu
  exact ⟨by simp [this.1, SLR.nRow, SLR.nCol], by simp [this.2, SLR.nRow, SLR.nCol]⟩

theorem slrB2U_ok {s : SLR} (hv : s.Valid) : ∃ t, slrB2U s = .ok t ∧
    t.sparse.nRow = s.sparse.nRow + s.sparse.nCol ∧ t.sparse.nCol = s.sparse.nRow + s.sparse.nCol := by
  unfold slrB2U
  refine ⟨_, SLR.init_of_valid _ _ ?_, rfl, rfl⟩
  intro t ht
  obtain ⟨u, hu, ht⟩ := List.mem_flatMap.mp ht
  have := hv u hu
  simp only [List.mem_cons, List.not_mem_nil, or_false] at ht
  rcases ht with rfl | rfl
  · exact ⟨by simp [this.1, SLR.nRow, SLR.nCol], by simp [this.2, SLR.nRow, SLR.nCol]⟩
  · exact ⟨by simp [this.2, SLR.nRow, SLR.nCol], by simp [this.1, SLR.nRow, SLR.nCol, Nat.add_comm]⟩

end SkNet.LinOp

namespace SkNet.LinOp
open SkNet

theorem Mat.isNull_iff (a : Mat) : a.isNull = true ↔ ∀ i j, a.get i j = 0 := by
  unfold Mat.isNull
  simp only [List.all_eq_true, List.mem_range, beq_iff_eq]
  constructor
  · intro h i j
    by_cases hij : i < a.nRow ∧ j < a.nCol
    · exact h i hij.1 j hij.2
    · exact Mat.get_of_not_lt hij
  · intro h i _ j _; exact h i j

theorem Mat.isNull_transpose (a : Mat) : a.transpose.isNull = a.isNull := by
  have h1 := Mat.isNull_iff a
  have h2 := Mat.isNull_iff a.transpose
  by_cases h : a.isNull = true
  · rw [h]; exact h2.mpr (fun i j => by rw [Mat.get_transpose]; exact h1.mp h j i)
  · have : a.transpose.isNull ≠ true := by
      intro ht
      apply h
      exact h1.mpr (fun i j => by have := h2.mp ht j i; rwa [Mat.get_transpose] at this)
    simp only [Bool.not_eq_true] at h this
    rw [h, this]

/-! ### every successfully evaluated expression is well formed (no hypothesis on the regularisation) -/

namespace OpExpr

theorem eval_wf : ∀ (e : OpExpr) (o : Op), e.eval = .ok o → o.WF
  | slr s ts, o, h => by
    simp only [eval] at h
    obtain ⟨t, ht, h⟩ := bind_eq_ok h
    have := pure_eq_ok h; subst this
    exact SLR.init_valid ht
  | regularizer a reg, o, h => by
    simp only [eval] at h
    obtain ⟨t, ht, h⟩ := bind_eq_ok h
    have := pure_eq_ok h; subst this
    exact (regularizer_dense ht).1
  | normalizer a reg, o, h => by
    simp only [eval] at h
    split at h
    · cases h
    · cases h; trivial
  | laplacian a reg nz sq, o, h => by
    simp only [eval] at h
    split at h
    · cases h
    · obtain ⟨l, hl, h⟩ := bind_eq_ok h
      have := pure_eq_ok h; subst this
      exact (Laplacian.init_square hl).1
  | coneighbor a nz, o, h => by
    simp only [eval] at h
    obtain ⟨c, hc, h⟩ := bind_eq_ok h
    have := pure_eq_ok h; subst this
    exact CoNeighbor.init_wf hc
  | polynome a cs, o, h => by
    simp only [eval] at h
    obtain ⟨p, hp, h⟩ := bind_eq_ok h
    have := pure_eq_ok h; subst this
    obtain ⟨rfl, hne, hsq, hnn⟩ := Polynome.init_ok hp
    exact ⟨hne, hsq, hnn⟩
  | neg e, o, h => by
    simp only [eval] at h
    obtain ⟨x, hx, h⟩ := bind_eq_ok h
    exact (Op.neg_spec (eval_wf e x hx) h).1
  | add e f, o, h => by
    simp only [eval] at h
    obtain ⟨x, hx, h⟩ := bind_eq_ok h
    obtain ⟨y, hy, h⟩ := bind_eq_ok h
    exact (Op.add_spec (eval_wf e x hx) (eval_wf f y hy) h).1
  | sub e f, o, h => by
    simp only [eval] at h
    obtain ⟨x, hx, h⟩ := bind_eq_ok h
    obtain ⟨y, hy, h⟩ := bind_eq_ok h
    exact (Op.sub_spec (eval_wf e x hx) (eval_wf f y hy) h).1
  | addCsr e a, o, h => by
    simp only [eval] at h
    obtain ⟨x, hx, h⟩ := bind_eq_ok h
    exact (Op.addCsr_spec (eval_wf e x hx) h).1
  | subCsr e a, o, h => by
    simp only [eval] at h
    obtain ⟨x, hx, h⟩ := bind_eq_ok h
    exact (Op.subCsr_spec (eval_wf e x hx) h).1
  | mul e c, o, h => by
    simp only [eval] at h
    obtain ⟨x, hx, h⟩ := bind_eq_ok h
    exact (Op.mul_spec (eval_wf e x hx) h).1
  | transpose e, o, h => by
    simp only [eval] at h
    obtain ⟨x, hx, h⟩ := bind_eq_ok h
    exact (Op.transpose_spec (eval_wf e x hx) h).1
  | leftDot m e, o, h => by
    simp only [eval] at h
    obtain ⟨x, hx, h⟩ := bind_eq_ok h
    exact (Op.leftDot_spec (eval_wf e x hx) h).1
  | rightDot e m, o, h => by
    simp only [eval] at h
    obtain ⟨x, hx, h⟩ := bind_eq_ok h
    exact (Op.rightDot_spec (eval_wf e x hx) h).1
  | astype e dt, o, h => by
    simp only [eval] at h
    obtain ⟨x, hx, h⟩ := bind_eq_ok h
    exact Op.astype_wf (eval_wf e x hx) h
  | rmul c e, o, h => by
    simp only [eval] at h
    obtain ⟨x, hx, h⟩ := bind_eq_ok h
    exact (Op.rmul_spec (eval_wf e x hx) h).1
  | d2u e, o, h => by
    simp only [eval] at h
    obtain ⟨x, hx, h⟩ := bind_eq_ok h
    exact (Op.d2u_spec (eval_wf e x hx) h).1
  | b2d e, o, h => by
    simp only [eval] at h
    obtain ⟨x, hx, h⟩ := bind_eq_ok h
    exact (Op.b2d_spec (eval_wf e x hx) h).1
  | b2u e, o, h => by
    simp only [eval] at h
    obtain ⟨x, hx, h⟩ := bind_eq_ok h
    exact (Op.b2u_spec (eval_wf e x hx) h).1
  | normalize e, o, h => by
    simp only [eval] at h
    obtain ⟨x, hx, h⟩ := bind_eq_ok h
    exact (Op.normalize_spec (eval_wf e x hx) h).1

end OpExpr
end SkNet.LinOp

/-! ### typing of the operations and of whole expressions -/

namespace SkNet.LinOp
namespace Op

@[simp] theorem map_ok {α β : Type} (f : α → β) (a : α) : (Except.ok a : Except PyErr α).map f = .ok (f a) := rfl
@[simp] theorem map_error {α β : Type} (f : α → β) (e : PyErr) : (Except.error e : Except PyErr α).map f = .error e := rfl

theorem neg_ty {o : Op} (hw : o.WF) : o.neg.map Op.ty = .ok ⟨o.kind.scaled, o.nRow, o.nCol⟩ := by
  cases o with
  | slr s => simp only [neg]; rw [SLR.neg_eq hw]; rfl
  | pol p =>
    simp only [neg]
    unfold Polynome.neg
    rw [Polynome.init_eq _ _ (by simpa using hw.1) hw.2.1 hw.2.2]; rfl
  | con c => rfl
  | nrm n t => rfl
  | lap l => rfl
  | gsum a b => rfl
  | gscaled a c => rfl

theorem mul_ty {o : Op} (hw : o.WF) (k : Rat) : (o.mul k).map Op.ty = .ok ⟨o.kind.scaled, o.nRow, o.nCol⟩ := by
  cases o with
  | slr s => simp only [mul]; rw [SLR.mul_eq hw]; rfl
  | pol p =>
    simp only [mul]
    unfold Polynome.mul
    rw [Polynome.init_eq _ _ (by simpa using hw.1) hw.2.1 hw.2.2]; rfl
  | con c => rfl
  | nrm n t => rfl
  | lap l => rfl
  | gsum a b => rfl
  | gscaled a c => rfl

theorem add_ty {a b : Op} (ha : a.WF) (hb : b.WF) : (a.add b).map Op.ty = a.ty.add b.ty := by
  have generic : ∀ (a : Op),
      (if a.nRow = b.nRow ∧ a.nCol = b.nCol then Except.ok (gsum a b) else Except.error PyErr.valueError).map Op.ty
        = (if a.nRow = b.nRow ∧ a.nCol = b.nCol then Except.ok ⟨Kind.gen, a.nRow, a.nCol⟩ else Except.error PyErr.valueError) := by
    intro a
    by_cases h : a.nRow = b.nRow ∧ a.nCol = b.nCol
    · rw [if_pos h, if_pos h]; rfl
    · rw [if_neg h, if_neg h]; rfl
  cases a with
  | slr s =>
    cases b with
    | slr t =>
      simp only [add]
      rw [SLR.add_eq ha hb]
      unfold Ty.add Op.ty
      by_cases h : s.sparse.nRow = t.sparse.nRow ∧ s.sparse.nCol = t.sparse.nCol
      · simp [h, Op.kind]
      · simp [h, Op.kind]
    | _ => simp only [add]; rw [generic _]; rfl
  | pol p => simp only [add]; rw [generic _]; cases b <;> rfl
  | con c => simp only [add]; rw [generic _]; cases b <;> rfl
  | nrm n t => simp only [add]; rw [generic _]; cases b <;> rfl
  | lap l => simp only [add]; rw [generic _]; cases b <;> rfl
  | gsum x y => simp only [add]; rw [generic _]; cases b <;> rfl
  | gscaled x c => simp only [add]; rw [generic _]; cases b <;> rfl

theorem neg_kind {o o' : Op} (hw : o.WF) (h : o.neg = .ok o') : o'.ty = ⟨o.kind.scaled, o.nRow, o.nCol⟩ := by
  have := neg_ty hw
  rw [h] at this
  exact Except.ok.inj this

theorem sub_ty {a b : Op} (ha : a.WF) (hb : b.WF) :
    (a.sub b).map Op.ty = a.ty.add ⟨b.kind.scaled, b.nRow, b.nCol⟩ := by
  unfold sub
  have hn := neg_ty hb
  cases hneg : b.neg with
  | error e => rw [hneg] at hn; cases hn
  | ok nb =>
    have hnw := (neg_spec hb hneg).1
    have hk := neg_kind hb hneg
    show (a.add nb).map Op.ty = _
    rw [add_ty ha hnw, hk]

theorem addCsr_ty {o : Op} (hw : o.WF) (a : Mat) :
    (o.addCsr a).map Op.ty = (match o.kind with
      | .slr => if o.nRow = a.nRow ∧ o.nCol = a.nCol then .ok o.ty else .error .valueError
      | _ => .error .unsupported) := by
  cases o with
  | slr s =>
    simp only [addCsr]
    rw [SLR.addCsr_eq hw]
    by_cases h : s.sparse.nRow = a.nRow ∧ s.sparse.nCol = a.nCol
    · simp [h, Op.kind, Op.ty]
    · simp [h, Op.kind]
  | _ => rfl

theorem subCsr_ty {o : Op} (hw : o.WF) (a : Mat) :
    (o.subCsr a).map Op.ty = (match o.kind with
      | .slr => if o.nRow = a.nRow ∧ o.nCol = a.nCol then .ok o.ty else .error .valueError
      | _ => .error .unsupported) := by
  cases o with
  | slr s =>
    simp only [subCsr]
    unfold SLR.subCsr
    rw [SLR.addCsr_eq hw]
    by_cases h : s.sparse.nRow = a.nRow ∧ s.sparse.nCol = a.nCol
    · simp [h, Op.kind, Op.ty]
    · simp [h, Op.kind]
  | _ => rfl

theorem transpose_ty {o : Op} : o.WF →
    o.transpose.map Op.ty = (match o.kind with
      | .slr => .ok ⟨.slr, o.nCol, o.nRow⟩
      | .nrm b => .ok ⟨.nrm (!b), o.nCol, o.nRow⟩
      | .lap => .ok o.ty
      | .con => .ok ⟨.con, o.nCol, o.nRow⟩
      | .pol => .ok o.ty
      | .gen => .ok ⟨.gen, o.nCol, o.nRow⟩) := by
  induction o with
  | slr s => intro hw; simp only [transpose]; rw [SLR.transpose_eq hw]; rfl
  | pol p =>
    intro hw
    simp only [transpose]
    unfold Polynome.transpose
    rw [Polynome.init_eq _ _ hw.1 (by simp [hw.2.1]) (by rw [Mat.isNull_transpose]; exact hw.2.2)]
    simp [Op.ty, Op.kind, hw.2.1]
  | con c => intro _; rfl
  | nrm n t => intro _; cases t <;> rfl
  | lap l =>
    intro hw
    have hsq : l.lap.nCol = l.lap.nRow := hw
    simp [transpose, Op.ty, Op.kind, Laplacian.transpose, hsq]
  | gsum a b iha ihb =>
    intro hw
    have ha := iha hw.1
    have hb := ihb hw.2.1
    cases hta : a.transpose with
    | error e => rw [hta] at ha; cases a <;> first | (rename_i t; cases t <;> cases ha) | cases ha
    | ok a' =>
      cases htb : b.transpose with
      | error e => rw [htb] at hb; cases b <;> first | (rename_i t; cases t <;> cases hb) | cases hb
      | ok b' =>
        rw [hta] at ha
        have hs : a'.nRow = a.nCol ∧ a'.nCol = a.nRow := by
          cases a <;> first
            | (rename_i t; cases t <;> (simp only [Op.kind, map_ok] at ha; have := Except.ok.inj ha; simp [Op.ty] at this; exact ⟨this.2.1, this.2.2⟩))
            | (simp only [Op.kind, map_ok] at ha; have := Except.ok.inj ha; simp [Op.ty] at this; first | exact ⟨this.2.1, this.2.2⟩ | exact ⟨this.2.1.trans rfl, this.2.2.trans rfl⟩)
        simp only [transpose, hta, htb]
        show Except.ok (Op.ty (gsum a' b')) = _
        simp [Op.ty, Op.kind, hs]
  | gscaled a c iha =>
    intro hw
    have ha := iha hw
    cases hta : a.transpose with
    | error e => rw [hta] at ha; cases a <;> first | (rename_i t; cases t <;> cases ha) | cases ha
    | ok a' =>
      rw [hta] at ha
      have hs : a'.nRow = a.nCol ∧ a'.nCol = a.nRow := by
        cases a <;> first
          | (rename_i t; cases t <;> (simp only [Op.kind, map_ok] at ha; have := Except.ok.inj ha; simp [Op.ty] at this; exact ⟨this.2.1, this.2.2⟩))
          | (simp only [Op.kind, map_ok] at ha; have := Except.ok.inj ha; simp [Op.ty] at this; first | exact ⟨this.2.1, this.2.2⟩ | exact ⟨this.2.1.trans rfl, this.2.2.trans rfl⟩)
      simp only [transpose, hta]
      show Except.ok (Op.ty (gscaled a' c)) = _
      simp [Op.ty, Op.kind, hs]

theorem map_ty_ok {x : Except PyErr Op} {t : Ty} (h : x.map Op.ty = .ok t) : ∃ o, x = .ok o ∧ o.ty = t := by
  cases x with
  | error e => cases h
  | ok o => exact ⟨o, rfl, Except.ok.inj h⟩

/-- transposition of a well-formed operator succeeds and swaps the shape -/
theorem transpose_shape {o : Op} (hw : o.WF) : ∃ t, o.transpose = .ok t ∧ t.nRow = o.nCol ∧ t.nCol = o.nRow := by
  have h := transpose_ty hw
  cases ht : o.transpose with
  | error e => rw [ht] at h; cases o <;> first | (rename_i t; cases t <;> cases h) | cases h
  | ok t =>
    rw [ht] at h
    refine ⟨t, rfl, ?_⟩
    cases o <;> first
      | (rename_i b; cases b <;> (simp only [Op.kind, map_ok] at h; have := Except.ok.inj h; simp [Op.ty] at this; exact ⟨this.2.1, this.2.2⟩))
      | (simp only [Op.kind, map_ok] at h; have := Except.ok.inj h; simp [Op.ty] at this; first | exact ⟨this.2.1, this.2.2⟩ | exact ⟨this.2.1.trans rfl, this.2.2.trans rfl⟩)

/-- **`.H` is total** on well-formed operators (after the repairs F16n and F16q): it never raises, the result is
well formed, of the swapped shape, and denotes the transposed matrix -/
theorem adjoint_ok {o : Op} : o.WF → ∃ h, o.adjoint = .ok h ∧ h.WF ∧ h.nRow = o.nCol ∧ h.nCol = o.nRow := by
  have leaf : ∀ (o : Op), o.WF → o.adjoint = o.transpose →
      ∃ h, o.adjoint = .ok h ∧ h.WF ∧ h.nRow = o.nCol ∧ h.nCol = o.nRow := by
    intro o hw he
    obtain ⟨t, ht, hs⟩ := transpose_shape hw
    exact ⟨t, he.trans ht, (transpose_spec hw ht).1, hs⟩
  induction o with
  | gsum a b iha ihb =>
    intro hw
    obtain ⟨a', ha', hwa', har, hac⟩ := iha hw.1
    obtain ⟨b', hb', hwb', hbr, hbc⟩ := ihb hw.2.1
    have hty := add_ty hwa' hwb'
    have hsh : a'.nRow = b'.nRow ∧ a'.nCol = b'.nCol := ⟨by rw [har, hbr, hw.2.2.2], by rw [hac, hbc, hw.2.2.1]⟩
    have hk : ∃ k, a'.ty.add b'.ty = .ok ⟨k, a'.nRow, a'.nCol⟩ := by
      unfold Ty.add
      split
      · exact ⟨a'.kind, by simp [Op.ty, hsh]⟩
      · exact ⟨Kind.gen, by simp [Op.ty, hsh]⟩
    obtain ⟨k, hk⟩ := hk
    rw [hk] at hty
    obtain ⟨o', ho', hto⟩ := map_ty_ok hty
    have hadj : (gsum a b).adjoint = .ok o' := by simp only [adjoint, ha', hb']; exact ho'
    have hs : o'.nRow = a'.nRow ∧ o'.nCol = a'.nCol := by
      have := congrArg Ty.nRow hto; have h2 := congrArg Ty.nCol hto; exact ⟨this, h2⟩
    refine ⟨o', hadj, (adjoint_spec hw hadj).1, ?_, ?_⟩
    · rw [hs.1, har]; rfl
    · rw [hs.2, hac]; rfl
  | gscaled a c iha =>
    intro hw
    obtain ⟨a', ha', hwa', har, hac⟩ := iha hw
    have hty := mul_ty hwa' c
    obtain ⟨o', ho', hto⟩ := map_ty_ok hty
    have hadj : (gscaled a c).adjoint = .ok o' := by simp only [adjoint, ha']; exact ho'
    have hs : o'.nRow = a'.nRow ∧ o'.nCol = a'.nCol := by
      have := congrArg Ty.nRow hto; have h2 := congrArg Ty.nCol hto; exact ⟨this, h2⟩
    refine ⟨o', hadj, (adjoint_spec (o := gscaled a c) hw hadj).1, ?_, ?_⟩
    · rw [hs.1, har]; rfl
    · rw [hs.2, hac]; rfl
  | slr s => intro hw; exact leaf _ hw (by simp only [adjoint])
  | pol p => intro hw; exact leaf _ hw (by simp only [adjoint])
  | con c => intro hw; exact leaf _ hw (by simp only [adjoint])
  | nrm n t => intro hw; exact leaf _ hw (by simp only [adjoint])
  | lap l => intro hw; exact leaf _ hw (by simp only [adjoint])

theorem rmul_ty (o : Op) (c : Rat) : (o.rmul c).map Op.ty = .ok ⟨.gen, o.nRow, o.nCol⟩ := rfl

theorem leftDot_ty {o : Op} (hw : o.WF) (m : Mat) :
    (Op.leftDot m o).map Op.ty = (match o.kind with
      | .slr => if m.nCol = o.nRow then .ok ⟨.slr, m.nRow, o.nCol⟩ else .error .valueError
      | .con => if m.nCol = o.nRow then .ok ⟨.con, m.nRow, o.nCol⟩ else .error .valueError
      | _ => .error .attributeError) := by
  cases o with
  | slr s =>
    simp only [leftDot]
    rw [SLR.leftDot_eq hw]
    by_cases h : m.nCol = s.sparse.nRow
    · simp [h, Op.kind, Op.ty]
    · simp [h, Op.kind]
  | con c =>
    simp only [leftDot]
    unfold CoNeighbor.leftDot Mat.mul?
    by_cases h : m.nCol = c.backward.nRow
    · simp [h, Op.kind, Op.ty, CoNeighbor.nRow, CoNeighbor.nCol]
    · simp [h, Op.kind]
  | _ => rfl

theorem rightDot_ty {o : Op} (hw : o.WF) (m : Mat) :
    (o.rightDot m).map Op.ty = (match o.kind with
      | .slr => if o.nCol = m.nRow then .ok ⟨.slr, o.nRow, m.nCol⟩ else .error .valueError
      | .con => if o.nCol = m.nRow then .ok ⟨.con, o.nRow, m.nCol⟩ else .error .valueError
      | _ => .error .attributeError) := by
  cases o with
  | slr s =>
    simp only [rightDot]
    rw [SLR.rightDot_eq hw]
    by_cases h : s.sparse.nCol = m.nRow
    · simp [h, Op.kind, Op.ty]
    · simp [h, Op.kind]
  | con c =>
    simp only [rightDot]
    unfold CoNeighbor.rightDot Mat.mul?
    by_cases h : c.forward.nCol = m.nRow
    · simp [h, Op.kind, Op.ty, CoNeighbor.nRow, CoNeighbor.nCol]
    · simp [h, Op.kind]
  | _ => rfl

theorem astype_ty (o : Op) (dt : CastTo) :
    (o.astype dt).map Op.ty = (match o.kind with
      | .slr | .lap | .con => .ok o.ty
      | _ => .error .attributeError) := by
  cases o <;> rfl

theorem d2u_ty {o : Op} (hw : o.WF) :
    o.d2u.map Op.ty = (match o.kind with
      | .slr => if o.nRow = o.nCol then .ok o.ty else .error .valueError
      | _ => .error .typeError) := by
  cases o with
  | slr s =>
    simp only [d2u]
    rw [slrD2U_eq hw]
    by_cases h : s.sparse.nRow = s.sparse.nCol
    · simp [h, Op.kind, Op.ty]
    · simp [h, Op.kind]
  | _ => rfl

theorem b2d_ty {o : Op} (hw : o.WF) :
    o.b2d.map Op.ty = (match o.kind with
      | .slr => .ok ⟨.slr, o.nRow + o.nCol, o.nRow + o.nCol⟩
      | _ => .error .typeError) := by
  cases o with
  | slr s =>
    simp only [b2d]
    obtain ⟨t, ht, h1, h2⟩ := slrB2D_ok hw
    rw [ht]
    simp [Op.kind, Op.ty, h1, h2]
  | _ => rfl

theorem b2u_ty {o : Op} (hw : o.WF) :
    o.b2u.map Op.ty = (match o.kind with
      | .slr => .ok ⟨.slr, o.nRow + o.nCol, o.nRow + o.nCol⟩
      | _ => .error .typeError) := by
  cases o with
  | slr s =>
    simp only [b2u]
    obtain ⟨t, ht, h1, h2⟩ := slrB2U_ok hw
    rw [ht]
    simp [Op.kind, Op.ty, h1, h2]
  | _ => rfl

theorem normalize_ty {o : Op} (hw : o.WF) :
    o.normalize.map Op.ty = (match o.kind with
      | .slr | .con => .ok o.ty
      | _ => .error .unsupported) := by
  cases o with
  | slr s =>
    simp only [normalize]
    unfold slrNormalize
    rw [SLR.leftDot_eq hw]
    simp [Op.kind, Op.ty, SLR.nRow]
  | con c =>
    simp only [normalize]
    unfold CoNeighbor.leftDot Mat.mul?
    simp [Op.kind, Op.ty, CoNeighbor.nRow, CoNeighbor.nCol]
  | _ => rfl

end Op

namespace OpExpr

/-- **static typing is exact**: the evaluation of an expression succeeds with an operator of the class and shape
`type?` computes, or raises the exception `type?` predicts — whatever the entries of the matrices -/
theorem eval_type : ∀ (e : OpExpr), e.eval.map Op.ty = e.type?
  | slr s ts => by
    simp only [eval, type?]
    unfold SLR.init
    by_cases h : (ts.all fun t => t.1.length == s.nRow && t.2.length == s.nCol) = true
    · rw [if_pos h, if_pos h]; rfl
    · rw [if_neg h, if_neg h]; rfl
  | regularizer a reg => by
    simp only [eval, type?]
    obtain ⟨s, hs⟩ := regularizer_ok a reg
    rw [hs]
    unfold LinOp.regularizer at hs
    obtain ⟨rfl, -⟩ := SLR.init_ok hs
    rfl
  | normalizer a reg => by
    simp only [eval, type?]
    by_cases h : a.nCol = 0
    · rw [if_pos h, if_pos h]; rfl
    · rw [if_neg h, if_neg h]; rfl
  | laplacian a reg nz sq => by
    simp only [eval, type?]
    by_cases h0 : a.nRow = 0 ∧ a.nCol = 0
    · rw [if_pos h0, if_pos h0]; rfl
    · rw [if_neg h0, if_neg h0]
      unfold Laplacian.init
      by_cases h : a.nRow ≠ a.nCol
      · rw [if_pos h, if_pos h]; rfl
      · rw [if_neg h, if_neg h]; rfl
  | coneighbor a nz => by
    simp only [eval, type?]
    unfold CoNeighbor.init
    by_cases h : a.isNull = true
    · rw [if_pos h, if_pos h]; rfl
    · rw [if_neg h, if_neg h]
      cases nz <;> rfl
  | polynome a cs => by
    simp only [eval, type?]
    unfold Polynome.init
    by_cases h1 : cs.isEmpty = true
    · rw [if_pos h1, if_pos h1]; rfl
    · rw [if_neg h1, if_neg h1]
      by_cases h2 : a.isNull = true
      · rw [if_pos h2, if_pos h2]; rfl
      · rw [if_neg h2, if_neg h2]
        by_cases h3 : a.nRow ≠ a.nCol
        · rw [if_pos h3, if_pos h3]; rfl
        · rw [if_neg h3, if_neg h3]; rfl
  | neg e => by
    have ih := eval_type e
    simp only [eval, type?]
    cases he : e.eval with
    | error err => rw [he] at ih; rw [← ih]; rfl
    | ok x =>
      rw [he] at ih
      rw [← ih]
      exact Op.neg_ty (eval_wf e x he)
  | mul e c => by
    have ih := eval_type e
    simp only [eval, type?]
    cases he : e.eval with
    | error err => rw [he] at ih; rw [← ih]; rfl
    | ok x =>
      rw [he] at ih
      rw [← ih]
      exact Op.mul_ty (eval_wf e x he) c
  | add e f => by
    have ih1 := eval_type e
    have ih2 := eval_type f
    simp only [eval, type?]
    cases he : e.eval with
    | error err => rw [he] at ih1; rw [← ih1]; rfl
    | ok x =>
      rw [he] at ih1
      rw [← ih1]
      cases hf : f.eval with
      | error err => rw [hf] at ih2; rw [← ih2]; rfl
      | ok y =>
        rw [hf] at ih2
        rw [← ih2]
        exact Op.add_ty (eval_wf e x he) (eval_wf f y hf)
  | sub e f => by
    have ih1 := eval_type e
    have ih2 := eval_type f
    simp only [eval, type?]
    cases he : e.eval with
    | error err => rw [he] at ih1; rw [← ih1]; rfl
    | ok x =>
      rw [he] at ih1
      rw [← ih1]
      cases hf : f.eval with
      | error err => rw [hf] at ih2; rw [← ih2]; rfl
      | ok y =>
        rw [hf] at ih2
        rw [← ih2]
        exact Op.sub_ty (eval_wf e x he) (eval_wf f y hf)
  | addCsr e a => by
    have ih := eval_type e
    simp only [eval, type?]
    cases he : e.eval with
    | error err => rw [he] at ih; rw [← ih]; rfl
    | ok x =>
      rw [he] at ih
      rw [← ih]
      have := Op.addCsr_ty (eval_wf e x he) a
      cases x <;> exact this
  | subCsr e a => by
    have ih := eval_type e
    simp only [eval, type?]
    cases he : e.eval with
    | error err => rw [he] at ih; rw [← ih]; rfl
    | ok x =>
      rw [he] at ih
      rw [← ih]
      have := Op.subCsr_ty (eval_wf e x he) a
      cases x <;> exact this
  | transpose e => by
    have ih := eval_type e
    simp only [eval, type?]
    cases he : e.eval with
    | error err => rw [he] at ih; rw [← ih]; rfl
    | ok x =>
      rw [he] at ih
      rw [← ih]
      have := Op.transpose_ty (eval_wf e x he)
      cases x <;> exact this
  | leftDot m e => by
    have ih := eval_type e
    simp only [eval, type?]
    cases he : e.eval with
    | error err => rw [he] at ih; rw [← ih]; rfl
    | ok x =>
      rw [he] at ih
      rw [← ih]
      have := Op.leftDot_ty (eval_wf e x he) m
      cases x <;> exact this
  | rightDot e m => by
    have ih := eval_type e
    simp only [eval, type?]
    cases he : e.eval with
    | error err => rw [he] at ih; rw [← ih]; rfl
    | ok x =>
      rw [he] at ih
      rw [← ih]
      have := Op.rightDot_ty (eval_wf e x he) m
      cases x <;> exact this
  | astype e dt => by
    have ih := eval_type e
    simp only [eval, type?]
    cases he : e.eval with
    | error err => rw [he] at ih; rw [← ih]; rfl
    | ok x =>
      rw [he] at ih
      rw [← ih]
      have := Op.astype_ty x dt
      cases x <;> exact this
  | rmul c e => by
    have ih := eval_type e
    simp only [eval, type?]
    cases he : e.eval with
    | error err => rw [he] at ih; rw [← ih]; rfl
    | ok x =>
      rw [he] at ih
      rw [← ih]
      exact Op.rmul_ty x c
  | d2u e => by
    have ih := eval_type e
    simp only [eval, type?]
    cases he : e.eval with
    | error err => rw [he] at ih; rw [← ih]; rfl
    | ok x =>
      rw [he] at ih
      rw [← ih]
      have := Op.d2u_ty (eval_wf e x he)
      cases x <;> exact this
  | b2d e => by
    have ih := eval_type e
    simp only [eval, type?]
    cases he : e.eval with
    | error err => rw [he] at ih; rw [← ih]; rfl
    | ok x =>
      rw [he] at ih
      rw [← ih]
      have := Op.b2d_ty (eval_wf e x he)
      cases x <;> exact this
  | b2u e => by
    have ih := eval_type e
    simp only [eval, type?]
    cases he : e.eval with
    | error err => rw [he] at ih; rw [← ih]; rfl
    | ok x =>
      rw [he] at ih
      rw [← ih]
      have := Op.b2u_ty (eval_wf e x he)
      cases x <;> exact this
  | normalize e => by
    have ih := eval_type e
    simp only [eval, type?]
    cases he : e.eval with
    | error err => rw [he] at ih; rw [← ih]; rfl
    | ok x =>
      rw [he] at ih
      rw [← ih]
      have := Op.normalize_ty (eval_wf e x he)
      cases x <;> exact this

end OpExpr
end SkNet.LinOp
