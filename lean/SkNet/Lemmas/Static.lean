/- A static characterisation of `ValidDendroW` (no replay): children created earlier, all children pairwise distinct,
   sizes add up.  It is what survives renamings and permutations of the rows (reorder, aggregate, split). -/
import SkNet.Lemmas.Live
import SkNet.Lemmas.GetDendro

set_option linter.unusedSimpArgs false

namespace SkNet.Dendro
variable {α : Type}

/-- all children, row by row -/
def childList (D : List (Row α)) : List Nat := D.flatMap fun r => [r.i, r.j]

/-- size of a node: its weight for a leaf, the size column of its row for a merge -/
def szW (w : List Nat) (D : List (Row α)) (x : Nat) : Nat :=
  if x < w.length then w.getD x 0 else ((D[x - w.length]?).map (fun (r : Row α) => r.s)).getD 0

structure StaticValidW (w : List Nat) (D : List (Row α)) : Prop where
  len : D.length + 1 = w.length
  bound : ∀ (t : Nat) (r : Row α), D[t]? = some r → r.i < w.length + t ∧ r.j < w.length + t ∧ r.i ≠ r.j
  nodup : (childList D).Nodup
  size : ∀ (t : Nat) (r : Row α), D[t]? = some r → r.s = szW w D r.i + szW w D r.j

theorem childList_append (a b : List (Row α)) : childList (a ++ b) = childList a ++ childList b := by
  simp [childList]

theorem take_succ_of_get {D : List (Row α)} {t : Nat} {r : Row α} (h : D[t]? = some r) :
    D.take (t + 1) = D.take t ++ [r] := by
  rw [List.take_add_one, h]; rfl

theorem liveInit_get?_full (w : List Nat) (x : Nat) :
    (liveInit w).get? x = if x < w.length then some (w.getD x 0) else none := by
  unfold liveInit
  by_cases h : x < w.length
  · rw [Hier.get?_map_range (fun i => w.getD i 0) w.length x h]; simp [h]
  · simp only [h, if_false]
    rw [Dict.get?_eq_none_iff]
    simp [Dict.keys, Function.comp_def]; omega

/-- the live set after `t` rows, as a function -/
theorem live_char (w : List Nat) (D : List (Row α)) : ∀ (t : Nat) (L : Dict Nat), t ≤ D.length →
    liveAfter w.length 0 (D.take t) (liveInit w) = some L →
    (∀ c ∈ childList (D.take t), c < w.length + t) ∧
    ∀ x, L.get? x = if x < w.length + t ∧ x ∉ childList (D.take t) then some (szW w D x) else none := by
  intro t
  induction t with
  | zero =>
    intro L _ h
    simp only [List.take_zero, liveAfter, Option.some.injEq] at h
    subst h
    refine ⟨by simp [childList], fun x => ?_⟩
    rw [liveInit_get?_full]
    simp only [List.take_zero, childList, List.flatMap_nil, List.not_mem_nil, not_false_eq_true, and_true,
      Nat.add_zero, szW]
    split <;> rfl
  | succ t ih =>
    intro L ht h
    have hlt : t < D.length := by omega
    obtain ⟨r, hr⟩ : ∃ r, D[t]? = some r := ⟨D[t], List.getElem?_eq_getElem hlt⟩
    rw [take_succ_of_get hr, liveAfter_append] at h
    cases hL : liveAfter w.length 0 (D.take t) (liveInit w) with
    | none => simp [hL] at h
    | some Lt =>
      simp only [hL, Option.bind_some, Nat.zero_add, liveAfter, List.length_take, Nat.min_eq_left (Nat.le_of_lt hlt)] at h
      cases hs : liveStep w.length t r Lt with
      | none => simp [hs] at h
      | some L' =>
        simp only [hs, Option.bind_some, Option.some.injEq] at h
        subst h
        obtain ⟨hb, hc⟩ := ih Lt (by omega) hL
        have hlinv : LInv w.length t Lt := by
          have := (liveAfter_linv (D.take t) 0 _ Lt (linv_init w) hL).1
          simpa [Nat.min_eq_left (Nat.le_of_lt hlt)] using this
        obtain ⟨si, sj, hi, hj, hne, hsz, _, _, hget⟩ := liveStep_spec hlinv hs
        have hbi := hlinv.bound _ (Dict.get?_some_key_mem hi)
        have hbj := hlinv.bound _ (Dict.get?_some_key_mem hj)
        rw [take_succ_of_get hr, childList_append]
        refine ⟨?_, fun x => ?_⟩
        · intro c hcm
          rcases List.mem_append.mp hcm with h1 | h1
          · have := hb c h1; omega
          · simp only [childList, List.flatMap_cons, List.flatMap_nil, List.append_nil, List.mem_cons,
              List.not_mem_nil, or_false] at h1
            rcases h1 with h1 | h1 <;> omega
        · rw [hget]
          have hcl : childList [r] = [r.i, r.j] := by simp [childList]
          rw [hcl]
          by_cases e1 : x = w.length + t
          · subst e1
            have hnot : w.length + t ∉ childList (D.take t) ++ [r.i, r.j] := by
              intro hm
              rcases List.mem_append.mp hm with h1 | h1
              · have := hb _ h1; omega
              · simp only [List.mem_cons, List.not_mem_nil, or_false] at h1
                rcases h1 with h1 | h1 <;> omega
            have hsz' : szW w D (w.length + t) = r.s := by
              have e : ¬ (w.length + t < w.length) := by omega
              simp [szW, hr, e]
            simp [hnot, hsz']
          · simp only [e1, if_false]
            by_cases e2 : x = r.j
            · simp [e2]
            · simp only [e2, if_false]
              by_cases e3 : x = r.i
              · simp [e3]
              · simp only [e3, if_false]
                rw [hc x]
                have : (x < w.length + (t + 1) ∧ x ∉ childList (D.take t) ++ [r.i, r.j]) ↔
                    (x < w.length + t ∧ x ∉ childList (D.take t)) := by
                  simp only [List.mem_append, List.mem_cons, List.not_mem_nil, or_false, not_or]
                  constructor
                  · rintro ⟨h1, h2, _⟩; exact ⟨by omega, h2⟩
                  · rintro ⟨h1, h2⟩; exact ⟨by omega, h2, e3, e2⟩
                simp only [this]

theorem liveAfter_take {n : Nat} {D : List (Row α)} {live L : Dict Nat} (t : Nat)
    (h : liveAfter n 0 D live = some L) : ∃ Lt, liveAfter n 0 (D.take t) live = some Lt := by
  rw [← List.take_append_drop t D, liveAfter_append] at h
  cases hL : liveAfter n 0 (D.take t) live with
  | none => simp [hL] at h
  | some Lt => exact ⟨Lt, rfl⟩

/-- validity by replay implies the static conditions -/
theorem static_of_valid {w : List Nat} {D : List (Row α)} (hv : ValidDendroW w D = true) :
    StaticValidW w D := by
  unfold ValidDendroW at hv
  simp only [Bool.and_eq_true, beq_iff_eq] at hv
  obtain ⟨hlen, hvl⟩ := hv
  rw [validLoop_eq_isSome] at hvl
  obtain ⟨L, hL⟩ := Option.isSome_iff_exists.mp hvl
  -- facts about every row
  have hrow : ∀ t r, D[t]? = some r →
      r.i < w.length + t ∧ r.j < w.length + t ∧ r.i ≠ r.j ∧ r.s = szW w D r.i + szW w D r.j ∧
      r.i ∉ childList (D.take t) ∧ r.j ∉ childList (D.take t) := by
    intro t r hr
    have hlt : t < D.length := (List.getElem?_eq_some_iff.mp hr).1
    obtain ⟨L1, hL1⟩ := liveAfter_take (t + 1) hL
    rw [take_succ_of_get hr, liveAfter_append] at hL1
    cases hLt : liveAfter w.length 0 (D.take t) (liveInit w) with
    | none => simp [hLt] at hL1
    | some Lt =>
      simp only [hLt, Option.bind_some, Nat.zero_add, liveAfter, List.length_take,
        Nat.min_eq_left (Nat.le_of_lt hlt)] at hL1
      cases hs : liveStep w.length t r Lt with
      | none => simp [hs] at hL1
      | some L' =>
        obtain ⟨_, hc⟩ := live_char w D t Lt (by omega) hLt
        have hlinv : LInv w.length t Lt := by
          have := (liveAfter_linv (D.take t) 0 _ Lt (linv_init w) hLt).1
          simpa [Nat.min_eq_left (Nat.le_of_lt hlt)] using this
        obtain ⟨si, sj, hi, hj, hne, hsz, _, _, _⟩ := liveStep_spec hlinv hs
        rw [hc] at hi hj
        split at hi
        · rename_i h1
          split at hj
          · rename_i h2
            simp only [Option.some.injEq] at hi hj
            exact ⟨h1.1, h2.1, hne, by rw [hsz, ← hi, ← hj], h1.2, h2.2⟩
          · cases hj
        · cases hi
  refine ⟨hlen, fun t r hr => ⟨(hrow t r hr).1, (hrow t r hr).2.1, (hrow t r hr).2.2.1⟩, ?_,
    fun t r hr => (hrow t r hr).2.2.2.1⟩
  -- all children distinct: prefix by prefix
  have : ∀ t, t ≤ D.length → (childList (D.take t)).Nodup := by
    intro t
    induction t with
    | zero => intro _; simp [childList]
    | succ t ih =>
      intro ht
      have hlt : t < D.length := by omega
      have hr : D[t]? = some D[t] := List.getElem?_eq_getElem hlt
      obtain ⟨_, _, hne, _, h5, h6⟩ := hrow t _ hr
      rw [take_succ_of_get hr, childList_append]
      refine List.nodup_append.mpr ⟨ih (by omega), by simp [childList, hne], ?_⟩
      intro a ha b hb
      simp only [childList, List.flatMap_cons, List.flatMap_nil, List.append_nil, List.mem_cons,
        List.not_mem_nil, or_false] at hb
      rcases hb with hb | hb <;> (subst hb; intro e; subst e; first | exact h5 ha | exact h6 ha)
  have := this D.length (Nat.le_refl _)
  simpa using this

/-- the static conditions imply validity by replay -/
theorem valid_of_static {w : List Nat} {D : List (Row α)} (hs : StaticValidW w D) :
    ValidDendroW w D = true := by
  unfold ValidDendroW
  simp only [Bool.and_eq_true, beq_iff_eq]
  refine ⟨hs.len, ?_⟩
  rw [validLoop_eq_isSome]
  have : ∀ t, t ≤ D.length → ∃ L, liveAfter w.length 0 (D.take t) (liveInit w) = some L := by
    intro t
    induction t with
    | zero => intro _; exact ⟨_, rfl⟩
    | succ t ih =>
      intro ht
      have hlt : t < D.length := by omega
      have hr : D[t]? = some D[t] := List.getElem?_eq_getElem hlt
      obtain ⟨Lt, hLt⟩ := ih (by omega)
      obtain ⟨_, hc⟩ := live_char w D t Lt (by omega) hLt
      obtain ⟨hbi, hbj, hne⟩ := hs.bound t _ hr
      -- the children of row t do not occur in earlier rows
      have hsplit : childList D = childList (D.take t) ++ childList (D.drop t) := by
        rw [← childList_append, List.take_append_drop]
      have hdrop : D.drop t = D[t] :: D.drop (t + 1) := by
        rw [List.drop_eq_getElem_cons hlt]
      have hnd := hs.nodup
      rw [hsplit, hdrop] at hnd
      have hdisj := (List.nodup_append.mp hnd).2.2
      have hi : Lt.get? D[t].i = some (szW w D D[t].i) := by
        rw [hc]
        have : D[t].i ∉ childList (D.take t) := fun hm =>
          hdisj _ hm _ (by simp only [childList, List.flatMap_cons]; exact List.mem_append_left _ (by simp)) rfl
        simp [hbi, this]
      have hj : Lt.get? D[t].j = some (szW w D D[t].j) := by
        rw [hc]
        have : D[t].j ∉ childList (D.take t) := fun hm =>
          hdisj _ hm _ (by simp only [childList, List.flatMap_cons]; exact List.mem_append_left _ (by simp)) rfl
        simp [hbj, this]
      refine ⟨((Lt.erase D[t].i).erase D[t].j).set (w.length + t) D[t].s, ?_⟩
      rw [take_succ_of_get hr, liveAfter_append, hLt]
      simp only [Option.bind_some, Nat.zero_add, liveAfter, List.length_take, Nat.min_eq_left (Nat.le_of_lt hlt)]
      rw [liveStep_ok hi hj hne (hs.size t _ hr)]
      rfl
  obtain ⟨L, hL⟩ := this D.length (Nat.le_refl _)
  rw [List.take_length] at hL
  rw [hL]; rfl

end SkNet.Dendro
