/-
Helper lemmas for C14: geometric contraction of the Dirichlet round towards the harmonic function, convergence.

If every node reaches a seed within `T` steps and `δ > 0` bounds the positive transition probabilities from below,
then `T+1` rounds shrink the sup-distance to the harmonic function by the factor `1 - δ^T < 1`.
-/
import SkNet.Lemmas.HeatHarmonic
import Mathlib.Algebra.Order.Archimedean.Basic

namespace SkNet.Heat
open SkNet.HeatSpec

attribute [-simp] List.getD_eq_getElem?_getD

theorem sumTo_ge_term {n : Nat} {f : Nat → Rat} (h : ∀ k, k < n → 0 ≤ f k) {j : Nat} (hj : j < n) :
    f j ≤ sumTo n f := by
  induction n with
  | zero => omega
  | succ n ih =>
    rw [sumTo_succ]
    by_cases hjn : j = n
    · subst hjn
      have := sumTo_nonneg (fun k hk => h k (by omega) : ∀ k, k < j → 0 ≤ f k)
      linarith
    · have := ih (fun k hk => h k (by omega)) (by omega)
      have := h n (by omega)
      linarith

theorem loop_add (step : List Rat → List Rat) (a b : Nat) (v : List Rat) :
    loop step (a + b) v = loop step b (loop step a v) := by
  induction a generalizing v with
  | zero => simp [loop]
  | succ a ih =>
    have : a + 1 + b = (a + b) + 1 := by omega
    rw [this]
    simp only [loop]
    exact ih (step v)

section contraction

variable {n : Nat} {A : Nat → Nat → Rat} {temps : List Rat} {border : List Bool} {h : Nat → Rat}

/-- the Dirichlet round of the model on the graph `A` -/
abbrev dstep (n : Nat) (A : Nat → Nat → Rat) (temps : List Rat) (border : List Bool) : List Rat → List Rat :=
  dirichletStep n (mat n n (normalize n A)) temps border

/-- all entries within `M` of `h` -/
def Within (n : Nat) (h : Nat → Rat) (M : Rat) (v : List Rat) : Prop :=
  ∀ i, i < n → -M ≤ v.getD i 0 - h i ∧ v.getD i 0 - h i ≤ M

theorem dstep_diff_interior
    (hA : ∀ i j, i < n → j < n → 0 ≤ A i j)
    (hN : ∀ i, i < n → border.getD i false = false → rowNorm n A i ≠ 0)
    (hH : IsHarmonic n A (fun i => border.getD i false) (fun i => temps.getD i 0) h)
    {v : List Rat} {i : Nat} (hi : i < n) (hb : border.getD i false = false) :
    (dstep n A temps border v).getD i 0 - h i = sumTo n fun j => normalize n A i j * (v.getD j 0 - h j) := by
  rw [dirichletStep_getD hi, hb]
  simp only [Bool.false_eq_true, if_false]
  have hh : h i = sumTo n fun j => normalize n A i j * h j :=
    (harmonic_normalized (fun j hj => hA i j hi hj) (hN i hi hb)).1 ((hH i hi).2 hb)
  rw [hh, ← sumTo_sub]
  exact sumTo_congr (fun j hj => by rw [ent_mat hi hj]; ring)

theorem dstep_diff_border
    (hH : IsHarmonic n A (fun i => border.getD i false) (fun i => temps.getD i 0) h)
    {v : List Rat} {i : Nat} (hi : i < n) (hb : border.getD i false = true) :
    (dstep n A temps border v).getD i 0 - h i = 0 := by
  rw [dirichletStep_getD hi, hb]
  simp only [if_true]
  rw [(hH i hi).1 hb]; ring

theorem within_loop
    (hA : ∀ i j, i < n → j < n → 0 ≤ A i j)
    (hN : ∀ i, i < n → border.getD i false = false → rowNorm n A i ≠ 0)
    (hH : IsHarmonic n A (fun i => border.getD i false) (fun i => temps.getD i 0) h)
    (hn : 0 < n) {M : Rat} {v : List Rat} (hv : Within n h M v) (s : Nat) :
    Within n h M (loop (dstep n A temps border) s v) :=
  loop_invariant (Within n h M) (fun _ hv => dirichletStep_harmonic_diff hA hN hH hn hv) s v hv

/-- a node that reaches a seed within `t` steps is, from round `t+1` on, within `(1 - δ^t)·M` of `h` -/
theorem reach_contracts
    (hA : ∀ i j, i < n → j < n → 0 ≤ A i j)
    (hN : ∀ i, i < n → border.getD i false = false → rowNorm n A i ≠ 0)
    (hH : IsHarmonic n A (fun i => border.getD i false) (fun i => temps.getD i 0) h)
    (hn : 0 < n) {δ : Rat} (hδ0 : 0 < δ) (hδ1 : δ ≤ 1)
    (hδ : ∀ i j, i < n → j < n → 0 < A i j → δ ≤ normalize n A i j)
    {M : Rat} {v : List Rat} (hv : Within n h M v) :
    ∀ {t i}, ReachesSeed n A (fun i => border.getD i false) t i → ∀ s, t + 1 ≤ s →
      -((1 - δ ^ t) * M) ≤ (loop (dstep n A temps border) s v).getD i 0 - h i ∧
      (loop (dstep n A temps border) s v).getD i 0 - h i ≤ (1 - δ ^ t) * M := by
  have hM : 0 ≤ M := by have := hv 0 hn; linarith
  have hpow : ∀ t : Nat, 0 < δ ^ t ∧ δ ^ t ≤ 1 := fun t => ⟨pow_pos hδ0 t, pow_le_one₀ (le_of_lt hδ0) hδ1⟩
  have hborder : ∀ (t i : Nat), i < n → border.getD i false = true → ∀ s, 1 ≤ s →
      -((1 - δ ^ t) * M) ≤ (loop (dstep n A temps border) s v).getD i 0 - h i ∧
      (loop (dstep n A temps border) s v).getD i 0 - h i ≤ (1 - δ ^ t) * M := by
    intro t i hi hb s hs
    obtain ⟨s', rfl⟩ : ∃ s', s = s' + 1 := ⟨s - 1, by omega⟩
    rw [loop_succ_last, dstep_diff_border hH hi hb]
    have : 0 ≤ (1 - δ ^ t) * M := mul_nonneg (by linarith [(hpow t).2]) hM
    constructor <;> linarith
  intro t i hr
  induction hr with
  | @here i t hi hs => intro s hs'; exact hborder t i hi hs s (by omega)
  | @step i j t hi hw hrj ih =>
    intro s hs
    cases hb : border.getD i false with
    | true => exact hborder (t+1) i hi hb s (by omega)
    | false =>
      obtain ⟨s', rfl⟩ : ∃ s', s = s' + 1 := ⟨s - 1, by omega⟩
      have hj : j < n := reachesSeed_lt hrj
      rw [loop_succ_last, dstep_diff_interior hA hN hH hi hb]
      set w := loop (dstep n A temps border) s' v with hwdef
      have hall : Within n h M w := within_loop hA hN hH hn hv s'
      have hjb := ih s' (by omega)
      have hAi : ∀ k, k < n → 0 ≤ A i k := fun k hk => hA i k hi hk
      have hP : ∀ k, k < n → 0 ≤ normalize n A i k := fun k hk => normalize_nonneg (hAi k hk)
      have hsum : sumTo n (normalize n A i) = 1 := normalize_row_sum hAi (hN i hi hb)
      have hPj : δ ≤ normalize n A i j := hδ i j hi hj hw
      have hδt := hpow t
      have hpow_succ : δ ^ (t + 1) = δ * δ ^ t := by ring
      constructor
      · -- lower bound: Σ P (M + e) ≥ P_j (M + e_j) ≥ δ·δ^t·M
        have h1 : normalize n A i j * (M + (w.getD j 0 - h j)) ≤
            sumTo n (fun k => normalize n A i k * (M + (w.getD k 0 - h k))) :=
          sumTo_ge_term (f := fun k => normalize n A i k * (M + (w.getD k 0 - h k)))
            (fun k hk => mul_nonneg (hP k hk) (by have := (hall k hk).1; linarith)) hj
        have h2 : sumTo n (fun k => normalize n A i k * (M + (w.getD k 0 - h k))) =
            M + sumTo n (fun k => normalize n A i k * (w.getD k 0 - h k)) := by
          rw [sumTo_congr (fun k _ => by ring : ∀ k, k < n → normalize n A i k * (M + (w.getD k 0 - h k)) =
            normalize n A i k * M + normalize n A i k * (w.getD k 0 - h k)), sumTo_add, sumTo_mul_right, hsum]
          ring
        have h3 : δ * (δ ^ t * M) ≤ normalize n A i j * (M + (w.getD j 0 - h j)) := by
          have hge : δ ^ t * M ≤ M + (w.getD j 0 - h j) := by have := hjb.1; linarith
          have h0 : 0 ≤ δ ^ t * M := mul_nonneg (le_of_lt hδt.1) hM
          exact mul_le_mul hPj hge h0 (le_trans (le_of_lt hδ0) hPj)
        rw [hpow_succ]
        linarith
      · have h1 : normalize n A i j * (M - (w.getD j 0 - h j)) ≤
            sumTo n (fun k => normalize n A i k * (M - (w.getD k 0 - h k))) :=
          sumTo_ge_term (f := fun k => normalize n A i k * (M - (w.getD k 0 - h k)))
            (fun k hk => mul_nonneg (hP k hk) (by have := (hall k hk).2; linarith)) hj
        have h2 : sumTo n (fun k => normalize n A i k * (M - (w.getD k 0 - h k))) =
            M - sumTo n (fun k => normalize n A i k * (w.getD k 0 - h k)) := by
          rw [sumTo_congr (fun k _ => by ring : ∀ k, k < n → normalize n A i k * (M - (w.getD k 0 - h k)) =
            normalize n A i k * M - normalize n A i k * (w.getD k 0 - h k)), sumTo_sub, sumTo_mul_right, hsum]
          ring
        have h3 : δ * (δ ^ t * M) ≤ normalize n A i j * (M - (w.getD j 0 - h j)) := by
          have hge : δ ^ t * M ≤ M - (w.getD j 0 - h j) := by have := hjb.2; linarith
          have h0 : 0 ≤ δ ^ t * M := mul_nonneg (le_of_lt hδt.1) hM
          exact mul_le_mul hPj hge h0 (le_trans (le_of_lt hδ0) hPj)
        rw [hpow_succ]
        linarith

/-- `T+1` rounds shrink the sup-distance to `h` by the factor `1 - δ^T` -/
theorem contracts_uniform
    (hA : ∀ i j, i < n → j < n → 0 ≤ A i j)
    (hN : ∀ i, i < n → border.getD i false = false → rowNorm n A i ≠ 0)
    (hH : IsHarmonic n A (fun i => border.getD i false) (fun i => temps.getD i 0) h)
    (hn : 0 < n) {δ : Rat} (hδ0 : 0 < δ) (hδ1 : δ ≤ 1)
    (hδ : ∀ i j, i < n → j < n → 0 < A i j → δ ≤ normalize n A i j)
    {T : Nat} (hT : ∀ i, i < n → ReachesSeed n A (fun i => border.getD i false) T i)
    {M : Rat} {v : List Rat} (hv : Within n h M v) (s : Nat) (hs : T + 1 ≤ s) :
    Within n h ((1 - δ ^ T) * M) (loop (dstep n A temps border) s v) :=
  fun i hi => reach_contracts hA hN hH hn hδ0 hδ1 hδ hv (hT i hi) s hs

/-- … hence by `c^q` after `q·(T+1)` rounds -/
theorem contracts_pow
    (hA : ∀ i j, i < n → j < n → 0 ≤ A i j)
    (hN : ∀ i, i < n → border.getD i false = false → rowNorm n A i ≠ 0)
    (hH : IsHarmonic n A (fun i => border.getD i false) (fun i => temps.getD i 0) h)
    (hn : 0 < n) {δ : Rat} (hδ0 : 0 < δ) (hδ1 : δ ≤ 1)
    (hδ : ∀ i j, i < n → j < n → 0 < A i j → δ ≤ normalize n A i j)
    {T : Nat} (hT : ∀ i, i < n → ReachesSeed n A (fun i => border.getD i false) T i)
    {M : Rat} {v : List Rat} (hv : Within n h M v) :
    ∀ (q s : Nat), q * (T + 1) ≤ s → Within n h ((1 - δ ^ T) ^ q * M) (loop (dstep n A temps border) s v) := by
  intro q
  induction q with
  | zero =>
    intro s _
    simpa using within_loop hA hN hH hn hv s
  | succ q ih =>
    intro s hs
    have hsplit : s = q * (T + 1) + (s - q * (T + 1)) := by
      have : q * (T + 1) ≤ s := by
        have : (q + 1) * (T + 1) = q * (T + 1) + (T + 1) := by ring
        omega
      omega
    rw [hsplit, loop_add]
    have hq := ih (q * (T + 1)) (le_refl _)
    have := contracts_uniform hA hN hH hn hδ0 hδ1 hδ hT hq (s - q * (T + 1)) (by
      have : (q + 1) * (T + 1) = q * (T + 1) + (T + 1) := by ring
      omega)
    have e : (1 - δ ^ T) * ((1 - δ ^ T) ^ q * M) = (1 - δ ^ T) ^ (q + 1) * M := by ring
    rwa [e] at this

/-- **convergence**: the iterates get within any `ε > 0` of the harmonic function and stay there -/
theorem converges_of_bounds
    (hA : ∀ i j, i < n → j < n → 0 ≤ A i j)
    (hN : ∀ i, i < n → border.getD i false = false → rowNorm n A i ≠ 0)
    (hH : IsHarmonic n A (fun i => border.getD i false) (fun i => temps.getD i 0) h)
    (hn : 0 < n) {δ : Rat} (hδ0 : 0 < δ) (hδ1 : δ ≤ 1)
    (hδ : ∀ i j, i < n → j < n → 0 < A i j → δ ≤ normalize n A i j)
    {T : Nat} (hT : ∀ i, i < n → ReachesSeed n A (fun i => border.getD i false) T i)
    {M : Rat} {v : List Rat} (hv : Within n h M v) {ε : Rat} (hε : 0 < ε) :
    ∃ K, ∀ s, K ≤ s → Within n h ε (loop (dstep n A temps border) s v) := by
  have hM : 0 ≤ M := by have := hv 0 hn; linarith
  have hc0 : 0 ≤ 1 - δ ^ T := by have := pow_le_one₀ (n := T) (le_of_lt hδ0) hδ1; linarith
  have hc1 : 1 - δ ^ T < 1 := by have := pow_pos hδ0 T; linarith
  obtain ⟨q, hq⟩ := exists_pow_lt_of_lt_one (div_pos hε (by linarith : (0 : Rat) < M + 1)) hc1
  refine ⟨q * (T + 1), fun s hs i hi => ?_⟩
  have hb := contracts_pow hA hN hH hn hδ0 hδ1 hδ hT hv q s hs i hi
  have hle : (1 - δ ^ T) ^ q * M ≤ ε := by
    have h1 : (1 - δ ^ T) ^ q * (M + 1) < ε := by
      have := (lt_div_iff₀ (by linarith : (0 : Rat) < M + 1)).1 hq
      linarith
    have h2 : 0 ≤ (1 - δ ^ T) ^ q := pow_nonneg hc0 q
    nlinarith
  constructor <;> linarith [hb.1, hb.2]

end contraction

/-! ### existence of `T` and `δ` on a finite graph -/

theorem exists_uniform_reach {n : Nat} {w : Nat → Nat → Rat} {seed : Nat → Bool}
    (h : ∀ i, i < n → ∃ t, ReachesSeed n w seed t i) :
    ∃ T, ∀ i, i < n → ReachesSeed n w seed T i := by
  have key : ∀ m, m ≤ n → ∃ T, ∀ i, i < m → ReachesSeed n w seed T i := by
    intro m
    induction m with
    | zero => intro _; exact ⟨0, fun i hi => by omega⟩
    | succ m ih =>
      intro hm
      obtain ⟨T, hT⟩ := ih (by omega)
      obtain ⟨t, ht⟩ := h m (by omega)
      refine ⟨max T t, fun i hi => ?_⟩
      by_cases him : i = m
      · subst him; exact reachesSeed_mono ht (le_max_right _ _)
      · exact reachesSeed_mono (hT i (by omega)) (le_max_left _ _)
  exact key n (le_refl _)

theorem exists_pos_lower_bound (m : Nat) (f : Nat → Rat) :
    ∃ δ : Rat, 0 < δ ∧ δ ≤ 1 ∧ ∀ k, k < m → 0 < f k → δ ≤ f k := by
  induction m with
  | zero => exact ⟨1, by norm_num, le_refl _, fun k hk => by omega⟩
  | succ m ih =>
    obtain ⟨δ, h0, h1, hb⟩ := ih
    by_cases hf : 0 < f m
    · refine ⟨min δ (f m), lt_min h0 hf, le_trans (min_le_left _ _) h1, fun k hk hpos => ?_⟩
      by_cases hkm : k = m
      · subst hkm; exact min_le_right _ _
      · exact le_trans (min_le_left _ _) (hb k (by omega) hpos)
    · refine ⟨δ, h0, h1, fun k hk hpos => ?_⟩
      by_cases hkm : k = m
      · subst hkm; exact absurd hpos hf
      · exact hb k (by omega) hpos

theorem exists_delta (n : Nat) (P : Nat → Nat → Rat) :
    ∃ δ : Rat, 0 < δ ∧ δ ≤ 1 ∧ ∀ i j, i < n → j < n → 0 < P i j → δ ≤ P i j := by
  obtain ⟨δ, h0, h1, hb⟩ := exists_pos_lower_bound (n * n) (fun k => P (k / n) (k % n))
  refine ⟨δ, h0, h1, fun i j hi hj hpos => ?_⟩
  have hk : i * n + j < n * n := by
    calc i * n + j < i * n + n := by omega
      _ = (i + 1) * n := by ring
      _ ≤ n * n := Nat.mul_le_mul_right n (by omega)
  have hn : 0 < n := by omega
  have e1 : (i * n + j) / n = i := by
    rw [Nat.add_comm, Nat.add_mul_div_right _ _ hn, Nat.div_eq_of_lt hj]; simp
  have e2 : (i * n + j) % n = j := by
    rw [Nat.add_comm, Nat.add_mul_mod_self_right, Nat.mod_eq_of_lt hj]
  have := hb (i * n + j) hk (by simp only [e1, e2]; exact hpos)
  simpa only [e1, e2] using this

/-- a non-seed node that reaches a seed has an outgoing edge -/
theorem rowNorm_ne_zero_of_reach {n : Nat} {w : Nat → Nat → Rat} {seed : Nat → Bool} {t i : Nat}
    (h : ReachesSeed n w seed t i) (hs : seed i = false) : rowNorm n w i ≠ 0 := by
  cases h with
  | here _ hs' => rw [hs] at hs'; cases hs'
  | step _ hw hr => exact ne_of_gt (rowNorm_pos_of_entry (reachesSeed_lt hr) (ne_of_gt hw))

/-! ### the seed indicator as a function / as the `border` list -/

theorem reachesSeed_congr {n : Nat} {w : Nat → Nat → Rat} {seed seed' : Nat → Bool}
    (hs : ∀ i, i < n → seed i = seed' i) {t i : Nat} (h : ReachesSeed n w seed t i) :
    ReachesSeed n w seed' t i := by
  induction h with
  | here hi hb => exact .here hi (by rw [← hs _ hi]; exact hb)
  | step hi hw _ ih => exact .step hi hw ih

theorem isHarmonic_congr {n : Nat} {w : Nat → Nat → Rat} {seed seed' : Nat → Bool} {temp temp' h : Nat → Rat}
    (hs : ∀ i, i < n → seed i = seed' i) (ht : ∀ i, i < n → seed i = true → temp i = temp' i)
    (H : IsHarmonic n w seed temp h) : IsHarmonic n w seed' temp' h := by
  intro i hi
  refine ⟨fun hb => ?_, fun hb => (H i hi).2 (by rw [hs i hi]; exact hb)⟩
  have hb' : seed i = true := by rw [hs i hi]; exact hb
  rw [(H i hi).1 hb', ht i hi hb']

/-- the sup-distance of a vector to `h` is finite -/
theorem exists_within {n : Nat} (hn : 0 < n) (h : Nat → Rat) (v : List Rat) : ∃ M, Within n h M v := by
  obtain ⟨m, _, hmax⟩ := exists_max hn (fun i => absQ (v.getD i 0 - h i))
  exact ⟨absQ (v.getD m 0 - h m), fun i hi => absQ_le_iff.1 (hmax i hi)⟩

/-- **convergence of `Dirichlet.fit`'s vector** (see `SkNet.C14.dirichlet_converges`) -/
theorem fitVector_converges (p : Prepared) (init : Option Rat) (α : Rat) (h : Nat → Rat)
    (hlen : p.seeds.length = p.n) (hn : 0 < p.n)
    (hA : ∀ i j, i < p.n → j < p.n → 0 ≤ p.adj i j)
    (hreach : ∀ i, i < p.n → ∃ t, ReachesSeed p.n p.adj (fun i => decide (0 ≤ p.seeds.getD i 0)) t i)
    (hH : IsHarmonic p.n p.adj (fun i => decide (0 ≤ p.seeds.getD i 0)) (fun i => p.seeds.getD i 0) h)
    (ε : Rat) (hε : 0 < ε) :
    ∃ K, ∀ k, K ≤ k → ∀ v, fitVector .dirichlet p init k α = .ok v →
      ∀ i, i < p.n → absQ (v.getD i 0 - h i) ≤ ε := by
  cases ht : initTemperatures p.seeds init with
  | error e =>
    refine ⟨0, fun k _ v hv => ?_⟩
    obtain ⟨temps, border, ht', _⟩ := fitVector_dirichlet_ok hv
    rw [ht] at ht'; cases ht'
  | ok tb =>
    obtain ⟨temps, border⟩ := tb
    obtain ⟨hb, b, _, htemps⟩ := initTemperatures_ok ht
    subst hb
    have hseed : ∀ i, i < p.n → decide (0 ≤ p.seeds.getD i 0) = (borderOf p.seeds).getD i false :=
      fun i hi => (borderOf_getD (hlen ▸ hi)).symm
    have hH' : IsHarmonic p.n p.adj (fun i => (borderOf p.seeds).getD i false) (fun i => temps.getD i 0) h := by
      refine isHarmonic_congr hseed (fun i hi hs => ?_) hH
      rw [htemps]
      have : (borderOf p.seeds).getD i false = true := by rw [← hseed i hi]; exact hs
      simp [hlen, hi, this]
    have hreach' : ∀ i, i < p.n → ∃ t, ReachesSeed p.n p.adj (fun i => (borderOf p.seeds).getD i false) t i :=
      fun i hi => let ⟨t, ht⟩ := hreach i hi; ⟨t, reachesSeed_congr hseed ht⟩
    obtain ⟨T, hT⟩ := exists_uniform_reach hreach'
    obtain ⟨δ, hδ0, hδ1, hδ⟩ := exists_delta p.n (normalize p.n p.adj)
    have hN : ∀ i, i < p.n → (borderOf p.seeds).getD i false = false → rowNorm p.n p.adj i ≠ 0 :=
      fun i hi hb => rowNorm_ne_zero_of_reach (hT i hi) hb
    obtain ⟨M, hM⟩ := exists_within hn h temps
    obtain ⟨K, hK⟩ := converges_of_bounds hA hN hH' hn hδ0 hδ1
      (fun i j hi hj hpos => hδ i j hi hj (by
        have hne : rowNorm p.n p.adj i ≠ 0 := ne_of_gt (rowNorm_pos_of_entry hj (ne_of_gt hpos))
        exact mul_pos (lt_of_le_of_ne (pinv_nonneg (rowNorm_nonneg _ _ _)) (Ne.symm (pinv_ne_zero hne))) hpos))
      hT hM hε
    refine ⟨K, fun k hk v hv i hi => ?_⟩
    obtain ⟨temps', border', ht', rfl⟩ := fitVector_dirichlet_ok hv
    rw [ht] at ht'; cases ht'
    exact absQ_le_iff.2 (hK k hk i hi)

end SkNet.Heat
