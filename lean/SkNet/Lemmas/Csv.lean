/-
Helper lemmas for C18 (CSV): clean files, the numeric fast path against the rows handed to from_edge_list.
-/
import SkNet.Model.Csv
import SkNet.Lemmas.Ingest

namespace SkNet.Ingest

/-- A file made of comment lines followed by data rows, where what `np.genfromtxt` converts is exactly what
    `csv.reader` returns: no comment character inside a row, no surrounding blanks, no blank row. -/
structure CleanFile (d c : Char) (comments : List Char) (header body : List String) : Prop where
  header_comment : ∀ s ∈ header, comments.any (fun c => s.toList.head? = some c) = true
  body_data : ∀ s ∈ body, comments.any (fun c => s.toList.head? = some c) = false
  no_tail : ∀ s ∈ body, cutComment c s = s
  stripped : ∀ s ∈ body, stripSp s = s ∧ s ≠ ""
  fields : ∀ s ∈ body, (splitAt d s).map strip = splitAt d s

theorem genRows_clean (d c : Char) (comments : List Char) (header body : List String)
    (h : CleanFile d c comments header body) :
    genRows d c comments (header ++ body) = body.map (splitAt d) := by
  unfold genRows
  simp only [List.filter_append]
  have h1 : header.filter (fun row => !comments.any (fun c => decide (row.toList.head? = some c))) = [] := by
    rw [List.filter_eq_nil_iff]
    intro s hs
    simp [h.header_comment s hs]
  have h2 : body.filter (fun row => !comments.any (fun c => decide (row.toList.head? = some c))) = body := by
    rw [List.filter_eq_self]
    intro s hs
    simp [h.body_data s hs]
  rw [h1, h2, List.nil_append]
  have h3 : body.map (cutComment c) = body := by
    conv => rhs; rw [← List.map_id body]
    exact List.map_congr_left (fun s hs => h.no_tail s hs)
  rw [h3]
  have h4 : body.map stripSp = body := by
    conv => rhs; rw [← List.map_id body]
    exact List.map_congr_left (fun s hs => (h.stripped s hs).1)
  rw [h4]
  have h5 : body.filter (fun s => decide (s ≠ "")) = body := by
    rw [List.filter_eq_self]
    intro s hs
    simp [(h.stripped s hs).2]
  rw [h5]
  exact List.map_congr_left (fun s hs => h.fields s hs)

theorem truncRat_of_int (r : Rat) (h : r.den = 1) : truncRat r = r.num := by
  unfold truncRat
  rw [h]
  by_cases hn : r.num < 0
  · simp only [hn, if_true, Nat.div_one]
    omega
  · simp only [hn, if_false, Nat.div_one]
    omega

theorem liftNames_eq (h : α → Ident) (x y : Except PyErr (Graph α)) (e : x = y) : liftNames h x = liftNames h y := by
  rw [e]

theorem intOfNum_of_int (num : String → Option Rat) (s : String) (r : Rat) (h : num s = some r) (hd : r.den = 1) :
    intOfNum num s = some r.num := by
  unfold intOfNum
  simp [h, hd]

/-- the tuples of the rows of a file: sources and targets as strings -/
theorem tuplesOf_pairs (num : String → Option Rat) (R : List (List String)) :
    (tuplesOf num R).map (fun e => (e.1, e.2.1)) = R.map fun r => (Ident.str (r.getD 0 ""), Ident.str (r.getD 1 "")) := by
  unfold tuplesOf
  simp [List.map_map, Function.comp]

theorem classify_strs_numeric (parse : String → Option Int) (ps : List (String × String)) (hne : ps ≠ [])
    (hall : ∀ p ∈ ps, (parse p.1).isSome ∧ (parse p.2).isSome) :
    classify parse (ps.map fun p => (Ident.str p.1, Ident.str p.2))
      = .inl (ps.map fun p => ((parse p.1).getD 0, (parse p.2).getD 0)) := by
  unfold classify
  have h1 : (ps.map fun p => (Ident.str p.1, Ident.str p.2)).all (fun r => r.1.isInt && r.2.isInt) = false := by
    cases ps with
    | nil => exact absurd rfl hne
    | cons p ps => simp [Ident.isInt]
  rw [h1]
  simp only [Bool.false_eq_true, if_false]
  have h2 : ((ps.map fun p => (Ident.str p.1, Ident.str p.2)).map fun r => (r.1.toStr, r.2.toStr)) = ps := by
    rw [List.map_map]
    conv => rhs; rw [← List.map_id ps]
    apply List.map_congr_left
    intro p _
    rfl
  rw [h2]
  have h3 : ps.all (fun r => (parse r.1).isSome && (parse r.2).isSome) = true := by
    rw [List.all_eq_true]
    intro p hp
    simp [(hall p hp).1, (hall p hp).2]
  rw [h3]
  rfl

theorem tuplesOf_two (num : String → Option Rat) (R : List (List String)) (h : ∀ r ∈ R, r.length = 2) :
    tuplesOf num R = R.map fun r => (Ident.str (r.getD 0 ""), Ident.str (r.getD 1 ""), WField.absent) := by
  unfold tuplesOf
  cases R with
  | nil => rfl
  | cons r0 rs =>
    have h0 : r0.length = 2 := h r0 (by simp)
    simp [h0]

theorem tuplesOf_three (num : String → Option Rat) (R : List (List String)) (h : ∀ r ∈ R, r.length = 3)
    (hs : ∀ r ∈ R, strip (r.getD 2 "") = r.getD 2 "") (hn : ∀ r ∈ R, (num (r.getD 2 "")).isSome) :
    tuplesOf num R = R.map fun r =>
      (Ident.str (r.getD 0 ""), Ident.str (r.getD 1 ""), WField.num ((num (r.getD 2 "")).getD 0)) := by
  unfold tuplesOf
  cases R with
  | nil => rfl
  | cons r0 rs =>
    have h0 : r0.length = 3 := h r0 (by simp)
    simp only [h0, decide_true, if_true]
    apply List.map_congr_left
    intro r hr
    have h3 := h r hr
    have h4 := hs r hr
    have h5 := hn r hr
    unfold thirdField
    rw [h3, h4]
    simp only [Nat.le_refl, if_true]
    cases hnum : num (r.getD 2 "") with
    | none => rw [hnum] at h5; simp at h5
    | some w => rfl

/-- **the edge-list branch of `from_csv` on a clean file is `from_edge_list` of the rows.** -/
theorem fromCsv_clean (symW : Flags → Bool) (num : String → Option Rat) (header body : List String)
    (a : CsvArgs) (f : Flags) (d c : Char)
    (hd : csvDelimiter (header ++ body) a = d) (hc : (csvScan (header ++ body) a).comment = c)
    (hlayout : a.layout.getD (csvScan (header ++ body) a).layout = .edgeList)
    (hlen : (csvScan (header ++ body) a).headerLength = header.length)
    (hclean : CleanFile d c a.comments header body)
    (hne : body ≠ [])
    (hshape : (∀ s ∈ body, (splitAt d s).length = 2) ∨ (∀ s ∈ body, (splitAt d s).length = 3))
    (hint : ∀ s ∈ body, ∀ r, (num ((splitAt d s).getD 0 "") = some r → r.den = 1) ∧
                              (num ((splitAt d s).getD 1 "") = some r → r.den = 1)) :
    fromCsvWith symW num (header ++ body) a f
      = fromEdgeListWith symW (intOfNum num) (tuplesOf num (body.map (splitAt d))) f := by
  unfold fromCsvWith
  simp only [hlayout, hd, hc, hlen]
  rw [genRows_clean d c a.comments header body hclean]
  have hdrop : List.drop header.length (header ++ body) = body := by simp
  rw [hdrop]
  -- the rows
  have hR2 : ∀ r ∈ body.map (splitAt d), 2 ≤ r.length := by
    intro r hr
    obtain ⟨s, hs, rfl⟩ := List.mem_map.mp hr
    rcases hshape with h | h <;> rw [h s hs] <;> omega
  have hbody : ((body.map (splitAt d)).map fun r => if r = [""] then [] else r) = body.map (splitAt d) := by
    conv => rhs; rw [← List.map_id (body.map (splitAt d))]
    apply List.map_congr_left
    intro r hr
    have := hR2 r hr
    have hne1 : r ≠ [""] := by
      intro e; rw [e] at this; simp at this
    simp [hne1]
  rw [hbody]
  have hany2 : (body.map (splitAt d)).any (fun r => decide (r.length < 2)) = false := by
    rw [List.any_eq_false]
    intro r hr
    have := hR2 r hr
    simp only [decide_eq_true_eq]
    omega
  cases hb : body with
  | nil => exact absurd hb hne
  | cons s0 rest =>
    rw [← hb]
    have hs0 : s0 ∈ body := by rw [hb]; simp
    have hR : body.map (splitAt d) = splitAt d s0 :: rest.map (splitAt d) := by rw [hb]; rfl
    have hsame : (body.map (splitAt d)).any (fun r => decide (r.length ≠ (splitAt d s0).length)) = false := by
      rw [List.any_eq_false]
      intro r hr
      obtain ⟨s, hs, rfl⟩ := List.mem_map.mp hr
      rcases hshape with h | h <;> simp [h s hs, h s0 hs0]
    unfold fastPath
    rw [hR]
    simp only
    rw [← hR, hsame]
    simp only [Bool.false_eq_true, if_false]
    by_cases hnum : (body.map (splitAt d)).all (fun r => r.all fun s => (num s).isSome) = true
    · -- every field is a number: the fast path
      simp only [hnum, Bool.not_true, Bool.false_eq_true, if_false]
      have h0 := hR2 (splitAt d s0) (by rw [hR]; simp)
      have hlt : ¬ (splitAt d s0).length < 2 := by omega
      simp only [hlt, if_false]
      -- facts about the rows
      have hfield : ∀ r ∈ body.map (splitAt d), ∀ x ∈ r, strip x = x ∧ (num x).isSome := by
        intro r hr x hx
        obtain ⟨s, hs, rfl⟩ := List.mem_map.mp hr
        have h1 := (List.map_inj_left.mp ((hclean.fields s hs).trans (List.map_id _).symm)) x hx
        rw [List.all_eq_true] at hnum
        have h2 := hnum (splitAt d s) hr
        rw [List.all_eq_true] at h2
        exact ⟨h1, h2 x hx⟩
      have hget : ∀ r ∈ body.map (splitAt d), ∀ k, k < r.length → r.getD k "" ∈ r := by
        intro r _ k hk
        rw [List.getD_eq_getElem?_getD, List.getElem?_eq_getElem hk]
        exact List.getElem_mem hk
      -- the identifiers are integers
      have hids : ∀ p ∈ (body.map (splitAt d)).map (fun r => (r.getD 0 "", r.getD 1 "")),
          (intOfNum num p.1).isSome ∧ (intOfNum num p.2).isSome := by
        intro p hp
        obtain ⟨r, hr, rfl⟩ := List.mem_map.mp hp
        obtain ⟨s, hs, rfl⟩ := List.mem_map.mp hr
        have hl := hR2 _ hr
        have n0 := (hfield _ hr _ (hget _ hr 0 (by omega))).2
        have n1 := (hfield _ hr _ (hget _ hr 1 (by omega))).2
        constructor
        · cases e0 : num ((splitAt d s).getD 0 "") with
          | none => rw [e0] at n0; simp at n0
          | some r => rw [intOfNum_of_int num _ r e0 ((hint s hs r).1 e0)]; rfl
        · cases e1 : num ((splitAt d s).getD 1 "") with
          | none => rw [e1] at n1; simp at n1
          | some r => rw [intOfNum_of_int num _ r e1 ((hint s hs r).2 e1)]; rfl
      have hpairs : (body.map (splitAt d)).map (fun r => (Ident.str (r.getD 0 ""), Ident.str (r.getD 1 "")))
          = ((body.map (splitAt d)).map (fun r => (r.getD 0 "", r.getD 1 ""))).map
              (fun p => (Ident.str p.1, Ident.str p.2)) := by
        rw [List.map_map]; rfl
      have hRne : (body.map (splitAt d)).map (fun r => (r.getD 0 "", r.getD 1 "")) ≠ [] := by
        rw [hb]; simp
      have hedges : ((body.map (splitAt d)).map (fun r => (r.getD 0 "", r.getD 1 ""))).map
            (fun p => ((intOfNum num p.1).getD 0, (intOfNum num p.2).getD 0))
          = (body.map (splitAt d)).map fun r =>
              (truncRat ((num (r.getD 0 "")).getD 0), truncRat ((num (r.getD 1 "")).getD 0)) := by
        rw [List.map_map]
        apply List.map_congr_left
        intro r hr
        obtain ⟨s, hs, rfl⟩ := List.mem_map.mp hr
        have hl := hR2 _ hr
        have n0 := (hfield _ hr _ (hget _ hr 0 (by omega))).2
        have n1 := (hfield _ hr _ (hget _ hr 1 (by omega))).2
        simp only [Function.comp]
        cases e0 : num ((splitAt d s).getD 0 "") with
        | none => rw [e0] at n0; simp at n0
        | some r0 =>
          cases e1 : num ((splitAt d s).getD 1 "") with
          | none => rw [e1] at n1; simp at n1
          | some r1 =>
            rw [intOfNum_of_int num _ r0 e0 ((hint s hs r0).1 e0), intOfNum_of_int num _ r1 e1 ((hint s hs r1).2 e1)]
            simp [truncRat_of_int _ ((hint s hs r0).1 e0), truncRat_of_int _ ((hint s hs r1).2 e1)]
      have hclass : classify (intOfNum num) ((tuplesOf num (body.map (splitAt d))).map fun e => (e.1, e.2.1))
          = .inl ((body.map (splitAt d)).map fun r =>
              (truncRat ((num (r.getD 0 "")).getD 0), truncRat ((num (r.getD 1 "")).getD 0))) := by
        rw [tuplesOf_pairs, hpairs, classify_strs_numeric _ _ hRne hids, hedges]
      -- the other side
      unfold fromEdgeListWith
      simp only [hclass]
      rcases hshape with h2 | h3
      · -- rows of two fields: no weights
        have hT := tuplesOf_two num (body.map (splitAt d)) (by
          intro r hr; obtain ⟨s, hs, rfl⟩ := List.mem_map.mp hr; exact h2 s hs)
        have hW : hasWeights (tuplesOf num (body.map (splitAt d))) = false := by
          rw [hT, hR]; rfl
        have hl3 : ¬ (splitAt d s0).length = 3 := by rw [h2 s0 hs0]; omega
        have hemp : (tuplesOf num (body.map (splitAt d))).isEmpty = false := by
          rw [hT, hR]; rfl
        simp only [hW, hl3, hemp, Bool.false_and, Bool.false_eq_true, if_false]
      · -- rows of three fields: the third one is the weight
        have hT := tuplesOf_three num (body.map (splitAt d))
          (by intro r hr; obtain ⟨s, hs, rfl⟩ := List.mem_map.mp hr; exact h3 s hs)
          (by intro r hr
              have hl : r.length = 3 := by obtain ⟨s, hs, rfl⟩ := List.mem_map.mp hr; exact h3 s hs
              exact (hfield r hr _ (hget r hr 2 (by omega))).1)
          (by intro r hr
              have hl : r.length = 3 := by obtain ⟨s, hs, rfl⟩ := List.mem_map.mp hr; exact h3 s hs
              exact (hfield r hr _ (hget r hr 2 (by omega))).2)
        have hW : hasWeights (tuplesOf num (body.map (splitAt d))) = true := by
          rw [hT, hR]; rfl
        have hl3 : (splitAt d s0).length = 3 := h3 s0 hs0
        have hemp : (tuplesOf num (body.map (splitAt d))).isEmpty = false := by
          rw [hT, hR]; rfl
        have habs : (tuplesOf num (body.map (splitAt d))).any (fun e => decide (e.2.2 = WField.absent)) = false := by
          rw [hT, List.any_eq_false]
          intro e he
          obtain ⟨r, _, rfl⟩ := List.mem_map.mp he
          simp
        have htxt : (tuplesOf num (body.map (splitAt d))).any (fun e => decide (e.2.2 = WField.text)) = false := by
          rw [hT, List.any_eq_false]
          intro e he
          obtain ⟨r, _, rfl⟩ := List.mem_map.mp he
          simp
        have hws : (tuplesOf num (body.map (splitAt d))).map (fun e => match e.2.2 with | .num w => w | _ => 0)
            = (body.map (splitAt d)).map fun r => (num (r.getD 2 "")).getD 0 := by
          rw [hT, List.map_map]
          rfl
        simp only [hW, hl3, hemp, habs, htxt, hws, Bool.and_false, Bool.false_and, Bool.false_eq_true, if_false, if_true]
    · simp only [hnum, Bool.not_false, if_true]
      rw [hany2]
      simp

end SkNet.Ingest
