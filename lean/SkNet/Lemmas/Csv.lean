/-
Helper lemmas for C18 (CSV): clean files, the numeric fast path against the rows handed to from_edge_list.
-/
import SkNet.Model.Csv
import SkNet.Lemmas.Ingest

namespace SkNet.Ingest

/-- A file made of comment lines followed by data rows, where what `np.genfromtxt` converts is exactly what
    `csv.reader` returns: no surrounding blanks, no blank row, no quote (`c` is the comment guess of the
    scan, kept as a parameter of the statement only: a comment character inside a row is an ordinary character). -/
structure CleanFile (d c : Char) (comments : List Char) (header body : List String) : Prop where
  header_comment : ∀ s ∈ header, comments.any (fun c => s.toList.head? = some c) = true
  body_data : ∀ s ∈ body, comments.any (fun c => s.toList.head? = some c) = false
  stripped : ∀ s ∈ body, stripSp s = s ∧ s ≠ ""
  notblank : ∀ s ∈ body, strip s ≠ ""
  fields : ∀ s ∈ body, (splitAt d s).map strip = splitAt d s
  /-- no quote character: `csv.reader` then splits a line at every delimiter, which is what `splitAt` does
      (scope of the claim; not used by the proofs, which are about the model) -/
  unquoted : ∀ s ∈ body, '"' ∉ s.toList

theorem dataLines_clean (comments : List Char) (header body : List String)
    (hh : ∀ s ∈ header, comments.any (fun c => s.toList.head? = some c) = true)
    (hb : ∀ s ∈ body, comments.any (fun c => s.toList.head? = some c) = false) :
    dataLines comments (header ++ body) = body := by
  unfold dataLines
  simp only [List.filter_append]
  have h1 : header.filter (fun row => !comments.any (fun c => decide (row.toList.head? = some c))) = [] := by
    rw [List.filter_eq_nil_iff]
    intro s hs
    simp [hh s hs]
  have h2 : body.filter (fun row => !comments.any (fun c => decide (row.toList.head? = some c))) = body := by
    rw [List.filter_eq_self]
    intro s hs
    simp [hb s hs]
  rw [h1, h2, List.nil_append]

theorem notblank_filter (body : List String) (h : ∀ s ∈ body, strip s ≠ "") :
    body.filter (fun row => decide (strip row ≠ "")) = body := by
  rw [List.filter_eq_self]
  intro s hs
  simp [h s hs]

theorem genRows_clean (d c : Char) (comments : List Char) (header body : List String)
    (h : CleanFile d c comments header body) :
    genRows d body = body.map (splitAt d) := by
  unfold genRows
  have h4 : body.map stripSp = body := by
    conv => rhs; rw [← List.map_id body]
    exact List.map_congr_left (fun s hs => (h.stripped s hs).1)
  rw [h4]
  have h5 : body.filter (fun s => decide (s ≠ "")) = body := by
    rw [List.filter_eq_self]
    intro s hs
    simp [(h.stripped s hs).2]
  rw [h5]
  exact List.map_congr_left (fun s hs => h.fields s hs)

/-! ### scan_header -/

def isCommentLine (comments : List Char) (row : String) : Bool :=
  comments.any (fun c => decide (row.toList.head? = some c))

/-- `comment_guess` after the header lines -/
def lastComment (c0 : Char) (header : List String) : Char :=
  header.foldl (fun c row => row.toList.headD c) c0

theorem scanFold_header (delims comments : List Char) (nScan : Nat) (header : List String) (st : ScanState)
    (hrows : st.rows = []) (hh : ∀ s ∈ header, isCommentLine comments s = true) :
    header.foldl (scanStep delims comments nScan) st
      = { st with headerLength := st.headerLength + header.length, comment := lastComment st.comment header } := by
  induction header generalizing st with
  | nil => simp [lastComment]
  | cons row rest ih =>
    simp only [List.foldl_cons]
    have hc := hh row (by simp)
    unfold isCommentLine at hc
    have hstep : scanStep delims comments nScan st row
        = { st with headerLength := st.headerLength + 1, comment := row.toList.headD st.comment } := by
      unfold scanStep
      have h0 : ¬ (st.rows.length = nScan ∧ 0 < nScan) := by
        rw [hrows]; simp only [List.length_nil]; omega
      simp only [h0, if_false, hc, if_true]
    rw [hstep]
    rw [ih { st with headerLength := st.headerLength + 1, comment := row.toList.headD st.comment } hrows
      (fun s hs => hh s (List.mem_cons_of_mem _ hs))]
    simp only [List.length_cons, lastComment, List.foldl_cons]
    congr 1
    omega

theorem scanFold_body (delims comments : List Char) (nScan : Nat) (body : List String) (st : ScanState)
    (hb : ∀ s ∈ body, isCommentLine comments s = false)
    (hnb : ∀ s ∈ body, strip s ≠ "")
    (hn : st.rows.length + body.length ≤ nScan) :
    body.foldl (scanStep delims comments nScan) st
      = { st with rows := (body.map rstrip).reverse ++ st.rows,
                  counts := (body.map fun row => delims.map (fun d => countChar d row)).reverse ++ st.counts } := by
  induction body generalizing st with
  | nil => simp
  | cons row rest ih =>
    simp only [List.foldl_cons]
    have hc := hb row (by simp)
    unfold isCommentLine at hc
    have hlen : st.rows.length + (rest.length + 1) ≤ nScan := by simpa using hn
    have hstep : scanStep delims comments nScan st row
        = { st with rows := rstrip row :: st.rows, counts := delims.map (fun d => countChar d row) :: st.counts } := by
      unfold scanStep
      have h0 : ¬ (st.rows.length = nScan ∧ 0 < nScan) := by omega
      have h1 : ¬ strip row = "" := hnb row (by simp)
      simp only [h0, if_false, hc, Bool.false_eq_true, h1]
    rw [hstep]
    rw [ih { st with rows := rstrip row :: st.rows, counts := delims.map (fun d => countChar d row) :: st.counts }
      (fun s hs => hb s (List.mem_cons_of_mem _ hs)) (fun s hs => hnb s (List.mem_cons_of_mem _ hs))
      (by simp only [List.length_cons]; omega)]
    simp [List.reverse_cons, List.append_assoc]

/-- the state of the scan after a file made of comment lines followed by at most `n_scan` data rows -/
theorem scanFold_clean (delims comments : List Char) (nScan : Nat) (header body : List String)
    (hh : ∀ s ∈ header, isCommentLine comments s = true)
    (hb : ∀ s ∈ body, isCommentLine comments s = false)
    (hnb : ∀ s ∈ body, strip s ≠ "")
    (hn : body.length ≤ nScan) :
    scanFold (header ++ body) delims comments nScan
      = ⟨header.length, lastComment (comments.headD '#') header, (body.map rstrip).reverse,
         (body.map fun row => delims.map (fun d => countChar d row)).reverse⟩ := by
  unfold scanFold
  rw [List.foldl_append, scanFold_header delims comments nScan header _ rfl hh,
      scanFold_body delims comments nScan body _ hb hnb (by simpa using hn)]
  simp

/-- once `n_scan` rows are collected the loop has left (`break`): the remaining lines change nothing -/
theorem scanFold_frozen (delims comments : List Char) (nScan : Nat) (l : List String) (st : ScanState)
    (h : st.rows.length = nScan ∧ 0 < nScan) :
    l.foldl (scanStep delims comments nScan) st = st := by
  induction l with
  | nil => rfl
  | cons row rest ih =>
    simp only [List.foldl_cons]
    have : scanStep delims comments nScan st row = st := by
      unfold scanStep
      simp only [h, and_self, if_true]
    rw [this, ih]

/-- the state of the scan after comment lines followed by any number of data rows: only the first `n_scan` count -/
theorem scanFold_clean_any (delims comments : List Char) (nScan : Nat) (hpos : 0 < nScan) (header body : List String)
    (hh : ∀ s ∈ header, isCommentLine comments s = true)
    (hb : ∀ s ∈ body, isCommentLine comments s = false)
    (hnb : ∀ s ∈ body, strip s ≠ "") :
    scanFold (header ++ body) delims comments nScan
      = ⟨header.length, lastComment (comments.headD '#') header, ((body.take nScan).map rstrip).reverse,
         ((body.take nScan).map fun row => delims.map (fun d => countChar d row)).reverse⟩ := by
  by_cases hle : body.length ≤ nScan
  · rw [List.take_of_length_le hle]
    exact scanFold_clean delims comments nScan header body hh hb hnb hle
  · have hlt : nScan < body.length := by omega
    have hsplit : header ++ body = (header ++ body.take nScan) ++ body.drop nScan := by
      rw [List.append_assoc, List.take_append_drop]
    unfold scanFold
    rw [hsplit, List.foldl_append]
    have h1 := scanFold_clean delims comments nScan header (body.take nScan) hh
      (fun s hs => hb s (List.mem_of_mem_take hs)) (fun s hs => hnb s (List.mem_of_mem_take hs))
      (by simp [List.length_take]; omega)
    unfold scanFold at h1
    rw [h1]
    apply scanFold_frozen
    simp only [List.length_reverse, List.length_map, List.length_take]
    omega

theorem scanHeader_clean_any (delims comments : List Char) (nScan : Nat) (hpos : 0 < nScan)
    (header body : List String)
    (hh : ∀ s ∈ header, isCommentLine comments s = true)
    (hb : ∀ s ∈ body, isCommentLine comments s = false)
    (hnb : ∀ s ∈ body, strip s ≠ "") :
    (scanHeader (header ++ body) delims comments nScan).headerLength = header.length ∧
    (scanHeader (header ++ body) delims comments nScan).comment = lastComment (comments.headD '#') header ∧
    (scanHeader (header ++ body) delims comments nScan).delimiter
      = delims.getD (chooseDelimiter delims.length
          ((body.take nScan).map fun row => delims.map (fun d => countChar d row))) ' ' ∧
    (scanHeader (header ++ body) delims comments nScan).layout
      = layoutOf (scanHeader (header ++ body) delims comments nScan).delimiter ((body.take nScan).map rstrip) := by
  unfold scanHeader
  rw [scanFold_clean_any delims comments nScan hpos header body hh hb hnb]
  simp

theorem scanHeader_clean (delims comments : List Char) (nScan : Nat) (header body : List String)
    (hh : ∀ s ∈ header, isCommentLine comments s = true)
    (hb : ∀ s ∈ body, isCommentLine comments s = false)
    (hnb : ∀ s ∈ body, strip s ≠ "")
    (hn : body.length ≤ nScan) :
    (scanHeader (header ++ body) delims comments nScan).headerLength = header.length ∧
    (scanHeader (header ++ body) delims comments nScan).comment = lastComment (comments.headD '#') header ∧
    (scanHeader (header ++ body) delims comments nScan).delimiter
      = delims.getD (chooseDelimiter delims.length (body.map fun row => delims.map (fun d => countChar d row))) ' ' ∧
    (scanHeader (header ++ body) delims comments nScan).layout
      = layoutOf (scanHeader (header ++ body) delims comments nScan).delimiter (body.map rstrip) := by
  unfold scanHeader
  rw [scanFold_clean delims comments nScan header body hh hb hnb hn]
  simp

theorem chooseDelimiter_single (counts : List (List Nat)) : chooseDelimiter 1 counts = 0 := by
  unfold chooseDelimiter
  have hr : List.range 1 = [0] := rfl
  rw [hr]
  by_cases h : consistentCol counts 0 = true
  · simp [h]
  · simp only [List.filter_cons, h, List.filter_nil]
    by_cases he : counts.isEmpty = true
    · simp [he]
    · simp [he, argmaxNat]

/-- when exactly one candidate has the same positive count on every scanned row, it is the guess -/
theorem chooseDelimiter_unique (n : Nat) (counts : List (List Nat)) (k : Nat) (hk : k < n)
    (hc : consistentCol counts k = true) (hu : ∀ j, j < n → j ≠ k → consistentCol counts j = false) :
    chooseDelimiter n counts = k := by
  unfold chooseDelimiter
  have hf : (List.range n).filter (consistentCol counts) = (List.range n).filter (fun j => decide (j = k)) := by
    apply List.filter_congr
    intro j hj
    have hjn : j < n := List.mem_range.mp hj
    by_cases hjk : j = k
    · subst hjk; simp [hc]
    · simp [hjk, hu j hjn hjk]
  rw [hf, filter_eq_of_nodup _ List.nodup_range]
  simp [List.mem_range.mpr hk]

theorem splitChars_ne_nil (d : Char) (cs : List Char) : splitChars d cs ≠ [] := by
  induction cs with
  | nil => simp [splitChars]
  | cons c cs ih =>
    unfold splitChars
    cases h : splitChars d cs with
    | nil => exact absurd h ih
    | cons f fs => by_cases hc : c = d <;> simp [hc]

theorem splitChars_length (d : Char) (cs : List Char) :
    (splitChars d cs).length = (cs.filter (· = d)).length + 1 := by
  induction cs with
  | nil => simp [splitChars]
  | cons c cs ih =>
    unfold splitChars
    cases h : splitChars d cs with
    | nil => exact absurd h (splitChars_ne_nil d cs)
    | cons f fs =>
      rw [h] at ih
      by_cases hc : c = d
      · simp only [hc, if_true, List.length_cons, List.filter_cons, decide_true] at ih ⊢
        omega
      · simp only [hc, if_false, List.length_cons, List.filter_cons, decide_false] at ih ⊢
        simp only [Bool.false_eq_true, if_false]
        omega

/-- a row splits into one more field than it has delimiters -/
theorem splitAt_length (d : Char) (s : String) : (splitAt d s).length = countChar d s + 1 := by
  unfold splitAt countChar
  rw [List.length_map, splitChars_length]

theorem layoutOf_edge (d : Char) (rows : List String) (hne : rows ≠ [])
    (h : (∀ s ∈ rows, (splitAt d s).length = 2) ∨ (∀ s ∈ rows, (splitAt d s).length = 3)) :
    layoutOf d rows = .edgeList := by
  unfold layoutOf
  have h1 : rows.isEmpty = false := by
    cases rows with
    | nil => exact absurd rfl hne
    | cons _ _ => rfl
  rcases h with h | h
  · have : (rows.map fun r => (splitAt d r).length).all (fun x => decide (x = 2)) = true := by
      rw [List.all_eq_true]
      intro x hx
      obtain ⟨s, hs, rfl⟩ := List.mem_map.mp hx
      simp [h s hs]
    simp [h1, this]
  · have : (rows.map fun r => (splitAt d r).length).all (fun x => decide (x = 3)) = true := by
      rw [List.all_eq_true]
      intro x hx
      obtain ⟨s, hs, rfl⟩ := List.mem_map.mp hx
      simp [h s hs]
    simp [h1, this]

theorem map_id_of (l : List String) (g : String → String) (h : ∀ s ∈ l, g s = s) : l.map g = l := by
  conv => rhs; rw [← List.map_id l]
  exact List.map_congr_left h

/-! ### counts of the candidate delimiters -/

theorem colOf_counts (delims : List Char) (body : List String) (k : Nat) (hk : k < delims.length) :
    colOf (body.map fun row => delims.map (fun d => countChar d row)) k
      = body.map fun row => countChar (delims.getD k ' ') row := by
  unfold colOf
  rw [List.map_map]
  apply List.map_congr_left
  intro row _
  simp only [Function.comp]
  rw [List.getD_eq_getElem?_getD, List.getD_eq_getElem?_getD, List.getElem?_map,
      List.getElem?_eq_getElem hk]
  rfl

theorem foldl_add_ge (l : List Nat) (init : Nat) : init ≤ l.foldl (· + ·) init := by
  induction l generalizing init with
  | nil => exact Nat.le_refl _
  | cons x xs ih => exact Nat.le_trans (Nat.le_add_right _ _) (ih (init + x))

theorem foldl_add_zero (l : List Nat) (init : Nat) (h : ∀ x ∈ l, x = 0) : l.foldl (· + ·) init = init := by
  induction l generalizing init with
  | nil => rfl
  | cons x xs ih =>
    simp only [List.foldl_cons]
    rw [h x (by simp), Nat.add_zero]
    exact ih init (fun y hy => h y (List.mem_cons_of_mem _ hy))

theorem consistent_of_equal_counts (delims : List Char) (body : List String) (k : Nat) (hk : k < delims.length)
    (c : Nat) (hc : 0 < c) (hne : body ≠ [])
    (hall : ∀ row ∈ body, countChar (delims.getD k ' ') row = c) :
    consistentCol (body.map fun row => delims.map (fun d => countChar d row)) k = true := by
  unfold consistentCol totalCol
  rw [colOf_counts delims body k hk]
  cases hb : body with
  | nil => exact absurd hb hne
  | cons r0 rest =>
    have h0 : countChar (delims.getD k ' ') r0 = c := hall r0 (by rw [hb]; simp)
    have hpos : 0 < ((r0 :: rest).map fun row => countChar (delims.getD k ' ') row).foldl (· + ·) 0 := by
      simp only [List.map_cons, List.foldl_cons, h0, Nat.zero_add]
      exact Nat.lt_of_lt_of_le hc (foldl_add_ge _ c)
    have hall' : ((r0 :: rest).map fun row => countChar (delims.getD k ' ') row).all
        (fun x => decide (x = ((r0 :: rest).map fun row => countChar (delims.getD k ' ') row).headD 0)) = true := by
      rw [List.all_eq_true]
      intro x hx
      obtain ⟨row, hrow, rfl⟩ := List.mem_map.mp hx
      simp only [List.map_cons, List.headD_cons, h0, decide_eq_true_eq]
      exact hall row (by rw [hb]; exact hrow)
    rw [Bool.and_eq_true, Bool.and_eq_true]
    exact ⟨⟨rfl, decide_eq_true hpos⟩, hall'⟩

theorem not_consistent_of_absent (delims : List Char) (body : List String) (j : Nat) (hj : j < delims.length)
    (h0 : ∀ row ∈ body, countChar (delims.getD j ' ') row = 0) :
    consistentCol (body.map fun row => delims.map (fun d => countChar d row)) j = false := by
  unfold consistentCol totalCol
  rw [colOf_counts delims body j hj]
  have : (body.map fun row => countChar (delims.getD j ' ') row).foldl (· + ·) 0 = 0 := by
    apply foldl_add_zero
    intro x hx
    obtain ⟨row, hrow, rfl⟩ := List.mem_map.mp hx
    exact h0 row hrow
  rw [this]
  simp only [Nat.lt_irrefl, decide_false, Bool.and_false, Bool.false_and]

/-- **the inferred delimiter splits every scanned row consistently**: a candidate that passes the test
    `mean > 0 and std == 0` occurs the same positive number `c` of times in every scanned row, which therefore
    all split into `c + 1 ≥ 2` fields -/
theorem equal_counts_of_consistent (delims : List Char) (body : List String) (k : Nat) (hk : k < delims.length)
    (h : consistentCol (body.map fun row => delims.map (fun d => countChar d row)) k = true) :
    ∃ c, 0 < c ∧ ∀ row ∈ body, countChar (delims.getD k ' ') row = c ∧
      (splitAt (delims.getD k ' ') row).length = c + 1 := by
  unfold consistentCol totalCol at h
  rw [colOf_counts delims body k hk] at h
  simp only [Bool.and_eq_true, decide_eq_true_eq, List.all_eq_true] at h
  obtain ⟨⟨_, hpos⟩, hall⟩ := h
  refine ⟨(body.map fun row => countChar (delims.getD k ' ') row).headD 0, ?_, ?_⟩
  · cases hz : (body.map fun row => countChar (delims.getD k ' ') row).headD 0 with
    | succ n => exact Nat.succ_pos n
    | zero =>
      rw [hz] at hall
      rw [foldl_add_zero _ 0 hall] at hpos
      exact absurd hpos (Nat.lt_irrefl 0)
  · intro row hrow
    have := hall _ (List.mem_map.mpr ⟨row, hrow, rfl⟩)
    exact ⟨this, by rw [splitAt_length, this]⟩

theorem truncRat_of_int (r : Rat) (h : r.den = 1) : truncRat r = r.num := by
  unfold truncRat
  rw [h]
  by_cases hn : r.num < 0
  · simp only [hn, if_true, Nat.div_one]
    omega
  · simp only [hn, if_false, Nat.div_one]
    omega

theorem liftNames_eq (h : α → Ident) (x y : Except PyErr (Graph α)) (e : x = y) : liftNames h x = liftNames h y := by
  rw [e]

theorem intOfNum_of_int (num : String → Option Rat) (s : String) (r : Rat) (h : num s = some r) (hd : r.den = 1) :
    intOfNum num s = some r.num := by
  unfold intOfNum
  simp [h, hd]

/-- the tuples of the rows of a file: sources and targets as strings -/
theorem tuplesOf_pairs (num : String → Option Rat) (R : List (List String)) :
    (tuplesOf num R).map (fun e => (e.1, e.2.1)) = R.map fun r => (Ident.str (r.getD 0 ""), Ident.str (r.getD 1 "")) := by
  unfold tuplesOf
  simp [List.map_map, Function.comp]

theorem classify_strs_numeric (parse : String → Option Int) (ps : List (String × String)) (hne : ps ≠ [])
    (hall : ∀ p ∈ ps, (parse p.1).isSome ∧ (parse p.2).isSome) :
    classify parse (ps.map fun p => (Ident.str p.1, Ident.str p.2))
      = .inl (ps.map fun p => ((parse p.1).getD 0, (parse p.2).getD 0)) := by
  unfold classify
  have h1 : (ps.map fun p => (Ident.str p.1, Ident.str p.2)).all (fun r => r.1.isInt && r.2.isInt) = false := by
    cases ps with
    | nil => exact absurd rfl hne
    | cons p ps => simp [Ident.isInt]
  rw [h1]
  simp only [Bool.false_eq_true, if_false]
  have h2 : ((ps.map fun p => (Ident.str p.1, Ident.str p.2)).map fun r => (r.1.toStr, r.2.toStr)) = ps := by
    rw [List.map_map]
    conv => rhs; rw [← List.map_id ps]
    apply List.map_congr_left
    intro p _
    rfl
  rw [h2]
  have h3 : ps.all (fun r => (parse r.1).isSome && (parse r.2).isSome) = true := by
    rw [List.all_eq_true]
    intro p hp
    simp [(hall p hp).1, (hall p hp).2]
  rw [h3]
  rfl

theorem tuplesOf_two (num : String → Option Rat) (R : List (List String)) (h : ∀ r ∈ R, r.length = 2) :
    tuplesOf num R = R.map fun r => (Ident.str (r.getD 0 ""), Ident.str (r.getD 1 ""), WField.absent) := by
  unfold tuplesOf
  cases R with
  | nil => rfl
  | cons r0 rs =>
    have h0 : r0.length = 2 := h r0 (by simp)
    simp [h0]

theorem tuplesOf_three (num : String → Option Rat) (R : List (List String)) (h : ∀ r ∈ R, r.length = 3)
    (hs : ∀ r ∈ R, strip (r.getD 2 "") = r.getD 2 "") (hn : ∀ r ∈ R, (num (r.getD 2 "")).isSome) :
    tuplesOf num R = R.map fun r =>
      (Ident.str (r.getD 0 ""), Ident.str (r.getD 1 ""), WField.num ((num (r.getD 2 "")).getD 0)) := by
  unfold tuplesOf
  cases R with
  | nil => rfl
  | cons r0 rs =>
    have h0 : r0.length = 3 := h r0 (by simp)
    simp only [h0, decide_true, if_true]
    apply List.map_congr_left
    intro r hr
    have h3 := h r hr
    have h4 := hs r hr
    have h5 := hn r hr
    unfold thirdField
    rw [h3, h4]
    simp only [Nat.le_refl, if_true]
    cases hnum : num (r.getD 2 "") with
    | none => rw [hnum] at h5; simp at h5
    | some w => rfl

/-- **the edge-list branch of `from_csv` on a clean file is `from_edge_list` of the rows.** -/
theorem fromCsv_clean (symW : Flags → Bool) (num : String → Option Rat) (header body : List String)
    (a : CsvArgs) (f : Flags) (d c : Char)
    (hd : csvDelimiter (header ++ body) a = d) (_hc : (csvScan (header ++ body) a).comment = c)
    (hlayout : a.layout.getD (csvScan (header ++ body) a).layout = .edgeList)
    (hclean : CleanFile d c a.comments header body)
    (hne : body ≠ [])
    (hshape : (∀ s ∈ body, (splitAt d s).length = 2) ∨ (∀ s ∈ body, (splitAt d s).length = 3))
    (hint : ∀ s ∈ body, ∀ r, (num ((splitAt d s).getD 0 "") = some r → r.den = 1) ∧
                              (num ((splitAt d s).getD 1 "") = some r → r.den = 1)) :
    fromCsvWith symW num (header ++ body) a f
      = fromEdgeListWith symW (intOfNum num) (tuplesOf num (body.map (splitAt d))) f := by
  unfold fromCsvWith
  simp only [hlayout, hd]
  rw [dataLines_clean a.comments header body hclean.header_comment hclean.body_data,
      notblank_filter body hclean.notblank, genRows_clean d c a.comments header body hclean]
  unfold csvRows
  -- the rows
  have hR2 : ∀ r ∈ body.map (splitAt d), 2 ≤ r.length := by
    intro r hr
    obtain ⟨s, hs, rfl⟩ := List.mem_map.mp hr
    rcases hshape with h | h <;> rw [h s hs] <;> omega
  have hbody : ((body.map (splitAt d)).map fun r => if r = [""] then [] else r) = body.map (splitAt d) := by
    conv => rhs; rw [← List.map_id (body.map (splitAt d))]
    apply List.map_congr_left
    intro r hr
    have := hR2 r hr
    have hne1 : r ≠ [""] := by
      intro e; rw [e] at this; simp at this
    simp [hne1]
  rw [hbody]
  have hany2 : (body.map (splitAt d)).any (fun r => decide (r.length < 2)) = false := by
    rw [List.any_eq_false]
    intro r hr
    have := hR2 r hr
    simp only [decide_eq_true_eq]
    omega
  cases hb : body with
  | nil => exact absurd hb hne
  | cons s0 rest =>
    rw [← hb]
    have hs0 : s0 ∈ body := by rw [hb]; simp
    have hR : body.map (splitAt d) = splitAt d s0 :: rest.map (splitAt d) := by rw [hb]; rfl
    have hsame : (body.map (splitAt d)).any (fun r => decide (r.length ≠ (splitAt d s0).length)) = false := by
      rw [List.any_eq_false]
      intro r hr
      obtain ⟨s, hs, rfl⟩ := List.mem_map.mp hr
      rcases hshape with h | h <;> simp [h s hs, h s0 hs0]
    unfold fastPath
    rw [hR]
    simp only
    rw [← hR, hsame]
    simp only [Bool.false_eq_true, if_false]
    by_cases hnum : (body.map (splitAt d)).all (fun r => r.all fun s => (num s).isSome) = true
    · -- every field is a number: the fast path
      simp only [hnum, Bool.not_true, Bool.false_eq_true, if_false]
      have h0 := hR2 (splitAt d s0) (by rw [hR]; simp)
      have hlt : ¬ (splitAt d s0).length < 2 := by omega
      rcases Bool.eq_false_or_eq_true ((body.map (splitAt d)).any fun r =>
          (r.take 2).any fun s => decide (2 ^ 53 ≤ ((num s).getD 0).num.natAbs / ((num s).getD 0).den)) with hbig | hbig
      · -- an identifier beyond 2^53: the fast path gives up and the rows are read as strings
        simp only [hbig, if_true]
        rw [hany2]
        simp
      simp only [hbig, Bool.false_eq_true, if_false, hlt]
      -- facts about the rows
      have hfield : ∀ r ∈ body.map (splitAt d), ∀ x ∈ r, strip x = x ∧ (num x).isSome := by
        intro r hr x hx
        obtain ⟨s, hs, rfl⟩ := List.mem_map.mp hr
        have h1 := (List.map_inj_left.mp ((hclean.fields s hs).trans (List.map_id _).symm)) x hx
        rw [List.all_eq_true] at hnum
        have h2 := hnum (splitAt d s) hr
        rw [List.all_eq_true] at h2
        exact ⟨h1, h2 x hx⟩
      have hget : ∀ r ∈ body.map (splitAt d), ∀ k, k < r.length → r.getD k "" ∈ r := by
        intro r _ k hk
        rw [List.getD_eq_getElem?_getD, List.getElem?_eq_getElem hk]
        exact List.getElem_mem hk
      -- the identifiers are integers
      have hids : ∀ p ∈ (body.map (splitAt d)).map (fun r => (r.getD 0 "", r.getD 1 "")),
          (intOfNum num p.1).isSome ∧ (intOfNum num p.2).isSome := by
        intro p hp
        obtain ⟨r, hr, rfl⟩ := List.mem_map.mp hp
        obtain ⟨s, hs, rfl⟩ := List.mem_map.mp hr
        have hl := hR2 _ hr
        have n0 := (hfield _ hr _ (hget _ hr 0 (by omega))).2
        have n1 := (hfield _ hr _ (hget _ hr 1 (by omega))).2
        constructor
        · cases e0 : num ((splitAt d s).getD 0 "") with
          | none => rw [e0] at n0; simp at n0
          | some r => rw [intOfNum_of_int num _ r e0 ((hint s hs r).1 e0)]; rfl
        · cases e1 : num ((splitAt d s).getD 1 "") with
          | none => rw [e1] at n1; simp at n1
          | some r => rw [intOfNum_of_int num _ r e1 ((hint s hs r).2 e1)]; rfl
      have hpairs : (body.map (splitAt d)).map (fun r => (Ident.str (r.getD 0 ""), Ident.str (r.getD 1 "")))
          = ((body.map (splitAt d)).map (fun r => (r.getD 0 "", r.getD 1 ""))).map
              (fun p => (Ident.str p.1, Ident.str p.2)) := by
        simp only [List.map_map]
        apply List.map_congr_left
        intro _ _
        rfl
      have hRne : (body.map (splitAt d)).map (fun r => (r.getD 0 "", r.getD 1 "")) ≠ [] := by
        rw [hb]; simp
      have hedges : ((body.map (splitAt d)).map (fun r => (r.getD 0 "", r.getD 1 ""))).map
            (fun p => ((intOfNum num p.1).getD 0, (intOfNum num p.2).getD 0))
          = (body.map (splitAt d)).map fun r =>
              (truncRat ((num (r.getD 0 "")).getD 0), truncRat ((num (r.getD 1 "")).getD 0)) := by
        rw [List.map_map]
        apply List.map_congr_left
        intro r hr
        obtain ⟨s, hs, rfl⟩ := List.mem_map.mp hr
        have hl := hR2 _ hr
        have n0 := (hfield _ hr _ (hget _ hr 0 (by omega))).2
        have n1 := (hfield _ hr _ (hget _ hr 1 (by omega))).2
        simp only [Function.comp]
        cases e0 : num ((splitAt d s).getD 0 "") with
        | none => rw [e0] at n0; simp at n0
        | some r0 =>
          cases e1 : num ((splitAt d s).getD 1 "") with
          | none => rw [e1] at n1; simp at n1
          | some r1 =>
            rw [intOfNum_of_int num _ r0 e0 ((hint s hs r0).1 e0), intOfNum_of_int num _ r1 e1 ((hint s hs r1).2 e1)]
            simp [truncRat_of_int _ ((hint s hs r0).1 e0), truncRat_of_int _ ((hint s hs r1).2 e1)]
      have hclass : classify (intOfNum num) ((tuplesOf num (body.map (splitAt d))).map fun e => (e.1, e.2.1))
          = .inl ((body.map (splitAt d)).map fun r =>
              (truncRat ((num (r.getD 0 "")).getD 0), truncRat ((num (r.getD 1 "")).getD 0))) := by
        rw [tuplesOf_pairs, hpairs, classify_strs_numeric _ _ hRne hids, hedges]
      -- the other side
      unfold fromEdgeListWith tupleWeights
      simp only [hclass]
      rcases hshape with h2 | h3
      · -- rows of two fields: no weights
        have hT := tuplesOf_two num (body.map (splitAt d)) (by
          intro r hr; obtain ⟨s, hs, rfl⟩ := List.mem_map.mp hr; exact h2 s hs)
        have hW : hasWeights (tuplesOf num (body.map (splitAt d))) = false := by
          rw [hT, hR]; rfl
        have hl3 : ¬ (splitAt d s0).length = 3 := by rw [h2 s0 hs0]; omega
        have hemp : (tuplesOf num (body.map (splitAt d))).isEmpty = false := by
          rw [hT, hR]; rfl
        simp only [hW, hl3, hemp, Bool.false_and, Bool.false_eq_true, if_false]
      · -- rows of three fields: the third one is the weight
        have hT := tuplesOf_three num (body.map (splitAt d))
          (by intro r hr; obtain ⟨s, hs, rfl⟩ := List.mem_map.mp hr; exact h3 s hs)
          (by intro r hr
              have hl : r.length = 3 := by obtain ⟨s, hs, rfl⟩ := List.mem_map.mp hr; exact h3 s hs
              exact (hfield r hr _ (hget r hr 2 (by omega))).1)
          (by intro r hr
              have hl : r.length = 3 := by obtain ⟨s, hs, rfl⟩ := List.mem_map.mp hr; exact h3 s hs
              exact (hfield r hr _ (hget r hr 2 (by omega))).2)
        have hW : hasWeights (tuplesOf num (body.map (splitAt d))) = true := by
          rw [hT, hR]; rfl
        have hl3 : (splitAt d s0).length = 3 := h3 s0 hs0
        have hemp : (tuplesOf num (body.map (splitAt d))).isEmpty = false := by
          rw [hT, hR]; rfl
        have habs : (tuplesOf num (body.map (splitAt d))).any (fun e => decide (e.2.2 = WField.absent)) = false := by
          rw [hT, List.any_eq_false]
          intro e he
          obtain ⟨r, _, rfl⟩ := List.mem_map.mp he
          simp
        have htxt : (tuplesOf num (body.map (splitAt d))).any (fun e => decide (e.2.2 = WField.text)) = false := by
          rw [hT, List.any_eq_false]
          intro e he
          obtain ⟨r, _, rfl⟩ := List.mem_map.mp he
          simp
        have hws : (tuplesOf num (body.map (splitAt d))).map (fun e => match e.2.2 with | .num w => w | _ => 0)
            = (body.map (splitAt d)).map fun r => (num (r.getD 2 "")).getD 0 := by
          rw [hT, List.map_map]
          rfl
        simp only [hW, hl3, hemp, habs, htxt, Bool.and_false, Bool.false_and, Bool.false_eq_true, if_false, if_true]
        refine congrArg _ (congrArg (fun w => fromEdgeArrayWith symW ltInt (some id) _ w f) ?_)
        rw [← hws]
        congr 1
    · simp only [hnum, Bool.not_false, if_true]
      rw [hany2]
      simp

/-- `from_csv` with the delimiter handed over (`delimiter=` or its alias `sep=`), on a clean file of at most
    `n_scan = 100` rows that all have two fields or all have three: the graph of the list of its rows. -/
theorem fromCsv_given (symW : Flags → Bool) (num : String → Option Rat) (header body : List String)
    (a : CsvArgs) (f : Flags) (d : Char)
    (hgiven : csvGiven a = some d)
    (hlay : a.layout = none ∨ a.layout = some .edgeList)
    (hh : ∀ s ∈ header, isCommentLine a.comments s = true)
    (hclean : CleanFile d (lastComment (a.comments.headD '#') header) a.comments header body)
    (hrs : ∀ s ∈ body, rstrip s = s)
    (hne : body ≠ [])
    (hshape : (∀ s ∈ body, (splitAt d s).length = 2) ∨ (∀ s ∈ body, (splitAt d s).length = 3))
    (hint : ∀ s ∈ body, ∀ r, (num ((splitAt d s).getD 0 "") = some r → r.den = 1) ∧
                              (num ((splitAt d s).getD 1 "") = some r → r.den = 1)) :
    fromCsvWith symW num (header ++ body) a f
      = fromEdgeListWith symW (intOfNum num) (tuplesOf num (body.map (splitAt d))) f := by
  have hsc : csvScan (header ++ body) a = scanHeader (header ++ body) [d] a.comments := by
    unfold csvScan; rw [hgiven]
  obtain ⟨h1, h2, h3, h4⟩ := scanHeader_clean_any [d] a.comments 100 (by omega) header body hh
    (fun s hs => hclean.body_data s hs) (fun s hs => hclean.notblank s hs)
  have htake_ne : body.take 100 ≠ [] := by
    cases body with
    | nil => exact absurd rfl hne
    | cons _ _ => simp
  have htake : ∀ s ∈ body.take 100, s ∈ body := fun s hs => List.mem_of_mem_take hs
  have hdel : (scanHeader (header ++ body) [d] a.comments).delimiter = d := by
    rw [h3]
    simp only [List.length_cons, List.length_nil, Nat.zero_add]
    rw [chooseDelimiter_single]
    rfl
  have hd : csvDelimiter (header ++ body) a = d := by
    unfold csvDelimiter; rw [hgiven]; rfl
  have hlayout : a.layout.getD (csvScan (header ++ body) a).layout = .edgeList := by
    rcases hlay with h | h
    · rw [h, hsc, h4, hdel, map_id_of _ _ (fun s hs => hrs s (htake s hs))]
      exact layoutOf_edge d _ htake_ne (by
        rcases hshape with h' | h'
        · exact Or.inl (fun s hs => h' s (htake s hs))
        · exact Or.inr (fun s hs => h' s (htake s hs)))
    · rw [h]; rfl
  exact fromCsv_clean symW num header body a f d _ hd (by rw [hsc, h2]) hlayout hclean hne hshape hint

/-- `from_csv` with the delimiter inferred: one of the candidates `\t , ; space` occurs the same positive
    number of times in every row and is the only candidate that does so on the scanned rows (the other
    candidates may occur, e.g. a blank inside a name: `not_consistent_of_absent` discharges the hypothesis
    when they do not occur at all). -/
theorem fromCsv_inferred (symW : Flags → Bool) (num : String → Option Rat) (header body : List String)
    (a : CsvArgs) (f : Flags) (k : Nat) (hk : k < 4)
    (hgiven : csvGiven a = none)
    (hlay : a.layout = none ∨ a.layout = some .edgeList)
    (hh : ∀ s ∈ header, isCommentLine a.comments s = true)
    (hclean : CleanFile (['\t', ',', ';', ' '].getD k ' ') (lastComment (a.comments.headD '#') header) a.comments
      header body)
    (hrs : ∀ s ∈ body, rstrip s = s)
    (hne : body ≠ [])
    (hshape : (∀ s ∈ body, (splitAt (['\t', ',', ';', ' '].getD k ' ') s).length = 2) ∨
              (∀ s ∈ body, (splitAt (['\t', ',', ';', ' '].getD k ' ') s).length = 3))
    (hunique : ∀ j, j < 4 → j ≠ k → consistentCol
      ((body.take 100).map fun row => ['\t', ',', ';', ' '].map (fun d => countChar d row)) j = false)
    (hint : ∀ s ∈ body, ∀ r,
      (num ((splitAt (['\t', ',', ';', ' '].getD k ' ') s).getD 0 "") = some r → r.den = 1) ∧
      (num ((splitAt (['\t', ',', ';', ' '].getD k ' ') s).getD 1 "") = some r → r.den = 1)) :
    fromCsvWith symW num (header ++ body) a f
      = fromEdgeListWith symW (intOfNum num)
          (tuplesOf num (body.map (splitAt (['\t', ',', ';', ' '].getD k ' ')))) f := by
  have hsc : csvScan (header ++ body) a = scanHeader (header ++ body) ['\t', ',', ';', ' '] a.comments := by
    unfold csvScan; rw [hgiven]
  obtain ⟨h1, h2, h3, h4⟩ := scanHeader_clean_any ['\t', ',', ';', ' '] a.comments 100 (by omega) header body hh
    (fun s hs => hclean.body_data s hs) (fun s hs => hclean.notblank s hs)
  have htake_ne : body.take 100 ≠ [] := by
    cases body with
    | nil => exact absurd rfl hne
    | cons _ _ => simp
  have htake : ∀ s ∈ body.take 100, s ∈ body := fun s hs => List.mem_of_mem_take hs
  -- the count of the delimiter on every row
  have hcount : ∃ c, 0 < c ∧ ∀ row ∈ body, countChar (['\t', ',', ';', ' '].getD k ' ') row = c := by
    rcases hshape with h | h
    · exact ⟨1, by omega, fun row hrow => by have := h row hrow; rw [splitAt_length] at this; omega⟩
    · exact ⟨2, by omega, fun row hrow => by have := h row hrow; rw [splitAt_length] at this; omega⟩
  obtain ⟨c, hc, hcall⟩ := hcount
  have hchoose : chooseDelimiter 4 ((body.take 100).map fun row => ['\t', ',', ';', ' '].map (fun d => countChar d row)) = k :=
    chooseDelimiter_unique 4 _ k hk
      (consistent_of_equal_counts ['\t', ',', ';', ' '] (body.take 100) k hk c hc htake_ne
        (fun row hrow => hcall row (htake row hrow)))
      hunique
  have hdel : (scanHeader (header ++ body) ['\t', ',', ';', ' '] a.comments).delimiter
      = ['\t', ',', ';', ' '].getD k ' ' := by
    rw [h3]
    simp only [List.length_cons, List.length_nil, Nat.zero_add]
    rw [hchoose]
  have hd : csvDelimiter (header ++ body) a = ['\t', ',', ';', ' '].getD k ' ' := by
    unfold csvDelimiter; rw [hgiven, hsc, hdel]; rfl
  have hlayout : a.layout.getD (csvScan (header ++ body) a).layout = .edgeList := by
    rcases hlay with h | h
    · rw [h, hsc, h4, hdel, map_id_of _ _ (fun s hs => hrs s (htake s hs))]
      exact layoutOf_edge _ _ htake_ne (by
        rcases hshape with h' | h'
        · exact Or.inl (fun s hs => h' s (htake s hs))
        · exact Or.inr (fun s hs => h' s (htake s hs)))
    · rw [h]; rfl
  exact fromCsv_clean symW num header body a f _ _ hd (by rw [hsc, h2]) hlayout hclean hne hshape hint

end SkNet.Ingest
