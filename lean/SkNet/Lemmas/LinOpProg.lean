/-
C15 lemmas: programs over operator values (an operator may be used by several statements).
Executing a statement never changes an operator bound before, and every bound operator is the value of the
expression tree obtained by unfolding the statements — so a DAG is worth its unfolded tree.
-/
import SkNet.Lemmas.LinOpType

namespace SkNet.LinOp
open SkNet

/-- every operator of the environment is the value of the tree at the same position -/
def EnvRel (trees : List OpExpr) (env : List Op) : Prop :=
  trees.length = env.length ∧
    ∀ (i : Nat) (t : OpExpr) (o : Op), trees[i]? = some t → env[i]? = some o → t.eval = .ok o

theorem EnvRel.nil : EnvRel [] [] := ⟨rfl, fun i t o h _ => by simp at h⟩

theorem envGet_ok {env : List Op} {i : Nat} {o : Op} (h : envGet env i = .ok o) : env[i]? = some o := by
  unfold envGet at h
  cases he : env[i]? with
  | none => rw [he] at h; cases h
  | some x => rw [he] at h; cases h; rfl

theorem EnvRel.tree {trees : List OpExpr} {env : List Op} (hr : EnvRel trees env) {i : Nat} {o : Op}
    (h : envGet env i = .ok o) : ∃ t, trees[i]? = some t ∧ t.eval = .ok o := by
  have ho := envGet_ok h
  have hi : i < env.length := by
    by_contra hc
    rw [List.getElem?_eq_none (Nat.le_of_not_lt hc)] at ho
    cases ho
  have hi' : i < trees.length := by rw [hr.1]; exact hi
  exact ⟨trees[i], List.getElem?_eq_getElem hi', hr.2 i _ o (List.getElem?_eq_getElem hi') ho⟩

theorem EnvRel.snoc {trees : List OpExpr} {env : List Op} (hr : EnvRel trees env) {t : OpExpr} {o : Op}
    (h : t.eval = .ok o) : EnvRel (trees ++ [t]) (env ++ [o]) := by
  refine ⟨by simp [hr.1], fun i t' o' ht ho => ?_⟩
  by_cases hi : i < trees.length
  · rw [List.getElem?_append_left hi] at ht
    rw [List.getElem?_append_left (by rw [← hr.1]; exact hi)] at ho
    exact hr.2 i t' o' ht ho
  · have hle : trees.length ≤ i := Nat.le_of_not_lt hi
    rw [List.getElem?_append_right hle] at ht
    rw [List.getElem?_append_right (by rw [← hr.1]; exact hle)] at ho
    rw [hr.1] at ht
    cases hk : i - env.length with
    | zero =>
      rw [hk] at ht ho
      simp at ht ho
      subst ht; subst ho; exact h
    | succ k => rw [hk] at ht; simp at ht

/-- one statement: what it builds is the value of the tree it unfolds to -/
theorem Stmt.exec_unfold {trees : List OpExpr} {env : List Op} (hr : EnvRel trees env) (s : Stmt) {o : Op}
    (h : s.exec env = .ok o) : ∃ t, s.unfold trees = some t ∧ t.eval = .ok o := by
  cases s with
  | leaf e => exact ⟨e, rfl, h⟩
  | neg i =>
    simp only [Stmt.exec] at h
    obtain ⟨x, hx, h⟩ := bind_eq_ok h
    obtain ⟨t, ht, hte⟩ := hr.tree hx
    exact ⟨.neg t, by simp [Stmt.unfold, ht], by simp only [OpExpr.eval, hte]; exact h⟩
  | mul i c =>
    simp only [Stmt.exec] at h
    obtain ⟨x, hx, h⟩ := bind_eq_ok h
    obtain ⟨t, ht, hte⟩ := hr.tree hx
    exact ⟨.mul t c, by simp [Stmt.unfold, ht], by simp only [OpExpr.eval, hte]; exact h⟩
  | transpose i =>
    simp only [Stmt.exec] at h
    obtain ⟨x, hx, h⟩ := bind_eq_ok h
    obtain ⟨t, ht, hte⟩ := hr.tree hx
    exact ⟨.transpose t, by simp [Stmt.unfold, ht], by simp only [OpExpr.eval, hte]; exact h⟩
  | add i j =>
    simp only [Stmt.exec] at h
    obtain ⟨x, hx, h⟩ := bind_eq_ok h
    obtain ⟨y, hy, h⟩ := bind_eq_ok h
    obtain ⟨t, ht, hte⟩ := hr.tree hx
    obtain ⟨u, hu, hue⟩ := hr.tree hy
    exact ⟨.add t u, by simp [Stmt.unfold, ht, hu], by simp only [OpExpr.eval, hte, hue]; exact h⟩
  | sub i j =>
    simp only [Stmt.exec] at h
    obtain ⟨x, hx, h⟩ := bind_eq_ok h
    obtain ⟨y, hy, h⟩ := bind_eq_ok h
    obtain ⟨t, ht, hte⟩ := hr.tree hx
    obtain ⟨u, hu, hue⟩ := hr.tree hy
    exact ⟨.sub t u, by simp [Stmt.unfold, ht, hu], by simp only [OpExpr.eval, hte, hue]; exact h⟩
  | addCsr i a =>
    simp only [Stmt.exec] at h
    obtain ⟨x, hx, h⟩ := bind_eq_ok h
    obtain ⟨t, ht, hte⟩ := hr.tree hx
    exact ⟨.addCsr t a, by simp [Stmt.unfold, ht], by simp only [OpExpr.eval, hte]; exact h⟩
  | subCsr i a =>
    simp only [Stmt.exec] at h
    obtain ⟨x, hx, h⟩ := bind_eq_ok h
    obtain ⟨t, ht, hte⟩ := hr.tree hx
    exact ⟨.subCsr t a, by simp [Stmt.unfold, ht], by simp only [OpExpr.eval, hte]; exact h⟩
  | leftDot m i =>
    simp only [Stmt.exec] at h
    obtain ⟨x, hx, h⟩ := bind_eq_ok h
    obtain ⟨t, ht, hte⟩ := hr.tree hx
    exact ⟨.leftDot m t, by simp [Stmt.unfold, ht], by simp only [OpExpr.eval, hte]; exact h⟩
  | rightDot i m =>
    simp only [Stmt.exec] at h
    obtain ⟨x, hx, h⟩ := bind_eq_ok h
    obtain ⟨t, ht, hte⟩ := hr.tree hx
    exact ⟨.rightDot t m, by simp [Stmt.unfold, ht], by simp only [OpExpr.eval, hte]; exact h⟩
  | astype i dt =>
    simp only [Stmt.exec] at h
    obtain ⟨x, hx, h⟩ := bind_eq_ok h
    obtain ⟨t, ht, hte⟩ := hr.tree hx
    exact ⟨.astype t dt, by simp [Stmt.unfold, ht], by simp only [OpExpr.eval, hte]; exact h⟩
  | rmul c i =>
    simp only [Stmt.exec] at h
    obtain ⟨x, hx, h⟩ := bind_eq_ok h
    obtain ⟨t, ht, hte⟩ := hr.tree hx
    exact ⟨.rmul c t, by simp [Stmt.unfold, ht], by simp only [OpExpr.eval, hte]; exact h⟩
  | d2u i =>
    simp only [Stmt.exec] at h
    obtain ⟨x, hx, h⟩ := bind_eq_ok h
    obtain ⟨t, ht, hte⟩ := hr.tree hx
    exact ⟨.d2u t, by simp [Stmt.unfold, ht], by simp only [OpExpr.eval, hte]; exact h⟩
  | b2d i =>
    simp only [Stmt.exec] at h
    obtain ⟨x, hx, h⟩ := bind_eq_ok h
    obtain ⟨t, ht, hte⟩ := hr.tree hx
    exact ⟨.b2d t, by simp [Stmt.unfold, ht], by simp only [OpExpr.eval, hte]; exact h⟩
  | b2u i =>
    simp only [Stmt.exec] at h
    obtain ⟨x, hx, h⟩ := bind_eq_ok h
    obtain ⟨t, ht, hte⟩ := hr.tree hx
    exact ⟨.b2u t, by simp [Stmt.unfold, ht], by simp only [OpExpr.eval, hte]; exact h⟩
  | normalize i =>
    simp only [Stmt.exec] at h
    obtain ⟨x, hx, h⟩ := bind_eq_ok h
    obtain ⟨t, ht, hte⟩ := hr.tree hx
    exact ⟨.normalize t, by simp [Stmt.unfold, ht], by simp only [OpExpr.eval, hte]; exact h⟩

/-- **running more statements never changes an operator bound before**: the final environment extends the
initial one, by one operator per statement -/
theorem Prog.run_prefix : ∀ (ss : List Stmt) (env env' : List Op), Prog.run ss env = .ok env' →
    ∃ rest, env' = env ++ rest ∧ rest.length = ss.length
  | [], env, env', h => by
    simp only [Prog.run] at h; cases h; exact ⟨[], by simp, rfl⟩
  | s :: ss, env, env', h => by
    simp only [Prog.run] at h
    obtain ⟨o, _, h⟩ := bind_eq_ok h
    obtain ⟨rest, hr, hl⟩ := Prog.run_prefix ss (env ++ [o]) env' h
    exact ⟨o :: rest, by rw [hr]; simp, by simp [hl]⟩

/-- **a program is worth its unfolded trees**: every operator of the final environment is the value of the
expression tree obtained by unfolding the statements -/
theorem Prog.run_unfold : ∀ (ss : List Stmt) (trees : List OpExpr) (env env' : List Op), EnvRel trees env →
    Prog.run ss env = .ok env' → ∃ trees', Prog.unfold ss trees = some trees' ∧ EnvRel trees' env'
  | [], trees, env, env', hr, h => by
    simp only [Prog.run] at h; cases h; exact ⟨trees, rfl, hr⟩
  | s :: ss, trees, env, env', hr, h => by
    simp only [Prog.run] at h
    obtain ⟨o, ho, h⟩ := bind_eq_ok h
    obtain ⟨t, ht, hte⟩ := Stmt.exec_unfold hr s ho
    obtain ⟨trees', hu, hr'⟩ := Prog.run_unfold ss (trees ++ [t]) (env ++ [o]) env' (hr.snoc hte) h
    exact ⟨trees', by simp [Prog.unfold, ht, hu], hr'⟩

end SkNet.LinOp
