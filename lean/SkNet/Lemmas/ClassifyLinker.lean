/-
NNLinker._fit_core (model `SkNet.Classify.Linker`): for any selection `np.argpartition` may return, the kept links
of a row satisfy the row specification.  Also the probability rows of `Propagation`.
-/
import SkNet.Lemmas.ClassifyRows
import SkNet.Lemmas.ClassifyDiffusion
import Mathlib.Data.List.Nodup
import Mathlib.Data.List.Perm.Subperm

namespace SkNet.Classify

attribute [-simp] List.getD_eq_getElem?_getD

theorem checkNeighbors_le (k m : Nat) : (checkNeighbors k m).toNat ≤ k := by
  unfold checkNeighbors
  split <;> omega

theorem checkNeighbors_lt (k m : Nat) (hm : 0 < m) : (checkNeighbors k m).toNat < m := by
  unfold checkNeighbors
  split <;> omega

theorem getD_map_neg (sims : List Rat) (j : Nat) : (sims.map fun s => -s).getD j 0 = -(sims.getD j 0) := by
  simp only [List.getD_eq_getElem?_getD, List.getElem?_map]
  cases sims[j]? <;> simp

namespace Linker

theorem mem_keepRow (sims : List Rat) (thr : Rat) (top : List Nat) (e : Nat × Rat) :
    e ∈ keepRow sims thr top ↔
      e.1 < sims.length ∧ e.1 ∈ top ∧ ¬ (sims.getD e.1 0 < thr) ∧ e.2 = sims.getD e.1 0 := by
  unfold keepRow
  simp only [List.mem_map, List.mem_filter, List.mem_range, Bool.and_eq_true, List.contains_iff_mem,
    Bool.not_eq_true', decide_eq_false_iff_not]
  constructor
  · rintro ⟨j, ⟨hj, hm, hthr⟩, rfl⟩
    exact ⟨hj, hm, hthr, rfl⟩
  · rintro ⟨h1, h2, h3, h4⟩
    refine ⟨e.1, ⟨h1, h2, h3⟩, ?_⟩
    rw [← h4]

theorem keepRow_cols (sims : List Rat) (thr : Rat) (top : List Nat) :
    (keepRow sims thr top).map (·.1) =
      (List.range sims.length).filter fun j => top.contains j && !(decide (sims.getD j 0 < thr)) := by
  unfold keepRow
  rw [List.map_map]
  have : ((fun (x : Nat × Rat) => x.1) ∘ fun j => (j, sims.getD j 0)) = id := by
    funext j
    rfl
  rw [this, List.map_id]

/-- ★ the row specification holds of the kept links, for every selection satisfying the contract of
    `np.argpartition(-similarities, k)[:k]` -/
theorem keepRow_spec (sims : List Rat) (k : Nat) (thr : Rat) (top : List Nat)
    (htop : IsSmallestK (sims.map fun s => -s) k top = true) :
    Spec.linkerRowOK sims k thr 0 (keepRow sims thr top) = true := by
  unfold IsSmallestK at htop
  simp only [Bool.and_eq_true, beq_iff_eq, List.all_eq_true, decide_eq_true_eq, List.mem_range,
    List.length_map, Bool.or_eq_true, List.contains_iff_mem] at htop
  obtain ⟨⟨⟨hlen, hnd⟩, _⟩, hsmall⟩ := htop
  have hnd' : top.Nodup := by simpa using hnd
  unfold Spec.linkerRowOK
  simp only [Bool.and_eq_true, decide_eq_true_eq, List.all_eq_true, List.mem_range, Bool.or_eq_true,
    List.contains_iff_mem]
  have hcols := keepRow_cols sims thr top
  refine ⟨⟨⟨⟨⟨?_, ?_⟩, ?_⟩, ?_⟩, ?_⟩, ?_⟩
  · -- at most k links
    have hl : (keepRow sims thr top).length = ((keepRow sims thr top).map (·.1)).length := by simp
    rw [hl, hcols, ← hlen]
    have hsub : ((List.range sims.length).filter fun j => top.contains j && !(decide (sims.getD j 0 < thr))) ⊆ top := by
      intro j hj
      simp only [List.mem_filter, Bool.and_eq_true, List.contains_iff_mem] at hj
      exact hj.2.1
    have hndf : ((List.range sims.length).filter fun j => top.contains j && !(decide (sims.getD j 0 < thr))).Nodup :=
      List.Nodup.filter _ List.nodup_range
    exact (List.subperm_of_subset hndf hsub).length_le
  · have : ((keepRow sims thr top).map (·.1)).Nodup := by
      rw [hcols]
      exact List.Nodup.filter _ List.nodup_range
    simpa using this
  · intro c hc
    obtain ⟨e, he, rfl⟩ := List.mem_map.mp hc
    simpa using ((mem_keepRow sims thr top e).mp he).1
  · intro e he
    obtain ⟨_, _, h3, h4⟩ := (mem_keepRow sims thr top e).mp he
    rw [h4]
    exact not_lt.mp h3
  · intro e he
    obtain ⟨_, _, _, h4⟩ := (mem_keepRow sims thr top e).mp he
    rw [h4]
    simp [rabs_zero]
  · intro e he j hj
    obtain ⟨h1, h2, h3, _⟩ := (mem_keepRow sims thr top e).mp he
    by_cases hjc : j ∈ (keepRow sims thr top).map (·.1)
    · exact Or.inl hjc
    · right
      rw [hcols] at hjc
      simp only [List.mem_filter, List.mem_range, Bool.and_eq_true, List.contains_iff_mem, Bool.not_eq_true',
        decide_eq_false_iff_not, not_and, not_not] at hjc
      by_cases hjt : j ∈ top
      · have := hjc hj hjt
        have h3' := not_lt.mp h3
        linarith
      · rcases hsmall e.1 h2 j hj with hq | hq
        · exact absurd hq hjt
        · rw [getD_map_neg, getD_map_neg] at hq
          linarith

end Linker

/-! ### probability rows of `Propagation` -/

theorem propagation_probsRow_ok (c : Csr Rat) (hw : ∀ p, 0 ≤ c.data.getD p 0) (labels : List Int) (i : Nat) :
    Spec.rowOK 0 (Propagation.probsRow c labels i) = true := by
  unfold Propagation.probsRow
  apply normalizeRow_rowOK
  intro x hx
  unfold tab at hx
  obtain ⟨l, _, rfl⟩ := List.mem_map.mp hx
  apply rsum_nonneg
  intro y hy
  obtain ⟨e, he, rfl⟩ := List.mem_map.mp hy
  have hmem := (List.mem_filter.mp he).1
  unfold Csr.row at hmem
  obtain ⟨p, _, rfl⟩ := List.mem_map.mp hmem
  exact hw p

/-! ### routing keeps the weights non-negative -/

theorem blockCsr_nonneg (b : Csr Rat) (hw : ∀ p, 0 ≤ b.data.getD p 0) : ∀ p, 0 ≤ (blockCsr b).data.getD p 0 := by
  intro p
  apply Vote.getD_nonneg_of_forall
  intro x hx
  unfold blockCsr at hx
  simp only [List.mem_flatMap, List.mem_map] at hx
  obtain ⟨row, hrow, e, he, rfl⟩ := hx
  obtain ⟨i, _, rfl⟩ := (mem_tab _ _ _).mp hrow
  have hrow_nonneg : ∀ r, ∀ e ∈ b.row r, 0 ≤ e.2 := by
    intro r e he
    unfold Csr.row at he
    obtain ⟨q, _, rfl⟩ := List.mem_map.mp he
    exact hw q
  split at he
  · obtain ⟨e0, he0, rfl⟩ := List.mem_map.mp he
    exact hrow_nonneg i e0 he0
  · simp only [List.mem_flatMap, List.mem_range, List.mem_map, List.mem_filter] at he
    obtain ⟨r, _, e0, ⟨he0, _⟩, rfl⟩ := he
    exact hrow_nonneg r e0 he0

theorem routed_adj (c : Csr Rat) (fb : Bool) (v r cc : Seeds) (rt : Routed)
    (h : adjacencyValues c fb v r cc = .ok rt) : rt.adj = c ∨ rt.adj = blockCsr c := by
  unfold adjacencyValues at h
  split at h
  · cases h
  · split at h
    · right
      cases hs : (if v.given then stackValues c.nRow c.nCol v cc else stackValues c.nRow c.nCol r cc) with
      | error e => rw [hs] at h; cases h
      | ok vals =>
        rw [hs] at h
        simp only [Except.map, Except.ok.injEq] at h
        rw [← h]
    · left
      cases hs : getValues c.nRow v with
      | error e => rw [hs] at h; cases h
      | ok vals =>
        rw [hs] at h
        simp only [Except.map, Except.ok.injEq] at h
        rw [← h]

/-- `get_adjacency_values` hands non-negative weights on (square input: unchanged; bipartite: block matrix) -/
theorem routed_nonneg (c : Csr Rat) (hw : ∀ p, 0 ≤ c.data.getD p 0) (fb : Bool) (v r cc : Seeds) (rt : Routed)
    (h : adjacencyValues c fb v r cc = .ok rt) : ∀ p, 0 ≤ rt.adj.data.getD p 0 := by
  rcases routed_adj c fb v r cc rt h with h1 | h1
  · rw [h1]
    exact hw
  · rw [h1]
    exact blockCsr_nonneg c hw

end SkNet.Classify
