/-
Termination of the Louvain kernel in exact arithmetic for a positive tolerance: `Q` is bounded over all
partitions, every pass that does not stop the loop raises `Q` by more than the tolerance.
-/
import Mathlib.Algebra.Order.Archimedean.Basic
import Mathlib.Algebra.Order.BigOperators.Group.Finset
import SkNet.Lemmas.ModularityLoop

namespace SkNet.Modularity
open Finset

/-- a bound of `|Q|` that does not depend on the partition -/
def qBound (g : Graph Rat) (res : Rat) : Rat :=
  ∑ u ∈ range g.n, ∑ v ∈ range g.n, (|adj g u v| + |res| * (|g.outW u| * |g.inW v|))

theorem QG_le_qBound (g : Graph Rat) (res : Rat) (labels : List Nat) : QG g res labels ≤ qBound g res := by
  unfold QG qBound
  rw [Q_eq]
  refine sum_le_sum fun u _ => sum_le_sum fun v _ => ?_
  split
  · have h1 : adj g u v ≤ |adj g u v| := le_abs_self _
    have h2 : -(res * (g.outW u * g.inW v)) ≤ |res| * (|g.outW u| * |g.inW v|) := by
      rw [← abs_mul, ← abs_mul]
      exact neg_le_abs _
    linarith
  · positivity

theorem coreLoop_terminates (g : Graph Rat) (hg : GraphOK g) (res tol : Rat) (K : Nat) :
    ∀ (fuel : Nat) (st : St Rat) (inc : Rat), CoreInv g K st →
      qBound g res - QG g res st.labels < tol * fuel → (coreLoop g res tol fuel st inc).isSome = true := by
  intro fuel
  induction fuel with
  | zero =>
    intro st inc _ h
    have := QG_le_qBound g res st.labels
    simp only [Nat.cast_zero, mul_zero] at h
    linarith
  | succ f ih =>
    intro st inc hinv h
    obtain ⟨p1, p2, -, -, -⟩ := corePass_spec g hg res K st hinv
    simp only [coreLoop]
    split
    · rfl
    · rename_i hstop
      have hgt : tol < (corePass g res st).2 := by
        simp only [le_rat, decide_eq_true_eq, not_le] at hstop
        exact hstop
      refine ih _ _ p1 ?_
      have : (tol : Rat) * ((f + 1 : Nat) : Rat) = tol * f + tol := by push_cast; ring
      rw [this] at h
      linarith

/-- **termination of `optimize_core`** (exact arithmetic, positive tolerance): from some fuel on it returns -/
theorem optimizeCore_terminates (g : Graph Rat) (hg : GraphOK g) (res tol : Rat) (htol : 0 < tol) (K : Nat)
    (st : St Rat) (hinv : CoreInv g K st) :
    ∃ fuel : Nat, ∀ fuel', fuel ≤ fuel' → (optimizeCore g res tol fuel' st).isSome = true := by
  obtain ⟨N, hN⟩ := exists_nat_gt ((qBound g res - QG g res st.labels) / tol)
  refine ⟨N, fun fuel' hle => ?_⟩
  unfold optimizeCore
  rw [Option.isSome_map]
  refine coreLoop_terminates g hg res tol K fuel' st _ hinv ?_
  have h1 : (qBound g res - QG g res st.labels) < tol * N := by
    rw [div_lt_iff₀ htol] at hN
    linarith
  have h2 : (N : Rat) ≤ fuel' := by exact_mod_cast hle
  nlinarith

end SkNet.Modularity
