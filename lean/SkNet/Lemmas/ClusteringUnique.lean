/-
Lemmas on the model of `np.unique` (sorted distinct values, inverse, counts) used by C05.
-/
import SkNet.Model.Clustering
import SkNet.Spec.Clustering
import Mathlib.Data.List.Nodup
import Mathlib.Data.List.Perm.Basic
import Mathlib.Data.List.Sort

namespace SkNet.Clustering

/-! ### `insertU`, `unique` -/

theorem mem_insertU {x y : Int} {l : List Int} : y ∈ insertU x l ↔ y = x ∨ y ∈ l := by
  induction l with
  | nil => simp [insertU]
  | cons z zs ih =>
    unfold insertU
    split
    · simp
    · split
      · rename_i h; subst h; simp
      · simp [ih]; tauto

theorem insertU_pairwise {x : Int} {l : List Int} (h : l.Pairwise (· < ·)) :
    (insertU x l).Pairwise (· < ·) := by
  induction l with
  | nil => simp [insertU]
  | cons z zs ih =>
    have hz := List.pairwise_cons.mp h
    unfold insertU
    split
    · rename_i hxz
      refine List.pairwise_cons.mpr ⟨?_, h⟩
      intro a ha
      rcases List.mem_cons.mp ha with rfl | ha
      · exact hxz
      · exact lt_trans hxz (hz.1 a ha)
    · split
      · exact h
      · rename_i h1 h2
        refine List.pairwise_cons.mpr ⟨?_, ih hz.2⟩
        intro a ha
        rcases mem_insertU.mp ha with rfl | ha
        · omega
        · exact hz.1 a ha

theorem mem_unique {y : Int} {l : List Int} : y ∈ unique l ↔ y ∈ l := by
  induction l with
  | nil => simp [unique]
  | cons z zs ih =>
    have : unique (z :: zs) = insertU z (unique zs) := rfl
    rw [this, mem_insertU, ih]; simp

theorem unique_pairwise (l : List Int) : (unique l).Pairwise (· < ·) := by
  induction l with
  | nil => simp [unique]
  | cons z zs ih => exact insertU_pairwise ih

theorem unique_nodup (l : List Int) : (unique l).Nodup :=
  (unique_pairwise l).imp (fun h => ne_of_lt h)

/-- `unique` only depends on the set of values -/
theorem unique_eq_of_mem_iff {l₁ l₂ : List Int} (h : ∀ x, x ∈ l₁ ↔ x ∈ l₂) : unique l₁ = unique l₂ := by
  apply List.Perm.eq_of_pairwise (le := (· < ·)) (fun a b _ _ h1 h2 => by omega)
    (unique_pairwise l₁) (unique_pairwise l₂)
  rw [List.perm_ext_iff_of_nodup (unique_nodup _) (unique_nodup _)]
  intro a; rw [mem_unique, mem_unique, h]

theorem unique_of_pairwise {l : List Int} (h : l.Pairwise (· < ·)) : unique l = l := by
  apply List.Perm.eq_of_pairwise (le := (· < ·)) (fun a b _ _ h1 h2 => by omega)
    (unique_pairwise l) h
  rw [List.perm_ext_iff_of_nodup (unique_nodup _) (h.imp (fun h => ne_of_lt h))]
  intro a; rw [mem_unique]

/-! ### `inverse`, `counts` -/

theorem inverse_length (l : List Int) : (inverse l).length = l.length := by simp [inverse]

theorem counts_length (l : List Int) : (counts l).length = (unique l).length := by simp [counts]

theorem inverse_lt {l : List Int} {c : Nat} (h : c ∈ inverse l) : c < (unique l).length := by
  simp only [inverse, List.mem_map] at h
  obtain ⟨x, hx, rfl⟩ := h
  exact List.idxOf_lt_length_iff.mpr (mem_unique.mpr hx)

theorem mem_inverse {l : List Int} {c : Nat} (h : c < (unique l).length) : c ∈ inverse l := by
  simp only [inverse, List.mem_map]
  refine ⟨(unique l)[c], mem_unique.mp (List.getElem_mem h), ?_⟩
  exact (unique_nodup l).idxOf_getElem c h

/-- the labels produced by `return_inverse` are exactly `0..k-1`, `k` the number of distinct values -/
theorem inverse_contiguous (l : List Int) : Contiguous (inverse l) (unique l).length :=
  ⟨fun _ hx => inverse_lt hx, fun _ hc => mem_inverse hc⟩

theorem inverse_getElem? (l : List Int) (i : Nat) :
    (inverse l)[i]? = (l[i]?).map fun x => (unique l).idxOf x := by
  simp [inverse]

/-- compaction does not change the partition -/
theorem inverse_samePartition (l : List Int) : SamePartition l (inverse l) := by
  refine ⟨(inverse_length l).symm, ?_⟩
  intro i hi j hj
  rw [inverse_getElem?, inverse_getElem?]
  rw [List.getElem?_eq_getElem hi, List.getElem?_eq_getElem hj]
  simp only [Option.map_some, Option.some.injEq]
  exact (List.idxOf_inj (mem_unique.mpr (List.getElem_mem hi))).symm

theorem count_inverse {l : List Int} {c : Nat} (h : c < (unique l).length) :
    (inverse l).count c = l.count (unique l)[c] := by
  unfold inverse
  rw [List.count_eq_countP, List.countP_map, List.count_eq_countP]
  apply List.countP_congr
  intro x hx
  simp only [Function.comp, beq_iff_eq]
  have hxu := mem_unique.mpr hx
  constructor
  · intro hc; subst hc; exact (List.getElem_idxOf (List.idxOf_lt_length_iff.mpr hxu)).symm
  · intro hc; subst hc; exact (unique_nodup l).idxOf_getElem c h

theorem counts_getD {l : List Int} {c : Nat} (h : c < (unique l).length) :
    (counts l).getD c 0 = (inverse l).count c := by
  rw [count_inverse h]
  simp [counts, List.getD_eq_getElem?_getD, h]

end SkNet.Clustering
