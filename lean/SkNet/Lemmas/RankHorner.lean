/-
`Polynome._matvec` (Ruffini–Horner) computes the matrix polynomial `Σ_k c_k Mᵏ x`, coordinate by coordinate,
for every operator `mv` that acts on lists as the matrix `M` acts on vectors.
-/
import SkNet.Lemmas.RankModel

open Finset

namespace SkNet.Rank
open SkNet.RankSpec

/-- `mv` acts on lists of length `n` as the matrix `M` -/
def ActsAs (n : ℕ) (mv : List ℚ → List ℚ) (M : ℕ → ℕ → ℚ) : Prop :=
  ∀ l : List ℚ, ∀ i, i < n → (mv l).getD i 0 = ∑ j ∈ range n, M i j * l.getD j 0

theorem matVec_eq (n : ℕ) (M : ℕ → ℕ → ℚ) (x : ℕ → ℚ) (i : ℕ) :
    matVec n M x i = ∑ j ∈ range n, M i j * x j := sumTo_eq n _

theorem polyApply_eq (n : ℕ) (M : ℕ → ℕ → ℚ) (c : List ℚ) (x : ℕ → ℚ) (i : ℕ) :
    polyApply n M c x i = ∑ k ∈ range c.length, c.getD k 0 * matPow n M k x i := map_range_sum _ _

theorem polyApply_cons (n : ℕ) (M : ℕ → ℕ → ℚ) (a : ℚ) (c : List ℚ) (x : ℕ → ℚ) (i : ℕ) :
    polyApply n M (a :: c) x i = a * x i + matVec n M (polyApply n M c x) i := by
  rw [polyApply_eq, matVec_eq, List.length_cons, sum_range_succ']
  simp only [List.getD_cons_succ, List.getD_cons_zero, matPow]
  rw [add_comm]
  congr 1
  simp only [polyApply_eq, matVec_eq, mul_sum]
  rw [sum_comm]
  apply sum_congr rfl; intro k _
  apply sum_congr rfl; intro j _
  ring

theorem vadd_getD (n : ℕ) (x y : List ℚ) (i : ℕ) (hi : i < n) :
    (vadd n x y).getD i 0 = x.getD i 0 + y.getD i 0 := by
  simp only [vadd, tab_getD, hi, if_true]

theorem smul_getD (n : ℕ) (c : ℚ) (x : List ℚ) (i : ℕ) (hi : i < n) :
    (smul n c x).getD i 0 = c * x.getD i 0 := by
  simp only [smul, tab_getD, hi, if_true]

/-- the Horner loop, started from a state that already is a polynomial value -/
theorem horner_fold (n : ℕ) (M : ℕ → ℕ → ℚ) (mv : List ℚ → List ℚ) (hmv : ActsAs n mv M) (x : List ℚ)
    (cs d : List ℚ) (y : List ℚ)
    (hy : ∀ i, i < n → y.getD i 0 = polyApply n M d (fun j => x.getD j 0) i) :
    ∀ i, i < n → (cs.foldl (fun y a => vadd n (mv y) (smul n a x)) y).getD i 0
      = polyApply n M (cs.reverse ++ d) (fun j => x.getD j 0) i := by
  induction cs generalizing d y with
  | nil => simpa using hy
  | cons a t ih =>
    intro i hi
    rw [List.foldl_cons, List.reverse_cons, List.append_assoc, List.singleton_append]
    apply ih (a :: d) _ _ i hi
    intro i hi
    rw [vadd_getD n _ _ i hi, smul_getD n _ _ i hi, hmv y i hi, polyApply_cons, matVec_eq, add_comm]
    congr 1
    apply sum_congr rfl; intro j hj
    rw [hy j (mem_range.mp hj)]

/-- ★ `horner_eq_powersum` : `Polynome._matvec` evaluates `Σ_k coeffs[k] · Mᵏ x`. -/
theorem horner_eq_polyApply (n : ℕ) (M : ℕ → ℕ → ℚ) (mv : List ℚ → List ℚ) (hmv : ActsAs n mv M)
    (coeffs x y : List ℚ) (h : horner n mv coeffs x = some y) :
    ∀ i, i < n → y.getD i 0 = polyApply n M coeffs (fun j => x.getD j 0) i := by
  unfold horner at h
  split at h
  · cases h
  · rename_i c cs hrev
    cases h
    have hc : coeffs = cs.reverse ++ [c] := by
      have := congrArg List.reverse hrev
      simpa using this
    rw [hc]
    apply horner_fold n M mv hmv x cs [c]
    intro i hi
    rw [smul_getD n _ _ i hi, polyApply_eq]
    simp [matPow]

end SkNet.Rank
