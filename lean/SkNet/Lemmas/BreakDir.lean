/- `break_cycles`, directed branch, inside one strongly connected component: every removal `cur → nb` happens while
   the stacked path from its first node (a sub-root) to `cur` through `nb` is stored, so what the sub-roots reach
   they keep reaching; when the loop ends no simple path from a sub-root has an edge back onto itself. -/
import SkNet.Model.Cycles
import SkNet.Spec.Connectivity
import SkNet.Lemmas.BreakInv
import SkNet.Lemmas.Complete

namespace SkNet.Cycles
open SkNet SkNet.Connectivity

/-- a stack entry of the directed traversal: duplicate-free, its edges but the last stored, first node a sub-root -/
def EntryD (src : Nat → Prop) (a : Rows) (q : List Nat) : Prop :=
  q ≠ [] ∧ q.Nodup ∧ rchain a q.tail = true ∧ ∀ s, q.getLast? = some s → src s

theorem getLast?_cons_of_ne_nil {x : Nat} {l : List Nat} (h : l ≠ []) : (x :: l).getLast? = l.getLast? := by
  obtain ⟨y, t, rfl⟩ := List.exists_cons_of_ne_nil h
  exact List.getLast?_cons_cons

/-- `for neighbor in cycle_neighbors` (directed), for an arbitrary list of candidate neighbours -/
theorem breakNeighborsDir_inv {src : Nat → Prop} {cur : Nat} {t : List Nat}
    (nbs : List Nat) (a : Rows) (stack : List (List Nat))
    (hnd : (cur :: t).Nodup) (hch : rchain a (cur :: t) = true)
    (hsrc : ∀ s, (cur :: t).getLast? = some s → src s)
    (hst : ∀ q ∈ stack, EntryD src a q ∧ q.tail <:+ cur :: t) :
    let r := breakNeighborsDir cur (cur :: t) nbs (a, stack)
    rchain r.1 (cur :: t) = true ∧ r.1.Sub a ∧
    (∀ σ v, src σ → Reach a.row σ v → ∃ σ', src σ' ∧ Reach r.1.row σ' v) ∧
    (∀ x y, y ∈ a.row x → y ∉ r.1.row x → x = cur ∧ y ∈ nbs) ∧
    (∀ q ∈ r.2, EntryD src r.1 q ∧ q.tail <:+ cur :: t) ∧
    ∃ pushed, r.2 = pushed ++ stack ∧ ∀ q ∈ pushed, q.tail = cur :: t := by
  induction nbs generalizing a stack with
  | nil =>
    simp only [breakNeighborsDir]
    exact ⟨hch, Rows.Sub.refl a, fun σ v hs hr => ⟨σ, hs, hr⟩, fun x y h1 h2 => absurd h1 h2, hst, [], rfl, by simp⟩
  | cons nb rest ih =>
    have hct : cur ∉ t := (List.nodup_cons.mp hnd).1
    unfold breakNeighborsDir
    by_cases hin : (cur :: t).contains nb = true
    · simp only [hin, ↓reduceIte]
      have hnb : nb ∈ cur :: t := by simpa using hin
      have hkeep : ∀ l, l <:+ cur :: t → rchain a l = true → rchain (a.remove cur nb) l = true := by
        intro l hl h
        apply rchain_remove_source cur nb h
        intro x hx hxc
        subst hxc
        rcases List.suffix_cons_iff.mp hl with rfl | hl'
        · exact hct hx
        · exact hct (List.IsSuffix.mem (List.mem_of_mem_tail hx) hl')
      have hch' := hkeep _ (List.suffix_refl _) hch
      have hst' : ∀ q ∈ stack, EntryD src (a.remove cur nb) q ∧ q.tail <:+ cur :: t := by
        intro q hq
        obtain ⟨⟨h1, h2, h3, h5⟩, h4⟩ := hst q hq
        exact ⟨⟨h1, h2, hkeep _ h4 h3, h5⟩, h4⟩
      obtain ⟨r1, r2, r3, r4, r5, r6⟩ := ih (a.remove cur nb) stack hch' hst'
      refine ⟨r1, r2.trans (Rows.remove_sub a cur nb), ?_, ?_, r5, r6⟩
      · -- the first node of the path still reaches `nb`
        obtain ⟨s, hs⟩ : ∃ s, (cur :: t).getLast? = some s := by
          cases h : (cur :: t).getLast? with
          | none => simp at h
          | some s => exact ⟨s, rfl⟩
        have hsm : s ∈ cur :: t := List.mem_of_getLast? hs
        -- along the stored path: s reaches every node of the path... we need s ⇝ nb
        have hreach_nb : Reach (a.remove cur nb).row s nb := by
          -- split the path at nb: the suffix from nb down to s is a stored chain headed by nb
          obtain ⟨pre, post, hsplit⟩ := List.append_of_mem hnb
          have hsuf : nb :: post <:+ cur :: t := ⟨pre, hsplit.symm⟩
          have hchs := rchain_suffix hsuf hch'
          have hlast : (nb :: post).getLast? = some s := by
            rw [hsplit, List.getLast?_append] at hs
            simpa using hs
          exact rchain_reach_head hchs s (List.mem_of_getLast? hlast)
        intro σ v hσ hr
        have : ∃ σ', src σ' ∧ Reach (a.remove cur nb).row σ' v := by
          induction hr with
          | refl => exact ⟨σ, hσ, Reach.refl _⟩
          | @tail x y _ he ih2 =>
            obtain ⟨σ1, h1, h2⟩ := ih2
            by_cases hxy : x = cur ∧ y = nb
            · obtain ⟨rfl, rfl⟩ := hxy
              exact ⟨s, hsrc s hs, hreach_nb⟩
            · exact ⟨σ1, h1, Reach.tail h2 ((mem_row_remove a cur nb x y).mpr ⟨he, hxy⟩)⟩
        obtain ⟨σ1, h1, h2⟩ := this
        exact r3 σ1 v h1 h2
      · intro x y hy hny
        by_cases hxy : x = cur ∧ y = nb
        · exact ⟨hxy.1, by rw [hxy.2]; exact List.mem_cons_self⟩
        · have := r4 x y ((mem_row_remove a cur nb x y).mpr ⟨hy, hxy⟩) hny
          exact ⟨this.1, List.mem_cons_of_mem _ this.2⟩
    · simp only [hin, Bool.false_eq_true, ↓reduceIte]
      have hnotin : nb ∉ cur :: t := by simpa using hin
      have hst' : ∀ q ∈ (nb :: cur :: t) :: stack, EntryD src a q ∧ q.tail <:+ cur :: t := by
        intro q hq
        rcases List.mem_cons.mp hq with rfl | hq
        · refine ⟨⟨by simp, List.nodup_cons.mpr ⟨hnotin, hnd⟩, hch, ?_⟩, List.suffix_refl _⟩
          intro s hs
          rw [getLast?_cons_of_ne_nil (by simp)] at hs
          exact hsrc s hs
        · exact hst q hq
      obtain ⟨r1, r2, r3, r4, r5, pushed, r6, r7⟩ := ih a _ hch hst'
      refine ⟨r1, r2, r3, ?_, r5, pushed ++ [nb :: cur :: t], by rw [r6]; simp, ?_⟩
      · intro x y hy hny
        have := r4 x y hy hny
        exact ⟨this.1, List.mem_cons_of_mem _ this.2⟩
      · intro q hq
        rcases List.mem_append.mp hq with h | h
        · exact r7 q h
        · simp only [List.mem_singleton] at h; subst h; rfl

end SkNet.Cycles

namespace SkNet.Cycles
open SkNet SkNet.Connectivity

/-- the nodes on the stack stay inside the component -/
theorem breakNeighborsDir_nodes (inS : Nat → Prop) (cur : Nat) (rp : List Nat) (nbs : List Nat) (a : Rows)
    (stack : List (List Nat)) (hrp : ∀ v ∈ rp, inS v) (hnbs : ∀ nb ∈ nbs, inS nb)
    (hst : ∀ q ∈ stack, ∀ v ∈ q, inS v) :
    ∀ q ∈ (breakNeighborsDir cur rp nbs (a, stack)).2, ∀ v ∈ q, inS v := by
  induction nbs generalizing a stack with
  | nil => exact hst
  | cons nb rest ih =>
    unfold breakNeighborsDir
    split
    · exact ih _ _ (fun x hx => hnbs x (List.mem_cons_of_mem _ hx)) hst
    · apply ih _ _ (fun x hx => hnbs x (List.mem_cons_of_mem _ hx))
      intro q hq v hv
      rcases List.mem_cons.mp hq with rfl | hq
      · rcases List.mem_cons.mp hv with rfl | hv
        · exact hnbs _ List.mem_cons_self
        · exact hrp v hv
      · exact hst q hq v hv

/-- the stack of the directed traversal -/
def StackD (src : Nat → Prop) (inS : Nat → Prop) (a : Rows) (stack : List (List Nat)) : Prop :=
  (∀ q ∈ stack, EntryD src a q) ∧ stack.Pairwise (fun q1 q2 => q2.tail <:+ q1.tail) ∧
  ∀ q ∈ stack, ∀ v ∈ q, inS v

/-- ★ `while stack:` of the directed branch: only edges between nodes of the component are removed, and every node
    that a sub-root reaches is still reached by a sub-root. -/
theorem breakLoopDir_inv {src inS : Nat → Prop} (setOrder : List Nat → List Nat) (cycleNodes : List Nat)
    (hset : ∀ l x, x ∈ setOrder l → x ∈ l) (hS : ∀ x, x ∈ cycleNodes → inS x)
    (fuel : Nat) (a : Rows) (stack : List (List Nat)) (aEnd : Rows)
    (hs : StackD src inS a stack) (h : breakLoopDir setOrder cycleNodes fuel a stack = some aEnd) :
    aEnd.Sub a ∧
    (∀ σ v, src σ → Reach a.row σ v → ∃ σ', src σ' ∧ Reach aEnd.row σ' v) ∧
    (∀ x y, y ∈ a.row x → y ∉ aEnd.row x → inS x ∧ inS y) := by
  induction fuel generalizing a stack with
  | zero => simp [breakLoopDir] at h
  | succ fuel ih =>
    unfold breakLoopDir at h
    match stack, hs with
    | [], _ =>
      simp only at h; cases h
      exact ⟨Rows.Sub.refl _, fun σ v hσ hr => ⟨σ, hσ, hr⟩, fun x y h1 h2 => absurd h1 h2⟩
    | rp :: rest, hs =>
      simp only at h
      obtain ⟨hent, hpw, hnodes⟩ := hs
      have hrest : StackD src inS a rest :=
        ⟨fun q hq => hent q (List.mem_cons_of_mem _ hq), (List.pairwise_cons.mp hpw).2,
          fun q hq => hnodes q (List.mem_cons_of_mem _ hq)⟩
      by_cases hgone : edgeGone a rp = true
      · simp only [hgone, ↓reduceIte] at h
        exact ih a rest hrest h
      · simp only [hgone, Bool.false_eq_true, ↓reduceIte] at h
        obtain ⟨hne, hnd, htail, hsrc⟩ := hent rp List.mem_cons_self
        obtain ⟨cur, t, rfl⟩ := List.exists_cons_of_ne_nil hne
        have hch : rchain a (cur :: t) = true := rchain_of_edge_present htail (by simpa using hgone)
        have hst : ∀ q ∈ rest, EntryD src a q ∧ q.tail <:+ cur :: t := by
          intro q hq
          refine ⟨hent q (List.mem_cons_of_mem _ hq), ?_⟩
          exact ((List.pairwise_cons.mp hpw).1 q hq).trans (List.suffix_cons cur t)
        simp only [List.headD_cons] at h
        have hnbsS : ∀ nb ∈ setOrder ((a.row cur).filter cycleNodes.contains), inS nb := by
          intro nb hnb
          have := hset _ _ hnb
          exact hS nb (by simpa using (List.mem_filter.mp this).2)
        obtain ⟨_, r2, r3, r4, r5, pushed, r6, r7⟩ :=
          breakNeighborsDir_inv (src := src) (setOrder ((a.row cur).filter cycleNodes.contains)) a rest hnd hch hsrc hst
        have hnodes' := breakNeighborsDir_nodes inS cur (cur :: t)
          (setOrder ((a.row cur).filter cycleNodes.contains)) a rest
          (hnodes _ List.mem_cons_self) hnbsS (fun q hq => hnodes q (List.mem_cons_of_mem _ hq))
        have hs' : StackD src inS
            (breakNeighborsDir cur (cur :: t) (setOrder ((a.row cur).filter cycleNodes.contains)) (a, rest)).1
            (breakNeighborsDir cur (cur :: t) (setOrder ((a.row cur).filter cycleNodes.contains)) (a, rest)).2 := by
          refine ⟨fun q hq => (r5 q hq).1, ?_, hnodes'⟩
          rw [r6, List.pairwise_append]
          refine ⟨?_, (List.pairwise_cons.mp hpw).2, ?_⟩
          · apply List.pairwise_of_forall_mem_list
            intro q1 h1 q2 h2
            rw [r7 q1 h1, r7 q2 h2]
            exact List.suffix_refl _
          · intro q1 h1 q2 h2
            rw [r7 q1 h1]
            exact ((List.pairwise_cons.mp hpw).1 q2 h2).trans (List.suffix_cons cur t)
        obtain ⟨e1, e2, e3⟩ := ih _ _ hs' h
        refine ⟨e1.trans r2, ?_, ?_⟩
        · intro σ v hσ hr
          obtain ⟨σ1, h1, h2⟩ := r3 σ v hσ hr
          exact e2 σ1 v h1 h2
        · intro x y hy hny
          by_cases hmid : y ∈ (breakNeighborsDir cur (cur :: t)
              (setOrder ((a.row cur).filter cycleNodes.contains)) (a, rest)).1.row x
          · exact e3 x y hmid hny
          · obtain ⟨hx, hynb⟩ := r4 x y hy hmid
            exact ⟨hx ▸ hnodes _ List.mem_cons_self cur List.mem_cons_self, hnbsS y hynb⟩

end SkNet.Cycles

namespace SkNet.Cycles
open SkNet SkNet.Connectivity

/-- the neighbours inside the component -/
def adjS (g : Rows) (S : List Nat) : Nat → List Nat := fun u => (g.row u).filter S.contains

theorem mem_adjS {g : Rows} {S : List Nat} {u v : Nat} : v ∈ adjS g S u ↔ v ∈ g.row u ∧ v ∈ S := by
  simp [adjS, List.mem_filter]

/-- what one pop of the directed traversal does -/
theorem breakNeighborsDir_effect (cur : Nat) (rp : List Nat) (nbs : List Nat) (a : Rows) (stack : List (List Nat)) :
    (breakNeighborsDir cur rp nbs (a, stack)).1.Sub a ∧
    (∀ q ∈ stack, q ∈ (breakNeighborsDir cur rp nbs (a, stack)).2) ∧
    (∀ nb ∈ nbs, nb ∉ rp → (nb :: rp) ∈ (breakNeighborsDir cur rp nbs (a, stack)).2) ∧
    (∀ nb ∈ nbs, nb ∈ rp → nb ∉ (breakNeighborsDir cur rp nbs (a, stack)).1.row cur) ∧
    (∀ q ∈ (breakNeighborsDir cur rp nbs (a, stack)).2, q ∈ stack ∨ q ≠ []) := by
  induction nbs generalizing a stack with
  | nil =>
    simp only [breakNeighborsDir]
    exact ⟨Rows.Sub.refl _, fun q hq => hq, by simp, by simp, fun q hq => Or.inl hq⟩
  | cons nb rest ih =>
    unfold breakNeighborsDir
    by_cases hin : rp.contains nb = true
    · simp only [hin, ↓reduceIte]
      obtain ⟨h1, h2, h3, h4, h5⟩ := ih (a.remove cur nb) stack
      refine ⟨h1.trans (Rows.remove_sub a cur nb), h2, ?_, ?_, h5⟩
      · intro x hx hxn
        rcases List.mem_cons.mp hx with rfl | hx
        · exact absurd (by simpa using hin) hxn
        · exact h3 x hx hxn
      · intro x hx hxin
        rcases List.mem_cons.mp hx with rfl | hx
        · intro hmem
          exact Rows.not_mem_remove a cur x (h1.2 cur x hmem)
        · exact h4 x hx hxin
    · simp only [hin, Bool.false_eq_true, ↓reduceIte]
      obtain ⟨h1, h2, h3, h4, h5⟩ := ih a ((nb :: rp) :: stack)
      refine ⟨h1, fun q hq => h2 q (List.mem_cons_of_mem _ hq), ?_, ?_, ?_⟩
      · intro x hx hxn
        rcases List.mem_cons.mp hx with rfl | hx
        · exact h2 _ List.mem_cons_self
        · exact h3 x hx hxn
      · intro x hx hxin
        rcases List.mem_cons.mp hx with rfl | hx
        · exact absurd hxin (by simpa using hin)
        · exact h4 x hx hxin
      · intro q hq
        rcases h5 q hq with h | h
        · rcases List.mem_cons.mp h with rfl | h
          · right; simp
          · left; exact h
        · right; exact h

/-- ★ exploration (directed): when the loop ends, no simple path inside the component that extends a stacked path
    (whose last edge is still there) has an edge back onto itself. -/
theorem breakLoopDir_explores (setOrder : List Nat → List Nat) (cycleNodes : List Nat)
    (hset : ∀ l x, x ∈ l → x ∈ setOrder l)
    (fuel : Nat) (a : Rows) (stack : List (List Nat)) (aEnd : Rows)
    (hne : ∀ q ∈ stack, q ≠ []) (h : breakLoopDir setOrder cycleNodes fuel a stack = some aEnd) :
    aEnd.Sub a ∧ ∀ rp ∈ stack, edgeGone aEnd rp = false → ∀ rp', Extends (adjS aEnd cycleNodes) rp rp' →
      ∀ nb ∈ adjS aEnd cycleNodes (rp'.headD 0), nb ∉ rp' := by
  induction fuel generalizing a stack with
  | zero => simp [breakLoopDir] at h
  | succ fuel ih =>
    unfold breakLoopDir at h
    match stack, hne with
    | [], _ => simp only at h; cases h; exact ⟨Rows.Sub.refl _, fun rp hrp => by cases hrp⟩
    | rp0 :: rest, hne =>
      simp only at h
      have hner : ∀ q ∈ rest, q ≠ [] := fun q hq => hne q (List.mem_cons_of_mem _ hq)
      by_cases hgone : edgeGone a rp0 = true
      · simp only [hgone, ↓reduceIte] at h
        obtain ⟨hsub, hrest⟩ := ih a rest hner h
        refine ⟨hsub, fun rp hrp hpres => ?_⟩
        rcases List.mem_cons.mp hrp with rfl | hrp
        · rw [edgeGone_mono hsub hgone] at hpres; cases hpres
        · exact hrest rp hrp hpres
      · simp only [hgone, Bool.false_eq_true, ↓reduceIte] at h
        obtain ⟨cur, t, rfl⟩ := List.exists_cons_of_ne_nil (hne _ List.mem_cons_self)
        simp only [List.headD_cons] at h
        obtain ⟨e1, e2, e3, e4, e5⟩ := breakNeighborsDir_effect cur (cur :: t)
          (setOrder ((a.row cur).filter cycleNodes.contains)) a rest
        have hne' : ∀ q ∈ (breakNeighborsDir cur (cur :: t)
            (setOrder ((a.row cur).filter cycleNodes.contains)) (a, rest)).2, q ≠ [] := by
          intro q hq
          rcases e5 q hq with h' | h'
          · exact hner q h'
          · exact h'
        obtain ⟨hsub, hall⟩ := ih _ _ hne' h
        refine ⟨hsub.trans e1, fun rp hrp hpres rp' hext => ?_⟩
        rcases List.mem_cons.mp hrp with rfl | hrp
        · cases hext with
          | refl =>
            intro nb hnb hin
            simp only [List.headD_cons] at hnb
            obtain ⟨hnbrow, hnbS⟩ := mem_adjS.mp hnb
            have hnb_a : nb ∈ a.row cur := (hsub.trans e1).2 cur nb hnbrow
            have hnb_list : nb ∈ setOrder ((a.row cur).filter cycleNodes.contains) :=
              hset _ _ (List.mem_filter.mpr ⟨hnb_a, by simpa using hnbS⟩)
            exact e4 nb hnb_list hin (hsub.2 cur nb hnbrow)
          | step hx hxn hrest =>
            rename_i x
            simp only [List.headD_cons] at hx
            obtain ⟨hxrow, hxS⟩ := mem_adjS.mp hx
            have hx_a : x ∈ a.row cur := (hsub.trans e1).2 cur x hxrow
            have hx_list : x ∈ setOrder ((a.row cur).filter cycleNodes.contains) :=
              hset _ _ (List.mem_filter.mpr ⟨hx_a, by simpa using hxS⟩)
            have hpush := e3 x hx_list hxn
            have hpres' : edgeGone aEnd (x :: cur :: t) = false := by
              simp [edgeGone, Rows.has, hxrow]
            exact hall _ hpush hpres' rp' hrest
        · exact hall rp (e2 rp hrp) hpres rp' hext

end SkNet.Cycles
