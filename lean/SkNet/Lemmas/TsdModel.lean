/- `tree_sampling_divergence` on the model: the exact terms returned by `tsdTerms` are the two push-forwards, along
   "first common merge", of the edge distribution and of the product of the node distributions; hence (over the
   reals) the divergence is non-negative and at most the mutual information. -/
import SkNet.Lemmas.TsdLeaf
import SkNet.Lemmas.TsdReal
import SkNet.Lemmas.Reorder

set_option linter.unusedSimpArgs false
set_option linter.unusedVariables false

namespace SkNet.HMetrics
open SkNet SkNet.Dendro SkNet.Agg SkNet.Cut

variable {α : Type}

/-! ### the normalised matrix and the node weights -/

/-- `adjacency.data /= adjacency.data.sum()` -/
def normMat (n : Nat) (a0 : Mat) : Mat := tab n fun i => tab n fun j => a0.get i j / a0.total

theorem normMat_get (n : Nat) (a0 : Mat) (i j : Nat) :
    (normMat n a0).get i j = if i < n ∧ j < n then a0.get i j / a0.total else 0 := by
  unfold normMat
  show ((tab n fun i => tab n fun j => a0.get i j / a0.total).getD i []).getD j 0 = _
  simp only [tab_getD]
  by_cases hi : i < n
  · simp only [hi, if_true, tab_getD, true_and]
  · simp [hi]

theorem normMat_square (n : Nat) (a0 : Mat) : Square n (normMat n a0) := by
  refine ⟨by simp [normMat], ?_⟩
  intro r hr
  simp only [normMat, tab, List.mem_map, List.mem_range] at hr
  obtain ⟨i, _, rfl⟩ := hr
  simp

theorem normMat_nonneg {n : Nat} {a0 : Mat} (hnn : ∀ i j, 0 ≤ a0.get i j) (htot : 0 < a0.total) (i j : Nat) :
    0 ≤ (normMat n a0).get i j := by
  rw [normMat_get]
  split
  · exact div_nonneg (hnn i j) (le_of_lt htot)
  · exact le_refl _

theorem normMat_total {n : Nat} {a0 : Mat} (hsq : Square n a0) (htot : 0 < a0.total) : (normMat n a0).total = 1 := by
  rw [total_square (normMat_square n a0)]
  have : ∀ i ∈ List.range n, S (List.range n) (fun j => (normMat n a0).get i j) =
      S (List.range n) (fun j => a0.get i j) / a0.total := by
    intro i hi
    rw [← S_div]
    apply S_congr
    intro j hj
    simp only [List.mem_range] at hi hj
    rw [normMat_get, if_pos ⟨hi, hj⟩]
  rw [S_congr this, S_div, ← total_square hsq]
  exact div_self (ne_of_gt htot)

theorem get_oob {n : Nat} {a : Mat} (hsq : Square n a) {i j : Nat} (h : ¬ (i < n ∧ j < n)) : a.get i j = 0 := by
  unfold Mat.get
  by_cases hi : i < n
  · have hj : ¬ j < n := fun hj => h ⟨hi, hj⟩
    have hi' : i < a.length := by rw [hsq.1]; exact hi
    have hr : (a.getD i []).length = n := by
      rw [List.getD_eq_getElem?_getD, List.getElem?_eq_getElem hi']
      exact hsq.2 _ (List.getElem_mem hi')
    rw [List.getD_eq_getElem?_getD, List.getElem?_eq_none (by omega)]
    rfl
  · have : a.getD i [] = [] := by
      rw [List.getD_eq_getElem?_getD, List.getElem?_eq_none (by rw [hsq.1]; omega)]
      rfl
    rw [this]; rfl

theorem symm_total {n : Nat} {a : Mat} (hsq : Square n a) : (symmetrize n a).total = 2 * a.total := by
  rw [total_square (symmetrize_square n a), total_square hsq]
  have h1 : ∀ i ∈ List.range n, S (List.range n) (fun j => (symmetrize n a).get i j) =
      S (List.range n) (fun j => a.get i j) + S (List.range n) (fun j => a.get j i) := by
    intro i hi
    rw [← S_add]
    apply S_congr
    intro j hj
    simp only [List.mem_range] at hi hj
    rw [symmetrize_get, if_pos ⟨hi, hj⟩]
  rw [S_congr h1, S_add, S_comm (List.range n) (List.range n) (fun i j => a.get j i)]
  ring

/-- the kernel of the aggregate graph, for a matrix of total weight 1 -/
theorem sym_kernel {n : Nat} {a : Mat} (hsq : Square n a) (htot : a.total = 1) :
    (fun u v => (symmetrize n a).get u v / (symmetrize n a).total) = fun u v => (a.get u v + a.get v u) / 2 := by
  funext u v
  rw [symm_total hsq, htot, symmetrize_get]
  by_cases h : u < n ∧ v < n
  · rw [if_pos h]; norm_num
  · rw [if_neg h, get_oob hsq h, get_oob hsq (fun hh => h ⟨hh.2, hh.1⟩)]; norm_num

theorem S_ge_term {l : List Nat} {f : Nat → ℚ} (h : ∀ x ∈ l, 0 ≤ f x) {y : Nat} (hy : y ∈ l) : f y ≤ S l f := by
  induction l with
  | nil => cases hy
  | cons a as ih =>
    rw [S_cons]
    rcases List.mem_cons.mp hy with e | e
    · rw [e]
      have := S_nonneg (l := as) (f := f) (fun x hx => h x (List.mem_cons_of_mem _ hx))
      linarith
    · have := ih (fun x hx => h x (List.mem_cons_of_mem _ hx)) e
      have := h a List.mem_cons_self
      linarith

section weights
variable {n : Nat} {a : Mat} (degree : Bool) (hn : 0 < n) (hsq : Square n a) (hnn : ∀ i j, 0 ≤ a.get i j)
  (htot : a.total = 1)

include hn hnn htot in
theorem wr_nonneg {x : Nat} (hx : x < n) : 0 ≤ (probsRow degree n a).getD x 0 := by
  rw [probsRow_getD _ _ _ _ hx, htot]
  split
  · rw [div_one]; exact S_nonneg (fun j _ => hnn x j)
  · positivity

include hn hnn htot in
theorem wc_nonneg {x : Nat} (hx : x < n) : 0 ≤ (probsCol degree n a).getD x 0 := by
  rw [probsCol_getD _ _ _ _ hx, htot]
  split
  · rw [div_one]; exact S_nonneg (fun j _ => hnn j x)
  · positivity

include hn hsq htot in
theorem wr_sum : S (List.range n) (fun x => (probsRow degree n a).getD x 0) = 1 := by
  by_cases hd : degree = true
  · have : ∀ x ∈ List.range n, (probsRow degree n a).getD x 0 = S (List.range n) (fun j => a.get x j) := by
      intro x hx
      rw [probsRow_getD _ _ _ _ (List.mem_range.mp hx), htot, if_pos hd, div_one]
    rw [S_congr this, ← total_square hsq, htot]
  · have : ∀ x ∈ List.range n, (probsRow degree n a).getD x 0 = 1 / (n : ℚ) := by
      intro x hx
      rw [probsRow_getD _ _ _ _ (List.mem_range.mp hx), if_neg hd]
    rw [S_congr this, S_const]
    have : (n : ℚ) ≠ 0 := by exact_mod_cast (Nat.ne_of_gt hn)
    field_simp

include hn hsq htot in
theorem wc_sum : S (List.range n) (fun x => (probsCol degree n a).getD x 0) = 1 := by
  by_cases hd : degree = true
  · have : ∀ x ∈ List.range n, (probsCol degree n a).getD x 0 = S (List.range n) (fun i => a.get i x) := by
      intro x hx
      rw [probsCol_getD _ _ _ _ (List.mem_range.mp hx), htot, if_pos hd, div_one]
    rw [S_congr this, S_comm, ← total_square hsq, htot]
  · have : ∀ x ∈ List.range n, (probsCol degree n a).getD x 0 = 1 / (n : ℚ) := by
      intro x hx
      rw [probsCol_getD _ _ _ _ (List.mem_range.mp hx), if_neg hd]
    rw [S_congr this, S_const]
    have : (n : ℚ) ≠ 0 := by exact_mod_cast (Nat.ne_of_gt hn)
    field_simp

include hn hnn htot in
/-- an edge of positive weight joins nodes of positive weight -/
theorem weights_pos_of_edge {u v : Nat} (hu : u < n) (hv : v < n) (hpos : 0 < a.get u v) :
    0 < (probsRow degree n a).getD u 0 ∧ 0 < (probsCol degree n a).getD v 0 := by
  rw [probsRow_getD _ _ _ _ hu, probsCol_getD _ _ _ _ hv, htot]
  by_cases hd : degree = true
  · simp only [hd, if_true, div_one]
    constructor
    · exact lt_of_lt_of_le hpos (S_ge_term (f := fun j => a.get u j) (fun j _ => hnn u j) (List.mem_range.mpr hv))
    · exact lt_of_lt_of_le hpos (S_ge_term (f := fun i => a.get i v) (fun i _ => hnn i v) (List.mem_range.mpr hu))
  · simp only [hd, if_false]
    have : (0 : ℚ) < n := by exact_mod_cast hn
    exact ⟨one_div_pos.mpr this, one_div_pos.mpr this⟩

end weights


/-! ### the two sampling lists of the model -/

theorem pairAt_eq' {n : Nat} (P : Nat → Nat → ℚ) {D : Dendro α} (hv : ValidDendro n D = true) {t : Nat}
    (ht : t < D.length) :
    pairAt n P D t = S (List.range n) (fun u => S (List.range n) (fun v =>
      if lcaRow n D u v = some t then P u v else 0)) := by
  obtain ⟨hD, hl⟩ := split_at (List.getElem?_eq_getElem ht)
  have hv' : ValidDendro n (D.take t ++ D[t] :: D.drop (t + 1)) = true := by rw [← hD]; exact hv
  have e := pairAt_eq P hv'
  rw [← hD, hl] at e
  exact e

/-- `edge_sampling` and `node_sampling` of the model, for a matrix of total weight 1: the masses of the pairs of
    nodes whose first common merge is row `t`, under the edge weights and under the product of the node weights -/
theorem tsd_lists (degree : Bool) {n : Nat} {a : Mat} {D : Dendro α} (hn : 2 ≤ n) (hsq : Square n a)
    (hnn : ∀ i j, 0 ≤ a.get i j) (htot : a.total = 1) (hv : ValidDendro n D = true) :
    (getSamplingDistributions degree n a D).edge = (List.range D.length).map (fun t =>
      S (List.range n) (fun u => S (List.range n) (fun v =>
        if lcaRow n D u v = some t then a.get u v else 0))) ∧
    (getSamplingDistributions degree n a D).node = (List.range D.length).map (fun t =>
      S (List.range n) (fun u => S (List.range n) (fun v =>
        if lcaRow n D u v = some t then
          (probsRow degree n a).getD u 0 * (probsCol degree n a).getD v 0 else 0))) := by
  have hlen := valid_length hv
  have hvl : validLoop n 0 D (sizesOf (initCluster n)) = true := by
    rw [sizesOf_initCluster]
    unfold ValidDendro ValidDendroW at hv
    simp only [Bool.and_eq_true, List.length_replicate] at hv
    exact hv.2
  have hJ0 := jinv_init degree (by omega : 0 < n) hsq hnn (by rw [htot]; norm_num)
  have hP : ∀ u v, (fun u v => (symmetrize n a).get u v / (symmetrize n a).total) u v =
      (fun u v => (symmetrize n a).get u v / (symmetrize n a).total) v u := by
    intro u v; simp only; rw [symmetrize_symm]
  obtain ⟨he, _⟩ := samplingLoop_leaf (P := fun u v => (symmetrize n a).get u v / (symmetrize n a).total)
    (wr := fun x => (probsRow degree n a).getD x 0) (wc := fun x => (probsCol degree n a).getD x 0)
    D D [] (instantiate degree n a) (initCluster n) { edge := [], node := [], weight := [] }
    (by simp) hJ0 (leafInv_init degree n a) hvl rfl rfl
  have hnd := samplingLoop_node (P := fun u v => (symmetrize n a).get u v / (symmetrize n a).total)
    (wr := fun x => (probsRow degree n a).getD x 0) (wc := fun x => (probsCol degree n a).getD x 0)
    D D [] (instantiate degree n a) (initCluster n) { edge := [], node := [], weight := [] }
    (by simp) hJ0 (leafInv_init degree n a) hvl rfl
  have htake : D.take (n - 1) = D := List.take_of_length_le (by omega)
  unfold getSamplingDistributions
  rw [htake, he, hnd]
  constructor
  · apply List.map_congr_left
    intro t ht
    simp only [List.mem_range] at ht
    rw [edgeAt_eq_pairAt hP, sym_kernel hsq htot, pairAt_symmetrized n (fun u v => a.get u v), pairAt_eq' _ hv ht]
  · apply List.map_congr_left
    intro t ht
    simp only [List.mem_range] at ht
    rw [nodeAt_eq_pairAt, pairAt_eq' _ hv ht]


/-! ### from the lists of the model to sums over the reals -/

open SkNet.Tsd in
/-- `Σ p · log (p / q)` over a list of exact pairs, in the reals (what the driver evaluates in `Float`) -/
noncomputable def klSum (L : List (ℚ × ℚ)) : ℝ :=
  (L.map fun x => ((x.1 : ℚ) : ℝ) * Real.log (((x.1 : ℚ) : ℝ) / ((x.2 : ℚ) : ℝ))).sum

theorem klSum_nil : klSum [] = 0 := rfl

theorem klSum_cons (x : ℚ × ℚ) (L : List (ℚ × ℚ)) :
    klSum (x :: L) = ((x.1 : ℚ) : ℝ) * Real.log (((x.1 : ℚ) : ℝ) / ((x.2 : ℚ) : ℝ)) + klSum L := by
  simp [klSum]

theorem klSum_append (L M : List (ℚ × ℚ)) : klSum (L ++ M) = klSum L + klSum M := by
  simp [klSum]

theorem klTerm_zero (b : ℝ) : SkNet.Tsd.klTerm 0 b = 0 := by unfold SkNet.Tsd.klTerm; simp

theorem klTerm_ne {a : ℝ} (h : a ≠ 0) (b : ℝ) : SkNet.Tsd.klTerm a b = a * Real.log (a / b) := by
  unfold SkNet.Tsd.klTerm; rw [if_neg h]

theorem klSum_score (l : List Nat) (e nd : Nat → ℚ) :
    klSum (((l.map e).zip (l.map nd)).filter (fun p => p.1 != 0)) =
      (l.map (fun t => SkNet.Tsd.klTerm ((e t : ℚ) : ℝ) ((nd t : ℚ) : ℝ))).sum := by
  induction l with
  | nil => rfl
  | cons a as ih =>
    simp only [List.map_cons, List.zip_cons_cons, List.sum_cons, List.filter_cons]
    by_cases h : e a = 0
    · have : ((e a : ℚ) : ℝ) = 0 := by rw [h]; simp
      rw [this, klTerm_zero, zero_add]
      simp only [h, bne_self_eq_false, Bool.false_eq_true, if_false]
      exact ih
    · have hr : ((e a : ℚ) : ℝ) ≠ 0 := by
        intro hh; exact h (by exact_mod_cast hh)
      have hb : (e a != 0) = true := by simpa using h
      simp only [hb, if_true, klSum_cons]
      rw [ih, klTerm_ne hr]

theorem klSum_mi_row (m : List Nat) (A Q : Nat → ℚ) (c : Nat → Bool) (hc : ∀ v ∈ m, c v = true ↔ A v ≠ 0) :
    klSum ((m.filter c).map fun v => (A v, Q v)) =
      (m.map (fun v => SkNet.Tsd.klTerm ((A v : ℚ) : ℝ) ((Q v : ℚ) : ℝ))).sum := by
  induction m with
  | nil => rfl
  | cons a as ih =>
    have ih' := ih (fun v hv => hc v (List.mem_cons_of_mem _ hv))
    have hca := hc a List.mem_cons_self
    simp only [List.filter_cons, List.map_cons, List.sum_cons]
    by_cases h : A a = 0
    · have : ((A a : ℚ) : ℝ) = 0 := by rw [h]; simp
      have hcf : c a = false := by
        cases hh : c a with
        | false => rfl
        | true => exact absurd h (hca.mp hh)
      rw [this, klTerm_zero, zero_add]
      simp only [hcf, Bool.false_eq_true, if_false]
      exact ih'
    · have hr : ((A a : ℚ) : ℝ) ≠ 0 := by
        intro hh; exact h (by exact_mod_cast hh)
      have hct : c a = true := hca.mpr h
      simp only [hct, if_true, List.map_cons, klSum_cons]
      rw [ih', klTerm_ne hr]

theorem klSum_flatMap (l : List Nat) (F : Nat → List (ℚ × ℚ)) :
    klSum (l.flatMap F) = (l.map fun u => klSum (F u)).sum := by
  induction l with
  | nil => rfl
  | cons a as ih => simp only [List.flatMap_cons, klSum_append, ih, List.map_cons, List.sum_cons]

theorem list_sum_range (n : Nat) (f : Nat → ℝ) : ((List.range n).map f).sum = ∑ i ∈ Finset.range n, f i := by
  induction n with
  | zero => simp
  | succ n ih => rw [List.range_succ, List.map_append, List.sum_append, ih, Finset.sum_range_succ]; simp

theorem cast_S (n : Nat) (g : Nat → ℚ) : ((S (List.range n) g : ℚ) : ℝ) = ∑ i ∈ Finset.range n, ((g i : ℚ) : ℝ) := by
  induction n with
  | zero => simp [S]
  | succ n ih =>
    rw [List.range_succ, S_append, S_cons, S_nil, Finset.sum_range_succ]
    push_cast
    rw [ih]; ring

theorem cast_SS (n : Nat) (F : Nat → Nat → ℚ) :
    ((S (List.range n) (fun u => S (List.range n) (fun v => F u v)) : ℚ) : ℝ) =
      ∑ i ∈ Finset.range n ×ˢ Finset.range n, ((F i.1 i.2 : ℚ) : ℝ) := by
  rw [cast_S, Finset.sum_product]
  apply Finset.sum_congr rfl
  intro u _
  exact cast_S n (fun v => F u v)


/-! ### the bounds -/

/-- **the tree sampling divergence is non-negative and at most the mutual information** (exact terms of the
    model, logarithms in the reals) -/
theorem tsd_bounds (degree : Bool) {n : Nat} {a0 : Mat} {D : Dendro α} (hn : 2 ≤ n) (hsq0 : Square n a0)
    (hnn0 : ∀ i j, 0 ≤ a0.get i j) (htot0 : 0 < a0.total) (hv : ValidDendro n D = true) :
    ∃ T, tsdTerms degree n a0 D = .ok T ∧ 0 ≤ klSum T.score ∧ klSum T.score ≤ klSum T.mutualInfo := by
  have hlen := valid_length hv
  have hn0 : 0 < n := by omega
  have hsq := normMat_square n a0
  have hnn := normMat_nonneg (n := n) hnn0 htot0
  have htot := normMat_total hsq0 htot0
  obtain ⟨hedge, hnode⟩ := tsd_lists degree hn hsq hnn htot hv
  -- the function returns
  have hnz : ((List.range n).all fun i => (List.range n).all fun j => a0.get i j == 0) = false := by
    by_contra hcon
    simp only [Bool.not_eq_false] at hcon
    have hz : ∀ i ∈ List.range n, ∀ j ∈ List.range n, a0.get i j = 0 := by
      intro i hi j hj
      have h1 := List.all_eq_true.mp hcon i hi
      have h2 := List.all_eq_true.mp h1 j hj
      simpa using h2
    have : a0.total = 0 := by
      rw [total_square hsq0,
        S_congr (g := fun _ => 0) (fun i hi => by
          rw [S_congr (g := fun _ => 0) (fun j hj => hz i hi j hj), S_zero]), S_zero]
    linarith
  have e2 : ¬ n < 2 := by omega
  have e3 : ¬ D.length + 1 < n := by omega
  have hT : tsdTerms degree n a0 D = .ok
      { score := ((getSamplingDistributions degree n (normMat n a0) D).edge.zip
          (getSamplingDistributions degree n (normMat n a0) D).node).filter (fun p => p.1 != 0),
        mutualInfo := (List.range n).flatMap fun u => ((List.range n).filter fun v =>
          (normMat n a0).get u v != 0 && (probsRow degree n (normMat n a0)).getD u 0 != 0 &&
            (probsCol degree n (normMat n a0)).getD v 0 != 0).map fun v =>
              ((normMat n a0).get u v,
                (probsRow degree n (normMat n a0)).getD u 0 * (probsCol degree n (normMat n a0)).getD v 0) } := by
    unfold tsdTerms
    simp only [hnz, Bool.false_eq_true, if_false, e2, e3]
    rfl
  refine ⟨_, hT, ?_, ?_⟩ <;> simp only []
  all_goals
    -- the index set of ordered pairs, the fibre map and the two distributions
    let I : Finset (ℕ × ℕ) := Finset.range n ×ˢ Finset.range n
    let f : ℕ × ℕ → ℕ := fun i => (lcaRow n D i.1 i.2).getD 0
    let Ar : ℕ × ℕ → ℝ := fun i => (((normMat n a0).get i.1 i.2 : ℚ) : ℝ)
    let Qr : ℕ × ℕ → ℝ := fun i =>
      (((probsRow degree n (normMat n a0)).getD i.1 0 * (probsCol degree n (normMat n a0)).getD i.2 0 : ℚ) : ℝ)
    have hI : ∀ i ∈ I, i.1 < n ∧ i.2 < n := by
      intro i hi
      simpa [I] using hi
    have hf : ∀ i ∈ I, f i ∈ Finset.range D.length := by
      intro i hi
      obtain ⟨t, ht, he⟩ := lca_total hn hv (hI i hi).1 (hI i hi).2
      simp only [f, he, Option.getD_some, Finset.mem_range]
      exact ht
    have hfiff : ∀ i ∈ I, ∀ t, lcaRow n D i.1 i.2 = some t ↔ f i = t := by
      intro i hi t
      obtain ⟨t', _, he⟩ := lca_total hn hv (hI i hi).1 (hI i hi).2
      simp only [f, he, Option.getD_some, Option.some.injEq]
    have hA : ∀ i ∈ I, 0 ≤ Ar i := fun i _ => by
      simp only [Ar]; exact_mod_cast hnn i.1 i.2
    have hQ : ∀ i ∈ I, 0 ≤ Qr i := fun i hi => by
      simp only [Qr]
      have h1 := wr_nonneg degree hn0 hnn htot (hI i hi).1
      have h2 := wc_nonneg degree hn0 hnn htot (hI i hi).2
      exact_mod_cast mul_nonneg h1 h2
    have hAQ : ∀ i ∈ I, 0 < Ar i → 0 < Qr i := fun i hi hpos => by
      simp only [Ar, Qr] at hpos ⊢
      have hpos' : 0 < (normMat n a0).get i.1 i.2 := by exact_mod_cast hpos
      obtain ⟨h1, h2⟩ := weights_pos_of_edge degree hn0 hnn htot (hI i hi).1 (hI i hi).2 hpos'
      exact_mod_cast mul_pos h1 h2
    -- the two lists of the score, as sums over the fibres
    have hcastP : ∀ t, ((S (List.range n) (fun u => S (List.range n) (fun v =>
        if lcaRow n D u v = some t then (normMat n a0).get u v else 0)) : ℚ) : ℝ) =
        ∑ i ∈ I.filter (fun i => f i = t), Ar i := by
      intro t
      rw [cast_SS, Finset.sum_filter]
      apply Finset.sum_congr rfl
      intro i hi
      by_cases h : lcaRow n D i.1 i.2 = some t
      · have := (hfiff i hi t).mp h
        simp [h, this, Ar]
      · have : ¬ f i = t := fun e => h ((hfiff i hi t).mpr e)
        simp [h, this]
    have hcastQ : ∀ t, ((S (List.range n) (fun u => S (List.range n) (fun v =>
        if lcaRow n D u v = some t then
          (probsRow degree n (normMat n a0)).getD u 0 * (probsCol degree n (normMat n a0)).getD v 0 else 0)) : ℚ) : ℝ) =
        ∑ i ∈ I.filter (fun i => f i = t), Qr i := by
      intro t
      rw [cast_SS, Finset.sum_filter]
      apply Finset.sum_congr rfl
      intro i hi
      by_cases h : lcaRow n D i.1 i.2 = some t
      · have := (hfiff i hi t).mp h
        simp [h, this, Qr]
      · have : ¬ f i = t := fun e => h ((hfiff i hi t).mpr e)
        simp [h, this]
    have hscore : klSum (((getSamplingDistributions degree n (normMat n a0) D).edge.zip
        (getSamplingDistributions degree n (normMat n a0) D).node).filter (fun p => p.1 != 0)) =
        ∑ t ∈ Finset.range D.length, SkNet.Tsd.klTerm (∑ i ∈ I.filter (fun i => f i = t), Ar i)
          (∑ i ∈ I.filter (fun i => f i = t), Qr i) := by
      rw [hedge, hnode, klSum_score, list_sum_range]
      apply Finset.sum_congr rfl
      intro t _
      rw [hcastP, hcastQ]
    rw [hscore]
  · -- non-negativity
    have hsumA : ∑ i ∈ I, Ar i = 1 := by
      have := cast_SS n (fun u v => (normMat n a0).get u v)
      rw [← total_square hsq, htot] at this
      simp only [Ar, I]
      rw [← this]; simp
    have hsumQ : ∑ i ∈ I, Qr i = 1 := by
      have := cast_SS n (fun u v =>
        (probsRow degree n (normMat n a0)).getD u 0 * (probsCol degree n (normMat n a0)).getD v 0)
      have hB := B_prod (fun u => (probsRow degree n (normMat n a0)).getD u 0)
        (fun v => (probsCol degree n (normMat n a0)).getD v 0) (List.range n) (List.range n)
      unfold B at hB
      rw [hB, wr_sum degree hn0 hsq htot, wc_sum degree hn0 hsq htot] at this
      simp only [Qr, I]
      rw [← this]; simp
    apply SkNet.Tsd.kl_nonneg
    · intro t _; exact Finset.sum_nonneg (fun i hi => hA i (Finset.mem_filter.mp hi).1)
    · intro t _; exact Finset.sum_nonneg (fun i hi => hQ i (Finset.mem_filter.mp hi).1)
    · intro t _ hpos
      obtain ⟨i0, hi0, hAi0⟩ : ∃ i ∈ I.filter (fun i => f i = t), 0 < Ar i := by
        by_contra hcon
        have : ∑ i ∈ I.filter (fun i => f i = t), Ar i ≤ 0 := by
          apply Finset.sum_nonpos
          intro i hi
          exact not_lt.mp (fun h => hcon ⟨i, hi, h⟩)
        linarith
      have hq0 := hAQ i0 (Finset.mem_filter.mp hi0).1 hAi0
      exact lt_of_lt_of_le hq0
        (Finset.single_le_sum (f := Qr) (fun i hi => hQ i (Finset.mem_filter.mp hi).1) hi0)
    · rw [Finset.sum_fiberwise_of_maps_to hf]; exact hsumA
    · rw [Finset.sum_fiberwise_of_maps_to hf]; exact hsumQ
  · -- at most the mutual information
    have hmi : klSum ((List.range n).flatMap fun u => ((List.range n).filter fun v =>
          (normMat n a0).get u v != 0 && (probsRow degree n (normMat n a0)).getD u 0 != 0 &&
            (probsCol degree n (normMat n a0)).getD v 0 != 0).map fun v =>
              ((normMat n a0).get u v,
                (probsRow degree n (normMat n a0)).getD u 0 * (probsCol degree n (normMat n a0)).getD v 0)) =
        ∑ i ∈ I, SkNet.Tsd.klTerm (Ar i) (Qr i) := by
      rw [klSum_flatMap]
      have hrow : ∀ u ∈ List.range n,
          klSum (((List.range n).filter fun v =>
            (normMat n a0).get u v != 0 && (probsRow degree n (normMat n a0)).getD u 0 != 0 &&
              (probsCol degree n (normMat n a0)).getD v 0 != 0).map fun v =>
                ((normMat n a0).get u v,
                  (probsRow degree n (normMat n a0)).getD u 0 * (probsCol degree n (normMat n a0)).getD v 0)) =
          ∑ v ∈ Finset.range n, SkNet.Tsd.klTerm (Ar (u, v)) (Qr (u, v)) := by
        intro u hu
        simp only [List.mem_range] at hu
        rw [klSum_mi_row (List.range n) (fun v => (normMat n a0).get u v)
          (fun v => (probsRow degree n (normMat n a0)).getD u 0 * (probsCol degree n (normMat n a0)).getD v 0)]
        · exact list_sum_range n _
        · intro v hv'
          simp only [List.mem_range] at hv'
          constructor
          · intro hc
            simp only [Bool.and_eq_true, bne_iff_ne, ne_eq] at hc
            exact hc.1.1
          · intro hne
            have hpos : 0 < (normMat n a0).get u v := lt_of_le_of_ne (hnn u v) (Ne.symm hne)
            obtain ⟨h1, h2⟩ := weights_pos_of_edge degree hn0 hnn htot hu hv' hpos
            simp only [Bool.and_eq_true, bne_iff_ne, ne_eq]
            exact ⟨⟨hne, ne_of_gt h1⟩, ne_of_gt h2⟩
      rw [List.map_congr_left hrow, list_sum_range, Finset.sum_product]
    rw [hmi]
    exact SkNet.Tsd.kl_fiber I (Finset.range D.length) f hf Ar Qr hA hQ hAQ


/-- the value of `tree_sampling_divergence` on the exact terms, with real logarithms (the driver's `tsdValue`
    evaluates the same expression in `Float`): when `normalized` and the mutual information exceeds the threshold
    `τ` of the code (`1e-10`; the pinned code had `0`), `score / mutual_information` clipped to `[0, 1]` -/
noncomputable def tsdReal (T : TsdTerms) (normalized : Bool) (τ : ℝ := 0) : ℝ :=
  if normalized then
    (if τ < klSum T.mutualInfo then min (max (klSum T.score / klSum T.mutualInfo) 0) 1 else klSum T.score)
  else klSum T.score

theorem tsdReal_range {T : TsdTerms} (h0 : 0 ≤ klSum T.score) (h1 : klSum T.score ≤ klSum T.mutualInfo)
    {τ : ℝ} (hτ0 : 0 ≤ τ) (hτ1 : τ ≤ 1) :
    0 ≤ tsdReal T false τ ∧ 0 ≤ tsdReal T true τ ∧ tsdReal T true τ ≤ 1 ∧
      (τ < klSum T.mutualInfo → tsdReal T true τ = klSum T.score / klSum T.mutualInfo) := by
  unfold tsdReal
  simp only [Bool.false_eq_true, if_false, if_true]
  refine ⟨h0, ?_, ?_, ?_⟩
  · split
    · exact le_min (le_max_right _ _) (by norm_num)
    · exact h0
  · split
    · exact min_le_right _ _
    · rename_i hnp
      have : klSum T.mutualInfo ≤ τ := not_lt.mp hnp
      linarith
  · intro hpos
    rw [if_pos hpos]
    have hmi : 0 < klSum T.mutualInfo := lt_of_le_of_lt hτ0 hpos
    have hq0 : 0 ≤ klSum T.score / klSum T.mutualInfo := div_nonneg h0 (le_of_lt hmi)
    have hq1 : klSum T.score / klSum T.mutualInfo ≤ 1 := (div_le_one hmi).mpr h1
    rw [max_eq_left hq0, min_eq_left hq1]

end SkNet.HMetrics
