/- The two inequalities behind `tree_sampling_divergence`, over the reals: the log-sum inequality (a Kullback-Leibler
   divergence does not increase when two distributions are pushed forward along the same map) and the
   non-negativity of a Kullback-Leibler divergence. Both from `1 - 1/x ≤ log x`. -/
import Mathlib.Analysis.SpecialFunctions.Log.Basic
import Mathlib.Algebra.Order.BigOperators.Group.Finset

namespace SkNet.Tsd
open Finset

/-- `a · log (a / b)`, with the convention `0 · log (0 / b) = 0` (the terms that the code skips) -/
noncomputable def klTerm (a b : ℝ) : ℝ := if a = 0 then 0 else a * Real.log (a / b)

/-- a linear lower bound of one term, for any reference ratio `c > 0` -/
theorem klTerm_lower {a b c : ℝ} (ha : 0 ≤ a) (hb : 0 ≤ b) (hab : 0 < a → 0 < b) (hc : 0 < c) :
    a * Real.log c + a - c * b ≤ klTerm a b := by
  unfold klTerm
  by_cases h0 : a = 0
  · rw [if_pos h0, h0]
    have := mul_nonneg (le_of_lt hc) hb
    simp only [zero_mul, zero_add]
    linarith
  · rw [if_neg h0]
    have hapos : 0 < a := lt_of_le_of_ne ha (Ne.symm h0)
    have hbpos := hab hapos
    have hx : 0 < a / (b * c) := div_pos hapos (mul_pos hbpos hc)
    have hlog := Real.one_sub_inv_le_log_of_pos hx
    have e1 : Real.log (a / (b * c)) = Real.log (a / b) - Real.log c := by
      rw [← div_div, Real.log_div (ne_of_gt (div_pos hapos hbpos)) (ne_of_gt hc)]
    have e2 : (a / (b * c))⁻¹ = b * c / a := inv_div _ _
    rw [e1, e2] at hlog
    have h3 : a * (1 - b * c / a) ≤ a * (Real.log (a / b) - Real.log c) :=
      mul_le_mul_of_nonneg_left hlog ha
    have e3 : a * (1 - b * c / a) = a - c * b := by
      field_simp
    rw [e3] at h3
    linarith

variable {ι τ : Type}

/-- **log-sum inequality** -/
theorem logsum (J : Finset ι) (A Q : ι → ℝ) (hA : ∀ i ∈ J, 0 ≤ A i) (hQ : ∀ i ∈ J, 0 ≤ Q i)
    (hAQ : ∀ i ∈ J, 0 < A i → 0 < Q i) :
    klTerm (∑ i ∈ J, A i) (∑ i ∈ J, Q i) ≤ ∑ i ∈ J, klTerm (A i) (Q i) := by
  by_cases h0 : ∑ i ∈ J, A i = 0
  · have hz := (Finset.sum_eq_zero_iff_of_nonneg hA).mp h0
    have : ∑ i ∈ J, klTerm (A i) (Q i) = 0 := by
      apply Finset.sum_eq_zero
      intro i hi
      unfold klTerm
      rw [if_pos (hz i hi)]
    rw [this]
    unfold klTerm
    rw [if_pos h0]
  · have hapos : 0 < ∑ i ∈ J, A i := lt_of_le_of_ne (Finset.sum_nonneg hA) (Ne.symm h0)
    obtain ⟨i0, hi0, hAi0⟩ : ∃ i ∈ J, 0 < A i := by
      by_contra hcon
      apply h0
      apply Finset.sum_eq_zero
      intro i hi
      have : ¬ 0 < A i := fun h => hcon ⟨i, hi, h⟩
      exact le_antisymm (not_lt.mp this) (hA i hi)
    have hbpos : 0 < ∑ i ∈ J, Q i :=
      lt_of_lt_of_le (hAQ i0 hi0 hAi0) (Finset.single_le_sum hQ hi0)
    have hc : 0 < (∑ i ∈ J, A i) / (∑ i ∈ J, Q i) := div_pos hapos hbpos
    have hsum : ∑ i ∈ J, (A i * Real.log ((∑ i ∈ J, A i) / (∑ i ∈ J, Q i)) + A i -
        (∑ i ∈ J, A i) / (∑ i ∈ J, Q i) * Q i) ≤ ∑ i ∈ J, klTerm (A i) (Q i) :=
      Finset.sum_le_sum (fun i hi => klTerm_lower (hA i hi) (hQ i hi) (hAQ i hi) hc)
    have e : ∑ i ∈ J, (A i * Real.log ((∑ i ∈ J, A i) / (∑ i ∈ J, Q i)) + A i -
        (∑ i ∈ J, A i) / (∑ i ∈ J, Q i) * Q i) =
        (∑ i ∈ J, A i) * Real.log ((∑ i ∈ J, A i) / (∑ i ∈ J, Q i)) := by
      rw [Finset.sum_sub_distrib, Finset.sum_add_distrib, ← Finset.sum_mul, ← Finset.mul_sum,
        div_mul_cancel₀ _ (ne_of_gt hbpos)]
      ring
    rw [e] at hsum
    unfold klTerm at hsum ⊢
    rw [if_neg h0]
    exact hsum

/-- a Kullback-Leibler divergence between two distributions is non-negative -/
theorem kl_nonneg (T : Finset τ) (p q : τ → ℝ) (hp : ∀ t ∈ T, 0 ≤ p t) (hq : ∀ t ∈ T, 0 ≤ q t)
    (hpq : ∀ t ∈ T, 0 < p t → 0 < q t) (hp1 : ∑ t ∈ T, p t = 1) (hq1 : ∑ t ∈ T, q t = 1) :
    0 ≤ ∑ t ∈ T, klTerm (p t) (q t) := by
  have := logsum T p q hp hq hpq
  rw [hp1, hq1] at this
  unfold klTerm at this
  simp at this
  exact this

/-- **data processing**: pushing two distributions forward along `f` does not increase their divergence -/
theorem kl_fiber [DecidableEq τ] (I : Finset ι) (T : Finset τ) (f : ι → τ) (hf : ∀ i ∈ I, f i ∈ T)
    (A Q : ι → ℝ) (hA : ∀ i ∈ I, 0 ≤ A i) (hQ : ∀ i ∈ I, 0 ≤ Q i) (hAQ : ∀ i ∈ I, 0 < A i → 0 < Q i) :
    ∑ t ∈ T, klTerm (∑ i ∈ I.filter (fun i => f i = t), A i) (∑ i ∈ I.filter (fun i => f i = t), Q i) ≤
      ∑ i ∈ I, klTerm (A i) (Q i) := by
  rw [← Finset.sum_fiberwise_of_maps_to hf (fun i => klTerm (A i) (Q i))]
  apply Finset.sum_le_sum
  intro t _
  exact logsum _ A Q (fun i hi => hA i (Finset.mem_filter.mp hi).1) (fun i hi => hQ i (Finset.mem_filter.mp hi).1)
    (fun i hi => hAQ i (Finset.mem_filter.mp hi).1)

end SkNet.Tsd
