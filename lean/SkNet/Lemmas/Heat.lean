/-
Helper lemmas for C14 (heat diffusion): sums in index order, convex combinations, `normalize` is row-stochastic,
one round of Diffusion / Dirichlet keeps a vector inside an interval, loop invariants.
-/
import SkNet.Model.Heat
import Mathlib.Tactic.Ring
import Mathlib.Tactic.Linarith
import Mathlib.Tactic.FieldSimp

namespace SkNet.Heat

attribute [-simp] List.getD_eq_getElem?_getD

/-! ### `sumTo` -/

@[simp] theorem sumTo_zero (f : Nat → Rat) : sumTo 0 f = 0 := rfl
theorem sumTo_succ (n : Nat) (f : Nat → Rat) : sumTo (n+1) f = sumTo n f + f n := rfl

theorem sumTo_congr {n : Nat} {f g : Nat → Rat} (h : ∀ j, j < n → f j = g j) : sumTo n f = sumTo n g := by
  induction n with
  | zero => rfl
  | succ n ih =>
    rw [sumTo_succ, sumTo_succ, ih (fun j hj => h j (by omega)), h n (by omega)]

theorem sumTo_add (n : Nat) (f g : Nat → Rat) : sumTo n (fun j => f j + g j) = sumTo n f + sumTo n g := by
  induction n with
  | zero => simp
  | succ n ih => simp only [sumTo_succ, ih]; ring

theorem sumTo_sub (n : Nat) (f g : Nat → Rat) : sumTo n (fun j => f j - g j) = sumTo n f - sumTo n g := by
  induction n with
  | zero => simp
  | succ n ih => simp only [sumTo_succ, ih]; ring

theorem sumTo_mul_left (n : Nat) (c : Rat) (f : Nat → Rat) : sumTo n (fun j => c * f j) = c * sumTo n f := by
  induction n with
  | zero => simp
  | succ n ih => simp only [sumTo_succ, ih]; ring

theorem sumTo_mul_right (n : Nat) (c : Rat) (f : Nat → Rat) : sumTo n (fun j => f j * c) = sumTo n f * c := by
  induction n with
  | zero => simp
  | succ n ih => simp only [sumTo_succ, ih]; ring

@[simp] theorem sumTo_const_zero (n : Nat) : sumTo n (fun _ => (0 : Rat)) = 0 := by
  induction n with
  | zero => rfl
  | succ n ih => simp [sumTo_succ, ih]

theorem sumTo_nonneg {n : Nat} {f : Nat → Rat} (h : ∀ j, j < n → 0 ≤ f j) : 0 ≤ sumTo n f := by
  induction n with
  | zero => simp
  | succ n ih =>
    rw [sumTo_succ]
    have := ih (fun j hj => h j (by omega))
    have := h n (by omega)
    linarith

theorem sumTo_le {n : Nat} {f g : Nat → Rat} (h : ∀ j, j < n → f j ≤ g j) : sumTo n f ≤ sumTo n g := by
  induction n with
  | zero => simp
  | succ n ih =>
    rw [sumTo_succ, sumTo_succ]
    have := ih (fun j hj => h j (by omega))
    have := h n (by omega)
    linarith

theorem sumTo_eq_zero_of_nonneg {n : Nat} {f : Nat → Rat} (h : ∀ j, j < n → 0 ≤ f j) (hs : sumTo n f = 0) :
    ∀ j, j < n → f j = 0 := by
  induction n with
  | zero => intro j hj; omega
  | succ n ih =>
    rw [sumTo_succ] at hs
    have h1 := sumTo_nonneg (fun j hj => h j (by omega) : ∀ j, j < n → 0 ≤ f j)
    have h2 := h n (by omega)
    have h3 : sumTo n f = 0 := by linarith
    have h4 : f n = 0 := by linarith
    intro j hj
    by_cases hjn : j = n
    · subst hjn; exact h4
    · exact ih (fun j hj => h j (by omega)) h3 j (by omega)

theorem sumTo_eq_zero_of_all_zero {n : Nat} {f : Nat → Rat} (h : ∀ j, j < n → f j = 0) : sumTo n f = 0 := by
  rw [sumTo_congr h]; simp

/-- the sum of an indicator row: `Σ_j (if j = i then c else 0)` -/
theorem sumTo_single (n i : Nat) (c : Rat) :
    sumTo n (fun j => if j = i then c else 0) = if i < n then c else 0 := by
  induction n with
  | zero => simp
  | succ n ih =>
    rw [sumTo_succ, ih]
    by_cases h1 : i < n
    · have : n ≠ i := by omega
      simp [h1, this, show i < n + 1 by omega]
    · by_cases h2 : n = i
      · subst h2; simp
      · simp [h1, h2, show ¬ i < n + 1 by omega]

/-- a convex combination of numbers of `[lo, hi]` lies in `[lo, hi]` -/
theorem convex_bounds {n : Nat} {p t : Nat → Rat} {lo hi : Rat}
    (hp : ∀ j, j < n → 0 ≤ p j) (hsum : sumTo n p = 1)
    (ht : ∀ j, j < n → lo ≤ t j ∧ t j ≤ hi) :
    lo ≤ sumTo n (fun j => p j * t j) ∧ sumTo n (fun j => p j * t j) ≤ hi := by
  constructor
  · have h1 : sumTo n (fun j => p j * lo) ≤ sumTo n (fun j => p j * t j) :=
      sumTo_le (fun j hj => mul_le_mul_of_nonneg_left (ht j hj).1 (hp j hj))
    rw [sumTo_mul_right, hsum] at h1
    linarith
  · have h1 : sumTo n (fun j => p j * t j) ≤ sumTo n (fun j => p j * hi) :=
      sumTo_le (fun j hj => mul_le_mul_of_nonneg_left (ht j hj).2 (hp j hj))
    rw [sumTo_mul_right, hsum] at h1
    linarith

/-! ### `absQ`, `rowNorm`, `pinv`, `normalize` -/

theorem absQ_nonneg (x : Rat) : 0 ≤ absQ x := by
  unfold absQ; split <;> linarith

theorem absQ_of_nonneg {x : Rat} (h : 0 ≤ x) : absQ x = x := by
  unfold absQ; split
  · linarith
  · rfl

theorem absQ_eq_zero {x : Rat} (h : absQ x = 0) : x = 0 := by
  unfold absQ at h; split at h <;> linarith

theorem absQ_le_iff {x M : Rat} : absQ x ≤ M ↔ -M ≤ x ∧ x ≤ M := by
  unfold absQ
  split
  · constructor
    · intro h; constructor <;> linarith
    · intro h; linarith [h.1]
  · constructor
    · intro h; constructor <;> linarith
    · intro h; exact h.2

theorem absQ_mul_of_nonneg {c : Rat} (hc : 0 ≤ c) (x : Rat) : absQ (c * x) = c * absQ x := by
  unfold absQ
  by_cases hx : x < 0
  · by_cases hcx : c * x < 0
    · simp [hx, hcx]
    · have : c * x ≤ 0 := mul_nonpos_of_nonneg_of_nonpos hc (le_of_lt hx)
      have h0 : c * x = 0 := le_antisymm this (not_lt.1 hcx)
      simp [hx, h0]
  · have : 0 ≤ c * x := mul_nonneg hc (not_lt.1 hx)
    simp [hx, not_lt.2 this]

theorem rowNorm_nonneg (m : Nat) (A : Nat → Nat → Rat) (i : Nat) : 0 ≤ rowNorm m A i :=
  sumTo_nonneg (fun _ _ => absQ_nonneg _)

theorem rowNorm_eq_zero {m : Nat} {A : Nat → Nat → Rat} {i : Nat} (h : rowNorm m A i = 0) :
    ∀ j, j < m → A i j = 0 := fun j hj =>
  absQ_eq_zero (sumTo_eq_zero_of_nonneg (fun _ _ => absQ_nonneg _) h j hj)

theorem rowNorm_of_nonneg {m : Nat} {A : Nat → Nat → Rat} {i : Nat} (h : ∀ j, j < m → 0 ≤ A i j) :
    rowNorm m A i = sumTo m (A i) :=
  sumTo_congr (fun j hj => absQ_of_nonneg (h j hj))

theorem rowNorm_pos_of_entry {m : Nat} {A : Nat → Nat → Rat} {i j : Nat} (hj : j < m) (h : A i j ≠ 0) :
    0 < rowNorm m A i := by
  rcases lt_or_eq_of_le (rowNorm_nonneg m A i) with h1 | h1
  · exact h1
  · exact absurd (rowNorm_eq_zero h1.symm j hj) h

theorem pinv_nonneg {x : Rat} (h : 0 ≤ x) : 0 ≤ pinv x := by
  unfold pinv; split
  · exact le_refl _
  · exact div_nonneg zero_le_one h

theorem pinv_mul_self {x : Rat} (h : x ≠ 0) : pinv x * x = 1 := by
  unfold pinv; rw [if_neg h]; field_simp

@[simp] theorem pinv_zero : pinv 0 = 0 := by simp [pinv]

theorem pinv_ne_zero {x : Rat} (h : x ≠ 0) : pinv x ≠ 0 := by
  intro h0
  have := pinv_mul_self h
  rw [h0] at this; simp at this

/-- **normalize_stochastic (1)**: entries of `normalize A` are non-negative when those of `A` are -/
theorem normalize_nonneg {m : Nat} {A : Nat → Nat → Rat} {i j : Nat} (h : 0 ≤ A i j) :
    0 ≤ normalize m A i j :=
  mul_nonneg (pinv_nonneg (rowNorm_nonneg m A i)) h

/-- **normalize_stochastic (2)**: every non-null row of `normalize A` has L1 norm 1 -/
theorem normalize_abs_row_sum {m : Nat} {A : Nat → Nat → Rat} {i : Nat} (h : rowNorm m A i ≠ 0) :
    sumTo m (fun j => absQ (normalize m A i j)) = 1 := by
  unfold normalize
  rw [sumTo_congr (fun j _ => absQ_mul_of_nonneg (pinv_nonneg (rowNorm_nonneg m A i)) (A i j)), sumTo_mul_left]
  exact pinv_mul_self h

/-- **normalize_stochastic (3)**: with non-negative weights every non-null row sums to 1 -/
theorem normalize_row_sum {m : Nat} {A : Nat → Nat → Rat} {i : Nat} (hA : ∀ j, j < m → 0 ≤ A i j)
    (h : rowNorm m A i ≠ 0) : sumTo m (normalize m A i) = 1 := by
  have := normalize_abs_row_sum h
  rwa [sumTo_congr (fun j hj => absQ_of_nonneg (normalize_nonneg (hA j hj)))] at this

/-- **normalize_stochastic (4)**: null rows stay null -/
theorem normalize_null_row {m : Nat} {A : Nat → Nat → Rat} {i : Nat} (h : rowNorm m A i = 0) (j : Nat) :
    normalize m A i j = 0 := by
  simp [normalize, h]

theorem normalize_eq_zero_iff {m : Nat} {A : Nat → Nat → Rat} {i j : Nat} :
    normalize m A i j = 0 ↔ rowNorm m A i = 0 ∨ A i j = 0 := by
  unfold normalize
  constructor
  · intro h
    rcases mul_eq_zero.1 h with h1 | h1
    · left; by_contra hne; exact pinv_ne_zero hne h1
    · right; exact h1
  · rintro (h | h)
    · simp [h]
    · simp [h]

/-- `degrees == 0` on the normalised matrix is the same as a null row norm -/
theorem storedDegree_normalize_eq_zero {n : Nat} {A : Nat → Nat → Rat} {i : Nat} :
    storedDegree n (normalize n A) i = 0 ↔ rowNorm n A i = 0 := by
  unfold storedDegree
  rw [List.length_eq_zero_iff, List.filter_eq_nil_iff]
  constructor
  · intro h
    by_contra hne
    have hall : ∀ j, j < n → A i j = 0 := by
      intro j hj
      have := h j (List.mem_range.2 hj)
      simp only [ne_eq, decide_not, Bool.not_eq_true', decide_eq_false_iff_not, not_not] at this
      rcases normalize_eq_zero_iff.1 this with h1 | h1
      · exact absurd h1 hne
      · exact h1
    exact hne (sumTo_eq_zero_of_all_zero (fun j hj => by simp [hall j hj, absQ]))
  · intro h j _
    simp [normalize_null_row h]


/-! ### dense storage, `matVec` -/

theorem ent_mat {n m : Nat} {f : Nat → Nat → Rat} {i j : Nat} (hi : i < n) (hj : j < m) :
    ent (mat n m f) i j = f i j := by
  unfold ent mat; simp [hi, hj]

@[simp] theorem matVec_length (n : Nat) (M : Mat) (v : List Rat) : (matVec n M v).length = n := by
  simp [matVec]

theorem matVec_getD {n : Nat} {M : Mat} {v : List Rat} {i : Nat} (hi : i < n) :
    (matVec n M v).getD i 0 = sumTo n fun j => ent M i j * v.getD j 0 := by
  simp [matVec, hi]

/-- a vector of length `n` with all entries in `[lo, hi]` -/
def InRange (lo hi : Rat) (n : Nat) (v : List Rat) : Prop :=
  v.length = n ∧ ∀ i, i < n → lo ≤ v.getD i 0 ∧ v.getD i 0 ≤ hi

theorem InRange.mem {lo hi : Rat} {n : Nat} {v : List Rat} (h : InRange lo hi n v) :
    ∀ x, x ∈ v → lo ≤ x ∧ x ≤ hi := by
  intro x hx
  obtain ⟨i, hi, rfl⟩ := List.getElem_of_mem hx
  have := h.2 i (h.1 ▸ hi)
  simpa [List.getD_eq_getElem?_getD, hi] using this

/-- a row-stochastic matrix keeps a vector inside `[lo, hi]` -/
theorem matVec_inRange {n : Nat} {M : Mat} {v : List Rat} {lo hi : Rat}
    (hrow : ∀ i, i < n → (∀ j, j < n → 0 ≤ ent M i j) ∧ sumTo n (ent M i) = 1)
    (hv : InRange lo hi n v) : InRange lo hi n (matVec n M v) := by
  refine ⟨by simp, fun i hi => ?_⟩
  rw [matVec_getD hi]
  exact convex_bounds (hrow i hi).1 (hrow i hi).2 hv.2

/-! ### the matrix of `Diffusion.fit` is row-stochastic -/

theorem diffusionEntry_eq (n : Nat) (A : Nat → Nat → Rat) (α : Rat) (i j : Nat) :
    diffusionEntry n A α i j =
      (1 - α) * (if j = i then 1 else 0) +
      α * (normalize n (fun r c => A c r) i j +
            (if j = i then (if rowNorm n (fun r c => A c r) i = 0 then 1 else 0) else 0)) := by
  unfold diffusionEntry
  by_cases hij : i = j
  · subst hij
    by_cases hd : rowNorm n (fun r c => A c r) i = 0
    · simp [storedDegree_normalize_eq_zero.2 hd, hd]
    · have : ¬ storedDegree n (normalize n fun r c => A c r) i = 0 := fun h => hd (storedDegree_normalize_eq_zero.1 h)
      simp [this, hd]
  · have : ¬ j = i := fun h => hij h.symm
    simp [hij, this]

theorem diffusionEntry_nonneg {n : Nat} {A : Nat → Nat → Rat} {α : Rat} (hA : ∀ i j, 0 ≤ A i j)
    (h0 : 0 ≤ α) (h1 : α ≤ 1) (i j : Nat) : 0 ≤ diffusionEntry n A α i j := by
  rw [diffusionEntry_eq]
  have hP : 0 ≤ normalize n (fun r c => A c r) i j := normalize_nonneg (hA j i)
  have hd : (0 : Rat) ≤ (if j = i then (1 : Rat) else 0) := by split <;> norm_num
  have hs : (0 : Rat) ≤ (if j = i then (if rowNorm n (fun r c => A c r) i = 0 then (1 : Rat) else 0) else 0) := by
    split
    · split <;> norm_num
    · norm_num
  have h2 : 0 ≤ 1 - α := by linarith
  have := mul_nonneg h2 hd
  have := mul_nonneg h0 (add_nonneg hP hs)
  linarith

theorem diffusionEntry_row_sum {n : Nat} {A : Nat → Nat → Rat} {α : Rat} (hA : ∀ i j, 0 ≤ A i j)
    {i : Nat} (hi : i < n) : sumTo n (diffusionEntry n A α i) = 1 := by
  rw [sumTo_congr (fun j _ => diffusionEntry_eq n A α i j), sumTo_add, sumTo_mul_left, sumTo_mul_left, sumTo_add,
    sumTo_single, sumTo_single]
  by_cases hd : rowNorm n (fun r c => A c r) i = 0
  · rw [sumTo_eq_zero_of_all_zero (fun j _ => normalize_null_row hd j)]
    simp [hd, hi]
  · rw [normalize_row_sum (fun j _ => hA j i) hd]
    simp [hd, hi]

/-! ### one Dirichlet round -/

@[simp] theorem dirichletStep_length (n : Nat) (P : Mat) (temps : List Rat) (border : List Bool) (v : List Rat) :
    (dirichletStep n P temps border v).length = n := by
  simp [dirichletStep]

theorem dirichletStep_getD {n : Nat} {P : Mat} {temps : List Rat} {border : List Bool} {v : List Rat} {i : Nat}
    (hi : i < n) :
    (dirichletStep n P temps border v).getD i 0 =
      if border.getD i false then temps.getD i 0 else sumTo n fun j => ent P i j * v.getD j 0 := by
  simp [dirichletStep, hi, matVec_getD hi]

theorem dirichletStep_inRange {n : Nat} {P : Mat} {temps : List Rat} {border : List Bool} {v : List Rat} {lo hi : Rat}
    (hP : ∀ i, i < n → border.getD i false = false → (∀ j, j < n → 0 ≤ ent P i j) ∧ sumTo n (ent P i) = 1)
    (ht : ∀ i, i < n → border.getD i false = true → lo ≤ temps.getD i 0 ∧ temps.getD i 0 ≤ hi)
    (hv : InRange lo hi n v) : InRange lo hi n (dirichletStep n P temps border v) := by
  refine ⟨by simp, fun i hi => ?_⟩
  rw [dirichletStep_getD hi]
  by_cases hb : border.getD i false = true
  · simp only [hb, if_true]; exact ht i hi hb
  · have hb' : border.getD i false = false := by simpa using hb
    simp only [hb', Bool.false_eq_true, if_false]
    exact convex_bounds (hP i hi hb').1 (hP i hi hb').2 hv.2

/-! ### `loop` -/

theorem loop_invariant {step : List Rat → List Rat} (Inv : List Rat → Prop) (hstep : ∀ v, Inv v → Inv (step v)) :
    ∀ (k : Nat) (v : List Rat), Inv v → Inv (loop step k v)
  | 0, _, h => h
  | k+1, v, h => loop_invariant Inv hstep k (step v) (hstep v h)

theorem loop_succ_last (step : List Rat → List Rat) (k : Nat) (v : List Rat) :
    loop step (k+1) v = step (loop step k v) := by
  induction k generalizing v with
  | zero => rfl
  | succ k ih => exact ih (step v)

/-! ### `init_temperatures` -/

theorem borderOf_getD {seeds : List Rat} {i : Nat} (hi : i < seeds.length) :
    (borderOf seeds).getD i false = decide (0 ≤ seeds.getD i 0) := by
  simp [borderOf, List.getD_eq_getElem?_getD, hi]

theorem borderOf_getD_true {seeds : List Rat} {i : Nat} (hi : i < seeds.length) :
    (borderOf seeds).getD i false = true ↔ 0 ≤ seeds.getD i 0 := by
  rw [borderOf_getD hi]; simp

/-- the mean of the seeds lies between the smallest and the largest seed -/
theorem mean_bounds {seeds : List Rat} {lo hi : Rat}
    (hs : ∀ i, i < seeds.length → 0 ≤ seeds.getD i 0 → lo ≤ seeds.getD i 0 ∧ seeds.getD i 0 ≤ hi)
    (hc : seedCount seeds ≠ 0) :
    lo ≤ seedSum seeds / seedCount seeds ∧ seedSum seeds / seedCount seeds ≤ hi := by
  have hc0 : 0 ≤ seedCount seeds := sumTo_nonneg (fun i _ => by split <;> norm_num)
  have hpos : 0 < seedCount seeds := lt_of_le_of_ne hc0 (Ne.symm hc)
  have h1 : lo * seedCount seeds ≤ seedSum seeds := by
    unfold seedCount seedSum
    rw [← sumTo_mul_left]
    apply sumTo_le
    intro i hi
    by_cases h : 0 ≤ seeds.getD i 0
    · simp only [h, if_true, mul_one]; exact (hs i hi h).1
    · simp [h]
  have h2 : seedSum seeds ≤ hi * seedCount seeds := by
    unfold seedCount seedSum
    rw [← sumTo_mul_left]
    apply sumTo_le
    intro i hi
    by_cases h : 0 ≤ seeds.getD i 0
    · simp only [h, if_true, mul_one]; exact (hs i hi h).2
    · simp [h]
  exact ⟨(le_div_iff₀ hpos).2 h1, (div_le_iff₀ hpos).2 h2⟩

theorem initTemperatures_ok {seeds : List Rat} {init : Option Rat} {temps : List Rat} {border : List Bool}
    (h : initTemperatures seeds init = .ok (temps, border)) :
    border = borderOf seeds ∧
    ∃ b, (init = some b ∨ (init = none ∧ seedCount seeds ≠ 0 ∧ b = seedSum seeds / seedCount seeds)) ∧
      temps = tab seeds.length fun i => if (borderOf seeds).getD i false then seeds.getD i 0 else b := by
  unfold initTemperatures at h
  cases init with
  | some x =>
    simp only at h
    cases h
    exact ⟨rfl, x, Or.inl rfl, rfl⟩
  | none =>
    simp only at h
    by_cases hc : seedCount seeds = 0
    · simp [hc] at h
    · simp only [hc, if_false] at h
      cases h
      exact ⟨rfl, _, Or.inr ⟨rfl, hc, rfl⟩, rfl⟩

/-- the initial temperatures lie in the seed range (when `init` does) -/
theorem initTemperatures_inRange {seeds : List Rat} {init : Option Rat} {temps : List Rat} {border : List Bool}
    {lo hi : Rat} (h : initTemperatures seeds init = .ok (temps, border))
    (hs : ∀ i, i < seeds.length → 0 ≤ seeds.getD i 0 → lo ≤ seeds.getD i 0 ∧ seeds.getD i 0 ≤ hi)
    (hinit : ∀ x, init = some x → lo ≤ x ∧ x ≤ hi) :
    InRange lo hi seeds.length temps := by
  obtain ⟨_, b, hb, rfl⟩ := initTemperatures_ok h
  have hbr : lo ≤ b ∧ b ≤ hi := by
    rcases hb with hb | ⟨_, hc, rfl⟩
    · exact hinit b hb
    · exact mean_bounds hs hc
  refine ⟨by simp, fun i hi => ?_⟩
  simp only [tab_getD, hi, if_true]
  by_cases hbo : (borderOf seeds).getD i false = true
  · simp only [hbo, if_true]; exact hs i hi ((borderOf_getD_true hi).1 hbo)
  · simp only [hbo]; exact hbr

end SkNet.Heat
