/-
C11 helper lemmas: `rangeFrom`, slices of the `indices` array, rows of `csrOfRows`, and what `getDag` keeps.
-/
import SkNet.Model.Topology

namespace SkNet.Topology

/-! ### `rangeFrom` and slices -/

theorem rangeFrom_eq_range' (lo hi : Nat) : rangeFrom lo hi = List.range' lo (hi - lo) := by
  unfold rangeFrom
  rw [List.range'_eq_map_range]
  apply List.map_congr_left
  intro a _
  omega

@[simp] theorem rangeFrom_length (lo hi : Nat) : (rangeFrom lo hi).length = hi - lo := by
  simp [rangeFrom]

theorem rangeFrom_empty {lo hi : Nat} (h : hi ≤ lo) : rangeFrom lo hi = [] := by
  have : hi - lo = 0 := by omega
  simp [rangeFrom, this]

theorem rangeFrom_cons {lo hi : Nat} (h : lo < hi) : rangeFrom lo hi = lo :: rangeFrom (lo+1) hi := by
  rw [rangeFrom_eq_range', rangeFrom_eq_range']
  have : hi - lo = (hi - (lo+1)) + 1 := by omega
  rw [this, List.range'_succ]

theorem mem_rangeFrom {lo hi x : Nat} : x ∈ rangeFrom lo hi ↔ lo ≤ x ∧ x < hi := by
  rw [rangeFrom_eq_range', List.mem_range'_1]
  omega

/-- `indices[a:b]` read cell by cell -/
def sliceOf (l : List Nat) (a b : Nat) : List Nat := (rangeFrom a b).map (l.getD · 0)

theorem sliceOf_empty {l : List Nat} {a b : Nat} (h : b ≤ a) : sliceOf l a b = [] := by
  simp [sliceOf, rangeFrom_empty h]

theorem sliceOf_cons {l : List Nat} {a b : Nat} (h : a < b) :
    sliceOf l a b = l.getD a 0 :: sliceOf l (a+1) b := by
  simp [sliceOf, rangeFrom_cons h]

theorem sliceOf_append_left (r f : List Nat) (a b : Nat) :
    sliceOf (r ++ f) (a + r.length) (b + r.length) = sliceOf f a b := by
  unfold sliceOf
  rw [rangeFrom_eq_range', rangeFrom_eq_range']
  have : b + r.length - (a + r.length) = b - a := by omega
  rw [this]
  rw [List.range'_eq_map_range, List.range'_eq_map_range, List.map_map, List.map_map]
  apply List.map_congr_left
  intro x _
  simp only [Function.comp]
  rw [List.getD_eq_getElem?_getD, List.getD_eq_getElem?_getD]
  rw [List.getElem?_append_right (by omega)]
  congr 2
  omega

theorem sliceOf_prefix (r f : List Nat) : sliceOf (r ++ f) 0 r.length = r := by
  unfold sliceOf
  rw [rangeFrom_eq_range']
  apply List.ext_getElem
  · simp
  · intro i h1 h2
    simp at h1
    simp [List.getD_eq_getElem?_getD, List.getElem?_append_left h1, h1]

/-! ### rows of a CSR structure -/

/-- the out-list of node `i`, read the way the kernels read it -/
def Dag.row (d : Dag) (i : Nat) : List Nat :=
  sliceOf d.indices (d.indptr.getD i 0) (d.indptr.getD (i+1) 0)

theorem indptrOf_length (rows : List (List Nat)) : (indptrOf rows).length = rows.length + 1 := by
  induction rows with
  | nil => rfl
  | cons r rs ih => simp [indptrOf, ih]

theorem indptrOf_zero (rows : List (List Nat)) : (indptrOf rows).getD 0 0 = 0 := by
  cases rows <;> simp [indptrOf]

theorem indptrOf_succ (r : List Nat) (rs : List (List Nat)) (i : Nat) (h : i ≤ rs.length) :
    (indptrOf (r :: rs)).getD (i+1) 0 = (indptrOf rs).getD i 0 + r.length := by
  have hl : i < (indptrOf rs).length := by rw [indptrOf_length]; omega
  simp [indptrOf, List.getD_eq_getElem?_getD, List.getElem?_map, List.getElem?_eq_getElem hl]

theorem csrOfRows_row (rows : List (List Nat)) (i : Nat) (h : i < rows.length) :
    (csrOfRows rows).row i = rows.getD i [] := by
  induction rows generalizing i with
  | nil => simp at h
  | cons r rs ih =>
    unfold Dag.row csrOfRows
    simp only [List.flatten_cons]
    cases i with
    | zero =>
      rw [indptrOf_succ r rs 0 (Nat.zero_le _), indptrOf_zero, indptrOf_zero]
      simp [sliceOf_prefix]
    | succ i =>
      have hi : i < rs.length := by simpa using h
      rw [indptrOf_succ r rs i (by omega), indptrOf_succ r rs (i+1) (by omega)]
      rw [sliceOf_append_left]
      have := ih i hi
      unfold Dag.row csrOfRows at this
      simpa using this

theorem csrOfRows_indptr_length (rows : List (List Nat)) : (csrOfRows rows).indptr.length - 1 = rows.length := by
  simp [csrOfRows, indptrOf_length]

theorem indptrOf_mono (rows : List (List Nat)) (i : Nat) (h : i < rows.length) :
    (indptrOf rows).getD (i+1) 0 = (indptrOf rows).getD i 0 + (rows.getD i []).length := by
  induction rows generalizing i with
  | nil => simp at h
  | cons r rs ih =>
    cases i with
    | zero =>
      rw [indptrOf_succ r rs 0 (Nat.zero_le _), indptrOf_zero, indptrOf_zero]; simp
    | succ i =>
      have hi : i < rs.length := by simpa using h
      rw [indptrOf_succ r rs i (by omega), indptrOf_succ r rs (i+1) (by omega), ih i hi]
      simp; omega

end SkNet.Topology
