/-
Invariants of the Louvain kernel model (`optimizeCore`, Model/ModularityOpt.lean) in exact arithmetic:
the scratch array is identically zero between two nodes, the running cluster volumes never drift, every
accepted move has a strictly positive gain which is exactly the change of the generalised modularity `Q`,
and a node only ever joins the cluster of one of its stored neighbours.
-/
import SkNet.Lemmas.ModularitySums

namespace SkNet.Modularity
open Finset

/-! ### the `Rat` instance of `Scalar` is ordinary arithmetic -/
@[simp] theorem zero_rat : (Scalar.zero : Rat) = 0 := rfl
@[simp] theorem two_rat : (Scalar.two : Rat) = 2 := rfl
@[simp] theorem lt_rat (a b : Rat) : Scalar.lt a b = decide (a < b) := rfl
@[simp] theorem le_rat (a b : Rat) : Scalar.le a b = decide (a ≤ b) := rfl

/-! ### arrays as lists -/

theorem getD_set {α : Type} (l : List α) (i j : Nat) (a d : α) :
    (l.set i a).getD j d = if i = j ∧ i < l.length then a else l.getD j d := by
  rw [List.getD_eq_getElem?_getD, List.getElem?_set, List.getD_eq_getElem?_getD]
  by_cases h : i = j
  · subst h
    by_cases h2 : i < l.length
    · simp [h2]
    · have : l[i]? = none := List.getElem?_eq_none (Nat.le_of_not_lt h2)
      simp [h2]
  · simp [h]

/-! ### `std::set` -/

theorem mem_setInsert (x y : Nat) (s : List Nat) : y ∈ setInsert x s ↔ y = x ∨ y ∈ s := by
  induction s with
  | nil => simp [setInsert]
  | cons z zs ih =>
    unfold setInsert
    split
    · simp
    · split
      · rename_i h; subst h; simp
      · simp [ih]; tauto

theorem setInsert_sorted (x : Nat) (s : List Nat) (hs : s.Pairwise (· < ·)) :
    (setInsert x s).Pairwise (· < ·) := by
  induction s with
  | nil => simp [setInsert]
  | cons z zs ih =>
    have hz := List.pairwise_cons.mp hs
    unfold setInsert
    split
    · rename_i h
      refine List.pairwise_cons.mpr ⟨?_, hs⟩
      intro a ha
      rcases List.mem_cons.mp ha with rfl | ha
      · exact h
      · exact Nat.lt_trans h (hz.1 a ha)
    · split
      · exact hs
      · rename_i h1 h2
        refine List.pairwise_cons.mpr ⟨?_, ih hz.2⟩
        intro a ha
        rcases (mem_setInsert x a zs).mp ha with rfl | ha
        · omega
        · exact hz.1 a ha

theorem mem_setErase (x y : Nat) (s : List Nat) : y ∈ setErase x s ↔ y ∈ s ∧ y ≠ x := by
  simp [setErase]

theorem setErase_sorted (x : Nat) (s : List Nat) (hs : s.Pairwise (· < ·)) :
    (setErase x s).Pairwise (· < ·) := List.Pairwise.filter _ hs

/-! ### the matrix a kernel works on -/

/-- entry `(·, v)` of a CSR row: stored duplicates are summed -/
def rowEntry (row : List (Nat × Rat)) (v : Nat) : Rat := (row.map fun e => if e.1 = v then e.2 else 0).sum

/-- adjacency matrix of the kernel's CSR arrays -/
def adj (g : Graph Rat) (u v : Nat) : Rat := rowEntry (g.row u) v

/-- weight of the stored entries of a row that lead into cluster `x` -/
def rowLink (lab : Nat → Nat) (row : List (Nat × Rat)) (x : Nat) : Rat :=
  (row.map fun e => if lab e.1 = x then e.2 else 0).sum

theorem rowLink_eq_link (n : Nat) (lab : Nat → Nat) (row : List (Nat × Rat)) (x : Nat)
    (h : ∀ e ∈ row, e.1 < n) :
    rowLink lab row x = ∑ v ∈ range n, if lab v = x then rowEntry row v else 0 := by
  induction row with
  | nil => simp [rowLink, rowEntry]
  | cons e r ih =>
    have he : e.1 < n := h e (List.mem_cons_self)
    have ih' := ih fun e' he' => h e' (List.mem_cons_of_mem _ he')
    have : ∀ v, rowEntry (e :: r) v = (if e.1 = v then e.2 else 0) + rowEntry r v := by
      intro v; simp [rowEntry]
    simp only [this]
    have hsplit : ∑ v ∈ range n, (if lab v = x then (if e.1 = v then e.2 else 0) + rowEntry r v else 0)
        = (∑ v ∈ range n, if e.1 = v then (if lab v = x then e.2 else 0) else 0)
          + ∑ v ∈ range n, if lab v = x then rowEntry r v else 0 := by
      rw [← sum_add_distrib]
      refine sum_congr rfl fun v _ => ?_
      split_ifs <;> simp
    rw [hsplit, ← ih', Finset.sum_ite_eq (range n) e.1]
    simp [rowLink, Finset.mem_range.mpr he]

/-! ### the neighbour loop: `cluster_weights` receives the weight towards each neighbouring cluster -/

theorem nbrLoop_fold (lab : List Nat) (row : List (Nat × Rat)) (cw : List Rat) (s : List Nat)
    (hb : ∀ e ∈ row, lab.getD e.1 0 < cw.length) :
    (row.foldl (nbrStep lab) (cw, s)).1.length = cw.length ∧
    (∀ x, (row.foldl (nbrStep lab) (cw, s)).1.getD x 0 = cw.getD x 0 + rowLink (fun j => lab.getD j 0) row x) ∧
    (∀ x, x ∈ (row.foldl (nbrStep lab) (cw, s)).2 ↔ x ∈ s ∨ ∃ e ∈ row, lab.getD e.1 0 = x) ∧
    (s.Pairwise (· < ·) → (row.foldl (nbrStep lab) (cw, s)).2.Pairwise (· < ·)) := by
  induction row generalizing cw s with
  | nil => simp [rowLink]
  | cons e r ih =>
    simp only [List.foldl_cons]
    have he := hb e List.mem_cons_self
    have hlen : (nbrStep lab (cw, s) e).1.length = cw.length := by simp [nbrStep]
    have hb' : ∀ e' ∈ r, lab.getD e'.1 0 < (nbrStep lab (cw, s) e).1.length := by
      intro e' he'; rw [hlen]; exact hb e' (List.mem_cons_of_mem _ he')
    obtain ⟨h1, h2, h3, h4⟩ := ih (nbrStep lab (cw, s) e).1 (nbrStep lab (cw, s) e).2 hb'
    refine ⟨by rw [h1, hlen], ?_, ?_, ?_⟩
    · intro x
      rw [h2 x]
      simp only [nbrStep, zero_rat, getD_set, rowLink, List.map_cons, List.sum_cons]
      by_cases hx : lab.getD e.1 0 = x
      · subst hx; simp only [he, and_self, if_true]; ring
      · simp only [hx, false_and, if_false]; ring
    · intro x
      rw [h3 x]
      simp only [nbrStep, mem_setInsert, List.mem_cons]
      constructor
      · rintro ((rfl | h) | ⟨e', he', rfl⟩)
        · exact Or.inr ⟨e, Or.inl rfl, rfl⟩
        · exact Or.inl h
        · exact Or.inr ⟨e', Or.inr he', rfl⟩
      · rintro (h | ⟨e', (rfl | he'), rfl⟩)
        · exact Or.inl (Or.inr h)
        · exact Or.inl (Or.inl rfl)
        · exact Or.inr ⟨e', he', rfl⟩
    · intro hs
      exact h4 (setInsert_sorted _ _ hs)

/-! ### the loop over the neighbouring clusters -/

/-- `delta_local` of cluster `t`, read off the arrays -/
def joinAt (res outW inW delta : Rat) (inCl outCl cw : List Rat) (t : Nat) : Rat :=
  joinDelta res outW inW (cw.getD t 0) (inCl.getD t 0) (outCl.getD t 0) delta

theorem targetLoop_fold (res outW inW delta : Rat) (inCl outCl : List Rat) (ts : List Nat)
    (best : Rat) (bl : Nat) (cw : List Rat) (hnd : ts.Nodup) (hb : ∀ t ∈ ts, t < cw.length) :
    let r := ts.foldl (targetStep res outW inW delta inCl outCl) (best, bl, cw)
    r.2.2.length = cw.length ∧
    (∀ x, r.2.2.getD x 0 = if x ∈ ts then 0 else cw.getD x 0) ∧
    ((r.1 = best ∧ r.2.1 = bl) ∨
     (r.2.1 ∈ ts ∧ r.1 = joinAt res outW inW delta inCl outCl cw r.2.1 ∧ best < r.1)) ∧
    (∀ t ∈ ts, joinAt res outW inW delta inCl outCl cw t ≤ r.1) ∧ best ≤ r.1 := by
  induction ts generalizing best bl cw with
  | nil => simp
  | cons t ts ih =>
    intro r
    have ht : t < cw.length := hb t List.mem_cons_self
    have hnd' := (List.nodup_cons.mp hnd)
    -- the state after the first target
    set J := joinAt res outW inW delta inCl outCl cw t with hJ
    have hstep : targetStep res outW inW delta inCl outCl (best, bl, cw) t =
        (if best < J then (J, t, cw.set t 0) else (best, bl, cw.set t 0)) := by
      simp only [targetStep, lt_rat, zero_rat, decide_eq_true_eq, hJ, joinAt]
    have hjoin : ∀ t' ∈ ts, joinAt res outW inW delta inCl outCl (cw.set t 0) t'
        = joinAt res outW inW delta inCl outCl cw t' := by
      intro t' ht'
      have : t ≠ t' := fun h => hnd'.1 (h ▸ ht')
      simp [joinAt, this]
    have hb' : ∀ t' ∈ ts, t' < (cw.set t 0).length := by
      intro t' ht'; simp; exact hb t' (List.mem_cons_of_mem _ ht')
    have hr : r = ts.foldl (targetStep res outW inW delta inCl outCl)
        (if best < J then (J, t, cw.set t 0) else (best, bl, cw.set t 0)) := by
      simp only [r, List.foldl_cons, hstep]
    by_cases hlt : best < J
    · simp only [hlt, if_true] at hr
      obtain ⟨h1, h2, h3, h4, h5⟩ := ih J t (cw.set t 0) hnd'.2 hb'
      rw [← hr] at h1 h2 h3 h4 h5
      refine ⟨by simpa using h1, ?_, ?_, ?_, le_trans (le_of_lt hlt) h5⟩
      · intro x
        rw [h2 x, getD_set]
        by_cases hx : x ∈ ts
        · simp [hx]
        · by_cases hxt : t = x
          · subst hxt; simp [ht]
          · simp [hx, hxt, Ne.symm hxt]
      · rcases h3 with ⟨e1, e2⟩ | ⟨m, e, l⟩
        · right
          refine ⟨by rw [e2]; exact List.mem_cons_self, by rw [e1, e2], by rw [e1]; exact hlt⟩
        · right
          refine ⟨List.mem_cons_of_mem _ m, by rw [e, hjoin _ m], lt_trans hlt l⟩
      · intro t' ht'
        rcases List.mem_cons.mp ht' with rfl | ht'
        · exact h5
        · rw [← hjoin t' ht']; exact h4 t' ht'
    · simp only [hlt, if_false] at hr
      obtain ⟨h1, h2, h3, h4, h5⟩ := ih best bl (cw.set t 0) hnd'.2 hb'
      rw [← hr] at h1 h2 h3 h4 h5
      refine ⟨by simpa using h1, ?_, ?_, ?_, h5⟩
      · intro x
        rw [h2 x, getD_set]
        by_cases hx : x ∈ ts
        · simp [hx]
        · by_cases hxt : t = x
          · subst hxt; simp [ht]
          · simp [hx, hxt, Ne.symm hxt]
      · rcases h3 with ⟨e1, e2⟩ | ⟨m, e, l⟩
        · left; exact ⟨e1, e2⟩
        · right
          exact ⟨List.mem_cons_of_mem _ m, by rw [e, hjoin _ m], l⟩
      · intro t' ht'
        rcases List.mem_cons.mp ht' with rfl | ht'
        · exact le_trans (not_lt.mp hlt) h5
        · rw [← hjoin t' ht']; exact h4 t' ht'

/-- **tie rule**: when the loop over the (increasingly ordered) neighbouring clusters improves on `best`, the
    cluster it ends with is the first one — the smallest label — among those of maximal gain -/
theorem targetLoop_first (res outW inW delta : Rat) (inCl outCl : List Rat) (ts : List Nat)
    (best : Rat) (bl : Nat) (cw : List Rat) (hs : ts.Pairwise (· < ·)) (hb : ∀ t ∈ ts, t < cw.length) :
    best < (ts.foldl (targetStep res outW inW delta inCl outCl) (best, bl, cw)).1 →
    ∀ t ∈ ts, joinAt res outW inW delta inCl outCl cw t
        = (ts.foldl (targetStep res outW inW delta inCl outCl) (best, bl, cw)).1 →
      (ts.foldl (targetStep res outW inW delta inCl outCl) (best, bl, cw)).2.1 ≤ t := by
  induction ts generalizing best bl cw with
  | nil => intro _ t ht; exact absurd ht List.not_mem_nil
  | cons t0 ts ih =>
    have hs' := List.pairwise_cons.mp hs
    have hnd : (t0 :: ts).Nodup := hs.imp (fun h => Nat.ne_of_lt h)
    have hnd' := List.nodup_cons.mp hnd
    have hstep : targetStep res outW inW delta inCl outCl (best, bl, cw) t0 =
        (if best < joinAt res outW inW delta inCl outCl cw t0
          then (joinAt res outW inW delta inCl outCl cw t0, t0, cw.set t0 0) else (best, bl, cw.set t0 0)) := by
      by_cases hlt' : best < joinAt res outW inW delta inCl outCl cw t0
      · rw [if_pos hlt']
        have h1 : Scalar.lt best (joinAt res outW inW delta inCl outCl cw t0) = true := by simpa using hlt'
        unfold joinAt at h1
        simp only [targetStep, zero_rat]
        rw [if_pos h1]
        rfl
      · rw [if_neg hlt']
        have h1 : ¬ Scalar.lt best (joinAt res outW inW delta inCl outCl cw t0) = true := by simpa using hlt'
        unfold joinAt at h1
        simp only [targetStep, zero_rat]
        rw [if_neg h1]
    have hjoin : ∀ t' ∈ ts, joinAt res outW inW delta inCl outCl (cw.set t0 0) t'
        = joinAt res outW inW delta inCl outCl cw t' := by
      intro t' ht'
      have : t0 ≠ t' := fun h => hnd'.1 (h ▸ ht')
      simp [joinAt, this]
    have hb' : ∀ t' ∈ ts, t' < (cw.set t0 0).length := by
      intro t' ht'; simp; exact hb t' (List.mem_cons_of_mem _ ht')
    simp only [List.foldl_cons, hstep]
    by_cases hlt : best < joinAt res outW inW delta inCl outCl cw t0
    · simp only [hlt, if_true]
      obtain ⟨-, -, h3, -, h5⟩ := targetLoop_fold res outW inW delta inCl outCl ts
        (joinAt res outW inW delta inCl outCl cw t0) t0 (cw.set t0 0) hnd'.2 hb'
      intro _ t ht heq
      rcases h3 with ⟨e1, e2⟩ | ⟨m, e, l⟩
      · -- nothing better later: the loop ends with `t0`, the head of an increasing list
        rw [e2]
        rcases List.mem_cons.mp ht with rfl | ht'
        · exact le_refl _
        · exact Nat.le_of_lt (hs'.1 t ht')
      · rcases List.mem_cons.mp ht with rfl | ht'
        · rw [← heq] at l; exact absurd l (lt_irrefl _)
        · exact ih _ _ _ hs'.2 hb' l t ht' (by rw [hjoin t ht']; exact heq)
    · simp only [hlt, if_false]
      intro hgt t ht heq
      rcases List.mem_cons.mp ht with rfl | ht'
      · rw [heq] at hlt; exact absurd hgt hlt
      · exact ih _ _ _ hs'.2 hb' hgt t ht' (by rw [hjoin t ht']; exact heq)

end SkNet.Modularity
