/-
Invariants of the Louvain kernel model (`optimizeCore`, Model/ModularityOpt.lean) in exact arithmetic:
the scratch array is identically zero between two nodes, the running cluster volumes never drift, every
accepted move has a strictly positive gain which is exactly the change of the generalised modularity `Q`,
and a node only ever joins the cluster of one of its stored neighbours.
-/
import SkNet.Lemmas.ModularitySums

namespace SkNet.Modularity
open Finset

/-! ### the `Rat` instance of `Scalar` is ordinary arithmetic -/
@[simp] theorem zero_rat : (Scalar.zero : Rat) = 0 := rfl
@[simp] theorem two_rat : (Scalar.two : Rat) = 2 := rfl
@[simp] theorem lt_rat (a b : Rat) : Scalar.lt a b = decide (a < b) := rfl
@[simp] theorem le_rat (a b : Rat) : Scalar.le a b = decide (a ≤ b) := rfl

/-! ### arrays as lists -/

theorem getD_set {α : Type} (l : List α) (i j : Nat) (a d : α) :
    (l.set i a).getD j d = if i = j ∧ i < l.length then a else l.getD j d := by
  rw [List.getD_eq_getElem?_getD, List.getElem?_set, List.getD_eq_getElem?_getD]
  by_cases h : i = j
  · subst h
    by_cases h2 : i < l.length
    · simp [h2]
    · have : l[i]? = none := List.getElem?_eq_none (Nat.le_of_not_lt h2)
      simp [h2, this]
  · simp [h]

/-! ### `std::set` -/

theorem mem_setInsert (x y : Nat) (s : List Nat) : y ∈ setInsert x s ↔ y = x ∨ y ∈ s := by
  induction s with
  | nil => simp [setInsert]
  | cons z zs ih =>
    unfold setInsert
    split
    · simp
    · split
      · rename_i h; subst h; simp
      · simp [ih]; tauto

theorem setInsert_sorted (x : Nat) (s : List Nat) (hs : s.Pairwise (· < ·)) :
    (setInsert x s).Pairwise (· < ·) := by
  induction s with
  | nil => simp [setInsert]
  | cons z zs ih =>
    have hz := List.pairwise_cons.mp hs
    unfold setInsert
    split
    · rename_i h
      refine List.pairwise_cons.mpr ⟨?_, hs⟩
      intro a ha
      rcases List.mem_cons.mp ha with rfl | ha
      · exact h
      · exact Nat.lt_trans h (hz.1 a ha)
    · split
      · exact hs
      · rename_i h1 h2
        refine List.pairwise_cons.mpr ⟨?_, ih hz.2⟩
        intro a ha
        rcases (mem_setInsert x a zs).mp ha with rfl | ha
        · omega
        · exact hz.1 a ha

theorem mem_setErase (x y : Nat) (s : List Nat) : y ∈ setErase x s ↔ y ∈ s ∧ y ≠ x := by
  simp [setErase]

theorem setErase_sorted (x : Nat) (s : List Nat) (hs : s.Pairwise (· < ·)) :
    (setErase x s).Pairwise (· < ·) := List.Pairwise.filter _ hs

/-! ### the matrix a kernel works on -/

/-- entry `(·, v)` of a CSR row: stored duplicates are summed -/
def rowEntry (row : List (Nat × Rat)) (v : Nat) : Rat := (row.map fun e => if e.1 = v then e.2 else 0).sum

/-- adjacency matrix of the kernel's CSR arrays -/
def adj (g : Graph Rat) (u v : Nat) : Rat := rowEntry (g.row u) v

/-- weight of the stored entries of a row that lead into cluster `x` -/
def rowLink (lab : Nat → Nat) (row : List (Nat × Rat)) (x : Nat) : Rat :=
  (row.map fun e => if lab e.1 = x then e.2 else 0).sum

theorem rowLink_eq_link (n : Nat) (lab : Nat → Nat) (row : List (Nat × Rat)) (x : Nat)
    (h : ∀ e ∈ row, e.1 < n) :
    rowLink lab row x = ∑ v ∈ range n, if lab v = x then rowEntry row v else 0 := by
  induction row with
  | nil => simp [rowLink, rowEntry]
  | cons e r ih =>
    have he : e.1 < n := h e (List.mem_cons_self)
    have ih' := ih fun e' he' => h e' (List.mem_cons_of_mem _ he')
    have : ∀ v, rowEntry (e :: r) v = (if e.1 = v then e.2 else 0) + rowEntry r v := by
      intro v; simp [rowEntry]
    simp only [this]
    have hsplit : ∑ v ∈ range n, (if lab v = x then (if e.1 = v then e.2 else 0) + rowEntry r v else 0)
        = (∑ v ∈ range n, if e.1 = v then (if lab v = x then e.2 else 0) else 0)
          + ∑ v ∈ range n, if lab v = x then rowEntry r v else 0 := by
      rw [← sum_add_distrib]
      refine sum_congr rfl fun v _ => ?_
      split_ifs <;> simp
    rw [hsplit, ← ih', Finset.sum_ite_eq (range n) e.1]
    simp [rowLink, Finset.mem_range.mpr he]

end SkNet.Modularity
