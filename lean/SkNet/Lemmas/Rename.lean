/- Replaying rows under an injective renaming of the node ids (used for `aggregate_dendrogram`), plus facts
   on the live set: ascending keys, constant total size, "a node that disappears was merged". -/
import SkNet.Lemmas.Static

set_option linter.unusedSimpArgs false

namespace SkNet.Dendro
variable {α : Type}

/-! ### dicts under a renaming of the keys -/

def mapKeys {β : Type} (φ : Nat → Nat) (d : Dict β) : Dict β := d.map fun p => (φ p.1, p.2)

theorem keys_mapKeys {β : Type} (φ : Nat → Nat) (d : Dict β) : Dict.keys (mapKeys φ d) = (Dict.keys d).map φ := by
  simp [mapKeys, Dict.keys, Function.comp_def]

theorem get?_mapKeys {β : Type} (φ : Nat → Nat) (d : Dict β) (x : Nat)
    (hinj : ∀ k ∈ Dict.keys d, φ k = φ x → k = x) : (mapKeys φ d).get? (φ x) = d.get? x := by
  induction d with
  | nil => rfl
  | cons p r ih =>
    obtain ⟨k, v⟩ := p
    simp only [mapKeys, List.map_cons, Dict.get?_cons] at ih ⊢
    by_cases h : k = x
    · subst h; simp
    · have : ¬ φ k = φ x := fun e => h (hinj k (by simp [Dict.keys]) e)
      simp only [h, this, if_false]
      exact ih (fun k' hk' => hinj k' (by simp only [Dict.keys, List.map_cons, List.mem_cons] at hk' ⊢; exact Or.inr hk'))

theorem erase_mapKeys {β : Type} (φ : Nat → Nat) (d : Dict β) (x : Nat)
    (hinj : ∀ k ∈ Dict.keys d, φ k = φ x → k = x) : (mapKeys φ d).erase (φ x) = mapKeys φ (d.erase x) := by
  induction d with
  | nil => rfl
  | cons p r ih =>
    obtain ⟨k, v⟩ := p
    have ih' := ih (fun k' hk' => hinj k' (by simp only [Dict.keys, List.map_cons, List.mem_cons] at hk' ⊢; exact Or.inr hk'))
    simp only [mapKeys, Dict.erase, List.map_cons, List.filter_cons] at ih' ⊢
    by_cases h : k = x
    · subst h; simp only [bne_self_eq_false, Bool.false_eq_true, if_false]; exact ih'
    · have : ¬ φ k = φ x := fun e => h (hinj k (by simp [Dict.keys]) e)
      have e1 : (φ k != φ x) = true := by simpa using this
      have e2 : (k != x) = true := by simpa using h
      simp only [e1, e2, if_true, List.map_cons]
      rw [ih']

theorem set_mapKeys_fresh {β : Type} (φ : Nat → Nat) (d : Dict β) (x : Nat) (v : β) (hx : x ∉ Dict.keys d)
    (hinj : ∀ k ∈ Dict.keys d, φ k ≠ φ x) : (mapKeys φ d).set (φ x) v = mapKeys φ (d.set x v) := by
  rw [Dict.set_of_not_mem hx, Dict.set_of_not_mem]
  · simp [mapKeys]
  · rw [keys_mapKeys]
    intro hm
    obtain ⟨k, hk, e⟩ := List.mem_map.mp hm
    exact hinj k hk e

/-- one valid row, seen through an injective renaming `φ` of the live keys that sends the new node to `φnew` -/
theorem liveStep_rename {n t n' t' : Nat} {r : Row α} {L L1 : Dict Nat} (φ : Nat → Nat) (hinv : LInv n t L)
    (h : liveStep n t r L = some L1)
    (hinj : ∀ a, (a ∈ Dict.keys L ∨ a = n + t) → ∀ b, (b ∈ Dict.keys L ∨ b = n + t) → φ a = φ b → a = b)
    (hnew : φ (n + t) = n' + t') :
    liveStep n' t' { r with i := φ r.i, j := φ r.j } (mapKeys φ L) = some (mapKeys φ L1) := by
  obtain ⟨si, sj, hi, hj, hne, hs, _, _, _⟩ := liveStep_spec hinv h
  have hL1 : L1 = ((L.erase r.i).erase r.j).set (n + t) r.s := by
    rw [liveStep_ok hi hj hne hs] at h; exact (Option.some.inj h).symm
  have hki := Dict.get?_some_key_mem hi
  have hkj := Dict.get?_some_key_mem hj
  have hi' : (mapKeys φ L).get? (φ r.i) = some si := by
    rw [get?_mapKeys φ L r.i (fun k hk e => hinj k (Or.inl hk) r.i (Or.inl hki) e)]; exact hi
  have hj' : (mapKeys φ L).get? (φ r.j) = some sj := by
    rw [get?_mapKeys φ L r.j (fun k hk e => hinj k (Or.inl hk) r.j (Or.inl hkj) e)]; exact hj
  have hne' : φ r.i ≠ φ r.j := fun e => hne (hinj r.i (Or.inl hki) r.j (Or.inl hkj) e)
  rw [liveStep_ok (r := { r with i := φ r.i, j := φ r.j }) hi' hj' hne' hs]
  congr 1
  show (((mapKeys φ L).erase (φ r.i)).erase (φ r.j)).set (n' + t') r.s = _
  rw [hL1, erase_mapKeys φ L r.i (fun k hk e => hinj k (Or.inl hk) r.i (Or.inl hki) e)]
  rw [erase_mapKeys φ (L.erase r.i) r.j
    (fun k hk e => hinj k (Or.inl (Dict.mem_keys_erase.mp hk).1) r.j (Or.inl hkj) e)]
  rw [← hnew]
  have hfresh : n + t ∉ Dict.keys ((L.erase r.i).erase r.j) := by
    intro hm
    have := hinv.bound _ (Dict.mem_keys_erase.mp (Dict.mem_keys_erase.mp hm).1).1
    omega
  refine set_mapKeys_fresh φ _ (n + t) r.s hfresh ?_
  intro k hk e
  have hk' := (Dict.mem_keys_erase.mp (Dict.mem_keys_erase.mp hk).1).1
  have := hinj k (Or.inl hk') (n + t) (Or.inr rfl) e
  have := hinv.bound _ hk'
  omega

/-! ### more on the live set -/

/-- keys in increasing order (new nodes are appended, and are larger than everything alive) -/
def AscKeys (d : Dict Nat) : Prop := (Dict.keys d).Pairwise (· < ·)

theorem ascKeys_init (w : List Nat) : AscKeys (liveInit w) := by
  unfold AscKeys
  simp only [liveInit, Dict.keys, List.map_map, Function.comp_def, List.map_id']
  exact List.pairwise_lt_range

theorem liveStep_asc {n t : Nat} {r : Row α} {L L1 : Dict Nat} (hinv : LInv n t L) (hasc : AscKeys L)
    (h : liveStep n t r L = some L1) : AscKeys L1 := by
  obtain ⟨si, sj, hi, hj, hne, hs, _, _, _⟩ := liveStep_spec hinv h
  rw [liveStep_ok hi hj hne hs] at h
  have := (Option.some.inj h).symm
  subst this
  have hfresh : n + t ∉ Dict.keys ((L.erase r.i).erase r.j) := by
    intro hm
    have := hinv.bound _ (Dict.mem_keys_erase.mp (Dict.mem_keys_erase.mp hm).1).1
    omega
  unfold AscKeys at hasc ⊢
  rw [Dict.set_of_not_mem hfresh]
  simp only [Dict.keys, List.map_append, List.map_cons, List.map_nil]
  have h1 : (Dict.keys ((L.erase r.i).erase r.j)).Pairwise (· < ·) := by
    rw [Dict.keys_erase, Dict.keys_erase]
    exact (hasc.filter _).filter _
  refine List.pairwise_append.mpr ⟨h1, by simp, ?_⟩
  intro a ha b hb
  simp only [List.mem_cons, List.not_mem_nil, or_false] at hb
  subst hb
  exact hinv.bound _ (Dict.mem_keys_erase.mp (Dict.mem_keys_erase.mp ha).1).1

def sumVals (d : Dict Nat) : Nat := (d.map (·.2)).sum

theorem sumVals_erase {d : Dict Nat} (hd : (Dict.keys d).Nodup) {k s : Nat} (h : d.get? k = some s) :
    sumVals (d.erase k) + s = sumVals d := by
  induction d with
  | nil => simp at h
  | cons p r ih =>
    obtain ⟨k', v'⟩ := p
    simp only [Dict.keys, List.map_cons, List.nodup_cons] at hd
    by_cases e : k' = k
    · subst e
      simp only [Dict.get?_cons, if_true, Option.some.injEq] at h
      subst h
      have : Dict.erase r k' = r := by
        unfold Dict.erase
        apply List.filter_eq_self.mpr
        intro a ha
        have : a.1 ∈ Dict.keys r := List.mem_map.mpr ⟨a, ha, rfl⟩
        simp only [bne_iff_ne, ne_eq]
        intro e; exact hd.1 (e ▸ this)
      have hb : ((k', v').1 != k') = false := by simp
      simp only [Dict.erase, List.filter_cons, hb, Bool.false_eq_true, if_false] at this ⊢
      rw [this]
      simp [sumVals]; omega
    · simp only [Dict.get?_cons, e, if_false] at h
      have hb : ((k', v').1 != k) = true := by simp [e]
      have := ih hd.2 h
      simp only [Dict.erase, List.filter_cons, hb, if_true, sumVals, List.map_cons, List.sum_cons] at this ⊢
      omega

/-- the total size of the live clusters never changes -/
theorem liveStep_sum {n t : Nat} {r : Row α} {L L1 : Dict Nat} (hinv : LInv n t L)
    (h : liveStep n t r L = some L1) : sumVals L1 = sumVals L := by
  obtain ⟨si, sj, hi, hj, hne, hs, _, _, _⟩ := liveStep_spec hinv h
  rw [liveStep_ok hi hj hne hs] at h
  have := (Option.some.inj h).symm
  subst this
  have hfresh : n + t ∉ Dict.keys ((L.erase r.i).erase r.j) := by
    intro hm
    have := hinv.bound _ (Dict.mem_keys_erase.mp (Dict.mem_keys_erase.mp hm).1).1
    omega
  rw [Dict.set_of_not_mem hfresh]
  have h1 := sumVals_erase hinv.nodup hi
  have hj' : (L.erase r.i).get? r.j = some sj := by
    rw [Dict.get?_erase]; simp [Ne.symm hne, hj]
  have h2 := sumVals_erase (Dict.nodup_keys_erase hinv.nodup r.i) hj'
  simp only [sumVals, List.map_append, List.map_cons, List.map_nil, List.sum_append, List.sum_cons, List.sum_nil] at h1 h2 ⊢
  omega

theorem liveAfter_facts {n : Nat} : ∀ (rs : List (Row α)) (t : Nat) (L L' : Dict Nat),
    LInv n t L → AscKeys L → liveAfter n t rs L = some L' →
    AscKeys L' ∧ sumVals L' = sumVals L ∧
    (∀ x ∈ Dict.keys L, x ∉ Dict.keys L' → x ∈ childList rs) ∧
    (∀ x ∈ Dict.keys L', x ∈ Dict.keys L ∨ (n + t ≤ x ∧ x < n + t + rs.length)) ∧
    (∀ c ∈ childList rs, c ∈ Dict.keys L ∨ (n + t ≤ c ∧ c < n + t + rs.length)) := by
  intro rs
  induction rs with
  | nil =>
    intro t L L' _ hasc h
    simp only [liveAfter, Option.some.injEq] at h
    subst h
    exact ⟨hasc, rfl, fun x hx hn => absurd hx hn, fun x hx => Or.inl hx, by simp [childList]⟩
  | cons r rs ih =>
    intro t L L' hinv hasc h
    simp only [liveAfter] at h
    cases hs : liveStep n t r L with
    | none => simp [hs] at h
    | some L1 =>
      simp only [hs, Option.bind_some] at h
      obtain ⟨si, sj, hi, hj, hne, hsz, hl1, _, hget⟩ := liveStep_spec hinv hs
      obtain ⟨g1, g2, g3, g4, g5⟩ := ih (t + 1) L1 L' hl1 (liveStep_asc hinv hasc hs) h
      have hcl : childList (r :: rs) = r.i :: r.j :: childList rs := by simp [childList]
      have hkey1 : ∀ x, x ∈ Dict.keys L1 ↔ (x = n + t ∨ (x ∈ Dict.keys L ∧ x ≠ r.i ∧ x ≠ r.j)) := by
        intro x
        have hmem : ∀ (d : Dict Nat) (y : Nat), y ∈ Dict.keys d ↔ d.get? y ≠ none := fun d y => by
          rw [Ne, Dict.get?_eq_none_iff]; exact Iff.symm Decidable.not_not
        rw [hmem L1, hget, hmem L]
        by_cases e1 : x = n + t
        · simp [e1]
        · by_cases e2 : x = r.j
          · simp [e1, e2]
          · by_cases e3 : x = r.i
            · simp [e1, e2, e3]
            · simp [e1, e2, e3]
      refine ⟨g1, by rw [g2]; exact liveStep_sum hinv hs, ?_, ?_, ?_⟩
      · intro x hx hn
        rw [hcl]
        by_cases e1 : x = r.i
        · simp [e1]
        · by_cases e2 : x = r.j
          · simp [e2]
          · have : x ∈ Dict.keys L1 := (hkey1 x).mpr (Or.inr ⟨hx, e1, e2⟩)
            exact List.mem_cons_of_mem _ (List.mem_cons_of_mem _ (g3 x this hn))
      · intro x hx
        rcases g4 x hx with h1 | h1
        · rcases (hkey1 x).mp h1 with e | e
          · exact Or.inr (by simp only [List.length_cons]; omega)
          · exact Or.inl e.1
        · exact Or.inr (by simp only [List.length_cons]; omega)
      · intro c hc
        rw [hcl] at hc
        rcases List.mem_cons.mp hc with e | hc
        · subst e; exact Or.inl (Dict.get?_some_key_mem hi)
        · rcases List.mem_cons.mp hc with e | hc
          · subst e; exact Or.inl (Dict.get?_some_key_mem hj)
          · rcases g5 c hc with h1 | h1
            · rcases (hkey1 c).mp h1 with e | e
              · exact Or.inr (by simp only [List.length_cons]; omega)
              · exact Or.inl e.1
            · exact Or.inr (by simp only [List.length_cons]; omega)

end SkNet.Dendro
