/-
Predictions, probabilities and the neighbour sampler: arg-max is a first maximiser, soft-max rows and the rows of
`predict_proba` sum to 1, a sampled row is a sublist of the stored row of size `min(deg, sample_size)`.
-/
import SkNet.Lemmas.GnnForward

namespace SkNet.Gnn
open SkNet Mat Finset

/-! ### soft-max rows -/

theorem sumExp_pos (c : Nat) (hc : 0 < c) (s : Nat → ℝ) : 0 < ∑ l ∈ range c, Real.exp (s l) :=
  Finset.sum_pos (fun _ _ => Real.exp_pos _) ⟨0, mem_range.mpr hc⟩

/-- **soft-max rows sum to 1** -/
theorem softmaxFn_sum_one (c : Nat) (hc : 0 < c) (s : Nat → ℝ) : ∑ k ∈ range c, Spec.softmaxFn c s k = 1 := by
  unfold Spec.softmaxFn
  simp only [num_exp, sumTo_eq]
  rw [← Finset.sum_div]
  exact div_self (ne_of_gt (sumExp_pos c hc s))

theorem softmaxFn_nonneg (c : Nat) (s : Nat → ℝ) (k : Nat) : 0 ≤ Spec.softmaxFn c s k := by
  unfold Spec.softmaxFn
  simp only [num_exp, sumTo_eq]
  exact div_nonneg (Real.exp_pos _).le (Finset.sum_nonneg fun _ _ => (Real.exp_pos _).le)

theorem sigmoidFn_pos (c : Nat) (s : Nat → ℝ) (k : Nat) : 0 < Spec.actFn .sigmoid c s k := by
  simp only [Spec.actFn, num_exp]
  have : 0 < 1 + Real.exp (-s k) := by positivity
  positivity

theorem sigmoidFn_lt_one (c : Nat) (s : Nat → ℝ) (k : Nat) : Spec.actFn .sigmoid c s k < 1 := by
  simp only [Spec.actFn, num_exp]
  rw [div_lt_one (by positivity)]
  linarith [Real.exp_pos (-s k)]

/-- **`predict_proba` rows are distributions**: `n` rows, `max(c, 2)` columns, non-negative entries, sum 1 -/
theorem predictProba_distribution (loss : LossKind) (n c : Nat) (hc : 0 < c) (e : Nat → Nat → ℝ) (i : Nat) (hi : i < n) :
    (predictProba loss (actOutput (lossAct loss) (mk' n c e))).r = n ∧
    (predictProba loss (actOutput (lossAct loss) (mk' n c e))).c = (if c = 1 then 2 else c) ∧
    (∀ k, 0 ≤ (predictProba loss (actOutput (lossAct loss) (mk' n c e))).get i k) ∧
    ∑ k ∈ range (if c = 1 then 2 else c), (predictProba loss (actOutput (lossAct loss) (mk' n c e))).get i k = 1 := by
  rw [actOutput_mk']
  unfold predictProba
  simp only [mk'_r, mk'_c]
  by_cases h1 : c = 1
  · subst h1
    simp only [if_true, mk'_r, mk'_c, true_and]
    have hO : (mk' n 1 fun i k => Spec.actFn (lossAct loss) 1 (e i) k).get i 0 = Spec.actFn (lossAct loss) 1 (e i) 0 :=
      get_mk'_of_lt _ hi (by decide)
    have hle : Spec.actFn (lossAct loss) 1 (e i) 0 ≤ 1 ∧ 0 ≤ Spec.actFn (lossAct loss) 1 (e i) 0 := by
      cases loss with
      | crossEntropy =>
        have := softmaxFn_sum_one 1 (by decide) (e i)
        simp only [Finset.sum_range_one] at this
        simp only [lossAct, Spec.actFn, this]
        exact ⟨le_refl _, zero_le_one⟩
      | binaryCrossEntropy =>
        exact ⟨(sigmoidFn_lt_one 1 (e i) 0).le, (sigmoidFn_pos 1 (e i) 0).le⟩
    constructor
    · intro k
      rw [get_mk']
      split_ifs with hk hk0
      · rw [hO]; linarith [hle.1]
      · rw [hO]; exact hle.2
      · exact le_refl _
    · rw [Finset.sum_range_succ, Finset.sum_range_one]
      simp [get_mk', hi]
  · simp only [h1, if_false]
    cases loss with
    | crossEntropy =>
      simp only [lossAct, mk'_r, mk'_c, true_and]
      constructor
      · intro k
        rw [get_mk']
        split_ifs
        · exact softmaxFn_nonneg c (e i) k
        · exact le_refl _
      · have : ∀ k ∈ range c, (mk' n c fun i k => Spec.actFn .softmax c (e i) k).get i k = Spec.softmaxFn c (e i) k :=
          fun k hk => get_mk'_of_lt _ hi (mem_range.mp hk)
        rw [Finset.sum_congr rfl this]
        exact softmaxFn_sum_one c hc (e i)
    | binaryCrossEntropy =>
      simp only [lossAct, mk'_r, mk'_c, true_and]
      have hrow : ∀ k, k < c → (mk' n c fun i k => Spec.actFn .sigmoid c (e i) k).get i k = Spec.actFn .sigmoid c (e i) k :=
        fun k hk => get_mk'_of_lt _ hi hk
      have hsum : (sumTo c fun l => (mk' n c fun i k => Spec.actFn .sigmoid c (e i) k).get i l)
          = ∑ l ∈ range c, Spec.actFn .sigmoid c (e i) l := by
        rw [sumTo_eq]
        exact Finset.sum_congr rfl fun l hl => hrow l (mem_range.mp hl)
      have hpos : 0 < ∑ l ∈ range c, Spec.actFn .sigmoid c (e i) l :=
        Finset.sum_pos (fun l _ => sigmoidFn_pos c (e i) l) ⟨0, mem_range.mpr hc⟩
      constructor
      · intro k
        rw [get_mk']
        split_ifs with hk
        · rw [hsum, hrow k hk.2]
          exact div_nonneg (sigmoidFn_pos c (e i) k).le hpos.le
        · exact le_refl _
      · have : ∀ k ∈ range c, (mk' n c fun i k => (mk' n c fun i k => Spec.actFn .sigmoid c (e i) k).get i k /
            sumTo c fun l => (mk' n c fun i k => Spec.actFn .sigmoid c (e i) k).get i l).get i k
            = Spec.actFn .sigmoid c (e i) k / ∑ l ∈ range c, Spec.actFn .sigmoid c (e i) l := by
          intro k hk
          rw [get_mk'_of_lt _ hi (mem_range.mp hk), hsum, hrow k (mem_range.mp hk)]
        rw [Finset.sum_congr rfl this, ← Finset.sum_div]
        exact div_self (ne_of_gt hpos)

/-! ### arg-max -/

/-- invariant of the arg-max scan after reading the prefix `l` -/
def ArgInv (l : List ℝ) (st : Nat × Nat × ℝ) : Prop :=
  st.2.1 = l.length ∧ st.1 < l.length ∧ st.2.2 = l.getD st.1 0 ∧
  (∀ k, k < l.length → l.getD k 0 ≤ st.2.2) ∧ (∀ k, k < st.1 → l.getD k 0 < st.2.2)

theorem getD_append_left' (l : List ℝ) (y : ℝ) (k : Nat) (hk : k < l.length) : (l ++ [y]).getD k 0 = l.getD k 0 := by
  simp [List.getD_eq_getElem?_getD, List.getElem?_append_left hk]

theorem getD_append_last (l : List ℝ) (y : ℝ) : (l ++ [y]).getD l.length 0 = y := by
  simp [List.getD_eq_getElem?_getD]

theorem argStep_inv (l : List ℝ) (st : Nat × Nat × ℝ) (y : ℝ) (h : ArgInv l st) : ArgInv (l ++ [y]) (argStep st y) := by
  obtain ⟨hpos, hbest, hm, hall, hfirst⟩ := h
  unfold argStep
  simp only [num_lt, decide_eq_true_eq]
  by_cases hlt : st.2.2 < y
  · rw [if_pos hlt]
    refine ⟨by simp [hpos], by simp [hpos], ?_, ?_, ?_⟩
    · simp only [hpos]
      exact (getD_append_last l y).symm
    · intro k hk
      simp only [List.length_append, List.length_cons, List.length_nil] at hk
      rcases Nat.lt_succ_iff_lt_or_eq.mp hk with hk' | hk'
      · rw [getD_append_left' l y k hk']
        exact (lt_of_le_of_lt (hall k hk') hlt).le
      · subst hk'
        rw [getD_append_last]
    · intro k hk
      simp only [hpos] at hk
      rw [getD_append_left' l y k hk]
      exact lt_of_le_of_lt (hall k hk) hlt
  · rw [if_neg hlt]
    refine ⟨by simp [hpos], by simp; omega, ?_, ?_, ?_⟩
    · simp only []
      rw [getD_append_left' l y _ hbest]
      exact hm
    · intro k hk
      simp only [List.length_append, List.length_cons, List.length_nil] at hk
      rcases Nat.lt_succ_iff_lt_or_eq.mp hk with hk' | hk'
      · rw [getD_append_left' l y k hk']
        exact hall k hk'
      · subst hk'
        rw [getD_append_last]
        exact not_lt.mp hlt
    · intro k hk
      rw [getD_append_left' l y k (lt_trans hk hbest)]
      exact hfirst k hk

theorem foldl_argStep_inv (xs : List ℝ) : ∀ (l : List ℝ) (st : Nat × Nat × ℝ), ArgInv l st →
    ArgInv (l ++ xs) (xs.foldl argStep st) := by
  induction xs with
  | nil => intro l st h; simpa using h
  | cons y ys ih =>
    intro l st h
    have := ih (l ++ [y]) (argStep st y) (argStep_inv l st y h)
    simpa [List.append_assoc] using this

/-- **`argmax` returns the first maximiser** of a non-empty row -/
theorem argmax_spec (l : List ℝ) (hl : l ≠ []) :
    argmax l < l.length ∧ (∀ k, k < l.length → l.getD k 0 ≤ l.getD (argmax l) 0) ∧
      (∀ k, k < argmax l → l.getD k 0 < l.getD (argmax l) 0) := by
  cases l with
  | nil => exact absurd rfl hl
  | cons x xs =>
    have h0 : ArgInv [x] (0, 1, x) := ⟨rfl, by simp, by simp, by
      intro k hk
      simp only [List.length_cons, List.length_nil, Nat.lt_one_iff, zero_add] at hk
      subst hk
      simp, by intro k hk; exact absurd hk (Nat.not_lt_zero k)⟩
    have h := foldl_argStep_inv xs [x] (0, 1, x) h0
    simp only [List.singleton_append] at h
    obtain ⟨_, hbest, hm, hall, hfirst⟩ := h
    unfold argmax
    refine ⟨hbest, ?_, ?_⟩
    · intro k hk
      rw [← hm]
      exact hall k hk
    · intro k hk
      rw [← hm]
      exact hfirst k hk

/-- **one label per node, below the output dimension, a (first) maximiser / the 0.5 threshold** -/
theorem computePredictions_spec (n c : Nat) (hc : 0 < c) (o : Nat → Nat → ℝ) :
    ∃ labs, computePredictions (mk' n c o) = .ok labs ∧ labs.length = n ∧
      ∀ i, i < n → Spec.predictionOk c (o i) (labs.getD i 0) = true ∧ labs.getD i 0 < max c 2 := by
  unfold computePredictions
  simp only [mk'_r, mk'_c]
  by_cases h1 : c = 1
  · subst h1
    simp only [if_true]
    refine ⟨_, rfl, by simp, ?_⟩
    intro i hi
    rw [tab_getD, if_pos hi, get_mk'_of_lt o hi (by decide)]
    constructor
    · simp [Spec.predictionOk]
    · split_ifs <;> simp
  · have h0 : c ≠ 0 := Nat.pos_iff_ne_zero.mp hc
    simp only [h1, h0, if_false]
    refine ⟨_, rfl, by simp, ?_⟩
    intro i hi
    rw [tab_getD, if_pos hi, row_mk' n c o i hi]
    have hne : (tab c fun j => o i j) ≠ [] := by
      intro h
      have := congrArg List.length h
      simp at this
      exact h0 this
    obtain ⟨hlt, hall, _⟩ := argmax_spec (tab c fun j => o i j) hne
    simp only [tab_length] at hlt hall
    constructor
    · unfold Spec.predictionOk
      simp only [h1, if_false, Bool.and_eq_true, decide_eq_true_eq, List.all_eq_true, List.mem_range,
        Bool.not_eq_true', num_lt, decide_eq_false_iff_not, not_lt]
      refine ⟨hlt, ?_⟩
      intro k hk
      have := hall k hk
      rw [tab_getD, tab_getD, if_pos hk, if_pos hlt] at this
      exact this
    · exact lt_of_lt_of_le hlt (le_max_left c 2)

/-! ### the neighbour sampler -/

theorem map_getD_range {β : Type} (l : List β) (d : β) : (List.range l.length).map (fun p => l.getD p d) = l := by
  apply List.ext_getElem
  · simp
  · intro i h1 h2
    have hi : i < l.length := by simpa using h1
    simp [List.getD_eq_getElem?_getD, List.getElem?_eq_getElem hi]

theorem getD_mem_of_lt {β : Type} (l : List β) (d : β) (p : Nat) (hp : p < l.length) : l.getD p d ∈ l := by
  rw [List.getD_eq_getElem?_getD, List.getElem?_eq_getElem hp]
  simp

theorem mem_neighbours (nCol : Nat) (row : List (Nat × ℝ)) (j : Nat) :
    j ∈ neighbours nCol row ↔ j < nCol ∧ entrySum row j ≠ 0 := by
  unfold neighbours
  simp only [List.mem_filter, List.mem_range, num_eqb, Bool.not_eq_true', decide_eq_false_iff_not]

theorem neighbours_nodup (nCol : Nat) (row : List (Nat × ℝ)) : (neighbours nCol row).Nodup :=
  List.Nodup.filter _ List.nodup_range

/-- **a sampled row is a sublist of the neighbours of the node** — the columns whose entry in the matrix the container
denotes (duplicates summed) is not zero — **without repetition, of size `min(deg, sample_size)`** where `deg` is the
number of neighbours, whenever `np.random.choice` returned distinct positions below the degree (its contract). -/
theorem sampleRow_spec (nCol : Nat) (row : List (Nat × ℝ)) (ch : List Nat) (k : Nat)
    (hch : choiceOk (neighbours nCol row).length k ch = true) :
    (sampleRow nCol row ch).Sublist (neighbours nCol row) ∧
      (sampleRow nCol row ch).length = min (neighbours nCol row).length k ∧
      (sampleRow nCol row ch).Nodup ∧
      ∀ j ∈ sampleRow nCol row ch, j < nCol ∧ entrySum row j ≠ 0 := by
  unfold choiceOk at hch
  simp only [Bool.and_eq_true, beq_iff_eq, List.all_eq_true, decide_eq_true_eq] at hch
  obtain ⟨⟨hlen, hlt⟩, hnd⟩ := hch
  have hsub : (sampleRow nCol row ch).Sublist (neighbours nCol row) := by
    unfold sampleRow
    simp only []
    conv_rhs => rw [← map_getD_range (neighbours nCol row) 0]
    exact List.Sublist.map _ List.filter_sublist
  refine ⟨hsub, ?_, hsub.nodup (neighbours_nodup nCol row), ?_⟩
  · unfold sampleRow
    simp only []
    rw [List.length_map, ← hlen]
    apply List.Perm.length_eq
    rw [List.perm_ext_iff_of_nodup (List.Nodup.filter _ List.nodup_range) hnd]
    intro a
    simp only [List.mem_filter, List.mem_range, List.contains_iff_mem]
    constructor
    · exact fun h => h.2
    · exact fun h => ⟨hlt a h, h⟩
  · intro j hj
    exact (mem_neighbours nCol row j).mp (hsub.subset hj)

theorem sampleRows_getD (nCol : Nat) (rows : List (List (Nat × ℝ))) (choice : List (List Nat)) (i : Nat)
    (hi : i < rows.length) :
    (sampleRows nCol rows choice).getD i [] = sampleRow nCol (rows.getD i []) (choice.getD i []) := by
  unfold sampleRows
  rw [tab_getD, if_pos hi]

end SkNet.Gnn
