/-
C15 lemmas for the conversion utilities: normalize, get_laplacian, directed2undirected, the bipartite
conversions, get_tfidf, get_membership / from_membership, top_k.
-/
import Mathlib.Algebra.Order.Ring.Abs
import Mathlib.Algebra.Order.Field.Rat
import Mathlib.Tactic.Linarith
import SkNet.Lemmas.LinOp2d
import SkNet.Model.Convert
import SkNet.Spec.Convert

namespace SkNet.LinOp
open SkNet

theorem rabs_eq_abs (x : Rat) : rabs x = |x| := by
  unfold rabs
  split
  · rename_i h; rw [abs_of_neg h]
  · rename_i h; rw [abs_of_nonneg (not_lt.mp h)]

theorem sumTo_nonneg {n : Nat} {f : Nat → Rat} (h : ∀ k, k < n → 0 ≤ f k) : 0 ≤ sumTo n f := by
  induction n with
  | zero => simp
  | succ n ih =>
    rw [sumTo_succ]
    exact add_nonneg (ih (fun k hk => h k (Nat.lt_succ_of_lt hk))) (h n (Nat.lt_succ_self n))

/-- a sum of non-negative terms is zero only if every term is -/
theorem sumTo_eq_zero_iff {n : Nat} {f : Nat → Rat} (h : ∀ k, k < n → 0 ≤ f k) :
    sumTo n f = 0 ↔ ∀ k, k < n → f k = 0 := by
  induction n with
  | zero => simp
  | succ n ih =>
    have h' : ∀ k, k < n → 0 ≤ f k := fun k hk => h k (Nat.lt_succ_of_lt hk)
    rw [sumTo_succ]
    constructor
    · intro hs k hk
      have h1 := sumTo_nonneg h'
      have h2 := h n (Nat.lt_succ_self n)
      have hz1 : sumTo n f = 0 := by linarith
      have hz2 : f n = 0 := by linarith
      rcases Nat.lt_succ_iff_lt_or_eq.mp hk with hk' | rfl
      · exact (ih h').mp hz1 k hk'
      · exact hz2
    · intro hall
      rw [(ih h').mpr (fun k hk => hall k (Nat.lt_succ_of_lt hk)), hall n (Nat.lt_succ_self n)]
      ring

/-- `norms1 a i = Σ_j |a_ij|` -/
theorem vget_norms1 (a : Mat) (i : Nat) : vget (norms1 a) i = sumTo a.nCol (fun j => |a.get i j|) := by
  unfold norms1 Mat.rowSums
  rw [Mat.vget_mulVec, Mat.abs_nCol]
  apply sumTo_congr; intro j hj
  rw [Mat.get_abs, rabs_eq_abs]
  simp [hj]

theorem norms1_nonneg (a : Mat) (i : Nat) : 0 ≤ vget (norms1 a) i := by
  rw [vget_norms1]; exact sumTo_nonneg (fun _ _ => abs_nonneg _)

theorem pinv_nonneg {w : Rat} (h : 0 ≤ w) : 0 ≤ pinv w := by
  unfold pinv
  split
  · exact le_refl 0
  · exact one_div_nonneg.mpr h

theorem pinv_mul_self {w : Rat} (h : w ≠ 0) : pinv w * w = 1 := by
  unfold pinv; simp only [h, if_false]; rw [one_div, inv_mul_cancel₀ h]

theorem get_normalize1 (a : Mat) (i j : Nat) :
    (normalize1 a).get i j = pinv (vget (norms1 a) i) * a.get i j := by
  unfold normalize1
  rw [Mat.get_scaleRows, vget_pinvVec]

/-- **normalize_rows**: after `normalize(matrix, p=1)` every row has 1-norm 1, except the null rows,
which stay null -/
theorem normalize1_row_norm (a : Mat) (i : Nat) :
    vget (norms1 (normalize1 a)) i = if vget (norms1 a) i = 0 then 0 else 1 := by
  rw [vget_norms1]
  show sumTo a.nCol (fun j => |(normalize1 a).get i j|) = _
  have e : ∀ j, |(normalize1 a).get i j| = pinv (vget (norms1 a) i) * |a.get i j| := by
    intro j
    rw [get_normalize1, abs_mul, abs_of_nonneg (pinv_nonneg (norms1_nonneg a i))]
  rw [sumTo_congr (fun j _ => e j), sumTo_mul_left, ← vget_norms1]
  by_cases h : vget (norms1 a) i = 0
  · simp [h]
  · simp only [h, if_false]; exact pinv_mul_self h

theorem normalize1_null_row (a : Mat) (i : Nat) (h : vget (norms1 a) i = 0) (j : Nat) :
    (normalize1 a).get i j = 0 ∧ a.get i j = 0 := by
  rw [get_normalize1, h]
  refine ⟨by simp [pinv], ?_⟩
  by_cases hj : j < a.nCol
  · rw [vget_norms1] at h
    have := (sumTo_eq_zero_iff (fun k _ => abs_nonneg (a.get i k))).mp h j hj
    exact abs_eq_zero.mp this
  · exact Mat.get_of_col_ge i (Nat.le_of_not_lt hj)

/-- rows of the normalised matrix are the rows of the input divided by their 1-norm -/
theorem pinv_mul_pos {k w : Rat} (hk : 0 < k) : pinv (k * w) * k = pinv w := by
  unfold pinv
  by_cases h : w = 0
  · simp [h]
  · have hk' : k ≠ 0 := ne_of_gt hk
    have : k * w ≠ 0 := mul_ne_zero hk' h
    rw [if_neg this, if_neg h, one_div, one_div, mul_inv, mul_comm k⁻¹ w⁻¹, mul_assoc, inv_mul_cancel₀ hk', mul_one]

/-- **`normalize` does not depend on the scale of the weights**: multiplying the matrix by any `k > 0` (1e-9, 1e+12 …)
gives the same normalised matrix — no row is "numerically null" -/
theorem normalize1_smul (a : Mat) (k : Rat) (hk : 0 < k) (i j : Nat) :
    (normalize1 (a.smul k)).get i j = (normalize1 a).get i j := by
  rw [get_normalize1, get_normalize1, vget_norms1, vget_norms1, Mat.smul_nCol]
  have e : (sumTo a.nCol fun j => |(a.smul k).get i j|) = k * sumTo a.nCol fun j => |a.get i j| := by
    rw [← sumTo_mul_left]
    apply sumTo_congr; intro j _
    rw [Mat.get_smul, abs_mul, abs_of_pos hk]
  rw [e, Mat.get_smul, ← mul_assoc, pinv_mul_pos hk]

theorem normalize1_proportional (a : Mat) (i j : Nat) :
    (normalize1 a).get i j * vget (norms1 a) i = a.get i j := by
  by_cases h : vget (norms1 a) i = 0
  · obtain ⟨h1, h2⟩ := normalize1_null_row a i h j
    rw [h1, h2]; ring
  · rw [get_normalize1, mul_comm (pinv _), mul_assoc, pinv_mul_self h]; ring

end SkNet.LinOp

namespace SkNet.Convert
open SkNet SkNet.LinOp

/-! ### get_laplacian, directed2undirected, bipartite conversions, tf-idf -/

theorem getLaplacian_spec {a l : Mat} (h : getLaplacian a = .ok l) :
    a.nRow = a.nCol ∧ l.nRow = a.nRow ∧ l.nCol = a.nRow ∧
    (∀ i j, i < a.nRow → j < a.nRow → l.get i j = (if i = j then vget a.rowSums i else 0) - a.get i j) ∧
    (∀ i, i < a.nRow → sumTo a.nRow (fun j => l.get i j) = 0) := by
  unfold getLaplacian at h
  split at h
  · cases h
  · rename_i hsq
    have hsq' : a.nRow = a.nCol := not_not.mp hsq
    cases h
    have hw : a.mulVec (ones a.nRow) = a.rowSums := by unfold Mat.rowSums; rw [hsq']
    have hget : ∀ i j, i < a.nRow → j < a.nRow →
        ((Mat.diag a.nRow (a.mulVec (ones a.nRow))).sub a).get i j
          = (if i = j then vget a.rowSums i else 0) - a.get i j := by
      intro i j hi hj
      rw [Mat.get_sub (by simp) (by simp [hsq']), Mat.get_diag, hw]
      by_cases e : i = j
      · subst e; simp only [hi, and_self, if_true]
      · simp only [e, and_false, if_false]
    refine ⟨hsq', rfl, rfl, hget, fun i hi => ?_⟩
    rw [sumTo_congr (fun j hj => hget i j hi hj), sumTo_sub, sumTo_ite_eq', if_pos hi]
    unfold Mat.rowSums
    rw [Mat.vget_mulVec, ← hsq']
    have : sumTo a.nRow (fun j => a.get i j * vget (ones a.nRow) j) = sumTo a.nRow (fun j => a.get i j) :=
      sumTo_congr (fun j hj => by simp [hj])
    rw [this]; ring

theorem rmax_pos (x y : Rat) : 0 < rmax x y ↔ (0 < x ∨ 0 < y) := by
  unfold rmax
  split
  · rename_i h
    constructor
    · intro hy; exact Or.inr hy
    · rintro (hx | hy)
      · linarith
      · exact hy
  · rename_i h
    have h' : y ≤ x := not_lt.mp h
    constructor
    · intro hx; exact Or.inl hx
    · rintro (hx | hy)
      · exact hx
      · linarith

theorem directed2undirected_spec {a m : Mat} {weighted : Bool} (h : directed2undirected a weighted = .ok m) :
    a.nRow = a.nCol ∧ m.nRow = a.nRow ∧ m.nCol = a.nCol ∧
    (∀ i j, i < a.nRow → j < a.nRow →
      m.get i j = if weighted then a.get i j + a.get j i else (if 0 < a.get i j ∨ 0 < a.get j i then 1 else 0)) ∧
    (∀ i j, m.get i j = m.get j i) := by
  unfold directed2undirected at h
  split at h
  · cases h
  · rename_i hsq
    have hsq' : a.nRow = a.nCol := not_not.mp hsq
    cases weighted with
    | true =>
      simp only [if_true] at h
      cases h
      have hg : ∀ i j, (a.add a.transpose).get i j = a.get i j + a.get j i := by
        intro i j
        rw [Mat.get_add (by simpa using hsq') (by simpa using hsq'.symm), Mat.get_transpose]
      exact ⟨hsq', rfl, rfl, fun i j _ _ => by simp [hg], fun i j => by rw [hg, hg]; ring⟩
    | false =>
      simp only [Bool.false_eq_true, if_false] at h
      cases h
      refine ⟨hsq', rfl, rfl, fun i j hi hj => ?_, fun i j => ?_⟩
      · rw [Mat.get_ofFn]; simp [hi, hsq' ▸ hj, rmax_pos]
      · rw [Mat.get_ofFn, Mat.get_ofFn]
        by_cases h1 : i < a.nRow <;> by_cases h2 : j < a.nRow
        · simp [h1, h2, hsq' ▸ h1, hsq' ▸ h2, rmax_pos, or_comm]
        · have : ¬ j < a.nCol := hsq' ▸ h2
          simp [h2, this]
        · have : ¬ i < a.nCol := hsq' ▸ h1
          simp [h1, this]
        · simp [h1, h2]

theorem bipartite2undirected_spec (b : Mat) (i j : Nat) (hi : i < b.nRow + b.nCol) (hj : j < b.nRow + b.nCol) :
    (bipartite2undirected b).get i j =
      if i < b.nRow then (if j < b.nRow then 0 else b.get i (j - b.nRow))
      else (if j < b.nRow then b.get j (i - b.nRow) else 0) := by
  unfold bipartite2undirected
  rw [Mat.get_block]
  simp [hi, hj]

theorem bipartite2directed_spec (b : Mat) (i j : Nat) (hi : i < b.nRow + b.nCol) (hj : j < b.nRow + b.nCol) :
    (bipartite2directed b).get i j = if i < b.nRow ∧ b.nRow ≤ j then b.get i (j - b.nRow) else 0 := by
  unfold bipartite2directed
  rw [Mat.get_block]
  by_cases h1 : i < b.nRow <;> by_cases h2 : j < b.nRow
  · have : ¬ b.nRow ≤ j := by omega
    simp [hi, hj, h1, h2, this]
  · have : b.nRow ≤ j := by omega
    simp [hi, hj, h1, h2, this]
  · simp [hi, hj, h1, h2]
  · simp [hi, hj, h1, h2]

/-- **tfidf_eq_def**: `tf-idf[i, j] = count[i, j] / Σ_k |count[i, k]| · log(N / df_j)` (0 for an empty document or
an unused word), with `logTable[f-1] = log(N / f)` -/
theorem getTfidf_spec (count : Mat) (logTable : List Rat) (i j : Nat) (hi : i < count.nRow) (hj : j < count.nCol) :
    (getTfidf count logTable).get i j
      = pinv (sumTo count.nCol fun k => |count.get i k|) * count.get i j
        * (if 0 < (docFreq count).getD j 0 then logTable.getD ((docFreq count).getD j 0 - 1) 0 else 0) := by
  unfold getTfidf
  rw [Mat.get_ofFn]
  simp only [hi, hj, and_self, if_true, vget_tab, get_normalize1, vget_norms1]

theorem docFreq_spec (count : Mat) (j : Nat) (hj : j < count.nCol) :
    (docFreq count).getD j 0 = ((List.range count.nRow).filter fun i => 0 < count.get i j).length := by
  unfold docFreq
  rw [tab_getD, if_pos hj]

/-! ### get_membership / from_membership -/

theorem toArray_getD {α : Type} (l : List α) (i : Nat) (d : α) : l.toArray.getD i d = l.getD i d := by
  simp [Array.getD, List.getD_eq_getElem?_getD]
  split
  · rename_i h; simp [List.getElem?_eq_getElem h]
  · rename_i h; simp [List.getElem?_eq_none (Nat.le_of_not_lt h)]

theorem assign_clamp (l : List Int) :
    assignMasked (l.map fun x => decide (0 ≤ x)) (l.filter (0 ≤ ·)) = clampLabels l := by
  induction l with
  | nil => rfl
  | cons x xs ih =>
    by_cases h : 0 ≤ x
    · have hx : ¬ x < 0 := not_lt.mpr h
      simp [assignMasked, clampLabels, h, hx] at ih ⊢
      exact ih
    · have hx : x < 0 := not_le.mp h
      simp [assignMasked, clampLabels, h, hx] at ih ⊢
      exact ih

theorem countNonneg_succ (l : List Int) (i : Nat) (hi : i < l.length) :
    countNonneg l (i+1) = countNonneg l i + (if 0 ≤ l.getD i (-1) then 1 else 0) := by
  unfold countNonneg
  rw [List.take_add_one, List.getElem?_eq_getElem hi, List.getD_eq_getElem?_getD, List.getElem?_eq_getElem hi]
  simp only [Option.toList_some, List.filter_append, List.length_append, Option.getD_some]
  by_cases h : 0 ≤ l[i] <;> simp [h]

theorem mask_eq (l : List Int) :
    (tab l.length fun i => decide (0 < countNonneg l (i+1) - countNonneg l i)) = l.map fun x => decide (0 ≤ x) := by
  apply List.ext_getElem (by simp)
  intro i h1 h2
  simp only [tab_length] at h1
  have := tab_getElem? l.length (fun i => decide (0 < countNonneg l (i+1) - countNonneg l i)) i
  rw [if_pos h1, List.getElem?_eq_getElem (by simpa using h1)] at this
  have e := Option.some.inj this
  rw [e, countNonneg_succ l i h1, List.getElem_map, List.getD_eq_getElem?_getD, List.getElem?_eq_getElem h1]
  by_cases h : 0 ≤ l[i] <;> simp [h]

theorem fromMembership_membershipCsr (l : List Int) (m : Int) :
    fromMembership (membershipCsr l m) = .ok (clampLabels l) := by
  unfold fromMembership degrees membershipCsr
  simp only [toArray_getD, tab_getD]
  have hm : (List.map (fun d => decide (0 < d))
      (tab l.length fun i => (if i + 1 < l.length + 1 then countNonneg l (i + 1) else 0)
        - (if i < l.length + 1 then countNonneg l i else 0)))
      = l.map fun x => decide (0 ≤ x) := by
    rw [← mask_eq]
    unfold tab
    rw [List.map_map]
    apply List.map_congr_left
    intro i hi
    have hi' := List.mem_range.mp hi
    simp [hi', Nat.lt_succ_of_lt hi']
  rw [hm]
  have hk : (List.filter id (l.map fun x => decide (0 ≤ x))).length = (l.filter (0 ≤ ·)).length := by
    rw [List.filter_map]; simp [Function.comp_def]
  have hi : (List.map Int.ofNat (List.map Int.toNat (l.filter (0 ≤ ·)))) = l.filter (0 ≤ ·) := by
    rw [List.map_map]
    conv => rhs; rw [← List.map_id (l.filter (0 ≤ ·))]
    apply List.map_congr_left
    intro x hx
    have : 0 ≤ x := by simpa using (List.mem_filter.mp hx).2
    simp [Int.toNat_of_nonneg this]
  simp only [List.size_toArray, List.length_map, hk, ne_eq, not_true_eq_false, if_false, List.toList_toArray]
  rw [hi, assign_clamp]

theorem getMembership_ok {l : List Int} {nl : Option Nat} {c : Csr Rat} (h : getMembership l nl = .ok c) :
    ∃ m : Int, 0 ≤ m ∧ (∀ x ∈ l, 0 ≤ x → x < m) ∧ c = membershipCsr l m := by
  unfold getMembership at h
  obtain ⟨m, _, h⟩ := bind_eq_ok h
  split at h
  · cases h
  · rename_i h1
    split at h
    · cases h
    · rename_i h2
      cases h
      refine ⟨m, not_lt.mp h1, fun x hx h0 => ?_, rfl⟩
      by_contra hc
      apply h2
      apply List.any_eq_true.mpr
      exact ⟨x, List.mem_filter.mpr ⟨hx, by simpa using h0⟩, by simpa using not_lt.mp hc⟩

/-! ### top_k -/

theorem insertDesc_perm (key : Nat → Rat) (i : Nat) (l : List Nat) : (insertDesc key i l).Perm (i :: l) := by
  induction l with
  | nil => exact List.Perm.refl _
  | cons j js ih =>
    unfold insertDesc
    split
    · exact List.Perm.refl _
    · exact (List.Perm.cons j ih).trans (List.Perm.swap i j js)

theorem insertDesc_sorted (key : Nat → Rat) (i : Nat) (l : List Nat)
    (h : l.Pairwise fun a b => key b ≤ key a) : (insertDesc key i l).Pairwise fun a b => key b ≤ key a := by
  induction l with
  | nil => simp [insertDesc]
  | cons j js ih =>
    unfold insertDesc
    have hj := List.pairwise_cons.mp h
    split
    · rename_i hle
      refine List.pairwise_cons.mpr ⟨fun b hb => ?_, h⟩
      rcases List.mem_cons.mp hb with rfl | hb
      · exact hle
      · exact le_trans (hj.1 b hb) hle
    · rename_i hle
      have hlt : key i ≤ key j := le_of_lt (not_le.mp hle)
      refine List.pairwise_cons.mpr ⟨fun b hb => ?_, ih hj.2⟩
      have := (insertDesc_perm key i js).subset hb
      rcases List.mem_cons.mp this with rfl | hb'
      · exact hlt
      · exact hj.1 b hb'

theorem argsortDesc_perm (scores : List Rat) : (argsortDesc scores).Perm (List.range scores.length) := by
  unfold argsortDesc
  generalize List.range scores.length = r
  induction r with
  | nil => exact List.Perm.refl _
  | cons i r ih => exact (insertDesc_perm _ i _).trans (List.Perm.cons i ih)

theorem argsortDesc_sorted (scores : List Rat) :
    (argsortDesc scores).Pairwise fun a b => vget scores b ≤ vget scores a := by
  unfold argsortDesc
  generalize List.range scores.length = r
  induction r with
  | nil => simp
  | cons i r ih => exact insertDesc_sorted _ i _ ih

theorem adjacent_of_pairwise {R : Nat → Nat → Prop} : ∀ (l : List Nat), l.Pairwise R →
    ∀ p ∈ l.zip (l.drop 1), R p.1 p.2
  | [], _, p, hp => by simp at hp
  | [a], _, p, hp => by simp at hp
  | a :: b :: t, h, p, hp => by
    have h' := List.pairwise_cons.mp h
    simp only [List.drop_succ_cons, List.drop_zero, List.zip_cons_cons, List.mem_cons] at hp
    rcases hp with rfl | hp
    · exact h'.1 b (List.mem_cons_self ..)
    · exact adjacent_of_pairwise (b :: t) h'.2 p (by simpa using hp)

/-- the specification of `top_k` as a proposition -/
def TopKProp (scores : List Rat) (k : Nat) (sort : Bool) (out : List Nat) : Prop :=
  out.length = min k scores.length ∧ (∀ i ∈ out, i < scores.length) ∧ out.Nodup ∧
  (∀ i, i < scores.length → i ∈ out ∨ ∀ j ∈ out, vget scores i ≤ vget scores j) ∧
  (sort = true → ∀ p ∈ out.zip (out.drop 1), vget scores p.2 ≤ vget scores p.1)

theorem TopKSpec_iff (scores : List Rat) (k : Nat) (sort : Bool) (out : List Nat) :
    TopKSpec scores k sort out = true ↔ TopKProp scores k sort out := by
  unfold TopKSpec TopKProp
  simp only [Bool.and_eq_true, beq_iff_eq, List.all_eq_true, decide_eq_true_eq, Bool.or_eq_true,
    List.contains_iff_mem, List.mem_range, Bool.not_eq_true', and_assoc]
  constructor
  · rintro ⟨h1, h2, h3, h4, h5⟩
    refine ⟨h1, h2, h3, h4, fun hs p hp => ?_⟩
    rcases h5 with h5 | h5
    · rw [hs] at h5; cases h5
    · exact h5 p hp
  · rintro ⟨h1, h2, h3, h4, h5⟩
    refine ⟨h1, h2, h3, h4, ?_⟩
    cases sort with
    | false => exact Or.inl rfl
    | true => exact Or.inr (h5 rfl)

theorem topK_prop (scores : List Rat) (k : Nat) (sort : Bool) : TopKProp scores k sort (topK scores k sort) := by
  have hperm := argsortDesc_perm scores
  have hsorted := argsortDesc_sorted scores
  have hlen : (argsortDesc scores).length = scores.length := by rw [hperm.length_eq]; simp
  have hmem : ∀ i, i ∈ argsortDesc scores ↔ i < scores.length := fun i => by
    rw [hperm.mem_iff]; exact List.mem_range
  have hnd : (argsortDesc scores).Nodup := hperm.nodup_iff.mpr List.nodup_range
  unfold topK
  by_cases hk : scores.length ≤ k
  · simp only [hk, if_true]
    cases sort with
    | true =>
      simp only [if_true]
      exact ⟨by rw [hlen]; omega, fun i hi => (hmem i).mp hi, hnd, fun i hi => Or.inl ((hmem i).mpr hi),
        fun _ p hp => adjacent_of_pairwise _ hsorted p hp⟩
    | false =>
      simp only [Bool.false_eq_true, if_false]
      exact ⟨by simp; omega, fun i hi => List.mem_range.mp hi, List.nodup_range,
        fun i hi => Or.inl (List.mem_range.mpr hi), fun h => by cases h⟩
  · simp only [hk, if_false]
    have hk' : k < scores.length := not_le.mp hk
    have hsplit : argsortDesc scores = (argsortDesc scores).take k ++ (argsortDesc scores).drop k :=
      (List.take_append_drop k _).symm
    refine ⟨by rw [List.length_take, hlen], fun i hi => (hmem i).mp (List.mem_of_mem_take hi),
      hnd.sublist (List.take_sublist k _), fun i hi => ?_, fun _ p hp => ?_⟩
    · have hi' : i ∈ argsortDesc scores := (hmem i).mpr hi
      rw [hsplit, List.mem_append] at hi'
      rcases hi' with h | h
      · exact Or.inl h
      · right
        intro j hj
        rw [hsplit] at hsorted
        exact (List.pairwise_append.mp hsorted).2.2 j hj i h
    · exact adjacent_of_pairwise _ (hsorted.sublist (List.take_sublist k _)) p hp

theorem topK_spec (scores : List Rat) (k : Nat) (sort : Bool) :
    TopKSpec scores k sort (topK scores k sort) = true :=
  (TopKSpec_iff scores k sort _).mpr (topK_prop scores k sort)

/-! ### the Boolean specifications of the driver hold of the model's outputs -/

theorem rabs_nonneg (x : Rat) : 0 ≤ rabs x := by rw [rabs_eq_abs]; exact abs_nonneg x

theorem close_self {tol scale : Rat} (ht : 0 ≤ tol) (hs : 0 ≤ scale) (a : Rat) : close tol scale a a = true := by
  unfold close
  simp only [sub_self, decide_eq_true_eq]
  have : rabs 0 = 0 := by simp [rabs]
  rw [this]
  exact mul_nonneg ht (by linarith)

theorem close_of_eq {tol scale a b : Rat} (ht : 0 ≤ tol) (hs : 0 ≤ scale) (h : a = b) : close tol scale a b = true := by
  subst h; exact close_self ht hs a

/-- the pseudo-inverse of the model satisfies the specification evaluated on the implementation's output -/
theorem pinvSpec_model (tol : Rat) (ht : 0 ≤ tol) (w : Vec) : PinvSpec tol w (pinvVec w) = true := by
  unfold PinvSpec
  simp only [pinvVec_length, beq_self_eq_true, Bool.true_and, List.all_eq_true, List.mem_range]
  intro i _
  rw [vget_pinvVec]
  by_cases h : vget w i = 0
  · simp [h, pinv]
  · simp only [h, if_false]
    exact close_of_eq ht (le_refl 0) (pinv_mul_self h)

theorem normalizeSpec1_model (tol : Rat) (ht : 0 ≤ tol) (a : Mat) : NormalizeSpec1 tol a (normalize1 a) = true := by
  unfold NormalizeSpec1 rowAll colAll
  have hs : ∀ i, sumTo a.nCol (fun j => rabs (a.get i j)) = vget (norms1 a) i := by
    intro i; rw [vget_norms1]; exact sumTo_congr (fun j _ => rabs_eq_abs _)
  simp only [normalize1, scaleRows, Mat.ofFn_nRow, Mat.ofFn_nCol, beq_self_eq_true, Bool.true_and, List.all_eq_true,
    List.mem_range, hs]
  intro i hi
  have hn := norms1_nonneg a i
  by_cases h : vget (norms1 a) i = 0
  · simp only [h, if_true, List.all_eq_true, List.mem_range]
    intro j hj
    have := (normalize1_null_row a i h j).1
    unfold normalize1 scaleRows at this
    simp [this]
  · simp only [h, if_false, Bool.and_eq_true, List.all_eq_true, List.mem_range]
    refine ⟨?_, fun j hj => ?_⟩
    · apply close_of_eq ht (by norm_num)
      have hr := normalize1_row_norm a i
      rw [if_neg h, vget_norms1] at hr
      rw [← hr]
      have hc : (normalize1 a).nCol = a.nCol := rfl
      rw [hc]
      apply sumTo_congr; intro j _
      rw [rabs_eq_abs]
      unfold normalize1 scaleRows
      rfl
    · apply close_of_eq ht (by linarith)
      have := normalize1_proportional a i j
      unfold normalize1 scaleRows at this
      exact this

end SkNet.Convert
