/-
C15 lemmas for the conversion utilities: normalize, get_laplacian, directed2undirected, the bipartite
conversions, get_tfidf, get_membership / from_membership, top_k.
-/
import Mathlib.Algebra.Order.Ring.Abs
import Mathlib.Algebra.Order.Field.Rat
import SkNet.Lemmas.LinOpExpr
import SkNet.Model.Convert
import SkNet.Spec.Convert

namespace SkNet.LinOp
open SkNet

theorem rabs_eq_abs (x : Rat) : rabs x = |x| := by
  unfold rabs
  split
  · rename_i h; rw [abs_of_neg h]
  · rename_i h; rw [abs_of_nonneg (not_lt.mp h)]

theorem sumTo_nonneg {n : Nat} {f : Nat → Rat} (h : ∀ k, k < n → 0 ≤ f k) : 0 ≤ sumTo n f := by
  induction n with
  | zero => simp
  | succ n ih =>
    rw [sumTo_succ]
    exact add_nonneg (ih (fun k hk => h k (Nat.lt_succ_of_lt hk))) (h n (Nat.lt_succ_self n))

/-- a sum of non-negative terms is zero only if every term is -/
theorem sumTo_eq_zero_iff {n : Nat} {f : Nat → Rat} (h : ∀ k, k < n → 0 ≤ f k) :
    sumTo n f = 0 ↔ ∀ k, k < n → f k = 0 := by
  induction n with
  | zero => simp
  | succ n ih =>
    have h' : ∀ k, k < n → 0 ≤ f k := fun k hk => h k (Nat.lt_succ_of_lt hk)
    rw [sumTo_succ]
    constructor
    · intro hs k hk
      have h1 := sumTo_nonneg h'
      have h2 := h n (Nat.lt_succ_self n)
      have hz1 : sumTo n f = 0 := by linarith
      have hz2 : f n = 0 := by linarith
      rcases Nat.lt_succ_iff_lt_or_eq.mp hk with hk' | rfl
      · exact (ih h').mp hz1 k hk'
      · exact hz2
    · intro hall
      rw [(ih h').mpr (fun k hk => hall k (Nat.lt_succ_of_lt hk)), hall n (Nat.lt_succ_self n)]
      ring

/-- `norms1 a i = Σ_j |a_ij|` -/
theorem vget_norms1 (a : Mat) (i : Nat) : vget (norms1 a) i = sumTo a.nCol (fun j => |a.get i j|) := by
  unfold norms1 Mat.rowSums
  rw [Mat.vget_mulVec, Mat.abs_nCol]
  apply sumTo_congr; intro j hj
  rw [Mat.get_abs, rabs_eq_abs]
  simp [hj]

theorem norms1_nonneg (a : Mat) (i : Nat) : 0 ≤ vget (norms1 a) i := by
  rw [vget_norms1]; exact sumTo_nonneg (fun _ _ => abs_nonneg _)

theorem pinv_nonneg {w : Rat} (h : 0 ≤ w) : 0 ≤ pinv w := by
  unfold pinv
  split
  · exact le_refl 0
  · exact one_div_nonneg.mpr h

theorem pinv_mul_self {w : Rat} (h : w ≠ 0) : pinv w * w = 1 := by
  unfold pinv; simp only [h, if_false]; rw [one_div, inv_mul_cancel₀ h]

theorem get_normalize1 (a : Mat) (i j : Nat) :
    (normalize1 a).get i j = pinv (vget (norms1 a) i) * a.get i j := by
  unfold normalize1
  rw [Mat.get_scaleRows, vget_pinvVec]

/-- **normalize_rows**: after `normalize(matrix, p=1)` every row has 1-norm 1, except the null rows,
which stay null -/
theorem normalize1_row_norm (a : Mat) (i : Nat) :
    vget (norms1 (normalize1 a)) i = if vget (norms1 a) i = 0 then 0 else 1 := by
  rw [vget_norms1]
  show sumTo a.nCol (fun j => |(normalize1 a).get i j|) = _
  have e : ∀ j, |(normalize1 a).get i j| = pinv (vget (norms1 a) i) * |a.get i j| := by
    intro j
    rw [get_normalize1, abs_mul, abs_of_nonneg (pinv_nonneg (norms1_nonneg a i))]
  rw [sumTo_congr (fun j _ => e j), sumTo_mul_left, ← vget_norms1]
  by_cases h : vget (norms1 a) i = 0
  · simp [h]
  · simp only [h, if_false]; exact pinv_mul_self h

theorem normalize1_null_row (a : Mat) (i : Nat) (h : vget (norms1 a) i = 0) (j : Nat) :
    (normalize1 a).get i j = 0 ∧ a.get i j = 0 := by
  rw [get_normalize1, h]
  refine ⟨by simp [pinv], ?_⟩
  by_cases hj : j < a.nCol
  · rw [vget_norms1] at h
    have := (sumTo_eq_zero_iff (fun k _ => abs_nonneg (a.get i k))).mp h j hj
    exact abs_eq_zero.mp this
  · exact Mat.get_of_col_ge i (Nat.le_of_not_lt hj)

/-- rows of the normalised matrix are the rows of the input divided by their 1-norm -/
theorem normalize1_proportional (a : Mat) (i j : Nat) :
    (normalize1 a).get i j * vget (norms1 a) i = a.get i j := by
  by_cases h : vget (norms1 a) i = 0
  · obtain ⟨h1, h2⟩ := normalize1_null_row a i h j
    rw [h1, h2]; ring
  · rw [get_normalize1, mul_comm (pinv _), mul_assoc, pinv_mul_self h]; ring

end SkNet.LinOp

namespace SkNet.Convert
open SkNet SkNet.LinOp

/-! ### get_laplacian, directed2undirected, bipartite conversions, tf-idf -/

theorem getLaplacian_spec {a l : Mat} (h : getLaplacian a = .ok l) :
    a.nRow = a.nCol ∧ l.nRow = a.nRow ∧ l.nCol = a.nRow ∧
    (∀ i j, i < a.nRow → j < a.nRow → l.get i j = (if i = j then vget a.rowSums i else 0) - a.get i j) ∧
    (∀ i, i < a.nRow → sumTo a.nRow (fun j => l.get i j) = 0) := by
  unfold getLaplacian at h
  split at h
  · cases h
  · rename_i hsq
    have hsq' : a.nRow = a.nCol := not_not.mp hsq
    cases h
    have hw : a.mulVec (ones a.nRow) = a.rowSums := by unfold Mat.rowSums; rw [hsq']
    have hget : ∀ i j, i < a.nRow → j < a.nRow →
        ((Mat.diag a.nRow (a.mulVec (ones a.nRow))).sub a).get i j
          = (if i = j then vget a.rowSums i else 0) - a.get i j := by
      intro i j hi hj
      rw [Mat.get_sub (by simp) (by simp [hsq']), Mat.get_diag, hw]
      by_cases e : i = j
      · subst e; simp only [hi, and_self, if_true]
      · simp only [e, and_false, if_false]
    refine ⟨hsq', rfl, rfl, hget, fun i hi => ?_⟩
    rw [sumTo_congr (fun j hj => hget i j hi hj), sumTo_sub, sumTo_ite_eq', if_pos hi]
    unfold Mat.rowSums
    rw [Mat.vget_mulVec, ← hsq']
    have : sumTo a.nRow (fun j => a.get i j * vget (ones a.nRow) j) = sumTo a.nRow (fun j => a.get i j) :=
      sumTo_congr (fun j hj => by simp [hj])
    rw [this]; ring

theorem directed2undirected_spec {a m : Mat} {weighted : Bool} (h : directed2undirected a weighted = .ok m) :
    a.nRow = a.nCol ∧ m.nRow = a.nRow ∧ m.nCol = a.nCol ∧
    (∀ i j, i < a.nRow → j < a.nRow →
      m.get i j = if weighted then a.get i j + a.get j i else (if a.get i j + a.get j i ≠ 0 then 1 else 0)) ∧
    (∀ i j, m.get i j = m.get j i) := by
  unfold directed2undirected at h
  split at h
  · cases h
  · rename_i hsq
    have hsq' : a.nRow = a.nCol := not_not.mp hsq
    cases weighted with
    | true =>
      simp only [if_true] at h
      cases h
      have hg : ∀ i j, (a.add a.transpose).get i j = a.get i j + a.get j i := by
        intro i j
        rw [Mat.get_add (by simpa using hsq') (by simpa using hsq'.symm), Mat.get_transpose]
      exact ⟨hsq', rfl, rfl, fun i j _ _ => by simp [hg], fun i j => by rw [hg, hg]; ring⟩
    | false =>
      simp only [Bool.false_eq_true, if_false] at h
      cases h
      refine ⟨hsq', rfl, rfl, fun i j hi hj => ?_, fun i j => ?_⟩
      · rw [Mat.get_ofFn]; simp [hi, hsq' ▸ hj]
      · rw [Mat.get_ofFn, Mat.get_ofFn]
        by_cases h1 : i < a.nRow <;> by_cases h2 : j < a.nRow
        · simp [h1, h2, hsq' ▸ h1, hsq' ▸ h2, add_comm]
        · have : ¬ j < a.nCol := hsq' ▸ h2
          simp [h2, this]
        · have : ¬ i < a.nCol := hsq' ▸ h1
          simp [h1, this]
        · simp [h1, h2]

theorem bipartite2undirected_spec (b : Mat) (i j : Nat) (hi : i < b.nRow + b.nCol) (hj : j < b.nRow + b.nCol) :
    (bipartite2undirected b).get i j =
      if i < b.nRow then (if j < b.nRow then 0 else b.get i (j - b.nRow))
      else (if j < b.nRow then b.get j (i - b.nRow) else 0) := by
  unfold bipartite2undirected
  rw [Mat.get_block]
  simp [hi, hj]

theorem bipartite2directed_spec (b : Mat) (i j : Nat) (hi : i < b.nRow + b.nCol) (hj : j < b.nRow + b.nCol) :
    (bipartite2directed b).get i j = if i < b.nRow ∧ b.nRow ≤ j then b.get i (j - b.nRow) else 0 := by
  unfold bipartite2directed
  rw [Mat.get_block]
  by_cases h1 : i < b.nRow <;> by_cases h2 : j < b.nRow
  · have : ¬ b.nRow ≤ j := by omega
    simp [hi, hj, h1, h2, this]
  · have : b.nRow ≤ j := by omega
    simp [hi, hj, h1, h2, this]
  · simp [hi, hj, h1, h2]
  · simp [hi, hj, h1, h2]

/-- **tfidf_eq_def**: `tf-idf[i, j] = count[i, j] / Σ_k |count[i, k]| · log(N / df_j)` (0 for an empty document or
an unused word), with `logTable[f-1] = log(N / f)` -/
theorem getTfidf_spec (count : Mat) (logTable : List Rat) (i j : Nat) (hi : i < count.nRow) (hj : j < count.nCol) :
    (getTfidf count logTable).get i j
      = pinv (sumTo count.nCol fun k => |count.get i k|) * count.get i j
        * (if 0 < (docFreq count).getD j 0 then logTable.getD ((docFreq count).getD j 0 - 1) 0 else 0) := by
  unfold getTfidf
  rw [Mat.get_ofFn]
  simp only [hi, hj, and_self, if_true, vget_tab, get_normalize1, vget_norms1]

theorem docFreq_spec (count : Mat) (j : Nat) (hj : j < count.nCol) :
    (docFreq count).getD j 0 = ((List.range count.nRow).filter fun i => 0 < count.get i j).length := by
  unfold docFreq
  rw [tab_getD, if_pos hj]

end SkNet.Convert
