/- The live set of `ValidDendro` as a function of the rows replayed so far (`liveAfter`), so that validity can be
   established row by row for the dendrograms that the algorithms build incrementally (C07). -/
import SkNet.Spec.Dendro
import SkNet.Lemmas.Dict

set_option linter.unusedSimpArgs false

namespace SkNet.Dendro
variable {α : Type}

/-- one row of `validLoop` -/
def liveStep (n t : Nat) (r : Row α) (live : Dict Nat) : Option (Dict Nat) :=
  match live.get? r.i, live.get? r.j with
  | some si, some sj =>
    if r.i != r.j && r.s == si + sj then some (((live.erase r.i).erase r.j).set (n + t) r.s) else none
  | _, _ => none

def liveAfter (n : Nat) : Nat → List (Row α) → Dict Nat → Option (Dict Nat)
  | _, [], live => some live
  | t, r :: rs, live => (liveStep n t r live).bind (liveAfter n (t + 1) rs)

theorem validLoop_eq_isSome (n : Nat) : ∀ (rs : List (Row α)) (t : Nat) (live : Dict Nat),
    validLoop n t rs live = (liveAfter n t rs live).isSome := by
  intro rs
  induction rs with
  | nil => intro t live; rfl
  | cons r rs ih =>
    intro t live
    unfold validLoop liveAfter liveStep
    cases hi : live.get? r.i with
    | none => simp
    | some si =>
      cases hj : live.get? r.j with
      | none => simp
      | some sj =>
        simp only
        by_cases hc : (r.i != r.j && r.s == si + sj) = true
        · simp only [hc, if_true, Option.bind_some]
          rw [← ih]
          simp only [Bool.and_eq_true] at hc
          simp [hc.1, hc.2]
        · simp only [hc, if_false, Option.bind_none, Option.isSome_none]
          simp only [Bool.and_eq_true, not_and] at hc
          by_cases h1 : (r.i != r.j) = true
          · have := hc h1
            simp [h1, this]
          · simp [h1]

theorem liveAfter_append (n : Nat) : ∀ (a b : List (Row α)) (t : Nat) (live : Dict Nat),
    liveAfter n t (a ++ b) live = (liveAfter n t a live).bind (liveAfter n (t + a.length) b) := by
  intro a
  induction a with
  | nil => intro b t live; simp [liveAfter]
  | cons r rs ih =>
    intro b t live
    simp only [List.cons_append, liveAfter, List.length_cons]
    cases liveStep n t r live with
    | none => simp
    | some l =>
      simp only [Option.bind_some]
      rw [ih]
      have : t + 1 + rs.length = t + (rs.length + 1) := by omega
      rw [this]

/-- distinct keys, all created so far -/
structure LInv (n t : Nat) (live : Dict Nat) : Prop where
  nodup : (Dict.keys live).Nodup
  bound : ∀ k ∈ Dict.keys live, k < n + t

theorem linv_init (w : List Nat) : LInv w.length 0 (liveInit w) where
  nodup := by
    simp only [liveInit, Dict.keys, List.map_map, Function.comp_def]
    simpa using List.nodup_range
  bound := by
    intro k hk
    simp only [liveInit, Dict.keys, List.map_map, Function.comp_def, List.map_id', List.mem_range] at hk
    simpa using hk

/-- what one valid row does to the live set -/
theorem liveStep_spec {n t : Nat} {r : Row α} {live live' : Dict Nat} (hinv : LInv n t live)
    (h : liveStep n t r live = some live') :
    ∃ si sj, live.get? r.i = some si ∧ live.get? r.j = some sj ∧ r.i ≠ r.j ∧ r.s = si + sj ∧
      LInv n (t + 1) live' ∧ live'.length + 1 = live.length ∧
      ∀ x, live'.get? x = if x = n + t then some r.s else if x = r.j then none else if x = r.i then none
        else live.get? x := by
  unfold liveStep at h
  cases hi : live.get? r.i with
  | none => simp [hi] at h
  | some si =>
    cases hj : live.get? r.j with
    | none => simp [hi, hj] at h
    | some sj =>
      simp only [hi, hj] at h
      split at h
      · rename_i hc
        simp only [Bool.and_eq_true, bne_iff_ne, ne_eq, beq_iff_eq] at hc
        simp only [Option.some.injEq] at h
        subst h
        have hbi := hinv.bound _ (Dict.get?_some_key_mem hi)
        have hfresh : n + t ∉ Dict.keys ((live.erase r.i).erase r.j) := by
          intro hm
          have h1 := (Dict.mem_keys_erase.mp hm).1
          have h2 := (Dict.mem_keys_erase.mp h1).1
          have := hinv.bound _ h2
          omega
        have hset := Dict.set_of_not_mem hfresh r.s
        refine ⟨si, sj, rfl, rfl, hc.1, hc.2, ⟨?_, ?_⟩, ?_, ?_⟩
        · rw [hset]
          simp only [Dict.keys, List.map_append, List.map_cons, List.map_nil]
          refine List.nodup_append.mpr ⟨Dict.nodup_keys_erase (Dict.nodup_keys_erase hinv.nodup _) _, by simp, ?_⟩
          intro a ha b hb
          simp only [List.mem_cons, List.not_mem_nil, or_false] at hb
          subst hb
          intro e; subst e; exact hfresh ha
        · intro k hk
          rw [hset] at hk
          simp only [Dict.keys, List.map_append, List.map_cons, List.map_nil, List.mem_append, List.mem_cons,
            List.not_mem_nil, or_false] at hk
          rcases hk with hk | hk
          · have h1 := (Dict.mem_keys_erase.mp hk).1
            have h2 := (Dict.mem_keys_erase.mp h1).1
            have := hinv.bound _ h2
            omega
          · omega
        · rw [hset]
          have h1 := Dict.length_erase_of_mem hinv.nodup (Dict.get?_some_key_mem hi)
          have hj' : (live.erase r.i).get? r.j = some sj := by
            rw [Dict.get?_erase]; simp [Ne.symm hc.1, hj]
          have h2 := Dict.length_erase_of_mem (Dict.nodup_keys_erase hinv.nodup r.i) (Dict.get?_some_key_mem hj')
          simp only [List.length_append, List.length_cons, List.length_nil]
          omega
        · intro x
          rw [Dict.get?_set, Dict.get?_erase, Dict.get?_erase]
      · cases h

/-- replaying valid rows keeps the invariant and loses one live cluster per row -/
theorem liveAfter_linv {n : Nat} : ∀ (rs : List (Row α)) (t : Nat) (live live' : Dict Nat),
    LInv n t live → liveAfter n t rs live = some live' →
    LInv n (t + rs.length) live' ∧ live'.length + rs.length = live.length := by
  intro rs
  induction rs with
  | nil =>
    intro t live live' hinv h
    simp only [liveAfter, Option.some.injEq] at h
    subst h; exact ⟨by simpa using hinv, by simp⟩
  | cons r rs ih =>
    intro t live live' hinv h
    simp only [liveAfter] at h
    cases hs : liveStep n t r live with
    | none => simp [hs] at h
    | some l =>
      simp only [hs, Option.bind_some] at h
      obtain ⟨_, _, _, _, _, _, hl, hlen, _⟩ := liveStep_spec hinv hs
      obtain ⟨h1, h2⟩ := ih (t + 1) l live' hl h
      refine ⟨?_, ?_⟩
      · have : t + (r :: rs).length = t + 1 + rs.length := by simp; omega
        rw [this]; exact h1
      · simp only [List.length_cons]; omega


theorem liveStep_ok {n t : Nat} {r : Row α} {live : Dict Nat} {si sj : Nat}
    (hi : live.get? r.i = some si) (hj : live.get? r.j = some sj) (hne : r.i ≠ r.j) (hs : r.s = si + sj) :
    liveStep n t r live = some (((live.erase r.i).erase r.j).set (n + t) r.s) := by
  unfold liveStep
  simp [hi, hj, hne, hs]

end SkNet.Dendro
