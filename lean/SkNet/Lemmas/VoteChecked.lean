/-
The repaired vote kernel stays within its buffers: on a well-formed CSR matrix whose columns are nodes, with the
update index below the number of nodes, the bounds-checked kernel `Checked.voteUpdate?` never fails and
computes exactly `voteUpdate`.
-/
import SkNet.Lemmas.VoteFixed

namespace SkNet.Vote
open SkNet.Vote.Checked

attribute [-simp] List.getD_eq_getElem?_getD

/-! ### option folds that never fail -/

theorem mapM_some {α β : Type} (f : α → Option β) (g : α → β) (l : List α) (h : ∀ x ∈ l, f x = some (g x)) :
    l.mapM f = some (l.map g) := by
  induction l with
  | nil => rfl
  | cons x xs ih =>
    rw [List.mapM_cons, h x (List.mem_cons_self ..), ih (fun y hy => h y (List.mem_cons_of_mem _ hy))]
    rfl

theorem foldlM_some {α β : Type} (f? : β → α → Option β) (f : β → α → β) (P : β → Prop) (l : List α) (b : β)
    (hP : P b) (hstep : ∀ b x, x ∈ l → P b → f? b x = some (f b x) ∧ P (f b x)) :
    l.foldlM f? b = some (l.foldl f b) := by
  induction l generalizing b with
  | nil => rfl
  | cons x xs ih =>
    obtain ⟨h1, h2⟩ := hstep b x (List.mem_cons_self ..) hP
    rw [List.foldlM_cons, h1]
    simp only [Option.bind_eq_bind, Option.bind_some, List.foldl_cons]
    exact ih _ h2 (fun b y hy hb => hstep b y (List.mem_cons_of_mem _ hy) hb)

/-! ### what scipy guarantees of a CSR matrix -/

structure WFacts (c : Csr Rat) : Prop where
  ptr_size : c.indptr.size = c.nRow + 1
  ptr_last : c.indptr.getD c.nRow 0 = c.indices.size
  data_size : c.indices.size = c.data.size
  mono : ∀ i, i < c.nRow → c.indptr.getD i 0 ≤ c.indptr.getD (i+1) 0
  cols : ∀ p, p < c.indices.size → c.indices.getD p 0 < c.nCol

theorem wfacts_of_WF (c : Csr Rat) (h : c.WF = true) : WFacts c := by
  unfold Csr.WF at h
  simp only [Bool.and_eq_true, beq_iff_eq, List.all_eq_true, List.mem_range, decide_eq_true_eq,
    Array.all_eq_true] at h
  obtain ⟨⟨⟨⟨⟨h1, _⟩, h3⟩, h4⟩, h5⟩, h6⟩ := h
  refine ⟨h1, h3, h4, h5, ?_⟩
  intro p hp
  have := h6 p hp
  simp only [Array.getD, hp, dif_pos]
  simpa using this

theorem ptr_le_last (c : Csr Rat) (w : WFacts c) (i : Nat) (hi : i ≤ c.nRow) :
    c.indptr.getD i 0 ≤ c.indices.size := by
  rw [← w.ptr_last]
  have : ∀ k, i + k ≤ c.nRow → c.indptr.getD i 0 ≤ c.indptr.getD (i + k) 0 := by
    intro k
    induction k with
    | zero => intro _; exact Nat.le_refl _
    | succ k ih =>
      intro hk
      have h1 := ih (by omega)
      have h2 := w.mono (i + k) (by omega)
      have : i + (k + 1) = i + k + 1 := by omega
      rw [this]
      omega
  have := this (c.nRow - i) (by omega)
  have he : i + (c.nRow - i) = c.nRow := by omega
  rw [he] at this
  exact this

theorem array_getElem?_getD {α : Type} (a : Array α) (i : Nat) (d : α) (h : i < a.size) : a[i]? = some (a.getD i d) := by
  simp [Array.getD, h]

/-- the checked first inner loop succeeds and reads what the kernel model reads -/
theorem neigh?_eq (c : Csr Rat) (w : WFacts c) (labels : List Int) (hn : c.nCol ≤ labels.length) (i : Nat)
    (hi : i < c.nRow) : neigh? c labels i = some (neigh c labels i) := by
  unfold neigh?
  have h1 : c.indptr[i]? = some (c.indptr.getD i 0) := array_getElem?_getD _ _ _ (by rw [w.ptr_size]; omega)
  have h2 : c.indptr[i+1]? = some (c.indptr.getD (i+1) 0) := array_getElem?_getD _ _ _ (by rw [w.ptr_size]; omega)
  rw [h1, h2]
  simp only [Option.bind_eq_bind, Option.bind_some]
  have hhi := ptr_le_last c w (i+1) (by omega)
  rw [mapM_some _ (fun d => (labels.getD (c.indices.getD (d + c.indptr.getD i 0) 0) (-1),
      c.data.getD (d + c.indptr.getD i 0) 0))]
  · unfold neigh Csr.rowRange
    simp only [List.map_map]
    rfl
  · intro d hd
    have hd' := List.mem_range.mp hd
    have hp : d + c.indptr.getD i 0 < c.indices.size := by omega
    have hcol := w.cols _ hp
    have hl : c.indices.getD (d + c.indptr.getD i 0) 0 < labels.length := by omega
    rw [array_getElem?_getD _ _ 0 hp, array_getElem?_getD _ _ 0 (by rw [← w.data_size]; exact hp)]
    simp only [Option.bind_some]
    rw [List.getElem?_eq_getElem hl]
    simp only [Option.bind_some, Option.pure_def, Option.some.injEq, Prod.mk.injEq, and_true]
    rw [List.getD_eq_getElem?_getD, List.getElem?_eq_getElem hl]
    rfl

theorem accFold?_eq (ps : List (Int × Rat)) (a : Acc)
    (hb : ∀ p ∈ ps, 0 ≤ p.1 → p.1.toNat < a.votes.length) :
    ps.foldlM accStep? a = some (ps.foldl accStep a) := by
  apply foldlM_some accStep? accStep (fun b => b.votes.length = a.votes.length) ps a rfl
  intro b p hp hlen
  constructor
  · unfold accStep?
    by_cases h0 : 0 ≤ p.1
    · have := hb p hp h0
      simp only [h0, if_true, hlen, this]
    · simp only [h0, if_false]
      unfold accStep
      simp [h0]
  · rw [← hlen]
    unfold accStep
    split <;> simp

theorem selFold?_eq (u : List Int) (s : Sel) (hu : ∀ l ∈ u, 0 ≤ l ∧ l.toNat < s.votes.length) :
    u.foldlM selStep? s = some (u.foldl selStep s) := by
  apply foldlM_some selStep? selStep (fun b => b.votes.length = s.votes.length) u s rfl
  intro b l hl hlen
  constructor
  · unfold selStep?
    have := hu l hl
    rw [hlen, if_pos this]
  · rw [← hlen]
    simp [selStep]

/-- one node: under the sweep invariant the checked update succeeds and equals the model -/
theorem voteNode?_eq (c : Csr Rat) (w : WFacts c) {L0 : List Int} {K n : Nat} (hK : InRange L0 K) (st : St)
    (h : Inv L0 K n st) (hn : c.nCol ≤ n) (i : Nat) (hi : i < c.nRow) (hin : i < n) :
    voteNode? c st i = some (voteNode c st i) := by
  unfold voteNode?
  rw [neigh?_eq c w st.labels (by rw [h.size]; exact hn) i hi]
  simp only [Option.bind_eq_bind, Option.bind_some]
  have hr : InRange st.labels st.votes.length := by
    intro x hx h0
    rw [h.len]
    exact hK x (h.sub x hx) h0
  have hb : ∀ p ∈ neigh c st.labels i, 0 ≤ p.1 → p.1.toNat < st.votes.length := by
    intro p hp h0
    rcases neigh_label c st.labels i p hp with hm | hm
    · omega
    · exact hr _ hm h0
  rw [accFold?_eq _ _ hb]
  simp only [Option.bind_some]
  have hlt : i < st.labels.length := by rw [h.size]; exact hin
  rw [if_pos hlt]
  have hu : ∀ l ∈ ((neigh c st.labels i).foldl accStep ⟨[], st.votes⟩).uniq,
      0 ≤ l ∧ l.toNat < ((neigh c st.labels i).foldl accStep ⟨[], st.votes⟩).votes.length := by
    intro l hl
    have := (accFold_uniq (neigh c st.labels i) ⟨[], st.votes⟩ l).mp hl
    simp only [List.not_mem_nil, false_or] at this
    obtain ⟨h0, wgt, hm⟩ := this
    rw [accFold_length]
    exact ⟨h0, hb _ hm h0⟩
  rw [selFold?_eq _ _ hu]
  rfl

theorem sweep?_eq (c : Csr Rat) (hw : ∀ p, 0 ≤ c.data.getD p 0) (w : WFacts c) {L0 : List Int} {K n : Nat}
    (hK : InRange L0 K) (hn : c.nCol ≤ n) (index : List Nat) (st : St) (h : Inv L0 K n st)
    (hi : ∀ i ∈ index, i < c.nRow ∧ i < n) :
    index.foldlM (voteNode? c) st = some (sweep c st index) := by
  unfold sweep
  apply foldlM_some (voteNode? c) (voteNode c) (Inv L0 K n) index st h
  intro b i hmem hb
  obtain ⟨h1, h2⟩ := hi i hmem
  exact ⟨voteNode?_eq c w hK b hb hn i h1 h2, voteNode_inv c hw hK hb i h2⟩

/-- **the repaired kernel stays within its buffers** and the checked run computes `voteUpdate` -/
theorem voteUpdate?_eq (c : Csr Rat) (hwf : c.WF = true) (hw : ∀ p, 0 ≤ c.data.getD p 0) (labels : List Int)
    (hrow : c.nRow = labels.length) (hcol : c.nCol = labels.length) (index : List Nat)
    (hi : ∀ i ∈ index, i < labels.length) :
    voteUpdate? c labels index = some (voteUpdate c labels index) := by
  unfold voteUpdate? voteUpdate
  rw [sweep?_eq c hw (wfacts_of_WF c hwf) (nLabels_inRange labels) (by omega) index _ (inv_init labels)
    (fun i him => ⟨by rw [hrow]; exact hi i him, hi i him⟩)]
  rfl

end SkNet.Vote
