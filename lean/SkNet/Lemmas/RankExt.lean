/-
The remaining branches and helpers of C04:
  `restartOf_dist`     the restart weights (None / array / dict) become the distribution `w_i / Σ w`
  `bicgstab_close`     solver='bicgstab' under the contract "‖(I − a)x − b‖₁ ≤ ε" of the external solver
  `lanczos_exact`      solver='lanczos' under the contract "x is an eigenvector of the operator for the eigenvalue 1"
  `hitsPost_abs`       HITS post-processing of a sign-definite vector is its absolute value
-/
import SkNet.Lemmas.RankSweep
import SkNet.Lemmas.RankPower

open Finset

namespace SkNet.Rank
open SkNet.RankSpec SkNet.RankL1

/-! ### restart weights -/

theorem probs_getD (n : ℕ) (v : List ℚ) (h : 0 < vsum v) (i : ℕ) (hi : i < n) :
    (probs n v).getD i 0 = v.getD i 0 / v.sum := by
  unfold probs
  rw [if_pos h, normalizeV_getD, if_pos hi]

/-- ★ the restart vector handed to `get_pagerank` is the distribution `w_i / Σ_j w_j` of the user's weights
    (array form; `None` is the array of ones, a dict the array that is `0` off its keys) -/
theorem probs_dist (n : ℕ) (v : List ℚ) (hlen : v.length = n) (h0 : ∀ i, 0 ≤ v.getD i 0) (hpos : 0 < v.sum) :
    (∀ i, i < n → (probs n v).getD i 0 = restartDist n (fun j => v.getD j 0) i) ∧
    (∀ i, 0 ≤ (probs n v).getD i 0) ∧ ∑ i ∈ range n, (probs n v).getD i 0 = 1 := by
  have hs : v.sum = ∑ i ∈ range n, v.getD i 0 := by rw [list_sum_eq, hlen]
  have hv : 0 < vsum v := hpos
  refine ⟨fun i hi => ?_, fun i => ?_, ?_⟩
  · rw [probs_getD n v hv i hi]; unfold restartDist; rw [sumTo_eq, hs]
  · by_cases hi : i < n
    · rw [probs_getD n v hv i hi]; exact div_nonneg (h0 i) (le_of_lt hpos)
    · unfold probs; rw [if_pos hv, normalizeV_getD, if_neg hi]
  · rw [sum_congr rfl fun i hi => probs_getD n v hv i (mem_range.mp hi), ← sum_div, ← hs, div_self (ne_of_gt hpos)]

/-! ### HITS -/

theorem filter_eq_nil_of {α : Type} (p : α → Bool) (l : List α) (h : ∀ x ∈ l, p x = false) : l.filter p = [] := by
  rw [List.filter_eq_nil_iff]
  intro x hx; rw [h x hx]; simp

theorem list_sum_nonpos (l : List ℚ) (h : ∀ y ∈ l, y ≤ 0) : l.sum ≤ 0 := by
  induction l with
  | nil => simp
  | cons a t ih =>
    rw [List.sum_cons]
    have := h a (by simp)
    have := ih fun y hy => h y (by simp [hy])
    linarith

/-- ○ HITS: when the singular vector returned by the solver is sign-definite, the score is its absolute value -/
theorem hitsPost_abs (v : List ℚ) (h : (∀ x ∈ v, 0 ≤ x) ∨ (∀ x ∈ v, x ≤ 0)) : hitsPost v = v.map fun x => |x| := by
  unfold hitsPost
  simp only
  rcases h with h | h
  · have hneg : (v.filter fun x => decide (x < 0)) = [] :=
      filter_eq_nil_of _ _ fun x hx => by simp [h x hx]
    rw [hneg]
    split
    · apply List.map_congr_left; intro x hx
      rw [if_neg (not_lt.mpr (h x hx)), abs_of_nonneg (h x hx)]
    · rename_i hpos
      -- no positive mass either: the vector is null
      have hsum0 : (v.filter fun x => decide (0 < x)).sum ≤ 0 := by
        have := not_lt.mp hpos; simpa using this
      have hz : ∀ x ∈ v, x = 0 := by
        intro x hx
        by_contra hne
        have hxpos : 0 < x := lt_of_le_of_ne (h x hx) (Ne.symm hne)
        have hmem : x ∈ v.filter fun x => decide (0 < x) := List.mem_filter.mpr ⟨hx, by simpa using hxpos⟩
        have hall : ∀ y ∈ v.filter fun x => decide (0 < x), 0 ≤ y := fun y hy => h y (List.mem_filter.mp hy).1
        have := List.single_le_sum hall x hmem
        linarith
      apply List.map_congr_left; intro x hx
      rw [hz x hx]; simp
  · have hpos : (v.filter fun x => decide (0 < x)) = [] :=
      filter_eq_nil_of _ _ fun x hx => by simp [h x hx]
    rw [hpos]
    have hnn : ¬ (0 - (v.filter fun x => decide (x < 0)).sum < ([] : List ℚ).sum) := by
      have hall : ∀ y ∈ v.filter fun x => decide (x < 0), y ≤ 0 := fun y hy => h y (List.mem_filter.mp hy).1
      have : (v.filter fun x => decide (x < 0)).sum ≤ 0 := list_sum_nonpos _ hall
      simp only [List.sum_nil]; linarith
    rw [if_neg hnn]
    apply List.map_congr_left; intro x hx
    have hx0 := h x hx
    rw [if_neg (by linarith), abs_of_nonpos hx0]; ring

/-- the vector with the non-positive entries replaced by 0 -/
def clip0 (v : List ℚ) : List ℚ := v.map fun x => if x < 0 then 0 else x

theorem neg_filter_pos_sum (v : List ℚ) :
    ((v.map fun x => 0 - x).filter fun x => decide (0 < x)).sum = 0 - (v.filter fun x => decide (x < 0)).sum := by
  induction v with
  | nil => simp
  | cons a t ih =>
    rw [List.map_cons, List.filter_cons, List.filter_cons]
    by_cases h : a < 0
    · have h' : 0 < 0 - a := by linarith
      simp only [h, h', decide_true, if_true, List.sum_cons, ih]; ring
    · have h' : ¬ 0 < 0 - a := by linarith
      simp only [h, h', decide_false, Bool.false_eq_true, if_false, ih]

theorem neg_filter_neg_sum (v : List ℚ) :
    ((v.map fun x => 0 - x).filter fun x => decide (x < 0)).sum = 0 - (v.filter fun x => decide (0 < x)).sum := by
  induction v with
  | nil => simp
  | cons a t ih =>
    rw [List.map_cons, List.filter_cons, List.filter_cons]
    by_cases h : 0 < a
    · have h' : 0 - a < 0 := by linarith
      simp only [h, h', decide_true, if_true, List.sum_cons, ih]; ring
    · have h' : ¬ 0 - a < 0 := by linarith
      simp only [h, h', decide_false, Bool.false_eq_true, if_false, ih]

/-- ★ HITS: when the positive entries of the vector `w` carry more mass than the negative ones, the post-processing returns
    `w` clipped at 0 whichever of `w`, `−w` the SVD solver returned -/
theorem hitsPost_sign (w : List ℚ)
    (h : 0 - (w.filter fun x => decide (x < 0)).sum < (w.filter fun x => decide (0 < x)).sum) :
    hitsPost w = clip0 w ∧ hitsPost (w.map fun x => 0 - x) = clip0 w := by
  constructor
  · unfold hitsPost clip0
    simp only
    rw [if_pos h]
  · unfold hitsPost clip0
    simp only
    rw [neg_filter_pos_sum, neg_filter_neg_sum]
    have hn : ¬ (0 - (0 - (w.filter fun x => decide (0 < x)).sum) < 0 - (w.filter fun x => decide (x < 0)).sum) := by
      linarith
    rw [if_neg hn, List.map_map]
    apply List.map_congr_left; intro x _
    simp only [Function.comp]
    have e : 0 - (0 - x) = x := by ring
    rw [e]

/-- clipping a noisy non-negative entry: `|max(u + e, 0) − u| ≤ |e|` for `u ≥ 0` -/
theorem clip_noise (u e : ℚ) (hu : 0 ≤ u) : |(if u + e < 0 then 0 else u + e) - u| ≤ |e| := by
  split
  · rename_i h
    rw [zero_sub, abs_neg, abs_of_nonneg hu]
    have : e < 0 := by linarith
    rw [abs_of_neg this]; linarith
  · have : u + e - u = e := by ring
    rw [this]

/-! ### bicgstab -/

/-- distance between a normalised vector `u` (any signs) and `π` from its distance to a positive multiple `t·π` -/
theorem close_of_scaled_signed {n : ℕ} {π : ℕ → ℚ} (hπ0 : ∀ i, i < n → 0 ≤ π i) (hπ1 : ∑ i ∈ range n, π i = 1)
    (u : ℕ → ℚ) (t : ℚ) (E : ℚ) (hE : ∑ i ∈ range n, |u i - t * π i| ≤ E) (hEt : E < t) :
    ∑ i ∈ range n, |u i / (∑ k ∈ range n, u k) - π i| ≤ 2 * E / (t - E) := by
  set su := ∑ k ∈ range n, u k with hsu
  have hdiff : |su - t| ≤ E := by
    have : su - t = ∑ i ∈ range n, (u i - t * π i) := by rw [sum_sub_distrib, ← mul_sum, hπ1, mul_one]
    rw [this]; exact (abs_sum_le_sum_abs _ _).trans hE
  have hsupos : 0 < su := by have := abs_le.mp hdiff; linarith
  have hsuge : t - E ≤ su := by have := abs_le.mp hdiff; linarith
  have hterm : ∀ i ∈ range n, |u i / su - π i| ≤ |u i - t * π i| / su + π i * (|su - t| / su) := by
    intro i hi
    have e : u i / su - π i = (u i - t * π i) / su + π i * ((t - su) / su) := by
      field_simp; ring
    rw [e]
    refine (abs_add_le _ _).trans ?_
    rw [abs_div, abs_mul, abs_div, abs_of_pos hsupos, abs_of_nonneg (hπ0 i (mem_range.mp hi)), abs_sub_comm t su]
  have hE0 : 0 ≤ E := le_trans (sum_nonneg fun _ _ => abs_nonneg _) hE
  calc ∑ i ∈ range n, |u i / su - π i|
      ≤ ∑ i ∈ range n, (|u i - t * π i| / su + π i * (|su - t| / su)) := sum_le_sum hterm
    _ = (∑ i ∈ range n, |u i - t * π i|) / su + |su - t| / su := by
        rw [sum_add_distrib, ← sum_div, ← sum_mul, hπ1, one_mul]
    _ ≤ E / su + E / su := by
        have h1 := div_le_div_of_nonneg_right hE (le_of_lt hsupos)
        have h2 := div_le_div_of_nonneg_right hdiff (le_of_lt hsupos)
        linarith
    _ = 2 * E / su := by ring
    _ ≤ 2 * E / (t - E) := div_le_div_of_nonneg_left (by linarith) (by linarith) hsuge

/-- ★ `bicgstab_contract` : if the vector `x` returned by the external solver satisfies its contract
    `‖(I − a Pᵀ)x − (1−a)y‖₁ ≤ ε` with `ε < (1−a)²`, the output `x / Σx` of `solver='bicgstab'` is within
    `2ε / ((1−a)² − ε)` (ℓ1) of the PageRank vector -/
theorem bicgstab_close {g : Graph ℚ} (hg : g.Nonneg) (hr : g.InRange) {a : ℚ} (ha : 0 ≤ a) (ha1 : a < 1)
    (y : List ℚ) (_hy0 : ∀ i, 0 ≤ vec y i) (hy1 : ∑ i ∈ range g.n, vec y i = 1)
    {π : ℕ → ℚ} {c : ℚ} (hπ : IsPR g.n (trans g) a (vec y) π c) (x : List ℚ) (hlen : x.length = g.n) (ε : ℚ)
    (hres : ∑ i ∈ range g.n, |bicgstabResidual g a y x i| ≤ ε) (hε : ε < (1 - a) * (1 - a)) :
    ∑ i ∈ range g.n, |(bicgstabBranch g.n x).getD i 0 - π i| ≤ 2 * ε / ((1 - a) * (1 - a) - ε) := by
  have h1a : 0 < 1 - a := by linarith
  have hP := trans_subStoch hg hr
  have hc : 0 < c := lt_of_lt_of_le h1a (hπ.const_ge hP ha hy1)
  have hc1 : c ≤ 1 := hπ.const_le hP ha hy1
  set t := (1 - a) / c with ht
  have htge : 1 - a ≤ t := by
    rw [ht, le_div_iff₀ hc]; nlinarith
  -- (I − aPᵀ)(x − tπ) = residual
  have hd : ∀ i, i < g.n → (fun j => vec x j - t * π j) i - a * PT g.n (trans g) (fun j => vec x j - t * π j) i
      = bicgstabResidual g a y x i := by
    intro i hi
    have e : PT g.n (trans g) (fun j => vec x j - t * π j) i = PT g.n (trans g) (vec x) i - t * PT g.n (trans g) π i := by
      unfold PT
      rw [mul_sum, ← sum_sub_distrib]
      apply sum_congr rfl; intro j _; ring
    unfold bicgstabResidual
    rw [surferA_eq]
    have hb : (surferB g a y).getD i 0 = (1 - a) * vec y i := by unfold surferB vec; rw [tab_getD, if_pos hi]
    rw [hb]
    simp only [e]
    have := hπ.eq i hi
    have hc' : c ≠ 0 := ne_of_gt hc
    show vec x i - t * π i - a * (PT g.n (trans g) (vec x) i - t * PT g.n (trans g) π i) = _
    have htc : t * c = 1 - a := by rw [ht]; field_simp
    have : t * π i = a * (t * PT g.n (trans g) π i) + (1 - a) * vec y i := by
      linear_combination t * this + vec y i * htc
    unfold vec at this ⊢
    linarith
  have hb := resolvent_bound hP ha _ _ hd
  have hE : ∑ i ∈ range g.n, |vec x i - t * π i| ≤ ε / (1 - a) := by
    rw [le_div_iff₀ h1a, mul_comm]
    exact hb.trans hres
  have hEt : ε / (1 - a) < t := by
    have : ε / (1 - a) < 1 - a := by rw [div_lt_iff₀ h1a]; exact hε
    linarith
  have hcl := close_of_scaled_signed hπ.nonneg hπ.sum_one (vec x) t _ hE hEt
  have hout : ∀ i, i < g.n → (bicgstabBranch g.n x).getD i 0 = vec x i / ∑ k ∈ range g.n, vec x k := by
    intro i hi
    unfold bicgstabBranch
    rw [normalizeV_getD, if_pos hi, list_sum_eq, hlen]; rfl
  rw [sum_congr rfl fun i hi => by rw [hout i (mem_range.mp hi)]]
  refine hcl.trans ?_
  have hε0 : 0 ≤ ε := le_trans (sum_nonneg fun _ _ => abs_nonneg _) hres
  have hden : 0 < (1 - a) * (1 - a) - ε := by linarith
  have e2 : 2 * (ε / (1 - a)) / (t - ε / (1 - a)) = 2 * ε / (t * (1 - a) - ε) := by
    have : t - ε / (1 - a) = (t * (1 - a) - ε) / (1 - a) := by field_simp
    rw [this]; field_simp
  rw [e2]
  apply div_le_div_of_nonneg_left (by linarith) hden
  nlinarith

/-! ### lanczos -/

/-- ★ `lanczos_contract` : if the vector `x` returned by the external eigensolver is an eigenvector of the (repaired)
    operator for the eigenvalue 1 with `Σx ≠ 0`, the output `|x| / Σ|x|` of `solver='lanczos'` is the PageRank vector -/
theorem lanczos_exact {g : Graph ℚ} (hg : g.Nonneg) (hr : g.InRange) {a : ℚ} (ha : 0 ≤ a) (ha1 : a < 1)
    (y : List ℚ) (hy0 : ∀ i, 0 ≤ vec y i) (hy1 : ∑ i ∈ range g.n, vec y i = 1)
    {π : ℕ → ℚ} {c : ℚ} (hπ : IsPR g.n (trans g) a (vec y) π c) (x : List ℚ)
    (heig : ∀ i, i < g.n → (surferStep g a y x).getD i 0 = x.getD i 0) (hs : ∑ i ∈ range g.n, vec x i ≠ 0) :
    ∀ i, i < g.n → (lanczosBranch g.n x).getD i 0 = π i := by
  set s := ∑ i ∈ range g.n, vec x i with hsdef
  have h1a : 0 < 1 - a := by linarith
  -- z = x / s is a fixed point of the step with sum 1
  have hz1 : ∑ i ∈ range g.n, (fun j => vec x j / s) i = 1 := by
    show ∑ i ∈ range g.n, vec x i / s = 1
    rw [← sum_div, div_self hs]
  have hzfix : ∀ i, i < g.n → stepF g a (vec y) (fun j => vec x j / s) i = vec x i / s := by
    intro i hi
    have e : (fun j => vec x j / s) = fun j => (1 / s) * vec x j := by funext j; ring
    rw [e, stepF_smul, ← surferStep_getD hg a y x i hi, heig i hi]
    show 1 / s * vec x i = vec x i / s
    ring
  have hcon := stepF_contracts hg hr ha hy0 hy1 (fun j => vec x j / s) π (by rw [hz1, hπ.sum_one])
  have heq : l1 g.n (fun i => stepF g a (vec y) (fun j => vec x j / s) i - stepF g a (vec y) π i)
      = l1 g.n (fun i => vec x i / s - π i) := by
    unfold l1
    apply sum_congr rfl; intro i hi
    show |stepF g a (vec y) (fun j => vec x j / s) i - stepF g a (vec y) π i| = |vec x i / s - π i|
    rw [hzfix i (mem_range.mp hi), stepF_fixed hg hr hy1 hπ i (mem_range.mp hi)]
  rw [heq] at hcon
  have hzero : l1 g.n (fun i => vec x i / s - π i) ≤ 0 := by
    have h0 := l1_nonneg g.n (fun i => vec x i / s - π i)
    by_contra hc
    have := mul_pos h1a (not_le.mp hc)
    nlinarith
  have hzπ : ∀ i, i < g.n → vec x i = s * π i := by
    intro i hi
    have := eq_zero_of_l1_le_zero hzero i hi
    have h2 : vec x i / s = π i := by linarith
    rw [← h2]; field_simp
  -- |x| / Σ|x| = π
  intro i hi
  unfold lanczosBranch
  rw [normalizeV_getD, if_pos hi, tab_getD, if_pos hi, absS_eq]
  have hsum : (tab g.n fun i => absS (x.getD i 0)).sum = |s| := by
    have := vsum_tab g.n (fun i => absS (x.getD i 0))
    unfold vsum at this
    rw [this]
    have e : ∀ i ∈ range g.n, absS (x.getD i 0) = |s| * π i := by
      intro i hi
      rw [absS_eq]
      have := hzπ i (mem_range.mp hi)
      unfold vec at this
      rw [this, abs_mul, abs_of_nonneg (hπ.nonneg i (mem_range.mp hi))]
    rw [sum_congr rfl e, ← mul_sum, hπ.sum_one, mul_one]
  rw [hsum]
  have := hzπ i hi
  unfold vec at this
  rw [this, abs_mul, abs_of_nonneg (hπ.nonneg i hi)]
  have : |s| ≠ 0 := abs_ne_zero.mpr hs
  field_simp

/-- ★ `lanczos_residual` : a vector of sum 1 that the (repaired) operator moves by at most `r` (ℓ1) is within `r/(1−a)` of the
    PageRank vector — the accuracy of `solver='lanczos'` from the residual of what ARPACK returned -/
theorem lanczos_residual {g : Graph ℚ} (hg : g.Nonneg) (hr : g.InRange) {a : ℚ} (ha : 0 ≤ a) (ha1 : a < 1)
    (y : List ℚ) (hy0 : ∀ i, 0 ≤ vec y i) (hy1 : ∑ i ∈ range g.n, vec y i = 1)
    {π : ℕ → ℚ} {c : ℚ} (hπ : IsPR g.n (trans g) a (vec y) π c) (x : List ℚ)
    (hx1 : ∑ i ∈ range g.n, vec x i = 1) (r : ℚ)
    (hres : ∑ i ∈ range g.n, |(surferStep g a y x).getD i 0 - x.getD i 0| ≤ r) :
    ∑ i ∈ range g.n, |x.getD i 0 - π i| ≤ r / (1 - a) := by
  have hmove : l1 g.n (fun i => vec x i - stepF g a (vec y) (vec x) i) ≤ r := by
    unfold l1
    refine le_trans (le_of_eq ?_) hres
    apply sum_congr rfl; intro i hi
    rw [surferStep_getD hg a y x i (mem_range.mp hi), abs_sub_comm]; rfl
  exact close_of_small_move hg hr ha ha1 hy0 hy1 hπ hx1 hmove

/-- what `get_values` makes of a dict: the value of the last item with key `i`, the default elsewhere; an empty dict and a
    key `≥ n` are refused (ValueError, IndexError) -/
theorem getValues_dict (n : ℕ) (d : ℚ) (kv : List (ℕ × ℚ)) (v : List ℚ) (h : getValues n d (.dict kv) = .ok v) :
    kv ≠ [] ∧ (∀ p ∈ kv, p.1 < n) ∧ v.length = n ∧
    ∀ i, i < n → v.getD i 0 = match kv.reverse.find? (fun p => p.1 == i) with
                              | some p => p.2
                              | none => d := by
  unfold getValues at h
  by_cases he : kv.isEmpty
  · simp [he] at h
  · simp only [he, Bool.false_eq_true, if_false] at h
    by_cases hk : kv.all (fun p => decide (p.1 < n))
    · simp only [hk, if_true] at h
      cases h
      refine ⟨fun e => he (by simp [e]), fun p hp => ?_, by simp, fun i hi => by
        rw [tab_getD, if_pos hi]
        cases kv.reverse.find? (fun p => p.1 == i) <;> rfl⟩
      have := List.all_eq_true.mp hk p hp
      simpa using this
    · simp [hk] at h

end SkNet.Rank
