/-
Aggregation preserves the objective: `Q` of a partition `c'` of the aggregate graph equals `Q` of the composed
partition `c' ∘ labels` of the graph that was aggregated.
-/
import Mathlib.Algebra.BigOperators.Group.Finset.Sigma
import SkNet.Lemmas.ModularitySums

namespace SkNet.Modularity
open Finset

/-- **aggregate_preserves_Q (matrix form).**  `A'`, `o'`, `i'` are the block sums of `A`, `o`, `i_` over the
    clusters of `lab` (`MᵀAM`, `Mᵀo`, `Mᵀi`). -/
theorem Q_aggregate (n k : Nat) (A : Nat → Nat → Rat) (o i_ : Nat → Rat) (γ : Rat) (lab : Nat → Nat)
    (hlab : ∀ u, u < n → lab u < k) (c' : Nat → Nat) (A' : Nat → Nat → Rat) (o' i' : Nat → Rat)
    (hA : ∀ a b, a < k → b < k →
      A' a b = ∑ u ∈ range n, ∑ v ∈ range n, if lab u = a ∧ lab v = b then A u v else 0)
    (ho : ∀ a, a < k → o' a = ∑ u ∈ range n, if lab u = a then o u else 0)
    (hi : ∀ b, b < k → i' b = ∑ v ∈ range n, if lab v = b then i_ v else 0) :
    Q k A' o' i' γ c' = Q n A o i_ γ (fun u => c' (lab u)) := by
  rw [Q_eq, Q_eq]
  have hT : ∀ a b, a < k → b < k → A' a b - γ * (o' a * i' b)
      = ∑ u ∈ range n, ∑ v ∈ range n, if lab u = a ∧ lab v = b then A u v - γ * (o u * i_ v) else 0 := by
    intro a b ha hb
    rw [hA a b ha hb, ho a ha, hi b hb, sum_mul_sum, mul_sum, ← sum_sub_distrib]
    refine sum_congr rfl fun u _ => ?_
    rw [mul_sum, ← sum_sub_distrib]
    refine sum_congr rfl fun v _ => ?_
    by_cases h1 : lab u = a <;> by_cases h2 : lab v = b <;> simp [h1, h2]
  calc ∑ a ∈ range k, ∑ b ∈ range k, (if c' a = c' b then A' a b - γ * (o' a * i' b) else 0)
      = ∑ a ∈ range k, ∑ b ∈ range k, ∑ u ∈ range n, ∑ v ∈ range n,
          if c' a = c' b ∧ lab u = a ∧ lab v = b then A u v - γ * (o u * i_ v) else 0 := by
        refine sum_congr rfl fun a ha => sum_congr rfl fun b hb => ?_
        rw [hT a b (mem_range.mp ha) (mem_range.mp hb)]
        by_cases h : c' a = c' b
        · simp [h]
        · simp [h]
    _ = ∑ a ∈ range k, ∑ u ∈ range n, ∑ b ∈ range k, ∑ v ∈ range n,
          if c' a = c' b ∧ lab u = a ∧ lab v = b then A u v - γ * (o u * i_ v) else 0 :=
        sum_congr rfl fun a _ => sum_comm
    _ = ∑ u ∈ range n, ∑ a ∈ range k, ∑ b ∈ range k, ∑ v ∈ range n,
          if c' a = c' b ∧ lab u = a ∧ lab v = b then A u v - γ * (o u * i_ v) else 0 := sum_comm
    _ = ∑ u ∈ range n, ∑ a ∈ range k, ∑ v ∈ range n, ∑ b ∈ range k,
          if c' a = c' b ∧ lab u = a ∧ lab v = b then A u v - γ * (o u * i_ v) else 0 :=
        sum_congr rfl fun u _ => sum_congr rfl fun a _ => sum_comm
    _ = ∑ u ∈ range n, ∑ v ∈ range n, ∑ a ∈ range k, ∑ b ∈ range k,
          if c' a = c' b ∧ lab u = a ∧ lab v = b then A u v - γ * (o u * i_ v) else 0 :=
        sum_congr rfl fun u _ => sum_comm
    _ = ∑ u ∈ range n, ∑ v ∈ range n,
          if c' (lab u) = c' (lab v) then A u v - γ * (o u * i_ v) else 0 := by
        refine sum_congr rfl fun u hu => sum_congr rfl fun v hv => ?_
        rw [sum_eq_single_of_mem (lab u) (mem_range.mpr (hlab u (mem_range.mp hu))),
          sum_eq_single_of_mem (lab v) (mem_range.mpr (hlab v (mem_range.mp hv)))]
        · simp
        · intro b _ hb
          simp [Ne.symm hb]
        · intro a _ ha
          refine sum_eq_zero fun b _ => ?_
          simp [Ne.symm ha]

end SkNet.Modularity
