/-
Definite assignment on the kernel IR (property C17, review M4): a kernel accepted by `da` from the set of its
integer parameters never ends in `Err.uninit` — it never reads a variable before assigning it — for every oracle and
every fuel.  Together with `kinds_sound`: an accepted kernel can only stop in `.ok`, `.done` (a `return`, or a `pick`
from an empty container), `.fuel`, or `.err (.oob s)` at a waived site `s`.
-/
import SkNet.Lemmas.Kinds

namespace SkNet.IR

/-- every variable of `A` has been assigned -/
def Asg (A : List Nat) (σ : State) : Prop := ∀ x ∈ A, σ.vars x ≠ none

/-- nothing that was assigned becomes unassigned -/
def Mono (σ σ' : State) : Prop := ∀ x, σ.vars x ≠ none → σ'.vars x ≠ none

theorem Mono.refl (σ : State) : Mono σ σ := fun _ h => h
theorem Mono.trans {a b c : State} (h1 : Mono a b) (h2 : Mono b c) : Mono a c := fun x h => h2 x (h1 x h)

theorem mono_setVar (σ : State) (x : Nat) (v : Int) : Mono σ (σ.setVar x v) := by
  intro y hy
  simp only [State.setVar]
  split
  · simp
  · exact hy

theorem mono_setArr (σ : State) (a : Nat) (l : List Int) : Mono σ (σ.setArr a l) := fun _ h => h
theorem mono_step (σ : State) : Mono σ σ.step := fun _ h => h

theorem Asg.mono {A : List Nat} {σ σ' : State} (h : Asg A σ) (hm : Mono σ σ') : Asg A σ' :=
  fun x hx => hm x (h x hx)

theorem Asg.cons {A : List Nat} {σ : State} (h : Asg A σ) (x : Nat) (v : Int) : Asg (x :: A) (σ.setVar x v) := by
  intro y hy
  rcases List.mem_cons.mp hy with rfl | hy
  · simp [State.setVar]
  · exact mono_setVar σ x v y (h y hy)

theorem allIn_sub {l A : List Nat} (h : allIn l A = true) : ∀ x ∈ l, x ∈ A := by
  intro x hx
  simp only [allIn, List.all_eq_true] at h
  simpa using h x hx

theorem allIn_append {l1 l2 A : List Nat} (h : allIn (l1 ++ l2) A = true) : allIn l1 A = true ∧ allIn l2 A = true := by
  simp only [allIn, List.all_append, Bool.and_eq_true] at h ⊢
  exact h

/-- an expression whose variables are all assigned does not fail with `uninit` -/
theorem evalE_assigned {A : List Nat} {σ : State} (hA : Asg A σ) :
    ∀ (e : Expr) (x : Nat), allIn e.reads A = true → evalE σ e ≠ .error (.uninit x) := by
  intro e
  induction e with
  | const c => intro x _ h; simp [evalE] at h
  | var y =>
    intro x hr h
    have hy : y ∈ A := allIn_sub hr y (by simp [Expr.reads])
    simp only [evalE] at h
    cases hv : σ.vars y with
    | none => exact hA y hy hv
    | some v => simp [hv] at h
  | dim d => intro x _ h; simp [evalE] at h
  | size a => intro x _ h; simp [evalE] at h
  | load s a i ih =>
    intro x hr h
    simp only [evalE] at h
    cases hi : evalE σ i with
    | error e =>
      simp only [hi, Except.error.injEq] at h
      subst h
      exact ih x hr hi
    | ok v =>
      simp only [hi] at h
      split at h <;> simp at h
  | add a b iha ihb =>
    intro x hr h
    obtain ⟨h1, h2⟩ := allIn_append hr
    simp only [evalE] at h
    cases ha : evalE σ a with
    | error e =>
      simp only [ha, Except.error.injEq] at h
      subst h
      exact iha x h1 ha
    | ok u =>
      cases hb : evalE σ b with
      | error e =>
        simp only [ha, hb, Except.error.injEq] at h
        subst h
        exact ihb x h2 hb
      | ok w => simp [ha, hb] at h
  | sub a b iha ihb =>
    intro x hr h
    obtain ⟨h1, h2⟩ := allIn_append hr
    simp only [evalE] at h
    cases ha : evalE σ a with
    | error e =>
      simp only [ha, Except.error.injEq] at h
      subst h
      exact iha x h1 ha
    | ok u =>
      cases hb : evalE σ b with
      | error e =>
        simp only [ha, hb, Except.error.injEq] at h
        subst h
        exact ihb x h2 hb
      | ok w => simp [ha, hb] at h

theorem cmp2_assigned {A : List Nat} {σ : State} (hA : Asg A σ) {a b : Expr} {f : Int → Int → Bool} {x : Nat}
    (hr : allIn (a.reads ++ b.reads) A = true) : cmp2 σ a b f ≠ .error (.uninit x) := by
  obtain ⟨h1, h2⟩ := allIn_append hr
  intro h
  unfold cmp2 at h
  cases ha : evalE σ a with
  | error e =>
    simp only [ha, Except.error.injEq] at h
    subst h
    exact evalE_assigned hA a x h1 ha
  | ok u =>
    cases hb : evalE σ b with
    | error e =>
      simp only [ha, hb, Except.error.injEq] at h
      subst h
      exact evalE_assigned hA b x h2 hb
    | ok w => simp [ha, hb] at h

theorem evalC_assigned {A : List Nat} {σ : State} (hA : Asg A σ) :
    ∀ (c : Cond) (x : Nat), allIn c.reads A = true → evalC σ c ≠ .error (.uninit x) := by
  intro c
  induction c with
  | lt a b => intro x hr; exact cmp2_assigned hA hr
  | le a b => intro x hr; exact cmp2_assigned hA hr
  | eq a b => intro x hr; exact cmp2_assigned hA hr
  | ne a b => intro x hr; exact cmp2_assigned hA hr
  | nondet k => intro x _ h; simp [evalC] at h
  | acc s a i rest ih =>
    intro x hr h
    obtain ⟨h1, h2⟩ := allIn_append hr
    simp only [evalC] at h
    cases hi : evalE σ i with
    | error e =>
      simp only [hi, Except.error.injEq] at h
      subst h
      exact evalE_assigned hA i x h1 hi
    | ok v =>
      simp only [hi] at h
      split at h
      · exact ih x h2 h
      · simp at h
  | and c d ihc ihd =>
    intro x hr h
    obtain ⟨h1, h2⟩ := allIn_append hr
    simp only [evalC] at h
    cases hc : evalC σ c with
    | error e =>
      simp only [hc, Except.error.injEq] at h
      subst h
      exact ihc x h1 hc
    | ok b =>
      cases b with
      | false => simp [hc] at h
      | true => simp only [hc] at h; exact ihd x h2 h
  | or c d ihc ihd =>
    intro x hr h
    obtain ⟨h1, h2⟩ := allIn_append hr
    simp only [evalC] at h
    cases hc : evalC σ c with
    | error e =>
      simp only [hc, Except.error.injEq] at h
      subst h
      exact ihc x h1 hc
    | ok b =>
      cases b with
      | true => simp [hc] at h
      | false => simp only [hc] at h; exact ihd x h2 h
  | not c ih =>
    intro x hr h
    simp only [evalC] at h
    cases hc : evalC σ c with
    | error e =>
      simp only [hc, Except.error.injEq] at h
      subst h
      exact ih x hr hc
    | ok b => simp [hc] at h

/-- what a result must satisfy for definite assignment -/
def DaGood (σ : State) (post : Option (List Nat)) : Res → Prop
  | .ok σ' => (∃ B, post = some B ∧ Asg B σ') ∧ Mono σ σ'
  | .err (.uninit _) => False
  | _ => True

theorem meetA_asg {p q : Option (List Nat)} {σ : State} {B : List Nat} (h : p = some B ∨ q = some B)
    (hA : Asg B σ) : ∃ C, meetA p q = some C ∧ Asg C σ := by
  cases p with
  | none =>
    cases q with
    | none => rcases h with h | h <;> simp at h
    | some b =>
      rcases h with h | h
      · simp at h
      · simp only [Option.some.injEq] at h
        subst h
        exact ⟨_, rfl, hA⟩
  | some a =>
    cases q with
    | none =>
      rcases h with h | h
      · simp only [Option.some.injEq] at h
        subst h
        exact ⟨_, rfl, hA⟩
      · simp at h
    | some b =>
      refine ⟨_, rfl, ?_⟩
      intro x hx
      simp only [List.mem_filter] at hx
      rcases h with h | h
      · simp only [Option.some.injEq] at h
        subst h
        exact hA x hx.1
      · simp only [Option.some.injEq] at h
        subst h
        exact hA x (by simpa using hx.2)

theorem iter_da (stepf : State → Res) (x : Nat) (A : List Nat)
    (hstep : ∀ σ, Asg (x :: A) σ → ∃ p, DaGood σ p (stepf σ)) :
    ∀ (k : Nat) (cur : Int) (σ : State), Asg A σ → DaGood σ (some A) (iter stepf x k cur σ) := by
  intro k
  induction k with
  | zero => intro cur σ hA; exact ⟨⟨A, rfl, hA⟩, Mono.refl σ⟩
  | succ k ih =>
    intro cur σ hA
    simp only [iter]
    obtain ⟨p, hg⟩ := hstep (σ.setVar x cur) (hA.cons x cur)
    cases hr : stepf (σ.setVar x cur) with
    | ok σ' =>
      rw [hr] at hg
      obtain ⟨_, hm⟩ := hg
      have hm' : Mono σ σ' := (mono_setVar σ x cur).trans hm
      have := ih (cur + 1) σ' (hA.mono hm')
      simp only
      cases hr2 : iter stepf x k (cur + 1) σ' with
      | ok σ'' =>
        rw [hr2] at this
        exact ⟨this.1, hm'.trans this.2⟩
      | err e => rw [hr2] at this; cases e <;> simpa [DaGood] using this
      | done => trivial
      | fuel => trivial
    | err e => rw [hr] at hg; cases e <;> simpa [DaGood] using hg
    | done => trivial
    | fuel => trivial

theorem da_sound : ∀ (fuel : Nat) (s : Stmt) (σ : State) (A : List Nat), (da A s).1 = true → Asg A σ →
    DaGood σ (da A s).2 (exec fuel s σ) := by
  intro fuel
  induction fuel with
  | zero => intro s σ A _ _; simp [exec, DaGood]
  | succ f ih =>
    intro s σ A hd hA
    cases s with
    | skip => exact ⟨⟨A, rfl, hA⟩, Mono.refl σ⟩
    | seq s t =>
      simp only [exec]
      have h1 := ih s σ A
      cases hs : da A s with
      | mk ok1 post1 =>
        simp only [da, hs] at hd ⊢
        cases post1 with
        | none =>
          simp only at hd ⊢
          have g := h1 (by rw [hs]; exact hd) hA
          rw [hs] at g
          cases hr : exec f s σ with
          | ok σ' => rw [hr] at g; obtain ⟨⟨B, hB, _⟩, _⟩ := g; simp at hB
          | err e => rw [hr] at g; cases e <;> simpa [DaGood] using g
          | done => trivial
          | fuel => trivial
        | some B =>
          simp only [Bool.and_eq_true] at hd ⊢
          have g := h1 (by rw [hs]; exact hd.1) hA
          rw [hs] at g
          cases hr : exec f s σ with
          | ok σ' =>
            rw [hr] at g
            obtain ⟨⟨B', hB', hAB⟩, hm⟩ := g
            simp only [Option.some.injEq] at hB'
            subst hB'
            have g2 := ih t σ' B hd.2 hAB
            simp only
            cases hr2 : exec f t σ' with
            | ok σ'' => rw [hr2] at g2; exact ⟨g2.1, hm.trans g2.2⟩
            | err e => rw [hr2] at g2; cases e <;> simpa [DaGood] using g2
            | done => trivial
            | fuel => trivial
          | err e => rw [hr] at g; cases e <;> simpa [DaGood] using g
          | done => trivial
          | fuel => trivial
    | assign x e =>
      simp only [da] at hd ⊢
      simp only [exec]
      cases he : evalE σ e with
      | error er =>
        cases er with
        | oob st => trivial
        | uninit y => exact evalE_assigned hA e y hd he
      | ok v => exact ⟨⟨_, rfl, hA.cons x v⟩, mono_setVar σ x v⟩
    | havoc x =>
      simp only [da, exec]
      exact ⟨⟨_, rfl, (hA.cons x _).mono (mono_step _)⟩, (mono_setVar σ x _).trans (mono_step _)⟩
    | pick x a =>
      simp only [da, exec]
      cases hg : (σ.arrs a)[(σ.orc σ.tick 0).toNat % (σ.arrs a).length]? with
      | none => trivial
      | some v => exact ⟨⟨_, rfl, (hA.cons x v).mono (mono_step _)⟩, (mono_setVar σ x v).trans (mono_step _)⟩
    | store st a i v =>
      simp only [da, Bool.and_eq_true] at hd ⊢
      simp only [exec]
      cases hei : evalE σ i with
      | error er =>
        cases er with
        | oob _ => trivial
        | uninit y => exact evalE_assigned hA i y hd.1 hei
      | ok iv =>
        cases hev : evalE σ v with
        | error er =>
          cases er with
          | oob _ => trivial
          | uninit y => exact evalE_assigned hA v y hd.2 hev
        | ok vv =>
          simp only
          split
          · exact ⟨⟨A, rfl, hA.mono (mono_setArr _ _ _)⟩, mono_setArr _ _ _⟩
          · trivial
    | touch st a i =>
      simp only [da] at hd ⊢
      simp only [exec]
      cases hei : evalE σ i with
      | error er =>
        cases er with
        | oob _ => trivial
        | uninit y => exact evalE_assigned hA i y hd hei
      | ok iv =>
        simp only
        split
        · exact ⟨⟨A, rfl, hA⟩, Mono.refl σ⟩
        · trivial
    | push a v =>
      simp only [da] at hd ⊢
      simp only [exec]
      cases hev : evalE σ v with
      | error er =>
        cases er with
        | oob _ => trivial
        | uninit y => exact evalE_assigned hA v y hd hev
      | ok vv => exact ⟨⟨A, rfl, hA.mono (mono_setArr _ _ _)⟩, mono_setArr _ _ _⟩
    | pop st a =>
      simp only [da, exec]
      split
      · trivial
      · exact ⟨⟨A, rfl, (hA.mono (mono_setArr _ _ _)).mono (mono_step _)⟩, (mono_setArr _ _ _).trans (mono_step _)⟩
    | clear a =>
      simp only [da, exec]
      exact ⟨⟨A, rfl, hA.mono (mono_setArr _ _ _)⟩, mono_setArr _ _ _⟩
    | forRange x lo hi body =>
      simp only [da, Bool.and_eq_true] at hd ⊢
      obtain ⟨⟨hlo, hhi⟩, hbody⟩ := hd
      simp only [exec]
      cases hel : evalE σ lo with
      | error er =>
        cases er with
        | oob _ => trivial
        | uninit y => exact evalE_assigned hA lo y hlo hel
      | ok l =>
        cases heh : evalE σ hi with
        | error er =>
          cases er with
          | oob _ => trivial
          | uninit y => exact evalE_assigned hA hi y hhi heh
        | ok h =>
          exact iter_da (exec f body) x A (fun σ' h' => ⟨_, ih body σ' (x :: A) hbody h'⟩) _ l σ hA
    | «while» c body =>
      simp only [da, Bool.and_eq_true] at hd ⊢
      simp only [exec]
      cases hec : evalC σ c with
      | error er =>
        cases er with
        | oob _ => trivial
        | uninit y => exact evalC_assigned hA c y hd.1 hec
      | ok b =>
        cases b with
        | false => exact ⟨⟨A, rfl, hA.mono (mono_step _)⟩, mono_step _⟩
        | true =>
          simp only
          have g := ih body σ.step A hd.2 (hA.mono (mono_step _))
          cases hr : exec f body σ.step with
          | ok σ' =>
            rw [hr] at g
            have hm : Mono σ σ' := (mono_step σ).trans g.2
            have g2 := ih (.while c body) σ' A (by simp only [da, Bool.and_eq_true]; exact hd) (hA.mono hm)
            simp only [da] at g2
            simp only
            cases hr2 : exec f (.while c body) σ' with
            | ok σ'' => rw [hr2] at g2; exact ⟨g2.1, hm.trans g2.2⟩
            | err e => rw [hr2] at g2; cases e <;> simpa [DaGood] using g2
            | done => trivial
            | fuel => trivial
          | err e => rw [hr] at g; cases e <;> simpa [DaGood] using g
          | done => trivial
          | fuel => trivial
    | ite c s t =>
      simp only [da, Bool.and_eq_true] at hd ⊢
      obtain ⟨⟨hc, hs⟩, ht⟩ := hd
      simp only [exec]
      cases hec : evalC σ c with
      | error er =>
        cases er with
        | oob _ => trivial
        | uninit y => exact evalC_assigned hA c y hc hec
      | ok b =>
        cases b with
        | true =>
          simp only
          have g := ih s σ.step A hs (hA.mono (mono_step _))
          cases hr : exec f s σ.step with
          | ok σ' =>
            rw [hr] at g
            obtain ⟨⟨B, hB, hAB⟩, hm⟩ := g
            exact ⟨meetA_asg (Or.inl hB) hAB, (mono_step σ).trans hm⟩
          | err e => rw [hr] at g; cases e <;> simpa [DaGood] using g
          | done => trivial
          | fuel => trivial
        | false =>
          simp only
          have g := ih t σ.step A ht (hA.mono (mono_step _))
          cases hr : exec f t σ.step with
          | ok σ' =>
            rw [hr] at g
            obtain ⟨⟨B, hB, hAB⟩, hm⟩ := g
            exact ⟨meetA_asg (Or.inr hB) hAB, (mono_step σ).trans hm⟩
          | err e => rw [hr] at g; cases e <;> simpa [DaGood] using g
          | done => trivial
          | fuel => trivial
    | ret => trivial

/-- the inputs give a value to every listed parameter -/
def Inputs.provides (inp : Inputs) (params : List Nat) : Bool :=
  params.all fun x => inp.scalars.any fun p => p.1 == x

theorem Inputs.provides_asg {inp : Inputs} {params : List Nat} (h : inp.provides params = true)
    (orc : Nat → Nat → Int) : Asg params (inp.state orc) := by
  intro x hx
  simp only [Inputs.provides, List.all_eq_true, List.any_eq_true, beq_iff_eq] at h
  obtain ⟨p, hp, hpx⟩ := h x hx
  simp only [Inputs.state]
  cases hf : inp.scalars.find? (fun q => q.1 == x) with
  | none =>
    have := List.find?_eq_none.mp hf p hp
    simp [hpx] at this
  | some q => simp

/-- **No read of an unassigned variable.**  If `da params body` accepts the kernel, then from inputs that give a
    value to every parameter of `params` no execution — any oracle, any fuel — ends in `Err.uninit`. -/
theorem assigned_sound (params : List Nat) (body : Stmt) (h : (da params body).1 = true) (inp : Inputs)
    (hp : inp.provides params = true) (orc : Nat → Nat → Int) (fuel : Nat) (x : Nat) :
    exec fuel body (inp.state orc) ≠ .err (.uninit x) := by
  intro hr
  have := da_sound fuel body (inp.state orc) params h (Inputs.provides_asg hp orc)
  rw [hr] at this
  exact this

end SkNet.IR
