/-
The tie rule of the vote kernel: among the neighbour labels of maximal total vote, the smallest one is written
(`labels_unique` is iterated in ascending order and the comparison is strict).
-/
import SkNet.Lemmas.VoteFixed

namespace SkNet.Vote

attribute [-simp] List.getD_eq_getElem?_getD

theorem selFold_first (u : List Int) (s : Sel) (hs : u.Pairwise (· < ·)) (hu : ∀ x ∈ u, 0 ≤ x) :
    s.best < (u.foldl selStep s).best →
      ∀ l ∈ u, l < (u.foldl selStep s).label → vget s.votes l < (u.foldl selStep s).best := by
  induction u generalizing s with
  | nil => intro h; simp at h
  | cons x xs ih =>
    have hp := List.pairwise_cons.mp hs
    have hnd : (x :: xs).Nodup := sorted_nodup hs
    have hnd' := List.nodup_cons.mp hnd
    have hx := hu x (List.mem_cons_self ..)
    have hxs : ∀ y ∈ xs, 0 ≤ y := fun y hy => hu y (List.mem_cons_of_mem _ hy)
    simp only [List.foldl_cons]
    have hsame : ∀ y ∈ xs, vget (selStep s x).votes y = vget s.votes y := by
      intro y hy
      have hne : x ≠ y := fun h => hnd'.1 (h ▸ hy)
      have : vget (selStep s x).votes y = if x = y ∧ x.toNat < s.votes.length then 0 else vget s.votes y := by
        unfold selStep
        exact vget_set _ _ _ _ hx (hxs y hy)
      rw [this, if_neg (fun h => hne h.1)]
    obtain ⟨_, h2, h3⟩ := selFold_spec xs (selStep s x) hnd'.2 hxs
    have hstep : s.best ≤ (selStep s x).best ∧ vget s.votes x ≤ (selStep s x).best := by
      rw [selStep_best]
      split
      · constructor <;> linarith
      · constructor <;> linarith
    intro hlt l hl hll
    rcases h3 with ⟨hb, hlab⟩ | ⟨hm, _, hlt1⟩
    · -- nothing better among xs: the result is the step on x
      rw [hlab] at hll
      rw [hb] at hlt ⊢
      by_cases hc : s.best < vget s.votes x
      · rw [selStep_label, if_pos hc] at hll
        rcases List.mem_cons.mp hl with rfl | hl
        · omega
        · have := hp.1 l hl
          omega
      · rw [selStep_best, if_neg hc] at hlt
        linarith
    · rcases List.mem_cons.mp hl with rfl | hl
      · linarith [hstep.2]
      · rw [← hsame l hl]
        exact ih (selStep s x) hp.2 hxs hlt1 l hl hll

/-- the label written at a node with a labelled neighbour is the smallest neighbour label of maximal vote -/
theorem voteNode_first (c : Csr Rat) (st : St) (i : Nat) (hclear : Clear st.votes)
    (hr : InRange st.labels st.votes.length) (hw : ∀ p ∈ neigh c st.labels i, 0 ≤ p.2)
    (hex : ∃ p ∈ neigh c st.labels i, 0 ≤ p.1) :
    ∀ p ∈ neigh c st.labels i, 0 ≤ p.1 → p.1 < chosen c st i →
      scoreOf (neigh c st.labels i) p.1 < scoreOf (neigh c st.labels i) (chosen c st i) := by
  set ps := neigh c st.labels i with hps
  have hb : ∀ p ∈ ps, 0 ≤ p.1 → p.1.toNat < st.votes.length := by
    intro p hp h0
    rcases neigh_label c st.labels i p hp with h | h
    · omega
    · exact hr _ h h0
  set a := accumulate ps st.votes with ha
  have hvotes : ∀ l, 0 ≤ l → vget a.votes l = scoreOf ps l := by
    intro l hl
    have := accFold_votes ps ⟨[], st.votes⟩ l hl hb
    rw [ha]
    unfold accumulate
    rw [this, vget_clear hclear]
    simp
  have huniq : ∀ y, y ∈ a.uniq ↔ (0 ≤ y ∧ ∃ w, (y, w) ∈ ps) := by
    intro y
    have := accFold_uniq ps ⟨[], st.votes⟩ y
    rw [ha]
    unfold accumulate
    rw [this]
    simp
  have hsorted : a.uniq.Pairwise (· < ·) := by
    rw [ha]
    unfold accumulate
    exact accFold_sorted ps ⟨[], st.votes⟩ List.Pairwise.nil
  have hnn : ∀ x ∈ a.uniq, 0 ≤ x := fun x hx => ((huniq x).mp hx).1
  have hchosen : chosen c st i = (a.uniq.foldl selStep ⟨st.labels.getD i (-1), -1, a.votes⟩).label := rfl
  obtain ⟨s1, _, s3⟩ := selFold_spec a.uniq ⟨st.labels.getD i (-1), -1, a.votes⟩ (sorted_nodup hsorted) hnn
  obtain ⟨p0, hp0, h00⟩ := hex
  have hm0 : p0.1 ∈ a.uniq := (huniq p0.1).mpr ⟨h00, p0.2, hp0⟩
  have hbest : (-1 : Rat) < (a.uniq.foldl selStep ⟨st.labels.getD i (-1), -1, a.votes⟩).best := by
    have := s1 p0.1 hm0
    simp only at this
    rw [hvotes _ h00] at this
    have := scoreOf_nonneg hw p0.1
    linarith
  have hfirst := selFold_first a.uniq ⟨st.labels.getD i (-1), -1, a.votes⟩ hsorted hnn hbest
  intro p hp h0 hlt
  have hmp : p.1 ∈ a.uniq := (huniq p.1).mpr ⟨h0, p.2, hp⟩
  have h1 := hfirst p.1 hmp (by rw [← hchosen]; exact hlt)
  simp only at h1
  rw [hvotes _ h0] at h1
  rcases s3 with ⟨hb', _⟩ | ⟨hm, hv, _⟩
  · simp only at hb'
    rw [hb'] at hbest
    linarith
  · rw [← hchosen] at hm hv
    simp only at hv
    rw [hvotes _ (hnn _ hm)] at hv
    rw [hv]
    exact h1

/-- the kernel on a single node, in terms of the specification: the written label is unchanged without a
    labelled neighbour, otherwise it is the smallest neighbour label of maximal total vote -/
theorem voteUpdate_single (c : Csr Rat) (hw : ∀ p, 0 ≤ c.data.getD p 0) (labels : List Int) (i : Nat) :
    ∃ r : Int, voteUpdate c labels [i] = labels.set i r ∧
      (Classify.Spec.hasLabelledNeighbour c labels i = false → r = labels.getD i (-1)) ∧
      (Classify.Spec.hasLabelledNeighbour c labels i = true →
        0 ≤ r ∧ (∃ e ∈ c.row i, labels.getD e.1 (-1) = r) ∧
        ∀ e ∈ c.row i, 0 ≤ labels.getD e.1 (-1) →
          Classify.Spec.score c labels i (labels.getD e.1 (-1)) ≤ Classify.Spec.score c labels i r ∧
          (labels.getD e.1 (-1) < r →
            Classify.Spec.score c labels i (labels.getD e.1 (-1)) < Classify.Spec.score c labels i r)) := by
  obtain ⟨st0, hst0⟩ : ∃ st0 : St, st0 = ⟨labels, List.replicate (nLabels labels) 0⟩ := ⟨_, rfl⟩
  have hl0 : st0.labels = labels := by rw [hst0]
  have hclear : Clear st0.votes := by
    rw [hst0]
    exact clear_replicate _
  have hr : InRange st0.labels st0.votes.length := by
    intro x hx h0
    rw [hst0] at hx ⊢
    simp only [List.length_replicate]
    exact nLabels_inRange labels x hx h0
  have hwn : ∀ p ∈ neigh c st0.labels i, 0 ≤ p.2 := by
    rw [hl0]
    exact neigh_weight c labels i hw
  obtain ⟨_, _, h3, h4⟩ := voteNode_spec c st0 i hclear hr hwn
  have hval : voteUpdate c labels [i] = labels.set i (chosen c st0 i) := by
    unfold voteUpdate sweep
    simp only [List.foldl_cons, List.foldl_nil]
    rw [← hst0, voteNode_labels c st0 i, hl0]
  have hfirst := fun hex => voteNode_first c st0 i hclear hr hwn hex
  rw [hl0] at h3 h4 hfirst
  refine ⟨chosen c st0 i, hval, ?_, ?_⟩
  · intro hno
    apply h3
    intro hex
    have := (hasLabelled_iff c labels i).mpr hex
    rw [hno] at this
    cases this
  · intro hyes
    have hex := (hasLabelled_iff c labels i).mp hyes
    obtain ⟨h0, hm, hmax⟩ := h4 hex
    refine ⟨h0, (mem_neigh_iff c labels i _).mp hm, ?_⟩
    intro e he hl0'
    obtain ⟨wgt, hwm⟩ := (mem_neigh_iff c labels i _).mpr ⟨e, he, rfl⟩
    rw [score_eq, score_eq]
    have h5 := hmax (labels.getD e.1 (-1), wgt) hwm hl0'
    have h6 := hfirst hex (labels.getD e.1 (-1), wgt) hwm hl0'
    exact ⟨h5, h6⟩

end SkNet.Vote
