/-
Termination of `Propagation.fit` (property C17), on the model of C13 (`SkNet/Model/Vote.lean`).

The repaired loop is
    while t < n_iter and labels[index_remain].tobytes() not in labels_seen: …
It stops at the first configuration that comes back.  Every configuration is a list of `|index_remain|`
labels drawn from the initial labels (a sweep never invents a label: `voteUpdate_subset`), so there are at
most `|labels|^|index_remain|` of them and the loop body runs at most that many times — whatever `n_iter`,
in particular for the default `n_iter = -1` (unbounded), on every graph, directed or not.
-/
import SkNet.Lemmas.VoteFit
import Mathlib.Data.List.Nodup
import Mathlib.Data.List.Perm.Subperm

namespace SkNet.Terminate
open SkNet SkNet.Vote

attribute [-simp] List.getD_eq_getElem?_getD

/-- all lists of length `m` over the elements of `S` -/
def allLists (S : List Int) : Nat → List (List Int)
  | 0 => [[]]
  | m+1 => (allLists S m).flatMap fun l => S.map fun x => x :: l

theorem mem_allLists (S : List Int) : ∀ (m : Nat) (l : List Int), l.length = m → (∀ x ∈ l, x ∈ S) → l ∈ allLists S m := by
  intro m
  induction m with
  | zero =>
    intro l hl _
    have : l = [] := List.length_eq_zero_iff.mp hl
    simp [allLists, this]
  | succ m ih =>
    intro l hl hS
    cases l with
    | nil => simp at hl
    | cons x xs =>
      simp only [allLists, List.mem_flatMap, List.mem_map]
      refine ⟨xs, ih xs (by simpa using hl) (fun y hy => hS y (List.mem_cons_of_mem _ hy)), x,
        hS x (List.mem_cons_self ..), rfl⟩

theorem length_allLists (S : List Int) (m : Nat) : (allLists S m).length = S.length ^ m := by
  induction m with
  | zero => simp [allLists]
  | succ m ih =>
    simp only [allLists, List.length_flatMap, List.length_map]
    rw [List.map_const', ih]
    simp [Nat.pow_succ]

theorem nodup_subset_length_le {α : Type} {l U : List α} (hn : l.Nodup) (hs : ∀ x ∈ l, x ∈ U) :
    l.length ≤ U.length :=
  (List.subperm_of_subset hn (fun x hx => hs x hx)).length_le

/-- **A loop that remembers what it has seen and stops at the first repetition terminates**: if every
    configuration reachable from `labels` lies in the finite list `U`, `|U| + 1` evaluations of the loop test
    suffice, whatever the bound `nIter` on the number of rounds. -/
theorem propLoop_terminates (step : List Int → List Int) (key : List Int → List Int) (U : List (List Int))
    (P : List Int → Prop) (hstep : ∀ l, P l → P (step l)) (hkey : ∀ l, P l → key l ∈ U) :
    ∀ (fuel : Nat) (nIter : Option Nat) (t : Nat) (seen : List (List Int)) (labels : List Int),
      P labels → seen.Nodup → (∀ x ∈ seen, x ∈ U) → U.length + 1 ≤ fuel + seen.length →
      propLoop step key fuel nIter t seen labels ≠ none := by
  intro fuel
  induction fuel with
  | zero =>
    intro nIter t seen labels _ hn hs hlen
    have := nodup_subset_length_le hn hs
    omega
  | succ fuel ih =>
    intro nIter t seen labels hP hn hs hlen
    unfold propLoop
    split
    · simp
    · rename_i hc
      simp only [Bool.or_eq_true, not_or, Bool.not_eq_true] at hc
      have hnot : key labels ∉ seen := by
        intro hm
        have := List.contains_iff_mem.mpr hm
        simp_all
      refine ih _ _ _ _ (hstep _ hP) (List.nodup_cons.mpr ⟨hnot, hn⟩) ?_ ?_
      · intro x hx
        rcases List.mem_cons.mp hx with rfl | hx
        · exact hkey _ hP
        · exact hs x hx
      · simp only [List.length_cons]
        omega

/-- the number of loop tests after which `Propagation.fit` has certainly stopped -/
def fitBound (values : List Int) (sigma : Option (List Nat)) : Nat :=
  (start values sigma).1.length ^ (start values sigma).2.length + 1

/-- `Propagation.fit` terminates: on every graph with non-negative weights, for every seed vector, every
    node order and every `n_iter` (the default, unbounded, included), the loop stops within `fitBound`
    evaluations of its test. -/
theorem fit_terminates (c : Csr Rat) (hw : ∀ p, 0 ≤ c.data.getD p 0) (values : List Int) (a : PropArgs)
    (hsig : SigmaOK a.sigma (instantiateVars values).2.length) (fuel : Nat)
    (hf : fitBound values a.sigma ≤ fuel) : fit c values a fuel ≠ none := by
  rw [fit_eq]
  have hidx : ∀ j ∈ (start values a.sigma).2, j < values.length := by
    intro j hj
    exact instantiateVars_index_lt values j (mem_reorder _ _ hsig j hj)
  let L := (start values a.sigma).1
  let ix := (start values a.sigma).2
  let P : List Int → Prop := fun l => l.length = values.length ∧ ∀ x ∈ l, x ∈ L
  refine propLoop_terminates _ _ (allLists L ix.length) P ?_ ?_ fuel a.nIter 0 [] _ ?_ List.nodup_nil
    (by intro x hx; simp at hx) ?_
  · intro l0 h0
    refine ⟨by rw [voteUpdate_length, h0.1], ?_⟩
    intro x hx
    apply h0.2
    exact voteUpdate_subset _ (withWeights_nonneg c a.weighted hw) l0 _
      (fun i hi => by rw [h0.1]; exact hidx i hi) x hx
  · intro l0 h0
    apply mem_allLists
    · show (config l0 ix).length = ix.length
      simp [config]
    · intro x hx
      simp only [config, List.mem_map] at hx
      obtain ⟨i, hi, rfl⟩ := hx
      apply h0.2
      have hlt : i < l0.length := by rw [h0.1]; exact hidx i hi
      rw [List.getD_eq_getElem?_getD, List.getElem?_eq_getElem hlt]
      simp
  · exact ⟨instantiateVars_length values, fun _ hx => hx⟩
  · rw [length_allLists]
    simpa [fitBound] using hf

/-! ### the loop with a bound on the number of sweeps (`n_iter ≥ 0`; the default `-1` is `n + 1` since /repo be74e3a8) -/

/-- with `n_iter = k` the loop makes at most `k` sweeps and `k + 1` evaluations of its test suffice — whatever the sweep
    does -/
theorem propLoop_capped (step : List Int → List Int) (key : List Int → List Int) :
    ∀ (k fuel t : Nat) (seen : List (List Int)) (labels : List Int), k + 1 ≤ fuel →
      ∃ r, propLoop step key fuel (some k) t seen labels = some r ∧ r.2 ≤ t + k := by
  intro k
  induction k with
  | zero =>
    intro fuel t seen labels hf
    obtain ⟨f, rfl⟩ : ∃ f, fuel = f + 1 := ⟨fuel - 1, by omega⟩
    exact ⟨(labels, t), by simp [propLoop], by simp⟩
  | succ k ih =>
    intro fuel t seen labels hf
    obtain ⟨f, rfl⟩ : ∃ f, fuel = f + 1 := ⟨fuel - 1, by omega⟩
    simp only [propLoop]
    split
    · exact ⟨(labels, t), rfl, by simp⟩
    · obtain ⟨r, hr, hle⟩ := ih f (t + 1) (key labels :: seen) (step labels) (by omega)
      refine ⟨r, ?_, by omega⟩
      simpa using hr

/-- `Propagation.fit` with a bound `k` on the number of sweeps returns after at most `k` sweeps -/
theorem fit_capped (c : Csr Rat) (values : List Int) (a : PropArgs) (k : Nat) (hk : a.nIter = some k) (fuel : Nat)
    (hf : k + 1 ≤ fuel) : ∃ r, fit c values a fuel = some r ∧ r.2 ≤ k := by
  unfold fit
  simp only [hk]
  obtain ⟨r, hr, hle⟩ := propLoop_capped
    (fun l => voteUpdate (withWeights c a.weighted) l (reorder (instantiateVars values).2 a.sigma))
    (fun l => config l (reorder (instantiateVars values).2 a.sigma)) k fuel 0 [] (instantiateVars values).1 hf
  exact ⟨r, hr, by omega⟩

end SkNet.Terminate
