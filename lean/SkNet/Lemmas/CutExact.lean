/- `cut_straight` on a valid dendrogram whose heights never decrease towards the root: every row below the cut is
   applied (simulation between the cut's replay and the full replay), hence the exact number of clusters. -/
import SkNet.Lemmas.Valid
import SkNet.Lemmas.Sort

namespace SkNet.Cut
open SkNet SkNet.Dendro

variable {α : Type}

theorem get?_merged (n : Nat) (st : Dict (List Nat)) (t i j : Nat) (ci cj : List Nat) (x : Nat) :
    (merged n st t i j ci cj).get? x =
      if x = n + t then some (ci ++ cj) else if x = j then none else if x = i then none else st.get? x := by
  unfold merged
  rw [Dict.get?_set, Dict.get?_erase, Dict.get?_erase]

section
variable [LinearOrder α]

/-- node `x` exists in the cut's replay: a leaf, or a merge below the cut -/
def belowNode (n : Nat) (cut : Option α) (pre : Dendro α) (x : Nat) : Prop :=
  x < n ∨ ∃ r, pre[x - n]? = some r ∧ belowCut cut r = true

/-- every live cluster of the full replay that exists in the cut's replay is there with the same leaves -/
def Sim (n : Nat) (cut : Option α) (pre : Dendro α) (cst fst : Dict (List Nat)) : Prop :=
  ∀ x c, fst.get? x = some c → belowNode n cut pre x → cst.get? x = some c

/-- heights never decrease from a child merge to its parent, for the rows `rs` of the dendrogram `D` -/
def MonoRows (n : Nat) (D rs : Dendro α) : Prop :=
  ∀ r ∈ rs, ∀ c, (c = r.i ∨ c = r.j) → n ≤ c → ∃ rc, D[c - n]? = some rc ∧ ¬ r.h < rc.h

theorem belowCut_mono {cut : Option α} {r rc : Row α} (h : belowCut cut r = true) (hm : ¬ r.h < rc.h) :
    belowCut cut rc = true := by
  cases cut with
  | none => rfl
  | some c =>
    simp only [belowCut, decide_eq_true_eq] at h ⊢
    exact lt_of_le_of_lt (not_lt.mp hm) h

theorem belowNode_append {n : Nat} {cut : Option α} {pre : Dendro α} {r : Row α} {x : Nat}
    (hx : x < n + pre.length) : belowNode n cut (pre ++ [r]) x ↔ belowNode n cut pre x := by
  unfold belowNode
  by_cases h : x < n
  · simp [h]
  · have : x - n < pre.length := by omega
    rw [List.getElem?_append_left this]

/-- Joint replay of the cut and of the full merge sequence on a valid dendrogram with monotone heights:
    the cut loses exactly one cluster per row below the cut. -/
theorem cut_sim (n : Nat) (cut : Option α) (D : Dendro α) :
    ∀ (rs pre : Dendro α) (cst fst cst' : Dict (List Nat)),
      D = pre ++ rs → CInv n pre cst → CInv n pre fst →
      validLoop n pre.length rs (sizesOf fst) = true → MonoRows n D rs → Sim n cut pre cst fst →
      mergeLoop n (fun r _ _ => belowCut cut r) pre.length rs cst = .ok cst' →
      cst'.length + rs.countP (belowCut cut) = cst.length ∧
      ∀ u r', rs[u]? = some r' → belowCut cut r' = true →
        ∃ p ∈ cst', ∀ v ∈ leaves n D (n + pre.length + u), v ∈ p.2 := by
  intro rs
  induction rs with
  | nil =>
    intro pre cst fst cst' _ _ _ _ _ _ h
    simp only [mergeLoop, Except.ok.injEq] at h; subst h; simp
  | cons r rs ih =>
    intro pre cst fst cst' hD hc hf hv hmono hsim h
    have hl : (pre ++ [r]).length = pre.length + 1 := by simp
    have hD' : D = (pre ++ [r]) ++ rs := by simp [hD]
    -- the row in the full replay
    unfold validLoop at hv
    simp only [get?_sizesOf] at hv
    cases hi : fst.get? r.i with
    | none => simp [hi] at hv
    | some ci =>
      cases hj : fst.get? r.j with
      | none => simp [hi, hj] at hv
      | some cj =>
        simp only [hi, hj, Option.map_some, Bool.and_eq_true, bne_iff_ne, ne_eq, beq_iff_eq] at hv
        obtain ⟨⟨hne, hs⟩, hrest⟩ := hv
        have hfm := cinv_merge hf r hi hj hne
        have hsz : ((Dict.erase (Dict.erase (sizesOf fst) r.i) r.j).set (n + pre.length) r.s) =
            sizesOf (merged n fst pre.length r.i r.j ci cj) := by
          unfold merged
          rw [erase_sizesOf, erase_sizesOf, hs, ← List.length_append, set_sizesOf]
        rw [hsz, ← hl] at hrest
        have hbi := hf.bound _ (Dict.get?_some_key_mem hi)
        have hbj := hf.bound _ (Dict.get?_some_key_mem hj)
        have hmono' : MonoRows n D rs := fun r' hr' => hmono r' (List.mem_cons_of_mem _ hr')
        by_cases hq : belowCut cut r = true
        · -- below the cut: both children exist in the cut's replay, the merge is applied
          have hchild : ∀ c, (c = r.i ∨ c = r.j) → c < n + pre.length → belowNode n cut pre c := by
            intro c hc' hcb
            by_cases hcn : c < n
            · exact Or.inl hcn
            · obtain ⟨rc, hrc, hle⟩ := hmono r List.mem_cons_self c hc' (by omega)
              refine Or.inr ⟨rc, ?_, belowCut_mono hq hle⟩
              rw [hD, List.getElem?_append_left (by omega)] at hrc
              exact hrc
          have hci := hsim r.i ci hi (hchild r.i (Or.inl rfl) hbi)
          have hcj := hsim r.j cj hj (hchild r.j (Or.inr rfl) hbj)
          have hcm := cinv_merge hc r hci hcj hne
          unfold mergeLoop at h
          simp only [hci, hcj, hq, if_true, hne, if_false] at h
          rw [← hl] at h
          have hsim' : Sim n cut (pre ++ [r]) (merged n cst pre.length r.i r.j ci cj)
              (merged n fst pre.length r.i r.j ci cj) := by
            intro x c hx hb
            rw [get?_merged] at hx ⊢
            by_cases h1 : x = n + pre.length
            · simpa [h1] using hx
            · simp only [h1, if_false] at hx ⊢
              by_cases h2 : x = r.j
              · simp [h2] at hx
              · simp only [h2, if_false] at hx ⊢
                by_cases h3 : x = r.i
                · simp [h3] at hx
                · simp only [h3, if_false] at hx ⊢
                  have hxb := hf.bound _ (Dict.get?_some_key_mem hx)
                  exact hsim x c hx ((belowNode_append hxb).mp hb)
          have := ih (pre ++ [r]) _ _ cst' hD' hcm hfm hrest hmono' hsim' h
          have hlen := length_merged hc hci hcj hne
          refine ⟨?_, ?_⟩
          · rw [List.countP_cons, hq]
            simp only [if_true]
            omega
          · intro u r' hu hr'
            cases u with
            | zero =>
              -- the cluster created by this row contains the leaves of the new node, and it is only merged later
              have hnew : leaves n D (n + pre.length + 0) = ci ++ cj := by
                rw [hD', Nat.add_zero, leaves_append_lt n (pre ++ [r]) rs (by simp), leaves_new,
                  ← get?_leaves hf hi, ← get?_leaves hf hj]
              rw [hnew]
              refine mergeLoop_superset n _ (ci ++ cj) rs (pre ++ [r]) _ cst' h hcm
                ⟨(n + pre.length, ci ++ cj), ?_, fun v hv => hv⟩
              show (n + pre.length, ci ++ cj) ∈ merged n cst pre.length r.i r.j ci cj
              rw [merged_eq hc]; simp
            | succ u =>
              simp only [List.getElem?_cons_succ] at hu
              have := this.2 u r' hu hr'
              simpa [hl, Nat.add_assoc, Nat.add_comm 1 u] using this
        · -- not below the cut: the cut keeps its state, the full replay merges
          have hkeep := cinv_keep hc r
          have hstep : mergeLoop n (fun r _ _ => belowCut cut r) (pre.length + 1) rs cst = .ok cst' := by
            unfold mergeLoop at h
            split at h
            · simp only [hq] at h
              exact h
            · exact h
          rw [← hl] at hstep
          have hsim' : Sim n cut (pre ++ [r]) cst (merged n fst pre.length r.i r.j ci cj) := by
            intro x c hx hb
            rw [get?_merged] at hx
            by_cases h1 : x = n + pre.length
            · -- the new node is not below the cut
              exfalso
              subst h1
              rcases hb with hb | ⟨r', hr', hb'⟩
              · omega
              · have : (pre ++ [r])[n + pre.length - n]? = some r := by
                  rw [List.getElem?_append_right (by omega)]; simp
                rw [this] at hr'
                cases hr'
                exact hq hb'
            · simp only [h1, if_false] at hx
              by_cases h2 : x = r.j
              · simp [h2] at hx
              · simp only [h2, if_false] at hx
                by_cases h3 : x = r.i
                · simp [h3] at hx
                · simp only [h3, if_false] at hx
                  have hxb := hf.bound _ (Dict.get?_some_key_mem hx)
                  exact hsim x c hx ((belowNode_append hxb).mp hb)
          have := ih (pre ++ [r]) _ _ cst' hD' hkeep hfm hrest hmono' hsim' hstep
          have hq' : belowCut cut r = false := by simpa using hq
          refine ⟨?_, ?_⟩
          · rw [List.countP_cons, hq']
            simp only [Bool.false_eq_true, if_false]
            omega
          · intro u r' hu hr'
            cases u with
            | zero =>
              simp only [List.getElem?_cons_zero, Option.some.injEq] at hu
              subst hu; exact absurd hr' hq
            | succ u =>
              simp only [List.getElem?_cons_succ] at hu
              have := this.2 u r' hu hr'
              simpa [hl, Nat.add_assoc, Nat.add_comm 1 u] using this

/-- `MonoPaths` (executable) gives `MonoRows` for all rows -/
theorem monoRows_of_monoPaths {n : Nat} {D : Dendro α} (h : MonoPaths n D = true) : MonoRows n D D := by
  intro r hr c hc hn
  unfold MonoPaths at h
  have := (List.all_eq_true.mp h) r hr
  simp only [Bool.and_eq_true] at this
  rcases hc with e | e
  · subst e
    have h1 := this.1
    simp only [show ¬ (r.i < n) by omega, if_false] at h1
    cases hd : D[r.i - n]? with
    | none => simp [hd] at h1
    | some rc => exact ⟨rc, rfl, by simpa [hd] using h1⟩
  · subst e
    have h1 := this.2
    simp only [show ¬ (r.j < n) by omega, if_false] at h1
    cases hd : D[r.j - n]? with
    | none => simp [hd] at h1
    | some rc => exact ⟨rc, rfl, by simpa [hd] using h1⟩

/-- `MonoRows` for all rows gives the executable `MonoPaths` -/
theorem monoPaths_of_monoRows_gen {n : Nat} {D : Dendro α} (h : MonoRows n D D) : MonoPaths n D = true := by
  unfold MonoPaths
  rw [List.all_eq_true]
  intro r hr
  simp only [Bool.and_eq_true]
  constructor
  · by_cases hi : r.i < n
    · simp [hi]
    · obtain ⟨rc, hrc, hle⟩ := h r hr r.i (Or.inl rfl) (by omega)
      simp [hi, hrc, hle]
  · by_cases hj : r.j < n
    · simp [hj]
    · obtain ⟨rc, hrc, hle⟩ := h r hr r.j (Or.inr rfl) (by omega)
      simp [hj, hrc, hle]

/-- on a valid dendrogram with monotone heights `cut_straight`'s loop ends with exactly
    `n - #{rows below the cut}` clusters -/
theorem mergeLoop_exact {n : Nat} {cut : Option α} {D : Dendro α} {st : Dict (List Nat)}
    (hv : ValidDendro n D = true) (hm : MonoPaths n D = true)
    (h : mergeLoop n (fun r _ _ => belowCut cut r) 0 D (initCluster n) = .ok st) :
    st.length + D.countP (belowCut cut) = n ∧
    ∀ t r, D[t]? = some r → belowCut cut r = true → ∃ p ∈ st, ∀ v ∈ leaves n D (n + t), v ∈ p.2 := by
  unfold ValidDendro ValidDendroW at hv
  simp only [Bool.and_eq_true, List.length_replicate] at hv
  have h2 := hv.2
  rw [← sizesOf_initCluster] at h2
  have := cut_sim n cut D D [] (initCluster n) (initCluster n) st (by simp) (cinv_init n) (cinv_init n)
    (by simpa using h2) (monoRows_of_monoPaths hm) (fun x c hx _ => hx) (by simpa using h)
  refine ⟨by simpa [initCluster] using this.1, ?_⟩
  intro t r ht hr
  simpa using this.2 t r ht hr

/-! ### counting below the cut when the heights are distinct -/

theorem countP_lt_strict (S : List α) (hS : S.Pairwise (· < ·)) (m : Nat) (c : α) (hc : S[m]? = some c) :
    S.countP (fun x => decide (x < c)) = m := by
  induction S generalizing m with
  | nil => simp at hc
  | cons y ys ih =>
    have hy := List.pairwise_cons.mp hS
    cases m with
    | zero =>
      simp only [List.getElem?_cons_zero, Option.some.injEq] at hc
      subst hc
      rw [List.countP_eq_zero]
      intro a ha
      simp only [decide_eq_true_eq, not_lt]
      rcases List.mem_cons.mp ha with e | e
      · subst e; exact le_refl _
      · exact le_of_lt (hy.1 a e)
    | succ m =>
      simp only [List.getElem?_cons_succ] at hc
      have := ih hy.2 m hc
      have hlt : y < c := hy.1 c (List.mem_of_getElem? hc)
      rw [List.countP_cons, this]
      simp [hlt]

theorem countP_lt_sortH_nodup (l : List α) (hl : l.Nodup) (m : Nat) (c : α) (hc : (sortH l)[m]? = some c) :
    l.countP (fun x => decide (x < c)) = m := by
  rw [← (sortH_perm l).countP_eq]
  refine countP_lt_strict _ ?_ m c hc
  have h1 := sortH_sorted l
  have h2 : (sortH l).Nodup := (sortH_perm l).nodup_iff.mpr hl
  exact (h1.and h2).imp (fun ⟨hle, hne⟩ => lt_of_le_of_ne hle hne)

theorem nodup_of_distinctHeights {D : Dendro α} (h : DistinctHeights D = true) : (D.map (·.h)).Nodup := by
  rw [List.Nodup, List.pairwise_iff_getElem]
  intro a b ha hb hab
  simp only [List.length_map] at ha hb
  unfold DistinctHeights at h
  have h1 := (List.all_eq_true.mp h) a (List.mem_range.mpr ha)
  have h2 := (List.all_eq_true.mp h1) b (List.mem_range.mpr hb)
  simp only [List.getElem?_eq_getElem ha, List.getElem?_eq_getElem hb, Bool.or_eq_true, beq_iff_eq,
    decide_eq_true_eq] at h2
  simp only [List.getElem_map]
  rcases h2 with h2 | h2 | h2
  · omega
  · exact ne_of_lt h2
  · exact (ne_of_lt h2).symm

end

end SkNet.Cut
