/- Invariants of the two-colouring search of `is_bipartite` (Model/Connectivity.lean). -/
import SkNet.Model.Connectivity
import SkNet.Spec.Connectivity

namespace SkNet.Connectivity
open SkNet

theorem getD_set_int (l : List Int) (i : Nat) (a : Int) (j : Nat) :
    (l.set i a).getD j (-1) = if i = j ∧ i < l.length then a else l.getD j (-1) := by
  simp only [List.getD_eq_getElem?_getD, List.getElem?_set]
  by_cases h : i = j
  · subst h
    by_cases h2 : i < l.length
    · simp [h2]
    · simp [h2]
  · simp [h]

section
variable (n : Nat) (adj : Nat → List Nat)

/-- every stored index is a node -/
def WF : Prop := ∀ u, u < n → ∀ v ∈ adj u, v < n
/-- the pattern is symmetric -/
def Sym : Prop := ∀ u, u < n → ∀ v ∈ adj u, u ∈ adj v
/-- `c` is a proper 2-colouring -/
def Proper (c : Nat → Bool) : Prop := ∀ u, u < n → ∀ v ∈ adj u, c u ≠ c v

def b2i (b : Bool) : Int := if b then 1 else 0

/-- the colour of `v` in the array `coloring` (-1 = none) -/
abbrev colOf (coloring : List Int) (v : Nat) : Int := coloring.getD v (-1)

/-- the proper colouring `c` agrees with the partial colouring -/
def Extends (coloring : List Int) (c : Nat → Bool) : Prop :=
  ∀ v, v < n → colOf coloring v ≠ -1 → colOf coloring v = b2i (c v)

/-- all neighbours of `w` are coloured, with a colour different from `w`'s -/
def Done (coloring : List Int) (w : Nat) : Prop :=
  ∀ v ∈ adj w, colOf coloring v ≠ -1 ∧ colOf coloring v ≠ colOf coloring w

structure Base (s : BipState) : Prop where
  len : s.coloring.length = n
  rem : s.remaining = ((s.coloring.count (-1) : Nat) : Int)
  rng : ∀ v, v < n → colOf s.coloring v = -1 ∨ colOf s.coloring v = 0 ∨ colOf s.coloring v = 1
  stk : ∀ v ∈ s.stack, v < n ∧ colOf s.coloring v ≠ -1
  ext : TwoColourable n adj → ∃ c, Proper n adj c ∧ Extends n s.coloring c

/-- colours, once given, never change -/
def Mono (s s' : BipState) : Prop := ∀ w, colOf s.coloring w ≠ -1 → colOf s'.coloring w = colOf s.coloring w

theorem Mono.refl (s : BipState) : Mono s s := fun _ _ => rfl

theorem Mono.trans {s₁ s₂ s₃ : BipState} (h₁ : Mono s₁ s₂) (h₂ : Mono s₂ s₃) : Mono s₁ s₃ := by
  intro w hw
  have := h₁ w hw
  rw [h₂ w (by rw [this]; exact hw), this]

theorem Done.mono {adj : Nat → List Nat} {s s' : BipState} (hm : Mono s s') {w : Nat}
    (hw : colOf s.coloring w ≠ -1) (hd : Done adj s.coloring w) : Done adj s'.coloring w := by
  intro v hv
  obtain ⟨h1, h2⟩ := hd v hv
  rw [hm v h1, hm w hw]
  exact ⟨h1, h2⟩

end

/-- the state after `coloring[nb] = 1 - coloring[node]; next_nodes.append(nb); exists_remaining -= 1` -/
def colourStep (s : BipState) (node nb : Nat) : BipState :=
  { coloring := s.coloring.set nb (1 - s.coloring.getD node (-1)),
    stack := nb :: s.stack,
    remaining := s.remaining - 1 }

theorem forNeighbors_cons (node nb : Nat) (rest : List Nat) (s : BipState) :
    forNeighbors node (nb :: rest) s =
      if s.coloring.getD nb (-1) == -1 then forNeighbors node rest (colourStep s node nb)
      else if s.coloring.getD nb (-1) == s.coloring.getD node (-1) then .error ()
      else forNeighbors node rest s := by
  rw [forNeighbors]; rfl

theorem colourStep_base {n : Nat} {adj : Nat → List Nat} {s : BipState} {u nb : Nat}
    (hb : Base n adj s) (hu : u < n) (hnb : nb < n) (hedge : nb ∈ adj u)
    (hcu : colOf s.coloring u ≠ -1) (hcn : colOf s.coloring nb = -1) :
    Base n adj (colourStep s u nb) ∧ Mono s (colourStep s u nb) ∧
    colOf (colourStep s u nb).coloring nb = 1 - colOf s.coloring u := by
  have hlen := hb.len
  have hnbl : nb < s.coloring.length := hlen ▸ hnb
  have hcol : ∀ w, colOf (colourStep s u nb).coloring w = if nb = w then 1 - colOf s.coloring u else colOf s.coloring w := by
    intro w
    simp only [colourStep, colOf, getD_set_int, hnbl, and_true]
  have hmono : Mono s (colourStep s u nb) := by
    intro w hw
    rw [hcol]
    split
    · rename_i h; subst h; exact absurd hcn hw
    · rfl
  have hrngu := hb.rng u hu
  refine ⟨⟨?_, ?_, ?_, ?_, ?_⟩, hmono, by rw [hcol]; simp⟩
  · simp [colourStep, hlen]
  · have h1 : s.coloring[nb] = -1 := by
      have := hcn
      simp only [colOf, List.getD_eq_getElem?_getD, List.getElem?_eq_getElem hnbl] at this
      simpa using this
    have h2 : (1 - s.coloring.getD u (-1) == (-1 : Int)) = false := by
      have : colOf s.coloring u = s.coloring.getD u (-1) := rfl
      rcases hrngu with h | h | h
      · exact absurd h hcu
      · rw [← this, h]; decide
      · rw [← this, h]; decide
    have hpos : 0 < s.coloring.count (-1) := by
      apply List.count_pos_iff.mpr
      rw [← h1]; exact List.getElem_mem hnbl
    simp only [colourStep, List.count_set hnbl, h1, BEq.rfl, ↓reduceIte, h2, Bool.false_eq_true]
    rw [hb.rem]; omega
  · intro v hv
    rw [hcol]
    split
    · rcases hrngu with h | h | h
      · exact absurd h hcu
      · rw [h]; decide
      · rw [h]; decide
    · exact hb.rng v hv
  · intro v hv
    simp only [colourStep, List.mem_cons] at hv
    rcases hv with rfl | hv
    · refine ⟨hnb, ?_⟩
      rw [hcol]; simp only [↓reduceIte]
      rcases hrngu with h | h | h
      · exact absurd h hcu
      · rw [h]; decide
      · rw [h]; decide
    · obtain ⟨h1, h2⟩ := hb.stk v hv
      exact ⟨h1, by rw [hmono v h2]; exact h2⟩
  · intro htc
    obtain ⟨c, hp, he⟩ := hb.ext htc
    refine ⟨c, hp, fun v hv hcv => ?_⟩
    rw [hcol] at hcv ⊢
    split
    · rename_i h
      subst h
      have hne := hp u hu nb hedge
      rw [he u hu hcu]
      unfold b2i
      cases hcu' : c u <;> cases hcn' : c nb <;> simp_all
    · rename_i h
      simp only [h, ↓reduceIte] at hcv
      exact he v hv hcv

/-- Processing the neighbours of the popped node `u`. -/
theorem forNeighbors_spec {n : Nat} {adj : Nat → List Nat} (hwf : WF n adj) (u : Nat) (hu : u < n)
    (rest : List Nat) (hrest : ∀ v ∈ rest, v ∈ adj u) (s : BipState) (hb : Base n adj s)
    (hcu : colOf s.coloring u ≠ -1)
    (hA : ∀ w, w < n → colOf s.coloring w ≠ -1 → w ∈ s.stack ∨ w = u ∨ Done adj s.coloring w) :
    match forNeighbors u rest s with
    | .error _ => ¬ TwoColourable n adj
    | .ok s' => Base n adj s' ∧ Mono s s' ∧
        (∀ w, w < n → colOf s'.coloring w ≠ -1 → w ∈ s'.stack ∨ w = u ∨ Done adj s'.coloring w) ∧
        (∀ v ∈ rest, colOf s'.coloring v ≠ -1 ∧ colOf s'.coloring v ≠ colOf s'.coloring u) ∧
        2 * s'.remaining + s'.stack.length ≤ 2 * s.remaining + s.stack.length ∧
        s'.remaining ≤ s.remaining := by
  induction rest generalizing s with
  | nil =>
    simp only [forNeighbors]
    exact ⟨hb, Mono.refl s, hA, by simp, by omega, by omega⟩
  | cons nb rest ih =>
    have hnbe : nb ∈ adj u := hrest nb List.mem_cons_self
    have hnb : nb < n := hwf u hu nb hnbe
    have hrest' : ∀ v ∈ rest, v ∈ adj u := fun v hv => hrest v (List.mem_cons_of_mem _ hv)
    rw [forNeighbors_cons]
    by_cases hcn : s.coloring.getD nb (-1) = -1
    · simp only [hcn, BEq.rfl, ↓reduceIte]
      obtain ⟨hb1, hm1, hnew⟩ := colourStep_base hb hu hnb hnbe hcu hcn
      have hcu1 : colOf (colourStep s u nb).coloring u ≠ -1 := by rw [hm1 u hcu]; exact hcu
      have hA1 : ∀ w, w < n → colOf (colourStep s u nb).coloring w ≠ -1 →
          w ∈ (colourStep s u nb).stack ∨ w = u ∨ Done adj (colourStep s u nb).coloring w := by
        intro w hw hcw
        by_cases hwn : w = nb
        · left; simp [colourStep, hwn]
        · have hcw0 : colOf s.coloring w ≠ -1 := by
            intro h0
            apply hcw
            simp only [colourStep, colOf, getD_set_int]
            have : ¬ (nb = w ∧ nb < s.coloring.length) := fun h => hwn h.1.symm
            simp only [this, ↓reduceIte]
            exact h0
          rcases hA w hw hcw0 with h | h | h
          · left; simp [colourStep, h]
          · right; left; exact h
          · right; right; exact Done.mono hm1 hcw0 h
      have := ih hrest' (colourStep s u nb) hb1 hcu1 hA1
      cases hres : forNeighbors u rest (colourStep s u nb) with
      | error e => simp only [hres] at this; exact this
      | ok s' =>
        simp only [hres] at this
        obtain ⟨hb', hm', hA', hdone, hmeas, hrem⟩ := this
        have hr1 : (colourStep s u nb).remaining = s.remaining - 1 := rfl
        refine ⟨hb', hm1.trans hm', hA', ?_, ?_, by omega⟩
        · intro v hv
          rcases List.mem_cons.mp hv with rfl | hv
          · have h1 : colOf (colourStep s u v).coloring v ≠ -1 := by
              rw [hnew]
              rcases hb.rng u hu with h | h | h
              · exact absurd h hcu
              · rw [h]; decide
              · rw [h]; decide
            rw [hm' v h1, hm' u hcu1, hnew, hm1 u hcu]
            refine ⟨by rw [← hnew]; exact h1, by omega⟩
          · exact hdone v hv
        · have h2 : ((colourStep s u nb).stack.length : Int) = s.stack.length + 1 := by simp [colourStep]
          omega
    · have hcn' : (s.coloring.getD nb (-1) == -1) = false := by simpa using hcn
      simp only [hcn', Bool.false_eq_true, ↓reduceIte]
      by_cases heq : s.coloring.getD nb (-1) = s.coloring.getD u (-1)
      · simp only [heq, BEq.rfl, ↓reduceIte]
        intro htc
        obtain ⟨c, hp, he⟩ := hb.ext htc
        have h1 := he nb hnb hcn
        have h2 := he u hu hcu
        have : b2i (c nb) = b2i (c u) := by rw [← h1, ← h2]; exact heq
        have hne := hp u hu nb hnbe
        unfold b2i at this
        cases hcu' : c u <;> cases hcn'' : c nb <;> simp_all
      · have heq' : (s.coloring.getD nb (-1) == s.coloring.getD u (-1)) = false := by simpa using heq
        simp only [heq', Bool.false_eq_true, ↓reduceIte]
        have := ih hrest' s hb hcu hA
        cases hres : forNeighbors u rest s with
        | error e => simp only [hres] at this; exact this
        | ok s' =>
          simp only [hres] at this
          obtain ⟨hb', hm', hA', hdone, hmeas, hrem⟩ := this
          refine ⟨hb', hm', hA', ?_, hmeas, hrem⟩
          intro v hv
          rcases List.mem_cons.mp hv with rfl | hv
          · rw [hm' v hcn, hm' u hcu]; exact ⟨hcn, heq⟩
          · exact hdone v hv

end SkNet.Connectivity

namespace SkNet.Connectivity
open SkNet

/-- `while next_nodes:` — with enough fuel it ends, with every coloured node done, or with a conflict that
    no proper colouring survives. -/
theorem innerLoop_spec {n : Nat} {adj : Nat → List Nat} (hwf : WF n adj) (fuel : Nat) (s : BipState)
    (hb : Base n adj s)
    (hA : ∀ w, w < n → colOf s.coloring w ≠ -1 → w ∈ s.stack ∨ Done adj s.coloring w)
    (hfuel : 2 * s.remaining + s.stack.length < fuel) :
    match innerLoop adj fuel s with
    | none => False
    | some (.error _) => ¬ TwoColourable n adj
    | some (.ok s') => Base n adj s' ∧ Mono s s' ∧ s'.stack = [] ∧
        (∀ w, w < n → colOf s'.coloring w ≠ -1 → Done adj s'.coloring w) ∧ s'.remaining ≤ s.remaining := by
  induction fuel generalizing s with
  | zero =>
    have := hb.rem
    omega
  | succ fuel ih =>
    unfold innerLoop
    match hst : s.stack with
    | [] =>
      simp only
      refine ⟨hb, Mono.refl s, hst, fun w hw hcw => ?_, Int.le_refl _⟩
      rcases hA w hw hcw with h | h
      · rw [hst] at h; cases h
      · exact h
    | node :: rest =>
      simp only
      have hnode := hb.stk node (by rw [hst]; exact List.mem_cons_self)
      have hb0 : Base n adj { s with stack := rest } :=
        ⟨hb.len, hb.rem, hb.rng, fun v hv => hb.stk v (by rw [hst]; exact List.mem_cons_of_mem _ hv), hb.ext⟩
      have hA0 : ∀ w, w < n → colOf s.coloring w ≠ -1 → w ∈ rest ∨ w = node ∨ Done adj s.coloring w := by
        intro w hw hcw
        rcases hA w hw hcw with h | h
        · rw [hst] at h
          rcases List.mem_cons.mp h with h | h
          · right; left; exact h
          · left; exact h
        · right; right; exact h
      have := forNeighbors_spec hwf node hnode.1 (adj node) (fun v hv => hv) { s with stack := rest } hb0 hnode.2 hA0
      cases hres : forNeighbors node (adj node) { s with stack := rest } with
      | error e => simp only [hres] at this ⊢; exact this
      | ok s1 =>
        simp only [hres] at this ⊢
        obtain ⟨hb1, hm1, hA1, hdone, hmeas, hrem1⟩ := this
        have hA1' : ∀ w, w < n → colOf s1.coloring w ≠ -1 → w ∈ s1.stack ∨ Done adj s1.coloring w := by
          intro w hw hcw
          rcases hA1 w hw hcw with h | h | h
          · left; exact h
          · right; subst h; exact hdone
          · right; exact h
        have hlen : (s.stack.length : Int) = rest.length + 1 := by rw [hst]; simp
        have hfuel1 : 2 * s1.remaining + s1.stack.length < fuel := by
          omega
        have := ih s1 hb1 hA1' hfuel1
        cases hres2 : innerLoop adj fuel s1 with
        | none => simp only [hres2] at this
        | some r =>
          cases r with
          | error e => simp only [hres2] at this ⊢; exact this
          | ok s2 =>
            simp only [hres2] at this ⊢
            obtain ⟨hb2, hm2, hs2, hd2, hr2⟩ := this
            refine ⟨hb2, Mono.trans (s₂ := s1) hm1 hm2, hs2, hd2, ?_⟩
            have hrem1' : s1.remaining ≤ s.remaining := hrem1
            omega

end SkNet.Connectivity

namespace SkNet.Connectivity
open SkNet

/-- invariant of `while exists_remaining:` — the search of the current tree is over -/
structure Outer (n : Nat) (adj : Nat → List Nat) (s : BipState) : Prop where
  base : Base n adj s
  empty : s.stack = []
  done : ∀ w, w < n → colOf s.coloring w ≠ -1 → Done adj s.coloring w

theorem count_le_of_base {n : Nat} {adj : Nat → List Nat} {s : BipState} (hb : Base n adj s) :
    s.remaining ≤ n := by
  have := hb.rem
  have h2 : s.coloring.count (-1) ≤ s.coloring.length := List.count_le_length
  rw [hb.len] at h2
  omega

theorem firstUncoloured_some {coloring : List Int} (h : 0 < coloring.count (-1)) :
    ∃ src, firstUncoloured coloring = some src ∧ src < coloring.length ∧ colOf coloring src = -1 := by
  unfold firstUncoloured
  cases hf : (List.range coloring.length).find? fun i => coloring.getD i 0 == -1 with
  | none =>
    exfalso
    have hmem : (-1 : Int) ∈ coloring := List.count_pos_iff.mp h
    obtain ⟨i, hi, hv⟩ := List.getElem_of_mem hmem
    have := List.find?_eq_none.mp hf i (List.mem_range.mpr hi)
    apply this
    simp [List.getD_eq_getElem?_getD, hi, hv]
  | some src =>
    have h1 := List.find?_some hf
    have h2 := List.mem_range.mp (List.mem_of_find?_eq_some hf)
    refine ⟨src, rfl, h2, ?_⟩
    simp only [List.getD_eq_getElem?_getD, List.getElem?_eq_getElem h2, Option.getD_some, beq_iff_eq] at h1
    simp [colOf, List.getD_eq_getElem?_getD, h2, h1]

/-- starting a new tree at the first uncoloured node keeps the invariants -/
theorem newTree_base {n : Nat} {adj : Nat → List Nat} (hwf : WF n adj) (hsym : Sym n adj) {s : BipState}
    (ho : Outer n adj s) {src : Nat} (hsrc : src < n) (hcs : colOf s.coloring src = -1) :
    let s0 : BipState := { coloring := s.coloring.set src 0, stack := [src], remaining := s.remaining - 1 }
    Base n adj s0 ∧ Mono s s0 ∧
    (∀ w, w < n → colOf s0.coloring w ≠ -1 → w ∈ s0.stack ∨ Done adj s0.coloring w) := by
  intro s0
  have hb := ho.base
  have hlen := hb.len
  have hsl : src < s.coloring.length := hlen ▸ hsrc
  have hcol : ∀ w, colOf s0.coloring w = if src = w then 0 else colOf s.coloring w := by
    intro w
    simp only [s0, colOf, getD_set_int, hsl, and_true]
  have hmono : Mono s s0 := by
    intro w hw
    rw [hcol]
    split
    · rename_i h; subst h; exact absurd hcs hw
    · rfl
  refine ⟨⟨?_, ?_, ?_, ?_, ?_⟩, hmono, ?_⟩
  · simp [s0, hlen]
  · have h1 : s.coloring[src] = -1 := by
      have := hcs
      simp only [colOf, List.getD_eq_getElem?_getD, List.getElem?_eq_getElem hsl] at this
      simpa using this
    have hpos : 0 < s.coloring.count (-1) := by
      apply List.count_pos_iff.mpr
      rw [← h1]; exact List.getElem_mem hsl
    have h2 : ((0 : Int) == -1) = false := by decide
    simp only [s0, List.count_set hsl, h1, BEq.rfl, ↓reduceIte, h2, Bool.false_eq_true]
    rw [hb.rem]; omega
  · intro v hv
    rw [hcol]
    split
    · right; left; rfl
    · exact hb.rng v hv
  · intro v hv
    simp only [s0, List.mem_singleton] at hv
    subst hv
    refine ⟨hsrc, ?_⟩
    rw [hcol]; simp
  · intro htc
    obtain ⟨c, hp, he⟩ := hb.ext htc
    -- flip `c` on the uncoloured part so that `src` gets colour 0; no edge leaves the coloured part
    refine ⟨fun v => if colOf s.coloring v ≠ -1 then c v else (c v != c src), ?_, ?_⟩
    · intro u hu v hv
      have hvn : v < n := hwf u hu v hv
      have hne := hp u hu v hv
      show (if colOf s.coloring u ≠ -1 then c u else (c u != c src)) ≠
        (if colOf s.coloring v ≠ -1 then c v else (c v != c src))
      by_cases hcu : colOf s.coloring u ≠ -1
      · have hcv : colOf s.coloring v ≠ -1 := (ho.done u hu hcu v hv).1
        rw [if_pos hcu, if_pos hcv]
        exact hne
      · by_cases hcv : colOf s.coloring v ≠ -1
        · exfalso
          exact hcu (ho.done v hvn hcv u (hsym u hu v hv)).1
        · rw [if_neg hcu, if_neg hcv]
          cases h1 : c u <;> cases h2 : c v <;> cases h3 : c src <;> simp_all
    · intro v hv hcv
      show colOf s0.coloring v = b2i (if colOf s.coloring v ≠ -1 then c v else (c v != c src))
      rw [hcol] at hcv ⊢
      by_cases h : src = v
      · subst h
        have : ¬ colOf s.coloring src ≠ -1 := fun h => h hcs
        rw [if_pos rfl, if_neg this]
        unfold b2i
        cases c src <;> rfl
      · rw [if_neg h] at hcv ⊢
        rw [if_pos hcv]
        exact he v hv hcv
  · intro w hw hcw
    by_cases hws : w = src
    · left; simp [s0, hws]
    · right
      have hcw0 : colOf s.coloring w ≠ -1 := by
        rw [hcol] at hcw
        have : ¬ src = w := fun h => hws h.symm
        simpa [this] using hcw
      exact Done.mono hmono hcw0 (ho.done w hw hcw0)

/-- ★ the search: never out of fuel, never an IndexError; `no` only without a proper 2-colouring;
    `yes` with a total proper colouring by 0 / 1. -/
theorem outerLoop_spec {n : Nat} {adj : Nat → List Nat} (hwf : WF n adj) (hsym : Sym n adj)
    (innerFuel : Nat) (hin : 2 * n + 2 ≤ innerFuel) (fuel : Nat) (s : BipState)
    (ho : Outer n adj s) (hfuel : s.remaining < fuel) :
    match outerLoop adj innerFuel fuel s with
    | .fuel => False
    | .raised _ => False
    | .no => ¬ TwoColourable n adj
    | .yes c => c.length = n ∧ (∀ v, v < n → colOf c v = 0 ∨ colOf c v = 1) ∧
        ∀ u, u < n → ∀ v ∈ adj u, colOf c v ≠ colOf c u := by
  induction fuel generalizing s with
  | zero =>
    have := ho.base.rem
    omega
  | succ fuel ih =>
    unfold outerLoop
    have hb := ho.base
    by_cases hr : s.remaining = 0
    · simp only [hr, BEq.rfl, ↓reduceIte]
      have hcount : s.coloring.count (-1) = 0 := by have := hb.rem; omega
      have hall : ∀ v, v < n → colOf s.coloring v ≠ -1 := by
        intro v hv h
        have hvl : v < s.coloring.length := hb.len ▸ hv
        have : (-1 : Int) ∈ s.coloring := by
          simp only [colOf, List.getD_eq_getElem?_getD, List.getElem?_eq_getElem hvl, Option.getD_some] at h
          rw [← h]; exact List.getElem_mem hvl
        exact (List.count_eq_zero.mp hcount) this
      refine ⟨hb.len, fun v hv => ?_, fun u hu v hv => ?_⟩
      · rcases hb.rng v hv with h | h | h
        · exact absurd h (hall v hv)
        · left; exact h
        · right; exact h
      · exact (ho.done u hu (hall u hu) v hv).2
    · have hr' : (s.remaining == 0) = false := by simpa using hr
      simp only [hr', Bool.false_eq_true, ↓reduceIte]
      have hpos : 0 < s.coloring.count (-1) := by have := hb.rem; omega
      obtain ⟨src, hfu, hsl, hcs⟩ := firstUncoloured_some hpos
      have hsrc : src < n := hb.len ▸ hsl
      simp only [hfu]
      obtain ⟨hb0, hm0, hA0⟩ := newTree_base hwf hsym ho hsrc hcs
      have hle := count_le_of_base hb
      have hf0 : 2 * (s.remaining - 1) + (([src] : List Nat).length : Int) < innerFuel := by
        simp only [List.length_singleton]
        omega
      have := innerLoop_spec hwf innerFuel
        { coloring := s.coloring.set src 0, stack := [src], remaining := s.remaining - 1 } hb0 hA0 hf0
      cases hres : innerLoop adj innerFuel
          { coloring := s.coloring.set src 0, stack := [src], remaining := s.remaining - 1 } with
      | none => simp only [hres] at this
      | some r =>
        cases r with
        | error e => simp only [hres] at this ⊢; exact this
        | ok s' =>
          simp only [hres] at this ⊢
          obtain ⟨hb', _, hs', hd', hr2⟩ := this
          have hr2' : s'.remaining ≤ s.remaining - 1 := hr2
          exact ih s' ⟨hb', hs', hd'⟩ (by omega)

end SkNet.Connectivity

namespace SkNet.Connectivity
open SkNet

theorem colOf_replicate (n v : Nat) : colOf (List.replicate n (-1 : Int)) v = -1 := by
  simp only [colOf, List.getD_eq_getElem?_getD, List.getElem?_replicate]
  split <;> rfl

theorem outer_init (n : Nat) (adj : Nat → List Nat) :
    Outer n adj { coloring := List.replicate n (-1), stack := [], remaining := n } := by
  refine ⟨⟨by simp, by simp, fun v _ => Or.inl (colOf_replicate n v), by simp, ?_⟩, rfl, ?_⟩
  · intro ⟨c, hc⟩
    exact ⟨c, hc, fun v _ h => absurd (colOf_replicate n v) h⟩
  · intro w _ h
    exact absurd (colOf_replicate n w) h

/-- ★ the search of `is_bipartite` on a symmetric pattern decides 2-colourability, and its `yes` comes with a
    proper colouring by 0 / 1 of all nodes. -/
theorem colourSearch_spec {n : Nat} {adj : Nat → List Nat} (hwf : WF n adj) (hsym : Sym n adj) :
    match colourSearch n adj with
    | .fuel => False
    | .raised _ => False
    | .no => ¬ TwoColourable n adj
    | .yes c => c.length = n ∧ (∀ v, v < n → colOf c v = 0 ∨ colOf c v = 1) ∧
        ∀ u, u < n → ∀ v ∈ adj u, colOf c v ≠ colOf c u := by
  unfold colourSearch
  exact outerLoop_spec hwf hsym (2 * n + 2) (Nat.le_refl _) (n + 1) _ (outer_init n adj) (by simp; omega)

/-- a total proper colouring by 0 / 1 is a witness of 2-colourability -/
theorem twoColourable_of_colouring {n : Nat} {adj : Nat → List Nat} (hwf : WF n adj) {c : List Int}
    (h01 : ∀ v, v < n → colOf c v = 0 ∨ colOf c v = 1)
    (hp : ∀ u, u < n → ∀ v ∈ adj u, colOf c v ≠ colOf c u) : TwoColourable n adj := by
  refine ⟨fun v => colOf c v == 1, fun u hu v hv => ?_⟩
  have hvn := hwf u hu v hv
  have := hp u hu v hv
  show (colOf c u == 1) ≠ (colOf c v == 1)
  rcases h01 u hu with h1 | h1 <;> rcases h01 v hvn with h2 | h2
  · exact absurd (h2.trans h1.symm) this
  · rw [h1, h2]; decide
  · rw [h1, h2]; decide
  · exact absurd (h2.trans h1.symm) this

end SkNet.Connectivity

namespace SkNet.Connectivity
open SkNet

/-- the input domain of the pattern-based searches: the stored entries of every row are exactly the non-zero
    entries of the row (no explicit zero, nothing outside the matrix) -/
def Mat.Canon (m : Mat) : Prop :=
  ∀ i j, i < m.nRow → (j ∈ m.adj i ↔ j < m.nCol ∧ m.val i j ≠ 0)

theorem isSymmetric_true {m : Mat} (h : m.isSymmetric = .ok true) :
    m.nRow = m.nCol ∧ ∀ i j, i < m.nRow → j < m.nRow → m.val i j = m.val j i := by
  unfold Mat.isSymmetric at h
  split at h
  · cases h
  · rename_i hsq
    refine ⟨by simpa using hsq, fun i j hi hj => ?_⟩
    have h' : ((List.range m.nRow).all fun i => (List.range m.nRow).all fun j => m.val i j == m.val j i) = true := by
      exact (Except.ok.inj h)
    rw [List.all_eq_true] at h'
    have := h' i (List.mem_range.mpr hi)
    rw [List.all_eq_true] at this
    simpa using this j (List.mem_range.mpr hj)

theorem Canon.wf {m : Mat} (hc : m.Canon) (hsq : m.nRow = m.nCol) : WF m.nRow m.adj :=
  fun u hu v hv => hsq ▸ ((hc u v hu).mp hv).1

theorem Canon.sym {m : Mat} (hc : m.Canon) (hs : m.isSymmetric = .ok true) : Sym m.nRow m.adj := by
  obtain ⟨hsq, hval⟩ := isSymmetric_true hs
  intro u hu v hv
  obtain ⟨hvn, hne⟩ := (hc u v hu).mp hv
  have hvn' : v < m.nRow := hsq ▸ hvn
  exact (hc v u hvn').mpr ⟨hsq ▸ hu, by rw [← hval u v hu hvn']; exact hne⟩

end SkNet.Connectivity
