/- `break_cycles`, undirected branch: when the traversal from a start node ends, no simple path from that node
   (in what is left of the graph) has a back edge other than the move back to its parent; with the connectivity
   kept by every removal (Lemmas/BreakInv.lean) no cycle is left. -/
import SkNet.Model.Cycles
import SkNet.Spec.Connectivity
import SkNet.Lemmas.BreakInv
import SkNet.Lemmas.Complete

namespace SkNet.Cycles
open SkNet SkNet.Connectivity

/-- what one pop of the undirected traversal does -/
theorem breakNeighborsUnd_effect (cur : Nat) (rp : List Nat) (nbs : List Nat) (a : Rows) (stack : List (List Nat)) :
    (breakNeighborsUnd cur rp nbs (a, stack)).1.Sub a ∧
    (∀ q ∈ stack, q ∈ (breakNeighborsUnd cur rp nbs (a, stack)).2) ∧
    (∀ nb ∈ nbs, nb ∉ rp → (nb :: rp) ∈ (breakNeighborsUnd cur rp nbs (a, stack)).2) ∧
    (∀ nb ∈ nbs, nb ∈ rp → ¬ (rp.length > 1 ∧ nb = rp.getD 1 0) →
      nb ∉ (breakNeighborsUnd cur rp nbs (a, stack)).1.row cur) := by
  induction nbs generalizing a stack with
  | nil => simp [breakNeighborsUnd, Rows.Sub.refl]
  | cons nb rest ih =>
    unfold breakNeighborsUnd
    by_cases hback : (decide (rp.length > 1) && nb == rp.getD 1 0) = true
    · simp only [hback, ↓reduceIte]
      obtain ⟨h1, h2, h3, h4⟩ := ih a stack
      refine ⟨h1, h2, ?_, ?_⟩
      · intro x hx hxn
        rcases List.mem_cons.mp hx with rfl | hx
        · exfalso
          simp only [Bool.and_eq_true, decide_eq_true_eq, beq_iff_eq] at hback
          apply hxn
          rw [hback.2, List.getD_eq_getElem?_getD, List.getElem?_eq_getElem hback.1]
          exact List.getElem_mem _
        · exact h3 x hx hxn
      · intro x hx hxin hnp
        rcases List.mem_cons.mp hx with rfl | hx
        · exfalso; apply hnp
          simpa using hback
        · exact h4 x hx hxin hnp
    · simp only [hback, Bool.false_eq_true, ↓reduceIte]
      by_cases hin : rp.contains nb = true
      · simp only [hin, ↓reduceIte]
        obtain ⟨h1, h2, h3, h4⟩ := ih ((a.remove cur nb).remove nb cur) stack
        have hsub : ((a.remove cur nb).remove nb cur).Sub a :=
          (Rows.remove_sub _ nb cur).trans (Rows.remove_sub a cur nb)
        refine ⟨h1.trans hsub, h2, ?_, ?_⟩
        · intro x hx hxn
          rcases List.mem_cons.mp hx with rfl | hx
          · exact absurd (by simpa using hin) hxn
          · exact h3 x hx hxn
        · intro x hx hxin hnp
          rcases List.mem_cons.mp hx with rfl | hx
          · intro hmem
            have := h1.2 cur x hmem
            rw [mem_row_remove, mem_row_remove] at this
            exact this.1.2 ⟨rfl, rfl⟩
          · exact h4 x hx hxin hnp
      · simp only [hin, Bool.false_eq_true, ↓reduceIte]
        obtain ⟨h1, h2, h3, h4⟩ := ih a ((nb :: rp) :: stack)
        refine ⟨h1, fun q hq => h2 q (List.mem_cons_of_mem _ hq), ?_, ?_⟩
        · intro x hx hxn
          rcases List.mem_cons.mp hx with rfl | hx
          · exact h2 _ List.mem_cons_self
          · exact h3 x hx hxn
        · intro x hx hxin hnp
          rcases List.mem_cons.mp hx with rfl | hx
          · exact absurd hxin (by simpa using hin)
          · exact h4 x hx hxin hnp

/-- no back edge survives: every neighbour of the end of the path that lies on the path is its parent -/
def NoBackEdge (g : Rows) (rp' : List Nat) : Prop :=
  ∀ nb ∈ g.row (rp'.headD 0), nb ∈ rp' → rp'.length > 1 ∧ nb = rp'.getD 1 0

/-- ★ exploration (undirected): when the loop ends, every simple path of the remaining graph that extends a stacked
    path (whose last edge is still there) is free of back edges. -/
theorem breakLoopUnd_explores (fuel : Nat) (a : Rows) (stack : List (List Nat)) (aEnd : Rows)
    (hne : ∀ q ∈ stack, q ≠ []) (h : breakLoopUnd fuel a stack = some aEnd) :
    aEnd.Sub a ∧ ∀ rp ∈ stack, edgeGone aEnd rp = false → ∀ rp', Extends aEnd.row rp rp' → NoBackEdge aEnd rp' := by
  induction fuel generalizing a stack with
  | zero => simp [breakLoopUnd] at h
  | succ fuel ih =>
    unfold breakLoopUnd at h
    match stack, hne with
    | [], _ => simp only at h; cases h; exact ⟨Rows.Sub.refl _, fun rp hrp => by cases hrp⟩
    | rp0 :: rest, hne =>
      simp only at h
      have hner : ∀ q ∈ rest, q ≠ [] := fun q hq => hne q (List.mem_cons_of_mem _ hq)
      by_cases hgone : edgeGone a rp0 = true
      · simp only [hgone, ↓reduceIte] at h
        obtain ⟨hsub, hrest⟩ := ih a rest hner h
        refine ⟨hsub, fun rp hrp hpres => ?_⟩
        rcases List.mem_cons.mp hrp with rfl | hrp
        · rw [edgeGone_mono hsub hgone] at hpres; cases hpres
        · exact hrest rp hrp hpres
      · simp only [hgone, Bool.false_eq_true, ↓reduceIte] at h
        obtain ⟨cur, t, rfl⟩ := List.exists_cons_of_ne_nil (hne _ List.mem_cons_self)
        simp only [List.headD_cons] at h
        obtain ⟨e1, e2, e3, e4⟩ := breakNeighborsUnd_effect cur (cur :: t) (a.row cur) a rest
        have hne' : ∀ q ∈ (breakNeighborsUnd cur (cur :: t) (a.row cur) (a, rest)).2, q ≠ [] := by
          -- every entry is an old one or a push
          intro q hq hnil
          subst hnil
          -- an empty entry would have to come from `rest`
          have : ∀ (nbs : List Nat) (a : Rows) (st : List (List Nat)), (∀ q ∈ st, q ≠ []) →
              ∀ q ∈ (breakNeighborsUnd cur (cur :: t) nbs (a, st)).2, q ≠ [] := by
            intro nbs
            induction nbs with
            | nil => intro a st hst q hq; exact hst q hq
            | cons nb nbs ihn =>
              intro a st hst
              unfold breakNeighborsUnd
              split
              · exact ihn a st hst
              · split
                · exact ihn _ st hst
                · apply ihn
                  intro q hq
                  rcases List.mem_cons.mp hq with rfl | hq
                  · simp
                  · exact hst q hq
          exact this _ a rest hner [] hq rfl
        obtain ⟨hsub, hall⟩ := ih _ _ hne' h
        refine ⟨hsub.trans e1, fun rp hrp hpres rp' hext => ?_⟩
        rcases List.mem_cons.mp hrp with rfl | hrp
        · cases hext with
          | refl =>
            intro nb hnb hin
            apply Classical.byContradiction
            intro hnp
            have hnb_a : nb ∈ a.row cur := (hsub.trans e1).2 cur nb (by simpa using hnb)
            have := e4 nb hnb_a hin hnp
            exact this (hsub.2 cur nb (by simpa using hnb))
          | step hx hxn hrest =>
            rename_i x
            simp only [List.headD_cons] at hx
            have hx_a : x ∈ a.row cur := (hsub.trans e1).2 cur x hx
            have hpush := e3 x hx_a hxn
            have hpres' : edgeGone aEnd (x :: cur :: t) = false := by
              simp [edgeGone, Rows.has, hx]
            exact hall _ hpush hpres' rp' hrest
        · exact hall rp (e2 rp hrp) hpres rp' hext

end SkNet.Cycles

namespace SkNet.Cycles
open SkNet SkNet.Connectivity

theorem Extends.mono {adj adj' : Nat → List Nat} (hsub : ∀ u v, v ∈ adj u → v ∈ adj' u) {rp rp' : List Nat}
    (h : Extends adj rp rp') : Extends adj' rp rp' := by
  induction h with
  | refl => exact Extends.refl _
  | step hx hxn _ ih => exact Extends.step (hsub _ _ hx) hxn ih

/-- the traversal from `s` is over: no simple path from `s` in `g` has a back edge -/
def StartDone (g : Rows) (s : Nat) : Prop := ∀ rp', Extends g.row [s] rp' → NoBackEdge g rp'

theorem StartDone.mono {g g' : Rows} (hs : g'.Sub g) {s : Nat} (h : StartDone g s) : StartDone g' s := by
  intro rp' hext nb hnb hin
  exact h rp' (hext.mono hs.2) nb (hs.2 _ _ hnb) hin

theorem breakStarts_explores (fuel : Nat) (starts : List Nat) (a aEnd : Rows)
    (h : breakStarts fuel starts a = some aEnd) :
    aEnd.Sub a ∧ ∀ s ∈ starts, StartDone aEnd s := by
  induction starts generalizing a with
  | nil => simp only [breakStarts] at h; cases h; exact ⟨Rows.Sub.refl _, fun s hs => by cases hs⟩
  | cons s rest ih =>
    unfold breakStarts at h
    split at h
    · cases h
    · rename_i a' ha'
      obtain ⟨s1, e1⟩ := breakLoopUnd_explores fuel a [[s]] a' (by simp) ha'
      obtain ⟨s2, e2⟩ := ih a' h
      refine ⟨s2.trans s1, fun x hx => ?_⟩
      rcases List.mem_cons.mp hx with rfl | hx
      · have : StartDone a' x := fun rp' hext => e1 [x] (by simp) (by simp [edgeGone]) rp' hext
        exact this.mono s2
      · exact e2 x hx

/-- ★ a start node whose traversal is over is not connected to any cycle with three nodes or more -/
theorem no_cycle_of_startDone {n : Nat} {g : Rows} {s : Nat} (hs : StartDone g s) {C : List Nat}
    (hC : IsSimpleCycle n g.row false C) (hlen : 3 ≤ C.length) {c : Nat} (hc : c ∈ C)
    (hr : Reach g.row s c) : False := by
  have hC' : IsSimpleCycle n g.row true C := ⟨hC.1, hC.2.1, hC.2.2.1, Or.inl rfl⟩
  obtain ⟨a, b, y0, tw, hsplit, hnd, hext, hedge⟩ := path_around_cycle hC' hc hr
  have hin : y0 ∈ (b ++ a).reverse ++ y0 :: tw.reverse := by simp
  obtain ⟨_, hpar⟩ := hs _ hext y0 hedge hin
  have hL : 2 ≤ (b ++ a).length := by
    have : C.length = a.length + (b.length + 1) := by rw [hsplit]; simp
    simp only [List.length_append]
    omega
  -- the second node of the reversed path lies on the cycle and is not y0
  match hrev : (b ++ a).reverse with
  | [] => have := congrArg List.length hrev; rw [List.length_reverse] at this; simp only [List.length_nil] at this; omega
  | [_] => have := congrArg List.length hrev; rw [List.length_reverse] at this; simp only [List.length_singleton] at this; omega
  | z1 :: z2 :: zs =>
    rw [hrev] at hpar
    simp only [List.cons_append, List.getD_cons_succ, List.getD_cons_zero] at hpar
    have hz2 : z2 ∈ b ++ a := by
      have : z2 ∈ (b ++ a).reverse := by rw [hrev]; simp
      exact List.mem_reverse.mp this
    exact (List.nodup_cons.mp hnd).1 (hpar ▸ hz2)

end SkNet.Cycles
