/- Paris: whenever the chain loop returns, the rows (chain merges, then the joins of the connected components)
   replay as a valid dendrogram — whatever the similarities are. -/
import SkNet.Model.Paris
import SkNet.Lemmas.GetDendro

set_option linter.unusedSimpArgs false

namespace SkNet.Paris
open SkNet SkNet.Dendro SkNet.Agg SkNet.Hier

section
variable {α : Type} [Add α] [Mul α] [Div α] [OfNat α 0] [OfNat α 1] [OfNat α 2] [LT α] [DecidableLT α] [BEq α]

/-- consistency of the bookkeeping of `Paris.fit` with the live set `L` of the rows written so far -/
structure PInv (n : Nat) (g : AggGraph α) (rows : List (Row (HInf α))) (comps : List (Nat × Nat))
    (L : Dict Nat) : Prop where
  live : liveAfter n 0 rows (liveInit (List.replicate n 1)) = some L
  linv : LInv n rows.length L
  next : g.next = n + rows.length
  sizes : ∀ x s, g.sizes.get? x = some s → L.get? x = some s
  sizesNodup : (Dict.keys g.sizes).Nodup
  compsOK : ∀ p ∈ comps, L.get? p.1 = some p.2 ∧ g.sizes.get? p.1 = none
  compsNodup : (comps.map (·.1)).Nodup
  count : L.length = g.sizes.length + comps.length

omit [Mul α] [Div α] [OfNat α 1] [OfNat α 2] [LT α] [DecidableLT α] [BEq α] in
theorem merge_sizes (g : AggGraph α) (a b : Nat) {s1 s2 : Nat} (h1 : g.sizes.get? a = some s1)
    (h2 : g.sizes.get? b = some s2) :
    (g.merge a b).sizes = ((g.sizes.erase a).erase b).set g.next (s1 + s2) ∧ (g.merge a b).next = g.next + 1 := by
  unfold AggGraph.merge
  simp [h1, h2]

omit [Mul α] [Div α] [OfNat α 1] [OfNat α 2] [LT α] [DecidableLT α] [BEq α] in
theorem pinv_merge {n : Nat} {g : AggGraph α} {rows : List (Row (HInf α))} {comps : List (Nat × Nat)}
    {L : Dict Nat} (h : PInv n g rows comps L) {a b s1 s2 : Nat} (h1 : g.sizes.get? a = some s1)
    (h2 : g.sizes.get? b = some s2) (hne : a ≠ b) (ht : HInf α) :
    ∃ L', PInv n (g.merge a b) (rows ++ [{ i := a, j := b, h := ht, s := s1 + s2 }]) comps L' := by
  let r : Row (HInf α) := { i := a, j := b, h := ht, s := s1 + s2 }
  have hstep := liveStep_ok (n := n) (t := rows.length) (r := r) (h.sizes a s1 h1) (h.sizes b s2 h2) hne rfl
  obtain ⟨_, _, _, _, _, _, hl, hlen, hget⟩ := liveStep_spec h.linv hstep
  obtain ⟨hms, hmn⟩ := merge_sizes g a b h1 h2
  have hba := h.linv.bound _ (Dict.get?_some_key_mem (h.sizes a s1 h1))
  have hfresh : g.next ∉ Dict.keys ((g.sizes.erase a).erase b) := by
    intro hm
    have hk := (Dict.mem_keys_erase.mp (Dict.mem_keys_erase.mp hm).1).1
    obtain ⟨s, hs⟩ : ∃ s, g.sizes.get? g.next = some s := by
      cases e : g.sizes.get? g.next with
      | none => exact absurd hk ((Dict.get?_eq_none_iff _ _).mp e)
      | some s => exact ⟨s, rfl⟩
    have := h.linv.bound _ (Dict.get?_some_key_mem (h.sizes _ s hs))
    rw [h.next] at this; omega
  refine ⟨_, ⟨?_, by simpa using hl, ?_, ?_, ?_, ?_, h.compsNodup, ?_⟩⟩
  · rw [liveAfter_append, h.live]
    simp only [Option.bind_some, Nat.zero_add, liveAfter]
    rw [hstep]; rfl
  · rw [hmn, h.next]; simp; omega
  · intro x s hx
    rw [hms, Dict.get?_set, Dict.get?_erase, Dict.get?_erase] at hx
    rw [hget]
    rw [h.next] at hx
    show (if x = n + rows.length then some (s1 + s2) else if x = b then none else if x = a then none
      else L.get? x) = some s
    by_cases e1 : x = n + rows.length
    · simp only [e1, if_true] at hx ⊢; exact hx
    · simp only [e1, if_false] at hx ⊢
      by_cases e2 : x = b
      · simp [e2] at hx
      · simp only [e2, if_false] at hx ⊢
        by_cases e3 : x = a
        · simp [e3] at hx
        · simp only [e3, if_false] at hx ⊢
          exact h.sizes x s hx
  · rw [hms, Dict.set_of_not_mem hfresh]
    simp only [Dict.keys, List.map_append, List.map_cons, List.map_nil]
    refine List.nodup_append.mpr
      ⟨Dict.nodup_keys_erase (Dict.nodup_keys_erase h.sizesNodup _) _, by simp, ?_⟩
    intro x hx y hy
    simp only [List.mem_cons, List.not_mem_nil, or_false] at hy
    subst hy
    intro e; subst e; exact hfresh hx
  · intro p hp
    obtain ⟨hp1, hp2⟩ := h.compsOK p hp
    have hpb := h.linv.bound _ (Dict.get?_some_key_mem hp1)
    have e1 : p.1 ≠ n + rows.length := by omega
    have e2 : p.1 ≠ b := fun e => by rw [e, h2] at hp2; cases hp2
    have e3 : p.1 ≠ a := fun e => by rw [e, h1] at hp2; cases hp2
    constructor
    · rw [hget]; simp [e1, e2, e3, hp1, r]
    · rw [hms, Dict.get?_set, Dict.get?_erase, Dict.get?_erase, h.next]
      simp [e1, e2, e3, hp2]
  · rw [hms, Dict.set_of_not_mem hfresh]
    have l1 := Dict.length_erase_of_mem h.sizesNodup (Dict.get?_some_key_mem h1)
    have hb' : (g.sizes.erase a).get? b = some s2 := by
      rw [Dict.get?_erase]; simp [Ne.symm hne, h2]
    have l2 := Dict.length_erase_of_mem (Dict.nodup_keys_erase h.sizesNodup a) (Dict.get?_some_key_mem hb')
    have := h.count
    simp only [List.length_append, List.length_cons, List.length_nil]
    omega

omit [Add α] [Mul α] [Div α] [OfNat α 0] [OfNat α 1] [OfNat α 2] [LT α] [DecidableLT α] [BEq α] in
theorem pinv_comp {n : Nat} {g : AggGraph α} {rows : List (Row (HInf α))} {comps : List (Nat × Nat)}
    {L : Dict Nat} (h : PInv n g rows comps L) {a sz : Nat} (h1 : g.sizes.get? a = some sz) :
    PInv n { g with sizes := g.sizes.erase a } rows (comps ++ [(a, sz)]) L := by
  refine ⟨h.live, h.linv, h.next, ?_, Dict.nodup_keys_erase h.sizesNodup a, ?_, ?_, ?_⟩
  · intro x s hx
    simp only [Dict.get?_erase] at hx
    by_cases e : x = a
    · simp [e] at hx
    · simp only [e, if_false] at hx; exact h.sizes x s hx
  · intro p hp
    rcases List.mem_append.mp hp with hp | hp
    · obtain ⟨hp1, hp2⟩ := h.compsOK p hp
      refine ⟨hp1, ?_⟩
      simp only [Dict.get?_erase]
      split
      · rfl
      · exact hp2
    · simp only [List.mem_cons, List.not_mem_nil, or_false] at hp
      subst hp
      exact ⟨h.sizes a sz h1, by simp [Dict.get?_erase]⟩
  · simp only [List.map_append, List.map_cons, List.map_nil]
    refine List.nodup_append.mpr ⟨h.compsNodup, by simp, ?_⟩
    intro x hx y hy
    simp only [List.mem_cons, List.not_mem_nil, or_false] at hy
    subst hy
    obtain ⟨p, hp, rfl⟩ := List.mem_map.mp hx
    intro e
    have := (h.compsOK p hp).2
    rw [e, h1] at this; cases this
  · have l1 := Dict.length_erase_of_mem h.sizesNodup (Dict.get?_some_key_mem h1)
    have := h.count
    simp only [List.length_append, List.length_cons, List.length_nil]
    omega

omit [OfNat α 1] in
theorem scan_mem (round32 : α → α) (g : AggGraph α) (node : Nat) :
    ∀ (ks : List Nat) (acc : Nat × Option α),
      (ks.foldl (scanStep round32 g node) acc).1 ∈ ks ∨ (ks.foldl (scanStep round32 g node) acc).1 = acc.1 := by
  intro ks
  induction ks with
  | nil => intro acc; exact Or.inr rfl
  | cons k ks ih =>
    intro acc
    simp only [List.foldl_cons]
    rcases ih (scanStep round32 g node acc k) with h | h
    · exact Or.inl (List.mem_cons_of_mem _ h)
    · rw [h]
      unfold scanStep
      simp only
      split
      · exact Or.inl List.mem_cons_self
      · split
        · by_cases hle : k ≤ acc.1
          · rw [Nat.min_eq_left hle]; exact Or.inl List.mem_cons_self
          · rw [Nat.min_eq_right (by omega)]; exact Or.inr rfl
        · exact Or.inr rfl

omit [OfNat α 1] in
/-- the nearest neighbour returned by the loop is one of the neighbours scanned -/
theorem nearest_mem (round32 : α → α) (g : AggGraph α) (node k : Nat) (ks : List Nat) :
    (nearest round32 g node k ks).1 ∈ k :: ks := by
  unfold nearest
  rcases scan_mem round32 g node ks (k, similarity round32 g node k) with h | h
  · exact List.mem_cons_of_mem _ h
  · rw [h]; exact List.mem_cons_self

theorem chainStep_pinv {n : Nat} (round32 : α → α) (n0 : Nat) {st st1 : PState α} {L : Dict Nat}
    (h : PInv n st.g st.rows st.comps L) (hs : chainStep round32 n0 st = .ok (some st1)) :
    ∃ L', PInv n st1.g st1.rows st1.comps L' := by
  obtain ⟨g, chain, rows, comps⟩ := st
  unfold chainStep at hs
  split at hs
  · split at hs
    · cases hs
    · simp only [Except.ok.injEq, Option.some.injEq] at hs; subst hs; exact ⟨L, h⟩
  · rename_i node rest _
    split at hs
    · cases hs
    · rename_i rowNode hrow
      simp only at hs
      split at hs
      · split at hs
        · cases hs
        · rename_i sz hsz
          simp only [Except.ok.injEq, Option.some.injEq] at hs; subst hs
          exact ⟨L, pinv_comp h hsz⟩
      · rename_i k ks hnb
        split at hs
        · split at hs
          · split at hs
            · rename_i s1 s2 h1 h2
              simp only [Except.ok.injEq, Option.some.injEq] at hs; subst hs
              -- nn is a neighbour different from node
              have hmem := nearest_mem round32 g node k ks
              rw [← hnb] at hmem
              have hne : node ≠ (nearest round32 g node k ks).1 := by
                have := (List.mem_filter.mp hmem).2
                simp only [bne_iff_ne, ne_eq] at this
                exact fun e => this e.symm
              exact pinv_merge h h1 h2 hne _
            · cases hs
          · simp only [Except.ok.injEq, Option.some.injEq] at hs; subst hs; exact ⟨L, h⟩
        · simp only [Except.ok.injEq, Option.some.injEq] at hs; subst hs; exact ⟨L, h⟩

theorem chainStep_done (round32 : α → α) (n0 : Nat) {st : PState α} (hs : chainStep round32 n0 st = .ok none) :
    st.g.sizes = [] := by
  obtain ⟨g, chain, rows, comps⟩ := st
  unfold chainStep at hs
  split at hs
  · split at hs
    · assumption
    · cases hs
  · split at hs
    · cases hs
    · simp only at hs
      split at hs
      · split at hs <;> cases hs
      · split at hs
        · split at hs
          · split at hs <;> cases hs
          · cases hs
        · cases hs

theorem chainLoop_pinv {n : Nat} (round32 : α → α) (n0 : Nat) : ∀ (fuel : Nat) (st st' : PState α) (L : Dict Nat),
    PInv n st.g st.rows st.comps L → chainLoop round32 n0 fuel st = .ok (some st') →
    ∃ L', PInv n st'.g st'.rows st'.comps L' ∧ st'.g.sizes = [] := by
  intro fuel
  induction fuel with
  | zero => intro st st' L _ h; simp [chainLoop] at h
  | succ fuel ih =>
    intro st st' L hinv h
    unfold chainLoop at h
    split at h
    · cases h
    · rename_i hstep
      simp only [Except.ok.injEq, Option.some.injEq] at h
      subst h
      exact ⟨L, hinv, chainStep_done round32 n0 hstep⟩
    · rename_i st1 hstep
      obtain ⟨L1, h1⟩ := chainStep_pinv round32 n0 hinv hstep
      exact ih st1 st' L1 h1 h

end


/-! ### joining the connected components -/
section join
variable {α : Type}

theorem join_spec (n : Nat) : ∀ (others : List (Nat × Nat)) (rows : List (Row (HInf α))) (node size : Nat)
    (L : Dict Nat),
    liveAfter n 0 rows (liveInit (List.replicate n 1)) = some L → LInv n rows.length L →
    L.get? node = some size → (∀ p ∈ others, L.get? p.1 = some p.2 ∧ p.1 ≠ node) →
    (others.map (·.1)).Nodup →
    ∃ L', liveAfter n 0 (others.foldl joinStep (rows, node, size, n + rows.length)).1
        (liveInit (List.replicate n 1)) = some L' ∧
      (others.foldl joinStep (rows, node, size, n + rows.length)).1.length = rows.length + others.length := by
  intro others
  induction others with
  | nil => intro rows node size L h _ _ _ _; exact ⟨L, h, rfl⟩
  | cons p ps ih =>
    intro rows node size L hlive hlinv hnode hoth hnd
    obtain ⟨hp1, hp2⟩ := hoth p List.mem_cons_self
    let r : Row (HInf α) := { i := node, j := p.1, h := .inf, s := size + p.2 }
    have hstep := liveStep_ok (n := n) (t := rows.length) (r := r) hnode hp1 (Ne.symm hp2) rfl
    obtain ⟨_, _, _, _, _, _, hl, _, hget⟩ := liveStep_spec hlinv hstep
    have hlive' : liveAfter n 0 (rows ++ [r]) (liveInit (List.replicate n 1)) =
        some (((L.erase r.i).erase r.j).set (n + rows.length) r.s) := by
      rw [liveAfter_append, hlive]
      simp only [Option.bind_some, Nat.zero_add, liveAfter]
      rw [hstep]; rfl
    have hnd' : p.1 ∉ ps.map (·.1) ∧ (ps.map (·.1)).Nodup := by
      rw [List.map_cons] at hnd; exact List.nodup_cons.mp hnd
    have hlen : (rows ++ [r]).length = rows.length + 1 := by simp
    obtain ⟨L', g1, g2⟩ := ih (rows ++ [r]) (n + rows.length) (size + p.2) _ hlive'
      (by simpa using hl)
      (by rw [hget]; simp [r])
      (by
        intro q hq
        obtain ⟨hq1, hq2⟩ := hoth q (List.mem_cons_of_mem _ hq)
        have hqb := hlinv.bound _ (Dict.get?_some_key_mem hq1)
        have e1 : q.1 ≠ n + rows.length := by omega
        have e2 : q.1 ≠ p.1 := fun e => hnd'.1 (List.mem_map.mpr ⟨q, hq, e⟩)
        refine ⟨?_, e1⟩
        rw [hget]; simp [e1, e2, hq2, hq1, r])
      hnd'.2
    refine ⟨L', ?_, ?_⟩
    · simp only [List.foldl_cons, joinStep]
      have : n + rows.length + 1 = n + (rows ++ [r]).length := by rw [hlen]; omega
      rw [this]; exact g1
    · simp only [List.foldl_cons, joinStep]
      have : n + rows.length + 1 = n + (rows ++ [r]).length := by rw [hlen]; omega
      rw [this, g2, hlen]; simp; omega

end join

end SkNet.Paris
