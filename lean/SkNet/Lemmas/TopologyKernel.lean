/-
C11 helper lemmas: the array kernel `count_cliques_from_dag` (model `cliquesFrom`) computes the recursive count
`orientedCount` of the orientation stored in the CSR structure.
-/
import SkNet.Lemmas.TopologyKernelAux
import SkNet.Lemmas.TopologyMerge

set_option linter.unusedSimpArgs false

namespace SkNet.Topology

/-- `b'` differs from `b` at most in the cell `degrees[c][v]` -/
structure SameButDeg (b b' : Box) (c v : Nat) : Prop where
  deg : ∀ l w, (l ≠ c ∨ w ≠ v) → b'.deg l w = b.deg l w
  sub : ∀ l i, b'.sub l i = b.sub l i
  ns : ∀ l, b'.nsAt l = b.nsAt l
  lab : ∀ w, b'.labAt w = b.labAt w

theorem SameButDeg.refl (b : Box) (c v : Nat) : SameButDeg b b c v :=
  ⟨fun _ _ _ => rfl, fun _ _ => rfl, fun _ => rfl, fun _ => rfl⟩

/-- what the `while k < k_max` loop does to one window -/
structure PartitionPost (c v : Nat) (ix : List Nat) (b : Box) (k kMax : Nat) (r : List Nat × Box) : Prop where
  len : r.1.length = ix.length
  outside : ∀ t, (t < k ∨ kMax ≤ t) → r.1.getD t 0 = ix.getD t 0
  perm : (sliceOf r.1 k kMax).Perm (sliceOf ix k kMax)
  split : ∃ kf, k ≤ kf ∧ kf ≤ kMax ∧ (∀ t, k ≤ t → t < kf → b.labAt (r.1.getD t 0) = c) ∧
    (∀ t, kf ≤ t → t < kMax → b.labAt (r.1.getD t 0) ≠ c) ∧ r.2.deg c v = b.deg c v + (kf - k)
  same : SameButDeg b r.2 c v

theorem partitionLoop_spec (c v kn n m : Nat) (hc2 : 2 ≤ c) (hck : c ≤ kn) (hv : v < n) :
    ∀ (d : Nat) (ix : List Nat) (b : Box) (k kMax : Nat), kMax - k = d → k ≤ kMax → kMax ≤ ix.length →
      b.Shape kn n m →
      PartitionPost c v ix b k kMax (partitionLoop (c+1) v ix b k kMax) ∧
        (partitionLoop (c+1) v ix b k kMax).2.Shape kn n m := by
  intro d
  induction d with
  | zero =>
    intro ix b k kMax hd hk hmax hsh
    have hkk : ¬ k < kMax := by omega
    rw [partitionLoop, if_neg hkk]
    refine ⟨⟨rfl, fun _ _ => rfl, List.Perm.refl _, ⟨k, Nat.le_refl _, hk, ?_, ?_, by simp⟩,
      SameButDeg.refl b c v⟩, hsh⟩
    · intro t h1 h2; omega
    · intro t h1 h2; omega
  | succ d ih =>
    intro ix b k kMax hd hk hmax hsh
    have hkk : k < kMax := by omega
    rw [partitionLoop, if_pos hkk]
    simp only [Nat.add_sub_cancel]
    by_cases hlab : b.lab.getD (ix.getD k 0) 0 = c
    · -- the neighbour is in the new sub-graph: count it, move on
      rw [if_pos hlab]
      have hdl : c < b.degrees.length := by rw [hsh.degs]; omega
      have hvl : v < (b.degrees.getD c []).length := by rw [hsh.deg c hc2 hck]; exact hv
      obtain ⟨hp, hs⟩ := ih ix (b.setDeg c v (b.deg c v + 1)) (k+1) kMax (by omega) (by omega) hmax
        (hsh.setDeg c v _)
      refine ⟨?_, hs⟩
      obtain ⟨kf, h1, h2, h3, h4, h5⟩ := hp.split
      refine ⟨hp.len, fun t ht => hp.outside t (by omega), ?_, ⟨kf, by omega, h2, ?_, ?_, ?_⟩, ?_⟩
      · rw [sliceOf_cons hkk, sliceOf_cons hkk, hp.outside k (by omega)]
        exact List.Perm.cons _ hp.perm
      · intro t ht1 ht2
        by_cases htk : t = k
        · subst htk; rw [hp.outside t (by omega)]; exact hlab
        · have := h3 t (by omega) ht2
          simpa using this
      · intro t ht1 ht2
        have := h4 t ht1 ht2
        simpa using this
      · rw [h5, Box.deg_setDeg b c v _ c v hdl hvl]
        simp only [and_self, if_true]; omega
      · refine ⟨?_, ?_, ?_, ?_⟩
        · intro l w hlw
          rw [hp.same.deg l w hlw, Box.deg_setDeg b c v _ l w hdl hvl]
          have : ¬ (l = c ∧ w = v) := by
            rintro ⟨rfl, rfl⟩; rcases hlw with h | h <;> exact h rfl
          rw [if_neg this]
        · intro l i; rw [hp.same.sub]; rfl
        · intro l; rw [hp.same.ns]; rfl
        · intro w; rw [hp.same.lab]; rfl
    · -- not in the sub-graph: exchange with the last cell of the window, shrink the window
      rw [if_neg hlab]
      have hlen2 : ((ix.set k (ix.getD (kMax - 1) 0)).set (kMax - 1) (ix.getD k 0)).length = ix.length := by
        simp
      obtain ⟨hp, hs⟩ := ih ((ix.set k (ix.getD (kMax - 1) 0)).set (kMax - 1) (ix.getD k 0)) b k (kMax - 1)
        (by omega) (by omega) (by rw [hlen2]; omega) hsh
      refine ⟨?_, hs⟩
      obtain ⟨kf, h1, h2, h3, h4, h5⟩ := hp.split
      have hlast : (partitionLoop (c+1) v ((ix.set k (ix.getD (kMax - 1) 0)).set (kMax - 1) (ix.getD k 0))
          b k (kMax - 1)).1.getD (kMax - 1) 0 = ix.getD k 0 := by
        rw [hp.outside (kMax - 1) (by omega), getD_set_self _ _ _ _ (by rw [List.length_set]; omega)]
      refine ⟨by rw [hp.len, hlen2], ?_, ?_, ⟨kf, h1, by omega, h3, ?_, h5⟩, hp.same⟩
      · intro t ht
        rw [hp.outside t (by omega), getD_set_ne _ _ _ _ _ (by omega), getD_set_ne _ _ _ _ _ (by omega)]
      · -- window = (inner window) ++ [last]
        rw [sliceOf_snoc _ k kMax hkk, hlast]
        have hswap := sliceOf_swap_perm ix k kMax hkk hmax
        rw [sliceOf_snoc _ k kMax hkk, getD_set_self _ _ _ _ (by rw [List.length_set]; omega)] at hswap
        exact (List.Perm.append_right _ hp.perm).trans hswap
      · intro t ht1 ht2
        by_cases htl : t = kMax - 1
        · subst htl; rw [hlast]; exact hlab
        · exact h4 t ht1 (by omega)

end SkNet.Topology

namespace SkNet.Topology

/-! ### the first inner loop: collecting the sub-graph of the next level -/

theorem rangeFrom_succ_right (lo hi : Nat) (h : lo ≤ hi) : rangeFrom lo (hi+1) = rangeFrom lo hi ++ [hi] := by
  rw [rangeFrom_eq_range', rangeFrom_eq_range']
  have : hi + 1 - lo = (hi - lo) + 1 := by omega
  rw [this, List.range'_concat]
  congr 2
  omega

/-- body of the loop of `collectSub` -/
def collectBody (indices : List Nat) (c : Nat) (b : Box) (j : Nat) : Box :=
  let v := indices.getD j 0
  if b.lab.getD v 0 = c then
    let b := b.setLab v (c - 1)
    let b := b.setSub (c - 1) (b.ns.getD (c - 1) 0) v
    let b := b.setNs (c - 1) (b.ns.getD (c - 1) 0 + 1)
    b.setDeg (c - 1) v 0
  else b

theorem collectSub_eq (indptr indices : List Nat) (c u : Nat) (b : Box) :
    collectSub indptr indices c u b =
      (rangeFrom (indptr.getD u 0) (indptr.getD u 0 + b.deg c u)).foldl (collectBody indices c) b := rfl

/-- state after the first `t` cells of the window `[lo, lo+t)` have been collected into level `c` -/
structure CollectInv (ix : List Nat) (c lo : Nat) (b1 b : Box) (t : Nat) : Prop where
  ns : b.nsAt c = t
  sub : ∀ i, i < t → b.sub c i = ix.getD (lo + i) 0
  lab : ∀ w, b.labAt w = if (∃ i, i < t ∧ ix.getD (lo + i) 0 = w) then c else b1.labAt w
  deg0 : ∀ i, i < t → b.deg c (ix.getD (lo + i) 0) = 0
  degF : ∀ l w, l ≠ c → b.deg l w = b1.deg l w
  subF : ∀ l i, l ≠ c → b.sub l i = b1.sub l i
  nsF : ∀ l, l ≠ c → b.nsAt l = b1.nsAt l

theorem collect_fold (ix : List Nat) (c lo kn n m : Nat) (b1 : Box) (hc2 : 2 ≤ c) (hck : c < kn)
    (hsh : b1.Shape kn n m) (hns : b1.nsAt c = 0) (d : Nat) (hdm : d ≤ m)
    (hnd : (sliceOf ix lo (lo + d)).Nodup)
    (hW : ∀ i, i < d → ix.getD (lo + i) 0 < n ∧ b1.labAt (ix.getD (lo + i) 0) = c + 1) :
    ∀ t, t ≤ d →
      CollectInv ix c lo b1 ((rangeFrom lo (lo + t)).foldl (collectBody ix (c+1)) b1) t ∧
        ((rangeFrom lo (lo + t)).foldl (collectBody ix (c+1)) b1).Shape kn n m := by
  intro t
  induction t with
  | zero =>
    intro _
    have he : rangeFrom lo (lo + 0) = [] := rangeFrom_empty (by omega)
    rw [he]
    refine ⟨⟨hns, ?_, ?_, ?_, fun _ _ _ => rfl, fun _ _ _ => rfl, fun _ _ => rfl⟩, hsh⟩
    · intro i hi; omega
    · intro w
      have : ¬ ∃ i, i < 0 ∧ ix.getD (lo + i) 0 = w := by rintro ⟨i, hi, _⟩; omega
      rw [if_neg this]; rfl
    · intro i hi; omega
  | succ t ih =>
    intro ht
    obtain ⟨inv, sh⟩ := ih (by omega)
    rw [← Nat.add_assoc, rangeFrom_succ_right lo (lo + t) (by omega), List.foldl_append]
    generalize hb : (rangeFrom lo (lo + t)).foldl (collectBody ix (c+1)) b1 = b at inv sh
    simp only [List.foldl_cons, List.foldl_nil]
    -- the cell just read
    have hvn := (hW t (by omega)).1
    have hvlab1 := (hW t (by omega)).2
    generalize hv : ix.getD (lo + t) 0 = v at hvn hvlab1
    -- it is different from the cells read before
    have hfresh : ¬ ∃ i, i < t ∧ ix.getD (lo + i) 0 = v := by
      rintro ⟨i, hi, e⟩
      have hnd' := hnd
      rw [List.nodup_iff_pairwise_ne] at hnd'  
      have h1 : (sliceOf ix lo (lo + d)).getD i 0 = (sliceOf ix lo (lo + d)).getD t 0 := by
        rw [sliceOf_getD _ _ _ _ (by omega), sliceOf_getD _ _ _ _ (by omega), e, hv]
      have hl : (sliceOf ix lo (lo + d)).length = d := by rw [sliceOf_length]; omega
      have := List.pairwise_iff_getElem.1 hnd' i t (by omega) (by omega) hi
      apply this
      have e1 : (sliceOf ix lo (lo + d))[i]'(by omega) = (sliceOf ix lo (lo + d)).getD i 0 := by
        rw [List.getD_eq_getElem?_getD, List.getElem?_eq_getElem (by omega)]; rfl
      have e2 : (sliceOf ix lo (lo + d))[t]'(by omega) = (sliceOf ix lo (lo + d)).getD t 0 := by
        rw [List.getD_eq_getElem?_getD, List.getElem?_eq_getElem (by omega)]; rfl
      rw [e1, e2, h1]
    have hlabv : b.lab.getD v 0 = c + 1 := by
      have := inv.lab v
      rw [if_neg hfresh] at this
      exact this.trans hvlab1
    unfold collectBody
    simp only [hv, hlabv, if_true, Nat.add_sub_cancel]
    -- name the four writes
    have hlabLen : v < b.lab.length := by rw [sh.lab]; exact hvn
    have hnsLen : c < b.ns.length := by rw [sh.ns]; omega
    have hsubLen : c < b.subs.length := by rw [sh.subs]; omega
    have hdegLen : c < b.degrees.length := by rw [sh.degs]; omega
    have hsubRow : t < (b.subs.getD c []).length := by rw [sh.sub c hc2 hck]; omega
    have hdegRow : v < (b.degrees.getD c []).length := by rw [sh.deg c hc2 (by omega)]; exact hvn
    have hnsEq : (b.setLab v c).ns.getD c 0 = t := inv.ns
    have hnsEq2 : ((b.setLab v c).setSub c t v).ns.getD c 0 = t := inv.ns
    rw [hnsEq, hnsEq2]
    refine ⟨⟨?_, ?_, ?_, ?_, ?_, ?_, ?_⟩, (((sh.setLab v c).setSub c t v).setNs c (t+1)).setDeg c v 0⟩
    · -- ns
      show (((b.setLab v c).setSub c t v).setNs c (t+1)).nsAt c = t + 1
      rw [Box.nsAt_setNs _ _ _ _ (by simpa [Box.setSub, Box.setLab] using hnsLen)]; simp
    · -- sub
      intro i hi
      show ((b.setLab v c).setSub c t v).sub c i = _
      rw [Box.sub_setSub _ _ _ _ _ _ (by simpa [Box.setLab] using hsubLen) (by simpa [Box.setLab] using hsubRow)]
      by_cases hit : i = t
      · subst hit; rw [if_pos ⟨rfl, rfl⟩]; exact hv.symm
      · rw [if_neg (by omega)]
        exact inv.sub i (by omega)
    · -- lab
      intro w
      show (b.setLab v c).labAt w = _
      rw [Box.labAt_setLab _ _ _ _ hlabLen, inv.lab w]
      by_cases hwv : w = v
      · subst hwv
        have : ∃ i, i < t + 1 ∧ ix.getD (lo + i) 0 = w := ⟨t, by omega, hv⟩
        rw [if_pos rfl, if_pos this]
      · rw [if_neg hwv]
        by_cases hex : ∃ i, i < t ∧ ix.getD (lo + i) 0 = w
        · obtain ⟨i, hi, e⟩ := hex
          rw [if_pos ⟨i, hi, e⟩, if_pos ⟨i, by omega, e⟩]
        · have : ¬ ∃ i, i < t + 1 ∧ ix.getD (lo + i) 0 = w := by
            rintro ⟨i, hi, e⟩
            by_cases hit : i = t
            · subst hit; exact hwv (by rw [← e, hv])
            · exact hex ⟨i, by omega, e⟩
          rw [if_neg hex, if_neg this]
    · -- deg0
      intro i hi
      rw [Box.deg_setDeg _ _ _ _ _ _ (by simpa [Box.setNs, Box.setSub, Box.setLab] using hdegLen)
        (by simpa [Box.setNs, Box.setSub, Box.setLab] using hdegRow)]
      by_cases hvi : ix.getD (lo + i) 0 = v
      · rw [if_pos ⟨rfl, hvi⟩]
      · rw [if_neg (fun e => hvi e.2)]
        have hit : i ≠ t := fun e => hvi (by rw [e]; exact hv)
        exact inv.deg0 i (by omega)
    · intro l w hl
      rw [Box.deg_setDeg _ _ _ _ _ _ (by simpa [Box.setNs, Box.setSub, Box.setLab] using hdegLen)
        (by simpa [Box.setNs, Box.setSub, Box.setLab] using hdegRow)]
      rw [if_neg (fun e => hl e.1)]
      exact inv.degF l w hl
    · intro l i hl
      show ((b.setLab v c).setSub c t v).sub l i = _
      rw [Box.sub_setSub _ _ _ _ _ _ (by simpa [Box.setLab] using hsubLen) (by simpa [Box.setLab] using hsubRow)]
      rw [if_neg (fun e => hl e.1)]
      exact inv.subF l i hl
    · intro l hl
      show (((b.setLab v c).setSub c t v).setNs c (t+1)).nsAt l = _
      rw [Box.nsAt_setNs _ _ _ _ (by simpa [Box.setSub, Box.setLab] using hnsLen), if_neg hl]
      exact inv.nsF l hl

end SkNet.Topology

namespace SkNet.Topology

/-! ### the context of the kernel and the invariant of one level -/

/-- what the kernel assumes of `indptr`: monotone, ending inside `indices`, every out-degree at most `m` -/
structure KernelCtx (indptr : List Nat) (n L m : Nat) : Prop where
  mono : ∀ v w, v ≤ w → w ≤ n → indptr.getD v 0 ≤ indptr.getD w 0
  last : indptr.getD n 0 ≤ L
  degLe : ∀ v, v < n → indptr.getD (v+1) 0 - indptr.getD v 0 ≤ m

/-- the candidate list of level `c` -/
def subList (b : Box) (c : Nat) : List Nat := (List.range (b.nsAt c)).map (b.sub c)

/-- the first `deg_c v` cells of the segment of `v` -/
def prefOf (indptr ix : List Nat) (b : Box) (c v : Nat) : List Nat :=
  sliceOf ix (indptr.getD v 0) (indptr.getD v 0 + b.deg c v)

theorem mem_subList {b : Box} {c v : Nat} : v ∈ subList b c ↔ ∃ i, i < b.nsAt c ∧ b.sub c i = v := by
  unfold subList
  rw [List.mem_map]
  constructor
  · rintro ⟨i, hi, e⟩; exact ⟨i, List.mem_range.1 hi, e⟩
  · rintro ⟨i, hi, e⟩; exact ⟨i, List.mem_range.2 hi, e⟩

theorem subList_congr {b b' : Box} {c : Nat} (hns : b'.nsAt c = b.nsAt c) (hsub : ∀ i, b'.sub c i = b.sub c i) :
    subList b' c = subList b c := by
  unfold subList
  rw [hns]
  apply List.map_congr_left
  intro i _
  exact hsub i

/-- different positions of a duplicate-free candidate list hold different nodes -/
theorem subList_inj {b : Box} {c i t : Nat} (hnd : (subList b c).Nodup) (hi : i < b.nsAt c) (ht : t < b.nsAt c)
    (e : b.sub c i = b.sub c t) : i = t := by
  unfold subList at hnd
  rw [List.nodup_iff_pairwise_ne] at hnd
  have hp := List.pairwise_iff_getElem.1 hnd
  have hl : ((List.range (b.nsAt c)).map (b.sub c)).length = b.nsAt c := by simp
  by_cases hlt : i < t
  · have h1 := hp i t (by omega) (by omega) hlt
    simp only [List.getElem_map, List.getElem_range] at h1
    exact absurd e h1
  · by_cases hgt : t < i
    · have h1 := hp t i (by omega) (by omega) hgt
      simp only [List.getElem_map, List.getElem_range] at h1
      exact absurd e.symm h1
    · omega

/-- segments of different nodes do not overlap -/
theorem KernelCtx.disjoint {indptr : List Nat} {n L m : Nat} (K : KernelCtx indptr n L m) {v w : Nat}
    (hv : v < n) (hw : w < n) (hne : v ≠ w) (t : Nat)
    (h1 : indptr.getD v 0 ≤ t) (h2 : t < indptr.getD (v+1) 0) :
    t < indptr.getD w 0 ∨ indptr.getD (w+1) 0 ≤ t := by
  by_cases hvw : v < w
  · left
    have := K.mono (v+1) w (by omega) (by omega)
    omega
  · right
    have := K.mono (w+1) v (by omega) (by omega)
    omega

theorem KernelCtx.seg_le {indptr : List Nat} {n L m : Nat} (K : KernelCtx indptr n L m) {v : Nat} (hv : v < n) :
    indptr.getD (v+1) 0 ≤ L := by
  have := K.mono (v+1) n (by omega) (Nat.le_refl _)
  have := K.last
  omega

/-! ### the second inner loop: restricting the out-lists to the new sub-graph -/

/-- body of the loop of `restrictSub` -/
def restrictBody (indptr : List Nat) (c : Nat) (ib : List Nat × Box) (j : Nat) : List Nat × Box :=
  partitionLoop c (ib.2.sub (c - 1) j) ib.1 ib.2 (indptr.getD (ib.2.sub (c - 1) j) 0)
    (indptr.getD (ib.2.sub (c - 1) j) 0 + ib.2.deg c (ib.2.sub (c - 1) j))

theorem restrictSub_eq (indptr : List Nat) (c : Nat) (indices : List Nat) (b : Box) :
    restrictSub indptr c indices b =
      (List.range (b.ns.getD (c - 1) 0)).foldl (restrictBody indptr c) (indices, b) := rfl

/-- state after the out-lists of the first `t` nodes of the new sub-graph have been restricted -/
structure RestrictInv (indptr : List Nat) (p : Nat → Nat → Bool) (c L : Nat) (ix : List Nat) (b2 : Box)
    (S S' : List Nat) (r : List Nat × Box) (t : Nat) : Prop where
  len : r.1.length = L
  degF : ∀ l w, l ≠ c → r.2.deg l w = b2.deg l w
  degLater : ∀ i, t ≤ i → i < b2.nsAt c → r.2.deg c (b2.sub c i) = b2.deg c (b2.sub c i)
  subF : ∀ l i, r.2.sub l i = b2.sub l i
  nsF : ∀ l, r.2.nsAt l = b2.nsAt l
  labF : ∀ w, r.2.labAt w = b2.labAt w
  prefUp : ∀ v ∈ S, (prefOf indptr r.1 r.2 (c+1) v).Perm (prefOf indptr ix b2 (c+1) v)
  prefNew : ∀ i, i < t → i < b2.nsAt c →
    (prefOf indptr r.1 r.2 c (b2.sub c i)).Perm (S'.filter (p (b2.sub c i))) ∧
      indptr.getD (b2.sub c i) 0 + r.2.deg c (b2.sub c i) ≤ indptr.getD (b2.sub c i + 1) 0 ∧
      r.2.deg c (b2.sub c i) ≤ b2.deg (c+1) (b2.sub c i)
  /-- only cells inside the level-`c+1` windows of the new candidates are written -/
  outside : ∀ x, (∀ v ∈ S', x < indptr.getD v 0 ∨ indptr.getD v 0 + b2.deg (c+1) v ≤ x) →
    r.1.getD x 0 = ix.getD x 0

theorem restrict_fold (indptr : List Nat) (p : Nat → Nat → Bool) (c kn n m L : Nat) (K : KernelCtx indptr n L m)
    (hc2 : 2 ≤ c) (hck : c < kn) (ix : List Nat) (b2 : Box) (hsh : b2.Shape kn n m) (hlen : ix.length = L)
    (S S' : List Nat) (hS' : S' = subList b2 c)
    (hSnd : S.Nodup) (hSlt : ∀ v ∈ S, v < n)
    (hbound : ∀ v ∈ S, indptr.getD v 0 + b2.deg (c+1) v ≤ indptr.getD (v+1) 0)
    (hpref : ∀ v ∈ S, (prefOf indptr ix b2 (c+1) v).Perm (S.filter (p v)))
    (hS'nd : S'.Nodup) (hsub : ∀ v ∈ S', v ∈ S)
    (hlab : ∀ w ∈ S, (b2.labAt w = c ↔ w ∈ S'))
    (hdeg0 : ∀ v ∈ S', b2.deg c v = 0) :
    ∀ t, t ≤ b2.nsAt c →
      RestrictInv indptr p c L ix b2 S S' ((List.range t).foldl (restrictBody indptr (c+1)) (ix, b2)) t ∧
        ((List.range t).foldl (restrictBody indptr (c+1)) (ix, b2)).2.Shape kn n m := by
  intro t
  induction t with
  | zero =>
    intro _
    refine ⟨⟨hlen, fun _ _ _ => rfl, fun _ _ _ => rfl, fun _ _ => rfl, fun _ => rfl, fun _ => rfl,
      fun _ _ => List.Perm.refl _, ?_, fun _ _ => rfl⟩, hsh⟩
    intro i hi; omega
  | succ t ih =>
    intro ht
    obtain ⟨inv, sh⟩ := ih (by omega)
    rw [List.range_succ, List.foldl_append]
    generalize hr : (List.range t).foldl (restrictBody indptr (c+1)) (ix, b2) = r at inv sh
    simp only [List.foldl_cons, List.foldl_nil]
    unfold restrictBody
    simp only [Nat.add_sub_cancel]
    -- the node whose out-list is restricted in this round
    have hvS' : b2.sub c t ∈ S' := by rw [hS']; exact mem_subList.2 ⟨t, by omega, rfl⟩
    rw [inv.subF c t]
    generalize hv : b2.sub c t = v at hvS'
    have hvS : v ∈ S := hsub v hvS'
    have hvn : v < n := hSlt v hvS
    have hdegUp : r.2.deg (c+1) v = b2.deg (c+1) v := inv.degF (c+1) v (by omega)
    have hhi : indptr.getD v 0 + r.2.deg (c+1) v ≤ indptr.getD (v+1) 0 := by rw [hdegUp]; exact hbound v hvS
    have hseg : indptr.getD (v+1) 0 ≤ L := K.seg_le hvn
    obtain ⟨hp, hs⟩ := partitionLoop_spec c v kn n m hc2 (by omega) hvn _ r.1 r.2 (indptr.getD v 0)
      (indptr.getD v 0 + r.2.deg (c+1) v) rfl (by omega) (by rw [inv.len]; omega) sh
    generalize hr' : partitionLoop (c+1) v r.1 r.2 (indptr.getD v 0) (indptr.getD v 0 + r.2.deg (c+1) v) = r'
      at hp hs
    refine ⟨?_, hs⟩
    obtain ⟨kf, hk1, hk2, hgood, hbad, hdegv⟩ := hp.split
    have hdegv0 : r.2.deg c v = 0 := by
      have := inv.degLater t (Nat.le_refl _) (by omega)
      rw [hv] at this
      rw [this]; exact hdeg0 v hvS'
    -- cells outside the segment of `v` are untouched
    have houtside : ∀ w, w < n → w ≠ v → ∀ x, indptr.getD w 0 ≤ x → x < indptr.getD (w+1) 0 →
        r'.1.getD x 0 = r.1.getD x 0 := by
      intro w hw hne x h1 h2
      apply hp.outside
      have := K.disjoint hw hvn hne x h1 h2
      omega
    refine ⟨by rw [hp.len, inv.len], ?_, ?_, ?_, ?_, ?_, ?_, ?_, ?_⟩
    · intro l w hl
      rw [hp.same.deg l w (Or.inl hl)]; exact inv.degF l w hl
    · intro i hi1 hi2
      have hne : b2.sub c i ≠ v := by
        intro e
        -- `S'` is duplicate-free: position `i > t` cannot hold `v`
        have := subList_inj (hS' ▸ hS'nd) hi2 (by omega) (e.trans hv.symm)
        omega
      rw [hp.same.deg c _ (Or.inr hne)]
      exact inv.degLater i (by omega) hi2
    · intro l i; rw [hp.same.sub]; exact inv.subF l i
    · intro l; rw [hp.same.ns]; exact inv.nsF l
    · intro w; rw [hp.same.lab]; exact inv.labF w
    · -- the windows of level `c+1`
      intro w hw
      refine List.Perm.trans ?_ (inv.prefUp w hw)
      unfold prefOf
      rw [hp.same.deg (c+1) w (Or.inl (by omega))]
      by_cases hwv : w = v
      · subst hwv; exact hp.perm
      · have hwn := hSlt w hw
        have hb := hbound w hw
        rw [← inv.degF (c+1) w (by omega)] at hb
        rw [sliceOf_congr r'.1 r.1]
        intro x h1 h2
        exact houtside w hwn hwv x h1 (by omega)
    · -- the windows of level `c`
      intro i hi1 hi2
      by_cases hit : i = t
      · subst hit
        rw [hv]
        have hdv : r'.2.deg c v = kf - indptr.getD v 0 := by rw [hdegv, hdegv0]; omega
        constructor
        · unfold prefOf
          rw [hdv]
          have hkf : indptr.getD v 0 + (kf - indptr.getD v 0) = kf := by omega
          rw [hkf]
          -- the window splits into the cells labelled `c` and the others
          have hsplit : sliceOf r'.1 (indptr.getD v 0) (indptr.getD v 0 + r.2.deg (c+1) v) =
              sliceOf r'.1 (indptr.getD v 0) kf ++ sliceOf r'.1 kf (indptr.getD v 0 + r.2.deg (c+1) v) :=
            sliceOf_append _ _ _ _ hk1 hk2
          have hW : (sliceOf r'.1 (indptr.getD v 0) kf ++
              sliceOf r'.1 kf (indptr.getD v 0 + r.2.deg (c+1) v)).Perm (S.filter (p v)) := by
            rw [← hsplit]
            refine hp.perm.trans ?_
            have := inv.prefUp v hvS
            unfold prefOf at this
            rw [hdegUp]
            rw [hdegUp] at this
            exact this.trans (hpref v hvS)
          have hG := good_prefix_perm (fun x => decide (b2.labAt x = c)) hW
            (by
              intro x hx
              obtain ⟨y, h1, h2, e⟩ := mem_sliceOf.1 hx
              have := hgood y h1 h2
              rw [e, inv.labF] at this
              simp [this])
            (by
              intro x hx
              obtain ⟨y, h1, h2, e⟩ := mem_sliceOf.1 hx
              have := hbad y h1 h2
              rw [e, inv.labF] at this
              simp [this])
          refine hG.trans ?_
          apply perm_of_nodup_mem
          · exact (hSnd.filter _).filter _
          · exact hS'nd.filter _
          · intro x
            simp only [List.mem_filter, decide_eq_true_eq]
            constructor
            · rintro ⟨⟨hxS, hpx⟩, hq⟩
              exact ⟨(hlab x hxS).1 hq, hpx⟩
            · rintro ⟨hxS', hpx⟩
              exact ⟨⟨hsub x hxS', hpx⟩, (hlab x (hsub x hxS')).2 hxS'⟩
        · refine ⟨by rw [hdv]; omega, ?_⟩
          rw [hdv, ← hdegUp]; omega
      · have hi3 : i < t := by omega
        have hw' : b2.sub c i ∈ S' := by rw [hS']; exact mem_subList.2 ⟨i, hi2, rfl⟩
        have hne : b2.sub c i ≠ v := by
          intro e
          have := subList_inj (hS' ▸ hS'nd) hi2 (by omega) (e.trans hv.symm)
          omega
        obtain ⟨hq1, hq2, hq3⟩ := inv.prefNew i hi3 hi2
        have hwn : b2.sub c i < n := hSlt _ (hsub _ hw')
        have hdeq : r'.2.deg c (b2.sub c i) = r.2.deg c (b2.sub c i) := hp.same.deg c _ (Or.inr hne)
        refine ⟨?_, ?_, ?_⟩
        · refine List.Perm.trans ?_ hq1
          unfold prefOf
          rw [hdeq, sliceOf_congr r'.1 r.1]
          intro x h1 h2
          exact houtside _ hwn hne x h1 (by omega)
        · rw [hdeq]; exact hq2
        · rw [hdeq]; exact hq3
    · -- outside the windows nothing is written
      intro x hx
      have hxv := hx v hvS'
      rw [hp.outside x (by rw [hdegUp]; omega)]
      exact inv.outside x hx

end SkNet.Topology

namespace SkNet.Topology

/-! ### the last inner loop: restoring the labels -/

/-- body of the loop of `restoreLab` -/
theorem restoreLab_eq (c : Nat) (b : Box) :
    restoreLab c b = (List.range (b.ns.getD (c - 1) 0)).foldl (fun b j => b.setLab (b.sub (c - 1) j) c) b := rfl

theorem restore_fold (c kn n m : Nat) (b4 : Box) (hsh : b4.Shape kn n m)
    (hlt : ∀ i, i < b4.nsAt c → b4.sub c i < n) :
    ∀ t, t ≤ b4.nsAt c →
      let b5 := (List.range t).foldl (fun b j => b.setLab (b.sub c j) (c+1)) b4
      b5.Shape kn n m ∧ (∀ l i, b5.sub l i = b4.sub l i) ∧ (∀ l, b5.nsAt l = b4.nsAt l) ∧
        (∀ l w, b5.deg l w = b4.deg l w) ∧
        (∀ w, b5.labAt w = if (∃ i, i < t ∧ b4.sub c i = w) then c + 1 else b4.labAt w) := by
  intro t
  induction t with
  | zero =>
    intro _
    refine ⟨hsh, fun _ _ => rfl, fun _ => rfl, fun _ _ => rfl, ?_⟩
    intro w
    have : ¬ ∃ i, i < 0 ∧ b4.sub c i = w := by rintro ⟨i, hi, _⟩; omega
    rw [if_neg this]; rfl
  | succ t ih =>
    intro ht
    obtain ⟨sh, hsub, hns, hdeg, hlab⟩ := ih (by omega)
    rw [List.range_succ, List.foldl_append]
    generalize (List.range t).foldl (fun b j => b.setLab (b.sub c j) (c+1)) b4 = b at sh hsub hns hdeg hlab
    simp only [List.foldl_cons, List.foldl_nil]
    rw [hsub c t]
    refine ⟨sh.setLab _ _, fun l i => hsub l i, fun l => hns l, fun l w => hdeg l w, ?_⟩
    intro w
    rw [Box.labAt_setLab _ _ _ _ (by rw [sh.lab]; exact hlt t (by omega)), hlab w]
    by_cases hw : w = b4.sub c t
    · rw [if_pos hw, if_pos ⟨t, by omega, hw.symm⟩]
    · rw [if_neg hw]
      by_cases hex : ∃ i, i < t ∧ b4.sub c i = w
      · obtain ⟨i, hi, e⟩ := hex
        rw [if_pos ⟨i, hi, e⟩, if_pos ⟨i, by omega, e⟩]
      · have : ¬ ∃ i, i < t + 1 ∧ b4.sub c i = w := by
          rintro ⟨i, hi, e⟩
          by_cases hit : i = t
          · subst hit; exact hw e.symm
          · exact hex ⟨i, by omega, e⟩
        rw [if_neg hex, if_neg this]

/-! ### the invariant of a level and the frame of a call -/

structure LevelInv (indptr : List Nat) (p : Nat → Nat → Bool) (kn n m L c : Nat) (ix : List Nat) (b : Box) :
    Prop where
  shape : b.Shape kn n m
  ixLen : ix.length = L
  nodup : (subList b c).Nodup
  lt : ∀ v ∈ subList b c, v < n
  bound : ∀ v ∈ subList b c, indptr.getD v 0 + b.deg c v ≤ indptr.getD (v+1) 0
  pref : ∀ v ∈ subList b c, (prefOf indptr ix b c v).Perm ((subList b c).filter (p v))
  lab : ∀ v ∈ subList b c, b.labAt v = c

/-- a call at level `c` leaves the labels and everything of the levels `≥ c` as it found them -/
structure Frame (c : Nat) (b b' : Box) : Prop where
  lab : ∀ w, b'.labAt w = b.labAt w
  ns : ∀ l, c ≤ l → b'.nsAt l = b.nsAt l
  sub : ∀ l i, c ≤ l → b'.sub l i = b.sub l i
  deg : ∀ l w, c ≤ l → b'.deg l w = b.deg l w

theorem Frame.refl (c : Nat) (b : Box) : Frame c b b := ⟨fun _ => rfl, fun _ _ => rfl, fun _ _ _ => rfl, fun _ _ _ => rfl⟩

theorem Frame.trans {c : Nat} {b b' b'' : Box} (h1 : Frame c b b') (h2 : Frame c b' b'') : Frame c b b'' :=
  ⟨fun w => (h2.lab w).trans (h1.lab w), fun l hl => (h2.ns l hl).trans (h1.ns l hl),
   fun l i hl => (h2.sub l i hl).trans (h1.sub l i hl), fun l w hl => (h2.deg l w hl).trans (h1.deg l w hl)⟩

theorem sliceOf_range (l : List Nat) (a d : Nat) :
    sliceOf l a (a + d) = (List.range d).map fun i => l.getD (a + i) 0 := by
  unfold sliceOf rangeFrom
  rw [List.map_map]
  have : a + d - a = d := by omega
  rw [this]
  apply List.map_congr_left
  intro i _
  simp [Nat.add_comm]

/-- what a call does to `indices`: it permutes the level-`c` windows of its candidates and writes nothing else -/
structure IxPost (indptr : List Nat) (L c : Nat) (S : List Nat) (b : Box) (ix ix' : List Nat) : Prop where
  len : ix'.length = L
  win : ∀ v ∈ S, (prefOf indptr ix' b c v).Perm (prefOf indptr ix b c v)
  outside : ∀ x, (∀ v ∈ S, x < indptr.getD v 0 ∨ indptr.getD v 0 + b.deg c v ≤ x) → ix'.getD x 0 = ix.getD x 0

/-- what a call at level `c` returns -/
def CallSpec (indptr : List Nat) (p : Nat → Nat → Bool) (kn n m L c : Nat) : Prop :=
  ∀ (ix : List Nat) (b : Box), LevelInv indptr p kn n m L c ix b →
    (cliquesFrom indptr c ix b).1 = orientedCount p c (subList b c) ∧
      (cliquesFrom indptr c ix b).2.2.Shape kn n m ∧ Frame c b (cliquesFrom indptr c ix b).2.2 ∧
      IxPost indptr L c (subList b c) b ix (cliquesFrom indptr c ix b).2.1

/-- one round of the loop of level `c+1`: collect, restrict, recurse, restore -/
theorem level_step (indptr : List Nat) (p : Nat → Nat → Bool) (kn n m L c : Nat) (K : KernelCtx indptr n L m)
    (hc2 : 2 ≤ c) (hck : c < kn) (ih : CallSpec indptr p kn n m L c)
    (ix : List Nat) (b : Box) (inv : LevelInv indptr p kn n m L (c+1) ix b) (u : Nat)
    (hu : u ∈ subList b (c+1)) :
    let b2 := collectSub indptr ix (c+1) u (b.setNs c 0)
    let ib3 := restrictSub indptr (c+1) ix b2
    let r4 := cliquesFrom indptr c ib3.1 ib3.2
    let b5 := restoreLab (c+1) r4.2.2
    r4.1 = orientedCount p c ((subList b (c+1)).filter (p u)) ∧
      LevelInv indptr p kn n m L (c+1) r4.2.1 b5 ∧ Frame (c+1) b b5 ∧
      IxPost indptr L (c+1) (subList b (c+1)) b ix r4.2.1 := by
  intro b2 ib3 r4 b5
  -- abbreviations
  have hsh := inv.shape
  have hun : u < n := inv.lt u hu
  have hnsLen : c < b.ns.length := by rw [hsh.ns]; omega
  -- b1 := b.setNs c 0
  have hb1ns : (b.setNs c 0).nsAt c = 0 := by rw [Box.nsAt_setNs _ _ _ _ hnsLen]; simp
  have hb1nsF : ∀ l, l ≠ c → (b.setNs c 0).nsAt l = b.nsAt l := by
    intro l hl; rw [Box.nsAt_setNs _ _ _ _ hnsLen, if_neg hl]
  -- the window of `u`
  have hbu := inv.bound u hu
  have hdm : b.deg (c+1) u ≤ m := by have := K.degLe u hun; omega
  have hWperm := inv.pref u hu
  have hWnd : (sliceOf ix (indptr.getD u 0) (indptr.getD u 0 + b.deg (c+1) u)).Nodup :=
    hWperm.nodup_iff.2 (inv.nodup.filter _)
  have hWmem : ∀ i, i < b.deg (c+1) u → ix.getD (indptr.getD u 0 + i) 0 ∈ subList b (c+1) := by
    intro i hi
    have : ix.getD (indptr.getD u 0 + i) 0 ∈ prefOf indptr ix b (c+1) u :=
      mem_sliceOf.2 ⟨indptr.getD u 0 + i, by omega, by omega, rfl⟩
    exact (List.mem_filter.1 (hWperm.mem_iff.1 this)).1
  -- collect
  obtain ⟨cinv, sh2⟩ := collect_fold ix c (indptr.getD u 0) kn n m (b.setNs c 0) hc2 hck (hsh.setNs c 0) hb1ns
    (b.deg (c+1) u) hdm hWnd
    (fun i hi => ⟨inv.lt _ (hWmem i hi), inv.lab _ (hWmem i hi)⟩) (b.deg (c+1) u) (Nat.le_refl _)
  have hb2eq : (rangeFrom (indptr.getD u 0) (indptr.getD u 0 + b.deg (c+1) u)).foldl (collectBody ix (c+1))
      (b.setNs c 0) = b2 := rfl
  rw [hb2eq] at cinv sh2
  -- the two candidate lists seen from `b2`
  have hS2 : subList b2 (c+1) = subList b (c+1) :=
    subList_congr (by rw [cinv.nsF (c+1) (by omega), hb1nsF (c+1) (by omega)])
      (fun i => by rw [cinv.subF (c+1) i (by omega)]; rfl)
  have hS2' : subList b2 c = prefOf indptr ix b (c+1) u := by
    unfold subList prefOf
    rw [cinv.ns, sliceOf_range]
    apply List.map_congr_left
    intro i hi
    exact cinv.sub i (List.mem_range.1 hi)
  have hdeg2 : ∀ w, b2.deg (c+1) w = b.deg (c+1) w := fun w => cinv.degF (c+1) w (by omega)
  have hpref2 : ∀ v, prefOf indptr ix b2 (c+1) v = prefOf indptr ix b (c+1) v := by
    intro v; unfold prefOf; rw [hdeg2]
  have hmemW : ∀ w, (∃ i, i < b.deg (c+1) u ∧ ix.getD (indptr.getD u 0 + i) 0 = w) ↔
      w ∈ prefOf indptr ix b (c+1) u := by
    intro w
    constructor
    · rintro ⟨i, hi, e⟩; exact mem_sliceOf.2 ⟨indptr.getD u 0 + i, by omega, by omega, e⟩
    · intro hw
      obtain ⟨t, h1, h2, e⟩ := mem_sliceOf.1 hw
      exact ⟨t - indptr.getD u 0, by omega, by rw [← e]; congr 1; omega⟩
  have hWsub : ∀ v ∈ prefOf indptr ix b (c+1) u, v ∈ subList b (c+1) := fun v hv =>
    (List.mem_filter.1 (hWperm.mem_iff.1 hv)).1
  -- restrict
  obtain ⟨rinv, sh3⟩ := restrict_fold indptr p c kn n m L K hc2 hck ix b2 sh2 inv.ixLen
    (subList b (c+1)) (prefOf indptr ix b (c+1) u) hS2'.symm inv.nodup inv.lt
    (fun v hv => by rw [hdeg2]; exact inv.bound v hv)
    (fun v hv => by rw [hpref2]; exact inv.pref v hv)
    hWnd hWsub
    (fun w hw => by
      rw [cinv.lab w]
      by_cases hex : ∃ i, i < b.deg (c+1) u ∧ ix.getD (indptr.getD u 0 + i) 0 = w
      · rw [if_pos hex]; exact ⟨fun _ => (hmemW w).1 hex, fun _ => rfl⟩
      · rw [if_neg hex]
        have h1 : (b.setNs c 0).labAt w = c + 1 := inv.lab w hw
        rw [h1]
        exact ⟨fun e => by omega, fun hm => absurd ((hmemW w).2 hm) hex⟩)
    (fun v hv => by
      obtain ⟨i, hi, e⟩ := (hmemW v).2 hv
      rw [← e]; exact cinv.deg0 i hi)
    (b2.nsAt c) (Nat.le_refl _)
  have hib3 : (List.range (b2.nsAt c)).foldl (restrictBody indptr (c+1)) (ix, b2) = ib3 := rfl
  rw [hib3] at rinv sh3
  -- the invariant of level `c` for the recursive call
  have hS3' : subList ib3.2 c = prefOf indptr ix b (c+1) u := by
    rw [subList_congr (rinv.nsF c) (fun i => rinv.subF c i), hS2']
  have hpos : ∀ v ∈ prefOf indptr ix b (c+1) u, ∃ i, i < b2.nsAt c ∧ b2.sub c i = v := by
    intro v hv; rw [← hS2'] at hv; exact mem_subList.1 hv
  have inv3 : LevelInv indptr p kn n m L c ib3.1 ib3.2 := by
    refine ⟨sh3, rinv.len, by rw [hS3']; exact hWnd, ?_, ?_, ?_, ?_⟩
    · intro v hv; rw [hS3'] at hv; exact inv.lt v (hWsub v hv)
    · intro v hv; rw [hS3'] at hv
      obtain ⟨i, hi, e⟩ := hpos v hv
      have := (rinv.prefNew i hi hi).2.1
      rw [e] at this; exact this
    · intro v hv; rw [hS3'] at hv ⊢
      obtain ⟨i, hi, e⟩ := hpos v hv
      have := (rinv.prefNew i hi hi).1
      rw [e] at this; exact this
    · intro v hv; rw [hS3'] at hv
      rw [rinv.labF, cinv.lab, if_pos ((hmemW v).2 hv)]
  obtain ⟨hcnt, sh4, fr4, ixp4⟩ := ih ib3.1 ib3.2 inv3
  have hr4 : cliquesFrom indptr c ib3.1 ib3.2 = r4 := rfl
  rw [hr4] at hcnt sh4 fr4 ixp4
  rw [hS3'] at ixp4
  -- restore
  have hns4 : r4.2.2.nsAt c = b2.nsAt c := by rw [fr4.ns c (Nat.le_refl _), rinv.nsF]
  have hsub4 : ∀ i, r4.2.2.sub c i = b2.sub c i := fun i => by rw [fr4.sub c i (Nat.le_refl _), rinv.subF]
  obtain ⟨sh5, hsub5, hns5, hdeg5, hlab5⟩ := restore_fold c kn n m r4.2.2 sh4
    (fun i hi => by
      rw [hsub4]
      have : b2.sub c i ∈ subList b2 c := mem_subList.2 ⟨i, by rw [← hns4]; exact hi, rfl⟩
      rw [hS2'] at this
      exact inv.lt _ (hWsub _ this))
    (r4.2.2.nsAt c) (Nat.le_refl _)
  have hb5 : (List.range (r4.2.2.nsAt c)).foldl (fun b j => b.setLab (b.sub c j) (c+1)) r4.2.2 = b5 := rfl
  rw [hb5] at sh5 hsub5 hns5 hdeg5 hlab5
  -- the labels are back
  have hlabBack : ∀ w, b5.labAt w = b.labAt w := by
    intro w
    rw [hlab5 w]
    have hiff : (∃ i, i < r4.2.2.nsAt c ∧ r4.2.2.sub c i = w) ↔ w ∈ prefOf indptr ix b (c+1) u := by
      rw [← hS2', mem_subList, hns4]
      constructor
      · rintro ⟨i, hi, e⟩; exact ⟨i, hi, by rw [← hsub4]; exact e⟩
      · rintro ⟨i, hi, e⟩; exact ⟨i, hi, by rw [hsub4]; exact e⟩
    by_cases hw : w ∈ prefOf indptr ix b (c+1) u
    · rw [if_pos (hiff.2 hw)]
      exact (inv.lab w (hWsub w hw)).symm
    · rw [if_neg (fun e => hw (hiff.1 e)), fr4.lab, rinv.labF, cinv.lab, if_neg (fun e => hw ((hmemW w).1 e))]
      rfl
  -- levels above `c` are untouched
  have hnsUp : ∀ l, c + 1 ≤ l → b5.nsAt l = b.nsAt l := by
    intro l hl
    rw [hns5, fr4.ns l (by omega), rinv.nsF, cinv.nsF l (by omega), hb1nsF l (by omega)]
  have hsubUp : ∀ l i, c + 1 ≤ l → b5.sub l i = b.sub l i := by
    intro l i hl
    rw [hsub5, fr4.sub l i (by omega), rinv.subF, cinv.subF l i (by omega)]; rfl
  have hdegUp : ∀ l w, c + 1 ≤ l → b5.deg l w = b.deg l w := by
    intro l w hl
    rw [hdeg5, fr4.deg l w (by omega), rinv.degF l w (by omega), cinv.degF l w (by omega)]; rfl
  have hS5 : subList b5 (c+1) = subList b (c+1) :=
    subList_congr (hnsUp (c+1) (Nat.le_refl _)) (fun i => hsubUp (c+1) i (Nat.le_refl _))
  -- what the recursive call did to `indices`, seen from the windows of level `c+1`
  have hdeg3 : ∀ w, ib3.2.deg (c+1) w = b.deg (c+1) w := fun w => by rw [rinv.degF (c+1) w (by omega), hdeg2]
  have hwin4 : ∀ v ∈ subList b (c+1), (sliceOf r4.2.1 (indptr.getD v 0) (indptr.getD v 0 + b.deg (c+1) v)).Perm
      (sliceOf ib3.1 (indptr.getD v 0) (indptr.getD v 0 + b.deg (c+1) v)) := by
    intro v hv
    have hvn := inv.lt v hv
    have hbv := inv.bound v hv
    -- cells of the segment of `v` beyond its level-`c` window (if it has one) are untouched
    have hrest : ∀ x, indptr.getD v 0 ≤ x → x < indptr.getD (v+1) 0 →
        (v ∈ prefOf indptr ix b (c+1) u → indptr.getD v 0 + ib3.2.deg c v ≤ x) →
        r4.2.1.getD x 0 = ib3.1.getD x 0 := by
      intro x h1 h2 h3
      apply ixp4.outside
      intro v' hv'
      by_cases e : v' = v
      · subst e; exact Or.inr (h3 hv')
      · have hv'n : v' < n := inv.lt v' (hWsub v' hv')
        have hb' := inv3.bound v' (by rw [hS3']; exact hv')
        have := K.disjoint hvn hv'n (fun e' => e e'.symm) x h1 h2
        omega
    by_cases hvW : v ∈ prefOf indptr ix b (c+1) u
    · obtain ⟨i, hi, e⟩ := hpos v hvW
      have hle := (rinv.prefNew i hi hi).2.2
      rw [e, hdeg2] at hle
      rw [sliceOf_append r4.2.1 _ (indptr.getD v 0 + ib3.2.deg c v) _ (by omega) (by omega),
        sliceOf_append ib3.1 _ (indptr.getD v 0 + ib3.2.deg c v) _ (by omega) (by omega)]
      apply List.Perm.append
      · exact ixp4.win v hvW
      · rw [sliceOf_congr r4.2.1 ib3.1]
        intro x h1 h2
        exact hrest x (by omega) (by omega) (fun _ => h1)
    · rw [sliceOf_congr r4.2.1 ib3.1]
      intro x h1 h2
      exact hrest x h1 (by omega) (fun h => absurd h hvW)
  refine ⟨?_, ?_, ⟨hlabBack, hnsUp, hsubUp, hdegUp⟩, ⟨ixp4.len, ?_, ?_⟩⟩
  · rw [hcnt, hS3']
    exact orientedCount_perm' p c hWperm
  · refine ⟨sh5, ixp4.len, by rw [hS5]; exact inv.nodup, by rw [hS5]; exact inv.lt, ?_, ?_, ?_⟩
    · intro v hv; rw [hS5] at hv
      rw [hdegUp (c+1) v (Nat.le_refl _)]; exact inv.bound v hv
    · intro v hv; rw [hS5] at hv ⊢
      unfold prefOf
      rw [hdegUp (c+1) v (Nat.le_refl _)]
      refine (hwin4 v hv).trans ?_
      have h1 := rinv.prefUp v hv
      unfold prefOf at h1
      rw [hdeg3, hdeg2] at h1
      refine h1.trans ?_
      have h2 := inv.pref v hv
      unfold prefOf at h2
      exact h2
    · intro v hv; rw [hS5] at hv
      rw [hlabBack]; exact inv.lab v hv
  · -- windows of level `c+1`: permuted
    intro v hv
    unfold prefOf
    refine (hwin4 v hv).trans ?_
    have h1 := rinv.prefUp v hv
    unfold prefOf at h1
    rw [hdeg3, hdeg2] at h1
    exact h1
  · -- nothing else is written
    intro x hx
    have h1 : r4.2.1.getD x 0 = ib3.1.getD x 0 := by
      apply ixp4.outside
      intro v' hv'
      have hv'S := hWsub v' hv'
      obtain ⟨i, hi, e⟩ := hpos v' hv'
      have hle := (rinv.prefNew i hi hi).2.2
      rw [e, hdeg2] at hle
      have := hx v' hv'S
      omega
    rw [h1]
    apply rinv.outside
    intro v' hv'
    rw [hdeg2]
    exact hx v' (hWsub v' hv')

end SkNet.Topology

namespace SkNet.Topology

/-! ### the loop of a level and the recursion over the levels -/

/-- body of the loop of `cliquesFrom` at level `c+3` -/
def levelBody (indptr : List Nat) (c : Nat) (st : Nat × List Nat × Box) (i : Nat) : Nat × List Nat × Box :=
  let u := st.2.2.sub (c+3) i
  let b1 := st.2.2.setNs (c+2) 0
  let b2 := collectSub indptr st.2.1 (c+3) u b1
  let ib3 := restrictSub indptr (c+3) st.2.1 b2
  let r4 := cliquesFrom indptr (c+2) ib3.1 ib3.2
  (st.1 + r4.1, r4.2.1, restoreLab (c+3) r4.2.2)

theorem cliquesFrom_succ (indptr : List Nat) (c : Nat) (ix : List Nat) (b : Box) :
    cliquesFrom indptr (c+3) ix b =
      (List.range (b.ns.getD (c+3) 0)).foldl (levelBody indptr c) (0, ix, b) := rfl

theorem IxPost.refl (indptr : List Nat) (c : Nat) (S : List Nat) (b : Box) (ix : List Nat) :
    IxPost indptr ix.length c S b ix ix :=
  ⟨rfl, fun _ _ => List.Perm.refl _, fun _ _ => rfl⟩

theorem level_loop (indptr : List Nat) (p : Nat → Nat → Bool) (kn n m L c : Nat) (K : KernelCtx indptr n L m)
    (hck : c + 2 < kn) (ih : CallSpec indptr p kn n m L (c+2))
    (ix : List Nat) (b : Box) (inv : LevelInv indptr p kn n m L (c+3) ix b) :
    ∀ t, t ≤ b.nsAt (c+3) →
      let st := (List.range t).foldl (levelBody indptr c) (0, ix, b)
      LevelInv indptr p kn n m L (c+3) st.2.1 st.2.2 ∧ Frame (c+3) b st.2.2 ∧
        IxPost indptr L (c+3) (subList b (c+3)) b ix st.2.1 ∧
        st.1 = ((List.range t).map fun i =>
          orientedCount p (c+2) ((subList b (c+3)).filter (p (b.sub (c+3) i)))).sum := by
  intro t
  induction t with
  | zero =>
    intro _
    exact ⟨inv, Frame.refl _ _, ⟨inv.ixLen, fun _ _ => List.Perm.refl _, fun _ _ => rfl⟩, rfl⟩
  | succ t iht =>
    intro ht
    obtain ⟨linv, fr, ixp, hacc⟩ := iht (by omega)
    rw [List.range_succ, List.foldl_append]
    generalize (List.range t).foldl (levelBody indptr c) (0, ix, b) = st at linv fr ixp hacc
    simp only [List.foldl_cons, List.foldl_nil]
    have hS : subList st.2.2 (c+3) = subList b (c+3) :=
      subList_congr (fr.ns (c+3) (Nat.le_refl _)) (fun i => fr.sub (c+3) i (Nat.le_refl _))
    have hu : st.2.2.sub (c+3) t ∈ subList st.2.2 (c+3) :=
      mem_subList.2 ⟨t, by rw [fr.ns (c+3) (Nat.le_refl _)]; omega, rfl⟩
    obtain ⟨h1, h2, h3, h4⟩ := level_step indptr p kn n m L (c+2) K (by omega) hck ih st.2.1 st.2.2 linv
      (st.2.2.sub (c+3) t) hu
    have hdeg : ∀ w, st.2.2.deg (c+3) w = b.deg (c+3) w := fun w => fr.deg (c+3) w (Nat.le_refl _)
    refine ⟨h2, fr.trans h3, ⟨h4.len, ?_, ?_⟩, ?_⟩
    · intro v hv
      have hw := h4.win v (by rw [hS]; exact hv)
      unfold prefOf at hw ⊢
      rw [hdeg] at hw
      exact hw.trans (ixp.win v hv)
    · intro x hx
      have h := h4.outside x (by
        intro v hv
        rw [hS] at hv
        rw [hdeg]; exact hx v hv)
      exact h.trans (ixp.outside x hx)
    · show st.1 + _ = _
      rw [List.map_append, List.sum_append_nat, ← hacc]
      congr 1
      simp only [List.map_cons, List.map_nil, List.sum_cons, List.sum_nil, Nat.add_zero]
      rw [h1, hS, fr.sub (c+3) t (Nat.le_refl _)]

/-- ○→★ `cliques_kernel_refines`: at every level the array kernel returns the recursive count of the
    orientation on its candidate list, leaves the box as the caller needs it, and has only permuted the windows of
    `indices` that belong to its candidates -/
theorem cliquesFrom_spec (indptr : List Nat) (p : Nat → Nat → Bool) (kn n m L : Nat) (K : KernelCtx indptr n L m) :
    ∀ c, c + 2 ≤ kn → CallSpec indptr p kn n m L (c+2) := by
  intro c
  induction c with
  | zero =>
    intro _ ix b inv
    refine ⟨?_, inv.shape, Frame.refl _ _, ⟨inv.ixLen, fun _ _ => List.Perm.refl _, fun _ _ => rfl⟩⟩
    show (List.range (b.ns.getD 2 0)).foldl (fun acc i => acc + b.deg 2 (b.sub 2 i)) 0 = _
    rw [foldl_add_eq_sum, Nat.zero_add]
    show _ = ((subList b 2).map fun u => orientedCount p 1 ((subList b 2).filter (p u))).sum
    have hmm : (subList b 2).map (fun u => orientedCount p 1 ((subList b 2).filter (p u))) =
        (List.range (b.ns.getD 2 0)).map fun i => b.deg 2 (b.sub 2 i) := by
      conv => lhs; arg 2; unfold subList
      rw [List.map_map]
      apply List.map_congr_left
      intro i hi
      simp only [Function.comp]
      have hv : b.sub 2 i ∈ subList b 2 := mem_subList.2 ⟨i, List.mem_range.1 hi, rfl⟩
      have hlen := (inv.pref _ hv).length_eq
      unfold prefOf at hlen
      rw [sliceOf_length] at hlen
      simp only [Nat.zero_add] at hlen
      rw [orientedCount_one, ← hlen]; omega
    rw [hmm]
  | succ c ihc =>
    intro hk ix b inv
    have ih := ihc (by omega)
    obtain ⟨linv, fr, ixp, hacc⟩ := level_loop indptr p kn n m L c K (by omega) ih ix b inv (b.nsAt (c+3))
      (Nat.le_refl _)
    rw [cliquesFrom_succ]
    refine ⟨?_, linv.shape, fr, ixp⟩
    show ((List.range (b.nsAt (c+3))).foldl (levelBody indptr c) (0, ix, b)).1 = _
    rw [hacc]
    show _ = ((subList b (c+3)).map fun u => orientedCount p (c+2) ((subList b (c+3)).filter (p u))).sum
    unfold subList
    rw [List.map_map]
    rfl

end SkNet.Topology
