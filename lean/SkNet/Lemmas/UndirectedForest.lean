/- Counting components while the edges of an undirected graph are added one at a time (a union-find labelling):
   `#components + #edges = n + #closing edges`, and a closing edge exists exactly when the graph has a cycle.
   This is the theorem behind the criterion `n_cc == n_nodes - n_edges` of `is_acyclic` / `get_cycles`. -/
import SkNet.Model.Connectivity
import SkNet.Spec.Connectivity
import SkNet.Lemmas.Connectivity
import SkNet.Lemmas.Reach
import SkNet.Lemmas.Complete
import SkNet.Lemmas.BreakInv
import SkNet.Lemmas.Closure

namespace SkNet.UForest
open SkNet SkNet.Connectivity SkNet.Cycles

/-! ### the undirected graph of an edge list -/

/-- neighbours of `x` in the undirected graph with the edges `es` -/
def adjOf (es : List (Nat × Nat)) (x : Nat) : List Nat :=
  (es.filter (·.1 == x)).map (·.2) ++ (es.filter (·.2 == x)).map (·.1)

theorem mem_adjOf {es : List (Nat × Nat)} {x y : Nat} : y ∈ adjOf es x ↔ (x, y) ∈ es ∨ (y, x) ∈ es := by
  unfold adjOf
  simp only [List.mem_append, List.mem_map, List.mem_filter, beq_iff_eq]
  constructor
  · rintro (⟨⟨a, b⟩, ⟨h1, h2⟩, h3⟩ | ⟨⟨a, b⟩, ⟨h1, h2⟩, h3⟩)
    · simp only at h2 h3; subst h2; subst h3; left; exact h1
    · simp only at h2 h3; subst h2; subst h3; right; exact h1
  · rintro (h | h)
    · left; exact ⟨(x, y), ⟨h, rfl⟩, rfl⟩
    · right; exact ⟨(y, x), ⟨h, rfl⟩, rfl⟩

theorem adjOf_symm {es : List (Nat × Nat)} {x y : Nat} (h : y ∈ adjOf es x) : x ∈ adjOf es y := by
  rw [mem_adjOf] at h ⊢; exact h.symm

theorem adjOf_cons_mem {e : Nat × Nat} {es : List (Nat × Nat)} {x y : Nat} :
    y ∈ adjOf (e :: es) x ↔ y ∈ adjOf es x ∨ (x = e.1 ∧ y = e.2) ∨ (x = e.2 ∧ y = e.1) := by
  simp only [mem_adjOf, List.mem_cons]
  obtain ⟨a, b⟩ := e
  simp only [Prod.mk.injEq]
  constructor
  · rintro ((⟨h1, h2⟩ | h) | (⟨h1, h2⟩ | h))
    · right; left; exact ⟨h1, h2⟩
    · left; left; exact h
    · right; right; exact ⟨h2, h1⟩
    · left; right; exact h
  · rintro ((h | h) | ⟨h1, h2⟩ | ⟨h1, h2⟩)
    · left; right; exact h
    · right; right; exact h
    · left; left; exact ⟨h1, h2⟩
    · right; left; exact ⟨h2, h1⟩

theorem reach_symm_adjOf {es : List (Nat × Nat)} {x y : Nat} (h : Reach (adjOf es) x y) : Reach (adjOf es) y x := by
  induction h with
  | refl => exact Reach.refl _
  | tail _ he ih => exact (Reach.edge (adjOf_symm he)).trans ih

/-- connectivity after one more edge `u — v` -/
theorem reach_cons_iff {u v : Nat} {es : List (Nat × Nat)} {x y : Nat} :
    Reach (adjOf ((u, v) :: es)) x y ↔
      Reach (adjOf es) x y ∨ (Reach (adjOf es) x u ∧ Reach (adjOf es) v y) ∨
        (Reach (adjOf es) x v ∧ Reach (adjOf es) u y) := by
  have hmono : ∀ {a b}, Reach (adjOf es) a b → Reach (adjOf ((u, v) :: es)) a b :=
    fun h => SkNet.Cycles.Reach.mono (fun p q hq => adjOf_cons_mem.mpr (Or.inl hq)) h
  have huv : Reach (adjOf ((u, v) :: es)) u v := Reach.edge (adjOf_cons_mem.mpr (Or.inr (Or.inl ⟨rfl, rfl⟩)))
  have hvu : Reach (adjOf ((u, v) :: es)) v u := Reach.edge (adjOf_cons_mem.mpr (Or.inr (Or.inr ⟨rfl, rfl⟩)))
  constructor
  · intro h
    induction h with
    | refl => left; exact Reach.refl _
    | @tail a b _ he ih =>
      rcases adjOf_cons_mem.mp he with h0 | ⟨h1, h2⟩ | ⟨h1, h2⟩
      · rcases ih with h | ⟨h3, h4⟩ | ⟨h3, h4⟩
        · left; exact Reach.tail h h0
        · right; left; exact ⟨h3, Reach.tail h4 h0⟩
        · right; right; exact ⟨h3, Reach.tail h4 h0⟩
      · simp only at h1 h2; subst h1; subst h2
        rcases ih with h | ⟨h3, _⟩ | ⟨h3, h4⟩
        · right; left; exact ⟨h, Reach.refl _⟩
        · right; left; exact ⟨h3, Reach.refl _⟩
        · left; exact h3
      · simp only at h1 h2; subst h1; subst h2
        rcases ih with h | ⟨h3, h4⟩ | ⟨h3, _⟩
        · right; right; exact ⟨h, Reach.refl _⟩
        · left; exact h3
        · right; right; exact ⟨h3, Reach.refl _⟩
  · rintro (h | ⟨h1, h2⟩ | ⟨h1, h2⟩)
    · exact hmono h
    · exact ((hmono h1).trans huv).trans (hmono h2)
    · exact ((hmono h1).trans hvu).trans (hmono h2)

end SkNet.UForest

namespace SkNet.UForest
open SkNet SkNet.Connectivity SkNet.Cycles

/-! ### the union-find labelling -/

/-- give the label of `u` to every node labelled like `v` -/
def merge (lab : List Nat) (u v : Nat) : List Nat :=
  if lab.getD u 0 == lab.getD v 0 then lab
  else lab.map fun l => if l == lab.getD v 0 then lab.getD u 0 else l

/-- labels after the edges of the list have been added (the last edge of the list first) -/
def uf (n : Nat) : List (Nat × Nat) → List Nat
  | [] => List.range n
  | e :: es => merge (uf n es) e.1 e.2

/-- number of edges that joined two nodes already connected -/
def closing (n : Nat) : List (Nat × Nat) → Nat
  | [] => 0
  | e :: es => closing n es + (if (uf n es).getD e.1 0 == (uf n es).getD e.2 0 then 1 else 0)

theorem merge_length (lab : List Nat) (u v : Nat) : (merge lab u v).length = lab.length := by
  unfold merge; split <;> simp

theorem uf_length (n : Nat) (es : List (Nat × Nat)) : (uf n es).length = n := by
  induction es with
  | nil => simp [uf]
  | cons e es ih => simp [uf, merge_length, ih]

theorem getD_merge (lab : List Nat) (u v x : Nat) (hx : x < lab.length) :
    (merge lab u v).getD x 0 =
      if lab.getD u 0 = lab.getD v 0 then lab.getD x 0
      else if lab.getD x 0 = lab.getD v 0 then lab.getD u 0 else lab.getD x 0 := by
  unfold merge
  by_cases h : lab.getD u 0 = lab.getD v 0
  · rw [if_pos (by simpa using h), if_pos h]
  · have hb : (lab.getD u 0 == lab.getD v 0) = false := by simpa using h
    simp only [hb, Bool.false_eq_true, ↓reduceIte, h]
    simp only [List.getD_eq_getElem?_getD, List.getElem?_map, List.getElem?_eq_getElem hx, Option.map_some,
      Option.getD_some, beq_iff_eq]

theorem reach_nil {x y : Nat} (h : Reach (adjOf []) x y) : x = y := by
  induction h with
  | refl => rfl
  | tail _ he _ => simp [adjOf] at he

/-- ★ the labels tell the components apart -/
theorem uf_spec (n : Nat) (es : List (Nat × Nat)) (hes : ∀ e ∈ es, e.1 < n ∧ e.2 < n) :
    ∀ x y, x < n → y < n → ((uf n es).getD x 0 = (uf n es).getD y 0 ↔ Reach (adjOf es) x y) := by
  induction es with
  | nil =>
    intro x y hx hy
    simp only [uf, List.getD_eq_getElem?_getD, List.getElem?_range hx, List.getElem?_range hy, Option.getD_some]
    exact ⟨fun h => h ▸ Reach.refl _, reach_nil⟩
  | cons e es ih =>
    obtain ⟨u, v⟩ := e
    have hes' : ∀ e ∈ es, e.1 < n ∧ e.2 < n := fun e he => hes e (List.mem_cons_of_mem _ he)
    obtain ⟨hu, hv⟩ := hes (u, v) List.mem_cons_self
    have ih' := ih hes'
    intro x y hx hy
    have hlen := uf_length n es
    simp only [uf]
    rw [getD_merge _ u v x (by rw [hlen]; exact hx), getD_merge _ u v y (by rw [hlen]; exact hy), reach_cons_iff]
    have sym : ∀ {a b}, Reach (adjOf es) a b → Reach (adjOf es) b a := reach_symm_adjOf
    by_cases huv : (uf n es).getD u 0 = (uf n es).getD v 0
    · simp only [huv, ↓reduceIte]
      have hr := (ih' u v hu hv).mp huv
      rw [ih' x y hx hy]
      constructor
      · intro h; left; exact h
      · rintro (h | ⟨h1, h2⟩ | ⟨h1, h2⟩)
        · exact h
        · exact (h1.trans hr).trans h2
        · exact (h1.trans (sym hr)).trans h2
    · simp only [huv, ↓reduceIte]
      have exu := ih' x u hx hu
      have exv := ih' x v hx hv
      have eyu := ih' y u hy hu
      have eyv := ih' y v hy hv
      have exy := ih' x y hx hy
      by_cases h1 : (uf n es).getD x 0 = (uf n es).getD v 0 <;>
        by_cases h2 : (uf n es).getD y 0 = (uf n es).getD v 0
      · simp only [h1, h2, ↓reduceIte, true_iff]
        left; exact exy.mp (h1.trans h2.symm)
      · simp only [h1, h2, ↓reduceIte]
        constructor
        · intro h
          right; right
          exact ⟨exv.mp h1, sym (eyu.mp h.symm)⟩
        · rintro (h | ⟨h3, h4⟩ | ⟨h3, h4⟩)
          · exact absurd ((exy.mpr h).symm.trans h1) h2
          · exact absurd (eyv.mpr (sym h4)) h2
          · exact (eyu.mpr (sym h4)).symm
      · simp only [h1, h2, ↓reduceIte]
        constructor
        · intro h
          right; left
          exact ⟨exu.mp h, sym (eyv.mp h2)⟩
        · rintro (h | ⟨h3, h4⟩ | ⟨h3, h4⟩)
          · exact absurd ((exy.mpr h).trans h2) h1
          · exact exu.mpr h3
          · exact absurd (exv.mpr h3) h1
      · simp only [h1, h2, ↓reduceIte]
        rw [exy]
        constructor
        · intro h; left; exact h
        · rintro (h | ⟨h3, h4⟩ | ⟨h3, h4⟩)
          · exact h
          · exact absurd (eyv.mpr (sym h4)) h2
          · exact absurd (exv.mpr h3) h1

end SkNet.UForest

namespace SkNet.UForest
open SkNet SkNet.Connectivity SkNet.Cycles

/-! ### counting labels -/

theorem getD_mem {l : List Nat} {i : Nat} (h : i < l.length) : l.getD i 0 ∈ l := by
  rw [List.getD_eq_getElem?_getD, List.getElem?_eq_getElem h]
  exact List.getElem_mem h

theorem cnt_merge (lab : List Nat) (u v : Nat) (hu : u < lab.length) (hv : v < lab.length) :
    (npUnique (merge lab u v)).length + (if lab.getD u 0 = lab.getD v 0 then 0 else 1) =
      (npUnique lab).length := by
  by_cases h : lab.getD u 0 = lab.getD v 0
  · simp only [h, ↓reduceIte, Nat.add_zero]
    unfold merge
    rw [if_pos (by simpa using h)]
  · simp only [h, ↓reduceIte]
    have hmerge : merge lab u v = lab.map fun l => if l == lab.getD v 0 then lab.getD u 0 else l := by
      unfold merge
      rw [if_neg (by simpa using h)]
    -- the values after the merge: the old ones without the label of v
    have hmem : ∀ x, x ∈ merge lab u v ↔ x ∈ lab ∧ x ≠ lab.getD v 0 := by
      intro x
      rw [hmerge, List.mem_map]
      constructor
      · rintro ⟨a, ha, rfl⟩
        by_cases hav : a = lab.getD v 0
        · simp only [hav, BEq.rfl, ↓reduceIte]
          exact ⟨getD_mem hu, h⟩
        · have : (a == lab.getD v 0) = false := by simpa using hav
          simp only [this, Bool.false_eq_true, ↓reduceIte]
          exact ⟨ha, hav⟩
      · rintro ⟨hx, hne⟩
        refine ⟨x, hx, ?_⟩
        have : (x == lab.getD v 0) = false := by simpa using hne
        show (if (x == lab.getD v 0) = true then lab.getD u 0 else x) = x
        rw [this]; rfl
    have hlv : lab.getD v 0 ∈ npUnique lab := mem_npUnique.mpr (getD_mem hv)
    have hperm : (npUnique (merge lab u v)).Perm ((npUnique lab).erase (lab.getD v 0)) := by
      apply (List.perm_ext_iff_of_nodup (npUnique_nodup _) ((npUnique_nodup lab).erase _)).mpr
      intro x
      rw [mem_npUnique, hmem, List.Nodup.mem_erase_iff (npUnique_nodup lab), mem_npUnique]
      exact ⟨fun ⟨a, b⟩ => ⟨b, a⟩, fun ⟨a, b⟩ => ⟨b, a⟩⟩
    rw [hperm.length_eq, List.length_erase_of_mem hlv]
    have : 0 < (npUnique lab).length := List.length_pos_of_mem hlv
    omega

/-- ★ components + edges = nodes + closing edges -/
theorem count_eq (n : Nat) (es : List (Nat × Nat)) (hes : ∀ e ∈ es, e.1 < n ∧ e.2 < n) :
    (npUnique (uf n es)).length + es.length = n + closing n es := by
  induction es with
  | nil =>
    simp only [uf, closing, List.length_nil, Nat.add_zero]
    have := (npUnique_length_eq_iff_nodup (List.range n)).mpr List.nodup_range
    simpa using this
  | cons e es ih =>
    have hes' : ∀ e ∈ es, e.1 < n ∧ e.2 < n := fun e he => hes e (List.mem_cons_of_mem _ he)
    obtain ⟨hu, hv⟩ := hes e List.mem_cons_self
    have hlen := uf_length n es
    have hc := cnt_merge (uf n es) e.1 e.2 (by rw [hlen]; exact hu) (by rw [hlen]; exact hv)
    have ih' := ih hes'
    simp only [uf, closing, List.length_cons, beq_iff_eq]
    split at hc <;> rename_i hcase
    · simp only [hcase, ↓reduceIte]; omega
    · simp only [hcase, ↓reduceIte]; omega

end SkNet.UForest

namespace SkNet.UForest
open SkNet SkNet.Connectivity SkNet.Cycles

/-! ### closing edges and cycles -/

/-- a simple undirected edge list on `n` nodes: every edge once, written `(u, v)` with `u < v < n` -/
def EdgesOK (n : Nat) (es : List (Nat × Nat)) : Prop := es.Nodup ∧ ∀ e ∈ es, e.1 < e.2 ∧ e.2 < n

theorem EdgesOK.tail {n : Nat} {e : Nat × Nat} {es : List (Nat × Nat)} (h : EdgesOK n (e :: es)) : EdgesOK n es :=
  ⟨(List.nodup_cons.mp h.1).2, fun f hf => h.2 f (List.mem_cons_of_mem _ hf)⟩

theorem EdgesOK.nodes {n : Nat} {es : List (Nat × Nat)} (h : EdgesOK n es) : ∀ e ∈ es, e.1 < n ∧ e.2 < n :=
  fun e he => ⟨Nat.lt_trans (h.2 e he).1 (h.2 e he).2, (h.2 e he).2⟩

theorem adjOf_wf {n : Nat} {es : List (Nat × Nat)} (h : EdgesOK n es) : ∀ x, x < n → ∀ y ∈ adjOf es x, y < n := by
  intro x _ y hy
  rcases mem_adjOf.mp hy with h1 | h1
  · exact (h.nodes _ h1).2
  · exact (h.nodes _ h1).1

/-- ★ a closing edge closes a cycle with three nodes or more -/
theorem cycle_of_closing {n : Nat} {es : List (Nat × Nat)} (hok : EdgesOK n es) (h : 0 < closing n es) :
    ∃ C, IsSimpleCycle n (adjOf es) false C ∧ 3 ≤ C.length := by
  induction es with
  | nil => simp [closing] at h
  | cons e es ih =>
    obtain ⟨u, v⟩ := e
    have hok' := hok.tail
    have hmono : ∀ x y, y ∈ adjOf es x → y ∈ adjOf ((u, v) :: es) x :=
      fun x y hy => adjOf_cons_mem.mpr (Or.inl hy)
    by_cases hc : 0 < closing n es
    · obtain ⟨C, hC, hlen⟩ := ih hok' hc
      exact ⟨C, isSimpleCycle_mono hmono hC, hlen⟩
    · simp only [closing] at h
      have hind : (uf n es).getD u 0 = (uf n es).getD v 0 := by
        apply Classical.byContradiction
        intro hne
        have : ((uf n es).getD u 0 == (uf n es).getD v 0) = false := by simpa using hne
        simp only [this, Bool.false_eq_true, ↓reduceIte] at h
        omega
      obtain ⟨huv, hvn⟩ := hok.2 (u, v) List.mem_cons_self
      simp only at huv hvn
      have hun : u < n := Nat.lt_trans huv hvn
      have hreach := (uf_spec n es hok'.nodes u v hun hvn).mp hind
      obtain ⟨P, hP⟩ := exists_fpath hreach
      -- the edge u — v is new
      have hnew : v ∉ adjOf es u := by
        intro hm
        rcases mem_adjOf.mp hm with h1 | h1
        · exact (List.nodup_cons.mp hok.1).1 h1
        · have := (hok'.2 _ h1).1
          simp only at this
          omega
      -- the path has at least three nodes
      match P, hP with
      | [], hP => have := hP.head; simp at this
      | [a], hP =>
        have h1 : a = u := by simpa using hP.head
        have h2 : a = v := by simpa using hP.last
        omega
      | [a, b], hP =>
        have h1 : a = u := by simpa using hP.head
        have h2 : b = v := by simpa [List.getLast?_cons_cons] using hP.last
        have := hP.chain
        simp only [isChain, Bool.and_true, List.contains_iff_mem] at this
        rw [h1, h2] at this
        exact absurd this hnew
      | a :: b :: c :: t, hP =>
        have h1 : a = u := by simpa using hP.head
        subst h1
        refine ⟨a :: b :: c :: t, ⟨hP.nodup, ?_, ?_, Or.inr (Or.inr (by simp))⟩, by simp⟩
        · intro w hw
          rcases List.mem_cons.mp hw with rfl | hw
          · exact hun
          · exact Reach.lt (adjOf_wf hok') (chain_reach_head _ _ hP.chain w hw) hun
        · show isChain (adjOf ((a, v) :: es)) (a :: b :: c :: t ++ [a]) = true
          rw [isChain_append]
          have h1 := isChain_mono hmono _ hP.chain
          simp only [Bool.and_eq_true]
          refine ⟨⟨h1, rfl⟩, ?_⟩
          simp only [linkB, hP.last, List.head?_cons, List.contains_iff_mem]
          exact adjOf_cons_mem.mpr (Or.inr (Or.inr ⟨rfl, rfl⟩))

end SkNet.UForest

namespace SkNet.UForest
open SkNet SkNet.Connectivity SkNet.Cycles

/-- a chain of the graph with one more edge `u — v` is a chain of the old graph, or passes through the new edge -/
theorem chain_old_or_new {u v : Nat} {es : List (Nat × Nat)} (L : List Nat)
    (h : isChain (adjOf ((u, v) :: es)) L = true) :
    isChain (adjOf es) L = true ∨
    ∃ p x y q, L = p ++ x :: y :: q ∧ ((x = u ∧ y = v) ∨ (x = v ∧ y = u)) := by
  induction L with
  | nil => left; rfl
  | cons a L ih =>
    cases L with
    | nil => left; rfl
    | cons b L =>
      rw [isChain_cons_cons] at h
      simp only [Bool.and_eq_true, List.contains_iff_mem] at h
      rcases ih h.2 with hold | ⟨p, x, y, q, hL, hxy⟩
      · rcases adjOf_cons_mem.mp h.1 with h0 | h1 | h1
        · left
          rw [isChain_cons_cons]
          simp only [Bool.and_eq_true, List.contains_iff_mem]
          exact ⟨h0, hold⟩
        · right; exact ⟨[], a, b, L, rfl, Or.inl h1⟩
        · right; exact ⟨[], a, b, L, rfl, Or.inr h1⟩
      · right; exact ⟨a :: p, x, y, q, by rw [hL]; rfl, hxy⟩

/-- in the graph with the new edge `x — y`, a chain that avoids `y` is a chain of the old graph -/
theorem chain_old_of_not_mem {x y : Nat} {es : List (Nat × Nat)} {u v : Nat}
    (hxy : (x = u ∧ y = v) ∨ (x = v ∧ y = u)) (L : List Nat)
    (h : isChain (adjOf ((u, v) :: es)) L = true) (hy : y ∉ L) : isChain (adjOf es) L = true := by
  induction L with
  | nil => rfl
  | cons a L ih =>
    cases L with
    | nil => rfl
    | cons b L =>
      rw [isChain_cons_cons] at h ⊢
      simp only [Bool.and_eq_true, List.contains_iff_mem] at h ⊢
      refine ⟨?_, ih h.2 (fun hm => hy (List.mem_cons_of_mem _ hm))⟩
      have ha : a ≠ y := fun he => hy (he ▸ List.mem_cons_self)
      have hb : b ≠ y := fun he => hy (he ▸ List.mem_cons_of_mem _ List.mem_cons_self)
      rcases adjOf_cons_mem.mp h.1 with h0 | ⟨h1, h2⟩ | ⟨h1, h2⟩
      · exact h0
      · rcases hxy with ⟨_, hyv⟩ | ⟨_, hyu⟩
        · exact absurd (h2.trans hyv.symm) hb
        · exact absurd (h1.trans hyu.symm) ha
      · rcases hxy with ⟨_, hyv⟩ | ⟨_, hyu⟩
        · exact absurd (h1.trans hyv.symm) ha
        · exact absurd (h2.trans hyu.symm) hb

/-- a simple cycle with three nodes or more whose closing pair is the new edge: its ends were already joined -/
theorem reach_of_cycle_through_new {n : Nat} {x y u v : Nat} {es : List (Nat × Nat)}
    (hxy : (x = u ∧ y = v) ∨ (x = v ∧ y = u)) {m : List Nat}
    (hC : IsSimpleCycle n (adjOf ((u, v) :: es)) false (y :: m)) (hlen : 3 ≤ (y :: m).length)
    (hlast : (y :: m).getLast? = some x) : Reach (adjOf es) y x := by
  obtain ⟨hnd, _, hcl, _⟩ := hC
  have hch : isChain (adjOf ((u, v) :: es)) (y :: m) = true := ((isClosedChain_iff _ _).mp hcl).2.1
  match m, hnd, hch, hlen, hlast with
  | [], _, _, hlen, _ => simp at hlen
  | [_], _, _, hlen, _ => simp at hlen
  | z :: w :: m', hnd, hch, _, hlast =>
    rw [isChain_cons_cons] at hch
    simp only [Bool.and_eq_true, List.contains_iff_mem] at hch
    have hynot : y ∉ z :: w :: m' := (List.nodup_cons.mp hnd).1
    have hxm : x ∈ z :: w :: m' := by
      have : (y :: z :: w :: m').getLast? = (z :: w :: m').getLast? := List.getLast?_cons_cons
      rw [this] at hlast
      exact List.mem_of_getLast? hlast
    -- the first edge y → z is old: z is neither x nor y
    have hzx : z ≠ x := by
      intro he
      subst he
      -- then x would be both the second and the last node
      have hl : (w :: m').getLast? = some z := by
        have h1 : (y :: z :: w :: m').getLast? = (w :: m').getLast? := by
          rw [List.getLast?_cons_cons, List.getLast?_cons_cons]
        rw [h1] at hlast; exact hlast
      have : z ∈ w :: m' := List.mem_of_getLast? hl
      exact (List.nodup_cons.mp (List.nodup_cons.mp hnd).2).1 this
    have hzy : z ≠ y := fun he => hynot (he ▸ List.mem_cons_self)
    have hyx : y ≠ x := fun he => hynot (he ▸ hxm)
    have hedge : z ∈ adjOf es y := by
      rcases adjOf_cons_mem.mp hch.1 with h0 | ⟨h1, h2⟩ | ⟨h1, h2⟩
      · exact h0
      · simp only at h1 h2
        rcases hxy with ⟨hxu, _⟩ | ⟨hxv, _⟩
        · exact absurd (h1.trans hxu.symm) hyx
        · exact absurd (h2.trans hxv.symm) hzx
      · simp only at h1 h2
        rcases hxy with ⟨hxu, _⟩ | ⟨hxv, _⟩
        · exact absurd (h2.trans hxu.symm) hzx
        · exact absurd (h1.trans hxv.symm) hyx
    have hold := chain_old_of_not_mem hxy (z :: w :: m') hch.2 hynot
    have hzx' : Reach (adjOf es) z x := by
      rcases List.mem_cons.mp hxm with rfl | hx'
      · exact Reach.refl _
      · exact chain_reach_head z _ hold x hx'
    exact (Reach.edge hedge).trans hzx'

end SkNet.UForest

namespace SkNet.UForest
open SkNet SkNet.Connectivity SkNet.Cycles

theorem append_singleton_inj {a c : List Nat} {b d : Nat} (h : a ++ [b] = c ++ [d]) : a = c ∧ b = d := by
  have := List.append_inj' h rfl
  exact ⟨this.1, by simpa using this.2⟩

/-- ★ a cycle with three nodes or more forces a closing edge -/
theorem closing_of_cycle {n : Nat} {es : List (Nat × Nat)} (hok : EdgesOK n es) {C : List Nat}
    (hC : IsSimpleCycle n (adjOf es) false C) (hlen : 3 ≤ C.length) : 0 < closing n es := by
  induction es generalizing C with
  | nil =>
    exfalso
    obtain ⟨_, _, hcl, _⟩ := hC
    match C, hcl, hlen with
    | a :: b :: _, hcl, _ =>
      have : isChain (adjOf []) (a :: b :: _ ++ [a]) = true := hcl
      rw [List.cons_append, List.cons_append, isChain_cons_cons] at this
      simp [adjOf] at this
  | cons e es ih =>
    obtain ⟨u, v⟩ := e
    have hok' := hok.tail
    simp only [closing]
    by_cases hind : (uf n es).getD u 0 = (uf n es).getD v 0
    · have hb : ((uf n es).getD u 0 == (uf n es).getD v 0) = true := by simpa using hind
      simp only [hb, ↓reduceIte]
      omega
    · suffices 0 < closing n es by omega
      obtain ⟨huv, hvn⟩ := hok.2 (u, v) List.mem_cons_self
      simp only at huv hvn
      have hun : u < n := Nat.lt_trans huv hvn
      have hnoreach : ¬ Reach (adjOf es) u v := fun h => hind ((uf_spec n es hok'.nodes u v hun hvn).mpr h)
      obtain ⟨hnd, hlt, hcl, hlenC⟩ := id hC
      obtain ⟨h, t, rfl⟩ : ∃ h t, C = h :: t := by
        cases C with
        | nil => simp at hlen
        | cons h t => exact ⟨h, t, rfl⟩
      have hL : isChain (adjOf ((u, v) :: es)) (h :: t ++ [h]) = true := hcl
      rcases chain_old_or_new _ hL with hold | ⟨p, x, y, q, hsplit, hxy⟩
      · -- the cycle is a cycle of the old graph
        exact ih hok' ⟨hnd, hlt, hold, hlenC⟩ hlen
      · -- the cycle passes through the new edge x → y: rotate it so that it starts at y and ends at x
        exfalso
        have hfin : ∀ m, IsSimpleCycle n (adjOf ((u, v) :: es)) false (y :: m) → 3 ≤ (y :: m).length →
            (y :: m).getLast? = some x → False := by
          intro m hCm hlm hlast
          have hr := reach_of_cycle_through_new hxy hCm hlm hlast
          rcases hxy with ⟨hxu, hyv⟩ | ⟨hxv, hyu⟩
          · rw [hxu, hyv] at hr; exact hnoreach (reach_symm_adjOf hr)
          · rw [hxv, hyu] at hr; exact hnoreach hr
        rcases List.eq_nil_or_concat q with hq | ⟨q', z, hq⟩
        · -- y is the repeated first node: the cycle itself starts at y and ends at x
          subst hq
          have h1 : (h :: t) ++ [h] = (p ++ [x]) ++ [y] := by rw [hsplit]; simp
          obtain ⟨hC1, hhy⟩ := append_singleton_inj h1
          subst hhy
          have hlast : (h :: t).getLast? = some x := by rw [hC1]; simp
          exact hfin t hC hlen hlast
        · rw [hq, List.concat_eq_append] at hsplit
          have h1 : (h :: t) ++ [h] = (p ++ x :: y :: q') ++ [z] := by rw [hsplit]; simp
          obtain ⟨hC1, _⟩ := append_singleton_inj h1
          have hrot := isSimpleCycle_rotate hC (p.length + 1)
          have hdrop : (h :: t).drop (p.length + 1) = y :: q' := by
            rw [hC1]
            have : p ++ x :: y :: q' = (p ++ [x]) ++ (y :: q') := by simp
            rw [this, List.drop_append_of_le_length (by simp)]
            have : (p ++ [x]).length = p.length + 1 := by simp
            rw [← this, List.drop_length]
            rfl
          have htake : (h :: t).take (p.length + 1) = p ++ [x] := by
            rw [hC1]
            have : p ++ x :: y :: q' = (p ++ [x]) ++ (y :: q') := by simp
            rw [this, List.take_append_of_le_length (by simp)]
            have : (p ++ [x]).length = p.length + 1 := by simp
            rw [← this, List.take_length]
          rw [hdrop, htake] at hrot
          have hlen' : 3 ≤ (y :: (q' ++ (p ++ [x]))).length := by
            have : (h :: t).length = (p ++ x :: y :: q').length := by rw [hC1]
            simp only [List.length_cons, List.length_append, List.length_nil] at this hlen ⊢
            omega
          exact hfin (q' ++ (p ++ [x])) hrot hlen' (by
            have : y :: (q' ++ (p ++ [x])) = (y :: (q' ++ p)) ++ [x] := by simp
            rw [this, List.getLast?_append]
            rfl)

end SkNet.UForest

namespace SkNet.UForest
open SkNet SkNet.Connectivity SkNet.Cycles

/-! ### two labellings of the same relation have as many labels -/

theorem nodup_map_of_inj_on {f : Nat → Nat} {l : List Nat} (hl : l.Nodup)
    (hinj : ∀ a ∈ l, ∀ b ∈ l, f a = f b → a = b) : (l.map f).Nodup := by
  rw [List.nodup_iff_pairwise_ne, List.pairwise_map]
  refine List.Pairwise.imp_of_mem ?_ (List.nodup_iff_pairwise_ne.mp hl)
  intro a b ha hb hab hf
  exact hab (hinj a ha b hb hf)

theorem cnt_le_of_refines {n : Nat} {l1 l2 : List Nat} (h1 : l1.length = n) (h2 : l2.length = n)
    (href : ∀ x y, x < n → y < n → l2.getD x 0 = l2.getD y 0 → l1.getD x 0 = l1.getD y 0) :
    (npUnique l1).length ≤ (npUnique l2).length := by
  -- send a label of l1 to the l2-label of its first node
  let f : Nat → Nat := fun a => l2.getD (l1.idxOf a) 0
  have hidx : ∀ a ∈ npUnique l1, l1.idxOf a < n ∧ l1.getD (l1.idxOf a) 0 = a := by
    intro a ha
    have hm := mem_npUnique.mp ha
    have hlt : l1.idxOf a < l1.length := List.idxOf_lt_length_iff.mpr hm
    refine ⟨h1 ▸ hlt, ?_⟩
    rw [List.getD_eq_getElem?_getD, List.getElem?_eq_getElem hlt]
    exact List.getElem_idxOf hlt
  have hnd : ((npUnique l1).map f).Nodup := by
    apply nodup_map_of_inj_on (npUnique_nodup l1)
    intro a ha b hb hfab
    obtain ⟨ia, ea⟩ := hidx a ha
    obtain ⟨ib, eb⟩ := hidx b hb
    have := href _ _ ia ib hfab
    rw [ea, eb] at this
    exact this
  have hsub : ∀ x ∈ (npUnique l1).map f, x ∈ npUnique l2 := by
    intro x hx
    obtain ⟨a, ha, rfl⟩ := List.mem_map.mp hx
    obtain ⟨ia, _⟩ := hidx a ha
    apply mem_npUnique.mpr
    show l2.getD (l1.idxOf a) 0 ∈ l2
    have : l1.idxOf a < l2.length := h2 ▸ ia
    rw [List.getD_eq_getElem?_getD, List.getElem?_eq_getElem this]
    exact List.getElem_mem this
  have := (nodup_sub_length hnd hsub).1
  simpa using this

theorem cnt_eq_of_same_classes {n : Nat} {l1 l2 : List Nat} (h1 : l1.length = n) (h2 : l2.length = n)
    (h : ∀ x y, x < n → y < n → (l1.getD x 0 = l1.getD y 0 ↔ l2.getD x 0 = l2.getD y 0)) :
    (npUnique l1).length = (npUnique l2).length :=
  Nat.le_antisymm (cnt_le_of_refines h1 h2 (fun x y hx hy => (h x y hx hy).mpr))
    (cnt_le_of_refines h2 h1 (fun x y hx hy => (h x y hx hy).mp))

/-- reachability only depends on the rows of the nodes -/
theorem reach_congr {n : Nat} {adj1 adj2 : Nat → List Nat} (hwf : ∀ u, u < n → ∀ v ∈ adj1 u, v < n)
    (h : ∀ x, x < n → ∀ y, y ∈ adj1 x → y ∈ adj2 x) {u v : Nat} (hu : u < n) (hr : Reach adj1 u v) :
    Reach adj2 u v := by
  induction hr with
  | refl => exact Reach.refl _
  | tail hp he ih => exact Reach.tail ih (h _ (Reach.lt hwf hp hu) _ he)

end SkNet.UForest

namespace SkNet.UForest
open SkNet SkNet.Connectivity SkNet.Cycles

/-! ### the edge list of a symmetric adjacency -/

/-- an undirected simple graph given by its rows -/
structure UOK (n : Nat) (adj : Nat → List Nat) : Prop where
  wf : ∀ u, u < n → ∀ v ∈ adj u, v < n
  sym : ∀ u, u < n → ∀ v ∈ adj u, u ∈ adj v
  noloop : ∀ u, u < n → u ∉ adj u
  nodup : ∀ u, u < n → (adj u).Nodup

/-- every edge once, from its smaller end -/
def edgesOf (n : Nat) (adj : Nat → List Nat) : List (Nat × Nat) :=
  (List.range n).flatMap fun u => ((adj u).filter (u < ·)).map fun v => (u, v)

/-- every edge once, found from its larger end -/
def edgesDown (n : Nat) (adj : Nat → List Nat) : List (Nat × Nat) :=
  (List.range n).flatMap fun u => ((adj u).filter (· < u)).map fun v => (v, u)

theorem mem_edgesOf {n : Nat} {adj : Nat → List Nat} {a b : Nat} :
    (a, b) ∈ edgesOf n adj ↔ a < n ∧ b ∈ adj a ∧ a < b := by
  simp only [edgesOf, List.mem_flatMap, List.mem_range, List.mem_map, List.mem_filter, decide_eq_true_eq,
    Prod.mk.injEq]
  constructor
  · rintro ⟨u, hu, w, ⟨hw, huw⟩, rfl, rfl⟩; exact ⟨hu, hw, huw⟩
  · rintro ⟨h1, h2, h3⟩; exact ⟨a, h1, b, ⟨h2, h3⟩, rfl, rfl⟩

theorem mem_edgesDown {n : Nat} {adj : Nat → List Nat} {a b : Nat} :
    (a, b) ∈ edgesDown n adj ↔ b < n ∧ a ∈ adj b ∧ a < b := by
  simp only [edgesDown, List.mem_flatMap, List.mem_range, List.mem_map, List.mem_filter, decide_eq_true_eq,
    Prod.mk.injEq]
  constructor
  · rintro ⟨u, hu, w, ⟨hw, hwu⟩, rfl, rfl⟩; exact ⟨hu, hw, hwu⟩
  · rintro ⟨h1, h2, h3⟩; exact ⟨b, h1, a, ⟨h2, h3⟩, rfl, rfl⟩

theorem nodup_flatMap_pairs {n : Nat} (g : Nat → List Nat) (mk : Nat → Nat → Nat × Nat)
    (hg : ∀ u, u < n → (g u).Nodup)
    (hinj : ∀ u v u' v', mk u v = mk u' v' → u = u' ∧ v = v') :
    ((List.range n).flatMap fun u => (g u).map fun v => mk u v).Nodup := by
  rw [List.nodup_iff_pairwise_ne, List.pairwise_flatMap]
  constructor
  · intro u hu
    rw [List.pairwise_map]
    refine List.Pairwise.imp ?_ (List.nodup_iff_pairwise_ne.mp (hg u (List.mem_range.mp hu)))
    intro a b hab he
    exact hab (hinj _ _ _ _ he).2
  · refine List.Pairwise.imp ?_ (List.nodup_iff_pairwise_ne.mp (List.nodup_range (n := n)))
    intro u u' huu x hx y hy hxy
    obtain ⟨a, _, rfl⟩ := List.mem_map.mp hx
    obtain ⟨b, _, rfl⟩ := List.mem_map.mp hy
    exact huu (hinj _ _ _ _ hxy).1

theorem edgesOf_ok {n : Nat} {adj : Nat → List Nat} (h : UOK n adj) : EdgesOK n (edgesOf n adj) := by
  refine ⟨?_, ?_⟩
  · apply nodup_flatMap_pairs (fun u => (adj u).filter (u < ·)) (fun u v => (u, v))
    · intro u hu; exact (List.filter_sublist).nodup (h.nodup u hu)
    · intro u v u' v' he; simpa using he
  · rintro ⟨a, b⟩ he
    obtain ⟨h1, h2, h3⟩ := mem_edgesOf.mp he
    exact ⟨h3, h.wf a h1 b h2⟩

theorem edgesDown_perm {n : Nat} {adj : Nat → List Nat} (h : UOK n adj) :
    (edgesDown n adj).Perm (edgesOf n adj) := by
  have hnd : (edgesDown n adj).Nodup := by
    apply nodup_flatMap_pairs (fun u => (adj u).filter (· < u)) (fun u v => (v, u))
    · intro u hu; exact (List.filter_sublist).nodup (h.nodup u hu)
    · intro u v u' v' he
      simp only [Prod.mk.injEq] at he
      exact ⟨he.2, he.1⟩
  apply (List.perm_ext_iff_of_nodup hnd (edgesOf_ok h).1).mpr
  rintro ⟨a, b⟩
  rw [mem_edgesDown, mem_edgesOf]
  constructor
  · rintro ⟨h1, h2, h3⟩
    exact ⟨h.wf b h1 a h2, h.sym b h1 a h2, h3⟩
  · rintro ⟨h1, h2, h3⟩
    exact ⟨h.wf a h1 b h2, h.sym a h1 b h2, h3⟩

theorem length_split (u : Nat) (l : List Nat) (hu : u ∉ l) :
    l.length = (l.filter (u < ·)).length + (l.filter (· < u)).length := by
  induction l with
  | nil => rfl
  | cons a l ih =>
    have hau : a ≠ u := fun he => hu (he ▸ List.mem_cons_self)
    have ih' := ih (fun hm => hu (List.mem_cons_of_mem _ hm))
    rcases Nat.lt_or_gt_of_ne hau with hlt | hgt
    · have h1 : decide (u < a) = false := by simpa using Nat.le_of_lt hlt
      have h2 : decide (a < u) = true := by simpa using hlt
      simp only [List.filter_cons, h1, h2, List.length_cons, Bool.false_eq_true, ↓reduceIte]
      omega
    · have h1 : decide (u < a) = true := by simpa using hgt
      have h2 : decide (a < u) = false := by simpa using Nat.le_of_lt hgt
      simp only [List.filter_cons, h1, h2, List.length_cons, Bool.false_eq_true, ↓reduceIte]
      omega

theorem sum_map_add (l : List Nat) (f g : Nat → Nat) :
    (l.map fun i => f i + g i).sum = (l.map f).sum + (l.map g).sum := by
  induction l with
  | nil => rfl
  | cons a l ih => simp only [List.map_cons, List.sum_cons, ih]; omega

theorem sum_map_congr {l : List Nat} {f g : Nat → Nat} (h : ∀ i ∈ l, f i = g i) : (l.map f).sum = (l.map g).sum := by
  induction l with
  | nil => rfl
  | cons a l ih =>
    simp only [List.map_cons, List.sum_cons]
    rw [h a List.mem_cons_self, ih (fun i hi => h i (List.mem_cons_of_mem _ hi))]

/-- ★ the stored entries are the edges, twice -/
theorem nnz_eq_twice_edges {n : Nat} {adj : Nat → List Nat} (h : UOK n adj) :
    ((List.range n).map fun i => (adj i).length).sum = 2 * (edgesOf n adj).length := by
  have hup : (edgesOf n adj).length = ((List.range n).map fun u => ((adj u).filter (u < ·)).length).sum := by
    simp [edgesOf, List.length_flatMap]
  have hdown : (edgesDown n adj).length = ((List.range n).map fun u => ((adj u).filter (· < u)).length).sum := by
    simp [edgesDown, List.length_flatMap]
  have hsplit : ((List.range n).map fun i => (adj i).length).sum =
      ((List.range n).map fun u => ((adj u).filter (u < ·)).length + ((adj u).filter (· < u)).length).sum :=
    sum_map_congr (fun i hi => length_split i (adj i) (h.noloop i (List.mem_range.mp hi)))
  rw [hsplit, sum_map_add, ← hup, ← hdown, (edgesDown_perm h).length_eq]
  omega

theorem adjOf_edgesOf {n : Nat} {adj : Nat → List Nat} (h : UOK n adj) {x : Nat} (hx : x < n) (y : Nat) :
    y ∈ adjOf (edgesOf n adj) x ↔ y ∈ adj x := by
  rw [mem_adjOf, mem_edgesOf, mem_edgesOf]
  constructor
  · rintro (⟨_, h2, _⟩ | ⟨h1, h2, _⟩)
    · exact h2
    · exact h.sym y h1 x h2
  · intro hy
    have hyn := h.wf x hx y hy
    have hne : y ≠ x := fun he => h.noloop x hx (he ▸ hy)
    rcases Nat.lt_or_gt_of_ne hne with hlt | hgt
    · right; exact ⟨hyn, h.sym x hx y hy, hlt⟩
    · left; exact ⟨hx, hy, hgt⟩

end SkNet.UForest

namespace SkNet.UForest
open SkNet SkNet.Connectivity SkNet.Cycles

theorem isChain_mono_on {adj adj' : Nat → List Nat} (l : List Nat)
    (hsub : ∀ u ∈ l, ∀ v, v ∈ adj u → v ∈ adj' u) (h : isChain adj l = true) : isChain adj' l = true := by
  induction l with
  | nil => rfl
  | cons x l ih =>
    cases l with
    | nil => rfl
    | cons y l =>
      rw [isChain_cons_cons] at h ⊢
      simp only [Bool.and_eq_true, List.contains_iff_mem] at h ⊢
      exact ⟨hsub x List.mem_cons_self y h.1, ih (fun u hu => hsub u (List.mem_cons_of_mem _ hu)) h.2⟩

theorem isSimpleCycle_mono_on {n : Nat} {adj adj' : Nat → List Nat}
    (hsub : ∀ u, u < n → ∀ v, v ∈ adj u → v ∈ adj' u) {d : Bool} {C : List Nat}
    (h : IsSimpleCycle n adj d C) : IsSimpleCycle n adj' d C := by
  obtain ⟨h1, h2, h3, h4⟩ := h
  refine ⟨h1, h2, ?_, h4⟩
  cases C with
  | nil => exact absurd h3 (by simp [IsClosedChain])
  | cons hd t =>
    apply isChain_mono_on (hd :: t ++ [hd]) _ h3
    intro u hu v hv
    have hun : u < n := by
      rcases List.mem_append.mp hu with h | h
      · exact h2 u h
      · simp only [List.mem_singleton] at h; subst h; exact h2 _ List.mem_cons_self
    exact hsub u hun v hv

/-- ★ the forest criterion: for an undirected simple graph whose labels tell the components apart,
    `#labels = n - #edges` (with `#edges` = half the stored entries) exactly when no cycle with three nodes or more
    exists. -/
theorem components_eq_iff_forest {n : Nat} {adj : Nat → List Nat} (h : UOK n adj) {labels : List Nat}
    (hlab : IsLabelling n adj false labels) :
    ((npUnique labels).length : Int) = (n : Int) - (((((List.range n).map fun i => (adj i).length).sum / 2 : Nat)) : Int)
      ↔ ¬ ∃ C, IsSimpleCycle n adj false C ∧ 3 ≤ C.length := by
  have hok := edgesOf_ok h
  have hnnz := nnz_eq_twice_edges h
  have hhalf : ((List.range n).map fun i => (adj i).length).sum / 2 = (edgesOf n adj).length := by
    rw [hnnz]; omega
  have hcount := count_eq n (edgesOf n adj) hok.nodes
  -- the given labels and the union-find labels tell the same classes apart
  have hsame : ∀ x y, x < n → y < n →
      (labels.getD x 0 = labels.getD y 0 ↔ (uf n (edgesOf n adj)).getD x 0 = (uf n (edgesOf n adj)).getD y 0) := by
    intro x y hx hy
    rw [hlab.2 x y hx hy, uf_spec n _ hok.nodes x y hx hy]
    simp only [SameComp, Bool.false_eq_true, ↓reduceIte]
    constructor
    · intro hr
      refine reach_congr (weakAdj_wf h.wf) ?_ hx hr
      intro a ha b hb
      apply (adjOf_edgesOf h ha b).mpr
      rcases List.mem_append.mp hb with h1 | h1
      · exact h1
      · obtain ⟨hbn, hab⟩ := List.mem_filter.mp h1
        exact h.sym b (List.mem_range.mp hbn) a (by simpa using hab)
    · intro hr
      refine reach_congr (adjOf_wf hok) ?_ hx hr
      intro a ha b hb
      exact List.mem_append_left _ ((adjOf_edgesOf h ha b).mp hb)
  have hcnt := cnt_eq_of_same_classes hlab.1 (uf_length n _) hsame
  rw [hhalf, hcnt]
  constructor
  · intro heq ⟨C, hC, hlen⟩
    have hC' : IsSimpleCycle n (adjOf (edgesOf n adj)) false C :=
      isSimpleCycle_mono_on (fun u hu v hv => (adjOf_edgesOf h hu v).mpr hv) hC
    have := closing_of_cycle hok hC' hlen
    omega
  · intro hno
    have hclosing : closing n (edgesOf n adj) = 0 := by
      apply Classical.byContradiction
      intro hne
      obtain ⟨C, hC, hlen⟩ := cycle_of_closing hok (by omega)
      exact hno ⟨C, isSimpleCycle_mono_on (fun u hu v hv => (adjOf_edgesOf h hu v).mp hv) hC, hlen⟩
    omega

end SkNet.UForest

namespace SkNet.UForest
open SkNet SkNet.Connectivity SkNet.Cycles

/-! ### graphs with self-loops: the criterion as `get_cycles` uses it -/

/-- the rows without their diagonal entry -/
def dropLoops (adj : Nat → List Nat) : Nat → List Nat := fun u => (adj u).filter (· != u)

theorem mem_dropLoops {adj : Nat → List Nat} {u v : Nat} : v ∈ dropLoops adj u ↔ v ∈ adj u ∧ v ≠ u := by
  simp [dropLoops, List.mem_filter]

/-- consecutive nodes differ -/
def locDistinct : List Nat → Bool
  | [] => true
  | [_] => true
  | x :: y :: l => x != y && locDistinct (y :: l)

theorem locDistinct_of_nodup {l : List Nat} (h : l.Nodup) : locDistinct l = true := by
  match l, h with
  | [], _ => rfl
  | [_], _ => rfl
  | x :: y :: l, h =>
    rw [locDistinct]
    have h1 := List.nodup_cons.mp h
    have hxy : x ≠ y := fun he => h1.1 (he ▸ List.mem_cons_self)
    simp [hxy, locDistinct_of_nodup h1.2]

theorem locDistinct_append_singleton {l : List Nat} {a : Nat} (h : locDistinct l = true)
    (hl : l.getLast? ≠ some a) : locDistinct (l ++ [a]) = true := by
  match l, h, hl with
  | [], _, _ => rfl
  | [x], _, hl =>
    have : x ≠ a := fun he => hl (by rw [he]; rfl)
    simp [locDistinct, this]
  | x :: y :: l, h, hl =>
    rw [locDistinct] at h
    simp only [Bool.and_eq_true] at h
    show locDistinct (x :: y :: (l ++ [a])) = true
    rw [locDistinct]
    simp only [Bool.and_eq_true]
    exact ⟨h.1, locDistinct_append_singleton (l := y :: l) h.2 (by rwa [List.getLast?_cons_cons] at hl)⟩

theorem isChain_dropLoops {adj : Nat → List Nat} (l : List Nat) (h : isChain adj l = true)
    (hd : locDistinct l = true) : isChain (dropLoops adj) l = true := by
  match l, h, hd with
  | [], _, _ => rfl
  | [_], _, _ => rfl
  | x :: y :: l, h, hd =>
    rw [isChain_cons_cons] at h ⊢
    rw [locDistinct] at hd
    simp only [Bool.and_eq_true, List.contains_iff_mem, bne_iff_ne, ne_eq] at h hd ⊢
    exact ⟨mem_dropLoops.mpr ⟨h.1, fun he => hd.1 he.symm⟩, isChain_dropLoops (y :: l) h.2 hd.2⟩

/-- a cycle with three nodes or more does not use a self-loop -/
theorem simpleCycle_dropLoops {n : Nat} {adj : Nat → List Nat} {C : List Nat}
    (hC : IsSimpleCycle n adj false C) (hlen : 3 ≤ C.length) : IsSimpleCycle n (dropLoops adj) false C := by
  obtain ⟨h1, h2, h3, h4⟩ := hC
  refine ⟨h1, h2, ?_, h4⟩
  match C, h1, h3, hlen with
  | hd :: a :: t, h1, h3, _ =>
    have hch : isChain adj (hd :: a :: t ++ [hd]) = true := h3
    apply isChain_dropLoops _ hch
    apply locDistinct_append_singleton (locDistinct_of_nodup h1)
    intro hl
    have hmem : hd ∈ a :: t := by
      rw [List.getLast?_cons_cons] at hl
      exact List.mem_of_getLast? hl
    exact (List.nodup_cons.mp h1).1 hmem

theorem sum_indicator (n : Nat) (p : Nat → Bool) :
    ((List.range n).map fun i => if p i then 1 else 0).sum = ((List.range n).filter p).length := by
  induction n with
  | zero => rfl
  | succ n ih =>
    rw [List.range_succ, List.map_append, List.sum_append, List.filter_append, List.length_append, ih]
    cases hp : p n <;> simp [hp]

theorem length_dropLoop (u : Nat) (l : List Nat) (hnd : l.Nodup) :
    l.length = (l.filter (· != u)).length + (if l.contains u then 1 else 0) := by
  induction l with
  | nil => rfl
  | cons a l ih =>
    have h1 := List.nodup_cons.mp hnd
    have ih' := ih h1.2
    by_cases hau : a = u
    · subst hau
      have hnot : l.contains a = false := by simpa using h1.1
      rw [hnot] at ih'
      simp only [List.filter_cons, bne_self_eq_false, Bool.false_eq_true, ↓reduceIte, List.length_cons,
        List.contains_cons, BEq.rfl, Bool.true_or]
      simp only [Bool.false_eq_true, ↓reduceIte, Nat.add_zero] at ih'
      omega
    · have hb : (a != u) = true := by simpa using hau
      have hc : (a :: l).contains u = l.contains u := by
        simp only [List.contains_cons]
        have : (u == a) = false := by simpa using (Ne.symm hau)
        simp [this]
      rw [hc]
      simp only [List.filter_cons, hb, ↓reduceIte, List.length_cons]
      omega

end SkNet.UForest

namespace SkNet.UForest
open SkNet SkNet.Connectivity SkNet.Cycles

/-- the counting identity behind the criterion: `#labels + #edges = n + k` where `k = 0` exactly for a forest -/
theorem forest_count {n : Nat} {adj : Nat → List Nat} (h : UOK n adj) {labels : List Nat}
    (hlab : IsLabelling n adj false labels) :
    ∃ k : Nat, (npUnique labels).length + ((List.range n).map fun i => (adj i).length).sum / 2 = n + k ∧
      (k = 0 ↔ ¬ ∃ C, IsSimpleCycle n adj false C ∧ 3 ≤ C.length) := by
  have hiff := components_eq_iff_forest h hlab
  have hok := edgesOf_ok h
  have hnnz := nnz_eq_twice_edges h
  have hhalf : ((List.range n).map fun i => (adj i).length).sum / 2 = (edgesOf n adj).length := by
    rw [hnnz]; omega
  have hcount := count_eq n (edgesOf n adj) hok.nodes
  have hsame : ∀ x y, x < n → y < n →
      (labels.getD x 0 = labels.getD y 0 ↔ (uf n (edgesOf n adj)).getD x 0 = (uf n (edgesOf n adj)).getD y 0) := by
    intro x y hx hy
    rw [hlab.2 x y hx hy, uf_spec n _ hok.nodes x y hx hy]
    simp only [SameComp, Bool.false_eq_true, ↓reduceIte]
    constructor
    · intro hr
      refine reach_congr (weakAdj_wf h.wf) ?_ hx hr
      intro a ha b hb
      apply (adjOf_edgesOf h ha b).mpr
      rcases List.mem_append.mp hb with h1 | h1
      · exact h1
      · obtain ⟨hbn, hab⟩ := List.mem_filter.mp h1
        exact h.sym b (List.mem_range.mp hbn) a (by simpa using hab)
    · intro hr
      refine reach_congr (adjOf_wf hok) ?_ hx hr
      intro a ha b hb
      exact List.mem_append_left _ ((adjOf_edgesOf h ha b).mp hb)
  have hcnt := cnt_eq_of_same_classes hlab.1 (uf_length n _) hsame
  refine ⟨closing n (edgesOf n adj), by rw [hhalf, hcnt]; exact hcount, ?_⟩
  rw [← hiff, hhalf, hcnt]
  omega

/-- ★ the criterion as `get_cycles` uses it, self-loops counted among the stored entries: when it holds there is no
    cycle with three nodes or more -/
theorem no_cycle_of_criterion {n : Nat} {adj : Nat → List Nat}
    (hwf : ∀ u, u < n → ∀ v ∈ adj u, v < n) (hsym : ∀ u, u < n → ∀ v ∈ adj u, u ∈ adj v)
    (hnodup : ∀ u, u < n → (adj u).Nodup) {labels : List Nat} (hlab : IsLabelling n adj false labels)
    (hcrit : ((npUnique labels).length : Int) =
      (n : Int) - (((((List.range n).map fun i => (adj i).length).sum / 2 : Nat)) : Int)) :
    ¬ ∃ C, IsSimpleCycle n adj false C ∧ 3 ≤ C.length := by
  -- the loop-free part
  have huok : UOK n (dropLoops adj) := by
    refine ⟨?_, ?_, ?_, ?_⟩
    · intro u hu v hv; exact hwf u hu v (mem_dropLoops.mp hv).1
    · intro u hu v hv
      obtain ⟨h1, h2⟩ := mem_dropLoops.mp hv
      exact mem_dropLoops.mpr ⟨hsym u hu v h1, Ne.symm h2⟩
    · intro u _ hm; exact (mem_dropLoops.mp hm).2 rfl
    · intro u hu; exact (List.filter_sublist).nodup (hnodup u hu)
  have hlab' : IsLabelling n (dropLoops adj) false labels := by
    refine ⟨hlab.1, fun x y hx hy => ?_⟩
    rw [hlab.2 x y hx hy]
    simp only [SameComp, Bool.false_eq_true, ↓reduceIte]
    constructor
    · have key : ∀ z, Reach (weakAdj n adj) x z → Reach (weakAdj n (dropLoops adj)) x z := by
        intro z hr
        induction hr with
        | refl => exact Reach.refl _
        | @tail a b hp he ih =>
          by_cases hab : b = a
          · rw [hab]; exact ih
          · refine Reach.tail ih ?_
            rcases List.mem_append.mp he with h1 | h1
            · exact List.mem_append_left _ (mem_dropLoops.mpr ⟨h1, hab⟩)
            · obtain ⟨hbn, hmem⟩ := List.mem_filter.mp h1
              refine List.mem_append_right _ (List.mem_filter.mpr ⟨hbn, ?_⟩)
              have : a ∈ adj b := by simpa using hmem
              simpa using mem_dropLoops.mpr ⟨this, Ne.symm hab⟩
      exact key y
    · intro hr
      refine SkNet.Cycles.Reach.mono ?_ hr
      intro a b hb
      rcases List.mem_append.mp hb with h1 | h1
      · exact List.mem_append_left _ (mem_dropLoops.mp h1).1
      · obtain ⟨hbn, hmem⟩ := List.mem_filter.mp h1
        refine List.mem_append_right _ (List.mem_filter.mpr ⟨hbn, ?_⟩)
        have : a ∈ dropLoops adj b := by simpa using hmem
        simpa using (mem_dropLoops.mp this).1
  obtain ⟨k, hk, hk0⟩ := forest_count huok hlab'
  -- stored entries = entries off the diagonal + self-loops
  have hsplit : ((List.range n).map fun i => (adj i).length).sum =
      ((List.range n).map fun i => (dropLoops adj i).length).sum +
        ((List.range n).filter fun u => (adj u).contains u).length := by
    rw [← sum_indicator, ← sum_map_add]
    apply sum_map_congr
    intro i hi
    exact length_dropLoop i (adj i) (hnodup i (List.mem_range.mp hi))
  have heven := nnz_eq_twice_edges huok
  have hk' : k = 0 := by omega
  intro ⟨C, hC, hlen⟩
  exact (hk0.mp hk') ⟨C, simpleCycle_dropLoops hC hlen, hlen⟩

end SkNet.UForest
