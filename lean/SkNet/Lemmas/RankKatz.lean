/-
Katz centrality (`ranking/katz.py`) equals its walk-count definition; closeness equals `(n−1)/Σ_j d(i,j)`.
-/
import SkNet.Lemmas.RankHorner
import Mathlib.Tactic.FieldSimp
import Mathlib.Algebra.Order.Field.Basic

open Finset

namespace SkNet.Rank
open SkNet.RankSpec

/-! ### Katz -/

/-- matrix of `adjacency.T.astype(bool)` -/
def boolM (edge : ℕ → ℕ → Bool) (i j : ℕ) : ℚ := if edge j i then 1 else 0

theorem boolT_actsAs (n : ℕ) (edge : ℕ → ℕ → Bool) : ActsAs n (boolT n edge) (boolM edge) := by
  intro l i hi
  unfold boolT boolM
  rw [tab_getD, if_pos hi, map_range_sum]
  apply sum_congr rfl; intro j _
  split <;> simp

theorem nat_map_range_sum (n : ℕ) (f : ℕ → ℕ) : ((List.range n).map f).sum = ∑ i ∈ range n, f i := by
  induction n with
  | zero => simp
  | succ k ih => rw [List.range_succ, List.map_append, List.sum_append, ih, sum_range_succ]; simp

/-- `((Aᵀ)ᵏ 1) i` is the number of walks of length `k` ending at `i` -/
theorem matPow_ones (n : ℕ) (edge : ℕ → ℕ → Bool) (k i : ℕ) :
    matPow n (boolM edge) k (fun _ => 1) i = (walksTo n edge k i : ℚ) := by
  induction k generalizing i with
  | zero => simp [matPow, walksTo]
  | succ k ih =>
    show matVec n (boolM edge) (matPow n (boolM edge) k fun _ => 1) i = _
    rw [matVec_eq, walksTo, nat_map_range_sum, Nat.cast_sum]
    apply sum_congr rfl; intro j _
    rw [ih j]
    unfold boolM
    split <;> simp

theorem foldl_mul_replicate (k : ℕ) (a b : ℚ) : (List.replicate k a).foldl (· * ·) b = b * a ^ k := by
  induction k generalizing b with
  | zero => simp
  | succ k ih => rw [List.replicate_succ, List.foldl_cons, ih, pow_succ]; ring

theorem katzCoeffs_length (a : ℚ) (K : ℕ) : (katzCoeffs a K).length = K + 1 := by
  unfold katzCoeffs; simp

theorem katzCoeffs_getD (a : ℚ) (K k : ℕ) (hk : k < K + 1) :
    (katzCoeffs a K).getD k 0 = if k = 0 then 0 else a ^ k := by
  unfold katzCoeffs
  rw [List.getD_eq_getElem?_getD, List.getElem?_map, List.getElem?_range hk]
  simp only [Option.map_some, Option.getD_some]
  split
  · rfl
  · rw [foldl_mul_replicate, one_mul]

/-- ★ `katz_eq_def` : `Katz(damping_factor=a, path_length=K).scores_[i] = Σ_{k=1..K} aᵏ · #walks of length k ending at i` -/
theorem katz_eq_spec (n : ℕ) (edge : ℕ → ℕ → Bool) (a : ℚ) (K : ℕ) :
    ∀ i, i < n → (katz n edge a K).getD i 0 = katzSpec n edge a K i := by
  intro i hi
  unfold katz
  cases h : horner n (boolT n edge) (katzCoeffs a K) (tab n fun _ => 1) with
  | none =>
    exfalso
    unfold horner at h
    have : (katzCoeffs a K).reverse ≠ [] := by
      intro hnil
      have := congrArg List.length hnil
      rw [List.length_reverse, katzCoeffs_length] at this
      simp at this
    split at h
    · rename_i hr; exact this hr
    · cases h
  | some s =>
    simp only
    rw [horner_eq_polyApply n (boolM edge) (boolT n edge) (boolT_actsAs n edge) _ _ s h i hi, polyApply_eq,
      katzCoeffs_length, sum_range_succ']
    have hx : (fun j => (tab n fun _ => (1 : ℚ)).getD j 0) = fun j => if j < n then (1 : ℚ) else 0 := by
      funext j; rw [tab_getD]
    -- only coordinates below n matter: replace the vector by the constant 1
    have hpow : ∀ k j, j < n →
        matPow n (boolM edge) k (fun j => (tab n fun _ => (1 : ℚ)).getD j 0) j = matPow n (boolM edge) k (fun _ => 1) j := by
      intro k
      induction k with
      | zero =>
        intro j hj
        show (tab n fun _ => (1 : ℚ)).getD j 0 = 1
        rw [tab_getD, if_pos hj]
      | succ k ih =>
        intro j hj
        show matVec n _ _ j = matVec n _ _ j
        rw [matVec_eq, matVec_eq]
        exact sum_congr rfl fun l hl => by rw [ih l (mem_range.mp hl)]
    rw [katzCoeffs_getD a K 0 (by omega)]
    simp only [if_true, zero_mul, add_zero]
    unfold katzSpec
    rw [map_range_sum]
    apply sum_congr rfl; intro k hk
    have hk' : k + 1 < K + 1 := by have := mem_range.mp hk; omega
    rw [katzCoeffs_getD a K (k + 1) hk', if_neg (by omega), hpow (k + 1) i hi, matPow_ones]

/-! ### closeness -/

theorem natS_eq (k : ℕ) : (natS k : ℚ) = k := by
  induction k using Nat.strong_induction_on with
  | _ k ih =>
    cases k with
    | zero => simp [natS]
    | succ m =>
      rw [natS]
      have h := ih ((m + 1) / 2) (by omega)
      rw [h]
      have hdiv : (((m + 1) / 2 : ℕ) : ℚ) * 2 + (((m + 1) % 2 : ℕ) : ℚ) = ((m + 1 : ℕ) : ℚ) := by
        exact_mod_cast Nat.div_add_mod' (m + 1) 2
      split
      · rename_i hm
        rw [hm] at hdiv; push_cast at hdiv ⊢; linarith
      · rename_i hm
        have : (m + 1) % 2 = 0 := by omega
        rw [this] at hdiv; push_cast at hdiv ⊢; linarith

theorem intS_eq (z : ℤ) : (intS z : ℚ) = z := by
  unfold intS
  split
  · rename_i h
    rw [natS_eq]
    have : (z.natAbs : ℤ) = -z := by omega
    have h2 : ((z.natAbs : ℕ) : ℚ) = ((z.natAbs : ℤ) : ℚ) := by simp
    rw [h2, this]; push_cast; ring
  · rename_i h
    rw [natS_eq]
    have : (z.natAbs : ℤ) = z := by omega
    have h2 : ((z.natAbs : ℕ) : ℚ) = ((z.natAbs : ℤ) : ℚ) := by simp
    rw [h2, this]

/-- ★ `closeness_eq_def` : given the rows of hop distances, the score of `i` is `(n−1)/Σ_j d(i,j)`,
    and `0` when some node is unreachable from `i` -/
theorem closenessOf_eq (n : ℕ) (hn : 0 < n) (dist : List (List ℤ)) (i : ℕ) (hi : i < n) :
    (closenessOf n dist : List ℚ).getD i 0
      = if (dist.getD i []).any (· < 0) then 0
        else ((n : ℚ) - 1) / (((dist.getD i []).foldl (· + ·) 0 : ℤ) : ℚ) := by
  unfold closenessOf
  rw [tab_getD, if_pos hi]
  simp only
  split
  · rfl
  · rw [natS_eq, natS_eq, intS_eq]
    have hn' : (n : ℚ) ≠ 0 := by exact_mod_cast (Nat.pos_iff_ne_zero.mp hn)
    have : ((n - 1 : ℕ) : ℚ) = (n : ℚ) - 1 := by
      rw [Nat.cast_sub (by omega)]; simp
    rw [this]
    by_cases hz : ((List.foldl (· + ·) 0 (dist.getD i []) : ℤ) : ℚ) = 0
    · rw [hz]; simp
    · field_simp

end SkNet.Rank
