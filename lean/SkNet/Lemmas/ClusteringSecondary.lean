/-
`_secondary_outputs`: `probs_ = normalize(A·M)` and `aggregate_ = Mᵀ·A·M` meet their specifications (C05).
-/
import SkNet.Lemmas.ClusteringSums

namespace SkNet.Clustering

/-! ### `probs_` -/

theorem dotMember_length (a : SpMat) (labels : List Nat) (k : Nat) : (dotMember a labels k).length = a.length := by
  simp [dotMember]

theorem dotMember_getD (a : SpMat) (labels : List Nat) (k : Nat) {i : Nat} (hi : i < a.length) :
    (dotMember a labels k).getD i [] = tab k (classSum (a.getD i []) (fun e => labels.getD e.1 k) (·.2)) := by
  simp only [dotMember, List.getD_eq_getElem?_getD, List.getElem?_map, List.getElem?_eq_getElem hi,
    Option.map_some, Option.getD_some]
  rfl

/-- ★ `normalize(A·M)` is a soft membership: every row is non-negative and sums to 1 (to 0 when the node has
    no outgoing weight) -/
theorem probs_ok (a : SpMat) (labels : List Nat) (k : Nat)
    (hw : ∀ row ∈ a, ∀ e ∈ row, 0 ≤ e.2) (hl : ∀ row ∈ a, ∀ e ∈ row, labels.getD e.1 k < k) :
    ProbsOK a (normalizeRows (dotMember a labels k)) k 0 := by
  refine ⟨by simp [normalizeRows, dotMember], ?_⟩
  intro i hi
  have hmem : a.getD i [] ∈ a := by
    rw [List.getD_eq_getElem?_getD, List.getElem?_eq_getElem hi, Option.getD_some]; exact List.getElem_mem hi
  have : (normalizeRows (dotMember a labels k)).getD i [] =
      normalizeRow (tab k (classSum (a.getD i []) (fun e => labels.getD e.1 k) (·.2))) := by
    rw [normalizeRows_eq, ← dotMember_getD a labels k hi]
    have hi' : i < (dotMember a labels k).length := by rw [dotMember_length]; exact hi
    simp [List.getD_eq_getElem?_getD, hi']
  rw [this]
  exact probsRow_ok _ labels k (hw _ hmem) (hl _ hmem)

/-- ★ `probs_[i][c]` = weight from node `i` to cluster `c`, divided by the out-weight of `i` (0 without out-weight) -/
theorem probs_entry (a : SpMat) (labels : List Nat) (k : Nat)
    (hw : ∀ row ∈ a, ∀ e ∈ row, 0 ≤ e.2) (hl : ∀ row ∈ a, ∀ e ∈ row, labels.getD e.1 k < k)
    {i c : Nat} (hi : i < a.length) (hc : c < k) :
    ((normalizeRows (dotMember a labels k)).getD i []).getD c 0 =
      if rowWeight (a.getD i []) = 0 then 0
      else classSum (a.getD i []) (fun e => labels.getD e.1 k) (·.2) c / rowWeight (a.getD i []) := by
  have hmem : a.getD i [] ∈ a := by
    rw [List.getD_eq_getElem?_getD, List.getElem?_eq_getElem hi, Option.getD_some]; exact List.getElem_mem hi
  have : (normalizeRows (dotMember a labels k)).getD i [] =
      normalizeRow (tab k (classSum (a.getD i []) (fun e => labels.getD e.1 k) (·.2))) := by
    rw [normalizeRows_eq, ← dotMember_getD a labels k hi]
    have hi' : i < (dotMember a labels k).length := by rw [dotMember_length]; exact hi
    simp [List.getD_eq_getElem?_getD, hi']
  rw [this]
  exact probsRow_entry _ labels k (hw _ hmem) (hl _ hmem) hc

/-! ### `aggregate_` -/

theorem sumR_filter_map {α : Type} (l : List α) (q : α → Bool) (h : α → Rat) :
    sumR ((l.filter q).map h) = sumR (l.map fun i => if q i then h i else 0) := by
  induction l with
  | nil => rfl
  | cons x xs ih =>
    by_cases hq : q x
    · simp [hq, ih]
    · simp [hq, ih]

theorem sumR_flatMap_filter_map {α β : Type} (l : List α) (f : α → List β) (p : β → Bool) (g : β → Rat) :
    sumR (((l.flatMap f).filter p).map g) = sumR (l.map fun i => sumR (((f i).filter p).map g)) := by
  induction l with
  | nil => rfl
  | cons x xs ih => simp [List.flatMap_cons, List.filter_append, sumR_append, ih]

theorem sumR_map_congr {α : Type} {l : List α} {f g : α → Rat} (h : ∀ x ∈ l, f x = g x) :
    sumR (l.map f) = sumR (l.map g) := by
  rw [List.map_congr_left h]

theorem memberTDot_row (lr : List Nat) (k : Nat) (am : List (List Rat)) {x : Nat} (hx : x < k) :
    (memberTDot lr k am k).getD x [] = tab k fun b =>
      sumR (((List.range lr.length).filter fun i => lr.getD i k == x).map fun i => (am.getD i []).getD b 0) := by
  rw [show memberTDot lr k am k = tab k fun a => tab k fun b =>
    sumR (((List.range lr.length).filter fun i => lr.getD i k == a).map fun i => (am.getD i []).getD b 0) from rfl,
    tab_getD, if_pos hx]

/-- entry `(x, y)` of `Mrᵀ·(A·Mc)` -/
theorem memberTDot_getD (lr : List Nat) (k : Nat) (am : List (List Rat)) {x y : Nat} (hx : x < k) (hy : y < k) :
    ((memberTDot lr k am k).getD x []).getD y 0 =
      sumR (((List.range lr.length).filter fun i => lr.getD i k == x).map fun i => (am.getD i []).getD y 0) := by
  rw [memberTDot_row lr k am hx, tab_getD, if_pos hy]

/-- ★ `aggregate_[x][y]` is the sum of the input weights from cluster `x` to cluster `y` -/
theorem aggregate_entry (a : SpMat) (lr lc : List Nat) (k : Nat) (hlen : lr.length = a.length)
    {x y : Nat} (hx : x < k) (hy : y < k) :
    ((memberTDot lr k (dotMember a lc k) k).getD x []).getD y 0 = aggEntry a lr lc k x y := by
  rw [memberTDot_getD lr k _ hx hy, sumR_filter_map, hlen]
  unfold aggEntry triples
  rw [sumR_flatMap_filter_map]
  apply sumR_map_congr
  intro i hi
  have hi' := List.mem_range.mp hi
  rw [dotMember_getD a lc k hi', tab_getD, if_pos hy]
  simp only [List.filter_map, List.map_map]
  by_cases hq : lr.getD i k = x
  · simp only [hq, beq_self_eq_true, if_true, classSum]
    have hf : ((fun t : Nat × Nat × Rat => lr.getD t.1 k == x && lc.getD t.2.1 k == y) ∘
        fun e : Nat × Rat => (i, e.1, e.2)) = fun e => lc.getD e.1 k == y := by
      funext e
      simp only [Function.comp, hq, beq_self_eq_true, Bool.true_and]
    rw [hf]; rfl
  · have : (lr.getD i k == x) = false := by simpa using hq
    simp only [this, Bool.false_eq_true, if_false]
    have : (List.filter ((fun t : Nat × Nat × Rat => lr.getD t.1 k == x && lc.getD t.2.1 k == y) ∘
        fun e : Nat × Rat => (i, e.1, e.2)) (a.getD i [])) = [] := by
      rw [List.filter_eq_nil_iff]
      intro e _
      simp only [Function.comp, this, Bool.false_and, Bool.false_eq_true, not_false_eq_true]
    rw [this]; rfl

theorem aggOK_model (a : SpMat) (lr lc : List Nat) (k : Nat) (hlen : lr.length = a.length) :
    AggOK a lr lc k (memberTDot lr k (dotMember a lc k) k) 0 := by
  refine ⟨by simp [memberTDot], ?_⟩
  intro x hx
  refine ⟨by rw [memberTDot_row lr k _ hx]; simp, ?_⟩
  intro y hy
  rw [aggregate_entry a lr lc k hlen hx hy]
  simp [absR]

theorem aggEntry_eq_classSum (a : SpMat) (lr lc : List Nat) (k x y : Nat) :
    aggEntry a lr lc k x y =
      classSum ((triples a).filter fun t => lr.getD t.1 k == x) (fun t => lc.getD t.2.1 k) (·.2.2) y := by
  unfold aggEntry classSum
  rw [List.filter_filter]
  congr 2
  apply List.filter_congr
  intro t _
  exact Bool.and_comm _ _

/-- ★ the aggregate matrix carries the whole weight of the input, provided every row index and every stored
    column index has a label below `k` -/
theorem aggregate_total (a : SpMat) (lr lc : List Nat) (k : Nat)
    (hr : ∀ t ∈ triples a, lr.getD t.1 k < k) (hc : ∀ t ∈ triples a, lc.getD t.2.1 k < k) :
    sumR (tab k fun x => sumR (tab k fun y => aggEntry a lr lc k x y)) = totalWeight a := by
  have h1 : ∀ x, x < k → sumR (tab k fun y => aggEntry a lr lc k x y) =
      classSum (triples a) (fun t => lr.getD t.1 k) (·.2.2) x := by
    intro x _
    have : (fun y => aggEntry a lr lc k x y) =
        classSum ((triples a).filter fun t => lr.getD t.1 k == x) (fun t => lc.getD t.2.1 k) (·.2.2) := by
      funext y; exact aggEntry_eq_classSum a lr lc k x y
    rw [this, sum_classSum]
    · rfl
    · intro t ht; exact hc t (List.mem_filter.mp ht).1
  rw [sumR_tab_congr h1, sum_classSum _ _ _ _ hr]
  rfl

theorem sumAll_memberTDot (lr : List Nat) (k : Nat) (am : List (List Rat)) :
    sumAll (memberTDot lr k am k) =
      sumR (tab k fun x => sumR (tab k fun y => ((memberTDot lr k am k).getD x []).getD y 0)) := by
  unfold sumAll
  rw [show memberTDot lr k am k = tab k fun a => tab k fun b =>
    sumR (((List.range lr.length).filter fun i => lr.getD i k == a).map fun i => (am.getD i []).getD b 0) from rfl,
    map_tab]
  apply sumR_tab_congr
  intro x hx
  apply sumR_tab_congr
  intro y hy
  rw [tab_getD, if_pos hx, tab_getD, if_pos hy]

/-- ★ total of `aggregate_` = total edge weight -/
theorem aggregate_sumAll (a : SpMat) (lr lc : List Nat) (k : Nat) (hlen : lr.length = a.length)
    (hr : ∀ t ∈ triples a, lr.getD t.1 k < k) (hc : ∀ t ∈ triples a, lc.getD t.2.1 k < k) :
    sumAll (memberTDot lr k (dotMember a lc k) k) = totalWeight a := by
  rw [sumAll_memberTDot, ← aggregate_total a lr lc k hr hc]
  apply sumR_tab_congr
  intro x hx
  apply sumR_tab_congr
  intro y hy
  exact aggregate_entry a lr lc k hlen hx hy

/-! ### the function `_secondary_outputs` itself -/

theorem maxLabel?_eq {l : List Nat} (h : l ≠ []) : ∃ m, maxLabel? l = .ok m ∧ nLabels l = m + 1 := by
  unfold maxLabel? nLabels
  cases hm : l.max? with
  | none => exact absurd (List.max?_eq_none_iff.mp hm) h
  | some m => exact ⟨m, rfl, rfl⟩

theorem getD_lt_nLabels {l : List Nat} {i : Nat} (hi : i < l.length) : l.getD i (nLabels l) < nLabels l := by
  rw [List.getD_eq_getElem?_getD, List.getElem?_eq_getElem hi, Option.getD_some]
  unfold nLabels
  cases hm : l.max? with
  | none =>
    have := List.max?_eq_none_iff.mp hm
    subst this; simp at hi
  | some m =>
    have := (List.max?_eq_some_iff.mp hm).2 _ (List.getElem_mem hi)
    simp only; omega

theorem getD_lt_of_le {l : List Nat} {i k : Nat} (hi : i < l.length) (hk : nLabels l ≤ k) : l.getD i k < k := by
  have := getD_lt_nLabels hi
  rw [List.getD_eq_getElem?_getD, List.getElem?_eq_getElem hi, Option.getD_some] at this ⊢
  omega

theorem mem_triples {a : SpMat} {t : Nat × Nat × Rat} (h : t ∈ triples a) :
    t.1 < a.length ∧ ∃ row ∈ a, (t.2.1, t.2.2) ∈ row := by
  unfold triples at h
  obtain ⟨i, hi, ht⟩ := List.mem_flatMap.mp h
  have hi' := List.mem_range.mp hi
  obtain ⟨e, he, rfl⟩ := List.mem_map.mp ht
  refine ⟨hi', a.getD i [], ?_, he⟩
  rw [List.getD_eq_getElem?_getD, List.getElem?_eq_getElem hi', Option.getD_some]; exact List.getElem_mem hi'

/-- ★ `_secondary_outputs` on a square (non-bipartite) input with non-negative weights: never raises;
    `probs_` is a soft membership over the `k = max + 1` labels, `aggregate_` is `k × k`, its entries are the sums
    of input weights between clusters and its total is the total edge weight. -/
theorem secondarySquare_spec {a : SpMat} {l : List Nat} (hne : l ≠ []) (hsq : l.length = a.length)
    (hcols : ∀ row ∈ a, ∀ e ∈ row, e.1 < l.length) (hw : ∀ row ∈ a, ∀ e ∈ row, 0 ≤ e.2) (rp ra : Bool) :
    ∃ s, secondarySquare a l.length l rp ra = .ok s ∧
      (if rp then ∃ P, s.probs = some P ∧ ProbsOK a P (nLabels l) 0 else s.probs = none) ∧
      (if ra then ∃ G, s.aggregate = some G ∧ AggOK a l l (nLabels l) G 0 ∧ sumAll G = totalWeight a
       else s.aggregate = none) := by
  obtain ⟨m, hm, hk⟩ := maxLabel?_eq hne
  unfold secondarySquare
  simp only [hm, bne_self_eq_false, Bool.false_eq_true, if_false, hsq, Bool.and_false]
  refine ⟨_, rfl, ?_, ?_⟩
  · cases rp with
    | false => simp
    | true =>
      simp only [if_true]
      refine ⟨_, rfl, ?_⟩
      rw [hk]
      apply probs_ok a l (m + 1) hw
      intro row hr e he
      exact getD_lt_of_le (hcols row hr e he) (by omega)
  · cases ra with
    | false => simp
    | true =>
      simp only [if_true]
      refine ⟨_, rfl, ?_, ?_⟩
      · rw [hk]; exact aggOK_model a l l (m + 1) hsq
      · apply aggregate_sumAll a l l (m + 1) hsq
        · intro t ht
          exact getD_lt_of_le (hsq ▸ (mem_triples ht).1) (by omega)
        · intro t ht
          obtain ⟨_, row, hr, he⟩ := mem_triples ht
          exact getD_lt_of_le (hcols row hr _ he) (by omega)

theorem mem_transposeSp {a : SpMat} {nCol : Nat} {row : List (Nat × Rat)} {e : Nat × Rat}
    (hr : row ∈ transposeSp a nCol) (he : e ∈ row) :
    e.1 < a.length ∧ ∃ row' ∈ a, ∃ j, (j, e.2) ∈ row' := by
  unfold transposeSp tab at hr
  obtain ⟨j, _, rfl⟩ := List.mem_map.mp hr
  obtain ⟨i, hi, hei⟩ := List.mem_flatMap.mp he
  have hi' := List.mem_range.mp hi
  obtain ⟨e', he', rfl⟩ := List.mem_map.mp hei
  refine ⟨hi', a.getD i [], ?_, e'.1, (List.mem_filter.mp he').1⟩
  rw [List.getD_eq_getElem?_getD, List.getElem?_eq_getElem hi', Option.getD_some]; exact List.getElem_mem hi'

theorem nLabels_le_of_maxLabel {l : List Nat} {m : Nat} (h : maxLabel? l = .ok m) : nLabels l = m + 1 := by
  unfold maxLabel? at h
  unfold nLabels
  cases hm : l.max? with
  | none => rw [hm] at h; cases h
  | some x => rw [hm] at h; cases h; rfl

/-- ★ `_secondary_outputs` on a biadjacency matrix with non-negative weights: never raises; `probs_row_`
    (= `probs_`) and `probs_col_` are soft memberships of the rows and of the columns over the common label
    space, `aggregate_` holds the sums of weights between row clusters and column clusters and has the total
    weight of the input. -/
theorem secondaryBip_spec {a : SpMat} {nCol : Nat} {lr lc : List Nat} (hr : lr ≠ []) (hc : lc ≠ [])
    (hlr : lr.length = a.length) (hlc : lc.length = nCol)
    (hcols : ∀ row ∈ a, ∀ e ∈ row, e.1 < nCol) (hw : ∀ row ∈ a, ∀ e ∈ row, 0 ≤ e.2) (rp ra : Bool) :
    ∃ s, secondaryBip a nCol lr lc rp ra = .ok s ∧
      (if rp then ∃ Pr Pc, s.probsRow = some Pr ∧ s.probs = some Pr ∧ s.probsCol = some Pc ∧
          ProbsOK a Pr (max (nLabels lr) (nLabels lc)) 0 ∧
          ProbsOK (transposeSp a nCol) Pc (max (nLabels lr) (nLabels lc)) 0
       else s.probs = none ∧ s.probsRow = none ∧ s.probsCol = none) ∧
      (if ra then ∃ G, s.aggregate = some G ∧ AggOK a lr lc (max (nLabels lr) (nLabels lc)) G 0 ∧
          sumAll G = totalWeight a
       else s.aggregate = none) := by
  obtain ⟨mr, hmr, hkr⟩ := maxLabel?_eq hr
  obtain ⟨mc, hmc, hkc⟩ := maxLabel?_eq hc
  have hk : max (nLabels lr) (nLabels lc) = max mr mc + 1 := by rw [hkr, hkc]; omega
  unfold secondaryBip
  simp only [hmr, hmc, hlr, hlc, bne_self_eq_false, Bool.or_self, Bool.false_eq_true, if_false]
  refine ⟨_, rfl, ?_, ?_⟩
  · cases rp with
    | false => simp
    | true =>
      simp only [if_true]
      refine ⟨_, _, rfl, rfl, rfl, ?_, ?_⟩
      · rw [hk]
        apply probs_ok a lc _ hw
        intro row hrow e he
        exact getD_lt_of_le (hlc ▸ hcols row hrow e he) (by omega)
      · rw [hk]
        apply probs_ok
        · intro row hrow e he
          obtain ⟨_, row', hr', j, hj⟩ := mem_transposeSp hrow he
          exact hw row' hr' (j, e.2) hj
        · intro row hrow e he
          exact getD_lt_of_le (hlr ▸ (mem_transposeSp hrow he).1) (by omega)
  · cases ra with
    | false => simp
    | true =>
      simp only [if_true]
      refine ⟨_, rfl, ?_, ?_⟩
      · rw [hk]; exact aggOK_model a lr lc _ hlr
      · apply aggregate_sumAll a lr lc _ hlr
        · intro t ht
          exact getD_lt_of_le (hlr ▸ (mem_triples ht).1) (by omega)
        · intro t ht
          obtain ⟨_, row, hrow, he⟩ := mem_triples ht
          exact getD_lt_of_le (hlc ▸ hcols row hrow _ he) (by omega)

theorem nLabels_le_iff (l : List Nat) (k : Nat) : nLabels l ≤ k ↔ ∀ x ∈ l, x < k := by
  unfold nLabels
  cases hm : l.max? with
  | none =>
    have := List.max?_eq_none_iff.mp hm
    subst this; simp
  | some m =>
    have hm' := List.max?_eq_some_iff.mp hm
    simp only
    constructor
    · intro h x hx; have := hm'.2 x hx; omega
    · intro h; have := h m hm'.1; omega

theorem nLabels_append (l₁ l₂ : List Nat) : nLabels (l₁ ++ l₂) = max (nLabels l₁) (nLabels l₂) := by
  apply Nat.le_antisymm
  · rw [nLabels_le_iff]
    intro x hx
    rcases List.mem_append.mp hx with h | h
    · have := (nLabels_le_iff l₁ (nLabels l₁)).mp (Nat.le_refl _) x h; omega
    · have := (nLabels_le_iff l₂ (nLabels l₂)).mp (Nat.le_refl _) x h; omega
  · have h := (nLabels_le_iff (l₁ ++ l₂) (nLabels (l₁ ++ l₂))).mp (Nat.le_refl _)
    have h1 : nLabels l₁ ≤ nLabels (l₁ ++ l₂) :=
      (nLabels_le_iff _ _).mpr (fun x hx => h x (List.mem_append.mpr (Or.inl hx)))
    have h2 : nLabels l₂ ≤ nLabels (l₁ ++ l₂) :=
      (nLabels_le_iff _ _).mpr (fun x hx => h x (List.mem_append.mpr (Or.inr hx)))
    omega

/-! ### labels and secondary outputs together -/

/-- ★ the dispatcher `_secondary_outputs` on the labels produced by a fit: for a valid clustering `L` of the `N`
    nodes, split by `_split_vars`, and an input matrix with non-negative weights whose shape matches
    (`N × N`, or `n_row × n_col` with `N = n_row + n_col`), it never raises and `SecondaryOK` holds. -/
theorem secondary_of_valid {a : SpMat} {nCol N : Nat} {L : List Nat} {sorted : Bool} (bipartite : Bool) (nRow : Nat)
    (hv : ValidClustering N L sorted)
    (hshape : if bipartite then a.length = nRow ∧ N = nRow + nCol ∧ 0 < nRow ∧ 0 < nCol
              else a.length = N ∧ nCol = N ∧ 0 < N)
    (hcols : ∀ row ∈ a, ∀ e ∈ row, e.1 < nCol) (hw : ∀ row ∈ a, ∀ e ∈ row, 0 ≤ e.2) (rp ra : Bool) :
    ∃ s, secondary a nCol (splitVars bipartite nRow L) bipartite rp ra = .ok s ∧
      SecondaryOK a nCol (splitVars bipartite nRow L) bipartite rp ra s := by
  have hlen := hv.1
  unfold secondary
  by_cases hnone : (rp || ra) = false
  · have hrp : rp = false := by cases rp <;> simp_all
    have hra : ra = false := by cases ra <;> simp_all
    subst hrp; subst hra
    exact ⟨_, rfl, by simp [SecondaryOK]⟩
  · have hsome : (!(rp || ra)) = false := by simpa using hnone
    simp only [hsome, Bool.false_eq_true, if_false]
    cases bipartite with
    | false =>
      simp only [Bool.not_false, if_true, Bool.false_eq_true, if_false] at hshape ⊢
      obtain ⟨hal, hnc, hpos⟩ := hshape
      have hne : L ≠ [] := by intro h; rw [h] at hlen; simp at hlen; omega
      have hsq : L.length = a.length := by rw [hlen, hal]
      obtain ⟨s, hs, hp, hg⟩ := secondarySquare_spec hne hsq (fun row hr e he => by rw [hlen, ← hnc]; exact hcols row hr e he)
        hw rp ra
      rw [show (splitVars false nRow L).labels = L from rfl, hnc, ← hlen]
      refine ⟨s, hs, ?_⟩
      unfold secondarySquare at hs
      obtain ⟨m, hm, _⟩ := maxLabel?_eq hne
      simp only [hm, bne_self_eq_false, Bool.false_eq_true, if_false, hsq, Bool.and_false] at hs
      cases hs
      simp only [SecondaryOK, Bool.false_eq_true, if_false, show (splitVars false nRow L).labels = L from rfl]
      constructor
      · cases rp with
        | false => simp
        | true =>
          simp only [if_true] at hp ⊢
          obtain ⟨P, hP, hok⟩ := hp
          exact ⟨P, hP, hok, by simp⟩
      · exact hg
    | true =>
      simp only [if_true, Bool.not_true, Bool.false_eq_true, if_false] at hshape ⊢
      obtain ⟨hal, hN, hr0, hc0⟩ := hshape
      have htake : (L.take nRow).length = nRow := by simp; omega
      have hdrop : (L.drop nRow).length = nCol := by simp; omega
      have hr : L.take nRow ≠ [] := by intro h; rw [h] at htake; simp at htake; omega
      have hc : L.drop nRow ≠ [] := by intro h; rw [h] at hdrop; simp at hdrop; omega
      obtain ⟨s, hs, hp, hg⟩ := secondaryBip_spec hr hc (by rw [htake, hal]) hdrop hcols hw rp ra
      simp only [splitVars, if_true]
      refine ⟨s, hs, ?_⟩
      simp only [SecondaryOK, if_true, Option.getD_some, nLabels_append]
      constructor
      · cases rp with
        | false => simpa using hp
        | true =>
          simp only [if_true] at hp ⊢
          obtain ⟨Pr, Pc, h1, h2, h3, h4, h5⟩ := hp
          exact ⟨Pr, h2, h4, h1, Pc, h3, h5⟩
      · exact hg

end SkNet.Clustering
