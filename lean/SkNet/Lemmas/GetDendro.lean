/- `get_dendrogram`: the rows produced for a well-formed tree replay as a valid dendrogram. -/
import SkNet.Spec.Hierarchy
import SkNet.Lemmas.Live

set_option linter.unusedSimpArgs false

namespace SkNet.Hier
open SkNet SkNet.Dendro

/-- The state of `get_dendrogram` is consistent with the live set `L` reached by replaying its rows. -/
structure GInv (n : Nat) (st : GState) (L : Dict Nat) : Prop where
  live : liveAfter n 0 st.rows (liveInit (List.replicate n 1)) = some L
  linv : LInv n st.rows.length L
  index : st.index + 1 = n + st.rows.length
  sizeLeaf : ∀ x, x < n → st.size.get? x = none
  sizeNew : ∀ x, n + st.rows.length ≤ x → st.size.get? x = none

/-- appending one well-formed row -/
theorem ginv_push {n : Nat} {st : GState} {L : Dict Nat} (h : GInv n st L) (r : Row Int) {si sj : Nat}
    (hi : L.get? r.i = some si) (hj : L.get? r.j = some sj) (hne : r.i ≠ r.j) (hs : r.s = si + sj) :
    ∃ L', GInv n { st with rows := st.rows ++ [r], index := st.index + 1 } L' ∧
      (∀ x, L'.get? x = if x = n + st.rows.length then some r.s else if x = r.j then none
        else if x = r.i then none else L.get? x) := by
  have hstep := liveStep_ok (n := n) (t := st.rows.length) hi hj hne hs
  obtain ⟨_, _, _, _, _, _, hl, _, hget⟩ := liveStep_spec h.linv hstep
  refine ⟨_, ⟨?_, ?_, ?_, h.sizeLeaf, ?_⟩, hget⟩
  · show liveAfter n 0 (st.rows ++ [r]) _ = _
    rw [liveAfter_append, h.live]
    simp only [Option.bind_some, Nat.zero_add, liveAfter, hstep]
  · simpa using hl
  · have := h.index
    simp only [List.length_append, List.length_cons, List.length_nil]
    omega
  · intro x hx
    simp only [List.length_append, List.length_cons, List.length_nil] at hx
    exact h.sizeNew x (by omega)

theorem mergeRest_spec (n depth : Nat) : ∀ (rest : List Nat) (s : Nat) (st : GState) (L : Dict Nat),
    GInv n st L → L.get? st.index = some s → rest.Nodup →
    (∀ k ∈ rest, k ≠ st.index ∧ ∃ sk, L.get? k = some sk ∧ sizeOf' st.size k = sk) →
    ∃ L', GInv n (mergeRest depth rest s st).2 L' ∧
      L'.get? (mergeRest depth rest s st).2.index = some (mergeRest depth rest s st).1 ∧
      (mergeRest depth rest s st).2.size = st.size ∧
      (mergeRest depth rest s st).2.rows.length = st.rows.length + rest.length ∧
      (∀ x, x ∉ rest → x ≠ st.index → x < n + st.rows.length → L'.get? x = L.get? x) := by
  intro rest
  induction rest with
  | nil =>
    intro s st L h hs _ _
    exact ⟨L, h, hs, rfl, rfl, fun _ _ _ _ => rfl⟩
  | cons k rest ih =>
    intro s st L h hs hnd hk
    have hnd' := List.nodup_cons.mp hnd
    obtain ⟨hkne, sk, hkL, hksz⟩ := hk k List.mem_cons_self
    let r : Row Int := { i := st.index, j := k, h := -(depth : Int), s := s + sizeOf' st.size k }
    obtain ⟨L1, h1, hget⟩ := ginv_push h r (si := s) (sj := sk) hs hkL (Ne.symm hkne) (by show s + sizeOf' st.size k = s + sk; rw [hksz])
    have hidx := h.index
    have hkb := h.linv.bound _ (Dict.get?_some_key_mem hkL)
    have hib := h.linv.bound _ (Dict.get?_some_key_mem hs)
    -- the accumulated node after the row
    have hacc : L1.get? (st.index + 1) = some (s + sizeOf' st.size k) := by
      rw [hget]; simp [show st.index + 1 = n + st.rows.length by omega, r]
    have hrest : ∀ k' ∈ rest, k' ≠ st.index + 1 ∧ ∃ sk', L1.get? k' = some sk' ∧ sizeOf' st.size k' = sk' := by
      intro k' hk'
      obtain ⟨hne', sk', hL', hsz'⟩ := hk k' (List.mem_cons_of_mem _ hk')
      have hb := h.linv.bound _ (Dict.get?_some_key_mem hL')
      refine ⟨by omega, sk', ?_, hsz'⟩
      rw [hget]
      have h1 : k' ≠ n + st.rows.length := by omega
      have h2 : k' ≠ k := fun e => hnd'.1 (e ▸ hk')
      simp [h1, h2, hne', hL', r]
    obtain ⟨L', g1, g2, g3, g4, g5⟩ := ih (s + sizeOf' st.size k)
      { st with rows := st.rows ++ [r], index := st.index + 1 } L1 h1 hacc hnd'.2 hrest
    refine ⟨L', g1, g2, g3, ?_, ?_⟩
    · show (mergeRest depth rest _ _).2.rows.length = _
      rw [g4]; simp only [List.length_append, List.length_cons, List.length_nil]; omega
    · intro x hx1 hx2 hx3
      simp only [List.mem_cons, not_or] at hx1
      have := g5 x hx1.2 (by show x ≠ st.index + 1; omega)
        (by simp only [List.length_append, List.length_cons, List.length_nil]; omega)
      show (L'.get? x) = _
      rw [this, hget]
      have h1 : x ≠ n + st.rows.length := by omega
      simp [h1, hx1.1, hx2, r]

/-- what `mergeAll` needs of the roots and what it returns -/
theorem mergeAll_spec (n depth : Nat) (roots : List Nat) (st : GState) (L : Dict Nat)
    (h : GInv n st L) (hlen : 2 ≤ roots.length) (hnd : roots.Nodup)
    (hr : ∀ k ∈ roots, ∃ sk, L.get? k = some sk ∧ sizeOf' st.size k = sk) :
    ∃ root st' L', mergeAll depth roots st = .ok (root, st') ∧ GInv n st' L' ∧
      (∃ s, L'.get? root = some s ∧ sizeOf' st'.size root = s) ∧
      st'.rows.length + 1 = st.rows.length + roots.length ∧
      n + st.rows.length ≤ root ∧
      (∀ x, x < n + st.rows.length → x ∉ roots →
        L'.get? x = L.get? x ∧ st'.size.get? x = st.size.get? x) := by
  have hrev : roots.reverse.length = roots.length := List.length_reverse
  have hndr : roots.reverse.Nodup := (List.reverse_perm roots).nodup_iff.mpr hnd
  match hrr : roots.reverse, hrev with
  | [], hrev => simp at hrev; omega
  | [_], hrev => simp at hrev; omega
  | i :: j :: rest, hrev =>
    rw [hrr] at hndr
    have hmem : ∀ x, x ∈ roots ↔ x = i ∨ x = j ∨ x ∈ rest := by
      intro x
      rw [← List.mem_reverse, hrr]; simp
    obtain ⟨si, hiL, hisz⟩ := hr i ((hmem i).mpr (Or.inl rfl))
    obtain ⟨sj, hjL, hjsz⟩ := hr j ((hmem j).mpr (Or.inr (Or.inl rfl)))
    have hnd1 := List.nodup_cons.mp hndr
    have hnd2 := List.nodup_cons.mp hnd1.2
    have hij : i ≠ j := fun e => hnd1.1 (e ▸ List.mem_cons_self)
    let r : Row Int := { i := i, j := j, h := -(depth : Int), s := sizeOf' st.size i + sizeOf' st.size j }
    obtain ⟨L1, h1, hget⟩ := ginv_push h r (si := si) (sj := sj) hiL hjL hij (by show sizeOf' st.size i + sizeOf' st.size j = si + sj; rw [hisz, hjsz])
    have hidx := h.index
    have hacc : L1.get? (st.index + 1) = some (sizeOf' st.size i + sizeOf' st.size j) := by
      rw [hget]; simp [show st.index + 1 = n + st.rows.length by omega, r]
    have hrest : ∀ k' ∈ rest, k' ≠ st.index + 1 ∧ ∃ sk', L1.get? k' = some sk' ∧ sizeOf' st.size k' = sk' := by
      intro k' hk'
      obtain ⟨sk', hL', hsz'⟩ := hr k' ((hmem k').mpr (Or.inr (Or.inr hk')))
      have hb := h.linv.bound _ (Dict.get?_some_key_mem hL')
      refine ⟨by omega, sk', ?_, hsz'⟩
      rw [hget]
      have e1 : k' ≠ n + st.rows.length := by omega
      have e2 : k' ≠ j := fun e => hnd2.1 (e ▸ hk')
      have e3 : k' ≠ i := fun e => hnd1.1 (e ▸ List.mem_cons_of_mem _ hk')
      simp [e1, e2, e3, hL', r]
    let st1 : GState := { st with rows := st.rows ++ [r], index := st.index + 1 }
    obtain ⟨L', g1, g2, g3, g4, g5⟩ := mergeRest_spec n depth rest
      (sizeOf' st.size i + sizeOf' st.size j) st1 L1 h1 hacc hnd2.2 hrest
    -- unfold mergeAll
    have hun : mergeAll depth roots st =
        .ok ((mergeRest depth rest (sizeOf' st.size i + sizeOf' st.size j) st1).2.index,
          { (mergeRest depth rest (sizeOf' st.size i + sizeOf' st.size j) st1).2 with
            size := (mergeRest depth rest (sizeOf' st.size i + sizeOf' st.size j) st1).2.size.set
              (mergeRest depth rest (sizeOf' st.size i + sizeOf' st.size j) st1).2.index
              (mergeRest depth rest (sizeOf' st.size i + sizeOf' st.size j) st1).1 }) := by
      unfold mergeAll
      rw [hrr]
    generalize hmr : mergeRest depth rest (sizeOf' st.size i + sizeOf' st.size j) st1 = res at *
    obtain ⟨s', st2⟩ := res
    simp only at g1 g2 g3 g4 g5 hun
    have hidx2 := g1.index
    have hlen2 : st2.rows.length = st.rows.length + 1 + rest.length := by
      rw [g4]; simp [st1]
    have hrl : roots.length = rest.length + 2 := by rw [← hrev]; simp
    refine ⟨st2.index, { st2 with size := st2.size.set st2.index s' }, L', hun, ?_, ?_, ?_, ?_, ?_⟩
    · refine ⟨g1.live, g1.linv, g1.index, ?_, ?_⟩
      · intro x hx
        show (st2.size.set st2.index s').get? x = none
        rw [Dict.get?_set]
        have : x ≠ st2.index := by omega
        simp [this, g1.sizeLeaf x hx]
      · intro x hx
        show (st2.size.set st2.index s').get? x = none
        rw [Dict.get?_set]
        have : x ≠ st2.index := by simp only at hx; omega
        simp [this, g1.sizeNew x hx]
    · refine ⟨s', g2, ?_⟩
      show ((st2.size.set st2.index s').get? st2.index).getD 1 = s'
      rw [Dict.get?_set]; simp
    · simp only; omega
    · omega
    · intro x hx hxr
      have hx' : ¬ (x = i ∨ x = j ∨ x ∈ rest) := fun e => hxr ((hmem x).mpr e)
      simp only [not_or] at hx'
      constructor
      · have := g5 x hx'.2.2 (by show x ≠ st.index + 1; omega)
          (by simp only [st1, List.length_append, List.length_cons, List.length_nil]; omega)
        rw [this, hget]
        have e1 : x ≠ n + st.rows.length := by omega
        simp [e1, hx'.1, hx'.2.1, r]
      · show (st2.size.set st2.index s').get? x = st.size.get? x
        rw [Dict.get?_set, g3]
        have : x ≠ st2.index := by omega
        simp [this, st1]


/-! ### the recursion over the tree -/

def PostTree (n : Nat) (lv : List Nat) (st : GState) (L : Dict Nat) (root : Nat) (st' : GState) (L' : Dict Nat) :
    Prop :=
  GInv n st' L' ∧ (∃ s, L'.get? root = some s ∧ sizeOf' st'.size root = s) ∧
  st'.rows.length + 1 = st.rows.length + lv.length ∧ st.rows.length ≤ st'.rows.length ∧
  (root ∈ lv ∨ n + st.rows.length ≤ root) ∧
  (∀ x, x < n + st.rows.length → x ∉ lv → L'.get? x = L.get? x ∧ st'.size.get? x = st.size.get? x)

def PostChildren (n : Nat) (k : Nat) (lv : List Nat) (st : GState) (L : Dict Nat) (roots : List Nat)
    (st' : GState) (L' : Dict Nat) : Prop :=
  GInv n st' L' ∧ roots.length = k ∧ roots.Nodup ∧
  (∀ r ∈ roots, ∃ s, L'.get? r = some s ∧ sizeOf' st'.size r = s) ∧
  (∀ r ∈ roots, r ∈ lv ∨ n + st.rows.length ≤ r) ∧
  st'.rows.length + k = st.rows.length + lv.length ∧ st.rows.length ≤ st'.rows.length ∧
  (∀ x, x < n + st.rows.length → x ∉ lv → L'.get? x = L.get? x ∧ st'.size.get? x = st.size.get? x)

def PreLeaves (n : Nat) (lv : List Nat) (L : Dict Nat) : Prop :=
  lv.Nodup ∧ ∀ x ∈ lv, x < n ∧ L.get? x = some 1

def SpecTree (n : Nat) (t : Tree) : Prop :=
  ∀ (depth : Nat) (st : GState) (L : Dict Nat), GInv n st L → WF t → PreLeaves n (tleaves t) L →
    ∃ root st' L', procTree depth t st = .ok (root, st') ∧ PostTree n (tleaves t) st L root st' L'

def SpecChildren (n : Nat) (ts : List Tree) : Prop :=
  ∀ (depth : Nat) (st : GState) (L : Dict Nat), GInv n st L → WFL ts → PreLeaves n (tleavesL ts) L →
    ∃ roots st' L', procChildren depth ts st = .ok (roots, st') ∧
      PostChildren n ts.length (tleavesL ts) st L roots st' L'

theorem spec_leaf (n k : Nat) : SpecTree n (.leaf k) := by
  intro depth st L h _ hpre
  have hk := hpre.2 k (by simp [tleaves])
  refine ⟨k, st, L, by simp [procTree], h, ⟨1, hk.2, by simp [sizeOf', h.sizeLeaf k hk.1]⟩, by simp [tleaves],
    Nat.le_refl _, Or.inl (by simp [tleaves]), fun _ _ _ => ⟨rfl, rfl⟩⟩

theorem spec_node (n : Nat) (ts : List Tree) (ih : SpecChildren n ts) : SpecTree n (.node ts) := by
  intro depth st L h hwf hpre
  simp only [WF] at hwf
  simp only [tleaves] at hpre ⊢
  obtain ⟨roots, st1, L1, e1, g1, hrl, hrnd, hrs, hro, hcnt, hmono, hframe⟩ := ih (depth + 1) st L h hwf.2 hpre
  obtain ⟨root, st', L', e2, g2, hsz, hcnt2, hge, hframe2⟩ :=
    mergeAll_spec n depth roots st1 L1 g1 (by omega) hrnd hrs
  refine ⟨root, st', L', ?_, g2, hsz, by omega, by omega, Or.inr (by omega), ?_⟩
  · simp only [procTree, e1, bind, Except.bind]
    exact e2
  · intro x hx hxl
    have hxr : x ∉ roots := by
      intro hm
      rcases hro x hm with h1 | h1
      · exact hxl h1
      · omega
    have := hframe2 x (by omega) hxr
    have h0 := hframe x hx hxl
    exact ⟨this.1.trans h0.1, this.2.trans h0.2⟩

theorem spec_nil (n : Nat) : SpecChildren n [] := by
  intro depth st L h _ _
  exact ⟨[], st, L, by simp [procChildren], h, rfl, List.nodup_nil, by simp, by simp, by simp [tleavesL],
    Nat.le_refl _, fun _ _ _ => ⟨rfl, rfl⟩⟩

theorem spec_cons (n : Nat) (t : Tree) (ts : List Tree) (iht : SpecTree n t) (ihts : SpecChildren n ts) :
    SpecChildren n (t :: ts) := by
  intro depth st L h hwf hpre
  simp only [WFL] at hwf
  simp only [tleavesL] at hpre ⊢
  have hnd := List.nodup_append.mp hpre.1
  obtain ⟨k, st1, L1, e1, g1, hks, hcnt1, hmono1, hko, hframe1⟩ :=
    iht depth st L h hwf.1 ⟨hnd.1, fun x hx => hpre.2 x (List.mem_append_left _ hx)⟩
  have hpre2 : PreLeaves n (tleavesL ts) L1 := by
    refine ⟨hnd.2.1, fun x hx => ?_⟩
    have hx0 := hpre.2 x (List.mem_append_right _ hx)
    have hnot : x ∉ tleaves t := fun hm => hnd.2.2 x hm x hx rfl
    exact ⟨hx0.1, by rw [(hframe1 x (by omega) hnot).1]; exact hx0.2⟩
  obtain ⟨ks, st2, L2, e2, g2, hkl, hknd, hkss, hkso, hcnt2, hmono2, hframe2⟩ :=
    ihts depth st1 L1 g1 hwf.2 hpre2
  obtain ⟨sk, hkL, hksz⟩ := hks
  have hkb := g1.linv.bound _ (Dict.get?_some_key_mem hkL)
  have hknot : k ∉ tleavesL ts := by
    intro hm
    rcases hko with h1 | h1
    · exact hnd.2.2 k h1 k hm rfl
    · have := (hpre2.2 k hm).1; omega
  have hkks : k ∉ ks := by
    intro hm
    rcases hkso k hm with h1 | h1
    · exact hknot h1
    · omega
  refine ⟨k :: ks, st2, L2, ?_, g2, by simp [hkl], List.nodup_cons.mpr ⟨hkks, hknd⟩, ?_, ?_, ?_, by omega, ?_⟩
  · simp only [procChildren, e1, e2, bind, Except.bind]
  · intro r hr
    rcases List.mem_cons.mp hr with e | e
    · subst e
      have := hframe2 r hkb hknot
      exact ⟨sk, by rw [this.1]; exact hkL, by unfold sizeOf' at hksz ⊢; rw [this.2]; exact hksz⟩
    · exact hkss r e
  · intro r hr
    rcases List.mem_cons.mp hr with e | e
    · subst e
      rcases hko with h1 | h1
      · exact Or.inl (List.mem_append_left _ h1)
      · exact Or.inr h1
    · rcases hkso r e with h1 | h1
      · exact Or.inl (List.mem_append_right _ h1)
      · exact Or.inr (by omega)
  · simp only [List.length_cons, List.length_append]; omega
  · intro x hx hxl
    simp only [List.mem_append, not_or] at hxl
    have h1 := hframe1 x hx hxl.1
    have h2 := hframe2 x (by omega) hxl.2
    exact ⟨h2.1.trans h1.1, h2.2.trans h1.2⟩

theorem specTree_all (n : Nat) (t : Tree) : SpecTree n t :=
  Tree.rec (motive_1 := SpecTree n) (motive_2 := SpecChildren n)
    (spec_leaf n) (spec_node n) (spec_nil n) (spec_cons n) t


/-! ### the initial state -/

theorem get?_append {β : Type} (a b : Dict β) (k : Nat) :
    Dict.get? (a ++ b) k = match Dict.get? a k with | some v => some v | none => Dict.get? b k := by
  induction a with
  | nil => rfl
  | cons p r ih =>
    obtain ⟨k', v⟩ := p
    simp only [List.cons_append, Dict.get?_cons]
    split
    · rfl
    · exact ih

theorem get?_map_range {β : Type} (f : Nat → β) (m x : Nat) (hx : x < m) :
    Dict.get? ((List.range m).map fun i => (i, f i)) x = some (f x) := by
  induction m with
  | zero => omega
  | succ m ih =>
    rw [List.range_succ, List.map_append, get?_append]
    by_cases h : x < m
    · rw [ih h]
    · have : x = m := by omega
      subst this
      have : Dict.get? ((List.range x).map fun i => (i, f i)) x = none := by
        rw [Dict.get?_eq_none_iff]
        simp [Dict.keys, Function.comp_def]
      rw [this]
      simp [Dict.get?_cons]

theorem liveInit_get? (n x : Nat) (hx : x < n) : (liveInit (List.replicate n 1)).get? x = some 1 := by
  unfold liveInit
  simp only [List.length_replicate]
  rw [get?_map_range (fun i => (List.replicate n 1).getD i 0) n x hx]
  simp [hx, List.getD_eq_getElem?_getD]

/-! ### `get_index` is the largest leaf -/

def listMax (l : List Nat) : Nat := l.foldr max 0

theorem listMax_append (a b : List Nat) : listMax (a ++ b) = max (listMax a) (listMax b) := by
  induction a with
  | nil => simp [listMax]
  | cons x xs ih =>
    simp only [listMax, List.cons_append, List.foldr_cons] at ih ⊢
    rw [ih]; omega

theorem le_listMax {l : List Nat} {x : Nat} (h : x ∈ l) : x ≤ listMax l := by
  induction l with
  | nil => simp at h
  | cons y ys ih =>
    simp only [listMax, List.foldr_cons] at ih ⊢
    rcases List.mem_cons.mp h with e | e
    · subst e; omega
    · have := ih e; omega

theorem listMax_mem {l : List Nat} (h : l ≠ []) : listMax l ∈ l := by
  induction l with
  | nil => exact absurd rfl h
  | cons y ys ih =>
    simp only [listMax, List.foldr_cons]
    by_cases hys : ys = []
    · subst hys; simp
    · have := ih hys
      simp only [listMax] at this
      by_cases hle : y ≤ ys.foldr max 0
      · rw [Nat.max_eq_right hle]; exact List.mem_cons_of_mem _ this
      · rw [Nat.max_eq_left (by omega)]; exact List.mem_cons_self

theorem getIndex_eq (t : Tree) : getIndex t = listMax (tleaves t) :=
  Tree.rec (motive_1 := fun t => getIndex t = listMax (tleaves t))
    (motive_2 := fun ts => getIndexList ts = listMax (tleavesL ts))
    (by intro k; simp [getIndex, tleaves, listMax])
    (by intro ts ih; simpa [getIndex, tleaves] using ih)
    (by simp [getIndexList, tleavesL, listMax])
    (by intro t ts iht ihts; simp only [getIndexList, tleavesL, listMax_append, iht, ihts]) t

theorem listMax_perm_range {l : List Nat} {n : Nat} (hn : 0 < n) (h : l.Perm (List.range n)) :
    listMax l + 1 = n := by
  have hne : l ≠ [] := by
    intro e; subst e
    have := h.length_eq; simp at this; omega
  have h1 : listMax l < n := by
    have := h.mem_iff.mp (listMax_mem hne); simpa using this
  have h2 : n - 1 ≤ listMax l := le_listMax (h.mem_iff.mpr (List.mem_range.mpr (by omega)))
  omega

end SkNet.Hier
