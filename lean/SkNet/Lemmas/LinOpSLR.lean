/-
C15 lemmas: SparseLR (`SLR`) — products equal the products by the dense matrix `S + Σ x yᵀ`, and every
operation of the class is the corresponding operation on dense matrices.
-/
import SkNet.Lemmas.LinOpBasic

namespace SkNet.LinOp
open SkNet

namespace SLR

/-! ### the constructor -/

/-- shapes of the low-rank tuples agree with the sparse part -/
def Valid (s : SLR) : Prop := ∀ t ∈ s.tuples, t.1.length = s.nRow ∧ t.2.length = s.nCol

theorem init_ok {S : Mat} {ts : List (Vec × Vec)} {s : SLR} (h : init S ts = .ok s) :
    s = ⟨S, ts⟩ ∧ ∀ t ∈ ts, t.1.length = S.nRow ∧ t.2.length = S.nCol := by
  unfold init at h
  split at h
  · rename_i hc
    refine ⟨by cases h; rfl, fun t ht => ?_⟩
    have := List.all_eq_true.mp hc t ht
    simpa using this
  · cases h

theorem init_valid {S : Mat} {ts : List (Vec × Vec)} {s : SLR} (h : init S ts = .ok s) : s.Valid := by
  obtain ⟨rfl, hv⟩ := init_ok h
  exact hv

theorem init_of_valid (S : Mat) (ts : List (Vec × Vec))
    (hv : ∀ t ∈ ts, t.1.length = S.nRow ∧ t.2.length = S.nCol) : init S ts = .ok ⟨S, ts⟩ := by
  unfold init
  have : ts.all (fun t => t.1.length == S.nRow && t.2.length == S.nCol) = true := by
    apply List.all_eq_true.mpr
    intro t ht
    simp [hv t ht]
  simp [this]

/-! ### entries of the low-rank part -/

@[simp] theorem lrEntry_nil (i j : Nat) : lrEntry [] i j = 0 := rfl
@[simp] theorem lrEntry_cons (t : Vec × Vec) (ts : List (Vec × Vec)) (i j : Nat) :
    lrEntry (t :: ts) i j = vget t.1 i * vget t.2 j + lrEntry ts i j := rfl

theorem lrEntry_append (ts os : List (Vec × Vec)) (i j : Nat) :
    lrEntry (ts ++ os) i j = lrEntry ts i j + lrEntry os i j := by
  induction ts with
  | nil => simp
  | cons t ts ih => simp only [List.cons_append, lrEntry_cons, ih]; ring

theorem lrEntry_map_neg (ts : List (Vec × Vec)) (i j : Nat) :
    lrEntry (ts.map fun t => (vneg t.1, t.2)) i j = - lrEntry ts i j := by
  induction ts with
  | nil => simp
  | cons t ts ih => simp only [List.map_cons, lrEntry_cons, ih, vget_vneg]; ring

theorem lrEntry_map_smul (c : Rat) (ts : List (Vec × Vec)) (i j : Nat) :
    lrEntry (ts.map fun t => (vsmul c t.1, t.2)) i j = c * lrEntry ts i j := by
  induction ts with
  | nil => simp
  | cons t ts ih => simp only [List.map_cons, lrEntry_cons, ih, vget_vsmul]; ring

theorem lrEntry_map_swap (ts : List (Vec × Vec)) (i j : Nat) :
    lrEntry (ts.map fun t => (t.2, t.1)) i j = lrEntry ts j i := by
  induction ts with
  | nil => simp
  | cons t ts ih => simp only [List.map_cons, lrEntry_cons, ih]; ring

theorem lrEntry_row_ge {ts : List (Vec × Vec)} {n : Nat} (hv : ∀ t ∈ ts, t.1.length = n) {i : Nat} (hi : n ≤ i)
    (j : Nat) : lrEntry ts i j = 0 := by
  induction ts with
  | nil => simp
  | cons t ts ih =>
    rw [lrEntry_cons, ih (fun t ht => hv t (List.mem_cons_of_mem _ ht)),
      vget_of_ge (by rw [hv t (List.mem_cons_self ..)]; exact hi)]
    ring

theorem lrEntry_col_ge {ts : List (Vec × Vec)} {m : Nat} (hv : ∀ t ∈ ts, t.2.length = m) (i : Nat) {j : Nat}
    (hj : m ≤ j) : lrEntry ts i j = 0 := by
  induction ts with
  | nil => simp
  | cons t ts ih =>
    rw [lrEntry_cons, ih (fun t ht => hv t (List.mem_cons_of_mem _ ht)),
      vget_of_ge (v := t.2) (i := j) (by rw [hv t (List.mem_cons_self ..)]; exact hj)]
    ring

@[simp] theorem dense_nRow (s : SLR) : s.dense.nRow = s.sparse.nRow := rfl
@[simp] theorem dense_nCol (s : SLR) : s.dense.nCol = s.sparse.nCol := rfl

/-- for a valid SparseLR the entries of `dense` are `S + Σ x yᵀ` everywhere (0 outside the shape) -/
theorem get_dense {s : SLR} (hv : s.Valid) (i j : Nat) :
    s.dense.get i j = s.sparse.get i j + lrEntry s.tuples i j := by
  unfold dense
  rw [Mat.get_ofFn]
  by_cases h : i < s.nRow ∧ j < s.nCol
  · simp [h]
  · simp only [h, if_false]
    by_cases h1 : i < s.nRow
    · have h2 : s.nCol ≤ j := Nat.le_of_not_lt (fun c => h ⟨h1, c⟩)
      rw [Mat.get_of_col_ge i h2, lrEntry_col_ge (fun t ht => (hv t ht).2) i h2]; ring
    · have h1' := Nat.le_of_not_lt h1
      rw [Mat.get_of_row_ge j h1', lrEntry_row_ge (fun t ht => (hv t ht).1) h1' j]; ring

/-! ### products -/

theorem foldl_matvec_length (n m : Nat) (v : Vec) (ts : List (Vec × Vec)) (p : Vec) (hp : p.length = n) :
    (ts.foldl (fun prod t => tab n fun i => vget prod i + vget t.1 i * vdot m v t.2) p).length = n := by
  induction ts generalizing p with
  | nil => simpa using hp
  | cons t ts ih => rw [List.foldl_cons]; exact ih _ (by simp)

theorem foldl_matvec_get (n m : Nat) (v : Vec) (ts : List (Vec × Vec)) (p : Vec) (i : Nat) (hi : i < n) :
    vget (ts.foldl (fun prod t => tab n fun i => vget prod i + vget t.1 i * vdot m v t.2) p) i
      = vget p i + sumTo m (fun j => lrEntry ts i j * vget v j) := by
  induction ts generalizing p with
  | nil => simp
  | cons t ts ih =>
    rw [List.foldl_cons, ih]
    simp only [vget_tab, hi, if_true, lrEntry_cons]
    rw [show (fun j => (vget t.1 i * vget t.2 j + lrEntry ts i j) * vget v j)
          = (fun j => vget t.1 i * (vget v j * vget t.2 j) + lrEntry ts i j * vget v j) from by
        funext j; ring]
    rw [sumTo_add, sumTo_mul_left]
    unfold vdot
    ring

theorem matvec_length (s : SLR) (v : Vec) : (s.matvec v).length = s.nRow := by
  unfold matvec
  exact foldl_matvec_length _ _ _ _ _ (by simp [nRow])

/-- **`_matvec` on a vector is the product by the dense matrix** -/
theorem matvec_eq_dense (s : SLR) (v : Vec) : s.matvec v = s.dense.mulVec v := by
  apply vec_ext (by rw [matvec_length]; simp [nRow])
  intro i hi
  rw [matvec_length] at hi
  unfold matvec
  rw [foldl_matvec_get _ _ _ _ _ _ hi, Mat.vget_mulVec, Mat.vget_mulVec, dense_nCol]
  simp only [nRow, nCol] at hi ⊢
  rw [← sumTo_add]
  apply sumTo_congr; intro j hj
  unfold dense
  rw [Mat.get_ofFn]
  simp only [nRow, nCol, hi, hj, and_self, if_true]
  ring

theorem foldl_matmat_shape (n m : Nat) (x : Mat) (ts : List (Vec × Vec)) (p : Mat)
    (hp : p.nRow = n ∧ p.nCol = x.nCol) :
    let r := ts.foldl (fun prod t => Mat.ofFn n x.nCol fun i k =>
      prod.get i k + vget t.1 i * sumTo m fun j => x.get j k * vget t.2 j) p
    r.nRow = n ∧ r.nCol = x.nCol := by
  induction ts generalizing p with
  | nil => simpa using hp
  | cons t ts ih => rw [List.foldl_cons]; exact ih _ ⟨rfl, rfl⟩

theorem foldl_matmat_get (n m : Nat) (x : Mat) (ts : List (Vec × Vec)) (p : Mat) (i k : Nat)
    (hi : i < n) (hk : k < x.nCol) :
    (ts.foldl (fun prod t => Mat.ofFn n x.nCol fun i k =>
      prod.get i k + vget t.1 i * sumTo m fun j => x.get j k * vget t.2 j) p).get i k
      = p.get i k + sumTo m (fun j => lrEntry ts i j * x.get j k) := by
  induction ts generalizing p with
  | nil => simp
  | cons t ts ih =>
    rw [List.foldl_cons, ih]
    simp only [Mat.get_ofFn, hi, hk, and_self, if_true, lrEntry_cons]
    rw [show (fun j => (vget t.1 i * vget t.2 j + lrEntry ts i j) * x.get j k)
          = (fun j => vget t.1 i * (x.get j k * vget t.2 j) + lrEntry ts i j * x.get j k) from by
        funext j; ring]
    rw [sumTo_add, sumTo_mul_left]
    ring

/-- **`_matvec` on a 2-d array is the product by the dense matrix** -/
theorem matmat_eqv_dense (s : SLR) (x : Mat) : Mat.Eqv (s.matmat x) (s.dense.mul x) := by
  have hs := foldl_matmat_shape s.nRow s.nCol x s.tuples (s.sparse.mul x) ⟨rfl, rfl⟩
  refine ⟨hs.1, hs.2, fun i k => ?_⟩
  by_cases hik : i < s.nRow ∧ k < x.nCol
  · obtain ⟨hi, hk⟩ := hik
    unfold matmat
    rw [foldl_matmat_get _ _ _ _ _ _ _ hi hk, Mat.get_mul, Mat.get_mul, dense_nCol]
    simp only [nRow, nCol] at hi ⊢
    rw [← sumTo_add]
    apply sumTo_congr; intro j hj
    unfold dense
    rw [Mat.get_ofFn]
    simp only [nRow, nCol, hi, hj, and_self, if_true]
    ring
  · have h1 : (s.matmat x).get i k = 0 := by
      apply Mat.get_of_not_lt
      unfold matmat; rw [hs.1, hs.2]; exact hik
    have h2 : (s.dense.mul x).get i k = 0 := by
      apply Mat.get_of_not_lt
      simpa [nRow] using hik
    rw [h1, h2]

/-! ### the operations of the class are the operations on dense matrices -/

theorem neg_dense {s t : SLR} (hv : s.Valid) (h : s.neg = .ok t) :
    t.Valid ∧ Mat.Eqv t.dense s.dense.neg := by
  unfold neg at h
  have hv' := init_valid h
  obtain ⟨rfl, -⟩ := init_ok h
  refine ⟨hv', rfl, rfl, fun i j => ?_⟩
  rw [get_dense hv', Mat.get_neg s.dense, get_dense hv]
  simp only [Mat.get_neg, lrEntry_map_neg]
  ring

theorem add_dense {s o t : SLR} (hs : s.Valid) (ho : o.Valid) (h : s.add o = .ok t) :
    t.Valid ∧ s.sparse.nRow = o.sparse.nRow ∧ s.sparse.nCol = o.sparse.nCol ∧
      Mat.Eqv t.dense (s.dense.add o.dense) := by
  unfold add at h
  obtain ⟨m, hm, h⟩ := bind_eq_ok h
  obtain ⟨hr, hc, rfl⟩ := Mat.add?_ok hm
  have hv' := init_valid h
  obtain ⟨rfl, -⟩ := init_ok h
  refine ⟨hv', hr, hc, rfl, rfl, fun i j => ?_⟩
  rw [get_dense hv', Mat.get_add (a := s.dense) (b := o.dense) (by simpa using hr) (by simpa using hc),
    get_dense hs, get_dense ho]
  simp only [Mat.get_add hr hc, lrEntry_append]
  ring

theorem addCsr_dense {s t : SLR} {a : Mat} (hs : s.Valid) (h : s.addCsr a = .ok t) :
    t.Valid ∧ s.sparse.nRow = a.nRow ∧ s.sparse.nCol = a.nCol ∧ Mat.Eqv t.dense (s.dense.add a) := by
  unfold addCsr at h
  obtain ⟨m, hm, h⟩ := bind_eq_ok h
  obtain ⟨hr, hc, rfl⟩ := Mat.add?_ok hm
  have hv' := init_valid h
  obtain ⟨rfl, -⟩ := init_ok h
  refine ⟨hv', hr, hc, rfl, rfl, fun i j => ?_⟩
  rw [get_dense hv', Mat.get_add (a := s.dense) (b := a) (by simpa using hr) (by simpa using hc), get_dense hs]
  simp only [Mat.get_add hr hc]
  ring

theorem mul_dense {s t : SLR} {c : Rat} (hv : s.Valid) (h : s.mul c = .ok t) :
    t.Valid ∧ Mat.Eqv t.dense (s.dense.smul c) := by
  unfold mul at h
  have hv' := init_valid h
  obtain ⟨rfl, -⟩ := init_ok h
  refine ⟨hv', rfl, rfl, fun i j => ?_⟩
  rw [get_dense hv', Mat.get_smul c s.dense, get_dense hv]
  simp only [Mat.get_smul, lrEntry_map_smul]
  ring

theorem transpose_dense {s t : SLR} (hv : s.Valid) (h : s.transpose = .ok t) :
    t.Valid ∧ Mat.Eqv t.dense s.dense.transpose := by
  unfold transpose at h
  have hv' := init_valid h
  obtain ⟨rfl, -⟩ := init_ok h
  refine ⟨hv', rfl, rfl, fun i j => ?_⟩
  rw [get_dense hv', Mat.get_transpose s.dense, get_dense hv]
  simp only [Mat.get_transpose, lrEntry_map_swap]

theorem sub_dense {s o t : SLR} (hs : s.Valid) (ho : o.Valid) (h : s.sub o = .ok t) :
    t.Valid ∧ s.sparse.nRow = o.sparse.nRow ∧ s.sparse.nCol = o.sparse.nCol ∧
      Mat.Eqv t.dense (s.dense.sub o.dense) := by
  unfold sub at h
  obtain ⟨n, hn, h⟩ := bind_eq_ok h
  obtain ⟨hnv, hne⟩ := neg_dense ho hn
  obtain ⟨hv', hr, hc, he⟩ := add_dense hs hnv h
  have hr' : s.sparse.nRow = o.sparse.nRow := by rw [hr]; exact hne.nRow
  have hc' : s.sparse.nCol = o.sparse.nCol := by rw [hc]; exact hne.nCol
  refine ⟨hv', hr', hc', he.nRow, he.nCol, fun i j => ?_⟩
  rw [he.get, Mat.get_add (by simpa using hr) (by simpa using hc), hne.get, Mat.get_neg,
    Mat.get_sub (by simpa using hr') (by simpa using hc')]
  ring

theorem subCsr_dense {s t : SLR} {a : Mat} (hs : s.Valid) (h : s.subCsr a = .ok t) :
    t.Valid ∧ s.sparse.nRow = a.nRow ∧ s.sparse.nCol = a.nCol ∧ Mat.Eqv t.dense (s.dense.sub a) := by
  unfold subCsr at h
  obtain ⟨hv', hr, hc, he⟩ := addCsr_dense hs h
  refine ⟨hv', hr, hc, he.nRow, he.nCol, fun i j => ?_⟩
  rw [he.get, Mat.get_add (by simpa using hr) (by simpa using hc), Mat.get_neg,
    Mat.get_sub (by simpa using hr) (by simpa using hc)]
  ring

/-! left / right products by a sparse matrix -/

theorem mapFst?_ok {m : Mat} {ts rs : List (Vec × Vec)} (h : mapFst? m.mulVec? ts = .ok rs) :
    (∀ t ∈ ts, m.nCol = t.1.length) ∧ rs = ts.map fun t => (m.mulVec t.1, t.2) := by
  induction ts generalizing rs with
  | nil => unfold mapFst? at h; cases h; simp
  | cons t ts ih =>
    unfold mapFst? at h
    obtain ⟨x, hx, h⟩ := bind_eq_ok h
    obtain ⟨r, hr, h⟩ := bind_eq_ok h
    obtain ⟨hl, rfl⟩ := Mat.mulVec?_ok hx
    obtain ⟨hall, rfl⟩ := ih hr
    have := pure_eq_ok h
    subst this
    refine ⟨fun u hu => ?_, by simp⟩
    rcases List.mem_cons.mp hu with rfl | hu
    · exact hl
    · exact hall u hu

theorem mapSnd?_ok {m : Mat} {ts rs : List (Vec × Vec)} (h : mapSnd? m.mulVec? ts = .ok rs) :
    (∀ t ∈ ts, m.nCol = t.2.length) ∧ rs = ts.map fun t => (t.1, m.mulVec t.2) := by
  induction ts generalizing rs with
  | nil => unfold mapSnd? at h; cases h; simp
  | cons t ts ih =>
    unfold mapSnd? at h
    obtain ⟨x, hx, h⟩ := bind_eq_ok h
    obtain ⟨r, hr, h⟩ := bind_eq_ok h
    obtain ⟨hl, rfl⟩ := Mat.mulVec?_ok hx
    obtain ⟨hall, rfl⟩ := ih hr
    have := pure_eq_ok h
    subst this
    refine ⟨fun u hu => ?_, by simp⟩
    rcases List.mem_cons.mp hu with rfl | hu
    · exact hl
    · exact hall u hu

theorem lrEntry_map_mulVec_fst (m : Mat) (ts : List (Vec × Vec)) (i j : Nat) :
    lrEntry (ts.map fun t => (m.mulVec t.1, t.2)) i j = sumTo m.nCol (fun k => m.get i k * lrEntry ts k j) := by
  induction ts with
  | nil => simp
  | cons t ts ih =>
    simp only [List.map_cons, lrEntry_cons, ih, Mat.vget_mulVec]
    rw [← sumTo_mul_right, ← sumTo_add]
    apply sumTo_congr; intro k _
    ring

theorem lrEntry_map_mulVec_snd (m : Mat) (ts : List (Vec × Vec)) (i j : Nat) :
    lrEntry (ts.map fun t => (t.1, m.mulVec t.2)) i j = sumTo m.nCol (fun k => lrEntry ts i k * m.get j k) := by
  induction ts with
  | nil => simp
  | cons t ts ih =>
    simp only [List.map_cons, lrEntry_cons, ih, Mat.vget_mulVec]
    rw [← sumTo_mul_left, ← sumTo_add]
    apply sumTo_congr; intro k _
    ring

theorem leftDot_dense {m : Mat} {s t : SLR} (hv : s.Valid) (h : SLR.leftDot m s = .ok t) :
    t.Valid ∧ m.nCol = s.sparse.nRow ∧ Mat.Eqv t.dense (m.mul s.dense) := by
  unfold leftDot at h
  obtain ⟨p, hp, h⟩ := bind_eq_ok h
  obtain ⟨ts, hts, h⟩ := bind_eq_ok h
  obtain ⟨hd, rfl⟩ := Mat.mul?_ok hp
  obtain ⟨-, rfl⟩ := mapFst?_ok hts
  have hv' := init_valid h
  obtain ⟨rfl, -⟩ := init_ok h
  refine ⟨hv', hd, rfl, rfl, fun i j => ?_⟩
  rw [get_dense hv']
  simp only [Mat.get_mul, lrEntry_map_mulVec_fst]
  rw [← sumTo_add]
  apply sumTo_congr; intro k _
  rw [get_dense hv]; ring

theorem rightDot_dense {m : Mat} {s t : SLR} (hv : s.Valid) (h : s.rightDot m = .ok t) :
    t.Valid ∧ s.sparse.nCol = m.nRow ∧ Mat.Eqv t.dense (s.dense.mul m) := by
  unfold rightDot at h
  obtain ⟨p, hp, h⟩ := bind_eq_ok h
  obtain ⟨ts, hts, h⟩ := bind_eq_ok h
  obtain ⟨hd, rfl⟩ := Mat.mul?_ok hp
  obtain ⟨-, rfl⟩ := mapSnd?_ok hts
  have hv' := init_valid h
  obtain ⟨rfl, -⟩ := init_ok h
  refine ⟨hv', hd, rfl, rfl, fun i j => ?_⟩
  rw [get_dense hv']
  simp only [Mat.get_mul, lrEntry_map_mulVec_snd, Mat.transpose_nCol, Mat.get_transpose, dense_nCol]
  rw [hd, ← sumTo_add]
  apply sumTo_congr; intro k _
  rw [get_dense hv]; ring

/-! ### sums -/

/-- `sum(axis=1)`: the row sums of the dense matrix -/
theorem sum1_eq (s : SLR) : s.sum1 = s.dense.rowSums := by
  unfold sum1 Mat.rowSums
  rw [matvec_eq_dense]; rfl

/-- `sum(axis=0)`: the column sums of the dense matrix -/
theorem sum0_eq {s : SLR} {y : Vec} (hv : s.Valid) (h : s.sum0 = .ok y) : y = s.dense.transpose.rowSums := by
  unfold sum0 at h
  obtain ⟨t, ht, h⟩ := bind_eq_ok h
  have := pure_eq_ok h
  subst this
  obtain ⟨-, he⟩ := transpose_dense hv ht
  rw [matvec_eq_dense]
  unfold Mat.rowSums
  rw [Mat.Eqv.mulVec he]
  rfl

end SLR
end SkNet.LinOp
