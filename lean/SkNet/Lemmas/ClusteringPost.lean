/-
`_post_processing` (relabelling by size, un-shuffle, row/column split) and the whole of `Louvain.fit`
around the kernel (C05).
-/
import SkNet.Lemmas.ClusteringLouvain
import SkNet.Lemmas.ClusteringArgsort

namespace SkNet.Clustering

/-- the label vector over all nodes: rows then columns for a bipartite graph -/
def allLabels (f : Fitted) : List Nat :=
  match f.labelsRow, f.labelsCol with
  | some r, some c => r ++ c
  | _, _ => f.labels

theorem allLabels_splitVars (b : Bool) (nRow : Nat) (l : List Nat) : allLabels (splitVars b nRow l) = l := by
  cases b <;> simp [splitVars, allLabels]

/-- for a bipartite graph `labels_` is `labels_row_`, of length `n_row`, and `labels_col_` has the rest -/
theorem splitVars_bipartite (nRow : Nat) (l : List Nat) (h : nRow ≤ l.length) :
    (splitVars true nRow l).labelsRow = some (splitVars true nRow l).labels ∧
    (splitVars true nRow l).labels.length = nRow ∧
    ∃ c, (splitVars true nRow l).labelsCol = some c ∧ c.length = l.length - nRow := by
  simp [splitVars, h]

theorem samePartition_map_ofNat {a : List Nat} {b : List Nat} (h : SamePartition (a.map Int.ofNat) b) :
    SamePartition a b := by
  obtain ⟨hl, hs⟩ := h
  rw [List.length_map] at hl hs
  refine ⟨hl, fun i hi j hj => ?_⟩
  rw [← hs i hi j hj]
  simp only [List.getElem?_map, List.getElem?_eq_getElem hi, List.getElem?_eq_getElem hj, Option.map_some,
    Option.some.injEq]
  exact ⟨fun h => by rw [h], fun h => Int.ofNat.inj h⟩

theorem samePartition_refl (a : List Nat) : SamePartition a a := ⟨rfl, fun _ _ _ _ => Iff.rfl⟩

/-- the labels before the un-shuffle: `reindex_labels(membership.indices)` or `membership.indices` -/
def sortedLabels (argsort : List Int → List Nat) (sortClusters : Bool) (a : List Nat) : List Nat :=
  if sortClusters then reindexLabels argsort (a.map Int.ofNat) else a

theorem sortedLabels_spec {argsort : List Int → List Nat} (hs : ∀ key, IsArgsort key (argsort key))
    (sortClusters : Bool) {a : List Nat} {k : Nat} (hc : Contiguous a k) :
    (sortedLabels argsort sortClusters a).length = a.length ∧
    SamePartition a (sortedLabels argsort sortClusters a) ∧
    ∃ k', ValidK (sortedLabels argsort sortClusters a) k' sortClusters := by
  unfold sortedLabels
  cases sortClusters with
  | false =>
    exact ⟨rfl, samePartition_refl a, k, hc, fun h => by simp at h⟩
  | true =>
    simp only [if_true]
    refine ⟨by rw [reindex_length, List.length_map], samePartition_map_ofNat (reindex_samePartition (hs _)),
      _, reindex_validK (hs _)⟩

/-- ★ `_post_processing` on the one-hot membership of a contiguous labelling `a` of `N` nodes never raises;
    the result is a valid clustering of the `N` nodes (sorted by size when asked); it induces the partition of
    `a`, read through the shuffling permutation. -/
theorem postProcess_spec {argsort : List Int → List Nat} (hs : ∀ key, IsArgsort key (argsort key))
    {a : List Nat} {k N : Nat} (hN : a.length = N) (hc : Contiguous a k)
    (sortClusters shuffle bipartite : Bool) (nRow : Nat) {index : List Nat}
    (hidx : shuffle = true → index.Perm (List.range N)) :
    ∃ f, postProcess argsort (ofLabels a k) index sortClusters shuffle bipartite nRow = .ok f ∧
      ValidClustering N (allLabels f) sortClusters ∧
      f = splitVars bipartite nRow (allLabels f) ∧
      ∃ L, SamePartition a L ∧
        (if shuffle then ∀ j, j < N → (allLabels f)[index.getD j 0]? = L[j]? else allLabels f = L) := by
  obtain ⟨hlen, hsame, k', hvalid⟩ := sortedLabels_spec hs sortClusters hc
  unfold postProcess
  simp only [indices_ofLabels]
  rw [show (if sortClusters = true then reindexLabels argsort (a.map Int.ofNat) else a) =
    sortedLabels argsort sortClusters a from rfl]
  cases shuffle with
  | false =>
    refine ⟨splitVars bipartite nRow (sortedLabels argsort sortClusters a), rfl, ?_, ?_, _, hsame, ?_⟩
    · rw [allLabels_splitVars]
      exact validClustering_of_validK (hlen.trans hN) hvalid
    · rw [allLabels_splitVars]
    · simp [allLabels_splitVars]
  | true =>
    have hp : index.Perm (List.range (sortedLabels argsort sortClusters a).length) := by
      rw [hlen, hN]; exact hidx rfl
    have hok := unshuffle_ok hp
    refine ⟨splitVars bipartite nRow ((reverseOf index).map fun r => (sortedLabels argsort sortClusters a).getD r 0),
      ?_, ?_, ?_, _, hsame, ?_⟩
    · simp [hok, bind, Except.bind, pure, Except.pure]
    · rw [allLabels_splitVars]
      refine validClustering_of_validK ?_ (hvalid.of_perm (unshuffle_perm hp hok).symm)
      rw [unshuffle_length hp hok, hlen, hN]
    · rw [allLabels_splitVars]
    · simp only [if_true, allLabels_splitVars]
      intro j hj
      exact unshuffle_getElem? hp hok (by rw [hlen, hN]; exact hj)

/-- ★ `Louvain.fit` around its kernel: for every kernel that returns one label per node, every sorting
    `argsort`, every shuffling permutation: the fit never raises, and when the loop stops the labels form a
    valid clustering of the `N` nodes of the (block) adjacency. -/
theorem louvainFit_spec {argsort : List Int → List Nat} (hs : ∀ key, IsArgsort key (argsort key))
    {kernel : Nat → Nat → List Int × Bool} (hk : KernelLen kernel) (nAgg : Int) (fuel : Nat) {N : Nat}
    (hN : 0 < N) (sortClusters shuffle bipartite : Bool) (nRow : Nat) {index : List Nat}
    (hidx : shuffle = true → index.Perm (List.range N)) :
    louvainFit argsort kernel nAgg fuel N index sortClusters shuffle bipartite nRow = .ok none ∨
    ∃ f count, louvainFit argsort kernel nAgg fuel N index sortClusters shuffle bipartite nRow = .ok (some (f, count)) ∧
      ValidClustering N (allLabels f) sortClusters ∧ f = splitVars bipartite nRow (allLabels f) := by
  unfold louvainFit
  have hc0 : Contiguous (List.range N) N :=
    ⟨fun x hx => List.mem_range.mp hx, fun c hc => List.mem_range.mpr hc⟩
  rw [identity_eq]
  rcases louvainLoop_spec (nAgg := nAgg) hk fuel 0 N (List.range N) hN hc0 with h | ⟨a', k, c', h, hl, _, hc, _⟩
  · left; simp [h, bind, Except.bind, pure, Except.pure]
  · right
    rw [List.length_range] at hl
    obtain ⟨f, hf, hv, hsplit, _⟩ := postProcess_spec hs hl hc sortClusters shuffle bipartite nRow hidx
    exact ⟨f, c', by simp [h, hf, bind, Except.bind, pure, Except.pure], hv, hsplit⟩

/-- ★★ total form: under the full kernel contract (`KernelLen`, `NoMergeStops`) and with as much fuel as nodes the
    fit *returns* a valid clustering — no fuel disjunct -/
theorem louvainFit_total {argsort : List Int → List Nat} (hs : ∀ key, IsArgsort key (argsort key))
    {kernel : Nat → Nat → List Int × Bool} (hk : KernelLen kernel) (hst : NoMergeStops kernel) (nAgg : Int)
    {fuel N : Nat} (hN : 0 < N) (hf : N ≤ fuel) (sortClusters shuffle bipartite : Bool) (nRow : Nat)
    {index : List Nat} (hidx : shuffle = true → index.Perm (List.range N)) :
    ∃ f count, louvainFit argsort kernel nAgg fuel N index sortClusters shuffle bipartite nRow = .ok (some (f, count)) ∧
      ValidClustering N (allLabels f) sortClusters ∧ f = splitVars bipartite nRow (allLabels f) := by
  unfold louvainFit
  have hc0 : Contiguous (List.range N) N :=
    ⟨fun x hx => List.mem_range.mp hx, fun c hc => List.mem_range.mpr hc⟩
  rw [identity_eq]
  rcases louvainLoop_spec (nAgg := nAgg) hk fuel 0 N (List.range N) hN hc0 with h | ⟨a', k, c', h, hl, _, hc, _⟩
  · exact absurd h (louvainLoop_fuel hk hst fuel 0 N (List.range N) hN hc0 hf)
  · rw [List.length_range] at hl
    obtain ⟨f, hf', hv, hsplit, _⟩ := postProcess_spec hs hl hc sortClusters shuffle bipartite nRow hidx
    exact ⟨f, c', by simp [h, hf', bind, Except.bind, pure, Except.pure], hv, hsplit⟩

theorem SamePartition.trans {α β γ : Type} [DecidableEq α] [DecidableEq β] [DecidableEq γ]
    {a : List α} {b : List β} {c : List γ} (h1 : SamePartition a b) (h2 : SamePartition b c) :
    SamePartition a c :=
  ⟨h1.1.trans h2.1, fun i hi j hj => (h1.2 i hi j hj).trans (h2.2 i (h1.1 ▸ hi) j (h1.1 ▸ hj))⟩

/-- ★ `PropagationClustering.fit` after the sweeps: whatever labels the sweeps leave, the compaction (and the
    relabelling by size when `sort_clusters`) gives a valid clustering with the same partition -/
theorem propagationPost_spec {argsort : List Int → List Nat} (hs : ∀ key, IsArgsort key (argsort key))
    (raw : List Int) (sortClusters bipartite : Bool) (nRow : Nat) :
    ValidClustering raw.length (allLabels (propagationPost argsort raw sortClusters bipartite nRow)) sortClusters ∧
    SamePartition raw (allLabels (propagationPost argsort raw sortClusters bipartite nRow)) := by
  obtain ⟨hlen, hsame, k', hvalid⟩ := sortedLabels_spec hs sortClusters (inverse_contiguous raw)
  have : propagationPost argsort raw sortClusters bipartite nRow =
      splitVars bipartite nRow (sortedLabels argsort sortClusters (inverse raw)) := rfl
  rw [this, allLabels_splitVars]
  exact ⟨validClustering_of_validK (hlen.trans (inverse_length raw)) hvalid,
    (inverse_samePartition raw).trans hsame⟩

end SkNet.Clustering
