/- The executable specification of Spec/Connectivity.lean means what it says:
   `closure` (when it answers) computes reachability, `isLabellingB = some true` implies the contract `IsLabelling`. -/
import SkNet.Model.Connectivity
import SkNet.Spec.Connectivity
import SkNet.Lemmas.Reach

namespace SkNet.Connectivity
open SkNet

theorem closeStep_length (n : Nat) (adj : Nat → List Nat) (r : List Bool) : (closeStep n adj r).length = n := by
  simp [closeStep]

theorem closeStep_getD (n : Nat) (adj : Nat → List Nat) (r : List Bool) (v : Nat) :
    (closeStep n adj r).getD v false = true ↔
      v < n ∧ (r.getD v false = true ∨ ∃ u, u < n ∧ r.getD u false = true ∧ v ∈ adj u) := by
  unfold closeStep
  rw [tab_getD]
  by_cases hv : v < n
  · simp only [hv, ↓reduceIte, Bool.or_eq_true, List.any_eq_true, List.mem_range, Bool.and_eq_true,
      List.contains_iff_mem, true_and]
  · simp [hv]

/-- invariant of the closure started at `s`: a mask of length `n` that holds `s` and only nodes reachable from `s` -/
structure ReachInv (n : Nat) (adj : Nat → List Nat) (s : Nat) (r : List Bool) : Prop where
  len : r.length = n
  src : r.getD s false = true
  sound : ∀ v, r.getD v false = true → Reach adj s v

theorem closeStep_inv {n : Nat} {adj : Nat → List Nat} {s : Nat} {r : List Bool} (hs : s < n)
    (h : ReachInv n adj s r) : ReachInv n adj s (closeStep n adj r) := by
  refine ⟨closeStep_length n adj r, ?_, ?_⟩
  · exact (closeStep_getD n adj r s).mpr ⟨hs, Or.inl h.src⟩
  · intro v hv
    rcases ((closeStep_getD n adj r v).mp hv).2 with h1 | ⟨u, _, hu, hvu⟩
    · exact h.sound v h1
    · exact Reach.tail (h.sound u hu) hvu

theorem closure_sound {n : Nat} {adj : Nat → List Nat} (hwf : ∀ u, u < n → ∀ v ∈ adj u, v < n)
    {s : Nat} (hs : s < n) (fuel : Nat) (r0 r : List Bool) (h0 : ReachInv n adj s r0)
    (h : closure n adj fuel r0 = some r) :
    ∀ v, r.getD v false = true ↔ Reach adj s v := by
  induction fuel generalizing r0 with
  | zero => simp [closure] at h
  | succ fuel ih =>
    unfold closure at h
    simp only at h
    split at h
    · rename_i hfix
      have hr : r0 = r := Option.some.inj h
      subst hr
      have hfix' : closeStep n adj r0 = r0 := by simpa using hfix
      intro v
      constructor
      · exact h0.sound v
      · intro hr
        induction hr with
        | refl => exact h0.src
        | tail hp he ih2 =>
          rename_i a b
          have ha : a < n := Reach.lt hwf hp hs
          have hb : b < n := hwf a ha b he
          rw [← hfix']
          exact (closeStep_getD n adj r0 b).mpr ⟨hb, Or.inr ⟨a, ha, ih2, he⟩⟩
    · exact ih _ (closeStep_inv hs h0) h

theorem reachFrom_sound {n : Nat} {adj : Nat → List Nat} (hwf : ∀ u, u < n → ∀ v ∈ adj u, v < n)
    {s : Nat} (hs : s < n) {r : List Bool} (h : reachFrom n adj s = some r) :
    ∀ v, r.getD v false = true ↔ Reach adj s v := by
  unfold reachFrom at h
  refine closure_sound hwf hs _ _ r ⟨by simp, ?_, ?_⟩ h
  · rw [tab_getD]; simp [hs]
  · intro v hv
    rw [tab_getD] at hv
    split at hv
    · have : v = s := by simpa using hv
      subst this; exact Reach.refl _
    · cases hv

theorem mapM_some_getD {α β : Type} (f : α → Option β) (l : List α) (out : List β) (h : l.mapM f = some out) :
    out.length = l.length ∧ ∀ i (hi : i < l.length), ∃ b, f l[i] = some b ∧ out[i]? = some b := by
  induction l generalizing out with
  | nil => simp at h; subst h; simp
  | cons a l ih =>
    rw [List.mapM_cons] at h
    cases hfa : f a with
    | none => simp [hfa] at h
    | some b =>
      cases hl : l.mapM f with
      | none => simp [hfa, hl] at h
      | some out' =>
        simp [hfa, hl] at h
        subst h
        obtain ⟨hlen, hget⟩ := ih out' hl
        refine ⟨by simp [hlen], fun i hi => ?_⟩
        cases i with
        | zero => exact ⟨b, hfa, rfl⟩
        | succ i =>
          simp only [List.length_cons, Nat.add_lt_add_iff_right] at hi
          obtain ⟨b', h1, h2⟩ := hget i hi
          exact ⟨b', by simpa using h1, by simpa using h2⟩

/-- the reachability matrix answers reachability -/
theorem reachMatrix_sound {n : Nat} {adj : Nat → List Nat} (hwf : ∀ u, u < n → ∀ v ∈ adj u, v < n)
    {rm : List (List Bool)} (h : reachMatrix n adj = some rm) {u : Nat} (hu : u < n) (v : Nat) :
    reachB rm u v = true ↔ Reach adj u v := by
  unfold reachMatrix at h
  obtain ⟨hlen, hget⟩ := mapM_some_getD _ _ _ h
  obtain ⟨r, hr, hrm⟩ := hget u (by simpa using hu)
  simp only [List.getElem_range] at hr
  have : rm.getD u [] = r := by rw [List.getD_eq_getElem?_getD, hrm]; rfl
  unfold reachB
  rw [this]
  exact reachFrom_sound hwf hu hr v

end SkNet.Connectivity

namespace SkNet.Connectivity
open SkNet

theorem weakAdj_wf {n : Nat} {adj : Nat → List Nat} (hwf : ∀ u, u < n → ∀ v ∈ adj u, v < n) :
    ∀ u, u < n → ∀ v ∈ weakAdj n adj u, v < n := by
  intro u hu v hv
  rcases List.mem_append.mp hv with h | h
  · exact hwf u hu v h
  · exact List.mem_range.mp (List.mem_filter.mp h).1

theorem weakAdj_symm {n : Nat} {adj : Nat → List Nat} {u v : Nat} (hu : u < n) (h : v ∈ weakAdj n adj u) :
    u ∈ weakAdj n adj v := by
  rcases List.mem_append.mp h with h | h
  · exact List.mem_append_right _ (List.mem_filter.mpr ⟨List.mem_range.mpr hu, by simpa using h⟩)
  · exact List.mem_append_left _ (by simpa using (List.mem_filter.mp h).2)

theorem reach_weak_symm {n : Nat} {adj : Nat → List Nat} (hwf : ∀ u, u < n → ∀ v ∈ adj u, v < n)
    {u v : Nat} (hu : u < n) (h : Reach (weakAdj n adj) u v) : Reach (weakAdj n adj) v u := by
  induction h with
  | refl => exact Reach.refl _
  | tail hp he ih =>
    have ha := Reach.lt (weakAdj_wf hwf) hp hu
    exact (Reach.edge (weakAdj_symm ha he)).trans ih

/-- ★ what a `contract` / `spec_cc` line certifies: when the executable check answers `some true`, the labels
    satisfy the contract `IsLabelling` that the theorems assume of scipy. -/
theorem isLabellingB_sound {n : Nat} {adj : Nat → List Nat} (hwf : ∀ u, u < n → ∀ v ∈ adj u, v < n)
    (strong : Bool) (labels : List Nat) (h : isLabellingB n adj strong labels = some true) :
    IsLabelling n adj strong labels := by
  unfold isLabellingB isLabellingOn at h
  cases hrm : reachMatrix n (if strong = true then adj else weakAdj n adj) with
  | none => simp [hrm] at h
  | some rm =>
    simp only [hrm, Option.bind_eq_bind, Option.bind_some, Option.pure_def, Option.some.injEq,
      Bool.and_eq_true, beq_iff_eq, List.all_eq_true, List.mem_range] at h
    obtain ⟨hlen, hall⟩ := h
    refine ⟨hlen, fun u v hu hv => ?_⟩
    have huv := hall u hu v hv
    cases strong with
    | true =>
      simp only [↓reduceIte] at hrm
      have h1 := reachMatrix_sound hwf hrm hu v
      have h2 := reachMatrix_sound hwf hrm hv u
      simp only [SameComp, ↓reduceIte]
      rw [← h1, ← h2]
      constructor
      · intro he
        have : (reachB rm u v && reachB rm v u) = true := by rw [← huv]; simpa using he
        simpa using this
      · intro ⟨ha, hb⟩
        have : (labels.getD u 0 == labels.getD v 0) = true := by rw [huv]; simp [ha, hb]
        simpa using this
    | false =>
      simp only [Bool.false_eq_true, ↓reduceIte] at hrm
      have hwf' := weakAdj_wf hwf
      have h1 := reachMatrix_sound hwf' hrm hu v
      have h2 := reachMatrix_sound hwf' hrm hv u
      simp only [SameComp, Bool.false_eq_true, ↓reduceIte]
      constructor
      · intro he
        have : (reachB rm u v && reachB rm v u) = true := by rw [← huv]; simpa using he
        simp only [Bool.and_eq_true] at this
        exact h1.mp this.1
      · intro hr
        have ha := h1.mpr hr
        have hb := h2.mpr (reach_weak_symm hwf hu hr)
        have : (labels.getD u 0 == labels.getD v 0) = true := by rw [huv]; simp [ha, hb]
        simpa using this

end SkNet.Connectivity
