/-
C02: the memoised evaluators that the `spec` lines of the driver run (`classTab`, `groupsAsT`, `stableAtT`,
`stableTab`, `groupsAsStable` in `SkNet/Spec/WL.lean`) compute exactly the propositional specification
(`sameClass`, `groupsAs`, `stableAt`, `Inseparable`) on every well-formed adjacency structure. Core Lean only.
-/
import SkNet.Lemmas.WL

namespace SkNet.WL

attribute [-simp] List.getD_eq_getElem?_getD

/-- one refinement step on a class table -/
def refineTab (adj : List (List Nat)) (t : List (List Bool)) : List (List Bool) :=
  tab adj.length fun u => tab adj.length fun v =>
    tget t u v &&
    (List.range adj.length).all fun w =>
      (nbrs adj u).countP (tget t w) == (nbrs adj v).countP (tget t w)

theorem classTab_succ (adj : List (List Nat)) (k : Nat) : classTab adj (k+1) = refineTab adj (classTab adj k) := rfl

theorem tget_tab (n : Nat) (f : Nat → Nat → Bool) (u v : Nat) (hu : u < n) (hv : v < n) :
    tget (tab n fun u => tab n fun v => f u v) u v = f u v := by
  unfold tget
  rw [tab_getD, if_pos hu, tab_getD, if_pos hv]

theorem all_range_congr {n : Nat} {p q : Nat → Bool} (h : ∀ i, i < n → p i = q i) :
    (List.range n).all p = (List.range n).all q := by
  apply Bool.eq_iff_iff.2
  simp only [List.all_eq_true, List.mem_range]
  constructor
  · intro hp i hi; rw [← h i hi]; exact hp i hi
  · intro hq i hi; rw [h i hi]; exact hq i hi

theorem getElem_eq_tget (t : List (List Bool)) (u v : Nat) (hu : u < t.length) (hv : v < t[u].length) :
    t[u][v] = tget t u v := by
  unfold tget
  have h1 : t.getD u [] = t[u] := by
    rw [List.getD_eq_getElem?_getD, List.getElem?_eq_getElem hu, Option.getD_some]
  rw [h1, List.getD_eq_getElem?_getD, List.getElem?_eq_getElem hv, Option.getD_some]

/-- **classTab_eq**: the memoised table is `sameClass` -/
theorem classTab_eq (adj : List (List Nat)) (hwf : WFAdj adj) :
    ∀ k u v, u < adj.length → v < adj.length → tget (classTab adj k) u v = sameClass adj k u v := by
  intro k
  induction k with
  | zero => intro u v hu hv; simp [classTab, tget, hu, hv, sameClass]
  | succ k ih =>
    intro u v hu hv
    rw [classTab_succ, refineTab, tget_tab _ _ u v hu hv, ih u v hu hv]
    have hc : ∀ w, w < adj.length → ∀ l : List Nat, (∀ x ∈ l, x < adj.length) →
        l.countP (tget (classTab adj k) w) = l.countP (sameClass adj k w) := by
      intro w hw l hl
      apply List.countP_congr
      intro x hx
      rw [ih w x hw (hl x hx)]
    have : ((List.range adj.length).all fun w =>
        (nbrs adj u).countP (tget (classTab adj k) w) == (nbrs adj v).countP (tget (classTab adj k) w)) =
        ((List.range adj.length).all fun w =>
        (nbrs adj u).countP (sameClass adj k w) == (nbrs adj v).countP (sameClass adj k w)) := by
      apply all_range_congr
      intro w hw'
      rw [hc w hw' _ (hwf u hu), hc w hw' _ (hwf v hv)]
    rw [this]
    rfl

/-- the evaluator of the `spec_groups` line is `groupsAs` -/
theorem groupsAsT_eq (adj : List (List Nat)) (hwf : WFAdj adj) (k : Nat) (labels : List Nat) :
    groupsAsT adj k labels = groupsAs adj k labels := by
  unfold groupsAsT groupsAs
  exact all_range_congr fun u hu => all_range_congr fun v hv => by rw [classTab_eq adj hwf k u v hu hv]

theorem stableAtT_eq (adj : List (List Nat)) (hwf : WFAdj adj) (k : Nat) : stableAtT adj k = stableAt adj k := by
  unfold stableAtT stableAt
  exact all_range_congr fun u hu => all_range_congr fun v hv => by
    rw [classTab_eq adj hwf k u v hu hv, classTab_eq adj hwf (k+1) u v hu hv]

theorem groupsAs_iff (adj : List (List Nat)) (k : Nat) (labels : List Nat) :
    groupsAs adj k labels = true ↔ Groups adj k labels := by
  unfold groupsAs Groups
  simp only [List.all_eq_true, List.mem_range, beq_iff_eq]
  constructor
  · intro h u v hu hv
    have := h u hu v hv
    constructor
    · intro e; rw [← this]; simpa using e
    · intro e; rw [e] at this; simpa using this
  · intro h u hu v hv
    have := h u v hu hv
    by_cases e : labels.getD u 0 = labels.getD v 0
    · rw [this.1 e]; simpa using e
    · have : sameClass adj k u v = false := by
        cases hs : sameClass adj k u v
        · rfl
        · exact absurd (this.2 hs) e
      rw [this]; simpa using e

theorem stableAt_iff (adj : List (List Nat)) (k : Nat) : stableAt adj k = true ↔ Stable adj k := by
  unfold stableAt Stable
  simp only [List.all_eq_true, List.mem_range, beq_iff_eq]
  constructor
  · intro h u v hu hv e; rw [h u hu v hv]; exact e
  · intro h u hu v hv
    cases hs : sameClass adj k u v
    · cases hs' : sameClass adj (k+1) u v
      · rfl
      · rw [sameClass_mono adj k u v hs'] at hs; exact Bool.noConfusion hs
    · exact h u v hu hv hs

/-! ### the stable table -/

theorem classTab_length (adj : List (List Nat)) (k : Nat) : (classTab adj k).length = adj.length := by
  cases k <;> simp [classTab]

/-- two consecutive tables are equal iff refinement is stable at that round -/
theorem classTab_fix_iff (adj : List (List Nat)) (hwf : WFAdj adj) (k : Nat) :
    classTab adj (k+1) = classTab adj k ↔ Stable adj k := by
  constructor
  · intro h u v hu hv e
    rw [← classTab_eq adj hwf (k+1) u v hu hv, h, classTab_eq adj hwf k u v hu hv]; exact e
  · intro h
    have hrow : ∀ k u, u < adj.length → ((classTab adj k).getD u []).length = adj.length := by
      intro k u hu
      cases k <;> simp [classTab, hu]
    apply List.ext_getElem (by rw [classTab_length, classTab_length])
    intro u hu1 hu2
    have hu : u < adj.length := by rw [classTab_length] at hu1; exact hu1
    have r1 := hrow (k+1) u hu
    have r2 := hrow k u hu
    rw [List.getD_eq_getElem?_getD, List.getElem?_eq_getElem hu1] at r1
    rw [List.getD_eq_getElem?_getD, List.getElem?_eq_getElem hu2] at r2
    simp only [Option.getD_some] at r1 r2
    apply List.ext_getElem (by rw [r1, r2])
    intro v hv1 hv2
    have hv : v < adj.length := by rw [r1] at hv1; exact hv1
    rw [getElem_eq_tget _ u v hu1 hv1, getElem_eq_tget _ u v hu2 hv2,
      classTab_eq adj hwf (k+1) u v hu hv, classTab_eq adj hwf k u v hu hv]
    cases hs : sameClass adj k u v
    · cases hs' : sameClass adj (k+1) u v
      · rfl
      · rw [sameClass_mono adj k u v hs'] at hs; exact Bool.noConfusion hs
    · exact h u v hu hv hs

/-- `stableTab` started at round `k` returns the table of some round `k' ≤ k + fuel` which is stable, or
`k' = k + fuel` -/
theorem stableTab_spec (adj : List (List Nat)) (hwf : WFAdj adj) :
    ∀ fuel k, ∃ k', k ≤ k' ∧ k' ≤ k + fuel ∧ stableTab adj fuel k (classTab adj k) = (k', classTab adj k') ∧
      (Stable adj k' ∨ k' = k + fuel) := by
  intro fuel
  induction fuel with
  | zero => intro k; exact ⟨k, Nat.le_refl _, Nat.le_refl _, rfl, Or.inr rfl⟩
  | succ fuel ih =>
    intro k
    have hstep : stableTab adj (fuel+1) k (classTab adj k) =
        if classTab adj (k+1) == classTab adj k then (k, classTab adj k)
        else stableTab adj fuel (k+1) (classTab adj (k+1)) := rfl
    rw [hstep]
    by_cases he : classTab adj (k+1) = classTab adj k
    · rw [if_pos (by simpa using he)]
      exact ⟨k, Nat.le_refl _, by omega, rfl, Or.inl ((classTab_fix_iff adj hwf k).1 he)⟩
    · rw [if_neg (by simpa using he)]
      obtain ⟨k', h1, h2, h3, h4⟩ := ih (k+1)
      refine ⟨k', by omega, by omega, h3, ?_⟩
      rcases h4 with h4 | h4
      · exact Or.inl h4
      · exact Or.inr (by omega)

/-- **groupsAsStable_iff**: the evaluator of the `spec_stable` line answers `true` exactly when the colours
group the nodes as "refinement can never separate them" does. -/
theorem groupsAsStable_iff (adj : List (List Nat)) (hwf : WFAdj adj) (labels : List Nat) :
    groupsAsStable adj labels = true ↔
      ∀ u v, u < adj.length → v < adj.length →
        (labels.getD u 0 = labels.getD v 0 ↔ Inseparable adj u v) := by
  obtain ⟨k', _, hk', htab, hst⟩ := stableTab_spec adj hwf adj.length 0
  have hstable : 0 < adj.length → Stable adj k' := by
    intro hn
    rcases hst with h | h
    · exact h
    · obtain ⟨j, hj, hsj⟩ := exists_stable adj hn
      have := stable_forever adj hwf j hsj (k' - j)
      have e : j + (k' - j) = k' := by omega
      rw [e] at this; exact this
  unfold groupsAsStable
  simp only [htab, List.all_eq_true, List.mem_range, beq_iff_eq]
  constructor
  · intro h u v hu hv
    have hs := hstable (by omega)
    rw [inseparable_iff_of_stable adj hwf k' hs u v hu hv, ← classTab_eq adj hwf k' u v hu hv, ← h u hu v hv]
    simp
  · intro h u hu v hv
    have hs := hstable (by omega)
    have := h u v hu hv
    rw [inseparable_iff_of_stable adj hwf k' hs u v hu hv, ← classTab_eq adj hwf k' u v hu hv] at this
    by_cases e : labels.getD u 0 = labels.getD v 0
    · rw [this.1 e]; simpa using e
    · have hf : tget (classTab adj k') u v = false := by
        cases ht : tget (classTab adj k') u v
        · rfl
        · exact absurd (this.2 ht) e
      rw [hf]; simpa using e

end SkNet.WL

namespace SkNet.WL

attribute [-simp] List.getD_eq_getElem?_getD

variable {H : Type} {ops : HashOps H}

/-- rows are the same multisets of neighbours, stored in possibly different orders -/
def SameRows (adj adj' : List (List Nat)) : Prop :=
  adj.length = adj'.length ∧ ∀ i, i < adj.length → (adj.getD i []).Perm (adj'.getD i [])

theorem triples_sameRows (hx : ExactOps ops) {adj adj' : List (List Nat)} (h : SameRows adj adj') (labels : List Nat) :
    triples ops adj labels = triples ops adj' labels := by
  unfold triples
  rw [← h.1]
  unfold tab
  apply List.map_congr_left
  intro i hi
  have hp := (h.2 i (List.mem_range.1 hi)).map fun j => labels.getD j 0
  rw [(hx.hash_iff _ _).2 hp]

theorem round_sameRows (hx : ExactOps ops) {adj adj' : List (List Nat)} (h : SameRows adj adj') (labels : List Nat) :
    round ops adj labels = round ops adj' labels := by
  unfold round roundAssign
  rw [triples_sameRows hx h labels, h.1]

theorem coloring_sameRows (hx : ExactOps ops) {adj adj' : List (List Nat)} (h : SameRows adj adj') :
    ∀ k labels ch, coloring ops adj k labels ch = coloring ops adj' k labels ch := by
  intro k
  induction k with
  | zero => intro labels ch; rfl
  | succ k ih =>
    intro labels ch
    unfold coloring
    cases ch with
    | false => rfl
    | true =>
      simp only [if_true]
      rw [round_sameRows hx h labels]
      exact ih _ _

theorem colorWL_sameRows (hx : ExactOps ops) {adj adj' : List (List Nat)} (h : SameRows adj adj')
    (maxIter : Option Nat) : colorWL ops adj maxIter = colorWL ops adj' maxIter := by
  unfold colorWL
  simp only [coloring_sameRows hx h, h.1]

theorem isoLoop_sameRows (hx : ExactOps ops) (adj1 : List (List Nat)) {adj2 adj2' : List (List Nat)}
    (h : SameRows adj2 adj2') : ∀ k l1 l2 c1 c2, isoLoop ops adj1 adj2 k l1 l2 c1 c2 = isoLoop ops adj1 adj2' k l1 l2 c1 c2 := by
  intro k
  induction k with
  | zero => intro l1 l2 c1 c2; rfl
  | succ k ih =>
    intro l1 l2 c1 c2
    unfold isoLoop
    rw [coloring_sameRows hx h 1 l2 true]
    split
    · simp only [ih]
    · rfl

theorem nnz_sameRows {adj adj' : List (List Nat)} (h : SameRows adj adj') : nnz adj = nnz adj' := by
  unfold nnz
  congr 1
  apply List.ext_getElem (by simp [h.1])
  intro i h1 h2
  simp only [List.getElem_map]
  have hi : i < adj.length := by simpa using h1
  have := (h.2 i hi).length_eq
  rw [List.getD_eq_getElem?_getD, List.getD_eq_getElem?_getD, List.getElem?_eq_getElem hi,
    List.getElem?_eq_getElem (h.1 ▸ hi)] at this
  simpa using this

theorem areIsomorphic_sameRows (hx : ExactOps ops) (adj1 : List (List Nat)) {adj2 adj2' : List (List Nat)}
    (h : SameRows adj2 adj2') (maxIter : Option Nat) :
    areIsomorphic ops adj1 adj2 maxIter = areIsomorphic ops adj1 adj2' maxIter := by
  unfold areIsomorphic
  rw [nnz_sameRows h, h.1]
  simp only [isoLoop_sameRows hx adj1 h]

end SkNet.WL
