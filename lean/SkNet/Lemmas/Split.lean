/- `split_dendrogram`: on a valid dendrogram of a bipartite graph each side is a valid dendrogram over its nodes. -/
import SkNet.Model.Hierarchy
import SkNet.Lemmas.Rename

set_option linter.unusedSimpArgs false

namespace SkNet.Hier
open SkNet SkNet.Dendro

variable {α : Type}

/-- one side of the loop, alone -/
def sideLoop (N : Nat) : Nat → List (Row α) → SplitSide α → SplitSide α
  | _, [], a => a
  | t, r :: rs, a => sideLoop N (t + 1) rs (splitSide (N + t) r a)

theorem splitLoop_eq (n1 n2 : Nat) : ∀ (rs : List (Row α)) (t : Nat) (a b : SplitSide α),
    splitLoop n1 n2 t rs a b = (sideLoop (n1 + n2) t rs a, sideLoop (n1 + n2) t rs b) := by
  intro rs
  induction rs with
  | nil => intro t a b; rfl
  | cons r rs ih => intro t a b; simp only [splitLoop, sideLoop, ih]

/-- The side state is consistent with the live set `LR` of the rows written for the side, and with the live
    set `L` of the full dendrogram. -/
structure SInv (m : Nat) (a : SplitSide α) (LR L : Dict Nat) : Prop where
  live : liveAfter m 0 a.rows (liveInit (List.replicate m 1)) = some LR
  linv : LInv m a.rows.length LR
  idNew : a.idNew = m + a.rows.length
  rel : ∀ x y, a.id.get? x = some y → ∃ s, a.size.get? x = some s ∧ LR.get? y = some s
  inj : ∀ x x' y, a.id.get? x = some y → a.id.get? x' = some y → x = x'
  idNodup : (Dict.keys a.id).Nodup
  count : LR.length = a.id.length
  pos : 0 < LR.length
  sub : ∀ x ∈ Dict.keys a.id, x ∈ Dict.keys L

theorem mem_keys_iff {β : Type} (d : Dict β) (x : Nat) : x ∈ Dict.keys d ↔ ∃ v, d.get? x = some v := by
  constructor
  · intro h
    cases e : d.get? x with
    | none => exact absurd h ((Dict.get?_eq_none_iff _ _).mp e)
    | some v => exact ⟨v, rfl⟩
  · rintro ⟨v, hv⟩; exact Dict.get?_some_key_mem hv

theorem length_set_fresh {β : Type} {d : Dict β} {k : Nat} (h : k ∉ Dict.keys d) (v : β) :
    (d.set k v).length = d.length + 1 := by
  rw [Dict.set_of_not_mem h]; simp

theorem nodup_set_fresh {β : Type} {d : Dict β} {k : Nat} (hd : (Dict.keys d).Nodup) (h : k ∉ Dict.keys d) (v : β) :
    (Dict.keys (d.set k v)).Nodup := by
  rw [Dict.set_of_not_mem h]
  simp only [Dict.keys, List.map_append, List.map_cons, List.map_nil]
  refine List.nodup_append.mpr ⟨hd, by simp, ?_⟩
  intro a ha b hb
  simp only [List.mem_cons, List.not_mem_nil, or_false] at hb
  subst hb
  intro e; subst e; exact h ha

theorem mem_keys_set {β : Type} (d : Dict β) (k : Nat) (v : β) (x : Nat) :
    x ∈ Dict.keys (d.set k v) ↔ x = k ∨ x ∈ Dict.keys d := by
  rw [mem_keys_iff, mem_keys_iff]
  simp only [Dict.get?_set]
  by_cases e : x = k
  · simp [e]
  · simp [e]

/-- one row of the full dendrogram, on one side -/
theorem splitSide_sinv {m N t : Nat} {a : SplitSide α} {LR L L1 : Dict Nat} {r : Row α}
    (h : SInv m a LR L) (hL : LInv N t L) (hstep : liveStep N t r L = some L1) :
    ∃ LR', SInv m (splitSide (N + t) r a) LR' L1 := by
  obtain ⟨si0, sj0, hi0, hj0, hne, _, hL1inv, _, hget1⟩ := liveStep_spec hL hstep
  -- the new key is fresh
  have hfresh : N + t ∉ Dict.keys a.id := by
    intro hm
    have := hL.bound _ (h.sub _ hm); omega
  have hsubstep : ∀ x, x ∈ Dict.keys L → x ≠ r.i → x ≠ r.j → x ∈ Dict.keys L1 := by
    intro x hx e1 e2
    obtain ⟨v, hv⟩ := (mem_keys_iff L x).mp hx
    have hb := hL.bound _ hx
    refine (mem_keys_iff L1 x).mpr ⟨v, ?_⟩
    rw [hget1]
    have e0 : x ≠ N + t := by omega
    simp [e0, e1, e2, hv]
  have hnewkey : N + t ∈ Dict.keys L1 := (mem_keys_iff L1 _).mpr ⟨r.s, by rw [hget1]; simp⟩
  unfold splitSide
  cases hi : a.id.get? r.i with
  | none =>
    cases hj : a.id.get? r.j with
    | none =>
      -- the row does not concern this side
      simp only [hi, hj]
      refine ⟨LR, h.live, h.linv, h.idNew, h.rel, h.inj, h.idNodup, h.count, h.pos, ?_⟩
      intro x hx
      have hxi : x ≠ r.i := fun e => by
        obtain ⟨v, hv⟩ := (mem_keys_iff _ _).mp hx; rw [e, hi] at hv; cases hv
      have hxj : x ≠ r.j := fun e => by
        obtain ⟨v, hv⟩ := (mem_keys_iff _ _).mp hx; rw [e, hj] at hv; cases hv
      exact hsubstep x (h.sub x hx) hxi hxj
    | some idj =>
      -- only `j` is on this side: it is renamed
      simp only [hi, hj]
      obtain ⟨sj, hsj, hLRj⟩ := h.rel r.j idj hj
      have hfresh' : N + t ∉ Dict.keys (a.id.erase r.j) := fun hm => hfresh (Dict.mem_keys_erase.mp hm).1
      refine ⟨LR, h.live, h.linv, h.idNew, ?_, ?_, ?_, ?_, h.pos, ?_⟩
      · intro x y hx
        simp only [Dict.get?_set, Dict.get?_erase] at hx ⊢
        by_cases e : x = N + t
        · simp only [e, if_true, Option.some.injEq] at hx ⊢
          subst hx; simp [hsj, hLRj]
        · simp only [e, if_false] at hx ⊢
          by_cases e2 : x = r.j
          · simp [e2] at hx
          · simp only [e2, if_false] at hx ⊢
            exact h.rel x y hx
      · intro x x' y hx hx'
        simp only [Dict.get?_set, Dict.get?_erase] at hx hx'
        by_cases e : x = N + t <;> by_cases e' : x' = N + t
        · rw [e, e']
        · exfalso
          simp only [e, if_true, Option.some.injEq] at hx
          simp only [e', if_false] at hx'
          by_cases e2 : x' = r.j
          · simp [e2] at hx'
          · simp only [e2, if_false] at hx'
            subst hx
            exact e2 (h.inj x' r.j _ hx' hj)
        · exfalso
          simp only [e', if_true, Option.some.injEq] at hx'
          simp only [e, if_false] at hx
          by_cases e2 : x = r.j
          · simp [e2] at hx
          · simp only [e2, if_false] at hx
            subst hx'
            exact e2 (h.inj x r.j _ hx hj)
        · simp only [e, e', if_false] at hx hx'
          by_cases e2 : x = r.j
          · simp [e2] at hx
          · by_cases e2' : x' = r.j
            · simp [e2'] at hx'
            · simp only [e2, e2', if_false] at hx hx'
              exact h.inj x x' y hx hx'
      · exact nodup_set_fresh (Dict.nodup_keys_erase h.idNodup _) hfresh' _
      · rw [length_set_fresh hfresh']
        have := Dict.length_erase_of_mem h.idNodup (Dict.get?_some_key_mem hj)
        have := h.count
        omega
      · intro x hx
        rcases (mem_keys_set _ _ _ _).mp hx with e | e
        · rw [e]; exact hnewkey
        · obtain ⟨hx1, hx2⟩ := Dict.mem_keys_erase.mp e
          have hxi : x ≠ r.i := fun e' => by
            obtain ⟨v, hv⟩ := (mem_keys_iff _ _).mp hx1; rw [e', hi] at hv; cases hv
          exact hsubstep x (h.sub x hx1) hxi hx2
  | some idi =>
    obtain ⟨si, hsi, hLRi⟩ := h.rel r.i idi hi
    cases hj : a.id.get? r.j with
    | none =>
      simp only [hi, hj]
      have hfresh' : N + t ∉ Dict.keys (a.id.erase r.i) := fun hm => hfresh (Dict.mem_keys_erase.mp hm).1
      refine ⟨LR, h.live, h.linv, h.idNew, ?_, ?_, ?_, ?_, h.pos, ?_⟩
      · intro x y hx
        simp only [Dict.get?_set, Dict.get?_erase] at hx ⊢
        by_cases e : x = N + t
        · simp only [e, if_true, Option.some.injEq] at hx ⊢
          subst hx; simp [hsi, hLRi]
        · simp only [e, if_false] at hx ⊢
          by_cases e2 : x = r.i
          · simp [e2] at hx
          · simp only [e2, if_false] at hx ⊢
            exact h.rel x y hx
      · intro x x' y hx hx'
        simp only [Dict.get?_set, Dict.get?_erase] at hx hx'
        by_cases e : x = N + t <;> by_cases e' : x' = N + t
        · rw [e, e']
        · exfalso
          simp only [e, if_true, Option.some.injEq] at hx
          simp only [e', if_false] at hx'
          by_cases e2 : x' = r.i
          · simp [e2] at hx'
          · simp only [e2, if_false] at hx'
            subst hx
            exact e2 (h.inj x' r.i _ hx' hi)
        · exfalso
          simp only [e', if_true, Option.some.injEq] at hx'
          simp only [e, if_false] at hx
          by_cases e2 : x = r.i
          · simp [e2] at hx
          · simp only [e2, if_false] at hx
            subst hx'
            exact e2 (h.inj x r.i _ hx hi)
        · simp only [e, e', if_false] at hx hx'
          by_cases e2 : x = r.i
          · simp [e2] at hx
          · by_cases e2' : x' = r.i
            · simp [e2'] at hx'
            · simp only [e2, e2', if_false] at hx hx'
              exact h.inj x x' y hx hx'
      · exact nodup_set_fresh (Dict.nodup_keys_erase h.idNodup _) hfresh' _
      · rw [length_set_fresh hfresh']
        have := Dict.length_erase_of_mem h.idNodup (Dict.get?_some_key_mem hi)
        have := h.count
        omega
      · intro x hx
        rcases (mem_keys_set _ _ _ _).mp hx with e | e
        · rw [e]; exact hnewkey
        · obtain ⟨hx1, hx2⟩ := Dict.mem_keys_erase.mp e
          have hxj : x ≠ r.j := fun e' => by
            obtain ⟨v, hv⟩ := (mem_keys_iff _ _).mp hx1; rw [e', hj] at hv; cases hv
          exact hsubstep x (h.sub x hx1) hx2 hxj
    | some idj =>
      -- both children are on this side: a row of the side dendrogram
      simp only [hi, hj]
      obtain ⟨sj, hsj, hLRj⟩ := h.rel r.j idj hj
      have hidne : idi ≠ idj := fun e => hne (h.inj r.i r.j idi hi (e ▸ hj))
      let row : Row α := { i := idi, j := idj, h := r.h, s := (a.size.get? r.i).getD 0 + (a.size.get? r.j).getD 0 }
      have hrs : row.s = si + sj := by simp [row, hsi, hsj]
      have hst := liveStep_ok (n := m) (t := a.rows.length) (r := row) hLRi hLRj hidne hrs
      obtain ⟨_, _, _, _, _, _, hl', hlen', hget'⟩ := liveStep_spec h.linv hst
      have hidiB := h.linv.bound _ (Dict.get?_some_key_mem hLRi)
      have hfreshset : N + t ∉ Dict.keys a.id := hfresh
      have hidlen : (((a.id.set (N + t) a.idNew).erase r.i).erase r.j).length + 1 = a.id.length := by
        have hnd := nodup_set_fresh h.idNodup hfreshset a.idNew
        have hmi : r.i ∈ Dict.keys (a.id.set (N + t) a.idNew) :=
          (mem_keys_set _ _ _ _).mpr (Or.inr (Dict.get?_some_key_mem hi))
        have l1 := Dict.length_erase_of_mem hnd hmi
        have hmj : r.j ∈ Dict.keys ((a.id.set (N + t) a.idNew).erase r.i) :=
          Dict.mem_keys_erase.mpr ⟨(mem_keys_set _ _ _ _).mpr (Or.inr (Dict.get?_some_key_mem hj)), Ne.symm hne⟩
        have l2 := Dict.length_erase_of_mem (Dict.nodup_keys_erase hnd r.i) hmj
        have l0 := length_set_fresh hfreshset a.idNew
        omega
      refine ⟨_, ⟨?_, by simpa using hl', ?_, ?_, ?_, ?_, ?_, ?_, ?_⟩⟩
      · show liveAfter m 0 (a.rows ++ [row]) _ = _
        rw [liveAfter_append, h.live]
        simp only [Option.bind_some, Nat.zero_add, liveAfter]
        rw [hst]; rfl
      · show a.idNew + 1 = m + (a.rows ++ [row]).length
        rw [h.idNew]; simp; omega
      · intro x y hx
        simp only [Dict.get?_set, Dict.get?_erase] at hx ⊢
        by_cases e2 : x = r.j
        · simp [e2] at hx
        · by_cases e1 : x = r.i
          · simp [e1, e2] at hx
          · simp only [e1, e2, if_false] at hx
            by_cases e : x = N + t
            · simp only [e, if_true, Option.some.injEq] at hx
              subst hx
              refine ⟨si + sj, by simp [e, hsi, hsj], ?_⟩
              simp [h.idNew, hrs]
            · simp only [e, if_false] at hx
              obtain ⟨s, hs1, hs2⟩ := h.rel x y hx
              refine ⟨s, by simp [e, e1, e2, hs1], ?_⟩
              have hyb := h.linv.bound _ (Dict.get?_some_key_mem hs2)
              have e3 : y ≠ m + a.rows.length := by omega
              have e4 : y ≠ idj := fun e' => e2 (h.inj x r.j y hx (e' ▸ hj))
              have e5 : y ≠ idi := fun e' => e1 (h.inj x r.i y hx (e' ▸ hi))
              simp [e3, e4, e5, hs2, row]
      · intro x x' y hx hx'
        simp only [Dict.get?_set, Dict.get?_erase] at hx hx'
        by_cases e2 : x = r.j
        · simp [e2] at hx
        · by_cases e2' : x' = r.j
          · simp [e2'] at hx'
          · by_cases e1 : x = r.i
            · simp [e1, e2] at hx
            · by_cases e1' : x' = r.i
              · simp [e1', e2'] at hx'
              · simp only [e1, e2, e1', e2', if_false] at hx hx'
                by_cases e : x = N + t <;> by_cases e' : x' = N + t
                · rw [e, e']
                · exfalso
                  simp only [e, if_true, Option.some.injEq, e', if_false] at hx hx'
                  subst hx
                  obtain ⟨s, _, hs2⟩ := h.rel x' _ hx'
                  have := h.linv.bound _ (Dict.get?_some_key_mem hs2)
                  rw [h.idNew] at this; omega
                · exfalso
                  simp only [e', if_true, Option.some.injEq, e, if_false] at hx hx'
                  subst hx'
                  obtain ⟨s, _, hs2⟩ := h.rel x _ hx
                  have := h.linv.bound _ (Dict.get?_some_key_mem hs2)
                  rw [h.idNew] at this; omega
                · simp only [e, e', if_false] at hx hx'
                  exact h.inj x x' y hx hx'
      · exact Dict.nodup_keys_erase (Dict.nodup_keys_erase (nodup_set_fresh h.idNodup hfreshset _) _) _
      · show (((LR.erase row.i).erase row.j).set (m + a.rows.length) row.s).length =
          (((a.id.set (N + t) a.idNew).erase r.i).erase r.j).length
        have := h.count
        omega
      · have hk : (((LR.erase row.i).erase row.j).set (m + a.rows.length) row.s).get? (m + a.rows.length) = some row.s := by
          rw [hget']; simp
        cases hL' : ((LR.erase row.i).erase row.j).set (m + a.rows.length) row.s with
        | nil => rw [hL'] at hk; simp at hk
        | cons p ps => simp
      · intro x hx
        obtain ⟨hx1, hx2⟩ := Dict.mem_keys_erase.mp hx
        obtain ⟨hx3, hx4⟩ := Dict.mem_keys_erase.mp hx1
        rcases (mem_keys_set _ _ _ _).mp hx3 with e | e
        · rw [e]; exact hnewkey
        · exact hsubstep x (h.sub x e) hx4 hx2


theorem sideLoop_sinv {m N : Nat} : ∀ (rs : List (Row α)) (t : Nat) (a : SplitSide α) (LR L Lf : Dict Nat),
    SInv m a LR L → LInv N t L → liveAfter N t rs L = some Lf →
    ∃ LR', SInv m (sideLoop N t rs a) LR' Lf := by
  intro rs
  induction rs with
  | nil =>
    intro t a LR L Lf h _ hl
    simp only [liveAfter, Option.some.injEq] at hl
    subst hl
    exact ⟨LR, h⟩
  | cons r rs ih =>
    intro t a LR L Lf h hL hl
    simp only [liveAfter] at hl
    cases hs : liveStep N t r L with
    | none => simp [hs] at hl
    | some L1 =>
      simp only [hs, Option.bind_some] at hl
      obtain ⟨_, _, _, _, _, _, hL1, _, _⟩ := liveStep_spec hL hs
      obtain ⟨LR1, h1⟩ := splitSide_sinv h hL hs
      exact ih (t + 1) _ LR1 L1 Lf h1 hL1 hl

theorem get?_map_range_off {β : Type} (f : Nat → β) (off m x : Nat) :
    Dict.get? ((List.range m).map fun i => (i + off, f i)) x =
      if off ≤ x ∧ x < off + m then some (f (x - off)) else none := by
  induction m with
  | zero =>
    simp only [List.range_zero, List.map_nil, Dict.get?_nil]
    split
    · omega
    · rfl
  | succ m ih =>
    rw [List.range_succ, List.map_append, get?_append, ih]
    by_cases h : off ≤ x ∧ x < off + m
    · have : off ≤ x ∧ x < off + (m + 1) := ⟨h.1, by omega⟩
      simp [h, this]
    · simp only [h, if_false, List.map_cons, List.map_nil, Dict.get?_cons, Dict.get?_nil]
      by_cases e : m + off = x
      · have : off ≤ x ∧ x < off + (m + 1) := by omega
        have e' : x - off = m := by omega
        simp [e, this, e']
      · have : ¬ (off ≤ x ∧ x < off + (m + 1)) := by omega
        simp [e, this]

/-- the side state at the start, for the leaves `off … off + m - 1` of the full dendrogram -/
def sideInit (α : Type) (m off : Nat) : SplitSide α :=
  { rows := [], idNew := m, size := (List.range m).map (fun i => (i + off, 1)),
    id := (List.range m).map (fun i => (i + off, i)) }

theorem sinv_init (m N off : Nat) (hm : 0 < m) (hN : off + m ≤ N) :
    SInv (α := α) m (sideInit α m off) (liveInit (List.replicate m 1)) (liveInit (List.replicate N 1)) := by
  unfold sideInit
  refine ⟨rfl, by simpa using linv_init (List.replicate m 1), rfl, ?_, ?_, ?_, ?_, ?_, ?_⟩
  · intro x y hx
    rw [get?_map_range_off] at hx
    split at hx
    · rename_i hb
      simp only [Option.some.injEq] at hx
      subst hx
      refine ⟨1, ?_, liveInit_get? m _ (by omega)⟩
      rw [get?_map_range_off]; simp [hb]
    · cases hx
  · intro x x' y hx hx'
    rw [get?_map_range_off] at hx hx'
    split at hx
    · split at hx'
      · simp only [Option.some.injEq] at hx hx'; omega
      · cases hx'
    · cases hx
  · simp only [Dict.keys, List.map_map, Function.comp_def]
    have : (List.range m).map (fun i => i + off) = (List.range m).map (· + off) := rfl
    refine (List.pairwise_lt_range.map (fun i => i + off) (by intro a b h; omega)).imp (fun h => Nat.ne_of_lt h)
  · simp [liveInit]
  · simp [liveInit]; exact hm
  · intro x hx
    obtain ⟨v, hv⟩ := (mem_keys_iff _ _).mp hx
    rw [get?_map_range_off] at hv
    split at hv
    · exact (mem_keys_iff _ _).mpr ⟨1, liveInit_get? N x (by omega)⟩
    · cases hv

end SkNet.Hier
