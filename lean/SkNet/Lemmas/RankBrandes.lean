/-
Brandes' algorithm (`ranking/betweenness.pyx`), BFS phase: the distances are the hop distances and `sigma` is the
number of shortest paths from the source (stored neighbours counted with multiplicity).
-/
import SkNet.Model.Rank
import SkNet.Spec.Rank
import Mathlib.Algebra.BigOperators.Group.Finset.Basic
import Mathlib.Algebra.BigOperators.Ring.Finset
import Mathlib.Algebra.Order.BigOperators.Group.Finset
import Mathlib.Tactic.Linarith
import Mathlib.Tactic.Ring

open Finset

namespace SkNet.Rank.Brandes

/-! ### generic list updates -/

theorem getD_set {α : Type} (l : List α) (j : ℕ) (v d : α) (i : ℕ) (hj : j < l.length) :
    (l.set j v).getD i d = if j = i then v else l.getD i d := by
  rw [List.getD_eq_getElem?_getD, List.getElem?_set, List.getD_eq_getElem?_getD]
  by_cases h : j = i
  · subst h; simp [hj]
  · simp [h]

theorem getD_modify {α : Type} (l : List α) (j : ℕ) (f : α → α) (d : α) (i : ℕ) (hj : j < l.length) :
    (l.modify j f).getD i d = if j = i then f (l.getD i d) else l.getD i d := by
  rw [List.getD_eq_getElem?_getD, List.getElem?_modify, List.getD_eq_getElem?_getD]
  by_cases h : j = i
  · subst h
    simp [List.getElem?_eq_getElem hj]
  · simp only [h, if_false]
    cases l[i]? <;> simp

/-! ### walks along stored neighbours -/

/-- number of walks of length `d` from `src` to `v` along the stored neighbours (with multiplicity) -/
def paths (n : ℕ) (nbr : ℕ → List ℕ) (src : ℕ) : ℕ → ℕ → ℕ
  | 0, v => if v = src then 1 else 0
  | d+1, v => ∑ u ∈ range n, (nbr u).count v * paths n nbr src d u

variable {n : ℕ} {nbr : ℕ → List ℕ} {src : ℕ}

theorem paths_succ_pos {d v : ℕ} :
    0 < paths n nbr src (d+1) v ↔ ∃ u, u < n ∧ v ∈ nbr u ∧ 0 < paths n nbr src d u := by
  show 0 < ∑ u ∈ range n, (nbr u).count v * paths n nbr src d u ↔ _
  rw [Nat.pos_iff_ne_zero, Ne, sum_eq_zero_iff]
  constructor
  · intro h
    by_contra hc
    apply h
    intro u hu
    by_contra hne
    apply hc
    have hm := Nat.pos_of_ne_zero hne
    have h1 : 0 < (nbr u).count v := Nat.pos_of_mul_pos_right hm
    have h2 : 0 < paths n nbr src d u := Nat.pos_of_mul_pos_left hm
    exact ⟨u, mem_range.mp hu, List.count_pos_iff.mp h1, h2⟩
  · rintro ⟨u, hu, hv, hp⟩ hall
    have := hall u (mem_range.mpr hu)
    have h1 : 0 < (nbr u).count v := List.count_pos_iff.mpr hv
    have := Nat.mul_pos h1 hp
    omega

/-- `d` is the hop distance of `v` from the source -/
def IsDist (n : ℕ) (nbr : ℕ → List ℕ) (src : ℕ) (v d : ℕ) : Prop :=
  0 < paths n nbr src d v ∧ ∀ d', d' < d → paths n nbr src d' v = 0

theorem isDist_unique {v d d' : ℕ} (h : IsDist n nbr src v d) (h' : IsDist n nbr src v d') : d = d' := by
  by_contra hne
  rcases Nat.lt_or_gt_of_ne hne with hlt | hgt
  · have := h'.2 d hlt; have := h.1; omega
  · have := h.2 d' hgt; have := h'.1; omega

theorem isDist_zero {v : ℕ} : IsDist n nbr src v 0 ↔ v = src := by
  unfold IsDist
  constructor
  · rintro ⟨h, _⟩
    by_contra hne
    simp [paths, hne] at h
  · intro h; subst h
    exact ⟨by simp [paths], fun d' hd' => absurd hd' (Nat.not_lt_zero _)⟩

/-! ### one neighbour -/

/-- `dists[v]`, `sigma[v]` of a state -/
def D (st : BState) (v : ℕ) : ℤ := st.dists.getD v (-1)
def S (st : BState) (v : ℕ) : ℕ := st.sigma.getD v 0

theorem step_eq_new (i : ℕ) (st : BState) (j : ℕ) (hj : j < st.dists.length) (h : st.dists.getD j (-1) < 0) :
    brandesStep i st j =
      { sigma := st.sigma.modify j (· + st.sigma.getD i 0), dists := st.dists.set j (st.dists.getD i (-1) + 1),
        preds := st.preds.modify j (· ++ [i]), queue := st.queue ++ [j], seen := st.seen } := by
  have h2 : ((st.dists.set j (st.dists.getD i (-1) + 1)).getD j (-1) == st.dists.getD i (-1) + 1) = true := by
    rw [getD_set _ _ _ _ _ hj]; simp
  unfold brandesStep
  simp only [if_pos h]
  rw [if_pos h2]

theorem step_eq_child (i : ℕ) (st : BState) (j : ℕ) (h : ¬ st.dists.getD j (-1) < 0)
    (hc : (st.dists.getD j (-1) == st.dists.getD i (-1) + 1) = true) :
    brandesStep i st j =
      { st with sigma := st.sigma.modify j (· + st.sigma.getD i 0), preds := st.preds.modify j (· ++ [i]) } := by
  unfold brandesStep
  simp only [if_neg h]
  rw [if_pos hc]

theorem step_eq_other (i : ℕ) (st : BState) (j : ℕ) (h : ¬ st.dists.getD j (-1) < 0)
    (hc : ¬ (st.dists.getD j (-1) == st.dists.getD i (-1) + 1) = true) :
    brandesStep i st j = st := by
  unfold brandesStep
  simp only [if_neg h]
  rw [if_neg hc]

/-- `j` is seen for the first time -/
theorem step_new (i : ℕ) (st : BState) (j : ℕ) (hj : j < st.dists.length) (hjs : j < st.sigma.length)
    (h : D st j < 0) :
    (∀ v, D (brandesStep i st j) v = if j = v then D st i + 1 else D st v) ∧
    (brandesStep i st j).queue = st.queue ++ [j] ∧ (brandesStep i st j).seen = st.seen ∧
    (∀ v, S (brandesStep i st j) v = if j = v then S st v + S st i else S st v) ∧
    (brandesStep i st j).dists.length = st.dists.length ∧ (brandesStep i st j).sigma.length = st.sigma.length := by
  rw [step_eq_new i st j hj h]
  refine ⟨fun v => ?_, rfl, rfl, fun v => ?_, ?_, ?_⟩
  · exact getD_set _ _ _ _ _ hj
  · exact getD_modify _ _ _ _ _ hjs
  · simp
  · simp

/-- `j` already has the distance of a child of `i` -/
theorem step_child (i : ℕ) (st : BState) (j : ℕ) (hjs : j < st.sigma.length)
    (h : ¬ D st j < 0) (hc : D st j = D st i + 1) :
    (∀ v, D (brandesStep i st j) v = D st v) ∧ (brandesStep i st j).queue = st.queue ∧
    (brandesStep i st j).seen = st.seen ∧
    (∀ v, S (brandesStep i st j) v = if j = v then S st v + S st i else S st v) ∧
    (brandesStep i st j).dists.length = st.dists.length ∧ (brandesStep i st j).sigma.length = st.sigma.length := by
  have hc' : (st.dists.getD j (-1) == st.dists.getD i (-1) + 1) = true := by
    rw [beq_iff_eq]; exact hc
  rw [step_eq_child i st j h hc']
  refine ⟨fun v => rfl, rfl, rfl, fun v => ?_, rfl, ?_⟩
  · exact getD_modify _ _ _ _ _ hjs
  · simp

/-- `j` is neither new nor a child -/
theorem step_other (i : ℕ) (st : BState) (j : ℕ) (h : ¬ D st j < 0) (hc : D st j ≠ D st i + 1) :
    brandesStep i st j = st := by
  have hc' : ¬ (st.dists.getD j (-1) == st.dists.getD i (-1) + 1) = true := by
    rw [beq_iff_eq]; exact hc
  exact step_eq_other i st j h hc'

/-! ### the invariant -/

/-- contribution of the processed predecessors to `sigma[v]`; `eff u` = the neighbours of `u` scanned so far -/
def sigSum (n : ℕ) (nbr : ℕ → List ℕ) (src : ℕ) (eff : ℕ → List ℕ) (st : BState) (v : ℕ) : ℕ :=
  ∑ u ∈ range n, if u ∈ st.seen ∧ D st u + 1 = D st v then (eff u).count v * paths n nbr src (D st u).toNat u else 0

/-- invariant of the BFS phase while level `L` is being processed -/
structure Inv (n : ℕ) (nbr : ℕ → List ℕ) (src : ℕ) (eff : ℕ → List ℕ) (L : ℕ) (st : BState) : Prop where
  lenD : st.dists.length = n
  lenS : st.sigma.length = n
  qlt : ∀ q ∈ st.queue, q < n
  slt : ∀ u ∈ st.seen, u < n
  disc : ∀ v, v < n → (0 ≤ D st v ↔ v ∈ st.seen ∨ v ∈ st.queue)
  dist_ok : ∀ v, v < n → 0 ≤ D st v → IsDist n nbr src v (D st v).toNat
  qlev : ∀ q ∈ st.queue, (L : ℤ) ≤ D st q ∧ D st q ≤ L + 1
  sorted : st.queue.Pairwise (fun p q => D st p ≤ D st q)
  qnodup : st.queue.Nodup
  qs_disj : ∀ q ∈ st.queue, q ∉ st.seen
  snodup : st.seen.Nodup
  seen_le : ∀ u ∈ st.seen, D st u ≤ L
  closed : ∀ u ∈ st.seen, ∀ v ∈ eff u, 0 ≤ D st v
  compl : ∀ v, v < n → ∀ d, d ≤ L → 0 < paths n nbr src d v → 0 ≤ D st v
  undisc : ∀ v, v < n → D st v < 0 → S st v = 0
  sigma_ok : ∀ v, v < n → 0 ≤ D st v → S st v = (if v = src then 1 else 0) + sigSum n nbr src eff st v
  final : ∀ u ∈ st.seen, S st u = paths n nbr src (D st u).toNat u
  src_disc : 0 ≤ D st src

theorem update_apply' (nbr : ℕ → List ℕ) (i : ℕ) (l : List ℕ) (u : ℕ) :
    Function.update nbr i l u = if u = i then l else nbr u := by
  by_cases h : u = i
  · subst h; simp
  · simp [h]

theorem count_snoc (v j : ℕ) (l : List ℕ) : (l ++ [j]).count v = l.count v + if j = v then 1 else 0 := by
  rw [List.count_append, List.count_singleton]
  by_cases h : j = v <;> simp [h]

/-- one neighbour `j` of the node `i` being processed (level `L`) -/
theorem Inv.step {n : ℕ} {nbr : ℕ → List ℕ} {src : ℕ} {i : ℕ} {pre : List ℕ} {L : ℕ} {st : BState}
    (hI : Inv n nbr src (Function.update nbr i pre) L st) (hi : i ∈ st.seen) (hiL : D st i = L) {j : ℕ}
    (hj : j < n) (hjn : j ∈ nbr i) :
    Inv n nbr src (Function.update nbr i (pre ++ [j])) L (brandesStep i st j) := by
  have hin : i < n := hI.slt i hi
  have hjD : j < st.dists.length := by rw [hI.lenD]; exact hj
  have hjS : j < st.sigma.length := by rw [hI.lenS]; exact hj
  have hiD0 : 0 ≤ D st i := by rw [hiL]; exact Int.natCast_nonneg L
  have hiN : (D st i).toNat = L := by rw [hiL]; simp
  have hidist := hI.dist_ok i hin hiD0
  rw [hiN] at hidist
  have hSi : S st i = paths n nbr src L i := by rw [hI.final i hi, hiN]
  have heff : ∀ u, Function.update nbr i (pre ++ [j]) u = if u = i then pre ++ [j] else nbr u :=
    fun u => update_apply' nbr i _ u
  have heff0 : ∀ u, Function.update nbr i pre u = if u = i then pre else nbr u := fun u => update_apply' nbr i _ u
  by_cases hnew : D st j < 0
  · -- j is discovered now
    obtain ⟨hD, hq, hs, hS, hlD, hlS⟩ := step_new i st j hjD hjS hnew
    have hjseen : j ∉ st.seen := fun h => by
      have := (hI.disc j hj).mpr (Or.inl h); omega
    have hjq : j ∉ st.queue := fun h => by
      have := (hI.disc j hj).mpr (Or.inr h); omega
    have hDne : ∀ v, v ≠ j → D (brandesStep i st j) v = D st v := fun v hv => by
      rw [hD v, if_neg (Ne.symm hv)]
    have hDj : D (brandesStep i st j) j = L + 1 := by rw [hD j, if_pos rfl, hiL]
    have hDseen : ∀ u ∈ st.seen, D (brandesStep i st j) u = D st u := fun u hu =>
      hDne u (fun h => hjseen (h ▸ hu))
    have hDmono : ∀ v, 0 ≤ D st v → 0 ≤ D (brandesStep i st j) v := by
      intro v hv
      by_cases hvj : v = j
      · subst hvj; rw [hDj]; omega
      · rw [hDne v hvj]; exact hv
    have hjpre : j ∉ pre := fun h => by
      have := hI.closed i hi j (by rw [heff0, if_pos rfl]; exact h); omega
    have hjsrc : j ≠ src := fun h => by have := hI.src_disc; rw [← h] at this; omega
    refine
      { lenD := by rw [hlD]; exact hI.lenD
        lenS := by rw [hlS]; exact hI.lenS
        qlt := ?_, slt := by rw [hs]; exact hI.slt
        snodup := by rw [hs]; exact hI.snodup
        disc := ?_, dist_ok := ?_, qlev := ?_, sorted := ?_, qnodup := ?_, qs_disj := ?_
        seen_le := ?_, closed := ?_, compl := ?_, undisc := ?_, sigma_ok := ?_, final := ?_
        src_disc := hDmono src hI.src_disc }
    · intro q hq'
      rw [hq, List.mem_append, List.mem_singleton] at hq'
      rcases hq' with h | h
      · exact hI.qlt q h
      · rw [h]; exact hj
    · intro v hv
      rw [hq, hs, List.mem_append, List.mem_singleton]
      by_cases hvj : v = j
      · subst hvj; rw [hDj]; constructor
        · intro _; exact Or.inr (Or.inr rfl)
        · intro _; omega
      · rw [hDne v hvj, hI.disc v hv]
        constructor
        · rintro (h | h)
          · exact Or.inl h
          · exact Or.inr (Or.inl h)
        · rintro (h | h | h)
          · exact Or.inl h
          · exact Or.inr h
          · exact absurd h hvj
    · intro v hv hv0
      by_cases hvj : v = j
      · subst hvj
        rw [hDj]
        have : ((L : ℤ) + 1).toNat = L + 1 := by omega
        rw [this]
        refine ⟨paths_succ_pos.mpr ⟨i, hin, hjn, hidist.1⟩, fun d' hd' => ?_⟩
        by_contra hne
        have := hI.compl v hv d' (by omega) (Nat.pos_of_ne_zero hne)
        omega
      · rw [hDne v hvj] at hv0 ⊢
        exact hI.dist_ok v hv hv0
    · intro q hq'
      rw [hq, List.mem_append, List.mem_singleton] at hq'
      rcases hq' with h | h
      · rw [hDne q (fun e => hjq (e ▸ h))]; exact hI.qlev q h
      · rw [h, hDj]; omega
    · rw [hq, List.pairwise_append]
      refine ⟨?_, List.pairwise_singleton _ _, ?_⟩
      · exact hI.sorted.imp_of_mem (fun {a b} ha hb hab => by
          rw [hDne a (fun e => hjq (e ▸ ha)), hDne b (fun e => hjq (e ▸ hb))]; exact hab)
      · intro a ha b hb
        rw [List.mem_singleton] at hb
        rw [hb, hDj, hDne a (fun e => hjq (e ▸ ha))]
        exact (hI.qlev a ha).2
    · rw [hq]
      exact List.Nodup.append hI.qnodup (List.nodup_singleton j) (by
        intro a ha hb; rw [List.mem_singleton] at hb; exact hjq (hb ▸ ha))
    · intro q hq'
      rw [hq, List.mem_append, List.mem_singleton] at hq'
      rw [hs]
      rcases hq' with h | h
      · exact hI.qs_disj q h
      · rw [h]; exact hjseen
    · intro u hu
      rw [hs] at hu
      rw [hDseen u hu]; exact hI.seen_le u hu
    · intro u hu v hv
      rw [hs] at hu
      rw [heff] at hv
      by_cases hui : u = i
      · rw [if_pos hui] at hv
        rw [List.mem_append, List.mem_singleton] at hv
        rcases hv with h | h
        · exact hDmono v (hI.closed u hu v (by rw [heff0, if_pos hui]; exact h))
        · rw [h, hDj]; omega
      · rw [if_neg hui] at hv
        exact hDmono v (hI.closed u hu v (by rw [heff0, if_neg hui]; exact hv))
    · intro v hv d hd hp
      exact hDmono v (hI.compl v hv d hd hp)
    · intro v hv hneg
      have hvj : v ≠ j := fun e => by rw [e, hDj] at hneg; omega
      rw [hDne v hvj] at hneg
      rw [hS v, if_neg (Ne.symm hvj)]
      exact hI.undisc v hv hneg
    · intro v hv hv0
      by_cases hvj : v = j
      · subst hvj
        rw [hS v, if_pos rfl, hI.undisc v hv hnew, zero_add, hSi, if_neg hjsrc, zero_add]
        unfold sigSum
        rw [sum_eq_single i]
        · have hcond : i ∈ (brandesStep i st v).seen ∧ D (brandesStep i st v) i + 1 = D (brandesStep i st v) v := by
            rw [hs, hDseen i hi, hDj, hiL]; exact ⟨hi, rfl⟩
          rw [if_pos hcond, heff, if_pos rfl, count_snoc, if_pos rfl, List.count_eq_zero_of_not_mem hjpre,
            hDseen i hi, hiN]
          ring
        · intro u _ hui
          split
          · rename_i hc
            rw [hs] at hc
            rw [heff, if_neg hui]
            have : v ∉ nbr u := fun h => by
              have := hI.closed u hc.1 v (by rw [heff0, if_neg hui]; exact h); omega
            rw [List.count_eq_zero_of_not_mem this, zero_mul]
          · rfl
        · intro h; exact absurd (mem_range.mpr hin) h
      · rw [hDne v hvj] at hv0
        rw [hS v, if_neg (Ne.symm hvj), hI.sigma_ok v hv hv0]
        congr 1
        unfold sigSum
        apply sum_congr rfl; intro u _
        rw [hs, hDne v hvj]
        by_cases hu : u ∈ st.seen
        · rw [hDseen u hu, heff, heff0]
          by_cases hui : u = i
          · simp only [hui, if_true, count_snoc, if_neg (Ne.symm hvj), add_zero]
          · simp only [hui, if_false]
        · simp [hu]
    · intro u hu
      rw [hs] at hu
      have huj : u ≠ j := fun e => hjseen (e ▸ hu)
      rw [hS u, if_neg (Ne.symm huj), hDseen u hu]
      exact hI.final u hu
  · -- j was discovered before
    have hj0 : 0 ≤ D st j := not_lt.mp hnew
    have hclosed : ∀ u ∈ st.seen, ∀ v ∈ Function.update nbr i (pre ++ [j]) u, 0 ≤ D st v := by
      intro u hu v hv
      rw [heff] at hv
      by_cases hui : u = i
      · rw [if_pos hui, List.mem_append, List.mem_singleton] at hv
        rcases hv with h | h
        · exact hI.closed u hu v (by rw [heff0, if_pos hui]; exact h)
        · rw [h]; exact hj0
      · rw [if_neg hui] at hv
        exact hI.closed u hu v (by rw [heff0, if_neg hui]; exact hv)
    by_cases hchild : D st j = D st i + 1
    · obtain ⟨hD, hq, hs, hS, hlD, hlS⟩ := step_child i st j hjS hnew hchild
      have hjseen : j ∉ st.seen := fun h => by
        have := hI.seen_le j h; rw [hchild, hiL] at this; omega
      have hDD : ∀ v, D (brandesStep i st j) v = D st v := hD
      refine
        { lenD := by rw [hlD]; exact hI.lenD
          lenS := by rw [hlS]; exact hI.lenS
          qlt := by rw [hq]; exact hI.qlt
          slt := by rw [hs]; exact hI.slt
          disc := by intro v hv; rw [hDD, hq, hs]; exact hI.disc v hv
          dist_ok := by intro v hv; rw [hDD]; exact hI.dist_ok v hv
          qlev := by intro q hq'; rw [hq] at hq'; rw [hDD]; exact hI.qlev q hq'
          sorted := by
            rw [hq]
            exact hI.sorted.imp (fun {a b} hab => by rw [hDD, hDD]; exact hab)
          qnodup := by rw [hq]; exact hI.qnodup
          qs_disj := by rw [hq, hs]; exact hI.qs_disj
          snodup := by rw [hs]; exact hI.snodup
          seen_le := by intro u hu; rw [hs] at hu; rw [hDD]; exact hI.seen_le u hu
          closed := by intro u hu v hv; rw [hs] at hu; rw [hDD]; exact hclosed u hu v hv
          compl := by intro v hv d hd hp; rw [hDD]; exact hI.compl v hv d hd hp
          undisc := ?_, sigma_ok := ?_, final := ?_
          src_disc := by rw [hDD]; exact hI.src_disc }
      · intro v hv hneg
        rw [hDD] at hneg
        have hvj : v ≠ j := fun e => by rw [e] at hneg; omega
        rw [hS v, if_neg (Ne.symm hvj)]
        exact hI.undisc v hv hneg
      · intro v hv hv0
        rw [hDD] at hv0
        rw [hS v, hI.sigma_ok v hv hv0]
        unfold sigSum
        by_cases hvj : j = v
        · subst hvj
          rw [if_pos rfl, add_assoc]
          congr 1
          -- the term of u = i grows by paths L i
          rw [hSi]
          have hsplit : ∀ f : ℕ → ℕ, ∑ u ∈ range n, f u = f i + ∑ u ∈ (range n).erase i, f u := fun f =>
            (add_sum_erase (range n) f (mem_range.mpr hin)).symm
          rw [hsplit, hsplit (fun u => if u ∈ (brandesStep i st j).seen ∧ D (brandesStep i st j) u + 1 = D (brandesStep i st j) j
            then (Function.update nbr i (pre ++ [j]) u).count j * paths n nbr src (D (brandesStep i st j) u).toNat u else 0)]
          have hc1 : i ∈ st.seen ∧ D st i + 1 = D st j := ⟨hi, hchild.symm⟩
          have hc2 : i ∈ (brandesStep i st j).seen ∧ D (brandesStep i st j) i + 1 = D (brandesStep i st j) j := by
            rw [hs, hDD, hDD]; exact hc1
          rw [if_pos hc1, if_pos hc2, heff, heff0, if_pos rfl, if_pos rfl, count_snoc, if_pos rfl, hDD, hiN]
          have hrest : ∑ u ∈ (range n).erase i, (if u ∈ st.seen ∧ D st u + 1 = D st j
                then (Function.update nbr i pre u).count j * paths n nbr src (D st u).toNat u else 0)
              = ∑ u ∈ (range n).erase i, (if u ∈ (brandesStep i st j).seen ∧ D (brandesStep i st j) u + 1 = D (brandesStep i st j) j
                then (Function.update nbr i (pre ++ [j]) u).count j * paths n nbr src (D (brandesStep i st j) u).toNat u else 0) := by
            apply sum_congr rfl; intro u hu
            have hui : u ≠ i := (mem_erase.mp hu).1
            rw [hs, hDD, hDD, heff, heff0, if_neg hui, if_neg hui]
          rw [hrest]; ring
        · rw [if_neg hvj]
          congr 1
          apply sum_congr rfl; intro u _
          rw [hs, hDD, hDD, heff, heff0]
          by_cases hui : u = i
          · simp only [hui, if_true, count_snoc, if_neg hvj, add_zero]
          · simp only [hui, if_false]
      · intro u hu
        rw [hs] at hu
        have huj : u ≠ j := fun e => hjseen (e ▸ hu)
        rw [hS u, if_neg (Ne.symm huj), hDD]
        exact hI.final u hu
    · rw [step_other i st j hnew hchild]
      refine
        { lenD := hI.lenD, lenS := hI.lenS, qlt := hI.qlt, slt := hI.slt, disc := hI.disc, dist_ok := hI.dist_ok
          qlev := hI.qlev, sorted := hI.sorted, qnodup := hI.qnodup, qs_disj := hI.qs_disj, seen_le := hI.seen_le
          snodup := hI.snodup
          closed := hclosed, compl := hI.compl, undisc := hI.undisc, sigma_ok := ?_, final := hI.final
          src_disc := hI.src_disc }
      intro v hv hv0
      rw [hI.sigma_ok v hv hv0]
      congr 1
      unfold sigSum
      apply sum_congr rfl; intro u _
      rw [heff, heff0]
      by_cases hui : u = i
      · subst hui
        simp only [if_true, count_snoc]
        by_cases hvj : j = v
        · subst hvj
          have : ¬ (u ∈ st.seen ∧ D st u + 1 = D st j) := fun h => hchild h.2.symm
          rw [if_neg this, if_neg this]
        · rw [if_neg hvj, add_zero]
      · simp only [hui, if_false]

/-- a step does not touch the processed node nor the stack -/
theorem step_keeps (i : ℕ) (st : BState) (j : ℕ) (hjD : j < st.dists.length) (hjS : j < st.sigma.length)
    (hi : 0 ≤ D st i) : (brandesStep i st j).seen = st.seen ∧ D (brandesStep i st j) i = D st i := by
  by_cases hnew : D st j < 0
  · obtain ⟨hD, _, hs, _⟩ := step_new i st j hjD hjS hnew
    refine ⟨hs, ?_⟩
    rw [hD i, if_neg]
    intro e; rw [e] at hnew; omega
  · by_cases hchild : D st j = D st i + 1
    · obtain ⟨hD, _, hs, _⟩ := step_child i st j hjS hnew hchild
      exact ⟨hs, hD i⟩
    · rw [step_other i st j hnew hchild]; exact ⟨rfl, rfl⟩

/-- the whole `for j in neighbors` loop -/
theorem Inv.scan {n : ℕ} {nbr : ℕ → List ℕ} {src : ℕ} (hnbr : ∀ u, ∀ v ∈ nbr u, v < n) {i : ℕ} {L : ℕ}
    (rest pre : List ℕ) (hsplit : pre ++ rest = nbr i) {st : BState}
    (hI : Inv n nbr src (Function.update nbr i pre) L st) (hi : i ∈ st.seen) (hiL : D st i = L) :
    Inv n nbr src nbr L (rest.foldl (brandesStep i) st) := by
  induction rest generalizing pre st with
  | nil =>
    rw [List.append_nil] at hsplit
    rw [hsplit, Function.update_eq_self] at hI
    exact hI
  | cons j t ih =>
    rw [List.foldl_cons]
    have hjn : j ∈ nbr i := by rw [← hsplit]; simp
    have hj : j < n := hnbr i j hjn
    have hk := step_keeps i st j (by rw [hI.lenD]; exact hj) (by rw [hI.lenS]; exact hj)
      (by rw [hiL]; exact Int.natCast_nonneg L)
    exact ih (pre ++ [j]) (by rw [List.append_assoc]; exact hsplit) (hI.step hi hiL hj hjn)
      (by rw [hk.1]; exact hi) (by rw [hk.2]; exact hiL)

/-- popping the head of the queue -/
theorem Inv.pop {n : ℕ} {nbr : ℕ → List ℕ} {src : ℕ} {L : ℕ} {st : BState} (hI : Inv n nbr src nbr L st)
    {i : ℕ} {rest : List ℕ} (hq : st.queue = i :: rest) :
    Inv n nbr src (Function.update nbr i []) (D st i).toNat { st with queue := rest, seen := i :: st.seen } ∧
      D st i = ((D st i).toNat : ℤ) := by
  have hiq : i ∈ st.queue := by rw [hq]; simp
  have hin : i < n := hI.qlt i hiq
  have hlev := hI.qlev i hiq
  have hi0 : 0 ≤ D st i := by have := hlev.1; omega
  have hcast : D st i = ((D st i).toNat : ℤ) := (Int.toNat_of_nonneg hi0).symm
  have hLle : L ≤ (D st i).toNat := by omega
  have hLge : (D st i).toNat ≤ L + 1 := by omega
  have hsorted : ∀ q ∈ rest, D st i ≤ D st q := by
    have := hI.sorted; rw [hq, List.pairwise_cons] at this; exact this.1
  have hnd : i ∉ rest := by have := hI.qnodup; rw [hq, List.nodup_cons] at this; exact this.1
  have hiseen : i ∉ st.seen := hI.qs_disj i hiq
  have hqge : ∀ q ∈ st.queue, D st i ≤ D st q := by
    intro q hq'
    rw [hq, List.mem_cons] at hq'
    rcases hq' with h | h
    · rw [h]
    · exact hsorted q h
  have hrestq : ∀ q ∈ rest, q ∈ st.queue := fun q h => by rw [hq]; exact List.mem_cons_of_mem _ h
  have hidist := hI.dist_ok i hin hi0
  have heff : ∀ u, Function.update nbr i [] u = if u = i then [] else nbr u := fun u => update_apply' nbr i _ u
  refine ⟨?_, hcast⟩
  have hDD : ∀ v, D { st with queue := rest, seen := i :: st.seen } v = D st v := fun _ => rfl
  have hSS : ∀ v, S { st with queue := rest, seen := i :: st.seen } v = S st v := fun _ => rfl
  refine
    { lenD := hI.lenD, lenS := hI.lenS
      qlt := fun q h => hI.qlt q (hrestq q h)
      snodup := List.nodup_cons.mpr ⟨hiseen, hI.snodup⟩
      slt := ?_, disc := ?_, dist_ok := hI.dist_ok, qlev := ?_, sorted := ?_, qnodup := ?_, qs_disj := ?_
      seen_le := ?_, closed := ?_, compl := ?_, undisc := hI.undisc, sigma_ok := ?_, final := ?_
      src_disc := hI.src_disc }
  · intro u hu
    show u < n
    rcases List.mem_cons.mp hu with h | h
    · rw [h]; exact hin
    · exact hI.slt u h
  · intro v hv
    show 0 ≤ D st v ↔ v ∈ i :: st.seen ∨ v ∈ rest
    rw [hI.disc v hv, hq, List.mem_cons, List.mem_cons]
    tauto
  · intro q hq'
    show ((D st i).toNat : ℤ) ≤ D st q ∧ D st q ≤ ((D st i).toNat : ℤ) + 1
    have h1 := hsorted q hq'
    have h2 := (hI.qlev q (hrestq q hq')).2
    omega
  · show rest.Pairwise _
    have := hI.sorted; rw [hq, List.pairwise_cons] at this; exact this.2
  · show rest.Nodup
    have := hI.qnodup; rw [hq, List.nodup_cons] at this; exact this.2
  · intro q hq'
    show q ∉ i :: st.seen
    rw [List.mem_cons]
    rintro (h | h)
    · exact hnd (h ▸ hq')
    · exact hI.qs_disj q (hrestq q hq') h
  · intro u hu
    show D st u ≤ ((D st i).toNat : ℤ)
    rcases List.mem_cons.mp hu with h | h
    · rw [h]; omega
    · have := hI.seen_le u h; omega
  · intro u hu v hv
    show 0 ≤ D st v
    rw [heff] at hv
    by_cases hui : u = i
    · rw [if_pos hui] at hv; simp at hv
    · rw [if_neg hui] at hv
      rcases List.mem_cons.mp hu with h | h
      · exact absurd h hui
      · exact hI.closed u h v hv
  · intro v hv d hd hp
    show 0 ≤ D st v
    by_cases hdL : d ≤ L
    · exact hI.compl v hv d hdL hp
    · have hdeq : d = L + 1 := by omega
      subst hdeq
      obtain ⟨u, hu, hvu, hpu⟩ := paths_succ_pos.mp hp
      have hu0 := hI.compl u hu L (le_refl L) hpu
      have hud := hI.dist_ok u hu hu0
      have huL : (D st u).toNat ≤ L := by
        by_contra hc
        have := hud.2 L (by omega); omega
      rcases (hI.disc u hu).mp hu0 with h | h
      · exact hI.closed u h v hvu
      · have := hqge u h; omega
  · intro v hv hv0
    rw [hSS, hI.sigma_ok v hv hv0]
    congr 1
    unfold sigSum
    apply sum_congr rfl; intro u _
    rw [heff]
    by_cases hui : u = i
    · subst hui
      have : ¬ (u ∈ st.seen ∧ D st u + 1 = D st v) := fun h => hiseen h.1
      rw [if_neg this]
      simp
    · have : (u ∈ ({ st with queue := rest, seen := i :: st.seen } : BState).seen ∧
          D { st with queue := rest, seen := i :: st.seen } u + 1 = D { st with queue := rest, seen := i :: st.seen } v)
          ↔ (u ∈ st.seen ∧ D st u + 1 = D st v) := by
        show (u ∈ i :: st.seen ∧ _) ↔ _
        rw [List.mem_cons]
        constructor
        · rintro ⟨h | h, h2⟩
          · exact absurd h hui
          · exact ⟨h, h2⟩
        · rintro ⟨h, h2⟩; exact ⟨Or.inr h, h2⟩
      simp only [this, hui, if_false]
      rfl
  · intro u hu
    rw [hSS, hDD]
    rcases List.mem_cons.mp hu with h | h
    swap
    · exact hI.final u h
    · rw [h]
      -- sigma[i] is final: all its predecessors have been processed
      rw [hI.sigma_ok i hin hi0]
      by_cases hz : (D st i).toNat = 0
      · have hisrc : i = src := isDist_zero.mp (hz ▸ hidist)
        rw [hz, if_pos hisrc]
        have : sigSum n nbr src nbr st i = 0 := by
          unfold sigSum
          apply sum_eq_zero; intro u hu'
          split
          · rename_i hc
            have hu0 : 0 ≤ D st u := (hI.disc u (mem_range.mp hu')).mpr (Or.inl hc.1)
            omega
          · rfl
        rw [this, hisrc]; simp [paths]
      · obtain ⟨d, hd⟩ := Nat.exists_eq_succ_of_ne_zero hz
        have hisrc : i ≠ src := by
          intro e
          have := hidist.2 0 (by omega)
          rw [e] at this; simp [paths] at this
        rw [if_neg hisrc, zero_add, hd]
        unfold sigSum
        show _ = ∑ u ∈ range n, (nbr u).count i * paths n nbr src d u
        apply sum_congr rfl; intro u hu'
        have hun := mem_range.mp hu'
        split
        · rename_i hc
          have : (D st u).toNat = d := by omega
          rw [this]
        · rename_i hc
          by_contra hne
          have hm : 0 < (nbr u).count i * paths n nbr src d u := Nat.pos_of_ne_zero (Ne.symm hne)
          have h1 : i ∈ nbr u := List.count_pos_iff.mp (Nat.pos_of_mul_pos_right hm)
          have h2 : 0 < paths n nbr src d u := Nat.pos_of_mul_pos_left hm
          have hu0 := hI.compl u hun d (by omega) h2
          have hud := hI.dist_ok u hun hu0
          have hle : (D st u).toNat ≤ d := by
            by_contra hc2
            have := hud.2 d (by omega); omega
          have hge : d ≤ (D st u).toNat := by
            by_contra hc2
            have hp : 0 < paths n nbr src ((D st u).toNat + 1) i := paths_succ_pos.mpr ⟨u, hun, h1, hud.1⟩
            have := hidist.2 ((D st u).toNat + 1) (by omega)
            omega
          have hDu : D st u + 1 = D st i := by omega
          rcases (hI.disc u hun).mp hu0 with h | h
          · exact hc ⟨h, hDu⟩
          · have := hqge u h; omega

/-- the `while` loop keeps the invariant and ends with an empty queue -/
theorem bfs_inv {n : ℕ} {nbr : ℕ → List ℕ} {src : ℕ} (hnbr : ∀ u, ∀ v ∈ nbr u, v < n) (fuel : ℕ) :
    ∀ (L : ℕ) (st st' : BState), Inv n nbr src nbr L st → brandesBfs nbr fuel st = some st' →
      ∃ L', Inv n nbr src nbr L' st' ∧ st'.queue = [] := by
  induction fuel with
  | zero =>
    intro L st st' hI h
    unfold brandesBfs at h
    split at h
    · rename_i he
      cases h
      exact ⟨L, hI, List.isEmpty_iff.mp he⟩
    · cases h
  | succ f ih =>
    intro L st st' hI h
    unfold brandesBfs at h
    split at h
    · rename_i he
      cases h
      exact ⟨L, hI, he⟩
    · rename_i i rest he
      obtain ⟨hI1, hcast⟩ := hI.pop he
      have hscan := Inv.scan hnbr (nbr i) [] (by simp) hI1 (by simp) hcast
      exact ih _ _ _ hscan h

/-- the state `Betweenness.fit` starts the BFS of `source` from -/
def initState (n src : ℕ) : BState :=
  { sigma := tab n fun v => if v = src then 1 else 0, dists := tab n fun v => if v = src then 0 else -1,
    preds := tab n fun _ => [], queue := [src], seen := [] }

theorem init_inv {n : ℕ} (nbr : ℕ → List ℕ) {src : ℕ} (hsrc : src < n) : Inv n nbr src nbr 0 (initState n src) := by
  have hD : ∀ v, D (initState n src) v = if v < n then (if v = src then 0 else -1) else -1 := by
    intro v; unfold D initState; rw [tab_getD]
  have hS : ∀ v, S (initState n src) v = if v < n then (if v = src then 1 else 0) else 0 := by
    intro v; unfold S initState; rw [tab_getD]
  have hDsrc : D (initState n src) src = 0 := by rw [hD, if_pos hsrc, if_pos rfl]
  refine
    { lenD := by simp [initState], lenS := by simp [initState]
      qlt := by intro q hq; simp [initState] at hq; rw [hq]; exact hsrc
      slt := by intro u hu; simp [initState] at hu
      disc := ?_, dist_ok := ?_, qlev := ?_
      sorted := by simp [initState]
      qnodup := by simp [initState]
      qs_disj := by intro q _; simp [initState]
      snodup := by simp [initState]
      seen_le := by intro u hu; simp [initState] at hu
      closed := by intro u hu; simp [initState] at hu
      compl := ?_, undisc := ?_, sigma_ok := ?_
      final := by intro u hu; simp [initState] at hu
      src_disc := by rw [hDsrc] }
  · intro v hv
    rw [hD, if_pos hv]
    by_cases h : v = src
    · simp [h, initState]
    · simp [h, initState]
  · intro v hv hv0
    rw [hD, if_pos hv] at hv0 ⊢
    by_cases h : v = src
    · rw [if_pos h]; exact isDist_zero.mpr h
    · rw [if_neg h] at hv0; omega
  · intro q hq
    simp [initState] at hq
    rw [hq, hDsrc]; simp
  · intro v hv d hd hp
    have : d = 0 := by omega
    subst this
    have : v = src := by
      by_contra hne; simp [paths, hne] at hp
    rw [this, hDsrc]
  · intro v hv hneg
    rw [hD, if_pos hv] at hneg
    rw [hS, if_pos hv]
    by_cases h : v = src
    · rw [if_pos h] at hneg; omega
    · rw [if_neg h]
  · intro v hv hv0
    rw [hD, if_pos hv] at hv0
    have h : v = src := by
      by_contra hne; rw [if_neg hne] at hv0; omega
    rw [hS, if_pos hv, if_pos h]
    have : sigSum n nbr src nbr (initState n src) v = 0 := by
      unfold sigSum
      apply sum_eq_zero; intro u _
      simp [initState]
    rw [this]

/-- ★ `brandes_sigma` : when the BFS phase of `Betweenness.fit` for the source `src` ends, `dists[v]` is the hop distance
    of `v` (`-1` exactly for the unreachable nodes) and `sigma[v]` is the number of shortest paths from `src` to `v`
    along the stored neighbours -/
theorem brandes_sigma {n : ℕ} {nbr : ℕ → List ℕ} {src : ℕ} (hnbr : ∀ u, ∀ v ∈ nbr u, v < n) (hsrc : src < n)
    (fuel : ℕ) (st : BState) (h : brandesBfs nbr fuel (initState n src) = some st) :
    ∀ v, v < n →
      (D st v < 0 ∧ ∀ d, paths n nbr src d v = 0) ∨
      (0 ≤ D st v ∧ IsDist n nbr src v (D st v).toNat ∧ S st v = paths n nbr src (D st v).toNat v) := by
  obtain ⟨L, hI, hq⟩ := bfs_inv hnbr fuel 0 _ st (init_inv nbr hsrc) h
  have hreach : ∀ d v, v < n → 0 < paths n nbr src d v → 0 ≤ D st v := by
    intro d
    induction d with
    | zero =>
      intro v _ hp
      have : v = src := by
        by_contra hne; simp [paths, hne] at hp
      rw [this]; exact hI.src_disc
    | succ d ih =>
      intro v _ hp
      obtain ⟨u, hu, hvu, hpu⟩ := paths_succ_pos.mp hp
      have hu0 := ih u hu hpu
      rcases (hI.disc u hu).mp hu0 with hs | hs
      · exact hI.closed u hs v hvu
      · rw [hq] at hs; simp at hs
  intro v hv
  by_cases h0 : 0 ≤ D st v
  · right
    refine ⟨h0, hI.dist_ok v hv h0, ?_⟩
    rcases (hI.disc v hv).mp h0 with hs | hs
    · exact hI.final v hs
    · rw [hq] at hs; simp at hs
  · left
    refine ⟨not_le.mp h0, fun d => ?_⟩
    by_contra hne
    exact h0 (hreach d v hv (Nat.pos_of_ne_zero hne))

/-- the scan does not touch the stack of processed nodes -/
theorem scan_seen (i : ℕ) (l : List ℕ) (st : BState) : (l.foldl (brandesStep i) st).seen = st.seen := by
  induction l generalizing st with
  | nil => rfl
  | cons j t ih =>
    rw [List.foldl_cons, ih]
    unfold brandesStep
    simp only
    split <;> split <;> rfl

/-- ★ the fuel `n + 1` given to the `while` loop suffices: every pass pushes a new node on the stack of processed
    nodes, which holds distinct nodes `< n` -/
theorem bfs_fuel {n : ℕ} {nbr : ℕ → List ℕ} {src : ℕ} (hnbr : ∀ u, ∀ v ∈ nbr u, v < n) (fuel : ℕ) :
    ∀ (L : ℕ) (st : BState), Inv n nbr src nbr L st → n + 1 ≤ fuel + st.seen.length →
      ∃ st', brandesBfs nbr fuel st = some st' := by
  induction fuel with
  | zero =>
    intro L st hI hlen
    exfalso
    have hsub : st.seen ⊆ List.range n := fun u hu => List.mem_range.mpr (hI.slt u hu)
    have := (hI.snodup.subperm hsub).length_le
    rw [List.length_range] at this
    omega
  | succ f ih =>
    intro L st hI hlen
    unfold brandesBfs
    split
    · exact ⟨st, rfl⟩
    · rename_i i rest he
      obtain ⟨hI1, hcast⟩ := hI.pop he
      have hscan := Inv.scan hnbr (nbr i) [] (by simp) hI1 (by simp) hcast
      apply ih _ _ hscan
      show n + 1 ≤ f + ((nbr i).foldl (brandesStep i) _).seen.length
      rw [scan_seen]
      simp only [List.length_cons]
      omega

theorem brandes_bfs_total {n : ℕ} {nbr : ℕ → List ℕ} {src : ℕ} (hnbr : ∀ u, ∀ v ∈ nbr u, v < n) (hsrc : src < n) :
    ∃ st, brandesBfs nbr (n + 1) (initState n src) = some st :=
  bfs_fuel hnbr (n + 1) 0 _ (init_inv nbr hsrc) (by simp [initState])

theorem map_range_sum_nat (n : ℕ) (f : ℕ → ℕ) : ((List.range n).map f).sum = ∑ u ∈ range n, f u := by
  induction n with
  | zero => simp
  | succ k ihk => rw [List.range_succ, List.map_append, List.sum_append, ihk, sum_range_succ]; simp

/-- without duplicate stored neighbours `paths` is the walk count of the specification -/
theorem paths_eq_walkCount {n : ℕ} {nbr : ℕ → List ℕ} (src : ℕ) (hnd : ∀ u, (nbr u).Nodup) (d v : ℕ) :
    paths n nbr src d v = SkNet.RankSpec.walkCount n (fun u w => decide (w ∈ nbr u)) d src v := by
  induction d generalizing v with
  | zero =>
    simp only [paths, SkNet.RankSpec.walkCount]
    by_cases h : v = src
    · simp [h]
    · have : ¬ src = v := fun e => h e.symm
      simp [h, this]
  | succ d ih =>
    show ∑ u ∈ range n, (nbr u).count v * paths n nbr src d u = _
    unfold SkNet.RankSpec.walkCount
    rw [map_range_sum_nat]
    apply sum_congr rfl; intro u _
    rw [ih u]
    by_cases h : v ∈ nbr u
    · rw [List.count_eq_one_of_mem (hnd u) h]; simp [h]
    · rw [List.count_eq_zero_of_not_mem h]; simp [h]

/-! ### predecessor lists and the stack order (needed by the accumulation phase) -/

/-- `preds[w]` -/
def Pr (st : BState) (w : ℕ) : List ℕ := st.preds.getD w []

theorem step_preds (i : ℕ) (st : BState) (j : ℕ) (hjD : j < st.dists.length) (hjP : j < st.preds.length) :
    (brandesStep i st j).preds.length = st.preds.length ∧
    ((D st j < 0 ∨ D st j = D st i + 1) → ∀ w, Pr (brandesStep i st j) w = if j = w then Pr st w ++ [i] else Pr st w) ∧
    (¬ D st j < 0 → D st j ≠ D st i + 1 → brandesStep i st j = st) := by
  refine ⟨?_, ?_, fun h1 h2 => step_other i st j h1 h2⟩
  · by_cases hnew : D st j < 0
    · rw [step_eq_new i st j hjD hnew]; simp
    · by_cases hc : D st j = D st i + 1
      · have hc' : (st.dists.getD j (-1) == st.dists.getD i (-1) + 1) = true := by rw [beq_iff_eq]; exact hc
        rw [step_eq_child i st j hnew hc']; simp
      · rw [step_other i st j hnew hc]
  · intro h w
    by_cases hnew : D st j < 0
    · rw [step_eq_new i st j hjD hnew]
      exact getD_modify _ _ _ _ _ hjP
    · have hc : D st j = D st i + 1 := by
        rcases h with h | h
        · exact absurd h hnew
        · exact h
      have hc' : (st.dists.getD j (-1) == st.dists.getD i (-1) + 1) = true := by rw [beq_iff_eq]; exact hc
      rw [step_eq_child i st j hnew hc']
      exact getD_modify _ _ _ _ _ hjP

/-- invariant on the predecessor lists and on the order of the stack -/
structure PInv (n : ℕ) (eff : ℕ → List ℕ) (st : BState) : Prop where
  lenP : st.preds.length = n
  preds_ok : ∀ w, w < n → ∀ u, (Pr st w).count u
      = if u ∈ st.seen ∧ D st u + 1 = D st w then (eff u).count w else 0
  ssorted : st.seen.Pairwise (fun a b => D st b ≤ D st a)

theorem PInv.step {n : ℕ} {nbr : ℕ → List ℕ} {src : ℕ} {i : ℕ} {pre : List ℕ} {L : ℕ} {st : BState}
    (hI : Inv n nbr src (Function.update nbr i pre) L st) (hP : PInv n (Function.update nbr i pre) st)
    (hi : i ∈ st.seen) (hiL : D st i = L) {j : ℕ} (hj : j < n) :
    PInv n (Function.update nbr i (pre ++ [j])) (brandesStep i st j) := by
  have hjD : j < st.dists.length := by rw [hI.lenD]; exact hj
  have hjS : j < st.sigma.length := by rw [hI.lenS]; exact hj
  have hjP : j < st.preds.length := by rw [hP.lenP]; exact hj
  have heff : ∀ u, Function.update nbr i (pre ++ [j]) u = if u = i then pre ++ [j] else nbr u :=
    fun u => update_apply' nbr i _ u
  have heff0 : ∀ u, Function.update nbr i pre u = if u = i then pre else nbr u := fun u => update_apply' nbr i _ u
  obtain ⟨hlen, hpr, hoth⟩ := step_preds i st j hjD hjP
  by_cases hnew : D st j < 0
  · obtain ⟨hD, _, hs, _, _, _⟩ := step_new i st j hjD hjS hnew
    have hjseen : j ∉ st.seen := fun h => by
      have := (hI.disc j hj).mpr (Or.inl h); omega
    have hDne : ∀ v, v ≠ j → D (brandesStep i st j) v = D st v := fun v hv => by
      rw [hD v, if_neg (Ne.symm hv)]
    have hDj : D (brandesStep i st j) j = L + 1 := by rw [hD j, if_pos rfl, hiL]
    have hDseen : ∀ u ∈ st.seen, D (brandesStep i st j) u = D st u := fun u hu =>
      hDne u (fun h => hjseen (h ▸ hu))
    have hjpre : j ∉ pre := fun h => by
      have := hI.closed i hi j (by rw [heff0, if_pos rfl]; exact h); omega
    refine ⟨by rw [hlen]; exact hP.lenP, ?_, ?_⟩
    · intro w hw u
      rw [hpr (Or.inl hnew) w, hs]
      by_cases hjw : j = w
      · subst hjw
        rw [if_pos rfl, List.count_append, hP.preds_ok j hj u]
        have hold : ¬ (u ∈ st.seen ∧ D st u + 1 = D st j) := fun h => by
          have := (hI.disc u (hI.slt u h.1)).mpr (Or.inl h.1); omega
        rw [if_neg hold, zero_add, List.count_singleton]
        by_cases hui : u = i
        · subst hui
          have hc : u ∈ st.seen ∧ D (brandesStep u st j) u + 1 = D (brandesStep u st j) j := by
            rw [hDseen u hi, hDj, hiL]; exact ⟨hi, rfl⟩
          rw [if_pos hc, heff, if_pos rfl, count_snoc, if_pos rfl, List.count_eq_zero_of_not_mem hjpre]
          simp
        · have hne : (i == u) = false := by simpa using (Ne.symm hui)
          rw [hne]
          simp only [Bool.false_eq_true, if_false]
          by_cases hc : u ∈ st.seen ∧ D (brandesStep i st j) u + 1 = D (brandesStep i st j) j
          · rw [if_pos hc, heff, if_neg hui]
            have : j ∉ nbr u := fun h => by
              have := hI.closed u hc.1 j (by rw [heff0, if_neg hui]; exact h); omega
            rw [List.count_eq_zero_of_not_mem this]
          · rw [if_neg hc]
      · rw [if_neg hjw, hP.preds_ok w hw u, hDne w (Ne.symm hjw)]
        by_cases hu : u ∈ st.seen
        · rw [hDseen u hu, heff, heff0]
          by_cases hui : u = i
          · simp only [hui, if_true, count_snoc, if_neg hjw, add_zero]
          · simp only [hui, if_false]
        · simp [hu]
    · rw [hs]
      exact hP.ssorted.imp_of_mem fun {a b} ha hb hab => by rw [hDseen a ha, hDseen b hb]; exact hab
  · by_cases hchild : D st j = D st i + 1
    · obtain ⟨hD, _, hs, _, _, _⟩ := step_child i st j hjS hnew hchild
      refine ⟨by rw [hlen]; exact hP.lenP, ?_, ?_⟩
      · intro w hw u
        rw [hpr (Or.inr hchild) w, hs, hD, hD]
        by_cases hjw : j = w
        · subst hjw
          rw [if_pos rfl, List.count_append, hP.preds_ok j hj u, List.count_singleton, heff, heff0]
          by_cases hui : u = i
          · subst hui
            have hc : u ∈ st.seen ∧ D st u + 1 = D st j := ⟨hi, hchild.symm⟩
            simp only [hc, and_self, if_true, count_snoc, beq_self_eq_true]
          · have hne : (i == u) = false := by simpa using (Ne.symm hui)
            simp only [hui, if_false, hne]
            rfl
        · rw [if_neg hjw, hP.preds_ok w hw u, heff, heff0]
          by_cases hui : u = i
          · simp only [hui, if_true, count_snoc, if_neg hjw, add_zero]
          · simp only [hui, if_false]
      · rw [hs]
        exact hP.ssorted.imp fun {a b} hab => by rw [hD, hD]; exact hab
    · rw [hoth hnew hchild]
      refine ⟨hP.lenP, ?_, hP.ssorted⟩
      intro w hw u
      rw [hP.preds_ok w hw u, heff, heff0]
      by_cases hui : u = i
      · subst hui
        simp only [if_true, count_snoc]
        by_cases hjw : j = w
        · subst hjw
          have : ¬ (u ∈ st.seen ∧ D st u + 1 = D st j) := fun h => hchild h.2.symm
          rw [if_neg this, if_neg this]
        · rw [if_neg hjw, add_zero]
      · simp only [hui, if_false]

theorem PInv.scan {n : ℕ} {nbr : ℕ → List ℕ} {src : ℕ} (hnbr : ∀ u, ∀ v ∈ nbr u, v < n) {i : ℕ} {L : ℕ}
    (rest pre : List ℕ) (hsplit : pre ++ rest = nbr i) {st : BState}
    (hI : Inv n nbr src (Function.update nbr i pre) L st) (hP : PInv n (Function.update nbr i pre) st)
    (hi : i ∈ st.seen) (hiL : D st i = L) :
    PInv n nbr (rest.foldl (brandesStep i) st) := by
  induction rest generalizing pre st with
  | nil =>
    rw [List.append_nil] at hsplit
    rw [hsplit, Function.update_eq_self] at hP
    exact hP
  | cons j t ih =>
    rw [List.foldl_cons]
    have hjn : j ∈ nbr i := by rw [← hsplit]; simp
    have hj : j < n := hnbr i j hjn
    have hk := step_keeps i st j (by rw [hI.lenD]; exact hj) (by rw [hI.lenS]; exact hj)
      (by rw [hiL]; exact Int.natCast_nonneg L)
    exact ih (pre ++ [j]) (by rw [List.append_assoc]; exact hsplit) (hI.step hi hiL hj hjn)
      (hP.step hI hi hiL hj) (by rw [hk.1]; exact hi) (by rw [hk.2]; exact hiL)

theorem PInv.pop {n : ℕ} {nbr : ℕ → List ℕ} {src : ℕ} {L : ℕ} {st : BState} (hI : Inv n nbr src nbr L st)
    (hP : PInv n nbr st) {i : ℕ} {rest : List ℕ} (hq : st.queue = i :: rest) :
    PInv n (Function.update nbr i []) { st with queue := rest, seen := i :: st.seen } := by
  have hiq : i ∈ st.queue := by rw [hq]; simp
  have hiseen : i ∉ st.seen := hI.qs_disj i hiq
  have hlev := hI.qlev i hiq
  refine ⟨hP.lenP, ?_, ?_⟩
  · intro w hw u
    show (Pr st w).count u = if u ∈ i :: st.seen ∧ D st u + 1 = D st w then (Function.update nbr i [] u).count w else 0
    rw [hP.preds_ok w hw u, update_apply']
    by_cases hui : u = i
    · subst hui
      have : ¬ (u ∈ st.seen ∧ D st u + 1 = D st w) := fun h => hiseen h.1
      rw [if_neg this]; simp
    · have : (u ∈ i :: st.seen ∧ D st u + 1 = D st w) ↔ (u ∈ st.seen ∧ D st u + 1 = D st w) := by
        rw [List.mem_cons]
        constructor
        · rintro ⟨h | h, h2⟩
          · exact absurd h hui
          · exact ⟨h, h2⟩
        · rintro ⟨h, h2⟩; exact ⟨Or.inr h, h2⟩
      simp only [this, hui, if_false]
  · show (i :: st.seen).Pairwise (fun a b => D st b ≤ D st a)
    rw [List.pairwise_cons]
    refine ⟨fun b hb => ?_, hP.ssorted⟩
    have := hI.seen_le b hb
    omega

/-- both invariants through the `while` loop -/
theorem bfs_inv' {n : ℕ} {nbr : ℕ → List ℕ} {src : ℕ} (hnbr : ∀ u, ∀ v ∈ nbr u, v < n) (fuel : ℕ) :
    ∀ (L : ℕ) (st st' : BState), Inv n nbr src nbr L st → PInv n nbr st → brandesBfs nbr fuel st = some st' →
      ∃ L', Inv n nbr src nbr L' st' ∧ PInv n nbr st' ∧ st'.queue = [] := by
  induction fuel with
  | zero =>
    intro L st st' hI hP h
    unfold brandesBfs at h
    split at h
    · rename_i he
      cases h
      exact ⟨L, hI, hP, List.isEmpty_iff.mp he⟩
    · cases h
  | succ f ih =>
    intro L st st' hI hP h
    unfold brandesBfs at h
    split at h
    · rename_i he
      cases h
      exact ⟨L, hI, hP, he⟩
    · rename_i i rest he
      obtain ⟨hI1, hcast⟩ := hI.pop he
      have hP1 := hP.pop hI he
      have hscan := Inv.scan hnbr (nbr i) [] (by simp) hI1 (by simp) hcast
      have hpscan := PInv.scan hnbr (nbr i) [] (by simp) hI1 hP1 (by simp) hcast
      exact ih _ _ _ hscan hpscan h

theorem init_pinv (n : ℕ) (nbr : ℕ → List ℕ) (src : ℕ) : PInv n nbr (initState n src) := by
  refine ⟨by simp [initState], ?_, by simp [initState]⟩
  intro w hw u
  have : Pr (initState n src) w = [] := by
    unfold Pr initState; rw [tab_getD]; simp
  rw [this]
  simp [initState]

end SkNet.Rank.Brandes
