/- `get_dendrogram`: heights are `-depth`, so they never decrease from a merge to its parent; the height shift
   keeps validity and monotonicity. -/
import SkNet.Lemmas.GetDendro
import SkNet.Lemmas.CutExact
import Mathlib.Order.Defs.LinearOrder
import Mathlib.Algebra.Order.Ring.Int

set_option linter.unusedSimpArgs false

namespace SkNet.Hier
open SkNet SkNet.Dendro SkNet.Cut

/-- the heights side of the state of `get_dendrogram` -/
structure HInv (n : Nat) (st : GState) : Prop where
  index : st.index + 1 = n + st.rows.length
  mono : MonoRows n st.rows st.rows

/-- node `k` is a leaf, or a merge written at depth `≥ d` -/
def RootH (n : Nat) (st : GState) (d : Nat) (k : Nat) : Prop :=
  k < n ∨ ∃ r, st.rows[k - n]? = some r ∧ r.h ≤ -(d : Int)

theorem rootH_mono_depth {n : Nat} {st : GState} {d d' k : Nat} (h : RootH n st d' k) (hd : d ≤ d') :
    RootH n st d k := by
  rcases h with h | ⟨r, hr, hh⟩
  · exact Or.inl h
  · exact Or.inr ⟨r, hr, by omega⟩

/-- pushing a row keeps what is known of the older nodes -/
theorem rootH_push {n : Nat} {st : GState} {d k : Nat} (r : Row Int) (h : RootH n st d k) :
    RootH n { st with rows := st.rows ++ [r], index := st.index + 1 } d k := by
  rcases h with h | ⟨rk, hrk, hh⟩
  · exact Or.inl h
  · refine Or.inr ⟨rk, ?_, hh⟩
    have := (List.getElem?_eq_some_iff.mp hrk).1
    show (st.rows ++ [r])[k - n]? = some rk
    rw [List.getElem?_append_left this]; exact hrk

theorem hinv_push {n : Nat} {st : GState} (h : HInv n st) (d : Nat) (r : Row Int) (hr : r.h = -(d : Int))
    (hi : RootH n st d r.i) (hj : RootH n st d r.j) :
    HInv n { st with rows := st.rows ++ [r], index := st.index + 1 } ∧
      RootH n { st with rows := st.rows ++ [r], index := st.index + 1 } d (st.index + 1) := by
  have hidx := h.index
  refine ⟨⟨?_, ?_⟩, ?_⟩
  · simp only [List.length_append, List.length_cons, List.length_nil]; omega
  · intro r' hr' c hc hcn
    show ∃ rc, (st.rows ++ [r])[c - n]? = some rc ∧ ¬ r'.h < rc.h
    rcases List.mem_append.mp hr' with hm | hm
    · obtain ⟨rc, hrc, hle⟩ := h.mono r' hm c hc hcn
      have := (List.getElem?_eq_some_iff.mp hrc).1
      exact ⟨rc, by rw [List.getElem?_append_left this]; exact hrc, hle⟩
    · simp only [List.mem_cons, List.not_mem_nil, or_false] at hm
      subst hm
      have hroot : RootH n st d c := by rcases hc with e | e <;> (subst e; assumption)
      rcases hroot with hlt | ⟨rc, hrc, hh⟩
      · omega
      · have := (List.getElem?_eq_some_iff.mp hrc).1
        exact ⟨rc, by rw [List.getElem?_append_left this]; exact hrc, by rw [hr]; omega⟩
  · refine Or.inr ⟨r, ?_, by rw [hr]⟩
    show (st.rows ++ [r])[st.index + 1 - n]? = some r
    have : st.index + 1 - n = st.rows.length := by omega
    rw [this, List.getElem?_append_right (Nat.le_refl _)]; simp

theorem mergeRest_h (n depth : Nat) : ∀ (rest : List Nat) (s : Nat) (st : GState),
    HInv n st → RootH n st depth st.index → (∀ k ∈ rest, RootH n st depth k) →
    HInv n (mergeRest depth rest s st).2 ∧
      RootH n (mergeRest depth rest s st).2 depth (mergeRest depth rest s st).2.index ∧
      (∀ d k, RootH n st d k → RootH n (mergeRest depth rest s st).2 d k) := by
  intro rest
  induction rest with
  | nil => intro s st h hacc _; exact ⟨h, hacc, fun _ _ hk => hk⟩
  | cons k rest ih =>
    intro s st h hacc hk
    let r : Row Int := { i := st.index, j := k, h := -(depth : Int), s := s + sizeOf' st.size k }
    obtain ⟨h1, hnew⟩ := hinv_push h depth r rfl hacc (hk k List.mem_cons_self)
    obtain ⟨g1, g2, g3⟩ := ih (s + sizeOf' st.size k)
      { st with rows := st.rows ++ [r], index := st.index + 1 } h1 hnew
      (fun k' hk' => rootH_push r (hk k' (List.mem_cons_of_mem _ hk')))
    exact ⟨g1, g2, fun d k' hk' => g3 d k' (rootH_push r hk')⟩

theorem mergeAll_h (n depth : Nat) (roots : List Nat) (st : GState) {root : Nat} {st' : GState}
    (h : HInv n st) (hr : ∀ k ∈ roots, RootH n st depth k) (he : mergeAll depth roots st = .ok (root, st')) :
    HInv n st' ∧ RootH n st' depth root ∧ (∀ d k, RootH n st d k → RootH n st' d k) := by
  unfold mergeAll at he
  split at he
  · rename_i i j rest hrr
    have hmem : ∀ x, x ∈ roots ↔ x = i ∨ x = j ∨ x ∈ rest := by
      intro x; rw [← List.mem_reverse, hrr]; simp
    let r : Row Int := { i := i, j := j, h := -(depth : Int), s := sizeOf' st.size i + sizeOf' st.size j }
    obtain ⟨h1, hnew⟩ := hinv_push h depth r rfl (hr i ((hmem i).mpr (Or.inl rfl)))
      (hr j ((hmem j).mpr (Or.inr (Or.inl rfl))))
    obtain ⟨g1, g2, g3⟩ := mergeRest_h n depth rest (sizeOf' st.size i + sizeOf' st.size j)
      { st with rows := st.rows ++ [r], index := st.index + 1 } h1 hnew
      (fun k' hk' => rootH_push r (hr k' ((hmem k').mpr (Or.inr (Or.inr hk')))))
    simp only at he
    generalize hmr : mergeRest depth rest (sizeOf' st.size i + sizeOf' st.size j)
      { st with rows := st.rows ++ [r], index := st.index + 1 } = res at *
    obtain ⟨s', st2⟩ := res
    simp only [Except.ok.injEq, Prod.mk.injEq] at he
    obtain ⟨he1, he2⟩ := he
    subst he1 he2
    exact ⟨⟨g1.index, g1.mono⟩, g2, fun d k hk => g3 d k (rootH_push r hk)⟩
  · cases he

def SpecTreeH (n : Nat) (t : Tree) : Prop :=
  ∀ (depth : Nat) (st : GState) (root : Nat) (st' : GState), HInv n st → (∀ x ∈ tleaves t, x < n) →
    procTree depth t st = .ok (root, st') →
    HInv n st' ∧ RootH n st' depth root ∧ (∀ d k, RootH n st d k → RootH n st' d k)

def SpecChildrenH (n : Nat) (ts : List Tree) : Prop :=
  ∀ (depth : Nat) (st : GState) (roots : List Nat) (st' : GState), HInv n st → (∀ x ∈ tleavesL ts, x < n) →
    procChildren depth ts st = .ok (roots, st') →
    HInv n st' ∧ (∀ k ∈ roots, RootH n st' depth k) ∧ (∀ d k, RootH n st d k → RootH n st' d k)

theorem specTreeH_all (n : Nat) (t : Tree) : SpecTreeH n t := by
  refine Tree.rec (motive_1 := SpecTreeH n) (motive_2 := SpecChildrenH n) ?_ ?_ ?_ ?_ t
  · intro k depth st root st' h hl he
    simp only [procTree, Except.ok.injEq, Prod.mk.injEq] at he
    obtain ⟨rfl, rfl⟩ := he
    exact ⟨h, Or.inl (hl k (by simp [tleaves])), fun _ _ hk => hk⟩
  · intro ts ih depth st root st' h hl he
    simp only [procTree] at he
    obtain ⟨⟨roots, st1⟩, e1, e2⟩ := bind_ok he
    obtain ⟨g1, g2, g3⟩ := ih (depth + 1) st roots st1 h (by simpa [tleaves] using hl) e1
    obtain ⟨f1, f2, f3⟩ := mergeAll_h n depth roots st1 g1
      (fun k hk => rootH_mono_depth (g2 k hk) (Nat.le_succ _)) e2
    exact ⟨f1, f2, fun d k hk => f3 d k (g3 d k hk)⟩
  · intro depth st roots st' h _ he
    simp only [procChildren, Except.ok.injEq, Prod.mk.injEq] at he
    obtain ⟨rfl, rfl⟩ := he
    exact ⟨h, by simp, fun _ _ hk => hk⟩
  · intro t ts iht ihts depth st roots st' h hl he
    simp only [procChildren] at he
    obtain ⟨⟨k, st1⟩, e1, he⟩ := bind_ok he
    obtain ⟨⟨ks, st2⟩, e2, he⟩ := bind_ok he
    simp only [Except.ok.injEq, Prod.mk.injEq] at he
    obtain ⟨rfl, rfl⟩ := he
    simp only [tleavesL, List.mem_append] at hl
    obtain ⟨g1, g2, g3⟩ := iht depth st k st1 h (fun x hx => hl x (Or.inl hx)) e1
    obtain ⟨f1, f2, f3⟩ := ihts depth st1 ks st2 g1 (fun x hx => hl x (Or.inr hx)) e2
    refine ⟨f1, ?_, fun d k' hk' => f3 d k' (g3 d k' hk')⟩
    intro k' hk'
    rcases List.mem_cons.mp hk' with e | e
    · subst e; exact f3 depth _ g2
    · exact f2 k' e

/-- `MonoRows` for all rows gives the executable `MonoPaths` -/
theorem monoPaths_of_monoRows {n : Nat} {D : Dendro Int} (h : MonoRows n D D) : MonoPaths n D = true := by
  unfold MonoPaths
  rw [List.all_eq_true]
  intro r hr
  simp only [Bool.and_eq_true]
  constructor
  · by_cases hi : r.i < n
    · simp [hi]
    · obtain ⟨rc, hrc, hle⟩ := h r hr r.i (Or.inl rfl) (by omega)
      simp [hi, hrc, hle]
  · by_cases hj : r.j < n
    · simp [hj]
    · obtain ⟨rc, hrc, hle⟩ := h r hr r.j (Or.inr rfl) (by omega)
      simp [hj, hrc, hle]

/-- the rows of `get_dendrogram` never decrease towards the root -/
theorem getDendrogram_mono {ts : List Tree} {n : Nat} {rows : List (Row Int)}
    (hidx : getIndex (.node ts) + 1 = n) (hl : ∀ x ∈ tleaves (.node ts), x < n)
    (h : getDendrogram (.node ts) = .ok rows) : MonoPaths n rows = true := by
  unfold getDendrogram at h
  simp only at h
  split at h
  · cases hp : procTree 0 (.node ts) { rows := [], index := getIndex (.node ts), size := [] } with
    | error e => rw [hp] at h; cases h
    | ok res =>
      obtain ⟨root, st'⟩ := res
      rw [hp] at h
      simp only [Except.map, Except.ok.injEq] at h
      subst h
      have h0 : HInv n { rows := [], index := getIndex (.node ts), size := [] } :=
        ⟨by simpa using hidx, by intro r hr; simp at hr⟩
      exact monoPaths_of_monoRows (specTreeH_all n (.node ts) 0 _ root st' h0 hl hp).1.mono
  · simp only [Except.ok.injEq] at h; subst h; rfl

/-! ### the height shift -/

theorem validLoop_map_h {α β : Type} (f : Row α → Row β) (hf : ∀ r, (f r).i = r.i ∧ (f r).j = r.j ∧ (f r).s = r.s)
    (n : Nat) : ∀ (rs : List (Row α)) (t : Nat) (live : Dict Nat),
    validLoop n t (rs.map f) live = validLoop n t rs live := by
  intro rs
  induction rs with
  | nil => intro t live; rfl
  | cons r rs ih =>
    intro t live
    simp only [List.map_cons, validLoop, (hf r).1, (hf r).2.1, (hf r).2.2]
    cases live.get? r.i <;> cases live.get? r.j <;> simp [ih]

theorem shiftHeights_spec {n : Nat} {D D' : List (Row Int)} (h : shiftHeights D = .ok D')
    (hv : ValidDendro n D = true) (hm : MonoPaths n D = true) :
    ValidDendro n D' = true ∧ MonoPaths n D' = true := by
  unfold shiftHeights at h
  split at h
  · cases h
  · rename_i r rs
    simp only [Except.ok.injEq] at h
    subst h
    generalize (1 - List.foldl (fun m x => if x.h < m then x.h else m) r.h rs) = c
    constructor
    · unfold ValidDendro ValidDendroW at hv ⊢
      simp only [List.length_map, Bool.and_eq_true] at hv ⊢
      refine ⟨hv.1, ?_⟩
      rw [validLoop_map_h (fun (x : Row Int) => ({ i := x.i, j := x.j, h := x.h + c, s := x.s } : Row Int))
        (fun _ => ⟨rfl, rfl, rfl⟩)]
      exact hv.2
    · have hr := monoRows_of_monoPaths hm
      apply monoPaths_of_monoRows
      intro r' hr' cc hcc hn
      obtain ⟨r0, hr0, rfl⟩ := List.mem_map.mp hr'
      obtain ⟨rc, hrc, hle⟩ := hr r0 hr0 cc hcc hn
      refine ⟨{ rc with h := rc.h + c }, ?_, ?_⟩
      · rw [List.getElem?_map, hrc]; rfl
      · show ¬ (r0.h + c < rc.h + c)
        omega

end SkNet.Hier
