/-
C02: the Weisfeiler-Lehman kernel is equivariant at the level of colour *numbers* (not only of the
partition): renumbering the nodes renumbers the colours, round by round. Core Lean only.
Idea: the sorted sequence of (colour, hash) keys of a graph and of its renumbered copy are the same list,
the colours handed out along the sorted list depend on the keys alone, and triples with equal keys get
equal colours.
-/
import SkNet.Lemmas.WL

namespace SkNet.WL

attribute [-simp] List.getD_eq_getElem?_getD

variable {H : Type} {ops : HashOps H}

/-! ### permutations of `range n` -/

/-- `π` and `πinv` are inverse bijections of `{0..n-1}` -/
structure IsPerm (n : Nat) (π πinv : Nat → Nat) : Prop where
  lt : ∀ i, i < n → π i < n
  lt_inv : ∀ i, i < n → πinv i < n
  left : ∀ i, i < n → πinv (π i) = i
  right : ∀ i, i < n → π (πinv i) = i

theorem nodup_map_on {α β : Type} {f : α → β} : ∀ {l : List α},
    (∀ x ∈ l, ∀ y ∈ l, f x = f y → x = y) → l.Nodup → (l.map f).Nodup
  | [], _, _ => by simp
  | a :: l, h, hd => by
    obtain ⟨ha, hl⟩ := List.nodup_cons.1 hd
    rw [List.map_cons, List.nodup_cons]
    refine ⟨fun hmem => ?_, nodup_map_on (fun x hx y hy => h x (by simp [hx]) y (by simp [hy])) hl⟩
    obtain ⟨b, hb, hfb⟩ := List.mem_map.1 hmem
    have := h b (by simp [hb]) a (by simp) hfb
    exact ha (this ▸ hb)

theorem map_perm_range {n : Nat} {π πinv : Nat → Nat} (hp : IsPerm n π πinv) :
    ((List.range n).map π).Perm (List.range n) := by
  apply (List.perm_ext_iff_of_nodup ?_ List.nodup_range).2
  · intro a
    simp only [List.mem_map, List.mem_range]
    constructor
    · rintro ⟨i, hi, rfl⟩; exact hp.lt i hi
    · intro ha; exact ⟨πinv a, hp.lt_inv a ha, hp.right a ha⟩
  · apply nodup_map_on _ List.nodup_range
    intro x hx y hy hxy
    have hx' := List.mem_range.1 hx
    have hy' := List.mem_range.1 hy
    rw [← hp.left x hx', ← hp.left y hy', hxy]

/-- a function tabulated along a permutation is a permutation of the function tabulated in order -/
theorem tab_perm_of_perm {α : Type} {n : Nat} {π πinv : Nat → Nat} (hp : IsPerm n π πinv) (f f' : Nat → α)
    (hff : ∀ u, u < n → f' (π u) = f u) : (tab n f').Perm (tab n f) := by
  unfold tab
  have h1 : (List.range n).map f = ((List.range n).map π).map f' := by
    rw [List.map_map]
    apply List.map_congr_left
    intro u hu
    exact (hff u (List.mem_range.1 hu)).symm
  rw [h1]
  exact ((map_perm_range hp).map f').symm

/-! ### keys -/

/-- the (colour, hash) key of a triple -/
def key (t : Triple H) : Nat × H := (t.label, t.hash)

/-- a triple standing for a key (node irrelevant) -/
def ofKey (k : Nat × H) : Triple H := ⟨k.1, k.2, 0⟩

theorem keyEq_iff_key (a b : Triple H) : KeyEq a b ↔ key a = key b := by
  unfold KeyEq key
  constructor
  · rintro ⟨h1, h2⟩; rw [h1, h2]
  · intro h; exact ⟨(Prod.mk.inj h).1, (Prod.mk.inj h).2⟩

theorem keyEq_ofKey (t : Triple H) : KeyEq (ofKey (key t)) t := ⟨rfl, rfl⟩

/-- order on keys, through `isLower` -/
def LeK (ops : HashOps H) (a b : Nat × H) : Prop := Le ops (ofKey a) (ofKey b)

theorem leK_key (a b : Triple H) : LeK ops (key a) (key b) ↔ Le ops a b := by
  unfold LeK Le
  rw [isLower_of_keyEq_left _ _ _ (keyEq_ofKey b), isLower_of_keyEq_right _ _ _ (keyEq_ofKey a)]

theorem sorted_keys (l : List (Triple H)) (h : Sorted ops l) : (l.map key).Pairwise (LeK ops) := by
  unfold Sorted at h
  rw [List.pairwise_map]
  exact h.imp (fun {a b} hab => (leK_key a b).2 hab)

theorem leK_antisymm (hx : ExactOps ops) (a b : Nat × H) (h1 : LeK ops a b) (h2 : LeK ops b a) : a = b := by
  have := keyEq_of_le_of_le hx h1 h2
  have e := (keyEq_iff_key _ _).1 this
  simp only [key, ofKey] at e
  exact Prod.ext (Prod.mk.inj e).1 (Prod.mk.inj e).2

/-- two lists of triples whose keys are permutations of each other have the same sorted key sequence -/
theorem sorted_keys_eq (hx : ExactOps ops) (T T' : List (Triple H)) (hp : (T'.map key).Perm (T.map key)) :
    (sortT ops T').map key = (sortT ops T).map key := by
  apply List.Perm.eq_of_pairwise (le := LeK ops) (fun a b _ _ h1 h2 => leK_antisymm hx a b h1 h2)
    (sorted_keys _ (sortT_sorted hx T')) (sorted_keys _ (sortT_sorted hx T))
  exact ((sortT_perm T').map key).trans (hp.trans ((sortT_perm T).map key).symm)

/-! ### the colours depend on the key sequence only -/

def coloursK (ops : HashOps H) : Nat × H → Nat → List (Nat × H) → List Nat
  | _, _, [] => []
  | prev, label, k :: ks =>
    let label' := if ops.apart k.2 prev.2 || k.1 != prev.1 then label + 1 else label
    label' :: coloursK ops k label' ks

theorem colours_eq_coloursK (prev : Triple H) (label : Nat) (ts : List (Triple H)) :
    colours ops prev label ts = coloursK ops (key prev) label (ts.map key) := by
  induction ts generalizing prev label with
  | nil => rfl
  | cons t ts ih => simp [colours, coloursK, key, ih]

def allColoursK (ops : HashOps H) : List (Nat × H) → List Nat
  | [] => []
  | k :: ks => 0 :: coloursK ops k 0 ks

theorem allColours_eq (l : List (Triple H)) : allColours ops l = allColoursK ops (l.map key) := by
  cases l with
  | nil => rfl
  | cons t ts => simp [allColours, allColoursK, colours_eq_coloursK]

/-- in the sorted list, the colour is a function of the key -/
theorem colour_of_key (hx : ExactOps ops) (S : List (Triple H)) (hs : Sorted ops S)
    (k : Nat × H) (c c' : Nat)
    (h1 : (k, c) ∈ (S.map key).zip (allColours ops S)) (h2 : (k, c') ∈ (S.map key).zip (allColours ops S)) :
    c = c' := by
  rw [List.zip_map_left] at h1 h2
  obtain ⟨p, hp, hpe⟩ := List.mem_map.1 h1
  obtain ⟨q, hq, hqe⟩ := List.mem_map.1 h2
  have hk1 : key p.1 = k := (Prod.mk.inj hpe).1
  have hc1 : p.2 = c := (Prod.mk.inj hpe).2
  have hk2 : key q.1 = k := (Prod.mk.inj hqe).1
  have hc2 : q.2 = c' := (Prod.mk.inj hqe).2
  have := (allColours_spec hx S hs p hp q hq).2 ((keyEq_iff_key _ _).2 (hk1.trans hk2.symm))
  rw [← hc1, ← hc2]; exact this

/-! ### the renumbered graph -/

/-- the adjacency lists of the renumbered graph: new node `π u` has the neighbours `π w`, `w ∈ adj u` -/
def relabelAdj (π πinv : Nat → Nat) (adj : List (List Nat)) : List (List Nat) :=
  tab adj.length fun i => (adj.getD (πinv i) []).map π

theorem relabelAdj_length (π πinv : Nat → Nat) (adj : List (List Nat)) :
    (relabelAdj π πinv adj).length = adj.length := by simp [relabelAdj]

theorem nbrs_relabel {n : Nat} {π πinv : Nat → Nat} (hp : IsPerm n π πinv) (adj : List (List Nat))
    (hn : adj.length = n) (u : Nat) (hu : u < n) :
    nbrs (relabelAdj π πinv adj) (π u) = (nbrs adj u).map π := by
  unfold nbrs relabelAdj
  rw [tab_getD]
  simp [hn, hp.lt u hu, hp.left u hu]

theorem wfAdj_relabel {n : Nat} {π πinv : Nat → Nat} (hp : IsPerm n π πinv) (adj : List (List Nat))
    (hn : adj.length = n) (hwf : WFAdj adj) : WFAdj (relabelAdj π πinv adj) := by
  intro u hu w hw
  have hlen : (relabelAdj π πinv adj).length = n := by simp [relabelAdj, hn]
  rw [hlen] at hu ⊢
  have hu' : u = π (πinv u) := (hp.right u hu).symm
  rw [hu', nbrs_relabel hp adj hn (πinv u) (hp.lt_inv u hu)] at hw
  obtain ⟨x, hx, rfl⟩ := List.mem_map.1 hw
  exact hp.lt x (hn ▸ hwf (πinv u) (hn ▸ hp.lt_inv u hu) x hx)

/-- colourings that correspond under the renumbering: `L' (π u) = L u` -/
def Corr (n : Nat) (π : Nat → Nat) (L L' : List Nat) : Prop := ∀ u, u < n → L'.getD (π u) 0 = L.getD u 0

theorem key_trip_relabel {n : Nat} {π πinv : Nat → Nat} (hp : IsPerm n π πinv) (adj : List (List Nat))
    (hn : adj.length = n) (hwf : WFAdj adj) (L L' : List Nat) (hc : Corr n π L L') (u : Nat) (hu : u < n) :
    key (trip ops (relabelAdj π πinv adj) L' (π u)) = key (trip ops adj L u) := by
  unfold key trip
  simp only
  have hnb := nbrs_relabel hp adj hn u hu
  unfold nbrs at hnb
  rw [hnb, hc u hu, List.map_map]
  congr 2
  apply List.map_congr_left
  intro w hw
  exact hc w (hn ▸ hwf u (hn ▸ hu) w hw)

/-- **one round is equivariant, colour numbers included** -/
theorem round_equivariant (hx : ExactOps ops) {n : Nat} {π πinv : Nat → Nat} (hp : IsPerm n π πinv)
    (adj : List (List Nat)) (hn : adj.length = n) (hwf : WFAdj adj) (L L' : List Nat) (hc : Corr n π L L') :
    Corr n π (round ops adj L).1 (round ops (relabelAdj π πinv adj) L').1 := by
  intro u hu
  have hlen' : (relabelAdj π πinv adj).length = n := by rw [relabelAdj_length, hn]
  -- the key sequences of the two sorted lists coincide
  have hperm : ((triples ops (relabelAdj π πinv adj) L').map key).Perm ((triples ops adj L).map key) := by
    rw [triples_eq, triples_eq]
    have e1 : (tab (relabelAdj π πinv adj).length (trip ops (relabelAdj π πinv adj) L')).map key
        = tab n (fun i => key (trip ops (relabelAdj π πinv adj) L' i)) := by
      rw [hlen']; simp [tab, List.map_map, Function.comp_def]
    have e2 : (tab adj.length (trip ops adj L)).map key = tab n (fun i => key (trip ops adj L i)) := by
      rw [hn]; simp [tab, List.map_map, Function.comp_def]
    rw [e1, e2]
    exact tab_perm_of_perm hp _ _ (fun w hw => key_trip_relabel hp adj hn hwf L L' hc w hw)
  have hkeys := sorted_keys_eq hx _ _ hperm
  have hcols : allColours ops (sortT ops (triples ops (relabelAdj π πinv adj) L'))
      = allColours ops (sortT ops (triples ops adj L)) := by
    rw [allColours_eq, allColours_eq, hkeys]
  -- the colour of u in the original sorted list
  have hS := sortT_sorted hx (triples ops adj L)
  have hmem : trip ops adj L u ∈ sortT ops (triples ops adj L) :=
    (mem_sorted_triples adj L _).2 ⟨u, hn ▸ hu, rfl⟩
  obtain ⟨c, hcz⟩ := exists_zip_of_mem (allColours_length _).symm hmem
  have h1 := round_getD adj L u (hn ▸ hu) c hcz
  -- the colour of π u in the renumbered sorted list
  have hπ : π u < (relabelAdj π πinv adj).length := by rw [hlen']; exact hp.lt u hu
  have hmem' : trip ops (relabelAdj π πinv adj) L' (π u) ∈ sortT ops (triples ops (relabelAdj π πinv adj) L') :=
    (mem_sorted_triples _ L' _).2 ⟨π u, hπ, rfl⟩
  obtain ⟨c', hcz'⟩ := exists_zip_of_mem (allColours_length _).symm hmem'
  have h2 := round_getD (relabelAdj π πinv adj) L' (π u) hπ c' hcz'
  rw [h1, h2]
  -- both are colours of the same key in the same (key, colour) sequence
  have k1 : (key (trip ops adj L u), c) ∈
      ((sortT ops (triples ops adj L)).map key).zip (allColours ops (sortT ops (triples ops adj L))) := by
    rw [List.zip_map_left]; exact List.mem_map.2 ⟨_, hcz, rfl⟩
  have k2 : (key (trip ops adj L u), c') ∈
      ((sortT ops (triples ops adj L)).map key).zip (allColours ops (sortT ops (triples ops adj L))) := by
    rw [← hkeys, ← hcols, ← key_trip_relabel hp adj hn hwf L L' hc u hu, List.zip_map_left]
    exact List.mem_map.2 ⟨_, hcz', rfl⟩
  exact colour_of_key hx _ hS _ c' c k2 k1

/-! ### `has_changed` -/

theorem mem_roundAssign (adj : List (List Nat)) (labels : List Nat) (p : Nat × Nat)
    (hp : p ∈ roundAssign ops adj labels) :
    p.1 < adj.length ∧ (round ops adj labels).1.getD p.1 0 = p.2 := by
  rw [roundAssign_eq, List.zip_map_left] at hp
  obtain ⟨q, hq, rfl⟩ := List.mem_map.1 hp
  have hmem : q.1 ∈ sortT ops (triples ops adj labels) := (List.of_mem_zip hq).1
  obtain ⟨i, hi, hqi⟩ := (mem_sorted_triples adj labels q.1).1 hmem
  have hnode : q.1.node = i := by rw [hqi]; rfl
  show q.1.node < adj.length ∧ (round ops adj labels).1.getD q.1.node 0 = q.2
  rw [hnode]
  refine ⟨hi, round_getD adj labels i hi q.2 ?_⟩
  rw [← hqi]; exact hq

/-- under the loop invariant, `has_changed` is false exactly when no node changed its colour -/
theorem changed_false_iff (hx : ExactOps ops) (adj : List (List Nat)) (k : Nat) (labels : List Nat)
    (inv : WLInv adj k labels) :
    (round ops adj labels).2 = false ↔
      ∀ u, u < adj.length → (round ops adj labels).1.getD u 0 = labels.getD u 0 := by
  constructor
  · exact round_unchanged hx adj k labels inv
  · intro h
    show ((roundAssign ops adj labels).drop 1).any (fun p => labels.getD p.1 0 != p.2) = false
    apply List.any_eq_false.2
    intro p hp
    obtain ⟨h1, h2⟩ := mem_roundAssign adj labels p (List.mem_of_mem_drop hp)
    have := h p.1 h1
    rw [h2] at this
    simp [this]

theorem changed_equivariant (hx : ExactOps ops) {n : Nat} {π πinv : Nat → Nat} (hp : IsPerm n π πinv)
    (adj : List (List Nat)) (hn : adj.length = n) (hwf : WFAdj adj) (k : Nat) (L L' : List Nat)
    (inv : WLInv adj k L) (inv' : WLInv (relabelAdj π πinv adj) k L') (hc : Corr n π L L') :
    (round ops (relabelAdj π πinv adj) L').2 = (round ops adj L).2 := by
  have hr := round_equivariant hx hp adj hn hwf L L' hc
  have hlen' : (relabelAdj π πinv adj).length = n := by rw [relabelAdj_length, hn]
  have hiff : (round ops (relabelAdj π πinv adj) L').2 = false ↔ (round ops adj L).2 = false := by
    rw [changed_false_iff hx _ k L' inv', changed_false_iff hx adj k L inv, hlen', hn]
    constructor
    · intro h u hu
      have := h (π u) (hp.lt u hu)
      rw [hr u hu, hc u hu] at this
      exact this
    · intro h v hv
      have := h (πinv v) (hp.lt_inv v hv)
      rw [← hr (πinv v) (hp.lt_inv v hv), ← hc (πinv v) (hp.lt_inv v hv), hp.right v hv] at this
      exact this
  cases h1 : (round ops (relabelAdj π πinv adj) L').2 <;> cases h2 : (round ops adj L).2
  · rfl
  · exact absurd (hiff.1 h1) (by rw [h2]; exact Bool.noConfusion)
  · exact absurd (hiff.2 h2) (by rw [h1]; exact Bool.noConfusion)
  · rfl

/-- **the whole loop is equivariant** (colour numbers and `has_changed`) -/
theorem coloring_equivariant (hx : ExactOps ops) {n : Nat} {π πinv : Nat → Nat} (hp : IsPerm n π πinv)
    (adj : List (List Nat)) (hn : adj.length = n) (hwf : WFAdj adj) :
    ∀ (m k : Nat) (L L' : List Nat) (ch : Bool), WLInv adj k L → WLInv (relabelAdj π πinv adj) k L' →
      Corr n π L L' →
      Corr n π (coloring ops adj m L ch).1 (coloring ops (relabelAdj π πinv adj) m L' ch).1 ∧
      (coloring ops (relabelAdj π πinv adj) m L' ch).2 = (coloring ops adj m L ch).2 ∧
      ∃ k', WLInv adj k' (coloring ops adj m L ch).1 ∧
            WLInv (relabelAdj π πinv adj) k' (coloring ops (relabelAdj π πinv adj) m L' ch).1 := by
  intro m
  induction m with
  | zero => intro k L L' ch inv inv' hc; exact ⟨hc, rfl, k, inv, inv'⟩
  | succ m ih =>
    intro k L L' ch inv inv' hc
    unfold coloring
    cases ch with
    | false => exact ⟨hc, rfl, k, inv, inv'⟩
    | true =>
      simp only [if_true]
      have hwf' := wfAdj_relabel hp adj hn hwf
      have h1 := round_equivariant hx hp adj hn hwf L L' hc
      have h2 := changed_equivariant hx hp adj hn hwf k L L' inv inv' hc
      rw [h2]
      exact ih (k+1) _ _ _ (wlInv_round hx adj hwf k L inv) (wlInv_round hx _ hwf' k L' inv') h1

theorem wlInv_zero (adj : List (List Nat)) : WLInv adj 0 (tab adj.length fun _ => 0) :=
  ⟨fun a b ha hb => by simp [ha, hb, sameClass], by simp, fun hn => ⟨0, hn, by simp [hn]⟩⟩

theorem corr_zero (n : Nat) (π : Nat → Nat) (hlt : ∀ i, i < n → π i < n) :
    Corr n π (tab n fun _ => 0) (tab n fun _ => 0) := by
  intro u hu; simp [hu, hlt u hu]

/-! ### histograms of colours -/

theorem foldl_max_perm {l l' : List Nat} (h : l.Perm l') (a : Nat) : l.foldl max a = l'.foldl max a :=
  h.foldl_eq' (fun x _ y _ z => by simp only [Nat.max_assoc, Nat.max_comm x y]) a

theorem counts_perm {l l' : List Nat} (h : l.Perm l') : counts l = counts l' := by
  unfold counts
  rw [foldl_max_perm h]
  simp only
  congr 1
  apply List.map_congr_left
  intro c _
  exact (h.filter _).length_eq

theorem perm_of_corr {n : Nat} {π πinv : Nat → Nat} (hp : IsPerm n π πinv) (f f' : Nat → Nat)
    (h : ∀ u, u < n → f' (π u) = f u) : (tab n f').Perm (tab n f) :=
  tab_perm_of_perm hp f f' h

end SkNet.WL
