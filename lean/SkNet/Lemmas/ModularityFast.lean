/-
The per-cluster form of the objective (`objectiveFast`) equals the per-pair form of the specification (`objective`).
-/
import Mathlib.Algebra.BigOperators.Group.Finset.Sigma
import SkNet.Lemmas.ModularityPre

namespace SkNet.Modularity
open Finset

/-- `Σ_{i,j} [c i = c j] x_i y_j = Σ_k (Σ_{i∈k} x_i)(Σ_{j∈k} y_j)` for labels below `K` -/
theorem sum_same_eq_sum_clusters (n K : Nat) (c : Nat → Nat) (hc : ∀ i, i < n → c i < K) (x y : Nat → Rat) :
    (∑ i ∈ range n, ∑ j ∈ range n, if c i = c j then x i * y j else 0)
      = ∑ k ∈ range K, (∑ i ∈ range n, if c i = k then x i else 0) * (∑ j ∈ range n, if c j = k then y j else 0) := by
  symm
  calc ∑ k ∈ range K, (∑ i ∈ range n, if c i = k then x i else 0) * (∑ j ∈ range n, if c j = k then y j else 0)
      = ∑ k ∈ range K, ∑ i ∈ range n, ∑ j ∈ range n, if c i = k ∧ c j = k then x i * y j else 0 := by
        refine sum_congr rfl fun k _ => ?_
        rw [sum_mul_sum]
        refine sum_congr rfl fun i _ => sum_congr rfl fun j _ => ?_
        by_cases h1 : c i = k <;> by_cases h2 : c j = k <;> simp [h1, h2]
    _ = ∑ i ∈ range n, ∑ k ∈ range K, ∑ j ∈ range n, if c i = k ∧ c j = k then x i * y j else 0 := sum_comm
    _ = ∑ i ∈ range n, ∑ j ∈ range n, ∑ k ∈ range K, if c i = k ∧ c j = k then x i * y j else 0 :=
        sum_congr rfl fun i _ => sum_comm
    _ = ∑ i ∈ range n, ∑ j ∈ range n, if c i = c j then x i * y j else 0 := by
        refine sum_congr rfl fun i hi => sum_congr rfl fun j _ => ?_
        rw [sum_eq_single_of_mem (c i) (mem_range.mpr (hc i (mem_range.mp hi)))]
        · by_cases h : c i = c j
          · simp [h]
          · have : ¬ c j = c i := fun e => h e.symm
            simp [h, this]
        · intro k _ hk
          simp [Ne.symm hk]

theorem objectiveFast_eq (kind : Kind) (n : Nat) (A : Nat → Nat → Rat) (γ : Rat) (c : Nat → Nat) (K : Nat)
    (hc : ∀ i, i < n → c i < K) :
    objective kind n A γ c =
      match kind with
      | .dugue => objectiveFast n A (totalWeight n A) (fun i => outDeg n A i / totalWeight n A)
          (fun j => inDeg n A j / totalWeight n A) γ c K
      | .newman => objectiveFast n A (totalWeight n A) (fun i => outDeg n A i / totalWeight n A)
          (fun j => outDeg n A j / totalWeight n A) γ c K
      | .potts => objectiveFast n A (totalWeight n A) (fun _ => 1 / (n : Rat)) (fun _ => 1 / (n : Rat)) γ c K
      | .other => 0 := by
  cases kind <;> simp only [objective, objectiveFast, clusterSum, sumTo_eq]
  · rw [doc_split, sum_same_eq_sum_clusters n K c hc]
  · rw [doc_split, sum_same_eq_sum_clusters n K c hc]
  · rw [← sum_same_eq_sum_clusters n K c hc]
    congr 2
    refine sum_congr rfl fun i _ => sum_congr rfl fun j _ => ?_
    split_ifs
    · ring
    · rfl

end SkNet.Modularity
