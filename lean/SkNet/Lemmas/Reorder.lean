/- `reorder_dendrogram`: the stable lexsort on (height, larger child) puts every child merge before its parent
   when heights never decrease towards the root; renaming the nodes accordingly keeps the dendrogram valid. -/
import SkNet.Lemmas.Static
import SkNet.Lemmas.CutExact

set_option linter.unusedSimpArgs false

namespace SkNet.Dendro
open SkNet SkNet.Cut

section sort
variable {α : Type} [LinearOrder α]

def mx (r : Row α) : Nat := max r.i r.j

theorem keyLt_iff (a b : Row α) :
    keyLt a b = true ↔ a.h < b.h ∨ (¬ b.h < a.h ∧ mx a < mx b) := by
  simp [keyLt, mx]

theorem keyLt_asymm {a b : Row α} (h : keyLt a b = true) : keyLt b a = false := by
  rw [← Bool.not_eq_true, keyLt_iff]
  rw [keyLt_iff] at h
  rintro (h1 | ⟨h1, h2⟩)
  · rcases h with h | ⟨h, _⟩
    · exact lt_asymm h h1
    · exact h h1
  · rcases h with h | ⟨_, h⟩
    · exact h1 h
    · omega

theorem keyLt_trans {a b c : Row α} (h1 : keyLt a b = true) (h2 : keyLt b c = true) : keyLt a c = true := by
  rw [keyLt_iff] at h1 h2 ⊢
  rcases h1 with h1 | ⟨h1, h1'⟩
  · rcases h2 with h2 | ⟨h2, _⟩
    · exact Or.inl (lt_trans h1 h2)
    · exact Or.inl (lt_of_lt_of_le h1 (not_lt.mp h2))
  · rcases h2 with h2 | ⟨h2, h2'⟩
    · exact Or.inl (lt_of_le_of_lt (not_lt.mp h1) h2)
    · exact Or.inr ⟨not_lt.mpr (le_trans (not_lt.mp h1) (not_lt.mp h2)), by omega⟩

/-- the comparison of two row numbers used by the insertion -/
def ltIdx (D : Dendro α) (t u : Nat) : Bool :=
  match D[t]?, D[u]? with
  | some rt, some ru => keyLt rt ru
  | _, _ => false

theorem insertIdx_eq (D : Dendro α) (t u : Nat) (us : List Nat) :
    insertIdx D t (u :: us) = if ltIdx D u t then u :: insertIdx D t us else t :: u :: us := by
  unfold ltIdx
  rw [insertIdx]
  cases h1 : D[t]? <;> cases h2 : D[u]? <;> simp

theorem ltIdx_asymm {D : Dendro α} {a b : Nat} (h : ltIdx D a b = true) : ltIdx D b a = false := by
  unfold ltIdx at h ⊢
  cases ha : D[a]? <;> cases hb : D[b]? <;> simp_all
  exact keyLt_asymm h

theorem ltIdx_trans {D : Dendro α} {a b c : Nat} (h1 : ltIdx D a b = true) (h2 : ltIdx D b c = true) :
    ltIdx D a c = true := by
  unfold ltIdx at h1 h2 ⊢
  cases ha : D[a]? <;> cases hb : D[b]? <;> cases hc : D[c]? <;> simp_all
  exact keyLt_trans h1 h2

/-- the key order is a strict weak order: what is below `c` is below `b` or `b` is below `c` -/
theorem keyLt_negtrans {a c : Row α} (b : Row α) (h : keyLt a c = true) : keyLt a b = true ∨ keyLt b c = true := by
  rw [keyLt_iff] at h
  rw [keyLt_iff, keyLt_iff]
  by_cases h1 : a.h < b.h
  · exact Or.inl (Or.inl h1)
  · by_cases h2 : b.h < c.h
    · exact Or.inr (Or.inl h2)
    · -- b.h ≤ a.h and c.h ≤ b.h
      rcases h with h | ⟨h3, h4⟩
      · exact absurd (lt_of_lt_of_le h (not_lt.mp h2)) h1
      · have hba : ¬ b.h < a.h := fun hh => h3 (lt_of_le_of_lt (not_lt.mp h2) hh)
        have hcb : ¬ c.h < b.h := fun hh => h3 (lt_of_lt_of_le hh (not_lt.mp h1))
        by_cases h5 : mx a < mx b
        · exact Or.inl (Or.inr ⟨hba, h5⟩)
        · exact Or.inr (Or.inr ⟨hcb, by omega⟩)

theorem ltIdx_negtrans {D : Dendro α} {a c : Nat} (b : Nat) (hb : b < D.length) (h : ltIdx D a c = true) :
    ltIdx D a b = true ∨ ltIdx D b c = true := by
  unfold ltIdx at h ⊢
  rw [List.getElem?_eq_getElem hb]
  cases ha : D[a]? <;> cases hc : D[c]? <;> simp_all
  exact keyLt_negtrans _ h

/-- sortedness: no later element is strictly smaller than an earlier one -/
def SortedIdx (D : Dendro α) (l : List Nat) : Prop := l.Pairwise fun a b => ltIdx D b a = false

theorem insertIdx_sorted (D : Dendro α) (t : Nat) (l : List Nat) (hv : ∀ x ∈ l, x < D.length)
    (hl : SortedIdx D l) : SortedIdx D (insertIdx D t l) := by
  induction l with
  | nil => simp [insertIdx, SortedIdx]
  | cons u us ih =>
    rw [insertIdx_eq]
    have hu := List.pairwise_cons.mp hl
    split
    · rename_i hlt
      refine List.pairwise_cons.mpr ⟨?_, ih (fun x hx => hv x (List.mem_cons_of_mem _ hx)) hu.2⟩
      intro b hb
      have hb' := (insertIdx_perm D t us).subset hb
      rcases List.mem_cons.mp hb' with e | e
      · subst e; exact ltIdx_asymm hlt
      · exact hu.1 b e
    · rename_i hge
      refine List.pairwise_cons.mpr ⟨?_, hl⟩
      intro b hb
      rcases List.mem_cons.mp hb with e | e
      · subst e; simpa using hge
      · -- b after u: not (b < u); not (u < t); so not (b < t)
        cases hbt : ltIdx D b t with
        | false => rfl
        | true =>
          rcases ltIdx_negtrans u (hv u List.mem_cons_self) hbt with h | h
          · rw [hu.1 b e] at h; cases h
          · exact absurd h hge

theorem lexsortIdx_sorted (D : Dendro α) : SortedIdx D (lexsortIdx D) := by
  unfold lexsortIdx
  have hall : ∀ x ∈ List.range D.length, x < D.length := fun x hx => List.mem_range.mp hx
  generalize List.range D.length = idx at hall
  induction idx with
  | nil => simp [SortedIdx]
  | cons t ts ih =>
    simp only [List.foldr_cons]
    have hts : ∀ x ∈ ts, x < D.length := fun x hx => hall x (List.mem_cons_of_mem _ hx)
    refine insertIdx_sorted D t _ ?_ (ih hts)
    intro x hx
    have hperm : (ts.foldr (fun t acc => insertIdx D t acc) []).Perm ts := by
      clear ih hall hts hx
      induction ts with
      | nil => simp
      | cons a as iha => simp only [List.foldr_cons]; exact (insertIdx_perm D a _).trans (List.Perm.cons a iha)
    exact hts x (hperm.subset hx)

theorem idxOf_cons_ne' (x : Nat) (xs : List Nat) {y : Nat} (h : x ≠ y) :
    (x :: xs).idxOf y = xs.idxOf y + 1 := by
  rw [List.idxOf_cons]
  have : (x == y) = false := by simpa using h
  rw [this]; rfl

/-- in a sorted permutation a strictly smaller row comes first -/
theorem pos_lt_of_ltIdx {D : Dendro α} {l : List Nat} (hs : SortedIdx D l) (hnd : l.Nodup) {a b : Nat}
    (ha : a ∈ l) (hb : b ∈ l) (hlt : ltIdx D a b = true) : l.idxOf a < l.idxOf b := by
  induction l with
  | nil => simp at ha
  | cons x xs ih =>
    have hx := List.pairwise_cons.mp hs
    have hnd' := List.nodup_cons.mp hnd
    by_cases hax : a = x
    · subst hax
      have hba : b ≠ a := by
        intro e; subst e
        rw [ltIdx_asymm hlt] at hlt; cases hlt
      rw [List.idxOf_cons_self, idxOf_cons_ne' _ _ (Ne.symm hba)]
      omega
    · have ha' : a ∈ xs := by
        rcases List.mem_cons.mp ha with e | e
        · exact absurd e hax
        · exact e
      by_cases hbx : b = x
      · subst hbx
        -- a after b but a < b: contradicts sortedness
        have := hx.1 a ha'
        rw [hlt] at this; cases this
      · have hb' : b ∈ xs := by
          rcases List.mem_cons.mp hb with e | e
          · exact absurd e hbx
          · exact e
        rw [idxOf_cons_ne' _ _ (Ne.symm hax), idxOf_cons_ne' _ _ (Ne.symm hbx)]
        have := ih hx.2 hnd'.2 ha' hb'
        omega

end sort


/-! ### general list facts -/

theorem filterMap_all_some {β γ : Type} (f : β → Option γ) : ∀ (l : List β), (∀ x ∈ l, (f x).isSome) →
    ∀ (p : Nat) (x : β), l[p]? = some x → (l.filterMap f)[p]? = f x := by
  intro l
  induction l with
  | nil => intro _ p x h; simp at h
  | cons a as ih =>
    intro hall p x h
    obtain ⟨b, hb⟩ := Option.isSome_iff_exists.mp (hall a List.mem_cons_self)
    rw [List.filterMap_cons, hb]
    cases p with
    | zero => simp only [List.getElem?_cons_zero, Option.some.injEq] at h ⊢; subst h; exact hb.symm
    | succ p =>
      simp only [List.getElem?_cons_succ] at h ⊢
      exact ih (fun y hy => hall y (List.mem_cons_of_mem _ hy)) p x h

theorem childList_filterMap {α β : Type} (f : β → Option (Row α)) (l : List β) :
    childList (l.filterMap f) = l.flatMap fun t => match f t with | some r => [r.i, r.j] | none => [] := by
  induction l with
  | nil => rfl
  | cons a as ih =>
    rw [List.filterMap_cons, List.flatMap_cons]
    cases h : f a with
    | none => simpa using ih
    | some r => simp only [childList, List.flatMap_cons] at ih ⊢; rw [ih]

theorem range_flatMap_get {α β : Type} (g : Row α → List β) : ∀ (D : List (Row α)),
    (List.range D.length).flatMap (fun t => match D[t]? with | some r => g r | none => []) = D.flatMap g := by
  intro D
  induction D with
  | nil => rfl
  | cons r rs ih =>
    rw [List.length_cons, List.range_succ_eq_map, List.flatMap_cons, List.flatMap_map, List.flatMap_cons]
    simp only [List.getElem?_cons_zero, List.getElem?_cons_succ]
    rw [ih]

theorem nodup_map_on {f : Nat → Nat} {l : List Nat} (hf : ∀ x ∈ l, ∀ y ∈ l, f x = f y → x = y)
    (hl : l.Nodup) : (l.map f).Nodup := by
  induction l with
  | nil => simp
  | cons a as ih =>
    have hl' := List.nodup_cons.mp hl
    rw [List.map_cons, List.nodup_cons]
    refine ⟨?_, ih (fun x hx y hy => hf x (List.mem_cons_of_mem _ hx) y (List.mem_cons_of_mem _ hy)) hl'.2⟩
    intro hm
    obtain ⟨b, hb, e⟩ := List.mem_map.mp hm
    have := hf b (List.mem_cons_of_mem _ hb) a List.mem_cons_self e
    subst this; exact hl'.1 hb

theorem idxOf_getElem {l : List Nat} {a : Nat} (h : a ∈ l) : l[l.idxOf a]? = some a := by
  induction l with
  | nil => simp at h
  | cons x xs ih =>
    by_cases e : x = a
    · subst e; simp
    · rw [idxOf_cons_ne' _ _ e]
      simp only [List.getElem?_cons_succ]
      rcases List.mem_cons.mp h with h1 | h1
      · exact absurd h1.symm e
      · exact ih h1

theorem idxOf_inj {l : List Nat} {a b : Nat} (ha : a ∈ l) (hb : b ∈ l) (h : l.idxOf a = l.idxOf b) : a = b := by
  have h1 := idxOf_getElem ha
  have h2 := idxOf_getElem hb
  rw [h] at h1; rw [h1] at h2; exact Option.some.inj h2

theorem idxOf_of_getElem {l : List Nat} (hnd : l.Nodup) {p a : Nat} (h : l[p]? = some a) : l.idxOf a = p := by
  induction l generalizing p with
  | nil => simp at h
  | cons x xs ih =>
    have hnd' := List.nodup_cons.mp hnd
    cases p with
    | zero => simp only [List.getElem?_cons_zero, Option.some.injEq] at h; subst h; simp
    | succ p =>
      simp only [List.getElem?_cons_succ] at h
      have hmem : a ∈ xs := List.mem_of_getElem? h
      have : x ≠ a := fun e => hnd'.1 (e ▸ hmem)
      rw [idxOf_cons_ne' _ _ this, ih hnd'.2 h]


/-! ### `reorder_dendrogram` on a valid dendrogram with monotone heights -/

section reorder
variable {α : Type} [LinearOrder α]

/-- `index_new`: leaves keep their id, the merge of row `t` is renamed to `n +` its position in the sorted order -/
def indexNewOf (D : Dendro α) (x : Nat) : Nat :=
  if x < D.length + 1 then x else D.length + 1 + posOf (lexsortIdx D) (x - (D.length + 1))

def renameRow (D : Dendro α) (r : Row α) : Row α := { r with i := indexNewOf D r.i, j := indexNewOf D r.j }

theorem reorder_eq {D D' : Dendro α} (h : reorderDendrogram D = .ok D') :
    D' = (lexsortIdx D).filterMap fun t => (D[t]?).map (renameRow D) := by
  unfold reorderDendrogram at h
  simp only at h
  split at h
  · simp only [Except.ok.injEq] at h
    rw [← h]
    rfl
  · cases h

theorem mem_lexsortIdx {D : Dendro α} {t : Nat} : t ∈ lexsortIdx D ↔ t < D.length := by
  rw [(lexsortIdx_perm D).mem_iff]; simp

theorem nodup_lexsortIdx (D : Dendro α) : (lexsortIdx D).Nodup :=
  (lexsortIdx_perm D).nodup_iff.mpr List.nodup_range

theorem reorder_get {D : Dendro α} {p t : Nat} (h : (lexsortIdx D)[p]? = some t) :
    ∃ r, D[t]? = some r ∧
      ((lexsortIdx D).filterMap fun t => (D[t]?).map (renameRow D))[p]? = some (renameRow D r) := by
  have ht : t < D.length := mem_lexsortIdx.mp (List.mem_of_getElem? h)
  refine ⟨D[t], List.getElem?_eq_getElem ht, ?_⟩
  rw [filterMap_all_some _ _ _ p t h]
  · simp [List.getElem?_eq_getElem ht]
  · intro x hx
    have := mem_lexsortIdx.mp hx
    simp [List.getElem?_eq_getElem this]

/-- a child merge sorts strictly before its parent -/
theorem child_pos_lt {n : Nat} {D : Dendro α} (hs : StaticValidW (List.replicate n 1) D)
    (hm : MonoRows n D D) {t : Nat} {r : Row α} (hr : D[t]? = some r) {c : Nat}
    (hc : c = r.i ∨ c = r.j) (hcn : n ≤ c) :
    posOf (lexsortIdx D) (c - n) < posOf (lexsortIdx D) t := by
  have hn : (List.replicate n 1).length = n := by simp
  have hb := hs.bound t r hr
  rw [hn] at hb
  have ht : t < D.length := (List.getElem?_eq_some_iff.mp hr).1
  obtain ⟨rc, hrc, hle⟩ := hm r (List.mem_of_getElem? hr) c hc hcn
  have hct : c - n < t := by rcases hc with e | e <;> omega
  have hbc := hs.bound (c - n) rc hrc
  rw [hn] at hbc
  have hlt : ltIdx D (c - n) t = true := by
    unfold ltIdx
    rw [hrc, hr]
    rw [keyLt_iff]
    refine Or.inr ⟨hle, ?_⟩
    have h1 : mx rc < c := by unfold mx; omega
    have h2 : c ≤ mx r := by unfold mx; rcases hc with e | e <;> omega
    omega
  unfold posOf
  exact pos_lt_of_ltIdx (lexsortIdx_sorted D) (nodup_lexsortIdx D)
    (mem_lexsortIdx.mpr (by omega)) (mem_lexsortIdx.mpr ht) hlt

theorem indexNewOf_inj {D : Dendro α} {x y : Nat} (hx : x < 2 * D.length + 1) (hy : y < 2 * D.length + 1)
    (h : indexNewOf D x = indexNewOf D y) : x = y := by
  unfold indexNewOf at h
  by_cases h1 : x < D.length + 1 <;> by_cases h2 : y < D.length + 1
  · simpa [h1, h2] using h
  · simp only [h1, h2, if_true, if_false] at h; omega
  · simp only [h1, h2, if_true, if_false] at h; omega
  · simp only [h1, h2, if_false] at h
    have := idxOf_inj (l := lexsortIdx D) (a := x - (D.length + 1)) (b := y - (D.length + 1))
      (mem_lexsortIdx.mpr (by omega)) (mem_lexsortIdx.mpr (by omega))
      (by unfold posOf at h; omega)
    omega

/-- the reordered dendrogram satisfies the static validity conditions -/
theorem reorder_static {n : Nat} {D : Dendro α} (hs : StaticValidW (List.replicate n 1) D)
    (hm : MonoRows n D D) :
    StaticValidW (List.replicate n 1)
      ((lexsortIdx D).filterMap fun t => (D[t]?).map (renameRow D)) := by
  have hn : (List.replicate n 1).length = n := by simp
  have hlen := hs.len
  rw [hn] at hlen
  have hperm := lexsortIdx_perm D
  have hlenD' : ((lexsortIdx D).filterMap fun t => (D[t]?).map (renameRow D)).length = D.length := by
    rw [List.length_filterMap_eq_countP, List.countP_eq_length.mpr]
    · simpa using hperm.length_eq
    · intro t ht
      have := mem_lexsortIdx.mp ht
      simp [List.getElem?_eq_getElem this]
  -- every row of the result
  have hrow : ∀ (p : Nat) (r' : Row α),
      ((lexsortIdx D).filterMap fun t => (D[t]?).map (renameRow D))[p]? = some r' →
      ∃ t r, (lexsortIdx D)[p]? = some t ∧ D[t]? = some r ∧ r' = renameRow D r ∧ posOf (lexsortIdx D) t = p := by
    intro p r' hp
    have hpl : p < (lexsortIdx D).length := by
      have := (List.getElem?_eq_some_iff.mp hp).1
      rw [hlenD'] at this
      rw [hperm.length_eq]; simpa using this
    obtain ⟨r, hr, hg⟩ := reorder_get (List.getElem?_eq_getElem hpl)
    rw [hg] at hp
    exact ⟨_, r, List.getElem?_eq_getElem hpl, hr, (Option.some.inj hp).symm,
      idxOf_of_getElem (nodup_lexsortIdx D) (List.getElem?_eq_getElem hpl)⟩
  have hidx : ∀ (t : Nat) (r : Row α) (c : Nat), D[t]? = some r → (c = r.i ∨ c = r.j) →
      indexNewOf D c < n + posOf (lexsortIdx D) t := by
    intro t r c hr hc
    unfold indexNewOf
    rw [hlen]
    by_cases hcn : c < n
    · simp only [hcn, if_true]; omega
    · simp only [hcn, if_false]
      have := child_pos_lt hs hm hr hc (by omega)
      omega
  refine ⟨by rw [hn, hlenD']; exact hlen, ?_, ?_, ?_⟩
  · intro p r' hp
    obtain ⟨t, r, _, hr, rfl, hpos⟩ := hrow p r' hp
    rw [hn]
    have hb := hs.bound t r hr
    rw [hn] at hb
    have ht : t < D.length := (List.getElem?_eq_some_iff.mp hr).1
    refine ⟨?_, ?_, ?_⟩
    · rw [← hpos]; exact hidx t r r.i hr (Or.inl rfl)
    · rw [← hpos]; exact hidx t r r.j hr (Or.inr rfl)
    · intro e
      exact hb.2.2 (indexNewOf_inj (by omega) (by omega) e)
  · -- all children distinct
    rw [childList_filterMap]
    have h1 : ((lexsortIdx D).flatMap fun t =>
        match (D[t]?).map (renameRow D) with | some r => [r.i, r.j] | none => []).Perm
        ((List.range D.length).flatMap fun t =>
        match (D[t]?).map (renameRow D) with | some r => [r.i, r.j] | none => []) :=
      List.Perm.flatMap_right _ hperm
    rw [h1.nodup_iff]
    have h2 : ((List.range D.length).flatMap fun t =>
        match (D[t]?).map (renameRow D) with | some r => [r.i, r.j] | none => []) =
        (childList D).map (indexNewOf D) := by
      have := range_flatMap_get (fun (r : Row α) => [indexNewOf D r.i, indexNewOf D r.j]) D
      rw [show (childList D).map (indexNewOf D) = D.flatMap (fun r => [indexNewOf D r.i, indexNewOf D r.j]) by
        simp [childList, List.map_flatMap]]
      rw [← this]
      congr 1
      funext t
      cases D[t]? <;> rfl
    rw [h2]
    refine nodup_map_on ?_ hs.nodup
    intro x hx y hy e
    have hbound : ∀ z ∈ childList D, z < 2 * D.length + 1 := by
      intro z hz
      simp only [childList, List.mem_flatMap] at hz
      obtain ⟨r, hr, hz⟩ := hz
      obtain ⟨t, ht, hrt⟩ := List.getElem_of_mem hr
      have hb := hs.bound t r (by rw [List.getElem?_eq_getElem ht, hrt])
      rw [hn] at hb
      simp only [List.mem_cons, List.not_mem_nil, or_false] at hz
      rcases hz with e | e <;> omega
    exact indexNewOf_inj (hbound x hx) (hbound y hy) e
  · -- sizes
    intro p r' hp
    obtain ⟨t, r, _, hr, rfl, _⟩ := hrow p r' hp
    have hsz := hs.size t r hr
    have hb := hs.bound t r hr
    rw [hn] at hb
    have ht : t < D.length := (List.getElem?_eq_some_iff.mp hr).1
    have key : ∀ c, c < n + t →
        szW (List.replicate n 1) ((lexsortIdx D).filterMap fun t => (D[t]?).map (renameRow D)) (indexNewOf D c) =
          szW (List.replicate n 1) D c := by
      intro c hc
      unfold szW indexNewOf
      rw [hn, hlen]
      by_cases hcn : c < n
      · simp [hcn]
      · simp only [hcn, if_false]
        have e1 : ¬ (n + posOf (lexsortIdx D) (c - n) < n) := by omega
        simp only [e1, if_false, Nat.add_sub_cancel_left]
        have hct : c - n < D.length := by omega
        have hmem := mem_lexsortIdx.mpr hct
        obtain ⟨rc, hrc, hg⟩ := reorder_get (idxOf_getElem hmem)
        unfold posOf
        rw [hg, hrc]
        rfl
    show r.s = _
    rw [hsz]
    show _ = szW _ _ (indexNewOf D r.i) + szW _ _ (indexNewOf D r.j)
    rw [key r.i hb.1, key r.j hb.2.1]

end reorder


section sortedOut
variable {α : Type} [LinearOrder α]

theorem heightsSorted_of_pairwise : ∀ (D : Dendro α), D.Pairwise (fun a b => ¬ b.h < a.h) →
    heightsSorted D = true := by
  intro D
  induction D with
  | nil => intro _; rfl
  | cons a l ih =>
    intro h
    have ha := List.pairwise_cons.mp h
    cases l with
    | nil => rfl
    | cons b l' =>
      have := ih ha.2
      unfold heightsSorted at this ⊢
      simp only [List.drop_one, List.tail_cons, List.zip_cons_cons, List.all_cons, Bool.and_eq_true] at this ⊢
      refine ⟨by simpa using ha.1 b List.mem_cons_self, this⟩

theorem reorder_sorted (D : Dendro α) :
    heightsSorted ((lexsortIdx D).filterMap fun t => (D[t]?).map (renameRow D)) = true := by
  apply heightsSorted_of_pairwise
  refine List.Pairwise.filterMap _ ?_ (lexsortIdx_sorted D)
  intro a a' hlt b hb b' hb'
  simp only [Option.map_eq_some_iff] at hb hb'
  obtain ⟨ra, hra, rfl⟩ := hb
  obtain ⟨ra', hra', rfl⟩ := hb'
  unfold ltIdx at hlt
  rw [hra', hra] at hlt
  simp only at hlt
  intro hh
  have : keyLt ra' ra = true := (keyLt_iff _ _).mpr (Or.inl hh)
  rw [hlt] at this; cases this

end sortedOut


section sameTree
variable {α : Type} [LinearOrder α]

theorem split_at {β : Type} {l : List β} {t : Nat} {r : β} (h : l[t]? = some r) :
    l = l.take t ++ r :: l.drop (t + 1) ∧ (l.take t).length = t := by
  have ht : t < l.length := (List.getElem?_eq_some_iff.mp h).1
  have hr : l[t] = r := by
    have := List.getElem?_eq_getElem ht; rw [this] at h; exact Option.some.inj h
  refine ⟨?_, by simp [Nat.min_eq_left (Nat.le_of_lt ht)]⟩
  rw [← hr, ← List.drop_eq_getElem_cons ht, List.take_append_drop]

/-- the reordered dendrogram has the same merges: the node renamed from `x` has the same leaves, in the same order -/
theorem reorder_leaves {n : Nat} {D : Dendro α} (hv : ValidDendro n D = true) (hm : MonoPaths n D = true) :
    ∀ x, x < n + D.length →
      leaves n ((lexsortIdx D).filterMap fun t => (D[t]?).map (renameRow D)) (indexNewOf D x) = leaves n D x := by
  have hlen := valid_length hv
  have hs := static_of_valid (w := List.replicate n 1) hv
  have hs' := reorder_static hs (monoRows_of_monoPaths hm)
  have hv' : ValidDendro n ((lexsortIdx D).filterMap fun t => (D[t]?).map (renameRow D)) = true :=
    valid_of_static hs'
  intro x
  induction x using Nat.strongRecOn with
  | _ x ih =>
    intro hx
    by_cases hxn : x < n
    · have : indexNewOf D x = x := by unfold indexNewOf; simp [hlen, hxn]
      rw [this, leaves_leaf n _ hxn, leaves_leaf n _ hxn]
    · have ht : x - n < D.length := by omega
      have hr : D[x - n]? = some D[x - n] := List.getElem?_eq_getElem ht
      obtain ⟨hD, hDl⟩ := split_at hr
      have hvD : ValidDendro n (D.take (x - n) ++ D[x - n] :: D.drop (x - n + 1)) = true := by rw [← hD]; exact hv
      obtain ⟨hi, hj, _, hl, _⟩ := valid_row hvD
      rw [hDl] at hi hj hl
      rw [← hD] at hl
      have hxe : n + (x - n) = x := by omega
      rw [hxe] at hl
      -- the same row in the reordered dendrogram
      have hmem := mem_lexsortIdx.mpr ht
      obtain ⟨rc, hrc, hg⟩ := reorder_get (idxOf_getElem hmem)
      rw [hr] at hrc
      cases hrc
      obtain ⟨hD', hDl'⟩ := split_at hg
      have hvD' : ValidDendro n (List.take (List.idxOf (x - n) (lexsortIdx D))
          ((lexsortIdx D).filterMap fun t => (D[t]?).map (renameRow D)) ++
          renameRow D D[x - n] :: List.drop (List.idxOf (x - n) (lexsortIdx D) + 1)
          ((lexsortIdx D).filterMap fun t => (D[t]?).map (renameRow D))) = true := by rw [← hD']; exact hv'
      obtain ⟨_, _, _, hl', _⟩ := valid_row hvD'
      rw [hDl'] at hl'
      rw [← hD'] at hl'
      have hnew : indexNewOf D x = n + List.idxOf (x - n) (lexsortIdx D) := by
        unfold indexNewOf posOf; simp [hlen, hxn]
      rw [hnew, hl', hl]
      show leaves n _ (indexNewOf D D[x - n].i) ++ leaves n _ (indexNewOf D D[x - n].j) = _
      rw [ih _ (by omega) (by omega), ih _ (by omega) (by omega)]

end sameTree


section core
variable {α : Type} [LinearOrder α]

/-- the statement of `SkNet.C07.reorder_valid`, also used by C08 (cut_straight reorders when asked for the
    reduced dendrogram) -/
theorem reorder_valid_core {n : Nat} {D : Dendro α} (hv : ValidDendro n D = true) (hm : MonoPaths n D = true) :
    ∃ D', reorderDendrogram D = .ok D' ∧ ValidDendro n D' = true ∧ heightsSorted D' = true ∧
      (∀ x, x < n + D.length → leaves n D' (indexNewOf D x) = leaves n D x) ∧
      (∀ t r, D[t]? = some r → ∃ r', D'[posOf (lexsortIdx D) t]? = some r' ∧ r'.h = r.h ∧ r'.s = r.s) := by
  have hlen := valid_length hv
  have hs := static_of_valid (w := List.replicate n 1) hv
  have hn : (List.replicate n 1).length = n := by simp
  refine ⟨(lexsortIdx D).filterMap fun t => (D[t]?).map (renameRow D), ?_,
    valid_of_static (reorder_static hs (monoRows_of_monoPaths hm)), reorder_sorted D,
    reorder_leaves hv hm, ?_⟩
  · -- the index check of numpy passes: every child is a node of the tree
    unfold reorderDendrogram
    simp only
    have hall : (D.all fun r => decide (r.i < 2 * (D.length + 1) - 1) && decide (r.j < 2 * (D.length + 1) - 1)) = true := by
      rw [List.all_eq_true]
      intro r hr
      obtain ⟨t, ht, hrt⟩ := List.getElem_of_mem hr
      have hb := hs.bound t r (by rw [List.getElem?_eq_getElem ht, hrt])
      rw [hn] at hb
      simp only [Bool.and_eq_true, decide_eq_true_eq]
      omega
    rw [if_pos hall]
    rfl
  · intro t r hr
    have ht : t < D.length := (List.getElem?_eq_some_iff.mp hr).1
    obtain ⟨rc, hrc, hg⟩ := reorder_get (idxOf_getElem (mem_lexsortIdx.mpr ht))
    rw [hr] at hrc
    cases hrc
    exact ⟨_, hg, rfl, rfl⟩

end core

end SkNet.Dendro
