/-
C02: a concrete graph on which the float hash of the Weisfeiler-Lehman kernel collides (found by the
independent review, design-notes/review/C02.md). With x = −π/3.15 the polynomial (1−x)(1+x)^5 =
1+4x+5x²−5x⁴−4x⁵−x⁶ has |p(x)| ≈ 2.7e-13 < 1e-10 and p(1) = 0, so the neighbour-colour multisets
{0,1⁴,2⁵} and {4⁵,5⁴,6} (equal sizes) get hashes the kernel's epsilon test cannot tell apart.
`collisionAdj` (63 nodes, undirected, sorted rows) has a node 0 with the first multiset and nodes 11..23 with
the second after round 1; `collisionPowers` is numpy's `(-np.pi / 3.15) ** np.arange(63)` as IEEE bit patterns
(the harness sends the same array with the run line of this graph and compares the model's colours with the
implementation's, bit for bit). Both facts below are kernel evaluations (`decide +kernel`, no axiom).
-/
import SkNet.Lemmas.WLSpecTab
import SkNet.Model.WLWitness

namespace SkNet.WL

theorem collisionAdj_wf : WFAdj collisionAdj := wfAdj_of_check _ (by decide +kernel)

set_option maxRecDepth 100000 in
/-- the float kernel gives node 0 and node 11 the same final colour -/
theorem collision_same_colour :
    (colorWL (floatOps collisionPowers) collisionAdj none).getD 0 0
      = (colorWL (floatOps collisionPowers) collisionAdj none).getD 11 0 := by decide +kernel

set_option maxRecDepth 100000 in
theorem collision_tab : tget (classTab collisionAdj 2) 0 11 = false := by decide +kernel

/-- two rounds of colour refinement separate node 0 from node 11 -/
theorem collision_separated : sameClass collisionAdj 2 0 11 = false := by
  rw [← classTab_eq collisionAdj collisionAdj_wf 2 0 11 (by decide) (by decide)]
  exact collision_tab

end SkNet.WL
