/-
C02: a concrete graph on which the float hash of the Weisfeiler-Lehman kernel collides (found by the
independent review, design-notes/review/C02.md). With x = −π/3.15 the polynomial (1−x)(1+x)^5 =
1+4x+5x²−5x⁴−4x⁵−x⁶ has |p(x)| ≈ 2.7e-13 < 1e-10 and p(1) = 0, so the neighbour-colour multisets
{0,1⁴,2⁵} and {4⁵,5⁴,6} (equal sizes) get hashes the kernel's epsilon test cannot tell apart.
`collisionAdj` (63 nodes, undirected, sorted rows) has a node 0 with the first multiset and nodes 11..23 with
the second after round 1; `collisionPowers` is numpy's `(-np.pi / 3.15) ** np.arange(63)` as IEEE bit patterns
(the harness sends the same array with the run line of this graph and compares the model's colours with the
implementation's, bit for bit). Both facts below are kernel evaluations (`decide +kernel`, no axiom).
-/
import SkNet.Lemmas.WLSpecTab

namespace SkNet.WL

def collisionAdj : List (List Nat) :=
  [[1, 2, 3, 4, 5, 6, 7, 8, 9, 10],
   [0],
   [0, 3],
   [0, 2],
   [0, 5],
   [0, 4],
   [0, 7, 10],
   [0, 6, 8],
   [0, 7, 9],
   [0, 8, 10],
   [0, 6, 9],
   [24, 25, 26, 27, 28, 37, 38, 39, 40, 50],
   [25, 26, 27, 28, 29, 38, 39, 40, 41, 51],
   [26, 27, 28, 29, 30, 39, 40, 41, 42, 52],
   [27, 28, 29, 30, 31, 40, 41, 42, 43, 53],
   [28, 29, 30, 31, 32, 41, 42, 43, 44, 54],
   [29, 30, 31, 32, 33, 42, 43, 44, 45, 55],
   [30, 31, 32, 33, 34, 43, 44, 45, 46, 56],
   [31, 32, 33, 34, 35, 44, 45, 46, 47, 57],
   [32, 33, 34, 35, 36, 45, 46, 47, 48, 58],
   [24, 33, 34, 35, 36, 46, 47, 48, 49, 59],
   [24, 25, 34, 35, 36, 37, 47, 48, 49, 60],
   [24, 25, 26, 35, 36, 37, 38, 48, 49, 61],
   [24, 25, 26, 27, 36, 37, 38, 39, 49, 62],
   [11, 20, 21, 22, 23, 25, 26, 27, 34, 35, 36],
   [11, 12, 21, 22, 23, 24, 26, 27, 28, 35, 36],
   [11, 12, 13, 22, 23, 24, 25, 27, 28, 29, 36],
   [11, 12, 13, 14, 23, 24, 25, 26, 28, 29, 30],
   [11, 12, 13, 14, 15, 25, 26, 27, 29, 30, 31],
   [12, 13, 14, 15, 16, 26, 27, 28, 30, 31, 32],
   [13, 14, 15, 16, 17, 27, 28, 29, 31, 32, 33],
   [14, 15, 16, 17, 18, 28, 29, 30, 32, 33, 34],
   [15, 16, 17, 18, 19, 29, 30, 31, 33, 34, 35],
   [16, 17, 18, 19, 20, 30, 31, 32, 34, 35, 36],
   [17, 18, 19, 20, 21, 24, 31, 32, 33, 35, 36],
   [18, 19, 20, 21, 22, 24, 25, 32, 33, 34, 36],
   [19, 20, 21, 22, 23, 24, 25, 26, 33, 34, 35],
   [11, 21, 22, 23, 38, 39, 40, 41, 46, 47, 48, 49],
   [11, 12, 22, 23, 37, 39, 40, 41, 42, 47, 48, 49],
   [11, 12, 13, 23, 37, 38, 40, 41, 42, 43, 48, 49],
   [11, 12, 13, 14, 37, 38, 39, 41, 42, 43, 44, 49],
   [12, 13, 14, 15, 37, 38, 39, 40, 42, 43, 44, 45],
   [13, 14, 15, 16, 38, 39, 40, 41, 43, 44, 45, 46],
   [14, 15, 16, 17, 39, 40, 41, 42, 44, 45, 46, 47],
   [15, 16, 17, 18, 40, 41, 42, 43, 45, 46, 47, 48],
   [16, 17, 18, 19, 41, 42, 43, 44, 46, 47, 48, 49],
   [17, 18, 19, 20, 37, 42, 43, 44, 45, 47, 48, 49],
   [18, 19, 20, 21, 37, 38, 43, 44, 45, 46, 48, 49],
   [19, 20, 21, 22, 37, 38, 39, 44, 45, 46, 47, 49],
   [20, 21, 22, 23, 37, 38, 39, 40, 45, 46, 47, 48],
   [11, 51, 52, 53, 54, 55, 56, 57, 58, 59, 60, 61, 62],
   [12, 50, 52, 53, 54, 55, 56, 57, 58, 59, 60, 61, 62],
   [13, 50, 51, 53, 54, 55, 56, 57, 58, 59, 60, 61, 62],
   [14, 50, 51, 52, 54, 55, 56, 57, 58, 59, 60, 61, 62],
   [15, 50, 51, 52, 53, 55, 56, 57, 58, 59, 60, 61, 62],
   [16, 50, 51, 52, 53, 54, 56, 57, 58, 59, 60, 61, 62],
   [17, 50, 51, 52, 53, 54, 55, 57, 58, 59, 60, 61, 62],
   [18, 50, 51, 52, 53, 54, 55, 56, 58, 59, 60, 61, 62],
   [19, 50, 51, 52, 53, 54, 55, 56, 57, 59, 60, 61, 62],
   [20, 50, 51, 52, 53, 54, 55, 56, 57, 58, 60, 61, 62],
   [21, 50, 51, 52, 53, 54, 55, 56, 57, 58, 59, 61, 62],
   [22, 50, 51, 52, 53, 54, 55, 56, 57, 58, 59, 60, 62],
   [23, 50, 51, 52, 53, 54, 55, 56, 57, 58, 59, 60, 61]]
def collisionPowers : Array Float :=
  #[Float.ofBits 4607182418800017408, Float.ofBits 13830530415450247069, Float.ofBits 4607134402554203651, Float.ofBits 13830482527359738669, Float.ofBits 4607086642276954244, Float.ofBits 13830434894554614812, Float.ofBits 4607039136603732979, Float.ofBits 13830387515673981236, Float.ofBits 4606991884177277821, Float.ofBits 13830340389364198437, Float.ofBits 4606944883647562126, Float.ofBits 13830293514278842991, Float.ofBits 4606898133671756074, Float.ofBits 13830246889078669089, Float.ofBits 4606851632914188301, Float.ofBits 13830200512431570271, Float.ofBits 4606805380046307738, Float.ofBits 13830154383012541370, Float.ofBits 4606759373746645656, Float.ofBits 13830108499503640657, Float.ofBits 4606713612700777909, Float.ofBits 13830062860593952181, Float.ofBits 4606668095601287380, Float.ofBits 13830017464979548320, Float.ofBits 4606622821147726630, Float.ofBits 13829972311363452528, Float.ofBits 4606577788046580740, Float.ofBits 13829927398455602276, Float.ofBits 4606532995011230357, Float.ofBits 13829882724972812196, Float.ofBits 4606488440761914933, Float.ofBits 13829838289638737420, Float.ofBits 4606444124025696163, Float.ofBits 13829794091183837115, Float.ofBits 4606400043536421617, Float.ofBits 13829750128345338207, Float.ofBits 4606356198034688563, Float.ofBits 13829706399867199311, Float.ofBits 4606312586267807986, Float.ofBits 13829662904500074838, Float.ofBits 4606269206989768799, Float.ofBits 13829619641001279302, Float.ofBits 4606226058961202245, Float.ofBits 13829576608134751820, Float.ofBits 4606183140949346484, Float.ofBits 13829533804671020792, Float.ofBits 4606140451728011374, Float.ofBits 13829491229387168776, Float.ofBits 4606097990077543440, Float.ofBits 13829448881066797551, Float.ofBits 4606055754784791024, Float.ofBits 13829406758499993359, Float.ofBits 4606013744643069630, Float.ofBits 13829364860483292344, Float.ofBits 4605971958452127442, Float.ofBits 13829323185819646160, Float.ofBits 4605930395018111037, Float.ofBits 13829281733318387778, Float.ofBits 4605889053153531273, Float.ofBits 13829240501795197464, Float.ofBits 4605847931677229366, Float.ofBits 13829199490072068945, Float.ofBits 4605807029414343139]

theorem collisionAdj_wf : WFAdj collisionAdj := wfAdj_of_check _ (by decide +kernel)

set_option maxRecDepth 100000 in
/-- the float kernel gives node 0 and node 11 the same final colour -/
theorem collision_same_colour :
    (colorWL (floatOps collisionPowers) collisionAdj none).getD 0 0
      = (colorWL (floatOps collisionPowers) collisionAdj none).getD 11 0 := by decide +kernel

set_option maxRecDepth 100000 in
theorem collision_tab : tget (classTab collisionAdj 2) 0 11 = false := by decide +kernel

/-- two rounds of colour refinement separate node 0 from node 11 -/
theorem collision_separated : sameClass collisionAdj 2 0 11 = false := by
  rw [← classTab_eq collisionAdj collisionAdj_wf 2 0 11 (by decide) (by decide)]
  exact collision_tab

end SkNet.WL
